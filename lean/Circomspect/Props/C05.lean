/-
C05 — Comments are transparent: they never hide code and never change findings.

`Strip.preprocess` is the model of the Rust stripper (`parser_logic::preprocess`, after the
`fix:` commit), `StripSpec.strip` the reference lexer written from the property text.  All
theorems quantify over every character sequence.  The tie between model and code is the
exhaustive/random differential run of `checks/c05.py` through the `verif` hook.
-/
import Circomspect.Lemmas.StripLemmas

namespace Circomspect.C05
open Circomspect Strip StripSpec StripLemmas

/-- the stripper is the reference lexer, on every input -/
theorem C05_refines (s : List Char) : preprocess s = strip s := refines s

/-- block comments end at the first following `*/`, whatever they contain (runs of `*`, `/`,
    quotes, comment openers, non-ASCII text), and the code after them is lexed as code -/
theorem C05_block_ends_at_first_close (body post : List Char) (start off : Nat)
    (h : hasClose body = false) :
    block start off (body ++ '*' :: '/' :: post) =
      (code (off + bytes' body + 2) post).map (blankAll body ++ [' ', ' '] ++ ·) :=
  block_first_close start body post h off

/-- line comments end at the next newline, whatever they contain -/
theorem C05_line_ends_at_newline (body post : List Char) (off : Nat) (h : '\n' ∉ body) :
    line off (body ++ '\n' :: post) =
      (code (off + bytes' body + 1) post).map (blankAll body ++ ['\n'] ++ ·) :=
  line_to_newline body post h off

/-- a line comment at the very end of the input (no newline) is fine -/
theorem C05_line_at_eof (body : List Char) (off : Nat) (h : '\n' ∉ body) :
    line off body = .ok (blankAll body) := line_to_eof body h off

/-- a block comment that is never closed is an error (carrying the offset of its opener),
    never a silent swallow of the rest of the file -/
theorem C05_unclosed_is_error (body : List Char) (start off : Nat) (h : hasClose body = false) :
    block start off body = .error start := block_unclosed start body h off

/-- the same statement at the level of the whole stripper, for a comment opened in code
    after any comment-free prefix of non-slash characters -/
theorem C05_unclosed_file (pre body : List Char) (hpre : '/' ∉ pre) (h : hasClose body = false) :
    preprocess (pre ++ '/' :: '*' :: body) = .error (bytes' pre) := by
  rw [refines]; unfold strip
  have : ∀ off, code off (pre ++ '/' :: '*' :: body) = .error (off + bytes' pre) := by
    induction pre with
    | nil => intro off; simp [code_slash_star, block_unclosed _ _ h, bytes', Except.map]
    | cons c r ih =>
      intro off
      have hc : c ≠ '/' := by intro e; subst e; simp at hpre
      have hr : '/' ∉ r := by intro e; exact hpre (List.mem_cons_of_mem _ e)
      simp only [List.cons_append]
      rw [code_other _ _ _ hc, ih hr]; simp [Except.map, bytes', Nat.add_assoc]
  simpa using this 0

/-- replacing every comment by blanks of the same length (which is what the stripper outputs)
    yields a text without comments: stripping is idempotent, so the parser sees the same text
    for a file and for the file with its comments blanked -/
theorem C05_blanked_comments_same_text (s o : List Char) (h : strip s = .ok o) : strip o = .ok o :=
  (idem_all s.length s (Nat.le_refl _) 0 0 o).1 h 0

/-- non-vacuity: the shapes listed in the property -/
example : same (strip ['/', '*', '*', '*', '/', 'x']) (.ok [' ', ' ', ' ', ' ', ' ', 'x']) = true := by decide
example : same (strip ['/', '*', ' ', 'x', ' ', '*', '*', '/', 'y']) (.ok [' ', ' ', ' ', ' ', ' ', ' ', ' ', ' ', 'y']) = true := by decide
example : same (strip ['/', '/', '*', '\n', 'z']) (.ok [' ', ' ', ' ', '\n', 'z']) = true := by decide
example : same (strip ['/', '*', '/', ' ', '*', '/', 'w']) (.ok [' ', ' ', ' ', ' ', ' ', ' ', 'w']) = true := by decide
example : same (strip ['a', ' ', '/', '*', ' ', 'é']) (.error 2) = true := by decide
example : hasClose ['é', ' ', '*', '*'] = false := by decide

end Circomspect.C05
