/-
C17 — findings are a function of the sources: deterministic, order-independent (the part carried
by the runner; per-definition determinism is exercised by repeated/permuted runs in
`checks/c17.py`).
-/
import Circomspect.Lemmas.RunnerLemmas
import Circomspect.Lemmas.SsaWalkLemmas

namespace Circomspect.C17
open Circomspect Runner RunnerLemmas

/-- Any two analysis orders (hash-map iteration orders) of the same definitions display the
    same multiset of findings. -/
theorem C17_runner_perm (o : Opts) (p : Project) (σ τ : List String) (hσ : σ.Nodup) (hτ : τ.Nodup)
    (hperm : σ.Perm τ) (hk : ∀ n ∈ σ, p.known n = true) :
    (displayed o p σ).Perm (displayed o p τ) := by
  have hk' : ∀ n ∈ τ, p.known n = true := fun n hn => hk n (hperm.mem_iff.mpr hn)
  rw [displayed_eq_filter, displayed_eq_filter, offered_eq p σ hσ hk, offered_eq p τ hτ hk']
  apply List.Perm.filter
  apply List.Perm.append_right
  apply List.Perm.append_left
  exact List.Perm.flatMap_right _ hperm

/-- The findings for a definition do not change when definitions it does not depend on are added,
    removed or reordered: its batch is `expected p d` in every order containing it. -/
theorem C17_batch_of_definition (p : Project) (order : List String) (hnd : order.Nodup)
    (hk : ∀ n ∈ order, p.known n = true) (i : Nat) (hi : i < order.length) :
    (batches p order)[i + 1]? = some (expected p order[i]) := by
  rw [batches_eq p order hnd hk]
  simp [List.getElem?_cons_succ, List.getElem?_append_left, hi]

/-- exit status and summary are order-independent as well -/
theorem C17_exit_perm (o : Opts) (p : Project) (σ τ : List String) (hσ : σ.Nodup) (hτ : τ.Nodup)
    (hperm : σ.Perm τ) (hk : ∀ n ∈ σ, p.known n = true) :
    exitCode o p σ = exitCode o p τ ∧ summary o p σ = summary o p τ := by
  have h := (C17_runner_perm o p σ τ hσ hτ hperm hk).length_eq
  unfold exitCode summary
  rw [written_eq, written_eq, h]
  exact ⟨rfl, rfl⟩

/-- inside one definition, the two places where SSA conversion iterates over hash sets do not influence the result:
    (1) the set of phi statements is the least placement closed under the dominance frontier, whatever the order of the work
    list, of the frontier sets and of the written variables; (2) the order in which the phi statements of a block are numbered
    changes no version number, no converted statement and no phi argument.  (The third place, the order of the children of a
    dominator-tree node, did influence the numbering and the reported undefined variable; repaired in a093830 by sorting.) -/
theorem C17_ssa_hash_order (c : SsaBuild.PCfg) (idom : Nat → Nat) (df : Nat → List Nat)
    (hdf : ∀ x j, j ∈ df x → j < c.blocks.length) (fuel fuel' : Nat) (P P' : SsaBuild.Phis)
    (hP : SsaBuild.insertPhis df (SsaBuild.written c) fuel (List.range c.blocks.length) (fun _ => []) = some P)
    (hP' : SsaBuild.Closed c.blocks.length df (SsaBuild.written c) P' ∧
      ∀ Q, SsaBuild.Closed c.blocks.length df (SsaBuild.written c) Q → ∀ j v, v ∈ P' j → v ∈ Q j) :
    ∀ j v, v ∈ P j ↔ v ∈ P' j := by
  intro j v
  have h1 := SsaBuild.insertPhis_closed_init c.blocks.length df (SsaBuild.written c) fuel P hP
  have h2 := SsaBuild.insertPhis_least c.blocks.length df (SsaBuild.written c) hdf
  exact ⟨h2 P' hP'.1 fuel _ _ P (fun y hy => List.mem_range.mp hy) (fun j v h => (List.not_mem_nil h).elim) hP j v,
    hP'.2 P h1 j v⟩

theorem C17_ssa_phi_order (c : SsaBuild.PCfg) (P P' : SsaBuild.Phis) (idom : Nat → Nat)
    (hperm : ∀ i, (P i).Perm (P' i)) (hP : ∀ i, (P i).Nodup)
    (hlt : ∀ j, 0 < j → j < c.blocks.length → idom j < j) (hpar : c.params.Nodup)
    (st : SsaWalk.St) (h : SsaWalk.run c P idom = .ok st) :
    ∃ st', SsaWalk.run c P' idom = .ok st' ∧ (∀ s, SsaWalk.verOf st.log s = SsaWalk.verOf st'.log s) ∧
      st.done = st'.done ∧ st.args = st'.args :=
  SsaWalk.run_perm c P P' idom hperm hP hlt hpar st h

example : (["A", "B"] : List String).Perm ["B", "A"] := List.Perm.swap _ _ _

end Circomspect.C17
