/-
C17 — findings are a function of the sources: deterministic, order-independent (the part carried
by the runner; per-definition determinism is exercised by repeated/permuted runs in
`checks/c17.py`).
-/
import Circomspect.Lemmas.RunnerLemmas

namespace Circomspect.C17
open Circomspect Runner RunnerLemmas

/-- Any two analysis orders (hash-map iteration orders) of the same definitions display the
    same multiset of findings. -/
theorem C17_runner_perm (o : Opts) (p : Project) (σ τ : List String) (hσ : σ.Nodup) (hτ : τ.Nodup)
    (hperm : σ.Perm τ) (hk : ∀ n ∈ σ, p.known n = true) :
    (displayed o p σ).Perm (displayed o p τ) := by
  have hk' : ∀ n ∈ τ, p.known n = true := fun n hn => hk n (hperm.mem_iff.mpr hn)
  rw [displayed_eq_filter, displayed_eq_filter, offered_eq p σ hσ hk, offered_eq p τ hτ hk']
  apply List.Perm.filter
  apply List.Perm.append_left
  exact List.Perm.flatMap_right _ hperm

/-- The findings for a definition do not change when definitions it does not depend on are added,
    removed or reordered: its batch is `expected p d` in every order containing it. -/
theorem C17_batch_of_definition (p : Project) (order : List String) (hnd : order.Nodup)
    (hk : ∀ n ∈ order, p.known n = true) (i : Nat) (hi : i < order.length) :
    (batches p order)[i + 1]? = some (expected p order[i]) := by
  rw [batches_eq p order hnd hk]
  simp [List.getElem?_cons_succ, hi]

/-- exit status and summary are order-independent as well -/
theorem C17_exit_perm (o : Opts) (p : Project) (σ τ : List String) (hσ : σ.Nodup) (hτ : τ.Nodup)
    (hperm : σ.Perm τ) (hk : ∀ n ∈ σ, p.known n = true) :
    exitCode o p σ = exitCode o p τ ∧ summary o p σ = summary o p τ := by
  have h := (C17_runner_perm o p σ τ hσ hτ hperm hk).length_eq
  unfold exitCode summary
  rw [written_eq, written_eq, h]
  exact ⟨rfl, rfl⟩

example : (["A", "B"] : List String).Perm ["B", "A"] := List.Perm.swap _ _ _

end Circomspect.C17
