/-
C19 — includes: each file once, cycles terminate, only named files reported on.

All statements are about `parseFiles` (`Model/Includes.lean`), the model of `FileStack` and the
`parse_files` loop over an abstract file system in which a file *is* its canonical path; they hold
for every include graph (chains, diamonds, cycles, self-includes), every set of named files and
every list of libraries.  `checks/c19.py` ties the model to the code: generated directory trees
(with `./`, `../` spellings and symlinks) are abstracted by an independent resolver, and the files
the real `parse_files` reads (in order), their user-input flags and the include errors with their
locations must equal the model's.
-/
import Circomspect.Lemmas.IncludeLemmas
import Circomspect.Lemmas.CfgReachLemmas

namespace Circomspect.C19
open Circomspect Includes

/-- the loop stops by itself: with `n + 1` iterations the stack is empty, and any larger number of
    iterations gives the same result (cycles and self-includes included) -/
theorem C19_terminates (fs : Fs) (inputs : List File) (hw : fs.wf inputs = true) :
    (parseFiles fs inputs).stack = [] ∧
    ∀ j, run fs (fs.n + 1 + j) (init inputs) = parseFiles fs inputs := by
  have hm : meas fs (init inputs) < fs.n + 1 := Nat.lt_succ_of_le (meas_le fs _)
  exact run_terminates fs inputs hw (fs.n + 1) (init inputs) (bnd_init fs inputs hw) hm

/-- each canonical file is handed to the parser at most once, after any number of iterations -/
theorem C19_once (fs : Fs) (inputs : List File) (k : Nat) :
    (run fs k (init inputs)).reads.Nodup :=
  (inv_run fs inputs k _ (inv_init fs inputs)).readsNodup

theorem C19_once_count (fs : Fs) (inputs : List File) (f : File) :
    (parseFiles fs inputs).reads.count f ≤ 1 :=
  List.nodup_iff_count.mp (C19_once fs inputs (fs.n + 1)) f

/-- exactly the files reachable from the named files through resolvable includes are read -/
theorem C19_reach (fs : Fs) (inputs : List File) (hw : fs.wf inputs = true) (g : File) :
    g ∈ (parseFiles fs inputs).reads ↔ Reach fs inputs g := by
  have inv := inv_run fs inputs (fs.n + 1) _ (inv_init fs inputs)
  have hstack := (C19_terminates fs inputs hw).1
  constructor
  · intro h
    exact inv.reach g (Or.inl ((inv.readsBlack g).mp h))
  · intro h
    induction h with
    | input hf =>
      rcases inv.inputsIn _ hf with h1 | h1
      · exact (inv.readsBlack _).mpr h1
      · unfold parseFiles at hstack; rw [hstack] at h1; cases h1
    | inc _ hi hr ih =>
      rcases inv.closed _ ih _ hi _ hr with h1 | h1
      · exact (inv.readsBlack _).mpr h1
      · unfold parseFiles at hstack; rw [hstack] at h1; cases h1

/-- what one library contributes to the resolution of an include -/
def libMatch (i : Inc) : Lib → Option File
  | .dir es => es.lookup i.key        -- every written path (the exception for paths starting with `.` was a defect, repaired)
  | .file t nm => if !i.sep && nm == i.key then some t else none

theorem libLookup_cons (i : Inc) (l : Lib) (r : List Lib) :
    libLookup i (l :: r) = match libMatch i l with
      | some f => some f
      | none => libLookup i r := by
  cases l with
  | dir es =>
    show (match es.lookup i.key with | some f => some f | none => libLookup i r) = _
    unfold libMatch
    rfl
  | file t nm =>
    show (if !i.sep && nm == i.key then some t else libLookup i r) = _
    show _ = match (if !i.sep && nm == i.key then some t else none) with
      | some f => some f
      | none => libLookup i r
    cases h : (!i.sep && nm == i.key) with
    | true => simp only [if_true]
    | false => simp only [Bool.false_eq_true, if_false]

/-- resolution order: the path relative to the including file wins; otherwise the first library,
    in command-line order, that has the file -/
theorem C19_resolution_order (libs : List Lib) (i : Inc) :
    (∀ p, i.rel = some p → resolve libs i = some p) ∧
    (i.rel = none → resolve libs i = libs.findSome? (libMatch i)) := by
  constructor
  · intro p hp; unfold resolve; rw [hp]
  · intro hn
    unfold resolve; rw [hn]
    show libLookup i libs = _
    induction libs with
    | nil => rfl
    | cons l r ih =>
      rw [List.findSome?_cons, libLookup_cons, ih]
      cases libMatch i l <;> rfl

/-- an include produces an error iff it cannot be resolved, and the error names the including file
    and the position of that include statement; errors appear in reading order -/
theorem C19_unresolved (fs : Fs) (inputs : List File) :
    (parseFiles fs inputs).errors =
      (parseFiles fs inputs).reads.flatMap (fun f => unresolved fs.libs f 0 (fs.incs f)) :=
  (inv_run fs inputs (fs.n + 1) _ (inv_init fs inputs)).errors

theorem unresolved_mem (libs : List Lib) (f : File) :
    ∀ (l : List Inc) (base : Nat) (f' : File) (idx : Nat),
      (f', idx) ∈ unresolved libs f base l ↔
        f' = f ∧ base ≤ idx ∧ ∃ i, l[idx - base]? = some i ∧ resolve libs i = none := by
  intro l
  induction l with
  | nil => intro base f' idx; simp [unresolved]
  | cons a t ih =>
    intro base f' idx
    unfold unresolved
    rw [List.mem_append, ih]
    constructor
    · intro h
      rcases h with h | h
      · split at h
        · rename_i hr
          have : (f', idx) = (f, base) := by simpa using h
          have h1 : f' = f := congrArg Prod.fst this
          have h2 : idx = base := congrArg Prod.snd this
          subst h1; subst h2
          exact ⟨rfl, Nat.le_refl _, a, by simp, hr⟩
        · cases h
      · obtain ⟨h1, h2, i, h3, h4⟩ := h
        refine ⟨h1, by omega, i, ?_, h4⟩
        have : idx - base = (idx - (base + 1)) + 1 := by omega
        rw [this, List.getElem?_cons_succ]; exact h3
    · intro h
      obtain ⟨h1, h2, i, h3, h4⟩ := h
      by_cases hb : idx = base
      · left
        subst hb
        have : a = i := by simpa using h3
        subst this
        rw [if_pos h4, h1]
        exact List.mem_singleton.mpr rfl
      · right
        refine ⟨h1, by omega, i, ?_, h4⟩
        have : idx - base = (idx - (base + 1)) + 1 := by omega
        rw [this, List.getElem?_cons_succ] at h3; exact h3

/-- membership form: the `idx`-th include of `f` is reported iff `f` was read and that include
    resolves neither relative to `f` nor through a library -/
theorem C19_unresolved_iff (fs : Fs) (inputs : List File) (f : File) (idx : Nat) :
    (f, idx) ∈ (parseFiles fs inputs).errors ↔
      f ∈ (parseFiles fs inputs).reads ∧
        ∃ i, (fs.incs f)[idx]? = some i ∧ resolve fs.libs i = none := by
  rw [C19_unresolved, List.mem_flatMap]
  constructor
  · intro ⟨f', hf', hm⟩
    have := (unresolved_mem fs.libs f' (fs.incs f') 0 f idx).mp hm
    obtain ⟨h1, _, i, h3, h4⟩ := this
    subst h1
    exact ⟨hf', i, by simpa using h3, h4⟩
  · intro ⟨hf, i, h3, h4⟩
    exact ⟨f, hf, (unresolved_mem fs.libs f (fs.incs f) 0 f idx).mpr ⟨rfl, Nat.zero_le _, i, by simpa using h3, h4⟩⟩

/-- classification: a file is a user input iff its canonical path is one of the named files, however
    it was reached; every named file is read; an included-only file is never a user input -/
theorem C19_user_inputs (fs : Fs) (inputs : List File) (hw : fs.wf inputs = true) (f : File) :
    (isUserInput inputs f = true ↔ f ∈ inputs) ∧
    (f ∈ inputs → f ∈ (parseFiles fs inputs).reads) := by
  constructor
  · unfold isUserInput; simp
  · intro h; exact (C19_reach fs inputs hw f).mpr (Reach.input h)

/-! non-vacuity: a cycle with a self-include, a diamond through a library, and an unresolvable
    include — the hypotheses hold and the results are the expected ones -/
def exFs : Fs :=
  { files := [ ⟨true, [⟨some 1, true, true, 10⟩, ⟨none, false, false, 11⟩, ⟨none, false, false, 12⟩]⟩,
               ⟨true, [⟨some 0, true, true, 13⟩, ⟨some 1, true, true, 14⟩, ⟨some 2, false, false, 11⟩]⟩,
               ⟨true, []⟩ ],
    libs := [.dir [(11, 2)]] }

example : exFs.wf [0] = true := by decide
example : (parseFiles exFs [0]).reads = [0, 2, 1] := by decide
example : (parseFiles exFs [0]).errors = [(0, 2)] := by decide

theorem badCond_iff (fs : Fs) (inputs : List File) (t : File) :
    (!((fs.files[t]?.map (·.ok)).getD false) && !inputs.contains t) = true ↔
      (fs.files[t]?.map (·.ok)).getD false = false ∧ t ∉ inputs := by
  simp

theorem mem_badFiles (fs : Fs) (inputs reads : List File) (t : File) :
    t ∈ badFiles fs inputs reads ↔
      (∃ f i, f ∈ reads ∧ i ∈ fs.incs f ∧ resolve fs.libs i = some t ∧
        (fs.files[t]?.map (·.ok)).getD false = false ∧ t ∉ inputs) ∨
      (t ∈ reads ∧ t ∉ inputs ∧ ∃ i, i ∈ fs.incs t ∧ resolve fs.libs i = none) := by
  unfold badFiles
  simp only [List.mem_eraseDups, List.mem_append, List.mem_flatMap, List.mem_filterMap, List.mem_filter]
  constructor
  · rintro (⟨f, hf, i, hi, h⟩ | ⟨ht, hc⟩)
    · left
      cases hr : resolve fs.libs i with
      | none => rw [hr] at h; cases h
      | some u =>
        rw [hr] at h
        simp only at h
        split at h
        · rename_i hc
          cases h
          have hc' := (badCond_iff fs inputs t).mp hc
          exact ⟨f, i, hf, hi, hr, hc'.1, hc'.2⟩
        · cases h
    · right
      simp only [Bool.and_eq_true, Bool.not_eq_true', List.contains_eq_mem, decide_eq_false_iff_not, List.any_eq_true,
        Option.isNone_iff_eq_none] at hc
      exact ⟨ht, hc.1, hc.2⟩
  · rintro (⟨f, i, hf, hi, hr, hok, hin⟩ | ⟨ht, hin, i, hi, hr⟩)
    · left
      refine ⟨f, hf, i, hi, ?_⟩
      rw [hr]
      simp only
      rw [if_pos ((badCond_iff fs inputs t).mpr ⟨hok, hin⟩)]
    · right
      refine ⟨ht, ?_⟩
      simp only [Bool.and_eq_true, Bool.not_eq_true', List.contains_eq_mem, decide_eq_false_iff_not, List.any_eq_true,
        Option.isNone_iff_eq_none]
      exact ⟨hin, i, hi, hr⟩

theorem mem_upEdges (fs : Fs) (inputs reads : List File) (v f : File) :
    (v, f) ∈ upEdges fs inputs reads ↔ f ∈ reads ∧ v ∉ inputs ∧ ∃ i, i ∈ fs.incs f ∧ resolve fs.libs i = some v := by
  unfold upEdges
  simp only [List.mem_flatMap, List.mem_filterMap]
  constructor
  · rintro ⟨g, hg, i, hi, h⟩
    cases hr : resolve fs.libs i with
    | none => rw [hr] at h; cases h
    | some u =>
      rw [hr] at h
      simp only at h
      split at h
      · cases h
      · rename_i hc
        simp only [Option.some.injEq, Prod.mk.injEq] at h
        obtain ⟨h1, h2⟩ := h
        subst h1; subst h2
        exact ⟨hg, by intro hm; exact hc (by simpa using hm), i, hi, hr⟩
  · rintro ⟨hf, hv, i, hi, hr⟩
    refine ⟨f, hf, i, hi, ?_⟩
    rw [hr]
    simp only
    rw [if_neg (by intro hc; exact hv (by simpa using hc))]

/-- **which include statements are reported for a file that cannot be used**: exactly the include statements `(f, idx)` of files
    that were read whose target `v` is not a named file and is, or leads to, a file `t` that cannot be opened or parsed or that
    includes a file which cannot be found (`mem_badFiles`) — `t` is reached from `v` through include statements of files that are
    not named (`upEdges`: from an included file to a file that
    includes it).  So a broken file is visible from every named file below which it lies, however deep (audit C05 round 2: at
    depth two nothing was displayed), and nothing else is reported. -/
theorem C19_bad_sites_spec (fs : Fs) (inputs reads : List File) (f : File) (idx : Nat) :
    (f, idx) ∈ badSites fs inputs reads ↔
      f ∈ reads ∧ ∃ i v, (fs.incs f)[idx]? = some i ∧ resolve fs.libs i = some v ∧ v ∉ inputs ∧
        ∃ t, t ∈ badFiles fs inputs reads ∧ Taint.Reach (upEdges fs inputs reads) t v := by
  unfold badSites
  simp only [List.mem_flatMap, List.mem_filterMap]
  constructor
  · rintro ⟨g, hg, ii, hii, h⟩
    cases hr : resolve fs.libs ii.1 with
    | none => rw [hr] at h; cases h
    | some v =>
      rw [hr] at h
      simp only at h
      split at h
      · rename_i hc
        simp only [Option.some.injEq, Prod.mk.injEq] at h
        obtain ⟨h1, h2⟩ := h
        subst h1
        simp only [Bool.and_eq_true, Bool.not_eq_true', List.contains_eq_mem, decide_eq_false_iff_not, decide_eq_true_eq,
          List.mem_flatMap] at hc
        obtain ⟨hvin, t, ht, hcl⟩ := hc
        have hget := List.mem_zipIdx_iff_getElem?.mp hii
        refine ⟨hg, ii.1, v, ?_, hr, hvin, t, ht, ?_⟩
        · rw [← h2]; simpa using hget
        · obtain ⟨s, hs, hreach⟩ := (CfgReach.closure_spec _ [t] v).mp hcl
          have : s = t := by simpa using hs
          subst this; exact hreach
      · cases h
  · rintro ⟨hf, i, v, hget, hr, hvin, t, ht, hreach⟩
    refine ⟨f, hf, (i, idx), ?_, ?_⟩
    · exact List.mem_zipIdx_iff_getElem?.mpr (by simpa using hget)
    · have h1 : inputs.contains v = false := by simpa using hvin
      have h2 : (List.flatMap (fun t => CfgReach.closure (upEdges fs inputs reads) [t]) (badFiles fs inputs reads)).contains v = true := by
        simp only [List.contains_eq_mem, decide_eq_true_eq, List.mem_flatMap]
        exact ⟨t, ht, (CfgReach.closure_spec _ [t] v).mpr ⟨t, by simp, hreach⟩⟩
      show (match resolve fs.libs i with
        | some v => if (!inputs.contains v && (List.flatMap (fun t => CfgReach.closure (upEdges fs inputs reads) [t]) (badFiles fs inputs reads)).contains v) = true then some (f, idx) else none
        | none => none) = some (f, idx)
      rw [hr]
      simp only [h1, h2, Bool.not_false, Bool.and_self, if_true]

/-- the reported include statements do not depend on the order in which the files were read: two orders of the same set of files
    give the same set of reported statements (with `C19_reach` — the files read are the files reachable from the named ones —
    they do not depend on the order of the arguments) -/
theorem C19_bad_sites_order (fs : Fs) (inputs reads reads' : List File) (h : ∀ f, f ∈ reads ↔ f ∈ reads') (s : File × Nat) :
    s ∈ badSites fs inputs reads ↔ s ∈ badSites fs inputs reads' := by
  obtain ⟨f, idx⟩ := s
  have hb : ∀ t, t ∈ badFiles fs inputs reads ↔ t ∈ badFiles fs inputs reads' := by
    intro t; simp only [mem_badFiles, h]
  have he : ∀ e, e ∈ upEdges fs inputs reads ↔ e ∈ upEdges fs inputs reads' := by
    intro ⟨a, b⟩; simp only [mem_upEdges, h]
  have hreach : ∀ t v, Taint.Reach (upEdges fs inputs reads) t v ↔ Taint.Reach (upEdges fs inputs reads') t v := by
    intro t v
    constructor
    · intro hr
      induction hr with
      | refl => exact .refl
      | step _ hedge ih => exact .step ih ((he _).mp hedge)
    · intro hr
      induction hr with
      | refl => exact .refl
      | step _ hedge ih => exact .step ih ((he _).mpr hedge)
  simp only [C19_bad_sites_spec, h, hb, hreach]

/-- `v` leads to `t`: `t` is `v`, or a file that `v` — read, not named — includes leads to `t` -/
inductive Leads (fs : Fs) (inputs reads : List File) : File → File → Prop
  | here (t : File) : Leads fs inputs reads t t
  | step {v w t : File} (i : Inc) : v ∈ reads → i ∈ fs.incs v → resolve fs.libs i = some w → w ∉ inputs →
      Leads fs inputs reads w t → Leads fs inputs reads v t

theorem leads_reach (fs : Fs) (inputs reads : List File) {v t : File} (h : Leads fs inputs reads v t) :
    Taint.Reach (upEdges fs inputs reads) t v := by
  induction h with
  | here t => exact .refl
  | step i hv hi hr hw _ ih => exact .step ih ((mem_upEdges fs inputs reads _ _).mpr ⟨hv, hw, i, hi, hr⟩)

/-- **a broken file below a named file is visible in the named file**: if a named file `u` that was read has an include statement
    whose target `v` (not named) leads, through include statements of files that were read and are not named, to a file `t` that
    cannot be used, then that include statement of `u` is reported — however long the chain is -/
theorem C19_broken_file_visible (fs : Fs) (inputs reads : List File) (u : File) (idx : Nat) (i : Inc) (v t : File)
    (hu : u ∈ reads) (hi : (fs.incs u)[idx]? = some i) (hr : resolve fs.libs i = some v) (hv : v ∉ inputs)
    (hl : Leads fs inputs reads v t) (ht : t ∈ badFiles fs inputs reads) : (u, idx) ∈ badSites fs inputs reads :=
  (C19_bad_sites_spec fs inputs reads u idx).mpr ⟨hu, i, v, hi, hr, hv, t, ht, leads_reach fs inputs reads hl⟩

/-- non-vacuity: `0` (named) includes `1`, which includes `2`, which cannot be parsed: both include statements are reported, the
    one in the named file is the one the user sees -/
example : badSites { files := [{ ok := true, includes := [{ rel := some 1, dot := false, sep := false, key := 1 }] },
                               { ok := true, includes := [{ rel := some 2, dot := false, sep := false, key := 2 }] },
                               { ok := false, includes := [] }], libs := [] } [0] [0, 1, 2] = [(0, 0), (1, 0)] := by
  rfl

end Circomspect.C19
