/-
C11 — curve-dependent checks follow the documented table and thresholds exactly.

The tables, primes and accepted names are *regenerated from /repo's source on every run*
(`Gen/Tables.lean`), so the theorems below are re-checked against what the code says now; a
changed row, digit or name makes a `decide` fail and the failing row is the replay.
-/
import Circomspect.Model.Curve
import Circomspect.Lemmas.LessThanLemmas
import Circomspect.Lemmas.DomCheck

namespace Circomspect.C11
open Circomspect.Gen Circomspect.Curve

/-- Circomlib's spelling of the documented names (the documentation writes `_strict` for the two
    templates Circomlib calls `Bits2Point_Strict` and `Point2Bits_Strict`) -/
def circomlibSpelling (n : String) : String :=
  if n == "Bits2Point_strict" then "Bits2Point_Strict"
  else if n == "Point2Bits_strict" then "Point2Bits_Strict" else n

/-- the documented set of problematic templates for a curve -/
def docNames : Curve → List String
  | .bn254 => []
  | .goldilocks => (docTable.filter (fun e => e.2.1)).map (fun e => circomlibSpelling e.1)
  | .bls12381 => (docTable.filter (fun e => e.2.2)).map (fun e => circomlibSpelling e.1)

def docFlag (c : Curve) (name : String) : Bool := (docNames c).contains name

theorem contains_congr {A B : List String} (h1 : A.all (B.contains ·) = true)
    (h2 : B.all (A.contains ·) = true) (n : String) : A.contains n = B.contains n := by
  rw [List.all_eq_true] at h1 h2
  cases hA : A.contains n <;> cases hB : B.contains n <;> try rfl
  · have h : A.contains n = true := h2 n (by simpa using hB)
    rw [hA] at h; exact h
  · have h : B.contains n = true := h1 n (by simpa using hA)
    rw [hB] at h; exact h.symm

/-- For **every** template name and every curve: flagged iff the documented table marks the
    pair. -/
theorem C11_table (c : Curve) (name : String) : flagged c name = docFlag c name := by
  cases c
  · rfl
  · exact contains_congr (A := bls12381Templates) (B := docNames .bls12381) (by decide) (by decide) name
  · exact contains_congr (A := goldilocksTemplates) (B := docNames .goldilocks) (by decide) (by decide) name

theorem instReports_cs16 (c : Curve) (i : Inst) : "CS0016" ∈ instReports c i ↔ flagged c i.name = true := by
  unfold instReports
  rw [List.mem_append]
  constructor
  · rintro (h | h)
    · cases hf : flagged c i.name
      · rw [hf] at h; simp at h
      · rfl
    · exfalso
      split at h
      · split at h <;> simp at h
      · simp at h
  · intro h; left; simp [h]

theorem instReports_cs10 (c : Curve) (i : Inst) :
    "CS0010" ∈ instReports c i ↔
      ∃ a, i.args = [a] ∧ (i.name = "Num2Bits" ∨ i.name = "Bits2Num") ∧ nonstrictFlagged c a = true := by
  unfold instReports
  rw [List.mem_append]
  constructor
  · rintro (h | h)
    · exfalso; split at h <;> simp at h
    · split at h
      · rename_i a heq
        split at h
        · rename_i hc
          simp only [Bool.and_eq_true, Bool.or_eq_true, beq_iff_eq] at hc
          exact ⟨a, heq, hc.1, hc.2⟩
        · simp at h
      · simp at h
  · rintro ⟨a, ha, hn, hf⟩
    right
    rw [ha]
    have : (i.name == "Num2Bits" || i.name == "Bits2Num") = true := by
      simp only [Bool.or_eq_true, beq_iff_eq]; exact hn
    simp [this, hf]

/-- Every instantiation of the program — in a template body or as the main component — is reported as BN254-specific exactly when
    the documented table marks (curve, template), and as a non-strict conversion exactly when the curve is BN254, the template is
    `Num2Bits`/`Bits2Num` with one argument, and that argument is not a known constant below 254. -/
theorem C11_every_instantiation (c : Curve) (bodies : List (List Inst)) (main : Option Inst) (i : Inst)
    (hi : i ∈ bodies.flatten ∨ main = some i) :
    ∃ rs, (i, rs) ∈ programReports c bodies main ∧
      ("CS0016" ∈ rs ↔ docFlag c i.name = true) ∧
      ("CS0010" ∈ rs ↔ ∃ a, i.args = [a] ∧ (i.name = "Num2Bits" ∨ i.name = "Bits2Num") ∧ c = .bn254 ∧ ¬ ∃ n, a = some n ∧ n < 254) := by
  refine ⟨instReports c i, ?_, ?_, ?_⟩
  · unfold programReports programInsts
    apply List.mem_map.mpr
    refine ⟨i, ?_, rfl⟩
    rcases hi with h | h
    · exact List.mem_append_left _ h
    · exact List.mem_append_right _ (by simp [h])
  · rw [← C11_table]; exact instReports_cs16 c i
  · rw [instReports_cs10]
    have hb : primeBits .bn254 = 254 := by decide
    constructor
    · rintro ⟨a, ha, hn, hf⟩
      refine ⟨a, ha, hn, ?_⟩
      cases c <;> cases a <;> simp [nonstrictFlagged, hb] at hf ⊢
      omega
    · rintro ⟨a, ha, hn, hc, hv⟩
      refine ⟨a, ha, hn, ?_⟩
      subst hc
      cases a with
      | none => rfl
      | some n =>
        simp [nonstrictFlagged, hb]
        apply Classical.byContradiction
        intro hlt
        exact hv ⟨n, rfl, by omega⟩

/-- non-vacuity: `component main = Num2Bits(254);` next to a template body that instantiates `Sign` -/
example : programReports .bn254 [[⟨"Sign", []⟩]] (some ⟨"Num2Bits", [some 254]⟩) =
    [(⟨"Sign", []⟩, []), (⟨"Num2Bits", [some 254]⟩, ["CS0010"])] := by decide
example : programReports .bls12381 [[⟨"Sign", []⟩]] (some ⟨"Num2Bits", [some 254]⟩) =
    [(⟨"Sign", []⟩, ["CS0016"]), (⟨"Num2Bits", [some 254]⟩, [])] := by decide

/-- nothing is ever flagged under BN254 -/
theorem C11_bn254_never (name : String) : flagged .bn254 name = false := rfl

/-- the three prime literals are the scalar-field orders of BN254, BLS12-381 and the Goldilocks
    prime `2^64 - 2^32 + 1` (stated independently, in hexadecimal) -/
theorem C11_primes :
    primeOf .bn254 = 0x30644e72e131a029b85045b68181585d2833e84879b9709143e1f593f0000001 ∧
    primeOf .bls12381 = 0x73eda753299d7d483339d80809a1d80553bda402fffe5bfeffffffff00000001 ∧
    primeOf .goldilocks = 2 ^ 64 - 2 ^ 32 + 1 := by decide

/-- bit sizes 254 / 255 / 64, in the sense `2^(b-1) ≤ p < 2^b` -/
theorem C11_prime_bits :
    primeBits .bn254 = 254 ∧ primeBits .bls12381 = 255 ∧ primeBits .goldilocks = 64 ∧
    (2 ^ 253 ≤ primeOf .bn254 ∧ primeOf .bn254 < 2 ^ 254) ∧
    (2 ^ 254 ≤ primeOf .bls12381 ∧ primeOf .bls12381 < 2 ^ 255) ∧
    (2 ^ 63 ≤ primeOf .goldilocks ∧ primeOf .goldilocks < 2 ^ 64) := by decide

/-- Under the default curve `Num2Bits(n)` / `Bits2Num(n)` is flagged unless `n` is a
    compile-time constant below 254; under the other curves never. All `n`. -/
theorem C11_num2bits (v : Option Nat) :
    (nonstrictFlagged .bn254 v = false ↔ ∃ n, v = some n ∧ n < 254) ∧
    nonstrictFlagged .bls12381 v = false ∧ nonstrictFlagged .goldilocks v = false := by
  have hb : primeBits .bn254 = 254 := by decide
  refine ⟨?_, rfl, rfl⟩
  cases v with
  | none => simp [nonstrictFlagged]
  | some n => simp [nonstrictFlagged, hb]

theorem pow_mono_two {a b : Nat} (h : a ≤ b) : 2 ^ a ≤ 2 ^ b := Nat.pow_le_pow_right (by decide) h

/-- An input of `LessThan` counts as range-checked by `Num2Bits(k)` iff every `k`-bit value is
    non-negative in the field: `2^k - 1 ≤ p/2`. All `k`, all three curves. -/
theorem C11_lessthan (c : Curve) (k : Nat) :
    rangeChecked c k = true ↔ 2 ^ k - 1 ≤ primeOf c / 2 := by
  have hbits : primeBits .bn254 = 254 ∧ primeBits .bls12381 = 255 ∧ primeBits .goldilocks = 64 := by decide
  have lo : 2 ^ 252 - 1 ≤ primeOf .bn254 / 2 ∧ 2 ^ 253 - 1 ≤ primeOf .bls12381 / 2 ∧
      2 ^ 62 - 1 ≤ primeOf .goldilocks / 2 := by decide
  have hi : ¬ (2 ^ 253 - 1 ≤ primeOf .bn254 / 2) ∧ ¬ (2 ^ 254 - 1 ≤ primeOf .bls12381 / 2) ∧
      ¬ (2 ^ 63 - 1 ≤ primeOf .goldilocks / 2) := by decide
  unfold rangeChecked
  cases c
  · rw [hbits.1]; simp only [decide_eq_true_eq]
    constructor
    · intro h; have := pow_mono_two (show k ≤ 252 by omega); have := lo.1; omega
    · intro h; apply Classical.byContradiction; intro hk
      have := pow_mono_two (show 253 ≤ k by omega); exact hi.1 (by omega)
  · rw [hbits.2.1]; simp only [decide_eq_true_eq]
    constructor
    · intro h; have := pow_mono_two (show k ≤ 253 by omega); have := lo.2.1; omega
    · intro h; apply Classical.byContradiction; intro hk
      have := pow_mono_two (show 254 ≤ k by omega); exact hi.2.1 (by omega)
  · rw [hbits.2.2]; simp only [decide_eq_true_eq]
    constructor
    · intro h; have := pow_mono_two (show k ≤ 62 by omega); have := lo.2.2; omega
    · intro h; apply Classical.byContradiction; intro hk
      have := pow_mono_two (show 63 ≤ k by omega); exact hi.2.2 (by omega)

/-- Curve names: a spelling is accepted iff its ASCII upper-casing is one of the three names
    (and nothing else is); the code folds case with the ASCII-only function. -/
theorem C11_parse (s : String) :
    (parseCurve s = some .bn254 ↔ s.toUpper = "BN254") ∧
    (parseCurve s = some .bls12381 ↔ s.toUpper = "BLS12_381") ∧
    (parseCurve s = some .goldilocks ↔ s.toUpper = "GOLDILOCKS") ∧
    (parseCurve s = none ↔ s.toUpper ≠ "BN254" ∧ s.toUpper ≠ "BLS12_381" ∧ s.toUpper ≠ "GOLDILOCKS") ∧
    caseFolding = "to_ascii_uppercase" := by
  unfold parseCurve curveNames
  generalize s.toUpper = u
  by_cases h1 : u = "BN254"
  · subst h1; decide
  · by_cases h2 : u = "BLS12_381"
    · subst h2; decide
    · by_cases h3 : u = "GOLDILOCKS"
      · subst h3; decide
      · have e1 : ("BN254" == u) = false := by simpa using fun h => h1 h.symm
        have e2 : ("BLS12_381" == u) = false := by simpa using fun h => h2 h.symm
        have e3 : ("GOLDILOCKS" == u) = false := by simpa using fun h => h3 h.symm
        simp [List.find?, e1, e2, e3, h1, h2, h3, caseFolding]

/-- the default curve is BN254 (so the `Num2Bits` check is active by default) -/
theorem C11_default_curve : defaultCurve = "BN254" := by decide

/-- non-vacuity / spot checks on the regenerated tables -/
example : flagged .goldilocks "Poseidon" = true ∧ flagged .bls12381 "Poseidon" = false ∧
    flagged .bls12381 "Bits2Point_Strict" = true ∧ flagged .goldilocks "Num2Bits" = false := by decide
example : rangeChecked .bn254 252 = true ∧ rangeChecked .bn254 253 = false := by decide

/-! ### which `Num2Bits` an input of `LessThan` is checked by (`Model/LessThanPass.lean`, repair ee9259e) -/

/-- an expression is reported exactly when some assignment of it to an input of `LessThan` is not covered by a component that
    counts as `Num2Bits(k)` with a known `k` passing the threshold of the curve (`C11_lessthan`: 2^k − 1 ≤ p/2) and has the same
    expression as its input — in a basic block that dominates the comparison if the expression reads a local variable (fix 2b59069:
    `x[i]` after a loop is another element than `x[i]` in its body; an expression over signals and parameters has one value in
    the whole template) -/
theorem C11_lessthan_reported (c : Curve) (dom : Nat → Nat → Bool) (ss : List LessThanPass.Stmt) (t : String) :
    t ∈ LessThanPass.reported c dom ss ↔ ∃ v b, LessThanPass.Input.lessThan v b ∈ LessThanPass.inputs ss ∧ v.1 = t ∧
      ¬ ∃ w k b2, LessThanPass.Input.num2bits w (some k) b2 ∈ LessThanPass.inputs ss ∧ w.1 = v.1 ∧ rangeChecked c k = true ∧
        (v.2 = true ∨ dom b2 b = true) :=
  LessThanPass.mem_reported c dom ss t

/-- why a check in a dominating block is a check of the same value: let the expression read variables defined in the blocks `ds`
    — in SSA form each of them dominates the block `b1` that evaluates the expression for the range check (C14) — and let `b1`
    dominate the block `b2` of the comparison. Then every execution path to `b2` visits `b1`, and after its last visit of `b1` it
    visits none of the defining blocks again (other than `b1` itself, whose definitions precede the check or are the loop-header
    phis evaluated on entering it): every variable of the expression still has the value that was range checked. -/
theorem C11_dominating_check (g : Graph.Graph) (ds : List Nat) (b1 b2 : Nat)
    (hdefs : ∀ d ∈ ds, Graph.Dom g d b1) (hdom : Graph.Dom g b1 b2) (π : List Nat) (hπ : Graph.Path g b2 π) :
    ∃ front back, π = front ++ b1 :: back ∧ b1 ∉ front ∧ ∀ d ∈ ds, d ≠ b1 → d ∉ front := by
  obtain ⟨front, back, e, hf, hd⟩ := DomCheck.no_redefinition hdom hπ
  exact ⟨front, back, e, hf, fun d hdm hne => hd d (hdefs d hdm) hne⟩

/-- … a component counts as `Num2Bits` of some size only if every instantiation that may be this component is a `Num2Bits` of
    that size ("counts as range-checked by `Num2Bits(k)` only if") … -/
theorem C11_lessthan_component (cs : List (LessThanPass.Key × LessThanPass.Inst)) (k : LessThanPass.Key) (s : Option Nat)
    (h : LessThanPass.bitSize (LessThanPass.candidates cs k) = some s) :
    ∃ t, ∀ e, e ∈ cs → LessThanPass.maybeEqual e.1 k = true → ∃ s', e.2 = .num2bits s' t := by
  obtain ⟨_, t, ht⟩ := LessThanPass.bitSize_some _ s h
  exact ⟨t, fun e he hm => ht e.2 ((LessThanPass.mem_candidates cs k e.2).mpr ⟨e, he, hm, rfl⟩)⟩

/-- … while its inputs are examined as inputs of `LessThan` as soon as *one* such instantiation is a `LessThan` (the review of the
    repair ee9259e: merging the instantiations of a component to "unknown" had silenced the warnings for a component that is
    `LessThan` on one branch and something else on the other) -/
theorem C11_lessthan_examined (cs : List (LessThanPass.Key × LessThanPass.Inst)) (k : LessThanPass.Key) :
    LessThanPass.mayBeLessThan (LessThanPass.candidates cs k) = true ↔
      ∃ e, e ∈ cs ∧ LessThanPass.maybeEqual e.1 k = true ∧ e.2 = .lessThan := by
  rw [LessThanPass.mayBeLessThan_iff, LessThanPass.mem_candidates]

/-- the candidates include every instantiation whose access denotes the same component in some execution that agrees with the
    index values constant propagation knows -/
theorem C11_lessthan_candidates (a b : LessThanPass.Key) (hn : a.name = b.name) (ca : List SignalAssign.CAcc)
    (ha : SignalAssign.denotesL a.acc ca) (hb : SignalAssign.denotesL b.acc ca) : LessThanPass.maybeEqual a b = true :=
  LessThanPass.maybeEqual_complete a b hn ca ha hb

/-- non-vacuity: `nb[i] = Num2Bits(8)` in a loop, `nb[2] = Num2Bits(254)`, `nb[i].in <== a` after the loop, `rb = Num2Bits(8)`,
    `rb.in <== b`, `lt.in[0] <== a; lt.in[1] <== b`: `a` is reported (the component it feeds may be the wide one), `b` is not -/
example : LessThanPass.reported .bn254 (LessThanPass.domOf [(3, [0, 1, 3]), (2, [0, 1, 2])])
    [.inst ⟨"lt", "lt", []⟩ .lessThan, .inst ⟨"nb[i.1]", "nb", [.idx none]⟩ (.num2bits (some 8) "8"),
     .inst ⟨"nb[2]", "nb", [.idx (some "f2")]⟩ (.num2bits (some 254) "254"), .inst ⟨"rb", "rb", []⟩ (.num2bits (some 8) "8"),
     .input ⟨"nb[i.1]", "nb", [.idx none]⟩ "in" false ("a", true) none 3, .input ⟨"rb", "rb", []⟩ "in" false ("b", true) none 3,
     .input ⟨"lt", "lt", []⟩ "in" true ("a", true) none 3, .input ⟨"lt", "lt", []⟩ "in" true ("b", true) none 3] = ["a"] := by
  decide

/-- non-vacuity: `c` is `LessThan` on one branch and another template on the other: both inputs are reported -/
example : LessThanPass.reported .bn254 (LessThanPass.domOf [(3, [0, 1, 3]), (2, [0, 1, 2])])
    [.inst ⟨"c", "c", []⟩ .lessThan, .inst ⟨"c", "c", []⟩ .unknown,
     .input ⟨"c", "c", []⟩ "in" true ("a", true) none 0, .input ⟨"c", "c", []⟩ "in" true ("b", true) none 0] = ["a", "b"] := by
  decide

/-- non-vacuity: `nb[i].in <== x[i]` in the loop body (block 2), `lt.in[0] <== x[i]` after the loop (block 3): the expression `x[i]`
    reads the local `i`, the range check is in another block, so it is reported; checked and compared in one block it is not -/
example : LessThanPass.reported .bn254 (LessThanPass.domOf [(3, [0, 1, 3]), (2, [0, 1, 2])])
    [.inst ⟨"lt", "lt", []⟩ .lessThan, .inst ⟨"nb[i.1]", "nb", [.idx none]⟩ (.num2bits (some 8) "8"),
     .input ⟨"nb[i.1]", "nb", [.idx none]⟩ "in" false ("x[i.1]", false) none 2,
     .input ⟨"lt", "lt", []⟩ "in" true ("x[i.1]", false) none 3] = ["x[i.1]"] ∧
  LessThanPass.reported .bn254 (LessThanPass.domOf [(3, [0, 1, 3]), (2, [0, 1, 2])])
    [.inst ⟨"lt", "lt", []⟩ .lessThan, .inst ⟨"nb[i.1]", "nb", [.idx none]⟩ (.num2bits (some 8) "8"),
     .input ⟨"nb[i.1]", "nb", [.idx none]⟩ "in" false ("x[i.1]", false) none 2,
     .input ⟨"lt", "lt", []⟩ "in" true ("x[i.1]", false) none 2] = [] := by
  decide

/-- non-vacuity: `rc.in <== total` in the entry block (0), `lt[i].in[0] <== total` in a loop body (block 2, dominated by 0 and 1): the
    check counts; with the check in the loop body and the comparison after the loop (block 3) it does not -/
example : LessThanPass.reported .bn254 (LessThanPass.domOf [(3, [0, 1, 3]), (2, [0, 1, 2])])
    [.inst ⟨"lt[i.1]", "lt", [.idx none]⟩ .lessThan, .inst ⟨"rc", "rc", []⟩ (.num2bits (some 64) "64"),
     .input ⟨"rc", "rc", []⟩ "in" false ("total.0", false) none 0,
     .input ⟨"lt[i.1]", "lt", [.idx none]⟩ "in" true ("total.0", false) none 2] = [] ∧
  LessThanPass.reported .bn254 (LessThanPass.domOf [(3, [0, 1, 3]), (2, [0, 1, 2])])
    [.inst ⟨"lt", "lt", []⟩ .lessThan, .inst ⟨"rc", "rc", []⟩ (.num2bits (some 64) "64"),
     .input ⟨"rc", "rc", []⟩ "in" false ("total.0", false) none 2,
     .input ⟨"lt", "lt", []⟩ "in" true ("total.0", false) none 3] = ["total.0"] := by
  decide

/-- non-vacuity of `C11_dominating_check`: entry 0, loop header 1, body 2, exit 3 -/
example : Graph.Dom ⟨4, fun i => if i = 1 then [0, 2] else if i = 2 then [1] else if i = 3 then [1] else []⟩ 0 0 :=
  DominatorLemmas.dom_refl _ 0

end Circomspect.C11
