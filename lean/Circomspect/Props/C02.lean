/-
C02 — no silent failure: unanalysable input is never reported as clean.

Stated on the report-flow model (`Model/Runner.lean`).  Failure classes enter through two
doors: the parser's report list (missing/unreadable file, bad pragma, lexical/syntactic error,
malformed tuple/anonymous component, duplicate definition, several mains) and CFG generation
(`gen d = (false, _)`: duplicate parameter names, undefined variable, ...).  The hypotheses say
what each door hands over — an error-level report that is either location-less or located in a
user file; the correspondence run of `checks/c02.py` injects every failure class into the real
pipeline and checks exactly these hypotheses and the conclusions on the real binary.
-/
import Circomspect.Lemmas.RunnerLemmas

namespace Circomspect.C02
open Circomspect Runner RunnerLemmas

/-- a report that survives the file filter and is an error -/
def VisibleError (r : Report) : Prop := r.level = 2 ∧ (r.located = true → r.inUser = true)

/-- CFG generation that fails says so with a visible error report (checked on the real code) -/
def GenFailuresReported (p : Project) : Prop :=
  ∀ d, (p.gen d).1 = false → ∃ r ∈ (p.gen d).2, VisibleError r

theorem keep_of_visible (o : Opts) (r : Report) (hv : VisibleError r) (hl : o.level ≤ 2)
    (ha : r.id ∉ o.allow) : keep o r = true := by
  unfold keep
  obtain ⟨h2, hloc⟩ := hv
  cases hl' : r.located <;> cases hu : r.inUser <;> simp_all

/-- a definition that could not be lifted leads to a displayed error and a non-zero exit status,
    in every analysis order and whoever looked it up first -/
theorem C02_lift_failure (o : Opts) (p : Project) (order : List String) (hnd : order.Nodup)
    (hk : ∀ n ∈ order, p.known n = true) (hg : GenFailuresReported p)
    (d : String) (hd : d ∈ order) (hfail : (p.gen d).1 = false) (hl : o.level ≤ 2)
    (ha : ∀ r ∈ (p.gen d).2, r.id ∉ o.allow) :
    (∃ r ∈ displayed o p order, r.level = 2) ∧ exitCode o p order = 1 := by
  obtain ⟨r, hr, hv⟩ := hg d hfail
  have hoff : r ∈ offered p order := by
    rw [offered_eq p order hnd hk]
    apply List.mem_append_left
    apply List.mem_append_right
    rw [List.mem_flatMap]
    exact ⟨d, hd, by unfold expected; exact List.mem_append_left _ hr⟩
  have hdisp : r ∈ displayed o p order := by
    rw [displayed_eq_filter, List.mem_filter]
    exact ⟨hoff, keep_of_visible o r hv hl (ha r hr)⟩
  refine ⟨⟨r, hdisp, hv.1⟩, ?_⟩
  unfold exitCode
  rw [written_eq]
  have : (displayed o p order).length ≠ 0 := by
    intro h; rw [List.length_eq_zero_iff] at h; rw [h] at hdisp; cases hdisp
  simp [this]

/-- a failure detected while reading/parsing (an error report in the parser's list) likewise -/
theorem C02_parse_failure (o : Opts) (p : Project) (order : List String)
    (r : Report) (hr : r ∈ p.parseReports) (hv : VisibleError r) (hl : o.level ≤ 2)
    (ha : r.id ∉ o.allow) :
    r ∈ displayed o p order ∧ exitCode o p order = 1 := by
  have hoff : r ∈ offered p order := by
    unfold offered batches
    simp only [List.flatten_cons]
    exact List.mem_append_left _ hr
  have hdisp : r ∈ displayed o p order := by
    rw [displayed_eq_filter, List.mem_filter]
    exact ⟨hoff, keep_of_visible o r hv hl ha⟩
  refine ⟨hdisp, ?_⟩
  unfold exitCode
  rw [written_eq]
  have : (displayed o p order).length ≠ 0 := by
    intro h; rw [List.length_eq_zero_iff] at h; rw [h] at hdisp; cases hdisp
  simp [this]

/-- a failure detected while the main component is analysed (since 1121aa8: CFG generation for the statement
    `component main = T(...)`) likewise -/
theorem C02_main_failure (o : Opts) (p : Project) (order : List String)
    (rs : List Report) (hm : p.mainReports = some rs)
    (r : Report) (hr : r ∈ rs) (hv : VisibleError r) (hl : o.level ≤ 2)
    (ha : r.id ∉ o.allow) :
    r ∈ displayed o p order ∧ exitCode o p order = 1 := by
  have hoff : r ∈ offered p order := by
    unfold offered batches
    simp only [List.flatten_cons, List.flatten_append, hm, Option.toList_some, List.flatten_nil, List.append_nil]
    exact List.mem_append_right _ (List.mem_append_right _ hr)
  have hdisp : r ∈ displayed o p order := by
    rw [displayed_eq_filter, List.mem_filter]
    exact ⟨hoff, keep_of_visible o r hv hl ha⟩
  refine ⟨hdisp, ?_⟩
  unfold exitCode
  rw [written_eq]
  have : (displayed o p order).length ≠ 0 := by
    intro h; rw [List.length_eq_zero_iff] at h; rw [h] at hdisp; cases hdisp
  simp [this]

/-- `No issues found.` / exit status 0 (with nothing allowed and any level up to `error`) only if
    every definition lifted, every definition was analysed (its batch was handed to the writer)
    and the parser reported no visible error -/
theorem C02_clean (o : Opts) (p : Project) (order : List String) (hnd : order.Nodup)
    (hk : ∀ n ∈ order, p.known n = true) (hg : GenFailuresReported p)
    (hl : o.level ≤ 2) (ha : o.allow = []) (hex : exitCode o p order = 0) :
    (∀ d ∈ order, (p.gen d).1 = true) ∧
    (∀ r ∈ p.parseReports, ¬ VisibleError r) ∧
    (∀ r ∈ p.mainReports.getD [], ¬ VisibleError r) ∧
    batches p order = p.parseReports :: (order.map (expected p) ++ p.mainReports.toList) := by
  refine ⟨?_, ?_, ?_, batches_eq p order hnd hk⟩
  · intro d hd
    cases hgen : (p.gen d).1 with
    | true => rfl
    | false =>
      have := (C02_lift_failure o p order hnd hk hg d hd hgen hl (by intro r _; simp [ha])).2
      rw [hex] at this; cases this
  · intro r hr hv
    have := (C02_parse_failure o p order r hr hv hl (by simp [ha])).2
    rw [hex] at this; cases this
  · intro r hr hv
    cases hm : p.mainReports with
    | none => rw [hm] at hr; cases hr
    | some rs =>
      rw [hm] at hr
      have := (C02_main_failure o p order rs hm r hr hv hl (by simp [ha])).2
      rw [hex] at this; cases this

/-- non-vacuity: a project whose only definition fails to lift -/
def exErr : Report := { id := "CS0002", level := 2, located := true, inUser := true, body := "" }
def exP : Project :=
  { parseReports := [], known := fun n => n == "f", gen := fun _ => (false, [exErr]),
    lookups := fun _ => [], passes := fun _ => [], mainReports := none }
example : GenFailuresReported exP := fun _ _ => ⟨exErr, by simp [exP], by decide, by decide⟩
example : exitCode { level := 2, allow := [] } exP ["f"] = 1 := by decide

end Circomspect.C02
