/-
C04 — every displayed location is valid (the part carried by the comment stripper).

Positions reported by the parser are byte offsets into the *stripped* text; they are shown
against the *original* file.  `C04_aligned` shows the two agree: the stripped text is the
source with some characters replaced by exactly as many blanks as they have UTF-8 bytes, so
every non-blank character keeps its byte offset, the total length is unchanged, and the start
and end of every token of the stripped text are character boundaries of the source.
For findings about statements that desugaring synthesises, `C04_desugar_locations` shows that no
location is invented: every source range on a node of a desugared template is the range of a node
of the template as written (`Lemmas/DesugarMetas.lean`, on the desugaring model of C18, which is
compared node by node, locations included, with the real desugarer on every generated definition).
The remaining clauses of C04 (which construct a pass chooses for its label) are checked by the label
audit of `checks/c04.py` on the real pipeline.
-/
import Circomspect.Lemmas.StripLemmas
import Circomspect.Lemmas.DesugarMetas

namespace Circomspect.C04
open Circomspect Strip StripSpec StripLemmas

theorem C04_aligned (s o : List Char) (h : preprocess s = .ok o) : Aligned s o := by
  rw [refines] at h
  exact (aligned_all s.length s (Nat.le_refl _) 0 0 o).1 h

/-- byte length is preserved -/
theorem C04_length (s o : List Char) (h : preprocess s = .ok o) : bytes' o = bytes' s :=
  (C04_aligned s o h).bytes_eq

/-- Offsets are preserved prefix-wise: cutting source and stripped text after the same number of
    source characters gives prefixes of equal byte length (so a byte offset computed in the
    stripped text at a character boundary denotes the same boundary in the source). -/
theorem C04_prefix_offsets {s o : List Char} (h : Aligned s o) :
    ∀ k, ∃ o₁ o₂, o = o₁ ++ o₂ ∧ bytes' o₁ = bytes' (s.take k) ∧ Aligned (s.drop k) o₂ := by
  induction h with
  | nil => intro k; exact ⟨[], [], rfl, by simp [bytes'], by simpa using Aligned.nil⟩
  | keep c hso ih =>
    intro k
    cases k with
    | zero => exact ⟨[], _, rfl, by simp [bytes'], by simpa using Aligned.keep c hso⟩
    | succ k =>
      obtain ⟨o₁, o₂, e, hb, ha⟩ := ih k
      exact ⟨c :: o₁, o₂, by simp [e], by simp [bytes', hb], by simpa using ha⟩
  | blank c hso ih =>
    intro k
    cases k with
    | zero => exact ⟨[], _, rfl, by simp [bytes'], by simpa using Aligned.blank c hso⟩
    | succ k =>
      obtain ⟨o₁, o₂, e, hb, ha⟩ := ih k
      exact ⟨StripSpec.blank c ++ o₁, o₂, by simp [e], by simp [bytes', bytes'_append, bytes'_blank, hb],
        by simpa using ha⟩

/-- the error location of an unclosed comment is the byte offset of its opener in the source,
    also after multi-byte text -/
example : same (strip ['é', '/', '*', 'é']) (.error 2) = true := by decide

/-- **desugaring only copies locations**: every source range carried by a node (statement, expression, access) of the desugared
    body of a template is a source range carried by a node of the body as written — for every template, every table of templates
    and every position of tuples and anonymous components, in loops and branches.  So a finding about a generated statement (the
    declaration and the assignments of an anonymous component, the element-wise assignments of a tuple, the counter of a loop) is
    located at a construct of the source text, never at a computed range. -/
theorem C04_desugar_locations (tbl : List Desugar.TemplateSig) (body s' : Desugar.Stmt)
    (h : Desugar.desugarTemplate tbl body = .ok s') : ∀ m, m ∈ Desugar.metasS s' → m ∈ Desugar.metasS body :=
  Desugar.desugarTemplate_metas tbl body s' h

/-- non-vacuity: `{ o <== U()(a); }` at 10–30 with the anonymous component at 16–28 desugars (to a declaration, an instantiation
    and two assignments), and all the locations of the result are 10–30, 16–28, 12–29 or that of `a` -/
def exLocBody : Desugar.Stmt :=
  .block (10, 30) (.cons (.sub (12, 29) "o" .nil .csig
    (.anon (16, 28) "1_16" "U" .nil (.cons (.var (26, 27) "a" .nil) .nil) none false)) .nil)
example : ∃ s', Desugar.desugarTemplate [⟨"U", ["in"], ["out"]⟩] exLocBody = .ok s' := ⟨_, rfl⟩
example : (match Desugar.desugarTemplate [⟨"U", ["in"], ["out"]⟩] exLocBody with
    | .ok s' => (Desugar.metasS s').all (fun m => [(10, 30), (16, 28), (12, 29), (26, 27)].contains m)
    | .error _ => false) = true := by rfl

end Circomspect.C04
