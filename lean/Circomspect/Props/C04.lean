/-
C04 — every displayed location is valid (the part carried by the comment stripper).

Positions reported by the parser are byte offsets into the *stripped* text; they are shown
against the *original* file.  `C04_aligned` shows the two agree: the stripped text is the
source with some characters replaced by exactly as many blanks as they have UTF-8 bytes, so
every non-blank character keeps its byte offset, the total length is unchanged, and the start
and end of every token of the stripped text are character boundaries of the source.
The remaining clauses of C04 (labels produced by later stages) are checked by the label audit
of `checks/c04.py` on the real pipeline.
-/
import Circomspect.Lemmas.StripLemmas

namespace Circomspect.C04
open Circomspect Strip StripSpec StripLemmas

theorem C04_aligned (s o : List Char) (h : preprocess s = .ok o) : Aligned s o := by
  rw [refines] at h
  exact (aligned_all s.length s (Nat.le_refl _) 0 0 o).1 h

/-- byte length is preserved -/
theorem C04_length (s o : List Char) (h : preprocess s = .ok o) : bytes' o = bytes' s :=
  (C04_aligned s o h).bytes_eq

/-- Offsets are preserved prefix-wise: cutting source and stripped text after the same number of
    source characters gives prefixes of equal byte length (so a byte offset computed in the
    stripped text at a character boundary denotes the same boundary in the source). -/
theorem C04_prefix_offsets {s o : List Char} (h : Aligned s o) :
    ∀ k, ∃ o₁ o₂, o = o₁ ++ o₂ ∧ bytes' o₁ = bytes' (s.take k) ∧ Aligned (s.drop k) o₂ := by
  induction h with
  | nil => intro k; exact ⟨[], [], rfl, by simp [bytes'], by simpa using Aligned.nil⟩
  | keep c hso ih =>
    intro k
    cases k with
    | zero => exact ⟨[], _, rfl, by simp [bytes'], by simpa using Aligned.keep c hso⟩
    | succ k =>
      obtain ⟨o₁, o₂, e, hb, ha⟩ := ih k
      exact ⟨c :: o₁, o₂, by simp [e], by simp [bytes', hb], by simpa using ha⟩
  | blank c hso ih =>
    intro k
    cases k with
    | zero => exact ⟨[], _, rfl, by simp [bytes'], by simpa using Aligned.blank c hso⟩
    | succ k =>
      obtain ⟨o₁, o₂, e, hb, ha⟩ := ih k
      exact ⟨StripSpec.blank c ++ o₁, o₂, by simp [e], by simp [bytes', bytes'_append, bytes'_blank, hb],
        by simpa using ha⟩

/-- the error location of an unclosed comment is the byte offset of its opener in the source,
    also after multi-byte text -/
example : same (strip ['é', '/', '*', 'é']) (.error 2) = true := by decide

end Circomspect.C04
