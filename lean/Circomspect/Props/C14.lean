/-
C14 — SSA form is valid and preserves which assignment each read sees.

The approach is translation validation with a *verified* checker: `Ssa.ssaLocalCheck` inspects a
real SSA CFG edge by edge and statement by statement (no paths, no unrolling).  The theorems
below show that passing the check implies the path property of C14 for **all** paths from the
entry, of any length (any number of loop iterations): every read of every non-phi statement names
the version most recently assigned on that path (an element-wise array update of a declared but
not yet assigned array reads the version "defined by its declaration"), and every version that
reaches a join along some path is among the arguments of the phi.  `checks/c14.py` runs the check
on every real SSA dump, together with the static clauses (unique definitions, phis at the head,
signals/components unversioned, every version declared, non-phi statements unchanged).

Not proved: that the SSA *construction* passes the check for every input CFG
(`C14_construction_statement`); that is decided per instance.
-/
import Circomspect.Lemmas.SsaLemmas

namespace Circomspect.C14
open Circomspect Ssa SsaLemmas

/-- the claim about the algorithm itself (statement only; decided per instance by the check) -/
def C14_construction_statement (ssaOf : Cfg → Cfg) : Prop :=
  ∀ (c : Cfg) (vars : List Var), 0 < c.blocks.length → ∃ ins, ssaLocalCheck (ssaOf c) vars ins = true

/-- Soundness of the local check along all paths: the version map obtained by *executing* any
    path from the entry agrees, at the end of its last block, with the certificate. -/
theorem C14_paths_agree (c : Cfg) (vars : List Var) (ins : Nat → VMap) (hn : 0 < c.blocks.length)
    (h : ssaLocalCheck c vars ins = true) (b : Nat) (π : List Nat) (hπ : SPath c b π) :
    ∀ v ∈ vars, dynOut c π v = outOf c ins b v :=
  (path_sound c vars ins (checked_of_check c vars ins hn h) b π hπ).1

/-- Every read sees the most recent assignment: for any path from the entry ending in block `b`,
    any non-phi statement `s` of `b` and any versioned local `(v, k)` it reads, `k` is the version
    most recently assigned to `v` when execution along that path reaches `s`. -/
theorem C14_local_implies_paths (c : Cfg) (vars : List Var) (ins : Nat → VMap) (hn : 0 < c.blocks.length)
    (h : ssaLocalCheck c vars ins = true) (b : Nat) (π : List Nat) (hπ : SPath c b π)
    (pre : List Stmt) (s : Stmt) (post : List Stmt) (hsplit : (c.block b).stmts = pre ++ s :: post)
    (hphi : s.isPhi = false) (r : VVar) (hr : r ∈ s.reads) :
    preStmt (execStmts (dynOut c π.tail) pre) s r.1 = some r.2 :=
  readsOk_pointwise _ _ (path_sound c vars ins (checked_of_check c vars ins hn h) b π hπ).2 pre s post hsplit hphi r hr

/-- Phi arguments are defined on the incoming paths: if execution along a path into predecessor
    `p` of `b` ends with version `k` of `v`, the phi for `v` in `b` lists `(v, k)`. -/
theorem C14_phi_arguments (c : Cfg) (vars : List Var) (ins : Nat → VMap) (hn : 0 < c.blocks.length)
    (h : ssaLocalCheck c vars ins = true) (p b : Nat) (π : List Nat) (hπ : SPath c p π)
    (hpb : p ∈ (c.block b).preds) (hb : b < c.blocks.length) (v : Var) (hv : v ∈ vars) (args : List VVar)
    (hphi : phiFor (c.block b) v = some args) (k : Nat) (hk : dynOut c π v = some k) : (v, k) ∈ args :=
  phi_args_sound c vars ins (checked_of_check c vars ins hn h) p b π hπ hpb hb v hv args hphi k hk

/-- non-vacuity: `x = 1; while (..) { x = x + 1 }; use x` in SSA form passes the check -/
def exCfg : Cfg :=
  { params := [],
    blocks := [
      { stmts := [{ isPhi := false, target := some ("x", 0), reads := [], implicit := [] }], preds := [], succs := [1] },
      { stmts := [{ isPhi := true, target := some ("x", 1), reads := [("x", 0), ("x", 2)], implicit := [] }], preds := [0, 2], succs := [2, 3] },
      { stmts := [{ isPhi := false, target := some ("x", 2), reads := [("x", 1)], implicit := [] }], preds := [1], succs := [1] },
      { stmts := [{ isPhi := false, target := none, reads := [("x", 1)], implicit := [] }], preds := [1], succs := [] }] }
example : ssaLocalCheck exCfg ["x"] (guessIns exCfg) = true := by decide
/-- ... and a wrong read (`x.0` instead of `x.1` after the loop) does not -/
def exBad : Cfg :=
  { exCfg with blocks := exCfg.blocks.take 3 ++
      [{ stmts := [{ isPhi := false, target := none, reads := [("x", 0)], implicit := [] }], preds := [1], succs := [] }] }
example : ssaLocalCheck exBad ["x"] (guessIns exBad) = false := by decide

end Circomspect.C14
