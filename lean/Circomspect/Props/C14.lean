/-
C14 — SSA form is valid and preserves which assignment each read sees.

The approach is translation validation with a *verified* checker: `Ssa.ssaLocalCheck` inspects a
real SSA CFG edge by edge and statement by statement (no paths, no unrolling).  The theorems
below show that passing the check implies the path property of C14 for **all** paths from the
entry, of any length (any number of loop iterations): every read of every non-phi statement names
the version most recently assigned on that path (an element-wise array update of a declared but
not yet assigned array reads the version "defined by its declaration"), and every version that
reaches a join along some path is among the arguments of the phi.  `checks/c14.py` runs the check
on every real SSA dump, together with the static clauses (unique definitions, phis at the head,
signals/components unversioned, every version declared, non-phi statements unchanged).

The construction itself is modelled in `Model/SsaBuild.lean` — the work list of `insert_phi_statements`
and the renaming with its scoped environment (the version map at the entry of a block is the map at the end
of its immediate dominator), with the numbers handed out by the global counter as a *parameter* — and
`C14_construction` proves that for every rooted CFG, every numbering and every run of the work list that
empties it, the built SSA form passes the check, hence has the path properties.  The deep step
(`SsaBuild.edge_no_phi`): on an edge `p → i` where `i` has no phi statement for `v`, no block on the
dominator-tree chain from `p` up to `idom i` defines `v` — otherwise `i` would be in that block's dominance
frontier (C15) and the placement, being closed under the frontier (`insertPhis_closed_init`), would have put a
phi statement there.  `checks/c14.py` ties the model to the code: the model, fed with the version numbers of a
real SSA dump, must reproduce the dump's phi statements, reads and phi arguments.
-/
import Circomspect.Lemmas.SsaLemmas
import Circomspect.Lemmas.SsaBuildLemmas
import Circomspect.Lemmas.SsaWalkLemmas

namespace Circomspect.C14
open Circomspect Ssa SsaLemmas

/-- **the construction passes the check**: for every CFG whose graph is rooted, with `idom` its
    immediate-dominator function (decreasing the block index, C12) and `df` its dominance frontiers (C15), every
    run of the phi work list that empties it (`= some Pf`) and every numbering `V` of the versions, the SSA form
    built by the renaming (`= some c'`: no read of a local without a version) passes `ssaLocalCheck` -/
theorem C14_construction (V : SsaBuild.Versions) (c : SsaBuild.PCfg) (idom : Nat → Nat) (df : Nat → List Nat) (vars : List Var)
    (hroot : Graph.Rooted (SsaBuild.graphP c))
    (hidom : ∀ i, 0 < i → i < c.blocks.length → Graph.IDom (SsaBuild.graphP c) (idom i) i)
    (hlt : ∀ i, 0 < i → i < c.blocks.length → idom i < i)
    (hdf : ∀ x j, j ∈ df x ↔ Graph.InFrontier (SsaBuild.graphP c) x j)
    (hvars : SsaBuild.VarsOk c vars)
    (fuel : Nat) (Pf : SsaBuild.Phis)
    (hP : SsaBuild.insertPhis df (SsaBuild.written c) fuel (List.range c.blocks.length) (fun _ => []) = some Pf)
    (c' : Cfg) (hb : SsaBuild.build V c Pf idom = some c') :
    ssaLocalCheck c' vars (SsaBuild.insOf V c Pf idom) = true := by
  have hclosed := SsaBuild.insertPhis_closed_init c.blocks.length df (SsaBuild.written c) fuel Pf hP
  have hpv : ∀ j v, v ∈ Pf j → v ∈ vars := by
    apply SsaBuild.insertPhis_vars df (SsaBuild.written c) (fun v => v ∈ vars) ?_ fuel _ (fun _ => []) Pf (fun j v h => by cases h) hP
    intro x v hv
    unfold SsaBuild.written at hv
    obtain ⟨s, hs, ht⟩ := List.mem_filterMap.mp hv
    by_cases hx : x < c.blocks.length
    · exact (hvars.stmts x hx s hs).1 v ht
    · exfalso
      unfold SsaBuild.PCfg.block at hs
      rw [List.getD_eq_getElem?_getD, List.getElem?_eq_none (by omega)] at hs
      simp at hs
      cases hs
  exact SsaBuild.build_check V c Pf idom vars
    ⟨hroot, hidom, hlt, fun x hx v hv j hj => hclosed x hx v hv j ((hdf x j).mpr hj), hpv⟩ hvars c' hb

/-- Soundness of the local check along all paths: the version map obtained by *executing* any
    path from the entry agrees, at the end of its last block, with the certificate. -/
theorem C14_paths_agree (c : Cfg) (vars : List Var) (ins : Nat → VMap) (hn : 0 < c.blocks.length)
    (h : ssaLocalCheck c vars ins = true) (b : Nat) (π : List Nat) (hπ : SPath c b π) :
    ∀ v ∈ vars, dynOut c π v = outOf c ins b v :=
  (path_sound c vars ins (checked_of_check c vars ins hn h) b π hπ).1

/-- Every read sees the most recent assignment: for any path from the entry ending in block `b`,
    any non-phi statement `s` of `b` and any versioned local `(v, k)` it reads, `k` is the version
    most recently assigned to `v` when execution along that path reaches `s`. -/
theorem C14_local_implies_paths (c : Cfg) (vars : List Var) (ins : Nat → VMap) (hn : 0 < c.blocks.length)
    (h : ssaLocalCheck c vars ins = true) (b : Nat) (π : List Nat) (hπ : SPath c b π)
    (pre : List Stmt) (s : Stmt) (post : List Stmt) (hsplit : (c.block b).stmts = pre ++ s :: post)
    (hphi : s.isPhi = false) (r : VVar) (hr : r ∈ s.reads) :
    preStmt (execStmts (dynOut c π.tail) pre) s r.1 = some r.2 :=
  readsOk_pointwise _ _ (path_sound c vars ins (checked_of_check c vars ins hn h) b π hπ).2 pre s post hsplit hphi r hr

/-- Phi arguments are defined on the incoming paths: if execution along a path into predecessor
    `p` of `b` ends with version `k` of `v`, the phi for `v` in `b` lists `(v, k)`. -/
theorem C14_phi_arguments (c : Cfg) (vars : List Var) (ins : Nat → VMap) (hn : 0 < c.blocks.length)
    (h : ssaLocalCheck c vars ins = true) (p b : Nat) (π : List Nat) (hπ : SPath c p π)
    (hpb : p ∈ (c.block b).preds) (hb : b < c.blocks.length) (v : Var) (hv : v ∈ vars) (args : List VVar)
    (hphi : phiFor (c.block b) v = some args) (k : Nat) (hk : dynOut c π v = some k) : (v, k) ∈ args :=
  phi_args_sound c vars ins (checked_of_check c vars ins hn h) p b π hπ hpb hb v hv args hphi k hk

/-- ... and therefore has the path property: along every path from the entry, every read of every non-phi
    statement of the built SSA form names the version most recently assigned on that path -/
theorem C14_construction_paths (V : SsaBuild.Versions) (c : SsaBuild.PCfg) (idom : Nat → Nat) (df : Nat → List Nat) (vars : List Var)
    (hroot : Graph.Rooted (SsaBuild.graphP c))
    (hidom : ∀ i, 0 < i → i < c.blocks.length → Graph.IDom (SsaBuild.graphP c) (idom i) i)
    (hlt : ∀ i, 0 < i → i < c.blocks.length → idom i < i)
    (hdf : ∀ x j, j ∈ df x ↔ Graph.InFrontier (SsaBuild.graphP c) x j)
    (hvars : SsaBuild.VarsOk c vars)
    (fuel : Nat) (Pf : SsaBuild.Phis)
    (hP : SsaBuild.insertPhis df (SsaBuild.written c) fuel (List.range c.blocks.length) (fun _ => []) = some Pf)
    (c' : Cfg) (hb : SsaBuild.build V c Pf idom = some c')
    (b : Nat) (π : List Nat) (hπ : SPath c' b π)
    (pre : List Stmt) (s : Stmt) (post : List Stmt) (hsplit : (c'.block b).stmts = pre ++ s :: post)
    (hphi : s.isPhi = false) (r : VVar) (hr : r ∈ s.reads) :
    preStmt (execStmts (dynOut c' π.tail) pre) s r.1 = some r.2 := by
  have hn : 0 < c'.blocks.length := by
    rw [(SsaBuild.build_spec V c Pf idom c' hb).2.1]; exact hroot.pos
  exact C14_local_implies_paths c' vars _ hn
    (C14_construction V c idom df vars hroot hidom hlt hdf hvars fuel Pf hP c' hb) b π hπ pre s post hsplit hphi r hr

/-- all variables written by some block -/
def allWritten (c : SsaBuild.PCfg) : List Var := ((List.range c.blocks.length).flatMap (SsaBuild.written c)).eraseDups

/-- **the phi work list terminates** (also a C01 fact): `n + 2 * n * |written variables|` iterations always empty it -/
theorem C14_worklist_terminates (c : SsaBuild.PCfg) (df : Nat → List Nat) (hdf : ∀ x j, j ∈ df x → j < c.blocks.length) :
    ∃ Pf, SsaBuild.insertPhis df (SsaBuild.written c) (c.blocks.length + 2 * (c.blocks.length * (allWritten c).length))
      (List.range c.blocks.length) (fun _ => []) = some Pf := by
  apply SsaBuild.insertPhis_terminates c.blocks.length (allWritten c) df (SsaBuild.written c) hdf ?_ _ _ _
    ⟨fun _ _ => rfl, fun _ => List.nodup_nil, fun j v h => by cases h⟩
  · simp only [List.length_range]
    have : 2 * (c.blocks.length * (allWritten c).length - SsaBuild.sizeP c.blocks.length (fun _ => []))
        ≤ 2 * (c.blocks.length * (allWritten c).length) := by omega
    omega
  · intro x v hv
    unfold allWritten
    rw [List.mem_eraseDups, List.mem_flatMap]
    by_cases hx : x < c.blocks.length
    · exact ⟨x, List.mem_range.mpr hx, hv⟩
    · exfalso
      unfold SsaBuild.written SsaBuild.PCfg.block at hv
      rw [List.getD_eq_getElem?_getD, List.getElem?_eq_none (by omega)] at hv
      simp at hv
      obtain ⟨a, ha, _⟩ := hv
      cases ha

/-- **the phi placement is the least closed one**, hence unique: it does not depend on the order in which the work list, the
    frontier sets and the written variables are iterated (they are hash sets in the code) -/
theorem C14_placement_least (c : SsaBuild.PCfg) (df : Nat → List Nat) (hdf : ∀ x j, j ∈ df x → j < c.blocks.length)
    (fuel : Nat) (Pf : SsaBuild.Phis)
    (hP : SsaBuild.insertPhis df (SsaBuild.written c) fuel (List.range c.blocks.length) (fun _ => []) = some Pf) :
    SsaBuild.Closed c.blocks.length df (SsaBuild.written c) Pf ∧
    ∀ Q, SsaBuild.Closed c.blocks.length df (SsaBuild.written c) Q → ∀ j v, v ∈ Pf j → v ∈ Q j :=
  ⟨SsaBuild.insertPhis_closed_init c.blocks.length df (SsaBuild.written c) fuel Pf hP,
   fun Q hQ => SsaBuild.insertPhis_least c.blocks.length df (SsaBuild.written c) hdf Q hQ fuel _ _ Pf
     (fun y hy => List.mem_range.mp hy) (fun j v h => (List.not_mem_nil h).elim) hP⟩

/-- two placements that are both closed and least have the same phi statements in every block -/
theorem C14_placement_unique (n : Nat) (df : Nat → List Nat) (written : Nat → List Var) (P P' : SsaBuild.Phis)
    (h : SsaBuild.Closed n df written P ∧ ∀ Q, SsaBuild.Closed n df written Q → ∀ j v, v ∈ P j → v ∈ Q j)
    (h' : SsaBuild.Closed n df written P' ∧ ∀ Q, SsaBuild.Closed n df written Q → ∀ j v, v ∈ P' j → v ∈ Q j) :
    ∀ j v, v ∈ P j ↔ v ∈ P' j :=
  fun j v => ⟨h.2 P' h'.1 j v, h'.2 P h.1 j v⟩

-- ---------------------------------------------------------------------------- the operational walk (`Model/SsaWalk.lean`)

/-- **the conversion as the code runs it** — pre-order walk over the dominator tree, global version counters, the scoped
    map handed down to the children, phi arguments pushed at the end of every block — yields an SSA form that meets the
    certificate conditions (hence the path properties), for every rooted CFG with consistent edge lists and distinct
    parameters and every placement the work list computes -/
theorem C14_walk (c : SsaBuild.PCfg) (idom : Nat → Nat) (df : Nat → List Nat) (vars : List Var)
    (hroot : Graph.Rooted (SsaBuild.graphP c))
    (hidom : ∀ i, 0 < i → i < c.blocks.length → Graph.IDom (SsaBuild.graphP c) (idom i) i)
    (hlt : ∀ i, 0 < i → i < c.blocks.length → idom i < i)
    (hdf : ∀ x j, j ∈ df x ↔ Graph.InFrontier (SsaBuild.graphP c) x j)
    (hvars : SsaBuild.VarsOk c vars) (hpar : c.params.Nodup) (hedges : SsaWalk.EdgesOk c)
    (fuel : Nat) (Pf : SsaBuild.Phis)
    (hP : SsaBuild.insertPhis df (SsaBuild.written c) fuel (List.range c.blocks.length) (fun _ => []) = some Pf)
    (st : SsaWalk.St) (hrun : SsaWalk.run c Pf idom = .ok st) (c' : Cfg) (hc : SsaWalk.cfgOf c Pf st = some c') :
    Checked c' vars (SsaBuild.insOf (SsaWalk.toV st.log) c Pf idom) := by
  have hrows : ∀ i, (Pf i).Nodup := by
    have hdfr : ∀ x j, j ∈ df x → j < c.blocks.length := fun x j hj => ((hdf x j).mp hj).1
    have hwr : ∀ x v, v ∈ SsaBuild.written c x → v ∈ allWritten c := by
      intro x v hv
      unfold allWritten
      rw [List.mem_eraseDups, List.mem_flatMap]
      by_cases hx : x < c.blocks.length
      · exact ⟨x, List.mem_range.mpr hx, hv⟩
      · exfalso
        unfold SsaBuild.written SsaBuild.PCfg.block at hv
        rw [List.getD_eq_getElem?_getD, List.getElem?_eq_none (by omega)] at hv
        simp at hv
        obtain ⟨a, ha, _⟩ := hv
        cases ha
    exact (SsaWalk.insertPhis_rows c.blocks.length (allWritten c) df (SsaBuild.written c) hdfr hwr fuel _ _ Pf
      ⟨fun _ _ => rfl, fun _ => List.nodup_nil, fun j v h => (List.not_mem_nil h).elim⟩ hP).nodup
  obtain ⟨c'', hb, hsim⟩ := SsaWalk.run_build c Pf idom hrows hlt hpar hedges st hrun c' hc
  have hn : 0 < c''.blocks.length := by
    rw [(SsaBuild.build_spec _ c Pf idom c'' hb).2.1]; exact hroot.pos
  exact SsaWalk.checked_sim c' c'' vars _ hsim
    (checked_of_check c'' vars _ hn (C14_construction _ c idom df vars hroot hidom hlt hdf hvars fuel Pf hP c'' hb))

/-- ... so along every path from the entry every read of every non-phi statement of the walk's output names the version
    most recently assigned on that path -/
theorem C14_walk_paths (c : SsaBuild.PCfg) (idom : Nat → Nat) (df : Nat → List Nat) (vars : List Var)
    (hroot : Graph.Rooted (SsaBuild.graphP c))
    (hidom : ∀ i, 0 < i → i < c.blocks.length → Graph.IDom (SsaBuild.graphP c) (idom i) i)
    (hlt : ∀ i, 0 < i → i < c.blocks.length → idom i < i)
    (hdf : ∀ x j, j ∈ df x ↔ Graph.InFrontier (SsaBuild.graphP c) x j)
    (hvars : SsaBuild.VarsOk c vars) (hpar : c.params.Nodup) (hedges : SsaWalk.EdgesOk c)
    (fuel : Nat) (Pf : SsaBuild.Phis)
    (hP : SsaBuild.insertPhis df (SsaBuild.written c) fuel (List.range c.blocks.length) (fun _ => []) = some Pf)
    (st : SsaWalk.St) (hrun : SsaWalk.run c Pf idom = .ok st) (c' : Cfg) (hc : SsaWalk.cfgOf c Pf st = some c')
    (b : Nat) (π : List Nat) (hπ : SPath c' b π)
    (pre : List Stmt) (s : Stmt) (post : List Stmt) (hsplit : (c'.block b).stmts = pre ++ s :: post)
    (hphi : s.isPhi = false) (r : VVar) (hr : r ∈ s.reads) :
    preStmt (execStmts (dynOut c' π.tail) pre) s r.1 = some r.2 :=
  readsOk_pointwise _ _ (path_sound c' vars _
    (C14_walk c idom df vars hroot hidom hlt hdf hvars hpar hedges fuel Pf hP st hrun c' hc) b π hπ).2 pre s post hsplit hphi r hr

/-- **clause (a): every versioned local has at most one defining statement** — the counters never hand out a version
    of a variable twice (`SsaWalk.run_fresh`, no assumption at all) and every definition site is numbered exactly once
    (`SsaWalk.walk_sites`: the walk is over a tree); no statement re-defines version 0 of a parameter -/
theorem C14_walk_unique_defs (c : SsaBuild.PCfg) (P : SsaBuild.Phis) (idom : Nat → Nat) (hP : ∀ i, (P i).Nodup)
    (hlt : ∀ j, 0 < j → j < c.blocks.length → idom j < j) (hpar : c.params.Nodup)
    (st : SsaWalk.St) (hrun : SsaWalk.run c P idom = .ok st) (c' : Cfg) (hc : SsaWalk.cfgOf c P st = some c') :
    (∀ (i k : Nat) (s : Stmt) (i' k' : Nat) (s' : Stmt) (t : VVar), i < c.blocks.length → i' < c.blocks.length →
      (c'.block i).stmts[k]? = some s → s.target = some t → (c'.block i').stmts[k']? = some s' → s'.target = some t →
      i = i' ∧ k = k') ∧
    (∀ (i k : Nat) (s : Stmt) (p : Var), i < c.blocks.length → (c'.block i).stmts[k]? = some s → s.target = some (p, 0) → p ∉ c.params) :=
  SsaWalk.run_unique c P idom hP hlt hpar st hrun c' hc

/-- the counters alone: whatever the CFG, the tree and the placement, no `(variable, version)` is handed out twice -/
theorem C14_counters_fresh (c : SsaBuild.PCfg) (P : SsaBuild.Phis) (idom : Nat → Nat) (st : SsaWalk.St)
    (h : SsaWalk.run c P idom = .ok st) : (SsaWalk.pairs st.log).Nodup := SsaWalk.run_fresh c P idom st h

/-- the recursion over the dominator tree never exceeds the depth budget (also a C01 fact) -/
theorem C14_walk_depth (c : SsaBuild.PCfg) (P : SsaBuild.Phis) (idom : Nat → Nat)
    (hlt : ∀ j, 0 < j → j < c.blocks.length → idom j < j) : SsaWalk.run c P idom ≠ .fuel :=
  SsaWalk.run_nofuel c P idom hlt

/-- the stack of scopes behind `scoped_versions`: leaving a scope restores every lookup, so a child of the dominator tree starts
    from the version map at the end of its parent whatever its elder siblings did (this is what `SsaWalk.walk` models by handing
    the map down); and an addition to a non-empty stack is a map update -/
theorem C14_scope_restores {f : SsaWalk.Frames → SsaWalk.Frames} (h : SsaWalk.ScopeOps f) (fs : SsaWalk.Frames) :
    (f fs.push).pop = fs := SsaWalk.scope_restores h fs

theorem C14_scoped_add (fs : SsaWalk.Frames) (hne : fs ≠ []) (v : Var) (n : Nat) :
    (fs.add v n).get = VMap.set fs.get v n := SsaWalk.frames_get_add fs hne v n

/-- **the SSA form does not depend on the order of the phi statements of a block** (the hash order of `variables_written`):
    permuting the phi variables of every block leaves every version number, every converted statement and every list of phi
    arguments unchanged (also a C17 fact) -/
theorem C14_phi_order_irrelevant (c : SsaBuild.PCfg) (P P' : SsaBuild.Phis) (idom : Nat → Nat)
    (hperm : ∀ i, (P i).Perm (P' i)) (hP : ∀ i, (P i).Nodup)
    (hlt : ∀ j, 0 < j → j < c.blocks.length → idom j < j) (hpar : c.params.Nodup)
    (st : SsaWalk.St) (h : SsaWalk.run c P idom = .ok st) :
    ∃ st', SsaWalk.run c P' idom = .ok st' ∧ (∀ s, SsaWalk.verOf st.log s = SsaWalk.verOf st'.log s) ∧
      st.done = st'.done ∧ st.args = st'.args :=
  SsaWalk.run_perm c P P' idom hperm hP hlt hpar st h

/-- non-vacuity of the walk theorems: `x = 1; while (..) { x = x + 1 }; use x` — the walk converts it, numbering the
    definitions 0 (entry), 1 (phi), 2 (loop body) -/
def exP : SsaBuild.PCfg :=
  { params := [],
    blocks := [
      { stmts := [{ target := some "x", reads := [], upd := false }], preds := [], succs := [1] },
      { stmts := [{ target := none, reads := ["x"], upd := false }], preds := [0, 2], succs := [2, 3] },
      { stmts := [{ target := some "x", reads := ["x"], upd := false }], preds := [1], succs := [1] },
      { stmts := [{ target := none, reads := ["x"], upd := false }], preds := [1], succs := [] }] }
def exPhis : SsaBuild.Phis := fun j => if j = 1 then ["x"] else []
def exIdom : Nat → Nat := fun j => if j = 1 then 0 else 1
def exOut : Option (List (List (Bool × Option VVar × List VVar))) :=
  match SsaWalk.run exP exPhis exIdom with
  | .ok st => (SsaWalk.cfgOf exP exPhis st).map (fun c => c.blocks.map (fun b => b.stmts.map (fun s => (s.isPhi, s.target, s.reads))))
  | _ => none
example : exOut =
    some [[(false, some ("x", 0), [])], [(true, some ("x", 1), [("x", 0), ("x", 2)]), (false, none, [("x", 1)])],
          [(false, some ("x", 2), [("x", 1)])], [(false, none, [("x", 1)])]] := by rfl

/-- non-vacuity: `x = 1; while (..) { x = x + 1 }; use x` in SSA form passes the check -/
def exCfg : Cfg :=
  { params := [],
    blocks := [
      { stmts := [{ isPhi := false, target := some ("x", 0), reads := [], implicit := [] }], preds := [], succs := [1] },
      { stmts := [{ isPhi := true, target := some ("x", 1), reads := [("x", 0), ("x", 2)], implicit := [] }], preds := [0, 2], succs := [2, 3] },
      { stmts := [{ isPhi := false, target := some ("x", 2), reads := [("x", 1)], implicit := [] }], preds := [1], succs := [1] },
      { stmts := [{ isPhi := false, target := none, reads := [("x", 1)], implicit := [] }], preds := [1], succs := [] }] }
example : ssaLocalCheck exCfg ["x"] (guessIns exCfg) = true := by decide
/-- ... and a wrong read (`x.0` instead of `x.1` after the loop) does not -/
def exBad : Cfg :=
  { exCfg with blocks := exCfg.blocks.take 3 ++
      [{ stmts := [{ isPhi := false, target := none, reads := [("x", 0)], implicit := [] }], preds := [1], succs := [] }] }
example : ssaLocalCheck exBad ["x"] (guessIns exBad) = false := by decide

end Circomspect.C14
