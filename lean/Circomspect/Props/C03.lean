/-
C03 — report conservation and the output contract (exit code, summary, SARIF, filters).

`Runner.*` is the model of `AnalysisRunner`, the writers and `main` (after the `fix:` commits).
The theorems hold for **every** project (arbitrary parse reports, arbitrary results of CFG
generation and of the passes, arbitrary lookups between definitions), **every** analysis order
without repetition (hash-map iteration order) and **every** option set.
-/
import Circomspect.Lemmas.RunnerLemmas

namespace Circomspect.C03
open Circomspect Runner RunnerLemmas

/-- Conservation: what is offered to the writer is the parse reports followed, per analysed
    definition and in analysis order, by the reports of its CFG generation and of the passes
    — each exactly once, whichever stage produced it — and (since 1121aa8) by the reports about the
    main component, if there is one. -/
theorem C03_conservation (p : Project) (order : List String) (hnd : order.Nodup)
    (hk : ∀ n ∈ order, p.known n = true) :
    offered p order = p.parseReports ++ order.flatMap (expected p) ++ p.mainReports.getD [] := offered_eq p order hnd hk

/-- ... and "whether or not another template looked that definition up first": the lookups the
    passes perform have no influence on what is offered. -/
theorem C03_lookup_independent (p : Project) (lookups' : String → List String) (order : List String)
    (hnd : order.Nodup) (hk : ∀ n ∈ order, p.known n = true) :
    offered { p with lookups := lookups' } order = offered p order := by
  rw [offered_eq p order hnd hk, offered_eq { p with lookups := lookups' } order hnd hk]
  rfl

/-- the batch handed to the writer for a definition is a function of that definition alone -/
theorem C03_batches (p : Project) (order : List String) (hnd : order.Nodup)
    (hk : ∀ n ∈ order, p.known n = true) :
    batches p order = p.parseReports :: (order.map (expected p) ++ p.mainReports.toList) := batches_eq p order hnd hk

/-- the three filters: a report is kept iff its level is at least `--level`, its id is not in
    `--allow`, and it is not located solely in files that were only included -/
theorem C03_keep_spec (o : Opts) (r : Report) :
    keep o r = true ↔ o.level ≤ r.level ∧ r.id ∉ o.allow ∧ (r.located = true → r.inUser = true) := by
  unfold keep
  cases hl : r.located <;> cases hu : r.inUser <;> simp

/-- a finding is displayed iff it was offered and passes the filters — for all option sets -/
theorem C03_filter (o : Opts) (p : Project) (order : List String) (r : Report) :
    r ∈ displayed o p order ↔ r ∈ offered p order ∧ keep o r = true := by
  rw [displayed_eq_filter]; simp [List.mem_filter]

/-- displayed findings keep their multiplicity: filtering never duplicates or merges -/
theorem C03_displayed_is_filter (o : Opts) (p : Project) (order : List String) :
    displayed o p order = (offered p order).filter (keep o) := displayed_eq_filter o p order

/-- the exit status is 0 exactly when nothing was displayed -/
theorem C03_exit (o : Opts) (p : Project) (order : List String) :
    exitCode o p order = 0 ↔ displayed o p order = [] := by
  unfold exitCode
  rw [written_eq]
  cases h : displayed o p order <;> simp

/-- the summary count equals the number of displayed diagnostics -/
theorem C03_summary (o : Opts) (p : Project) (order : List String) :
    written o p order = (displayed o p order).length ∧
    summary o p order = summaryOf (displayed o p order).length := by
  refine ⟨written_eq o p order, ?_⟩
  unfold summary
  rw [written_eq]

/-- the SARIF file holds exactly the displayed findings (same reports, hence same rule ids,
    levels and positions), in the same order -/
theorem C03_sarif (o : Opts) (p : Project) (order : List String) :
    sarif o p order = displayed o p order := (displayed_eq_filter o p order).symm

/-- non-vacuity: a two-definition project in which `B` looks `A` up before `A` is analysed -/
def exR (i : String) (l : Nat) : Report := { id := i, level := l, located := true, inUser := true, body := "" }
def exP : Project :=
  { parseReports := [exR "P1004" 1], known := fun n => n == "A" || n == "B",
    gen := fun n => if n == "A" then (true, [exR "CS0001" 1]) else (true, []),
    lookups := fun n => if n == "B" then ["A"] else [], passes := fun n => if n == "B" then [exR "CS0018" 1] else [],
    mainReports := some [exR "CS0016" 1] }
example : (offered exP ["B", "A"]).map (·.id) = ["P1004", "CS0018", "CS0001", "CS0016"] := by decide
example : (offered exP ["A", "B"]).map (·.id) = ["P1004", "CS0001", "CS0018", "CS0016"] := by decide
example : exitCode { level := 2, allow := [] } exP ["A", "B"] = 0 := by decide
example : exitCode { level := 1, allow := ["CS0001", "CS0018", "P1004"] } exP ["A", "B"] = 1 := by decide

end Circomspect.C03
