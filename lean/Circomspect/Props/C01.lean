/-
C01 — totality: no input makes the analyzer panic, abort or hang.

What is proved here concerns the panic sites of the code that is modelled; every other site has a
disposition in ledger/panic_sites.json (guarded locally, invariant established elsewhere and observed
on every real CFG by C12/C14/C15's checks, environment failure, dead API), which
tools/panic_scan.py re-checks against the current source on every run; implicit panics (indexing,
overflow, stack, memory, time) are only covered by the outcome search of checks/c01.py.

* the three `unreachable!()`s of the desugarer cannot be reached (`C01_desugar_body_block`,
  `C01_desugar_decl_kinds`, `C01_no_anon_after_removal`);
* the two `panic!`s of IR lifting (`failed to convert AST statement/expression to IR`) are reached only
  by a tuple, an anonymous component or a multi-substitution, which no surviving template or kept
  function contains (`C18_template_clean`, `C18_function_reject`, restated as `C01_lifting_input`);
* the asserts of the dominator tree (`C15_no_panic`), the duplicate-declaration assert (`C10_injective`),
  the field arithmetic error cases (C16) are theorems of those properties;
* the `assert!(visit_statement(..).is_empty())` of the `InitializationBlock` arm of CFG lifting cannot fire on an
  initialization block of declarations and substitutions (`C01_init_block_assert`); the nine
  `.expect("in control-flow graph")` of `cfg.rs` index existing blocks (`C01_cfg_indices`, from C12);
* the loops that are fixpoints in the code have exits: the include work list (`C19_terminates`), the
  dominator iteration (`C15_terminates`); the model functions themselves are total by construction.
-/
import Circomspect.Lemmas.DesugarLemmas
import Circomspect.Props.C12
import Circomspect.Lemmas.SsaWalkLemmas
import Circomspect.Lemmas.CfgReachLemmas

namespace Circomspect.C01
open Circomspect Desugar

/-- `remove_syntactic_sugar`, first `unreachable!()`: the result of removing anonymous components from a
    block is a block -/
theorem C01_desugar_body_block (tbl : List TemplateSig) (va : Option Expr) (m : Desugar.Meta) (ss : Stmts)
    (s' : Stmt) (decls : List Stmt) (h : rmAnonS tbl va (.block m ss) = .ok (s', decls)) :
    ∃ ss', s' = .block m ss' :=
  rmAnonS_block tbl va m ss s' decls h

/-- `separate_declarations_in_comp_var_subs`, both `unreachable!()`s: every generated declaration is a
    local/component declaration or a substitution -/
theorem C01_desugar_decl_kinds (tbl : List TemplateSig) (va : Option Expr) (s s' : Stmt) (decls : List Stmt)
    (h : rmAnonS tbl va s = .ok (s', decls)) :
    ∀ d, d ∈ decls → (isVarDecl d || isCompDecl d || isSub d) = true :=
  rmAnonS_decls tbl s va s' decls h

/-- `remove_tuple_from_expression`, `unreachable!()`: the tuple removal runs on a body without
    anonymous components, so its error (if any) is never that arm -/
theorem C01_no_anon_after_removal (tbl : List TemplateSig) (body : Stmt) (m : Desugar.Meta) (stmts : Stmts)
    (decls : List Stmt) (err : Err) (hr : rmAnonS tbl none body = .ok (.block m stmts, decls))
    (h : rmTupS (assembled m stmts decls) = .error err) :
    (err.2 == "unreachable: anonymous component after removal") = false :=
  tuple_phase_no_unreachable tbl body m stmts decls err hr h

/-- what IR lifting receives: nothing its catch-all `panic!` arms match -/
theorem C01_lifting_input (tbl : List TemplateSig) (body body' fbody : Stmt) :
    (desugarTemplate tbl body = .ok body' → hasS true body' = false ∧ hasS false body' = false ∧ msubS body' = false) ∧
    (functionReports fbody = [] → hasS true fbody = false ∧ hasS false fbody = false ∧ msubS fbody = false) := by
  constructor
  · exact desugarTemplate_clean tbl body body'
  · intro h
    have := (functionReports_iff fbody).mp h
    unfold sugarS at this
    simp only [Bool.or_eq_false_iff] at this
    exact ⟨this.1.1, this.1.2, this.2⟩

/-- every child is a non-control statement (declarations and substitutions, as the grammar builds
    initialization blocks) -/
def AllSimple : CfgLift.Stmts → Prop
  | .nil => True
  | .cons (.simple _) rest => AllSimple rest
  | .cons _ _ => False

/-- the `assert!(visit_statement(..).is_empty())` of the `InitializationBlock` arm never fires on an
    initialization block of declarations and substitutions: lifting it returns blocks and no pending exits -/
theorem C01_init_block_assert : ∀ (cs : CfgLift.Stmts) (d : Nat) (bs : List CfgLift.Block), AllSimple cs →
    ∃ bs', CfgLift.visitInit cs d bs = .ok bs' []
  | .nil, d, bs, _ => ⟨bs, by rw [CfgLift.visitInit]⟩
  | .cons (.simple loc) rest, d, bs, h => by
    obtain ⟨bs', hb⟩ := C01_init_block_assert rest d (CfgLift.appendStmt bs (.simple loc)) (by simpa [AllSimple] using h)
    exact ⟨bs', by rw [CfgLift.visitInit, CfgLift.visit]; simpa [CfgLift.Out.andThen] using hb⟩
  | .cons (.init _) _, _, _, h => by simp [AllSimple] at h
  | .cons (.block _) _, _, _, h => by simp [AllSimple] at h
  | .cons (.ite _ _) _, _, _, h => by simp [AllSimple] at h
  | .cons (.iteElse _ _ _) _, _, _, h => by simp [AllSimple] at h
  | .cons (.while _ _) _, _, _, h => by simp [AllSimple] at h

/-- `cfg.rs`, the `.expect("in control-flow graph")` sites: every block index stored in a successor or
    predecessor set, and every target of a branch statement, is the index of an existing block -/
theorem C01_cfg_indices (body : CfgLift.Stmt) (bs : List CfgLift.Block) (ps : List Nat) (h : CfgLift.lift body = .ok bs ps) :
    ∀ (i : Nat) (b : CfgLift.Block), bs[i]? = some b →
      (∀ j ∈ b.succs, j < bs.length) ∧ (∀ j ∈ b.preds, j < bs.length) ∧
      (∀ l t f, b.stmts.getLast? = some (CfgLift.IStmt.branch l t f) → t < bs.length ∧ ∀ j, f = some j → j < bs.length) := by
  intro i b hb
  have hr := (C12.C12_shape body bs ps h).2.2.2.1 i b hb
  refine ⟨hr.1, hr.2, ?_⟩
  intro l t f hl
  have := C12.C12_branch_targets body bs ps h i b hb l t f hl
  exact ⟨this.1.2, fun j hj => (this.2 j hj).2⟩

/-- `ssa_impl.rs`, the `assert!(var.version().is_none())` sites of `insert_ssa_variables` / `visit_expression`: a statement is
    converted when its block is visited, and the walk over the dominator tree visits the blocks of pairwise disjoint subtrees —
    every definition site is logged once, and only for blocks of the subtree being walked -/
theorem C01_ssa_sites_once (c : SsaBuild.PCfg) (P : SsaBuild.Phis) (idom : Nat → Nat) (hP : ∀ i, (P i).Nodup)
    (hlt : ∀ j, 0 < j → j < c.blocks.length → idom j < j) (fuel i : Nat) (m : Ssa.VMap) (st st' : SsaWalk.St)
    (h : SsaWalk.walk c P idom fuel i m st = .ok st') :
    ∃ ext, st'.log = st.log ++ ext ∧ (SsaWalk.sites ext).Nodup ∧
      ∀ e, e ∈ ext → ∃ x, SsaWalk.blk e.site = some x ∧ SsaWalk.Anc idom i x :=
  SsaWalk.walk_sites c P idom hP hlt fuel i m st st' h

/-- `static_single_assignment/mod.rs`: the recursion of `insert_ssa_variables_impl` is at most as deep as there are blocks -/
theorem C01_ssa_depth (c : SsaBuild.PCfg) (P : SsaBuild.Phis) (idom : Nat → Nat)
    (hlt : ∀ j, 0 < j → j < c.blocks.length → idom j < j) : SsaWalk.run c P idom ≠ .fuel :=
  SsaWalk.run_nofuel c P idom hlt

/-- `utils/environment.rs`, `assert!(!self.variables.is_empty())` in `add_variable` and `remove_variable_block`, as used by the SSA
    environment: the stack starts with one block (`RawEnvironment::default`), and whatever the walk over a subtree does — additions,
    scopes pushed and popped around the children — the stack it leaves has the same blocks below the innermost one; in particular
    it is never empty when a variable is added or a scope is closed -/
theorem C01_ssa_scopes_nonempty {f : SsaWalk.Frames → SsaWalk.Frames} (h : SsaWalk.ScopeOps f)
    (top : List (Ssa.Var × Nat)) (rest : SsaWalk.Frames) : ∃ top', f (top :: rest) = top' :: rest :=
  SsaWalk.scopeOps_tail h top rest

/-- time in proportion to the input (repairs a7712ea, 7abcad3): the work lists behind `multi_step_taint`, `multi_step_constraint`,
    `get_successors`, `get_predecessors` and `get_interval` pop one entry per iteration and push entries only when a variable or
    block is expanded for the first time, so they stop after at most (entries at the start + edges + 1) iterations — for every
    graph and every start. (The loops they replaced re-expanded the whole frontier in every round.) -/
theorem C01_worklist_linear (es : List (Nat × Nat)) (work result : List Nat) :
    ∃ r, Taint.workLoop es (work.length + es.length + 1) work result = some r := by
  apply Taint.workLoop_terminates
  have h : (List.filter (fun e => !result.contains e.1) es).length ≤ es.length := List.length_filter_le _ _
  unfold Taint.pending
  exact Nat.lt_succ_of_le (Nat.add_le_add_left h _)

/-- the reachability helpers of the CFG return within their budget, and return exactly the reachable blocks -/
theorem C01_cfg_reachability (es : List (Nat × Nat)) (starts : List Nat) :
    (∃ r, Taint.workLoop es (Taint.closureFuel es starts.length) starts [] = some r) ∧
    ∀ x, x ∈ CfgReach.closure es starts ↔ ∃ s, s ∈ starts ∧ Taint.Reach es s x :=
  ⟨CfgReach.closure_returns es starts, CfgReach.closure_spec es starts⟩

end Circomspect.C01
