/-
C01 — totality: no input makes the analyzer panic, abort or hang.

What is proved here concerns the panic sites of the code that is modelled; every other site has a
disposition in ledger/panic_sites.json (guarded locally, invariant established elsewhere and observed
on every real CFG by C12/C14/C15's checks, environment failure, dead API), which
tools/panic_scan.py re-checks against the current source on every run; implicit panics (indexing,
overflow, stack, memory, time) are only covered by the outcome search of checks/c01.py.

* the three `unreachable!()`s of the desugarer cannot be reached (`C01_desugar_body_block`,
  `C01_desugar_decl_kinds`, `C01_no_anon_after_removal`);
* the two `panic!`s of IR lifting (`failed to convert AST statement/expression to IR`) are reached only
  by a tuple, an anonymous component or a multi-substitution, which no surviving template or kept
  function contains (`C18_template_clean`, `C18_function_reject`, restated as `C01_lifting_input`);
* the asserts of the dominator tree (`C15_no_panic`), the duplicate-declaration assert (`C10_injective`),
  the field arithmetic error cases (C16) are theorems of those properties;
* the loops that are fixpoints in the code have exits: the include work list (`C19_terminates`), the
  dominator iteration (`C15_terminates`); the model functions themselves are total by construction.
-/
import Circomspect.Lemmas.DesugarLemmas

namespace Circomspect.C01
open Circomspect Desugar

/-- `remove_syntactic_sugar`, first `unreachable!()`: the result of removing anonymous components from a
    block is a block -/
theorem C01_desugar_body_block (tbl : List TemplateSig) (va : Option Expr) (m : Desugar.Meta) (ss : Stmts)
    (s' : Stmt) (decls : List Stmt) (h : rmAnonS tbl va (.block m ss) = .ok (s', decls)) :
    ∃ ss', s' = .block m ss' :=
  rmAnonS_block tbl va m ss s' decls h

/-- `separate_declarations_in_comp_var_subs`, both `unreachable!()`s: every generated declaration is a
    local/component declaration or a substitution -/
theorem C01_desugar_decl_kinds (tbl : List TemplateSig) (va : Option Expr) (s s' : Stmt) (decls : List Stmt)
    (h : rmAnonS tbl va s = .ok (s', decls)) :
    ∀ d, d ∈ decls → (isVarDecl d || isCompDecl d || isSub d) = true :=
  rmAnonS_decls tbl s va s' decls h

/-- `remove_tuple_from_expression`, `unreachable!()`: the tuple removal runs on a body without
    anonymous components, so its error (if any) is never that arm -/
theorem C01_no_anon_after_removal (tbl : List TemplateSig) (body : Stmt) (m : Desugar.Meta) (stmts : Stmts)
    (decls : List Stmt) (err : Err) (hr : rmAnonS tbl none body = .ok (.block m stmts, decls))
    (h : rmTupS (assembled m stmts decls) = .error err) :
    (err.2 == "unreachable: anonymous component after removal") = false :=
  tuple_phase_no_unreachable tbl body m stmts decls err hr h

/-- what IR lifting receives: nothing its catch-all `panic!` arms match -/
theorem C01_lifting_input (tbl : List TemplateSig) (body body' fbody : Stmt) :
    (desugarTemplate tbl body = .ok body' → hasS true body' = false ∧ hasS false body' = false ∧ msubS body' = false) ∧
    (functionReports fbody = [] → hasS true fbody = false ∧ hasS false fbody = false ∧ msubS fbody = false) := by
  constructor
  · exact desugarTemplate_clean tbl body body'
  · intro h
    have := (functionReports_iff fbody).mp h
    unfold sugarS at this
    simp only [Bool.or_eq_false_iff] at this
    exact ⟨this.1.1, this.1.2, this.2⟩

end Circomspect.C01
