/-
C10 — names resolve by lexical scope, and every shadowing declaration is reported.

`UniqueVars.rename` is the model of `ensure_unique_variables` (three environments, block
push/pop, global version counters) run on the event sequence of a definition; `ScopeSpec.specRun`
is lexical resolution with consistent naming *by construction* (one scope stack mapping a name to
the innermost preceding declaration and the suffix that declaration got).  All theorems hold for
**every** well-nested event sequence, i.e. every nesting of blocks with arbitrary redeclaration
patterns, and every list of parameter names.
-/
import Circomspect.Lemmas.ScopeLemmas

namespace Circomspect.C10
open Circomspect UniqueVars ScopeSpec ScopeLemmas

/-- The renamer is lexical resolution: every declaration gets the specified suffix, every use is
    printed with the suffix of the innermost enclosing declaration of that name that precedes it
    (parameters outermost), and a shadowing report is produced for exactly the declarations that
    redeclare a visible name, pointing at the declaration they shadow — the three components of
    each output record coincide with the specification. -/
theorem C10_refines_lexical (params : List String) (body : List Event)
    (hw : WellNested 1 (paramEvents params ++ body)) :
    rename params body = specRun St.init (paramEvents params ++ body) := rename_refines params body hw

/-- shadowing reports = the specified set (a corollary, stated separately) -/
theorem C10_shadow_reports (params : List String) (body : List Event)
    (hw : WellNested 1 (paramEvents params ++ body)) :
    (rename params body).filterMap (fun o => o.shadows.map (fun d => (o.id, d))) =
      shadowing St.init (paramEvents params ++ body) := by
  rw [C10_refines_lexical params body hw]; rfl

/-- Renaming is injective on declarations: two declarations of the same name (in nested or in
    sibling scopes, parameters included) never receive the same suffix. -/
theorem C10_injective (evs : List Event) (i j : Nat) (oi oj : Out) (hij : i < j)
    (hi : (specRun St.init evs)[i]? = some oi) (hj : (specRun St.init evs)[j]? = some oj)
    (hdi : oi.isDecl = true) (hdj : oj.isDecl = true) (hn : oi.name = oj.name) :
    oi.suffix ≠ oj.suffix := by
  have := spec_decl_ranks evs St.init [] (by simp) (specRun St.init evs) (by simp) i j oi oj hij hi hj hdi hdj hn (by simp)
  intro e; rw [e] at this; omega

/-- repeated parameter names are detected: the collision flag is raised iff some parameter
    declaration would need a suffix -/
theorem C10_params (params : List String) :
    paramCollision params = (run Env.init (paramEvents params)).any (fun o => o.suffix.isSome) := rfl

/-- the key under which SSA tracks versions is injective on (name, suffix) pairs (identifiers
    contain no `.`), so a renamed `x` and a variable called `x_0` can no longer be confused -/
theorem C10_ssa_key_injective (n1 n2 : List Char) (s1 s2 : Option (List Char)) (h1 : '.' ∉ n1) (h2 : '.' ∉ n2)
    (h : ssaKey n1 s1 = ssaKey n2 s2) : n1 = n2 ∧ s1 = s2 := ssaKey_injective n1 n2 s1 s2 h1 h2 h

/-- the defect of the pinned tree (repaired by a `fix:` commit): the old key collided -/
theorem C10_old_ssa_key_counterexample : oldSsaKey ['x'] (some ['0']) = oldSsaKey ['x', '_', '0'] none :=
  oldSsaKey_collision.1

/-- the characters of a Circom identifier (`[$_]*[a-zA-Z][a-zA-Z$_0-9]*`; a superset is enough here) -/
def isIdentChar (c : Char) : Bool := c.isAlphanum || c == '_' || c == '$'
def isIdentifier (s : String) : Bool := s.toList.all isIdentChar

/-- The names desugaring invents — `<Template>#<line>_<offset>` for the component of an anonymous component (`Desugar.anonBody`;
    until add4a3b `<Template>_<line>_<offset>`, which a program can also declare: F-C10-generated-names; between add4a3b and f5059a1
    `<Template>@..`, which for a template called `anon_var` begins like a generated counter) and `anon_var@<line>_<offset>` for the
    loop counters (`Desugar`'s `while` arm, since 463752d) — are not identifiers, whatever the template name and the label: no
    declaration or use written in a program resolves to one of them, or the other way round. -/
theorem C10_generated_names_fresh (id label : String) :
    isIdentifier (id ++ "#" ++ label) = false ∧ isIdentifier ("anon_var@" ++ label) = false := by
  constructor
  · unfold isIdentifier
    rw [String.toList_append, String.toList_append, List.all_append, List.all_append]
    have : ("#" : String).toList.all isIdentChar = false := by decide
    rw [this]; simp
  · unfold isIdentifier
    rw [String.toList_append, List.all_append]
    have : ("anon_var@" : String).toList.all isIdentChar = false := by decide
    rw [this]; simp

/-- … and the two generated forms cannot be confused with each other: the first character of a component name that is not an
    identifier character is `#`, that of a counter is `@` (`is_generated_counter` looks for the prefix `anon_var@`) -/
theorem C10_component_is_no_counter (id label rest : String) (hid : isIdentifier id = true) :
    (id ++ "#" ++ label).toList ≠ ("anon_var@" ++ rest).toList := by
  intro h
  have h1 : ((id ++ "#" ++ label).toList.dropWhile isIdentChar).head? = some '#' := by
    rw [String.toList_append, String.toList_append, List.append_assoc]
    unfold isIdentifier at hid
    rw [List.dropWhile_append_of_pos (by simpa [List.all_eq_true] using hid)]
    rfl
  have h2 : (("anon_var@" ++ rest).toList.dropWhile isIdentChar).head? = some '@' := by
    rw [String.toList_append]
    have : ("anon_var@" : String).toList = "anon_var".toList ++ ['@'] := by decide
    rw [this, List.append_assoc, List.dropWhile_append_of_pos (by decide)]
    rfl
  rw [h, h2] at h1
  cases h1

/-- … while the old form was an identifier whenever the template name is one -/
example : isIdentifier ("Two" ++ "_" ++ "14_255") = true := by decide

/-- non-vacuity: `f(x) { var y; if (..) { var x; y = x } ; x }` -/
def exEvents : List Event := [.enter, .decl "y", .use "x", .enter, .decl "x", .use "y", .use "x", .exit, .use "x", .exit]
example : WellNested 1 (paramEvents ["x"] ++ exEvents) := by simp [WellNested, paramEvents, exEvents]
example : (rename ["x"] exEvents).map (fun o => (o.name, o.suffix, o.shadows)) =
    [("x", none, none), ("y", none, none), ("x", none, none), ("x", some 0, some 0), ("y", none, none),
     ("x", some 0, none), ("x", none, none)] := by decide

end Circomspect.C10
