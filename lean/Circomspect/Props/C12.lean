/-
C12 — the control-flow graph of every definition is well formed.

`CfgLift.lift` is the model of `build_basic_blocks` (`visit_statement`, `complete_basic_block`)
on statement skeletons; the theorems quantify over **every** statement tree (arbitrary nesting
and sequencing of blocks, `if`, `if/else`, `while`, initialisation blocks; `for` loops and
compound assignments are expanded by the parser before lifting).

Proved here for all inputs: entry without predecessor, every block reachable, successor and
predecessor sets mirror each other and mention only existing blocks, `i` dominates `j` only if
`i ≤ j`, and the graph is `Rooted` in the sense of C15 (so C15's theorems apply to every CFG and
the two `assert!`s of `DominatorTree::new` cannot fire on it).
A branch is only ever the last statement of its block (`C12_branch_last`), its targets are existing
blocks among the successors, and no block has more than two successors — one without a branch
(`C12_successors`, `C12_branch_targets`; `Lemmas/CfgClasses.lean`: every block is in one of five classes,
by the same induction that proves C13's trace inclusion).
The recorded loop depth of a block is the source nesting depth of every statement in it
(`C12_loop_depth`, `Lemmas/CfgDepth.lean`; the branch of a `while` counts as outside its own loop).
So every clause of C12 is a theorem about the lifting model.  The executable predicate
`CfgSpec.wfProblems` (all clauses at once) is what `checks/c12.py` evaluates on every real CFG (before
and after SSA) and on the model's CFG — the tie to the code.
-/
import Circomspect.Lemmas.CfgLemmas
import Circomspect.Lemmas.CfgClasses
import Circomspect.Lemmas.CfgDepth
import Circomspect.Lemmas.CfgEdges

namespace Circomspect.C12
open Circomspect CfgLift CfgLemmas CfgSpec Graph

/-- the complete claim of C12 for the model (proved below except for the last conjunct) -/
def C12_full_statement : Prop :=
  ∀ (body : Stmt) (bs : List Block) (ps : List Nat), lift body = .ok bs ps → wfProblems body bs = []

/-- block 0 exists and has no predecessor; succ/pred mirror each other and stay in range;
    every other block has a predecessor with a smaller index -/
theorem C12_shape (body : Stmt) (bs : List Block) (ps : List Nat) (h : lift body = .ok bs ps) :
    0 < bs.length ∧
    (∀ (b : Block), bs[0]? = some b → b.preds = []) ∧
    (∀ (i j : Nat) (bi bj : Block), bs[i]? = some bi → bs[j]? = some bj → (j ∈ bi.succs ↔ i ∈ bj.preds)) ∧
    (∀ (i : Nat) (b : Block), bs[i]? = some b → (∀ j ∈ b.succs, j < bs.length) ∧ (∀ j ∈ b.preds, j < bs.length)) ∧
    (∀ (j : Nat) (b : Block), 0 < j → bs[j]? = some b → ∃ i ∈ b.preds, i < j) := by
  obtain ⟨h1, h2, h3, h4, h5⟩ := lift_shape body bs ps h
  exact ⟨h1, h4, h3, h2, h5⟩

/-- every block is reachable from the entry block -/
theorem C12_reachable (body : Stmt) (bs : List Block) (ps : List Nat) (h : lift body = .ok bs ps) :
    ∀ j, j < bs.length → Reachable (graphOf bs) j :=
  shape_reachable bs (lift_shape body bs ps h)

/-- whenever block `i` dominates block `j` then `i ≤ j` (so iterating blocks in index order
    visits dominators first, as `Cfg::iter` promises) -/
theorem C12_dom_order (body : Stmt) (bs : List Block) (ps : List Nat) (h : lift body = .ok bs ps) :
    ∀ i j, j < bs.length → Dom (graphOf bs) i j → i ≤ j :=
  fun i j hj hd => shape_dom_order bs (lift_shape body bs ps h) j hj i hd

/-- every lifted CFG is a rooted graph: C15 applies to it, and `DominatorTree::new` cannot hit
    either of its assertions on a CFG produced by lifting -/
theorem C12_rooted (body : Stmt) (bs : List Block) (ps : List Nat) (h : lift body = .ok bs ps) :
    Rooted (graphOf bs) := shape_rooted bs (lift_shape body bs ps h)

/-- lifting only fails through the `assert!` of the `InitializationBlock` arm, and the returned
    predecessor set only names existing blocks -/
theorem C12_preds_in_range (body : Stmt) (bs : List Block) (ps : List Nat) (h : lift body = .ok bs ps) :
    ∀ p ∈ ps, p < bs.length := by
  have := visit_inv shape_preserved body 0 initBlocks shape_init
  unfold lift at h
  change visit body 0 initBlocks = _ at h
  rw [h] at this
  exact this.2.2

/-- a branch statement is always the last statement of its block -/
theorem C12_branch_last (body : Stmt) (bs : List Block) (ps : List Nat) (h : lift body = .ok bs ps) :
    ∀ (i : Nat) (b : Block), bs[i]? = some b → ∀ s, s ∈ b.stmts.dropLast → isBranch s = false :=
  lift_branch_last body bs ps h

/-- no block has more than two successors, and a block that does not end in a branch has at most one -/
theorem C12_successors (body : Stmt) (bs : List Block) (ps : List Nat) (h : lift body = .ok bs ps) :
    ∀ (i : Nat) (b : Block), bs[i]? = some b →
      b.succs.length ≤ 2 ∧ (TracePaths.trailingBranch b = false → b.succs.length ≤ 1) :=
  fun i b hb => let c := TracePaths.cls_successors (TracePaths.lift_cls body bs ps h i b hb); ⟨c.1, c.2.1⟩

/-- the targets of the branch that ends a block are existing blocks among its successors -/
theorem C12_branch_targets (body : Stmt) (bs : List Block) (ps : List Nat) (h : lift body = .ok bs ps) :
    ∀ (i : Nat) (b : Block), bs[i]? = some b → ∀ l t f, b.stmts.getLast? = some (IStmt.branch l t f) →
      (t ∈ b.succs ∧ t < bs.length) ∧ ∀ j, f = some j → j ∈ b.succs ∧ j < bs.length := by
  intro i b hb l t f hl
  have c := (TracePaths.cls_successors (TracePaths.lift_cls body bs ps h i b hb)).2.2 l t f hl
  have hrange := (C12_shape body bs ps h).2.2.2.1 i b hb
  exact ⟨⟨c.1, hrange.1 t c.1⟩, fun j hj => ⟨c.2 j hj, hrange.1 j (c.2 j hj)⟩⟩

/-- the recorded depth of a block is the loop nesting depth, in the source, of every statement it holds -/
theorem C12_loop_depth (body : Stmt) (bs : List Block) (ps : List Nat) (h : lift body = .ok bs ps) :
    ∀ (i : Nat) (b : Block), bs[i]? = some b → ∀ st, st ∈ b.stmts → (Trace.stmtLoc st, b.depth) ∈ depths body 0 :=
  TracePaths.lift_depth body bs ps h

/-- `run_complexity_analysis` computes `2 + edges - nodes` in unsigned arithmetic ("cyclomatic complexity subtracts node from edge
    counts unsigned"): on every lifted CFG there are at least `nodes - 1` edges, so the subtraction cannot underflow, the result is
    the integer `E - N + 2`, it is at least 1, and (two successors at most) at most `N + 2` -/
theorem C12_complexity_defined (body : Stmt) (bs : List Block) (ps : List Nat) (h : lift body = .ok bs ps) :
    bs.length ≤ 2 + CfgLift.edges bs ∧
    (CfgLift.complexity bs : Int) = (CfgLift.edges bs : Int) - (bs.length : Int) + 2 ∧
    1 ≤ CfgLift.complexity bs ∧ CfgLift.complexity bs ≤ bs.length + 2 := by
  obtain ⟨_, _, hm, hr, hf⟩ := C12_shape body bs ps h
  have h1 := CfgEdges.nodes_le_edges bs hm hr hf
  have h2 : CfgLift.edges bs ≤ 2 * bs.length := by
    apply CfgEdges.edges_le
    intro b hb
    obtain ⟨i, hi, e⟩ := List.getElem_of_mem hb
    exact (C12_successors body bs ps h i b (by rw [List.getElem?_eq_getElem hi, e])).1
  unfold CfgLift.complexity
  refine ⟨by omega, by omega, by omega, by omega⟩

/-- non-vacuity: `while (c) { if (d) { s } }  s'` lifts, to five blocks -/
def exBody : Stmt :=
  .block (.cons (.while (1, 2) (.block (.cons (.ite (3, 4) (.block (.cons (.simple (5, 6)) .nil))) .nil)))
         (.cons (.simple (7, 8)) .nil))
example : (match lift exBody with | .ok bs _ => bs.length | .panic _ => 0) = 5 := by decide
example : (match lift exBody with | .ok bs _ => CfgLift.complexity bs | .panic _ => 0) = 3 := by decide

end Circomspect.C12
