/-
C06 — constant propagation is sound.

Proved here: the *operator transfer* of value propagation is Circom's field semantics, for every
prime `p > 2` and all operands (corollary of C16, whose model `Field.evalOp` is what
`ExpressionInfixOpcode::propagate_values` calls): arithmetic and bitwise operators yield exactly
the specified field element, comparisons exactly the specified truth value, the partial operators
(division, integer division, remainder, shifts) yield a value only where the specification
defines one, and then that value; `&&`, `||`, `!` on known booleans are the boolean connectives;
no operator combination panics.

Expression and statement level (added after the first build): for every expression, every abstract
environment and every concrete environment `ρ` that agrees with it, every claim written by
`propagate_values` on any node of the expression is the value the node has under `ρ` whenever it has
one (`C06_expr_sound`, by mutual induction over the expression forms; the short-circuit `changed`
flags only skip work), propagation changes annotations only (`C06_eval_unchanged`), and a
substitution whose assignment `ρ` satisfies keeps the environment in agreement, including
`add_variable`'s "two different values ⇒ non-constant" rule (`C06_stmt_sound`).

Path level (`Lemmas/PathValues.lean`): for every SSA CFG in which no two claim-carrying substitutions assign the
same variable (`SingleDef`, evaluated on every real dump: clause (a) of C14 for versioned locals; for signals and
components it holds by construction, `C06_unversioned_marked`, since the pre-pass of `Cfg::propagate_values`
marks every unversioned variable assigned by two statements as not constant — before the repair of the defect
found in the third round a signal assigned a constant on one path and something else on another was claimed
constant), every prime, every budget `k` of passes and every
state that any execution can reach — any order and number of executions of the CFG's substitutions, a
`phi` taking any one of its arguments (hypothesis `PhiComplete`, the identity of the one known finding),
calls / arrays / array reads evaluating to anything, unassigned variables (parameters, input signals)
holding and changing to anything — every claim on every node of the CFG returned by
`valLoop k` is right (`C06_path_sound`); in particular a claimed branch condition never evaluates to
another value (`C06_branch_condition`).
The tie to the code is decided per run by `checks/c06.py`: node-by-node equality of the real annotations with the Lean
propagation model (all three primes) and a reference interpreter that executes the same SSA CFG
and compares every value an annotated node takes; `PhiComplete` is evaluated on every instance
and is the identity of the one known finding.
-/
import Circomspect.Model.Propagate
import Circomspect.Lemmas.ValueLemmas
import Circomspect.Lemmas.PathValues
import Circomspect.Props.C16

namespace Circomspect.C06
open Circomspect Ir Propagate FieldLemmas

theorem asBool_b2n (p : Nat) (hp : 2 < p) (c : Bool) : Field.asBool ((FieldSpec.b2n c : Nat) : Int) (p : Int) = c := by
  unfold Field.asBool
  rw [normalize_eq _ _ (by omega), truthy_b2n p (by omega)]
  cases c <;> simp [FieldSpec.b2n]

/-- arithmetic and bitwise operators: the claimed constant is the specified field element -/
theorem C06_ops_arith (a b p : Nat) (hp : 2 < p) :
    valInfix "add" (some (.fe a)) (some (.fe b)) p = some (.fe (FieldSpec.add p a b : Nat)) ∧
    valInfix "sub" (some (.fe a)) (some (.fe b)) p = some (.fe (FieldSpec.sub p a b : Nat)) ∧
    valInfix "mul" (some (.fe a)) (some (.fe b)) p = some (.fe (FieldSpec.mul p a b : Nat)) ∧
    valInfix "pow" (some (.fe a)) (some (.fe b)) p = some (.fe (FieldSpec.pow p a b : Nat)) ∧
    valInfix "and" (some (.fe a)) (some (.fe b)) p = some (.fe (FieldSpec.band p a b : Nat)) ∧
    valInfix "or" (some (.fe a)) (some (.fe b)) p = some (.fe (FieldSpec.bor p a b : Nat)) ∧
    valInfix "xor" (some (.fe a)) (some (.fe b)) p = some (.fe (FieldSpec.bxor p a b : Nat)) := by
  refine ⟨?_, ?_, ?_, ?_, ?_, ?_, ?_⟩ <;> simp only [valInfix] <;>
    first
    | (rw [show (List.contains _ "add") = true from by decide]; simp only [if_true]; rw [C16.C16_add a b p hp]; rfl)
    | (rw [show (List.contains _ "sub") = true from by decide]; simp only [if_true]; rw [C16.C16_sub a b p hp]; rfl)
    | (rw [show (List.contains _ "mul") = true from by decide]; simp only [if_true]; rw [C16.C16_mul a b p hp]; rfl)
    | (rw [show (List.contains _ "pow") = true from by decide]; simp only [if_true]; rw [C16.C16_pow a b p hp]; rfl)
    | (rw [show (List.contains _ "and") = true from by decide]; simp only [if_true]; rw [C16.C16_and a b p hp]; rfl)
    | (rw [show (List.contains _ "or") = true from by decide]; simp only [if_true]; rw [C16.C16_or a b p hp]; rfl)
    | (rw [show (List.contains _ "xor") = true from by decide]; simp only [if_true]; rw [C16.C16_xor a b p hp]; rfl)

/-- comparisons: the claimed boolean is the specified truth value (signed representatives) -/
theorem C06_ops_cmp (a b p : Nat) (hp : 2 < p) :
    valInfix "lt" (some (.fe a)) (some (.fe b)) p = some (.bool (decide (FieldSpec.sval p (a % p) < FieldSpec.sval p (b % p)))) ∧
    valInfix "le" (some (.fe a)) (some (.fe b)) p = some (.bool (decide (FieldSpec.sval p (a % p) ≤ FieldSpec.sval p (b % p)))) ∧
    valInfix "gt" (some (.fe a)) (some (.fe b)) p = some (.bool (decide (FieldSpec.sval p (a % p) > FieldSpec.sval p (b % p)))) ∧
    valInfix "ge" (some (.fe a)) (some (.fe b)) p = some (.bool (decide (FieldSpec.sval p (a % p) ≥ FieldSpec.sval p (b % p)))) ∧
    valInfix "eq" (some (.fe a)) (some (.fe b)) p = some (.bool (a % p == b % p)) ∧
    valInfix "ne" (some (.fe a)) (some (.fe b)) p = some (.bool (a % p != b % p)) := by
  have hc : ∀ op, op ∈ ["le", "ge", "lt", "gt", "eq", "ne"] →
      (["mul", "div", "add", "sub", "pow", "idiv", "mod", "shl", "shr", "or", "and", "xor"].contains op) = false := by decide
  refine ⟨?_, ?_, ?_, ?_, ?_, ?_⟩
  · simp only [valInfix, hc "lt" (by decide), show (["le", "ge", "lt", "gt", "eq", "ne"].contains "lt") = true from by decide]
    simp only [Bool.false_eq_true, if_false, if_true]; rw [C16.C16_lt a b p hp]; simp only [outBool, FieldSpec.lt, asBool_b2n p hp]
  · simp only [valInfix, hc "le" (by decide), show (["le", "ge", "lt", "gt", "eq", "ne"].contains "le") = true from by decide]
    simp only [Bool.false_eq_true, if_false, if_true]; rw [C16.C16_le a b p hp]; simp only [outBool, FieldSpec.le, asBool_b2n p hp]
  · simp only [valInfix, hc "gt" (by decide), show (["le", "ge", "lt", "gt", "eq", "ne"].contains "gt") = true from by decide]
    simp only [Bool.false_eq_true, if_false, if_true]; rw [C16.C16_gt a b p hp]; simp only [outBool, FieldSpec.gt, asBool_b2n p hp]
  · simp only [valInfix, hc "ge" (by decide), show (["le", "ge", "lt", "gt", "eq", "ne"].contains "ge") = true from by decide]
    simp only [Bool.false_eq_true, if_false, if_true]; rw [C16.C16_ge a b p hp]; simp only [outBool, FieldSpec.ge, asBool_b2n p hp]
  · simp only [valInfix, hc "eq" (by decide), show (["le", "ge", "lt", "gt", "eq", "ne"].contains "eq") = true from by decide]
    simp only [Bool.false_eq_true, if_false, if_true]; rw [C16.C16_eq a b p hp]; simp only [outBool, FieldSpec.eq, asBool_b2n p hp]
  · simp only [valInfix, hc "ne" (by decide), show (["le", "ge", "lt", "gt", "eq", "ne"].contains "ne") = true from by decide]
    simp only [Bool.false_eq_true, if_false, if_true]; rw [C16.C16_ne a b p hp]; simp only [outBool, FieldSpec.ne, asBool_b2n p hp]

/-- partial operators: a constant is claimed only where the specification defines a value, and
    then it is that value (division by zero, over-large shifts: no claim) -/
theorem C06_ops_partial (a b p : Nat) (hp : 2 < p) (hb : FieldSpec.bits p ≤ 2 ^ 64) (hk : b ≤ p) (v : Int) :
    (valInfix "idiv" (some (.fe a)) (some (.fe b)) p = some (.fe v) → FieldSpec.idiv p a b = .val v.toNat ∧ 0 ≤ v) ∧
    (valInfix "mod" (some (.fe a)) (some (.fe b)) p = some (.fe v) → FieldSpec.mod p a b = .val v.toNat ∧ 0 ≤ v) ∧
    (valInfix "shl" (some (.fe a)) (some (.fe b)) p = some (.fe v) → FieldSpec.shl p a b = .val v.toNat ∧ 0 ≤ v) ∧
    (valInfix "shr" (some (.fe a)) (some (.fe b)) p = some (.fe v) → FieldSpec.shr p a b = .val v.toNat ∧ 0 ≤ v) ∧
    (valInfix "div" (some (.fe a)) (some (.fe b)) p = some (.fe v) → ∃ c : Nat, v = c ∧ FieldSpec.IsFieldDiv p a b c) := by
  have hin : ∀ op, op ∈ ["idiv", "mod", "shl", "shr", "div"] →
      (["mul", "div", "add", "sub", "pow", "idiv", "mod", "shl", "shr", "or", "and", "xor"].contains op) = true := by decide
  have agree : ∀ (o : Field.Out) (r : FieldSpec.Res), Agrees o r → outVal o = some (.fe v) → r = .val v.toNat ∧ 0 ≤ v := by
    intro o r hag ho
    cases o with
    | ok w =>
      simp only [outVal] at ho; injection ho with ho; injection ho with ho; subst ho
      cases r with
      | val n => simp only [Agrees] at hag; subst hag; simp
      | undef => simp [Agrees] at hag
      | over => simp [Agrees] at hag
    | err e => simp [outVal] at ho
    | panic s => simp [outVal] at ho
    | unmodelled => simp [outVal] at ho
  refine ⟨?_, ?_, ?_, ?_, ?_⟩
  · simp only [valInfix, hin "idiv" (by decide), if_true]; exact agree _ _ (C16.C16_idiv a b p hp)
  · simp only [valInfix, hin "mod" (by decide), if_true]; exact agree _ _ (C16.C16_mod a b p hp)
  · simp only [valInfix, hin "shl" (by decide), if_true]; exact agree _ _ (C16.C16_shl a b p hp hk hb)
  · simp only [valInfix, hin "shr" (by decide), if_true]; exact agree _ _ (C16.C16_shr a b p hp hk hb)
  · simp only [valInfix, hin "div" (by decide), if_true]
    intro ho
    cases hd : Field.evalOp "div" (a : Int) (b : Int) (p : Int) with
    | ok w =>
      rw [hd] at ho; simp only [outVal] at ho; injection ho with ho; injection ho with ho; subst ho
      exact C16.C16_div_sound a b p hp w hd
    | err e => rw [hd] at ho; simp [outVal] at ho
    | panic s => rw [hd] at ho; simp [outVal] at ho
    | unmodelled => rw [hd] at ho; simp [outVal] at ho

/-- boolean connectives on known booleans, and the prefix operators -/
theorem C06_ops_bool (x y : Bool) (a p : Nat) (hp : 2 < p) :
    valInfix "band" (some (.bool x)) (some (.bool y)) p = some (.bool (x && y)) ∧
    valInfix "bor" (some (.bool x)) (some (.bool y)) p = some (.bool (x || y)) ∧
    valPrefix "not" (some (.bool x)) p = some (.bool (!x)) ∧
    valPrefix "neg" (some (.fe a)) p = some (.fe (FieldSpec.neg p a : Nat)) ∧
    valPrefix "compl" (some (.fe a)) p = some (.fe (FieldSpec.compl p a : Nat)) := by
  refine ⟨rfl, rfl, rfl, ?_, ?_⟩
  · simp only [valPrefix]; rw [show ("neg" == "neg") = true from by decide]; simp only [if_true]
    have := C16.C16_neg a 0 p hp
    simp only [Int.natCast_zero] at this
    rw [this]; rfl
  · simp only [valPrefix]
    rw [show ("compl" == "neg") = false from by decide, show ("compl" == "compl") = true from by decide]
    simp only [Bool.false_eq_true, if_false, if_true]
    have := C16.C16_compl a 0 p hp
    simp only [Int.natCast_zero] at this
    rw [this]; rfl

/-- an unknown operand never yields a claim -/
theorem C06_unknown_operand (op : String) (x : Option Val) (p : Int) :
    valInfix op none x p = none ∧ valInfix op x none p = none ∧ valPrefix op none p = none := by
  refine ⟨rfl, ?_, rfl⟩
  cases x with
  | none => rfl
  | some v => cases v <;> rfl

/-- non-vacuity -/
example : valInfix "lt" (some (.fe 6)) (some (.fe 1)) 7 = some (.bool true) := by decide

/-- every claim written on any node of an expression is right under every concrete environment that
    agrees with the abstract one -/
theorem C06_expr_sound (ρ : VName → Option Val) (ω : Expr → Option Val) (env : ValEnv) (hag : Agree ρ env) (e : Expr)
    (h : SoundE ρ ω env.prime e) : SoundE ρ ω env.prime (valExpr env e).1 :=
  valExpr_sound ρ ω env hag e h

/-- propagation changes annotations only: the value of the expression is untouched -/
theorem C06_eval_unchanged (ρ : VName → Option Val) (ω : Expr → Option Val) (p : Int) (env : ValEnv) (e : Expr) :
    evalE ρ ω p (valExpr env e).1 = evalE ρ ω p e :=
  evalE_valExpr ρ ω p env e

/-- a substitution keeps the abstract environment in agreement with every concrete environment that
    satisfies the assignment -/
theorem C06_stmt_sound (ρ : VName → Option Val) (ω : Expr → Option Val) (env : ValEnv) (hag : Agree ρ env)
    (a : Ann) (v : VName) (ty : Option VType) (op : String) (rhe : Expr)
    (hs : SoundE ρ ω env.prime rhe) (hsat : ρ v = evalE ρ ω env.prime rhe) :
    Agree ρ (valStmt env (.sub a v ty op rhe)).2.1 :=
  valStmt_sub_sound ρ ω env hag a v ty op rhe hs hsat

/-! non-vacuity: `x + 2` with `x ↦ 3` known and the leaves annotated by an earlier pass: the node gets
    the claim 5 -/
example : (valExpr ⟨21888242871839275222246405745257275088548364400416034343698204186575808495617, [(⟨"x", none, some 0⟩, .fe 3)], []⟩
    (.infix {} "add" (.var { val := some (.fe 3) } ⟨"x", none, some 0⟩) (.num { val := some (.fe 2) } 2))).1.ann.val = some (.fe 5) := by decide

/-- **path level**: after any number `k` of passes over an unannotated SSA CFG with single definitions,
    every claim on every statement is right in every reachable state of every execution -/
theorem C06_path_sound (p : Int) (bs : List Block) (hsd : SingleDef (MuOf bs) (stmtsOf bs))
    (hclean : ∀ s, s ∈ stmtsOf bs → NoValS s) (k : Nat) :
    ∀ σ, Reach p (stmtsOf bs) σ → ∀ s, s ∈ stmtsOf (valLoop k (valInit p bs) bs).1 → SoundS (MuOf bs) σ p s :=
  value_path_sound p bs hsd (fun σ _ s hs => noValS_sound (MuOf bs) σ p s (hclean s hs)) k

/-- a `constant branch condition`: if the condition of a branch carries the claim `x`, it evaluates to
    `x` (or is undefined) in every reachable state, whatever the opaque sub-expressions yield -/
theorem C06_branch_condition (p : Int) (bs : List Block) (hsd : SingleDef (MuOf bs) (stmtsOf bs))
    (hclean : ∀ s, s ∈ stmtsOf bs → NoValS s) (k : Nat) (c : Expr)
    (hc : Stmt.ite c ∈ stmtsOf (valLoop k (valInit p bs) bs).1) (x : Val) (hx : c.ann.val = some x) :
    ∀ σ, Reach p (stmtsOf bs) σ → ∀ ω y, evalE σ ω p c = some y → y = x := by
  intro σ hr ω y hy
  have := C06_path_sound p bs hsd hclean k σ hr _ hc
  unfold SoundS at this
  exact sound_top σ ω p c (this ω) x hx y hy

/-- the decidable form of the hypothesis, evaluated by `csmodel pathhyps` on every real dump -/
theorem C06_singleDef_decidable (bs : List Block) (h : singleDefB (stmtsOf bs) = true) : SingleDef (MuOf bs) (stmtsOf bs) :=
  singleDefB_sound bs h

/-- for signals and components the hypothesis holds by construction: two different substitutions to the same
    unversioned variable, neither an element-wise update, make the pre-pass mark it as not constant -/
theorem C06_unversioned_marked (bs : List Block) (s₁ s₂ : Stmt) (h₁ : s₁ ∈ stmtsOf bs) (h₂ : s₂ ∈ stmtsOf bs) (v : VName)
    (k₁ : nonUpdKey s₁ = some v) (k₂ : nonUpdKey s₂ = some v) : s₁ = s₂ ∨ MuOf bs v :=
  singleDef_unversioned (stmtsOf bs) s₁ s₂ h₁ h₂ v k₁ k₂

/-- what the second half of the pre-pass guarantees for a variable it does not mark: at every statement that reads it, its
    (last) counted assignment is an earlier statement of the same block or lies in a block that dominates the reading block — with
    C15 (`Dom`: every path from the entry to the reading block passes through the assigning block) the assignment comes before
    the read on every path.  (Repair 487d6b8: before, `if (in == 0) { s <-- 1; } if (s == 1)` was claimed always true.) -/
theorem C06_unmarked_reads_dominated (bs : List Block) (i j : Nat) (b : Block) (s : Stmt) (v : VName)
    (hb : bs[i]? = some b) (hs : b.stmts[j]? = some s) (hv : v ∈ readsS s) (d k : Nat)
    (hd : lastDef (defSites bs) v = some (d, k)) (hun : v ∉ undom bs) :
    (d = i ∧ k ≤ j) ∨ (d ≠ i ∧ d ∈ b.doms) := by
  by_cases hok : (if d == i then decide (k ≤ j) else b.doms.contains d) = true
  · by_cases hdi : d = i
    · subst hdi; simp at hok; exact Or.inl ⟨rfl, hok⟩
    · have : (d == i) = false := by simpa using hdi
      simp [this] at hok; exact Or.inr ⟨hdi, hok⟩
  · exfalso
    apply hun
    unfold undom
    simp only
    rw [List.mem_flatMap]
    refine ⟨(b, i), ?_, ?_⟩
    · exact List.mem_zipIdx_iff_getElem?.mpr (by simpa using hb)
    · rw [List.mem_flatMap]
      refine ⟨(s, j), List.mem_zipIdx_iff_getElem?.mpr (by simpa using hs), ?_⟩
      rw [List.mem_filter]
      refine ⟨hv, ?_⟩
      simp only [hd]
      cases h : (if d == i then decide (k ≤ j) else b.doms.contains d) with
      | true => exact absurd h hok
      | false => rfl

/-- ... and a marked variable (by either half of the pre-pass) starts as not constant -/
theorem C06_prepass_marks (p : Int) (bs : List Block) (v : VName) (h : v ∈ multiOf (stmtsOf bs) ∨ v ∈ undom bs) :
    (valInit p bs).nonConstant.contains v = true := by
  have : v ∈ multiOf (bs.flatMap (·.stmts)) ∨ v ∈ undom bs := h
  simpa [valInit] using this

/-- a marked variable never gets a value: no read of it is ever annotated from the environment -/
theorem C06_marked_never_recorded (env : ValEnv) (v : VName) (x : Val) (h : env.nonConstant.contains v = true) :
    env.add v x = env := add_marked env v x h

/-! non-vacuity of the path theorem: `x = 3; y = x + 2; if (y == 5)` — the hypotheses hold, the branch
    condition gets the claim `true` after the passes, and the state `x ↦ 3, y ↦ 5` is reachable. -/
section NonVacuity
private def px : VName := ⟨"x", none, some 0⟩
private def py : VName := ⟨"y", none, some 0⟩
private def demo : List Block := [{ stmts := [
  .sub {} px (some .local_) "=" (.num {} 3),
  .sub {} py (some .local_) "=" (.infix {} "add" (.var {} px) (.num {} 2)),
  .ite (.infix {} "eq" (.var {} py) (.num {} 5))] }]

example : singleDefB (stmtsOf demo) = true := by decide
example : ∀ s, s ∈ stmtsOf demo → NoValS s := by
  intro s hs
  simp only [stmtsOf, demo, List.flatMap_cons, List.flatMap_nil, List.append_nil, List.mem_cons, List.not_mem_nil, or_false] at hs
  rcases hs with h | h | h <;> subst h <;> simp [NoValS, NoValE]
example : ((stmtsOf (valLoop 20 (valInit 101 demo) demo).1).map (fun s => match s with | .ite c => c.ann.val | _ => none)) =
    [none, none, some (.bool true)] := by decide
example : ∃ σ, Reach 101 (stmtsOf demo) σ ∧ σ px = some (.fe 3) ∧ σ py = some (.fe 5) := by
  let σ₀ : State := fun _ => none
  have h0 : Reach 101 (stmtsOf demo) σ₀ := .init _ (fun _ _ _ _ => rfl)
  have h1 := Reach.step _ _ h0 (Step.assign σ₀ {} px (some .local_) "=" (.num {} 3) (fun _ => none)
    (by simp [stmtsOf, demo]) rfl)
  have h2 := Reach.step _ _ h1 (Step.assign _ {} py (some .local_) "=" (.infix {} "add" (.var {} px) (.num {} 2)) (fun _ => none)
    (by simp [stmtsOf, demo]) rfl)
  refine ⟨_, h2, ?_, ?_⟩
  · simp [State.set, px, py, evalE]
  · simp only [State.set_same]; decide
/-! the defect repaired in the third round: `if (n == 1) { s <== 1; } else { s <== in; } if (s == 1)` — `s` is marked,
    the hypotheses hold, and the condition gets no claim -/
private def ps : VName := ⟨"s", none, none⟩
private def pn : VName := ⟨"n", none, none⟩
private def pin : VName := ⟨"in", none, none⟩
private def demo2 : List Block := [
  { stmts := [.ite (.infix {} "eq" (.var {} pn) (.num {} 1))] },
  { stmts := [.sub {} ps (some .signal) "<==" (.num {} 1)] },
  { stmts := [.sub {} ps (some .signal) "<==" (.var {} pin)] },
  { stmts := [.ite (.infix {} "eq" (.var {} ps) (.num {} 1))] }]
example : multiOf (stmtsOf demo2) = [ps] := by decide
example : singleDefB (stmtsOf demo2) = true := by decide
example : ((stmtsOf (valLoop 20 (valInit 101 demo2) demo2).1).map (fun s => match s with | .ite c => c.ann.val | _ => none)) =
    [none, none, none, none] := by decide
/-- ... while without the pre-pass (the code before the repair) the condition is claimed to be always true -/
example : ((stmtsOf (valLoop 20 ⟨101, [], []⟩ demo2).1).map (fun s => match s with | .ite c => c.ann.val | _ => none)) =
    [none, none, none, some (.bool true)] := by decide
end NonVacuity

end Circomspect.C06
