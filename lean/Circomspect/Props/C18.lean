/-
C18 — tuples and anonymous components are desugared completely and faithfully.

Statements about `Model/Desugar.lean` (the model of `syntax_sugar_remover.rs` and of the
`ContainsExpression` trait), for every AST, template table and loop context:

* completeness of the traversal used for all the position checks (`C18_traversal_complete`);
* a template that survives has no tuple, no anonymous component and no multi-substitution left,
  wherever they were written (`C18_template_clean`) — the proof goes through every statement kind
  and every expression position, which is how the missing `assert` / `log` / left-hand-index /
  function-assignment checks were found;
* a function is kept iff it contains none of them (`C18_function_reject`);
* a tuple assignment is the element-wise assignments of the flattened sides in order, skipping `_`
  (`C18_tuple_semantics`);
* an anonymous component is a declared component: one initialisation, then one assignment per input
  signal in declaration order — positional, or looked up by name with the operator written there —
  and its value is its outputs in declaration order (`C18_anon_shape`, `C18_anon_inputs`).

`checks/c18.py` compares the model with the real `parse_files` node for node on generated programs
with sugar in every position, and the findings of sugared templates with their hand expansion.
-/
import Circomspect.Lemmas.DesugarLemmas

namespace Circomspect.C18
open Circomspect Desugar

/-- the `ContainsExpression` traversal visits every expression position of every statement kind:
    it reports nothing iff there is no such node anywhere below -/
theorem C18_traversal_complete (k : Bool) (s : Stmt) (e : Expr) :
    (collectS k s = [] ↔ hasS k s = false) ∧ (containsE k e = false ↔ hasE k e = false) ∧
    (invalidS s = [] ↔ msubS s = false) :=
  ⟨collectS_iff k s, containsE_iff k e, invalidS_iff s⟩

/-- every template handed to the analysis is free of tuples, anonymous components and
    multi-substitutions -/
theorem C18_template_clean (tbl : List TemplateSig) (body body' : Stmt)
    (h : desugarTemplate tbl body = .ok body') :
    hasS true body' = false ∧ hasS false body' = false ∧ msubS body' = false :=
  desugarTemplate_clean tbl body body' h

/-- functions: kept iff free of tuples, anonymous components and assignments to non-variables;
    otherwise at least one error is reported -/
theorem C18_function_reject (body : Stmt) :
    functionReports body = [] ↔ sugarS body = false :=
  functionReports_iff body

/-- nested tuples flatten in order, and a tuple assignment is the element-wise assignments in order,
    skipping `_` -/
theorem C18_tuple_semantics (m lm rm : Desugar.Meta) (ls rs : Exprs) (op : Op) (s' : Stmt)
    (h : rmTupS (.msub m (.tuple lm ls) op (.tuple rm rs)) = .ok s') :
    (flatEs ls).length = (flatEs rs).length ∧
    s' = .block m (Stmts.ofList (elementwise op (flatEs ls) (flatEs rs))) :=
  tuple_assignment m lm rm ls rs op s' h

/-- an anonymous component `T(p..)(a..)`: a block that initialises the generated component with
    `T(p..)` and then assigns its inputs in declaration order with the planned operators; its value is
    its outputs in declaration order -/
theorem C18_anon_shape (tbl : List TemplateSig) (va : Option Expr) (m : Desugar.Meta) (label id : String)
    (ps ss : Exprs) (names : Option (List (Op × String))) (par : Bool) (res : AnonRes)
    (h : rmAnonE tbl va (.anon m label id ps ss names par) = .ok res) :
    ∃ t plan seq, lookupT tbl id = some t ∧ inputPlan m t.inputs names (exprsLen ss) = .ok plan ∧
      res.1 = [.block m (Stmts.ofList seq)] ∧
      directSubs seq = (id ++ "#" ++ label, none, Op.var) ::
        plan.map (fun p => (id ++ "#" ++ label, some p.1, p.2.2)) ∧
      res.2.2 = outValue va m (id ++ "#" ++ label) t.outputs := by
  unfold rmAnonE at h
  exact anonBody_shape tbl va m label id ps names par _ _ res (rmAnonEs_blocks tbl va ss) h

/-- the input plan: all inputs, in declaration order; positional inputs take the i-th argument with
    `<==`; named inputs take the argument and the operator written next to their name -/
theorem C18_anon_inputs (m : Desugar.Meta) (inputs : List String) (names : Option (List (Op × String))) (n : Nat)
    (plan : List (String × Nat × Op)) (h : inputPlan m inputs names n = .ok plan) :
    plan.map (·.1) = inputs ∧ inputs.length = n ∧
    (∀ ns, names = some ns → ∀ p, p ∈ plan → ns[p.2.1]? = some (p.2.2, p.1)) ∧
    (names = none → plan = (inputs.zip (List.range n)).map (fun p => (p.1, p.2, Op.csig))) :=
  inputPlan_spec m inputs names n plan h

/-! non-vacuity: `(o, _, p) <== (a, (b, U()(a)))` in a template with `U` known -/
def exTbl : List TemplateSig := [⟨"U", ["in"], ["out"]⟩]
def exBody : Stmt :=
  .block (0, 90) (.cons
    (.msub (10, 40) (.tuple (10, 20) (.cons (.var (11, 12) "o" .nil) (.cons (.var (13, 14) "_" .nil) (.cons (.var (15, 16) "p" .nil) .nil))))
      .csig
      (.tuple (25, 40) (.cons (.var (26, 27) "a" .nil) (.cons (.tuple (28, 39) (.cons (.var (29, 30) "b" .nil)
        (.cons (.anon (31, 38) "1_31" "U" .nil (.cons (.var (35, 36) "a" .nil) .nil) none false) .nil))) .nil))))
    .nil)

example : ∃ b, desugarTemplate exTbl exBody = .ok b := ⟨_, rfl⟩
example : sugarS exBody = true := by decide

end Circomspect.C18
