/-
C09 — `value never read` / `no side effect` claims about variables are true.

`Model/Taint.lean` has (i) the analysis: taint steps, constraint steps, the closure loop, the sink set
and the classification of `side_effect_analysis.rs`, over the facts read off the SSA CFG, and (ii) a
machine on which the property's effects are events: values written to input/output signals,
constraints mentioning such a signal — in their text or through the symbolic value of a local they read (`mention`: any set of
variables that an input/output signal flows into; `var lc = n * in; lc === 6;` is the constraint `n * in = 6`) —,
assertion/return values, array dimensions, branch decisions.  (Until the third round the machine only counted a constraint
that names such a signal in its text; with that reading the theorem was true of an analysis that reported `n` and `lc` above
as unused — defect `F-C09-single-constraint`, found by an independent audit, repaired, and the reading corrected.)

For every program (any CFG shape, loops included), every number of steps and every replacement of
the values stored by the assignments to a claimed variable `x` (a fresh value at every execution of
such an assignment), and for initial environments that differ only where `x` can flow (which covers
a claimed parameter), the event traces of the original and of the perturbed run are equal
(`C09_noninterference`).  The proof is a lock-step simulation: conditions, dimensions, asserted and
returned values are sinks, so both runs take the same path; a variable outside the influence of `x`
is computed from variables outside the influence of `x`.

`checks/c09.py` ties the facts and the claims to the real passes and perturbs every real claim in a
reference interpreter.
-/
import Circomspect.Lemmas.TaintLemmas
import Circomspect.Lemmas.CfgReachLemmas

namespace Circomspect.C09
open Circomspect Taint

/-- `multi_step_taint` (when the work list empties within the budget) is exactly reachability in the
    single-step relation -/
theorem C09_closure (es : List (V × V)) (fuel : Nat) (x : V) (r : List V)
    (h : multiStepTaint es fuel x = some r) : ∀ y, y ∈ r ↔ Reach es x y :=
  fun y => ⟨multiStepTaint_sound es fuel x r h y, multiStepTaint_complete es fuel x r h y⟩

/-- the work list of `multi_step_taint` empties by itself: a budget of (number of edges + 2) iterations is never
    exhausted — the work is linear in the number of taint steps (repair 7abcad3; before it the loop re-expanded
    the whole frontier in every round) -/
theorem C09_closure_terminates (es : List (V × V)) (x : V) :
    ∃ r, multiStepTaint es (closureFuel es 1) x = some r :=
  multiStepTaint_terminates es x

/-- the same for `multi_step_constraint`, which starts from all one-step partners -/
theorem C09_constraint_closure_terminates (es : List (V × V)) (x : V) :
    ∃ r, multiStepCons es (closureFuel es es.length) x = some r :=
  multiStepCons_terminates es x

/-- the repair changed the cost, not the result: the loop as it was (`closeLoop`, `while !update.is_subset(&result)`)
    and the work list return the same set of variables whenever both return -/
theorem C09_closure_repair_same (es : List (V × V)) (k k' : Nat) (x : V) (r r' : List V)
    (h : closeLoop es k [x] [] = some r) (h' : workLoop es k' [x] [] = some r') : ∀ y, y ∈ r ↔ y ∈ r' :=
  closure_repair_same es k k' x r r' h h'

/-- non-vacuity: on a cycle with a tail both loops return, and return the same four variables -/
example : closeLoop [(1, 2), (2, 3), (3, 1), (3, 4)] 9 [1] [] = some [1, 2, 3, 1, 4]
    ∧ workLoop [(1, 2), (2, 3), (3, 1), (3, 4)] 9 [1] [] = some [4, 3, 2, 1] := by
  constructor <;> rfl

/-- the region of one side of an if statement (`get_true_branch`, `get_false_branch`; the taint analysis lets the variables of the
    condition taint everything assigned there): with `es` the edges of the CFG and `df` the dominance frontier, it is the first
    block of the side and everything it reaches when that block has an empty frontier, and otherwise the blocks between the first
    block and a block of its frontier (`Model/CfgReach.lean`, compared with the real regions of every generated definition) -/
theorem C09_branch_region (es : List (Nat × Nat)) (df : Nat → List Nat) (start x : Nat) :
    x ∈ CfgReach.branch es df start ↔
      (df start = [] ∧ Reach es start x) ∨ (∃ e, e ∈ df start ∧ Reach es start x ∧ Reach es x e ∧ x ≠ e) :=
  CfgReach.mem_branch es df start x

/-- an interval of the CFG: reachable from the start, reaching the end, and not the end -/
theorem C09_interval (es : List (Nat × Nat)) (s e x : Nat) :
    x ∈ CfgReach.getInterval es s e ↔ Reach es s x ∧ Reach es x e ∧ x ≠ e :=
  CfgReach.mem_getInterval es s e x

/-- non-vacuity: a diamond 0 → {1, 2} → 3 → 4 with frontier {3} for both sides -/
example : CfgReach.trueBranch [(0, 1), (0, 2), (1, 3), (2, 3), (3, 4)] (fun i => if i = 1 ∨ i = 2 then [3] else []) 1 = [1]
    ∧ CfgReach.falseBranch [(0, 1), (0, 2), (1, 3), (2, 3), (3, 4)] (fun i => if i = 1 ∨ i = 2 then [3] else []) 1 (some 2) = [2] := by
  constructor <;> rfl

/-- the sink set contains every input/output signal, every variable read by a condition, a
    dimension, an assertion or a return value, and every variable of a constraint that mentions an
    input/output signal -/
theorem C09_sinks_cover (d : Def) (S : List V) (h : d.sinks = some S) (M : List V)
    (hM : ∀ u, u ∈ M → ∃ e, e ∈ d.exported ∧ Reach (edges d.facts) e u) :
    Covers d.facts d.exported M S :=
  let c := sinks_cover d S h M hM
  ⟨c.1, c.2.1, c.2.2⟩

/-- a claimed variable reaches no sink -/
theorem C09_claim_safe (d : Def) (S : List V) (x : V) (c : Claim) (hS : d.sinks = some S)
    (hw : consWfB d.facts = true) (h : d.classify x = some (some c)) :
    ∀ s, s ∈ S → ¬ Reach (edges d.facts) x s :=
  classify_safe d S x c hS (consWfB_spec d.facts hw) h

/-- an `unread` claim means that no statement reads the variable -/
theorem C09_unread (d : Def) (x : V) (h : d.classify x = some (some .unread)) :
    x ∉ readSet d.facts ∧ x ∉ d.exported := by
  unfold Def.classify at h
  split at h
  · cases h
  · split at h
    · rename_i hnr
      split at h
      · cases h
      · rename_i hne
        exact ⟨by simpa using hnr, by simpa using hne⟩
    · split at h
      · split at h <;> cases h
      · cases h

/-- non-interference: replacing the values assigned to a claimed variable changes no effect -/
theorem C09_noninterference {Val : Type} (p : Prog Val) (d : Def) (hd : d.facts = p.facts)
    (S : List V) (hS : d.sinks = some S) (hw : consWfB d.facts = true)
    (x : V) (c : Claim) (hc : d.classify x = some (some c))
    (M : List V) (hM : ∀ u, u ∈ M → ∃ e, e ∈ d.exported ∧ Reach (edges d.facts) e u)
    (ora : Nat → Val) (k : Nat) (s s' : State Val)
    (h0 : Rel (edges p.facts) x s s') :
    (run d.exported M p k s).trace = (runO d.exported M (replace x ora) p k 0 s').trace := by
  have hcov := C09_sinks_cover d S hS M hM
  have hsafe := C09_claim_safe d S x c hS hw hc
  rw [hd] at hcov hsafe
  rw [← runO_id d.exported M p k 0 s]
  exact (run_rel d.exported M S p x ora hcov hsafe k 0 s s' h0).trace

/-! non-vacuity: `v = a; w = v + 1; out <== a` — `v` (1) is read but reaches no sink, `w` (2) is unread -/
def exDef : Def :=
  { facts := [.assign 1 [0] false, .assign 2 [1] false, .assign 3 [0, 3] false, .constraint [0, 3] []],
    params := [], exported := [0, 3], underscore := [], fuel := 10 }

example : exDef.classify 1 = some (some .noSideEffect) := by decide
example : exDef.classify 2 = some (some .unread) := by decide
example : exDef.classify 3 = some none := by decide
example : consWfB exDef.facts = true := by decide

/-! the defect repaired in the third round: `var lc = n * a; lc === 6; out <== a` (0 = `a`, 1 = `n`, 2 = `lc`, 3 = `out`): the
    local `lc` and the parameter `n` are used in constraint generation — no claim -/
def exSingle : Def :=
  { facts := [.assign 2 [1, 0] false, .constraint [2] [2], .assign 3 [0, 3] false, .constraint [0, 3] []],
    params := [1], exported := [0, 3], underscore := [], fuel := 10 }
example : exSingle.classify 2 = some none ∧ exSingle.classify 1 = some none := by decide

end Circomspect.C09
