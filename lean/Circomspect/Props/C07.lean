/-
C07 — degree claims are sound.

Operator level (`Lemmas/DegreeOps.lean`, re-exported here): `Gen/ImplTables.lean` is the graph of the
running code (`vharness tables` executes the real `Degree` / `DegreeRange` functions over their whole
finite domain on every run); the hand model equals the code on the whole domain, the code's degree is
exactly the degree of Circom's expression algebra for all 23 operators and all operand degrees, and
lifting to ranges is monotone.

Expression level (`Lemmas/DegreeLemmas.lean`): `degE δ e` is the degree of `e` in Circom's algebra when
the variables have the degrees `δ` (signals and ports indeterminates, parameters and literals
constants).  For every expression, every abstract environment and every `δ` it bounds, every range
`propagate_degrees` writes on any node of the expression is an upper bound of that node's degree
(`C07_expr_sound`): all operators, inline switches with constant conditions, calls with constant
arguments, inline arrays, array accesses with constant / non-constant / unknown indices, array updates
including the "first assignment" rule, and phi nodes; the short-circuit `changed` flags only skip work.
Propagation changes annotations only (`C07_degree_unchanged`).

Path level (`Lemmas/PathDegrees.lean`): for every SSA CFG meeting the decidable well-formedness `WfD`
(a local has one substitution; no variable is declared both local and non-local; parameters are not
assigned; before every element-wise update of `v` the block order has already passed a substitution to
`v` and a non-local declaration of `v` if the program has any — what the "first assignment to the array"
rule relies on; all evaluated on every real dump by `csmodel pathhyps`), every budget `k` of passes and
every degree state any execution can reach (signals/components always degree 1, template parameters
constants, any substitution to a local executed in any order any number of times), every range on every
node of the CFG returned by `degLoop k` bounds the node's degree in Circom's algebra (`C07_path_sound`);
in particular the right-hand side of an assignment annotated `quadratic` is at most quadratic in every
execution (`C07_assignment_rhs`).  The tie to the code is decided per run by `checks/c07.py`
(correspondence + least-fixpoint oracle).
-/
import Circomspect.Lemmas.DegreeLemmas
import Circomspect.Lemmas.PathDegrees
import Circomspect.Lemmas.PathValues
import Circomspect.Lemmas.CfgReachLemmas
import Circomspect.Lemmas.JoinCover

namespace Circomspect.C07
open Circomspect Gen Algebra Propagate Ir

/-- the model of the operator tables is the code, on the whole domain -/
theorem C07_model_is_code :
    implDegOp.all (fun r => degOp r.1 r.2.1 r.2.2.1 == r.2.2.2) = true ∧
    implDegPrefix.all (fun r => degPrefix r.1 r.2.1 == r.2.2) = true ∧
    implRangeOp.all (fun r => rangeOp r.1 r.2.1 r.2.2.1 == r.2.2.2) = true ∧
    implRangePrefix.all (fun r => rangePrefix r.1 r.2.1 == r.2.2) = true ∧
    implRangeInf.all (fun r => rangeInf r.1 r.2.1 == r.2.2) = true :=
  C07ops.C07_model_is_code

/-- the regenerated table covers every operator and every pair of operand degrees -/
theorem C07_table_complete :
    infixOps.all (fun op => (List.range 4).all (fun a => (List.range 4).all (fun b =>
      implDegOp.any (fun r => r.1 == op && r.2.1 == a && r.2.2.1 == b)))) = true ∧
    prefixOps.all (fun op => (List.range 4).all (fun a => implDegPrefix.any (fun r => r.1 == op && r.2.1 == a))) = true :=
  C07ops.C07_table_complete

/-- the code's transfer table is Circom's expression algebra, row by row -/
theorem C07_table :
    implDegOp.all (fun r => alg r.1 r.2.1 r.2.2.1 == r.2.2.2) = true ∧
    implDegPrefix.all (fun r => algPrefix r.1 r.2.1 == r.2.2) = true :=
  C07ops.C07_table

/-- lifting to ranges: whatever the true degrees within the operand ranges, the algebra's degree is at
    most the upper end of the result range -/
theorem C07_range (op : String) (r s : Ir.Range) (d₁ d₂ : Nat) (h₁ : d₁ ≤ r.2) (h₂ : d₂ ≤ s.2)
    (hr : r.2 ≤ 3) (hs : s.2 ≤ 3) : alg op d₁ d₂ ≤ (rangeOp op r s).2 :=
  C07ops.C07_range op r s d₁ d₂ h₁ h₂ hr hs

theorem C07_range_prefix (op : String) (r : Ir.Range) (d : Nat) (h : d ≤ r.2) (hop : op ∈ prefixOps) :
    algPrefix op d ≤ (rangePrefix op r).2 :=
  C07ops.C07_range_prefix op r d h hop

theorem C07_inf (r s : Ir.Range) : r.2 ≤ (rangeInf r s).2 ∧ s.2 ≤ (rangeInf r s).2 :=
  C07ops.C07_inf r s

/-- every range written on any node of an expression bounds that node's degree, under every degree
    assignment that the abstract environment bounds -/
theorem C07_expr_sound (δ : VName → Nat) (F : VName → Prop) (env : DegEnv) (hag : AgreeD δ env F) (e : Expr)
    (h : SoundD δ F e) : SoundD δ F (degExpr env e).1 :=
  degExpr_sound δ F env hag e h

/-- degree propagation changes annotations only -/
theorem C07_degree_unchanged (δ : VName → Nat) (env : DegEnv) (e : Expr) :
    degE δ (degExpr env e).1 = degE δ e :=
  degE_degExpr δ env e

/-- the two rows repaired by a `fix:` commit: `~x` and `!x` of a non-constant `x` -/
example : algPrefix "compl" 1 = 3 ∧ algPrefix "not" 1 = 3 ∧ degPrefix "compl" 1 = 3 := by decide

/-! non-vacuity: `in * in` with `in` linear gets the range (2, 2), which bounds its degree 2 -/
example : (degExpr ⟨[(⟨"in", none, none⟩, (1, 1))], [], [], false⟩
    (.infix {} "mul" (.var { deg := some (1, 1) } ⟨"in", none, none⟩) (.var { deg := some (1, 1) } ⟨"in", none, none⟩))).1.ann.deg = some (2, 2) := by decide

/-- **path level**: after any number `k` of passes over an unannotated well-formed SSA CFG, every degree
    range on every statement bounds the node's degree in every reachable degree state -/
theorem C07_path_sound (cfg : Cfg) (wf : WfD (programOf cfg) cfg.params)
    (hclean : ∀ s, s ∈ stmtsOf cfg.blocks → NoDegS s) (k : Nat) :
    ∀ δ, ReachD (programOf cfg) cfg.params cfg.isFunction δ →
      ∀ s, s ∈ stmtsOf (degLoop k (degInit cfg) cfg.blocks).1 → SoundSD δ s :=
  degree_path_sound cfg wf hclean k

/-- the right-hand side of an assignment whose range is `r` has degree at most `r.2` in every reachable
    state: the advice `<-- is not necessary here` (upper end ≤ 2) is only given for right-hand sides that
    are at most quadratic in every execution -/
theorem C07_assignment_rhs (cfg : Cfg) (wf : WfD (programOf cfg) cfg.params)
    (hclean : ∀ s, s ∈ stmtsOf cfg.blocks → NoDegS s) (k : Nat)
    (a : Ann) (v : VName) (ty : Option VType) (op : String) (rhe : Expr)
    (hs : Stmt.sub a v ty op rhe ∈ stmtsOf (degLoop k (degInit cfg) cfg.blocks).1)
    (r : Ir.Range) (hr : rhe.ann.deg = some r) :
    ∀ δ, ReachD (programOf cfg) cfg.params cfg.isFunction δ → degE δ rhe ≤ r.2 := by
  intro δ hδ
  have := C07_path_sound cfg wf hclean k δ hδ _ hs
  unfold SoundSD at this
  exact (soundD_top δ FTop rhe this r hr).1

/-- the decidable form of the hypothesis -/
theorem C07_wfD_decidable (E : List Stmt) (ps : List VName) (h : wfDB E ps = true) : WfD E ps := wfDB_sound E ps h

/-! non-vacuity of the path theorem: `signal in, out; var x; x = in * in; out <-- x * in` — the hypotheses
    hold, the first right-hand side gets the range (2, 2), the second (3, 3), and the degree state
    `in ↦ 1, x ↦ 2` is reachable. -/
section NonVacuity
private def vin : VName := ⟨"in", none, none⟩
private def vout : VName := ⟨"out", none, none⟩
private def vx : VName := ⟨"x", none, some 0⟩
private def demo : Cfg := { isFunction := false, params := [], blocks := [{ stmts := [
  .decl [vin] .signal [], .decl [vout] .signal [], .decl [vx] .local_ [],
  .sub {} vx (some .local_) "=" (.infix {} "mul" (.var {} vin) (.var {} vin)),
  .sub {} vout (some .signal) "<--" (.infix {} "mul" (.var {} vx) (.var {} vin))] }] }

example : wfDB (programOf demo) demo.params = true := by decide
example : ((stmtsOf (degLoop 30 (degInit demo) demo.blocks).1).map
    (fun s => match s with | .sub _ _ _ _ rhe => rhe.ann.deg | _ => none)) = [none, none, none, some (2, 2), some (3, 3)] := by decide
example : ∃ δ, ReachD (programOf demo) demo.params demo.isFunction δ ∧ δ vin = 1 ∧ δ vx = 2 := by
  let δ₀ : DState := fun v => if v = vin ∨ v = vout then 1 else 0
  have hnl : ∀ v, NonLocal (programOf demo) v ↔ (v = vin ∨ v = vout) := by
    intro v
    rw [← nonLocalB_iff]
    simp [nonLocalB, programOf, stmtsOf, demo, eraseS, declaresNLB]
  have h0 : ReachD (programOf demo) demo.params demo.isFunction δ₀ := by
    refine .init _ ⟨?_, ?_, ?_, ?_⟩
    · intro v; simp only [δ₀]; split <;> omega
    · intro v hv; simp only [δ₀]; rw [if_pos ((hnl v).mp hv)]
    · intro v hv; cases hv
    · intro v hv _; simp only [δ₀]; rw [if_neg (fun h => hv ((hnl v).mpr h))]
  have h1 := ReachD.step _ _ h0 (StepD.assign δ₀ {} vx (some .local_) "=" (.infix {} "mul" (.var {} vin) (.var {} vin)) 2
    (by simp [programOf, stmtsOf, demo, eraseS, erase])
    (by rw [hnl]; simp [vx, vin, vout])
    (by simp [degE, δ₀, alg, vin]))
  refine ⟨_, h1, ?_, ?_⟩
  · simp [DState.set, δ₀, vin, vx]
  · simp [DState.set]
end NonVacuity

/-! ### joins decided by a signal (defect `F-C07-control-dependence`, repaired)

`var x = 0; if (in == 1) { x = 1; } out <-- x`: until the repair the read of `x` behind the join was claimed `constant` (range
`(0, 0)`).  `C07_path_sound` holds for it — in each execution the phi has the degree of one of its arguments, 0 — but the value
of that read is 0 in one execution and 1 in another, with the same (empty) parameter valuation: as a function of the signal `in`
it is not a polynomial at all, and the compiler rejects `out <== x`.  The per-execution theorem is therefore weaker than the
property, which speaks of a polynomial in the signals over all executions at once; two independent audits found the defect
from the property text alone.  The repair gives a phi expression a degree only when every condition that chooses between the
paths meeting at its block (`Block.conds`: the if statements between the immediate dominator of the block and the block,
`CfgReach.joinConds`) is known to be constant, as the code already did for the switch expression `c ? a : b`. -/
section ControlDependence
private def cin : VName := ⟨"in", none, none⟩
private def cout : VName := ⟨"out", none, none⟩
private def x0 : VName := ⟨"x", none, some 0⟩
private def x1 : VName := ⟨"x", none, some 1⟩
private def x2 : VName := ⟨"x", none, some 2⟩
private def cdBlocks (cond : Expr) (conds : List Nat) : List Block := [
  { stmts := [.decl [cin] .signal [], .decl [cout] .signal [], .decl [x0, x1, x2] .local_ [],
              .sub {} x0 (some .local_) "=" (.num {} 0),
              .ite cond] },
  { stmts := [.sub {} x1 (some .local_) "=" (.num {} 1)], npreds := 1 },
  { stmts := [.sub {} x2 (some .local_) "=" (.phi {} [x0, x1]),
              .sub {} cout (some .signal) "<--" (.var {} x2)], npreds := 2, conds := conds }]
/-- the program above as the driver hands it to the model: the join (block 2) is decided by the condition of block 0 -/
private def cd : Cfg := { isFunction := false, params := [], blocks := cdBlocks (.infix {} "eq" (.var {} cin) (.num {} 1)) [0] }
/-- the same program as the model saw it before the repair (no join conditions) -/
private def cdOld : Cfg := { isFunction := false, params := [], blocks := cdBlocks (.infix {} "eq" (.var {} cin) (.num {} 1)) [] }
/-- `if (n == 1)` with a template parameter `n` instead of the signal -/
private def cn : VName := ⟨"n", none, some 0⟩
private def cdParam : Cfg := { isFunction := false, params := [cn], blocks := cdBlocks (.infix {} "eq" (.var {} cn) (.num {} 1)) [0] }

private def claimOf (c : Cfg) : List (Option Ir.Range) :=
  (stmtsOf (degLoop 30 (degInit c) c.blocks).1).filterMap
    (fun s => match s with | .sub _ v _ _ rhe => if v = cout then some rhe.ann.deg else none | _ => none)

/-- a phi expression at a join that a non-constant condition decides is given no degree, whatever its arguments are -/
theorem C07_conditional_join (env : DegEnv) (h : env.condJoin = true) (a : Ann) (args : List VName) :
    degExpr env (.phi a args) = (.phi a args, false) := by
  unfold degExpr; simp [h]

/-- the flag is set exactly when some condition between the immediate dominator and the block has no degree yet or a degree
    that is not constant -/
theorem C07_join_flag (blocks : List Block) (env : DegEnv) (b : Block) :
    (setJoin blocks env b).condJoin = true ↔ ∃ h, h ∈ b.conds ∧ condConst blocks h = false := by
  simp [setJoin, List.any_eq_true]

/-- which conditions guard a join (`get_join_conditions`, `CfgReach.joinConds`): the if statements at the blocks from which a
    predecessor of the join can be reached without entering its immediate dominator.  Every path to the join passes through the
    dominator; after leaving it for the last time the path runs through these blocks only, so the decisions taken there — and
    no others — select the predecessor through which the join is entered, i.e. the argument the phi takes. -/
theorem C07_join_conditions (es : List (Nat × Nat)) (idom : Option Nat) (j x : Nat) :
    x ∈ CfgReach.joinWalk es idom j ↔
      ∃ p, (p, j) ∈ es ∧ Taint.Reach (es.filter (fun e => some e.2 != idom)) x p :=
  CfgReach.mem_joinWalk es idom j x

/-- … stated on paths: for a strict dominator `d` of a block `j` (the code takes the immediate dominator), every path from the entry to
    `j` visits `d`, and every block it visits after the last visit of `d` — `d` included — is found by the walk.  The decisions that
    select the predecessor through which `j` is entered, hence the argument its phi expressions take, are taken at those blocks;
    if all of them are constant (they depend on template parameters only), the selection is the same in every execution. -/
theorem C07_join_conditions_cover {g : Graph.Graph} {es : List (Nat × Nat)} (hes : CfgReach.EdgesOf g es) (j d : Nat)
    (hd : Graph.SDom g d j) (π : List Nat) (hp : Graph.Path g j π) :
    ∃ pre rest, π = j :: (pre ++ d :: rest) ∧ (∀ x, x ∈ pre → x ≠ d) ∧
      ∀ x, x ∈ pre ++ [d] → x ∈ CfgReach.joinWalk es (some d) j :=
  CfgReach.joinWalk_covers_dom hes j d hd π hp

/-- after the repair: no claim for the read behind the join decided by the signal … -/
theorem C07_control_dependence_repaired : claimOf cd = [none] := by decide

/-- … while a join decided by a template parameter keeps its claim (the assigned values 0 and 1: constant) … -/
theorem C07_parameter_join_keeps_claim : claimOf cdParam = [some (0, 0)] := by decide

/-- … and this is what the model (and the code) claimed before the repair: `constant` -/
theorem C07_control_dependence_claim_before_repair : claimOf cdOld = [some (0, 0)] := by decide

/-- ... and two executions with the same parameters give that read different values -/
theorem C07_reading_across_executions_fails :
    (∃ σ, Reach 101 (stmtsOf cd.blocks) σ ∧ σ x2 = some (.fe 0)) ∧ (∃ σ, Reach 101 (stmtsOf cd.blocks) σ ∧ σ x2 = some (.fe 1)) := by
  let σ₀ : State := fun _ => none
  have h0 : Reach 101 (stmtsOf cd.blocks) σ₀ := .init _ (fun _ _ _ _ => rfl)
  constructor
  · have h1 := Reach.step _ _ h0 (Step.assign σ₀ {} x0 (some .local_) "=" (.num {} 0) (fun _ => none) (by simp [stmtsOf, cd, cdBlocks]) rfl)
    have h2 := Reach.step _ _ h1 (Step.phi _ {} x2 (some .local_) "=" {} [x0, x1] x0 (by simp [stmtsOf, cd, cdBlocks]) (by simp))
    refine ⟨_, h2, ?_⟩
    simp only [State.set_same]
    decide
  · have h1 := Reach.step _ _ h0 (Step.assign σ₀ {} x1 (some .local_) "=" (.num {} 1) (fun _ => none) (by simp [stmtsOf, cd, cdBlocks]) rfl)
    have h2 := Reach.step _ _ h1 (Step.phi _ {} x2 (some .local_) "=" {} [x0, x1] x1 (by simp [stmtsOf, cd, cdBlocks]) (by simp))
    refine ⟨_, h2, ?_⟩
    simp only [State.set_same]
    decide
end ControlDependence

/-! ### loop counters (differential review f1: the repair 8e9a383 had switched the `is quadratic` advice off inside loops)

Since 8e9a383 the degree of `in[i]` needs the degree of `i`. A loop counter is `i.2 = phi(i.0, i.3)` with `i.3 = i.2 + 1`: each of the
two needs the other, so the pessimistic propagation — which the early-stop property C20 rests on: nothing is claimed before it is
derived — never gives them a degree, and `out[i] <-- in[i] * in[i]` was no longer reported as quadratic. The repair computes, before
the first pass, the local variables of a template that are constant *by construction* (`constVars`: every expression assigned to
any version of the variable is built from numbers, parameters and such variables, and so is every condition that chooses between
the arguments of its phi expressions) and starts propagation with degree 0 for them. -/
section LoopCounters

/-- every version of such a variable has degree 0 in every reachable degree state of the template -/
theorem C07_constant_variables (cfg : Cfg) (wf : WfD (programOf cfg) cfg.params) (v : VName) (hv : v ∈ constVars cfg) :
    ∀ δ, ReachD (programOf cfg) cfg.params cfg.isFunction δ → δ v = 0 := by
  intro δ hr
  obtain ⟨hfn, C, hcl, hC⟩ := mem_constVars cfg v hv
  exact (reachD_const cfg C hfn wf.params hcl δ hr).1 v hC

/-- what makes a variable constant by construction: each assignment to one of its versions is a constant expression over the set,
    and the conditions at the joins of its phi expressions are -/
theorem C07_constant_variables_closed (cfg : Cfg) (v : VName) (hv : v ∈ constVars cfg) :
    cfg.isFunction = false ∧ ∃ C, C.contains v.base = true ∧
      ∀ a, a ∈ assignmentsOf cfg.blocks → C.contains a.1 = true →
        constExpr cfg.params C a.2.2.2 = true ∧
        (isPhiE a.2.2.2 = true → ∀ h, h ∈ a.2.1 → condSimple cfg.params C cfg.blocks h = true) := by
  obtain ⟨hfn, C, hcl, hC⟩ := mem_constVars cfg v hv
  refine ⟨hfn, C, hC, ?_⟩
  intro a ha hCa
  unfold constClosed at hcl
  simp only [Bool.and_eq_true, List.all_eq_true] at hcl
  have := hcl.1 a ha
  simp only [hCa, Bool.not_true, Bool.false_or] at this
  unfold assignmentOk at this
  simp only [Bool.and_eq_true, Bool.not_eq_true', Bool.and_eq_false_iff] at this
  refine ⟨this.1, ?_⟩
  intro hphi h hh
  rcases this.2 with h1 | h1
  · rw [hphi] at h1; cases h1
  · have := List.any_eq_false.mp h1 h hh
    simpa using this

private def lin : VName := ⟨"in", none, none⟩
private def lout : VName := ⟨"out", none, none⟩
private def ln : VName := ⟨"n", none, some 0⟩
private def i0 : VName := ⟨"i", none, some 0⟩
private def i2 : VName := ⟨"i", none, some 2⟩
private def i3 : VName := ⟨"i", none, some 3⟩
/-- `template T(n) { signal input in[n]; signal output out[n]; for (var i = 0; i < n; i++) { out[i] <-- in[i] * in[i]; } }`,
    with the loop bound `bound` -/
private def loopCfg (bound : Expr) : Cfg := { isFunction := false, params := [ln], blocks := [
  { stmts := [.decl [lin] .signal [], .decl [lout] .signal [], .decl [i0, i2, i3] .local_ [],
              .sub {} i0 (some .local_) "=" (.num {} 0)] },
  { stmts := [.sub {} i2 (some .local_) "=" (.phi {} [i0, i3]),
              .ite (.infix {} "lt" (.var {} i2) bound)], npreds := 2, conds := [1] },
  { stmts := [.sub {} lout (some .signal) "<--" (.upd {} lout (.cons (.idx (.var {} i2)) .nil)
                (.infix {} "mul" (.acc {} lin (.cons (.idx (.var {} i2)) .nil)) (.acc {} lin (.cons (.idx (.var {} i2)) .nil)))),
              .sub {} i3 (some .local_) "=" (.infix {} "add" (.var {} i2) (.num {} 1))], npreds := 1 },
  { stmts := [], npreds := 1 }] }

private def rhsClaim (c : Cfg) : List (Option Ir.Range) :=
  (stmtsOf (degLoop 30 (degInit c) c.blocks).1).filterMap
    (fun s => match s with | .sub _ v _ _ rhe => if v = lout then some rhe.ann.deg else none | _ => none)

/-- the counter of a loop bounded by a parameter is constant by construction, and the element-wise hint is known to be at most
    quadratic (the range of the update joins the degree 1 of the array with the degree 2 of the assigned expression) … -/
example : constVars (loopCfg (.var {} ln)) = [i0, i2, i3] ∧ rhsClaim (loopCfg (.var {} ln)) = [some (1, 2)] := by decide

/-- … while a loop bounded by a signal has no such counter (the condition that chooses between the arguments of the phi is not
    constant), and nothing is claimed about the hint -/
example : constVars (loopCfg (.var {} lin)) = [] ∧ rhsClaim (loopCfg (.var {} lin)) = [none] := by decide

/-- the hypotheses of the path theorem hold for the loop (a signal array assigned element by element needs no earlier assignment: `PosOK`) -/
example : wfDB (programOf (loopCfg (.var {} ln))) (loopCfg (.var {} ln)).params = true := by decide

end LoopCounters

end Circomspect.C07
