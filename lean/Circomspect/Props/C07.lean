/-
C07 — degree claims are sound.

Operator level (`Lemmas/DegreeOps.lean`, re-exported here): `Gen/ImplTables.lean` is the graph of the
running code (`vharness tables` executes the real `Degree` / `DegreeRange` functions over their whole
finite domain on every run); the hand model equals the code on the whole domain, the code's degree is
exactly the degree of Circom's expression algebra for all 23 operators and all operand degrees, and
lifting to ranges is monotone.

Expression level (`Lemmas/DegreeLemmas.lean`): `degE δ e` is the degree of `e` in Circom's algebra when
the variables have the degrees `δ` (signals and ports indeterminates, parameters and literals
constants).  For every expression, every abstract environment and every `δ` it bounds, every range
`propagate_degrees` writes on any node of the expression is an upper bound of that node's degree
(`C07_expr_sound`): all operators, inline switches with constant conditions, calls with constant
arguments, inline arrays, array accesses with constant / non-constant / unknown indices, array updates
including the "first assignment" rule, and phi nodes; the short-circuit `changed` flags only skip work.
Propagation changes annotations only (`C07_degree_unchanged`).

Not a Lean theorem: the lifting to all execution paths (that the environment stays in agreement along
the passes); decided per run by `checks/c07.py` (correspondence + least-fixpoint oracle).
-/
import Circomspect.Lemmas.DegreeLemmas

namespace Circomspect.C07
open Circomspect Gen Algebra Propagate Ir

/-- the model of the operator tables is the code, on the whole domain -/
theorem C07_model_is_code :
    implDegOp.all (fun r => degOp r.1 r.2.1 r.2.2.1 == r.2.2.2) = true ∧
    implDegPrefix.all (fun r => degPrefix r.1 r.2.1 == r.2.2) = true ∧
    implRangeOp.all (fun r => rangeOp r.1 r.2.1 r.2.2.1 == r.2.2.2) = true ∧
    implRangePrefix.all (fun r => rangePrefix r.1 r.2.1 == r.2.2) = true ∧
    implRangeInf.all (fun r => rangeInf r.1 r.2.1 == r.2.2) = true :=
  C07ops.C07_model_is_code

/-- the regenerated table covers every operator and every pair of operand degrees -/
theorem C07_table_complete :
    infixOps.all (fun op => (List.range 4).all (fun a => (List.range 4).all (fun b =>
      implDegOp.any (fun r => r.1 == op && r.2.1 == a && r.2.2.1 == b)))) = true ∧
    prefixOps.all (fun op => (List.range 4).all (fun a => implDegPrefix.any (fun r => r.1 == op && r.2.1 == a))) = true :=
  C07ops.C07_table_complete

/-- the code's transfer table is Circom's expression algebra, row by row -/
theorem C07_table :
    implDegOp.all (fun r => alg r.1 r.2.1 r.2.2.1 == r.2.2.2) = true ∧
    implDegPrefix.all (fun r => algPrefix r.1 r.2.1 == r.2.2) = true :=
  C07ops.C07_table

/-- lifting to ranges: whatever the true degrees within the operand ranges, the algebra's degree is at
    most the upper end of the result range -/
theorem C07_range (op : String) (r s : Ir.Range) (d₁ d₂ : Nat) (h₁ : d₁ ≤ r.2) (h₂ : d₂ ≤ s.2)
    (hr : r.2 ≤ 3) (hs : s.2 ≤ 3) : alg op d₁ d₂ ≤ (rangeOp op r s).2 :=
  C07ops.C07_range op r s d₁ d₂ h₁ h₂ hr hs

theorem C07_range_prefix (op : String) (r : Ir.Range) (d : Nat) (h : d ≤ r.2) (hop : op ∈ prefixOps) :
    algPrefix op d ≤ (rangePrefix op r).2 :=
  C07ops.C07_range_prefix op r d h hop

theorem C07_inf (r s : Ir.Range) : r.2 ≤ (rangeInf r s).2 ∧ s.2 ≤ (rangeInf r s).2 :=
  C07ops.C07_inf r s

/-- every range written on any node of an expression bounds that node's degree, under every degree
    assignment that the abstract environment bounds -/
theorem C07_expr_sound (δ : VName → Nat) (F : VName → Prop) (env : DegEnv) (hag : AgreeD δ env F) (e : Expr)
    (h : SoundD δ F e) : SoundD δ F (degExpr env e).1 :=
  degExpr_sound δ F env hag e h

/-- degree propagation changes annotations only -/
theorem C07_degree_unchanged (δ : VName → Nat) (env : DegEnv) (e : Expr) :
    degE δ (degExpr env e).1 = degE δ e :=
  degE_degExpr δ env e

/-- the two rows repaired by a `fix:` commit: `~x` and `!x` of a non-constant `x` -/
example : algPrefix "compl" 1 = 3 ∧ algPrefix "not" 1 = 3 ∧ degPrefix "compl" 1 = 3 := by decide

/-! non-vacuity: `in * in` with `in` linear gets the range (2, 2), which bounds its degree 2 -/
example : (degExpr ⟨[(⟨"in", none, none⟩, (1, 1))], [], []⟩
    (.infix {} "mul" (.var { deg := some (1, 1) } ⟨"in", none, none⟩) (.var { deg := some (1, 1) } ⟨"in", none, none⟩))).1.ann.deg = some (2, 2) := by decide

end Circomspect.C07
