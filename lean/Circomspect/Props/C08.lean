/-
C08 — every `<--` signal assignment is reported exactly once.

On the model of `find_signal_assignments` (statements abstracted to assignments and
constraints): for every statement list in which distinct `<--` statements have distinct
(location, signal, access) records — `checks/c08.py` evaluates this on every real CFG; lifting
gives every statement its own source range, tuple elements and anonymous-component inputs their
own signal/access — there is exactly one report per `<--` statement, anchored at it, of exactly
one of the two kinds; the secondary locations of a `signal assignment` report are exactly the
constraint statements that mention the assigned signal — read it, or assign it with `<==`, with an
access that may denote the same signal (`mayAlias`: equal port names, indices identified unless both
are known and different, an array and its elements; until the `fix:` 8573db1 the accesses had to be
equal, which missed `r[i]` constrained in another loop, a whole array constrained element by element
and `c.in <== x` on another branch); nothing is reported for functions and custom templates, and
nothing is attached to any other statement.
-/
import Circomspect.Model.SignalAssign
import Circomspect.Lemmas.AliasLemmas

namespace Circomspect.C08
open Circomspect SignalAssign

def reportLoc : Report → Loc
  | .signalAssignment l _ _ => l
  | .unnecessary l _ => l

def isAssign : Stmt → Bool
  | .assign _ _ _ => true
  | _ => false

def assignRecords (ss : List Stmt) : List (Loc × Key × Bool) :=
  ss.filterMap (fun s => match s with | .assign l k q => some (l, k, q) | _ => none)

theorem eraseDups_of_nodup {α : Type} [BEq α] [LawfulBEq α] : ∀ (l : List α), l.Nodup → l.eraseDups = l := by
  intro l
  induction l with
  | nil => intro _; rfl
  | cons a t ih =>
    intro h
    rw [List.eraseDups_cons]
    have hn := List.nodup_cons.mp h
    have : t.filter (fun b => !b == a) = t := by
      apply List.filter_eq_self.mpr
      intro b hb
      have : b ≠ a := by intro e; subst e; exact hn.1 hb
      simpa using this
    rw [this, ih hn.2]

theorem assignRecords_length (ss : List Stmt) : (assignRecords ss).length = (ss.filter isAssign).length := by
  unfold assignRecords
  induction ss with
  | nil => rfl
  | cons s t ih =>
    cases s with
    | assign l k q =>
      have : isAssign (Stmt.assign l k q) = true := rfl
      simp only [List.filterMap_cons, List.filter_cons, this, if_true, List.length_cons, ih]
    | constraint l r t =>
      have : isAssign (Stmt.constraint l r t) = false := rfl
      simp only [List.filterMap_cons, List.filter_cons, this, Bool.false_eq_true, if_false, ih]
    | other =>
      have : isAssign Stmt.other = false := rfl
      simp only [List.filterMap_cons, List.filter_cons, this, Bool.false_eq_true, if_false, ih]

/-- exactly one report per `<--` statement, anchored at that statement, in statement order -/
theorem C08_bijection (ss : List Stmt) (hd : (assignRecords ss).Nodup) :
    (findSignalAssignments .template ss).map reportLoc = (assignRecords ss).map (·.1) ∧
    (findSignalAssignments .template ss).length = (ss.filter isAssign).length := by
  have e : assignments ss = assignRecords ss := eraseDups_of_nodup _ hd
  constructor
  · unfold findSignalAssignments
    simp only [e, List.map_map]
    apply List.map_congr_left
    intro a _
    simp only [Function.comp]
    split <;> rfl
  · unfold findSignalAssignments
    simp only [e, List.length_map]
    exact assignRecords_length ss

/-- the two kinds are exclusive and determined by the degree fact: `unnecessary` iff the assigned
    expression is known to be quadratic -/
theorem C08_kinds (ss : List Stmt) (r : Report) (hr : r ∈ findSignalAssignments .template ss) :
    (∃ l k, r = .unnecessary l k ∧ (l, k, true) ∈ assignments ss) ∨
    (∃ l k, r = .signalAssignment l k (constraintLocs ss k) ∧ (l, k, false) ∈ assignments ss) := by
  unfold findSignalAssignments at hr
  simp only [List.mem_map] at hr
  obtain ⟨⟨l, k, q⟩, ha, e⟩ := hr
  cases q with
  | true => left; exact ⟨l, k, by simpa using e.symm, ha⟩
  | false => right; exact ⟨l, k, by simpa using e.symm, ha⟩

/-- the secondary locations are exactly the constraint statements mentioning the assigned signal: one of the uses the constraint
    reads, or the target of a `<==`, has the signal's name and an access that may denote the same signal -/
theorem C08_secondaries (ss : List Stmt) (k : Key) (c : Loc) :
    c ∈ constraintLocs ss k ↔
      ∃ reads target, Stmt.constraint c reads target ∈ ss ∧ ∃ r, r ∈ reads ++ target.toList ∧ mentions r k = true := by
  unfold constraintLocs constraints
  simp only [List.mem_map, List.mem_filter, List.mem_eraseDups, List.mem_filterMap, List.any_eq_true]
  constructor
  · rintro ⟨⟨l, r⟩, ⟨⟨s, hs, hsome⟩, hk⟩, e⟩
    cases s with
    | constraint l' r' t' =>
      simp at hsome; obtain ⟨e1, e2⟩ := hsome; subst e1; subst e2
      simp at e; subst e
      exact ⟨r', t', hs, hk⟩
    | assign _ _ _ => simp at hsome
    | other => simp at hsome
  · rintro ⟨reads, target, hs, hk⟩
    exact ⟨(c, reads ++ target.toList), ⟨⟨_, hs, rfl⟩, hk⟩, rfl⟩

theorem accAlias_refl : ∀ a, accAlias a a = true
  | .port _ => by simp [accAlias]
  | .idx none => by simp [accAlias]
  | .idx (some _) => by simp [accAlias]

theorem accAlias_symm : ∀ a b, accAlias a b = accAlias b a
  | .port a, .port b => by simp only [accAlias]; exact Bool.beq_comm
  | .idx none, .idx none => rfl
  | .idx none, .idx (some _) => rfl
  | .idx (some _), .idx none => rfl
  | .idx (some a), .idx (some b) => by simp only [accAlias]; exact Bool.beq_comm
  | .port _, .idx none => rfl
  | .port _, .idx (some _) => rfl
  | .idx none, .port _ => rfl
  | .idx (some _), .port _ => rfl

/-- the comparison of accesses is reflexive and symmetric (it is not transitive: `r[0]`, `r[i]`, `r[1]`) … -/
theorem C08_alias_refl : ∀ a, mayAlias a a = true
  | [] => rfl
  | x :: r => by simp [mayAlias, accAlias_refl, C08_alias_refl r]

theorem C08_alias_symm : ∀ a b, mayAlias a b = mayAlias b a
  | [], [] => rfl
  | [], _ :: _ => rfl
  | _ :: _, [] => rfl
  | x :: r, y :: t => by simp [mayAlias, accAlias_symm x y, C08_alias_symm r t]

/-- … an access aliases every extension of it (an array and its elements, a component and its ports) … -/
theorem C08_alias_prefix : ∀ a ext, mayAlias a (a ++ ext) = true
  | [], _ => by simp [mayAlias]
  | x :: r, ext => by simp [mayAlias, accAlias_refl, C08_alias_prefix r ext]

/-- … so every constraint the pass listed before the repair (a use with exactly the access of the assignment) is still listed -/
theorem C08_equal_access_listed (ss : List Stmt) (k : Key) (c : Loc) (reads : List Key) (target : Option Key)
    (hs : Stmt.constraint c reads target ∈ ss) (r : Key) (hr : r ∈ reads) (hn : r.name = k.name) (ha : r.acc = k.acc) :
    c ∈ constraintLocs ss k := by
  rw [C08_secondaries]
  refine ⟨reads, target, hs, r, List.mem_append_left _ hr, ?_⟩
  simp [mentions, hn, ha, C08_alias_refl]

/-- the comparison never misses a real mention: whenever, in some execution whose index values agree with what constant
    propagation knows, the access of a use and the access of the assignment denote the same signal, or one denotes a part of the
    other (an array and an element, a component and a port), the pass identifies them -/
theorem C08_alias_complete (a b : List Acc) (ca cb : List CAcc) (ha : denotesL a ca) (hb : denotesL b cb)
    (h : isPrefix ca cb ∨ isPrefix cb ca) : mayAlias a b = true :=
  mayAlias_complete a b ca cb ha hb h

/-- non-vacuity: `r[i]` (index unknown) and `r[j]` both denote `r[2]` in some execution -/
example : denotesL [.idx none] [.idx "f2"] ∧ denotesL [.idx none] [.idx "f2"] ∧ isPrefix [CAcc.idx "f2"] [CAcc.idx "f2"] := by
  simp [denotesL, denotes, isPrefix]

/-- two elements with indices known to be different do not alias; an unknown index aliases every element -/
example : mayAlias [.idx (some "f0")] [.idx (some "f1")] = false ∧ mayAlias [.idx none] [.idx (some "f1")] = true
    ∧ mayAlias [] [.idx (some "f1")] = true ∧ mayAlias [.port "in"] [.port "out"] = false := by decide

/-- nothing for functions and custom templates -/
theorem C08_none_for_functions_custom (ss : List Stmt) :
    findSignalAssignments .function ss = [] ∧ findSignalAssignments .custom ss = [] := ⟨rfl, rfl⟩

/-- nothing is attached to anything else: every report is anchored at a `<--` statement -/
theorem C08_only_assignments (kind : Kind) (ss : List Stmt) (r : Report) (hr : r ∈ findSignalAssignments kind ss) :
    ∃ k q, Stmt.assign (reportLoc r) k q ∈ ss := by
  cases kind with
  | function => simp [findSignalAssignments] at hr
  | custom => simp [findSignalAssignments] at hr
  | template =>
    unfold findSignalAssignments at hr
    simp only [List.mem_map] at hr
    obtain ⟨⟨l, k, q⟩, ha, e⟩ := hr
    unfold assignments at ha
    simp only [List.mem_eraseDups, List.mem_filterMap] at ha
    obtain ⟨s, hs, hsome⟩ := ha
    cases s with
    | assign l' k' q' =>
      simp at hsome; obtain ⟨e1, e2, e3⟩ := hsome; subst e1; subst e2; subst e3
      refine ⟨k', q', ?_⟩
      subst e
      cases q' <;> simpa [reportLoc] using hs
    | constraint _ _ _ => simp at hsome
    | other => simp at hsome

/-- non-vacuity: `out <-- ..; out === in; for .. { s[i] <-- quadratic }; for .. { s[j] === .. }; c.in <-- ..; c.in <== ..` -/
private def kOut : Key := ⟨"out", "out", []⟩
private def kIn : Key := ⟨"in", "in", []⟩
private def kSi : Key := ⟨"s[i.1]", "s", [.idx none]⟩
private def kSj : Key := ⟨"s[j.1]", "s", [.idx none]⟩
private def kCin : Key := ⟨"c.in", "c", [.port "in"]⟩
private def kCout : Key := ⟨"c.out", "c", [.port "out"]⟩
example : findSignalAssignments .template
    [.assign (1, 2) kOut false, .constraint (3, 4) [kOut, kIn] none, .assign (5, 6) kSi true, .other,
     .assign (7, 8) kSi false, .constraint (9, 10) [kSj, kIn] none,
     .assign (11, 12) kCin false, .constraint (13, 14) [kIn] (some kCin), .constraint (15, 16) [kCout] none] =
    [.signalAssignment (1, 2) kOut [(3, 4)], .unnecessary (5, 6) kSi, .signalAssignment (7, 8) kSi [(9, 10)],
     .signalAssignment (11, 12) kCin [(13, 14)]] := by decide

end Circomspect.C08
