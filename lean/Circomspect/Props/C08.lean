/-
C08 — every `<--` signal assignment is reported exactly once.

On the model of `find_signal_assignments` (statements abstracted to assignments and
constraints): for every statement list in which distinct `<--` statements have distinct
(location, signal, access) records — `checks/c08.py` evaluates this on every real CFG; lifting
gives every statement its own source range, tuple elements and anonymous-component inputs their
own signal/access — there is exactly one report per `<--` statement, anchored at it, of exactly
one of the two kinds; the secondary locations of a `signal assignment` report are exactly the
constraint statements that read the assigned signal with the same access; nothing is reported
for functions and custom templates, and nothing is attached to any other statement.
-/
import Circomspect.Model.SignalAssign

namespace Circomspect.C08
open Circomspect SignalAssign

def reportLoc : Report → Loc
  | .signalAssignment l _ _ => l
  | .unnecessary l _ => l

def isAssign : Stmt → Bool
  | .assign _ _ _ => true
  | _ => false

def assignRecords (ss : List Stmt) : List (Loc × Key × Bool) :=
  ss.filterMap (fun s => match s with | .assign l k q => some (l, k, q) | _ => none)

theorem eraseDups_of_nodup {α : Type} [BEq α] [LawfulBEq α] : ∀ (l : List α), l.Nodup → l.eraseDups = l := by
  intro l
  induction l with
  | nil => intro _; rfl
  | cons a t ih =>
    intro h
    rw [List.eraseDups_cons]
    have hn := List.nodup_cons.mp h
    have : t.filter (fun b => !b == a) = t := by
      apply List.filter_eq_self.mpr
      intro b hb
      have : b ≠ a := by intro e; subst e; exact hn.1 hb
      simpa using this
    rw [this, ih hn.2]

theorem assignRecords_length (ss : List Stmt) : (assignRecords ss).length = (ss.filter isAssign).length := by
  unfold assignRecords
  induction ss with
  | nil => rfl
  | cons s t ih =>
    cases s with
    | assign l k q =>
      have : isAssign (Stmt.assign l k q) = true := rfl
      simp only [List.filterMap_cons, List.filter_cons, this, if_true, List.length_cons, ih]
    | constraint l r =>
      have : isAssign (Stmt.constraint l r) = false := rfl
      simp only [List.filterMap_cons, List.filter_cons, this, Bool.false_eq_true, if_false, ih]
    | other =>
      have : isAssign Stmt.other = false := rfl
      simp only [List.filterMap_cons, List.filter_cons, this, Bool.false_eq_true, if_false, ih]

/-- exactly one report per `<--` statement, anchored at that statement, in statement order -/
theorem C08_bijection (ss : List Stmt) (hd : (assignRecords ss).Nodup) :
    (findSignalAssignments .template ss).map reportLoc = (assignRecords ss).map (·.1) ∧
    (findSignalAssignments .template ss).length = (ss.filter isAssign).length := by
  have e : assignments ss = assignRecords ss := eraseDups_of_nodup _ hd
  constructor
  · unfold findSignalAssignments
    simp only [e, List.map_map]
    apply List.map_congr_left
    intro a _
    simp only [Function.comp]
    split <;> rfl
  · unfold findSignalAssignments
    simp only [e, List.length_map]
    exact assignRecords_length ss

/-- the two kinds are exclusive and determined by the degree fact: `unnecessary` iff the assigned
    expression is known to be quadratic -/
theorem C08_kinds (ss : List Stmt) (r : Report) (hr : r ∈ findSignalAssignments .template ss) :
    (∃ l k, r = .unnecessary l k ∧ (l, k, true) ∈ assignments ss) ∨
    (∃ l k, r = .signalAssignment l k (constraintLocs ss k) ∧ (l, k, false) ∈ assignments ss) := by
  unfold findSignalAssignments at hr
  simp only [List.mem_map] at hr
  obtain ⟨⟨l, k, q⟩, ha, e⟩ := hr
  cases q with
  | true => left; exact ⟨l, k, by simpa using e.symm, ha⟩
  | false => right; exact ⟨l, k, by simpa using e.symm, ha⟩

/-- the secondary locations are exactly the constraint statements reading the assigned signal -/
theorem C08_secondaries (ss : List Stmt) (k : Key) (c : Loc) :
    c ∈ constraintLocs ss k ↔ ∃ reads, Stmt.constraint c reads ∈ ss ∧ k ∈ reads := by
  unfold constraintLocs constraints
  simp only [List.mem_map, List.mem_filter, List.mem_eraseDups, List.mem_filterMap]
  constructor
  · rintro ⟨⟨l, r⟩, ⟨⟨s, hs, hsome⟩, hk⟩, e⟩
    cases s with
    | constraint l' r' =>
      simp at hsome; obtain ⟨e1, e2⟩ := hsome; subst e1; subst e2
      simp at e; subst e
      exact ⟨r', hs, by simpa using hk⟩
    | assign _ _ _ => simp at hsome
    | other => simp at hsome
  · rintro ⟨reads, hs, hk⟩
    exact ⟨(c, reads), ⟨⟨_, hs, rfl⟩, by simpa using hk⟩, rfl⟩

/-- nothing for functions and custom templates -/
theorem C08_none_for_functions_custom (ss : List Stmt) :
    findSignalAssignments .function ss = [] ∧ findSignalAssignments .custom ss = [] := ⟨rfl, rfl⟩

/-- nothing is attached to anything else: every report is anchored at a `<--` statement -/
theorem C08_only_assignments (kind : Kind) (ss : List Stmt) (r : Report) (hr : r ∈ findSignalAssignments kind ss) :
    ∃ k q, Stmt.assign (reportLoc r) k q ∈ ss := by
  cases kind with
  | function => simp [findSignalAssignments] at hr
  | custom => simp [findSignalAssignments] at hr
  | template =>
    unfold findSignalAssignments at hr
    simp only [List.mem_map] at hr
    obtain ⟨⟨l, k, q⟩, ha, e⟩ := hr
    unfold assignments at ha
    simp only [List.mem_eraseDups, List.mem_filterMap] at ha
    obtain ⟨s, hs, hsome⟩ := ha
    cases s with
    | assign l' k' q' =>
      simp at hsome; obtain ⟨e1, e2, e3⟩ := hsome; subst e1; subst e2; subst e3
      refine ⟨k', q', ?_⟩
      subst e
      cases q' <;> simpa [reportLoc] using hs
    | constraint _ _ => simp at hsome
    | other => simp at hsome

/-- non-vacuity -/
example : findSignalAssignments .template
    [.assign (1, 2) "out" false, .constraint (3, 4) ["out", "in"], .assign (5, 6) "s[i]" true, .other] =
    [.signalAssignment (1, 2) "out" [(3, 4)], .unnecessary (5, 6) "s[i]"] := by decide

end Circomspect.C08
