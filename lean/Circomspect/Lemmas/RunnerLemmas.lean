/-
Lemmas about the report-flow model (`Model/Runner.lean`). Core Lean only.
-/
import Circomspect.Model.Runner

namespace Circomspect.RunnerLemmas
open Circomspect Runner


/-- what a definition contributes: the reports of CFG generation, then (if it lifted) those of
    the passes -/
def expected (p : Project) (n : String) : List Report :=
  (p.gen n).2 ++ (if (p.gen n).1 then p.passes n else [])

def Fresh (s : St) (n : String) : Prop := s.cfgs n = false ∧ s.reps n = none
def Generated (p : Project) (s : St) (n : String) : Prop :=
  s.reps n = some (p.gen n).2 ∧ s.cfgs n = (p.gen n).1
def Good (p : Project) (s : St) (n : String) : Prop := Fresh s n ∨ Generated p s n

theorem cacheDef_other (p : Project) (s : St) (m n : String) (h : n ≠ m) :
    (cacheDef p s m).2.cfgs n = s.cfgs n ∧ (cacheDef p s m).2.reps n = s.reps n := by
  unfold cacheDef
  split
  · exact ⟨rfl, rfl⟩
  · split
    · exact ⟨rfl, rfl⟩
    · split
      · exact ⟨rfl, rfl⟩
      · simp only
        split <;> simp [St.setCfg, St.appendRep, h]

theorem cacheDef_good (p : Project) (s : St) (m n : String) (h : Good p s n) :
    Good p (cacheDef p s m).2 n := by
  by_cases hmn : n = m
  · subst hmn
    unfold cacheDef
    split
    · exact h
    · split
      · exact h
      · split
        · exact h
        · rename_i h1 h2 h3
          right
          have hf : Fresh s n := by
            rcases h with hf | hg
            · exact hf
            · rw [hg.1] at h2; simp at h2
          simp only
          constructor
          · cases hgen : (p.gen n).1 <;> simp [St.setCfg, St.appendRep, hf.2]
          · cases hgen : (p.gen n).1 <;> simp [St.setCfg, St.appendRep, hf.1]
  · have := cacheDef_other p s m n hmn
    rcases h with hf | hg
    · left; exact ⟨this.1.trans hf.1, this.2.trans hf.2⟩
    · right; exact ⟨this.2.trans hg.1, this.1.trans hg.2⟩

theorem foldl_cacheDef_good (p : Project) (ms : List String) (s : St) (n : String) (h : Good p s n) :
    Good p (ms.foldl (fun s m => (cacheDef p s m).2) s) n := by
  induction ms generalizing s with
  | nil => exact h
  | cons m ms ih => exact ih _ (cacheDef_good p s m n h)

theorem setCfg_good (p : Project) (s : St) (m n : String) (b : Bool) (hne : n ≠ m) (h : Good p s n) :
    Good p (s.setCfg m b) n := by
  rcases h with hf | hg
  · left; exact ⟨by simp [St.setCfg, hne, hf.1], hf.2⟩
  · right; exact ⟨hg.1, by simp [St.setCfg, hne, hg.2]⟩

theorem removeRep_good (p : Project) (s : St) (m n : String) (hne : n ≠ m) (h : Good p s n) :
    Good p (s.removeRep m) n := by
  rcases h with hf | hg
  · left; exact ⟨hf.1, by simp [St.removeRep, hne, hf.2]⟩
  · right; exact ⟨by simp [St.removeRep, hne, hg.1], hg.2⟩

/-- analysing one definition leaves every *other* pending definition in a good state -/
theorem analyzeDef_good (p : Project) (s : St) (m n : String) (hne : n ≠ m) (h : Good p s n) :
    Good p (analyzeDef p s m).2 n := by
  unfold analyzeDef
  have h1 := cacheDef_good p s m n h
  generalize cacheDef p s m = r at h1
  obtain ⟨ok, s1⟩ := r
  simp only at h1 ⊢
  cases ok
  · simp only [Bool.false_eq_true, if_false]
    exact removeRep_good p _ m n hne h1
  · simp only [if_true]
    apply setCfg_good p _ m n true hne
    apply foldl_cacheDef_good
    apply removeRep_good p _ m n hne
    exact setCfg_good p _ m n false hne h1

/-- the batch of a pending, known definition is exactly its contribution, whatever was looked up
    before -/
theorem analyzeDef_out (p : Project) (s : St) (n : String) (hk : p.known n = true) (h : Good p s n) :
    (analyzeDef p s n).1 = expected p n := by
  unfold analyzeDef expected cacheDef
  rcases h with hf | hg
  · simp only [hf.1, hf.2, hk, Bool.false_eq_true, if_false, Option.isSome_none, Bool.not_true]
    cases hgen : (p.gen n).1 <;> simp [St.setCfg, St.appendRep, St.removeRep, hf.2]
  · by_cases hc : s.cfgs n = true
    · simp only [hc, if_true]
      have : (p.gen n).1 = true := by rw [← hg.2]; exact hc
      simp [St.setCfg, hg.1, this]
    · have hc' : s.cfgs n = false := by simpa using hc
      have : (p.gen n).1 = false := by rw [← hg.2]; exact hc'
      simp [hc', hg.1, this, St.removeRep]


theorem go_eq (p : Project) : ∀ (order : List String) (s : St), order.Nodup →
    (∀ n ∈ order, p.known n = true ∧ Good p s n) →
    batches.go p s order = order.map (expected p) := by
  intro order
  induction order with
  | nil => intro s _ _; rfl
  | cons n rest ih =>
    intro s hnd h
    have hn := h n (List.mem_cons_self)
    rw [batches.go]
    simp only [List.map_cons]
    rw [analyzeDef_out p s n hn.1 hn.2]
    congr 1
    apply ih _ (List.nodup_cons.mp hnd).2
    intro m hm
    have hne : m ≠ n := by
      intro e; subst e; exact (List.nodup_cons.mp hnd).1 hm
    exact ⟨(h m (List.mem_cons_of_mem _ hm)).1, analyzeDef_good p s n m hne (h m (List.mem_cons_of_mem _ hm)).2⟩

theorem init_good (p : Project) (n : String) : Good p St.init n := Or.inl ⟨rfl, rfl⟩

theorem batches_eq (p : Project) (order : List String) (hnd : order.Nodup)
    (hk : ∀ n ∈ order, p.known n = true) :
    batches p order = p.parseReports :: (order.map (expected p) ++ p.mainReports.toList) := by
  unfold batches
  rw [go_eq p order St.init hnd (fun n hn => ⟨hk n hn, init_good p n⟩)]

theorem offered_eq (p : Project) (order : List String) (hnd : order.Nodup)
    (hk : ∀ n ∈ order, p.known n = true) :
    offered p order = p.parseReports ++ order.flatMap (expected p) ++ p.mainReports.getD [] := by
  unfold offered
  rw [batches_eq p order hnd hk]
  cases p.mainReports <;> simp [List.flatMap_def]

theorem displayed_eq_filter (o : Opts) (p : Project) (order : List String) :
    displayed o p order = (offered p order).filter (keep o) := by
  unfold displayed offered
  induction batches p order with
  | nil => rfl
  | cons b bs ih =>
    rw [List.map_cons, List.flatten_cons, List.flatten_cons, List.filter_append, ih]

theorem foldl_add_len (l : List (List Report)) (k : Nat) :
    (l.map List.length).foldl (· + ·) k = k + l.flatten.length := by
  induction l generalizing k with
  | nil => simp
  | cons b bs ih => simp [ih, Nat.add_assoc]

theorem written_eq (o : Opts) (p : Project) (order : List String) :
    written o p order = (displayed o p order).length := by
  unfold written displayed
  have := foldl_add_len ((batches p order).map (fun b => b.filter (keep o))) 0
  rw [List.map_map, Nat.zero_add] at this
  exact this


end Circomspect.RunnerLemmas
