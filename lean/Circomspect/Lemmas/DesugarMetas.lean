/-
Desugaring only copies locations (C04): every source range carried by a node of the desugared template is the range of a node of
the template as written.  So a finding that some pass attaches to a generated statement is located at a construct of the source
text — the tuple assignment, the anonymous component, the loop that contains it — and never at an invented range.
-/
import Circomspect.Model.Desugar

namespace Circomspect.Desugar

mutual
def metasE : Expr → List Meta
  | .infix m _ l r => m :: (metasE l ++ metasE r)
  | .prefix m _ e => m :: metasE e
  | .switch m c t f => m :: (metasE c ++ metasE t ++ metasE f)
  | .var m _ acc => m :: metasAs acc
  | .num m _ => [m]
  | .call m _ args => m :: metasEs args
  | .anon m _ _ ps ss _ _ => m :: (metasEs ps ++ metasEs ss)
  | .arr m vs => m :: metasEs vs
  | .tuple m vs => m :: metasEs vs
  | .par m e => m :: metasE e
def metasEs : Exprs → List Meta
  | .nil => []
  | .cons e r => metasE e ++ metasEs r
def metasA : Acc → List Meta
  | .idx e => metasE e
  | .cmp _ => []
def metasAs : Accs → List Meta
  | .nil => []
  | .cons a r => metasA a ++ metasAs r
end

def metasLog : List LogArg → List Meta
  | [] => []
  | .str _ :: r => metasLog r
  | .exp e :: r => metasE e ++ metasLog r

mutual
def metasS : Stmt → List Meta
  | .ite m c t e => m :: (metasE c ++ metasS t ++ metasO e)
  | .while_ m _ c b => m :: (metasE c ++ metasS b)
  | .ret m e => m :: metasE e
  | .init m _ is => m :: metasSs is
  | .decl m _ _ dims => m :: metasEs dims
  | .sub m _ acc _ r => m :: (metasAs acc ++ metasE r)
  | .msub m l _ r => m :: (metasE l ++ metasE r)
  | .ceq m l r => m :: (metasE l ++ metasE r)
  | .log m args => m :: metasLog args
  | .block m ss => m :: metasSs ss
  | .assert m e => m :: metasE e
def metasSs : Stmts → List Meta
  | .nil => []
  | .cons s r => metasS s ++ metasSs r
def metasO : OptStmt → List Meta
  | .none => []
  | .some s => metasS s
end

def metasL (l : List Expr) : List Meta := l.flatMap metasE
def metasSL (l : List Stmt) : List Meta := l.flatMap metasS

theorem metasEs_ofList (l : List Expr) : metasEs (Exprs.ofList l) = metasL l := by
  induction l with
  | nil => simp [Exprs.ofList, metasEs, metasL]
  | cons e r ih => simp [Exprs.ofList, metasEs, metasL] at ih ⊢; rw [ih]

theorem metasEs_toList : ∀ (es : Exprs), metasL es.toList = metasEs es
  | .nil => by simp [Exprs.toList, metasEs, metasL]
  | .cons e r => by
    have ih := metasEs_toList r
    simp [Exprs.toList, metasEs, metasL] at ih ⊢; rw [ih]

theorem metasSs_ofList (l : List Stmt) : metasSs (Stmts.ofList l) = metasSL l := by
  induction l with
  | nil => simp [Stmts.ofList, metasSs, metasSL]
  | cons e r ih => simp [Stmts.ofList, metasSs, metasSL] at ih ⊢; rw [ih]

theorem metasSs_toList : ∀ (ss : Stmts), metasSL ss.toList = metasSs ss
  | .nil => by simp [Stmts.toList, metasSs, metasSL]
  | .cons e r => by
    have ih := metasSs_toList r
    simp [Stmts.toList, metasSs, metasSL] at ih ⊢; rw [ih]

/-- `A ⊆ B` for lists of locations -/
abbrev Sub (a b : List Meta) : Prop := ∀ m, m ∈ a → m ∈ b

-- ---------------------------------------------------------------------------- tuples

mutual
theorem rmTupE_metas : ∀ (e e' : Expr), rmTupE e = .ok e' → Sub (metasE e') (metasE e)
  | .arr m vs, e', h => by
    unfold rmTupE at h; split at h
    · cases h
    · cases h; intro x hx; exact hx
  | .num m n, e', h => by unfold rmTupE at h; cases h; intro x hx; exact hx
  | .var m n acc, e', h => by
    unfold rmTupE at h; split at h
    · cases h
    · cases h; intro x hx; exact hx
  | .infix m op l r, e', h => by
    unfold rmTupE at h; split at h
    · cases h
    · cases h; intro x hx; exact hx
  | .prefix m op e, e', h => by
    unfold rmTupE at h; split at h
    · cases h
    · cases h; intro x hx; exact hx
  | .switch m c t f, e', h => by
    unfold rmTupE at h; split at h
    · cases h
    · cases h; intro x hx; exact hx
  | .call m i args, e', h => by
    unfold rmTupE at h; split at h
    · cases h
    · cases h; intro x hx; exact hx
  | .anon m _ _ _ _ _ _, e', h => by unfold rmTupE at h; cases h
  | .tuple m vs, e', h => by
    unfold rmTupE at h
    split at h
    · cases h
    · rename_i vals hv
      cases h
      have := rmTupEs_metas vs vals hv
      intro x hx
      simp only [metasE, List.mem_cons, metasEs_ofList] at hx ⊢
      rcases hx with hx | hx
      · exact Or.inl hx
      · exact Or.inr (this x hx)
  | .par m e, e', h => by
    unfold rmTupE at h; split at h
    · cases h
    · cases h; intro x hx; exact hx
theorem rmTupEs_metas : ∀ (es : Exprs) (l : List Expr), rmTupEs es = .ok l → Sub (metasL l) (metasEs es)
  | .nil, l, h => by unfold rmTupEs at h; cases h; intro x hx; simp [metasL] at hx
  | .cons e r, l, h => by
    unfold rmTupEs at h
    split at h
    · cases h
    · rename_i e' he
      split at h
      · cases h
      · rename_i rest hr
        have h1 := rmTupE_metas e e' he
        have h2 := rmTupEs_metas r rest hr
        split at h
        · rename_i tm inner
          cases h
          intro x hx
          simp only [metasL, List.flatMap_append, List.mem_append, metasEs] at hx ⊢
          rcases hx with hx | hx
          · left
            apply h1
            simp only [metasE, List.mem_cons]
            right
            rw [← metasEs_toList]; exact hx
          · exact Or.inr (h2 x hx)
        · cases h
          intro x hx
          simp only [metasL, List.flatMap_cons, List.mem_append, metasEs] at hx ⊢
          rcases hx with hx | hx
          · exact Or.inl (h1 x hx)
          · exact Or.inr (h2 x hx)
end

theorem zipSubs_metas (op : Op) : ∀ (ls rs : List Expr) (subs : List Stmt), zipSubs op ls rs = some subs →
    Sub (metasSL subs) (metasL ls ++ metasL rs)
  | [], _, subs, h => by unfold zipSubs at h; cases h; intro x hx; simp [metasSL] at hx
  | .var vm n acc :: ls, r :: rs, subs, h => by
    unfold zipSubs at h
    split at h
    · cases h
    · rename_i rest hr
      have ih := zipSubs_metas op ls rs rest hr
      simp only [Option.some.injEq] at h
      intro x hx
      have tail : ∀ y, y ∈ metasSL rest → y ∈ metasL (Expr.var vm n acc :: ls) ++ metasL (r :: rs) := by
        intro y hy
        have := List.mem_append.mp (ih y hy)
        simp only [metasL, List.flatMap_cons, List.mem_append]
        rcases this with h1 | h1
        · exact Or.inl (Or.inr h1)
        · exact Or.inr (Or.inr h1)
      split at h
      · subst h
        simp only [metasSL, List.flatMap_cons, List.mem_append, metasS, List.mem_cons] at hx
        rcases hx with (hx | hx | hx) | hx
        · simp only [metasL, List.flatMap_cons, List.mem_append, metasE, List.mem_cons]
          exact Or.inl (Or.inl (Or.inl hx))
        · simp only [metasL, List.flatMap_cons, List.mem_append, metasE, List.mem_cons]
          exact Or.inl (Or.inl (Or.inr hx))
        · simp only [metasL, List.flatMap_cons, List.mem_append]
          exact Or.inr (Or.inl hx)
        · exact tail x hx
      · subst h
        exact tail x hx
  | .var _ _ _ :: _, [], subs, h => by unfold zipSubs at h; cases h
  | .infix _ _ _ _ :: _, _, subs, h => by unfold zipSubs at h; cases h
  | .prefix _ _ _ :: _, _, subs, h => by unfold zipSubs at h; cases h
  | .switch _ _ _ _ :: _, _, subs, h => by unfold zipSubs at h; cases h
  | .num _ _ :: _, _, subs, h => by unfold zipSubs at h; cases h
  | .call _ _ _ :: _, _, subs, h => by unfold zipSubs at h; cases h
  | .anon _ _ _ _ _ _ _ :: _, _, subs, h => by unfold zipSubs at h; cases h
  | .arr _ _ :: _, _, subs, h => by unfold zipSubs at h; cases h
  | .tuple _ _ :: _, _, subs, h => by unfold zipSubs at h; cases h
  | .par _ _ :: _, _, subs, h => by unfold zipSubs at h; cases h

mutual
theorem sepLogE_metas : ∀ (e : Expr), Sub (metasLog (sepLogE e)) (metasE e)
  | .tuple m vs => by
    unfold sepLogE
    intro x hx
    have ih := sepLogEs_metas vs
    simp only [List.cons_append, List.nil_append, metasLog] at hx
    have : x ∈ metasLog (sepLogEs vs) := by
      have key : ∀ (l : List LogArg), metasLog (l ++ [LogArg.str 1]) = metasLog l := by
        intro l
        induction l with
        | nil => simp [metasLog]
        | cons a r ih => cases a <;> simp [metasLog, ih]
      rw [key] at hx; exact hx
    simp only [metasE, List.mem_cons]
    exact Or.inr (ih x this)
  | .infix m op l r => by unfold sepLogE; intro x hx; simpa [metasLog] using hx
  | .prefix m op e => by unfold sepLogE; intro x hx; simpa [metasLog] using hx
  | .switch m c t f => by unfold sepLogE; intro x hx; simpa [metasLog] using hx
  | .var m n acc => by unfold sepLogE; intro x hx; simpa [metasLog] using hx
  | .num m n => by unfold sepLogE; intro x hx; simpa [metasLog] using hx
  | .call m i args => by unfold sepLogE; intro x hx; simpa [metasLog] using hx
  | .anon m a b c d e f => by unfold sepLogE; intro x hx; simpa [metasLog] using hx
  | .arr m vs => by unfold sepLogE; intro x hx; simpa [metasLog] using hx
  | .par m e => by unfold sepLogE; intro x hx; simpa [metasLog] using hx
theorem sepLogEs_metas : ∀ (es : Exprs), Sub (metasLog (sepLogEs es)) (metasEs es)
  | .nil => by unfold sepLogEs; intro x hx; simp [metasLog] at hx
  | .cons e r => by
    unfold sepLogEs
    intro x hx
    have key : ∀ (a b : List LogArg), metasLog (a ++ b) = metasLog a ++ metasLog b := by
      intro a b
      induction a with
      | nil => simp [metasLog]
      | cons h t ih => cases h <;> simp [metasLog, ih]
    rw [key] at hx
    simp only [metasEs, List.mem_append] at hx ⊢
    rcases hx with hx | hx
    · exact Or.inl (sepLogE_metas e x hx)
    · exact Or.inr (sepLogEs_metas r x hx)
end

theorem metasLog_append (a b : List LogArg) : metasLog (a ++ b) = metasLog a ++ metasLog b := by
  induction a with
  | nil => simp [metasLog]
  | cons h t ih => cases h <;> simp [metasLog, ih]

theorem sepLog_metas : ∀ (args : List LogArg), Sub (metasLog (sepLog args)) (metasLog args)
  | [] => by intro x hx; simpa [sepLog] using hx
  | .str n :: r => by
    intro x hx
    simp only [sepLog, metasLog] at hx ⊢
    exact sepLog_metas r x hx
  | .exp e :: r => by
    intro x hx
    simp only [sepLog, metasLog_append, List.mem_append, metasLog] at hx ⊢
    rcases hx with hx | hx
    · exact Or.inl (sepLogE_metas e x hx)
    · exact Or.inr (sepLog_metas r x hx)

theorem sub_cons_self {m : Meta} {a b : List Meta} (h : Sub a b) : Sub (m :: a) (m :: b) := by
  intro x hx
  rcases List.mem_cons.mp hx with h1 | h1
  · exact List.mem_cons.mpr (Or.inl h1)
  · exact List.mem_cons.mpr (Or.inr (h x h1))

mutual
theorem rmTupS_metas : ∀ (s s' : Stmt), rmTupS s = .ok s' → Sub (metasS s') (metasS s)
  | .msub m l op r, s', h => by
    unfold rmTupS at h
    split at h
    · cases h
    · rename_i l' hl
      split at h
      · cases h
      · rename_i r' hr
        have h1 := rmTupE_metas l l' hl
        have h2 := rmTupE_metas r r' hr
        split at h
        · rename_i lm lv rm rv
          split at h
          · split at h
            · rename_i subs hz
              cases h
              have hz' := zipSubs_metas op lv.toList rv.toList subs hz
              intro x hx
              simp only [metasS, List.mem_cons, metasSs_ofList] at hx
              simp only [metasS, List.mem_cons, List.mem_append]
              rcases hx with hx | hx
              · exact Or.inl hx
              · right
                have := List.mem_append.mp (hz' x hx)
                rw [metasEs_toList, metasEs_toList] at this
                rcases this with h3 | h3
                · exact Or.inl (h1 x (by simp only [metasE, List.mem_cons]; exact Or.inr h3))
                · exact Or.inr (h2 x (by simp only [metasE, List.mem_cons]; exact Or.inr h3))
            · cases h
          · split at h <;> cases h
        · split at h <;> cases h
  | .ite m c t e, s', h => by
    unfold rmTupS at h
    split at h
    · cases h
    · split at h
      · cases h
      · rename_i t' ht
        split at h
        · cases h
        · rename_i e' he
          cases h
          have h1 := rmTupS_metas t t' ht
          have h2 := rmTupO_metas e e' he
          intro x hx
          simp only [metasS, List.mem_cons, List.mem_append] at hx ⊢
          rcases hx with hx | (hx | hx) | hx
          · exact Or.inl hx
          · exact Or.inr (Or.inl (Or.inl hx))
          · exact Or.inr (Or.inl (Or.inr (h1 x hx)))
          · exact Or.inr (Or.inr (h2 x hx))
  | .while_ m label c b, s', h => by
    unfold rmTupS at h
    split at h
    · cases h
    · split at h
      · cases h
      · rename_i b' hb
        cases h
        have h1 := rmTupS_metas b b' hb
        intro x hx
        simp only [metasS, List.mem_cons, List.mem_append] at hx ⊢
        rcases hx with hx | hx | hx
        · exact Or.inl hx
        · exact Or.inr (Or.inl hx)
        · exact Or.inr (Or.inr (h1 x hx))
  | .log m args, s', h => by
    unfold rmTupS at h
    simp only at h
    split at h
    · cases h
    · cases h
      exact sub_cons_self (sepLog_metas args)
  | .assert m e, s', h => by
    unfold rmTupS at h; split at h
    · cases h
    · cases h; intro x hx; exact hx
  | .ret m e, s', h => by
    unfold rmTupS at h; split at h
    · cases h
    · cases h; intro x hx; exact hx
  | .ceq m l r, s', h => by
    unfold rmTupS at h; split at h
    · cases h
    · cases h; intro x hx; exact hx
  | .decl m xt n dims, s', h => by
    unfold rmTupS at h; split at h
    · cases h
    · cases h; intro x hx; exact hx
  | .init m xt is, s', h => by
    unfold rmTupS at h; split at h
    · cases h
    · rename_i is' hi
      cases h
      exact sub_cons_self (rmTupSs_metas is is' hi)
  | .block m ss, s', h => by
    unfold rmTupS at h; split at h
    · cases h
    · rename_i ss' hi
      cases h
      exact sub_cons_self (rmTupSs_metas ss ss' hi)
  | .sub m v acc op r, s', h => by
    unfold rmTupS at h
    split at h
    · cases h
    · rename_i r' hr
      have h1 := rmTupE_metas r r' hr
      split at h
      · cases h
      · split at h
        · cases h
        · split at h
          · cases h
            intro x hx
            simp only [metasS, List.mem_cons, List.mem_append] at hx ⊢
            rcases hx with hx | hx | hx
            · exact Or.inl hx
            · exact Or.inr (Or.inl hx)
            · exact Or.inr (Or.inr (h1 x hx))
          · cases h
            intro x hx
            simp only [metasS, metasSs, List.mem_cons, List.not_mem_nil, or_false] at hx
            simp only [metasS, List.mem_cons]
            exact Or.inl hx
theorem rmTupSs_metas : ∀ (ss ss' : Stmts), rmTupSs ss = .ok ss' → Sub (metasSs ss') (metasSs ss)
  | .nil, ss', h => by unfold rmTupSs at h; cases h; intro x hx; exact hx
  | .cons s r, ss', h => by
    unfold rmTupSs at h
    split at h
    · cases h
    · rename_i s' hs
      split at h
      · cases h
      · rename_i r' hr
        cases h
        have h1 := rmTupS_metas s s' hs
        have h2 := rmTupSs_metas r r' hr
        intro x hx
        simp only [metasSs, List.mem_append] at hx ⊢
        rcases hx with hx | hx
        · exact Or.inl (h1 x hx)
        · exact Or.inr (h2 x hx)
theorem rmTupO_metas : ∀ (o o' : OptStmt), rmTupO o = .ok o' → Sub (metasO o') (metasO o)
  | .none, o', h => by unfold rmTupO at h; cases h; intro x hx; exact hx
  | .some s, o', h => by
    unfold rmTupO at h
    split at h
    · cases h
    · rename_i s' hs
      cases h
      exact rmTupS_metas s s' hs
end

-- ---------------------------------------------------------------------------- anonymous components

def metasAL (l : List Acc) : List Meta := l.flatMap metasA

theorem metasAs_ofList (l : List Acc) : metasAs (Accs.ofList l) = metasAL l := by
  induction l with
  | nil => simp [Accs.ofList, metasAs, metasAL]
  | cons e r ih => simp [Accs.ofList, metasAs, metasAL] at ih ⊢; rw [ih]

/-- the locations carried by the loop counter handed down to an anonymous component inside a loop -/
def vaM : Option Expr → List Meta
  | none => []
  | some v => metasE v

def resOne : Except Err AnonRes → List Meta
  | .ok (a, b, e) => metasSL a ++ metasSL b ++ metasE e
  | .error _ => []

def resM (rs : List (Except Err AnonRes)) : List Meta := rs.flatMap resOne

theorem resM_get (rs : List (Except Err AnonRes)) (pos : Nat) (a b : List Stmt) (e : Expr)
    (h : rs[pos]? = some (.ok (a, b, e))) : Sub (metasSL a ++ metasSL b ++ metasE e) (resM rs) := by
  intro x hx
  unfold resM
  exact List.mem_flatMap.mpr ⟨_, List.mem_of_getElem? h, hx⟩

theorem metasSL_append (a b : List Stmt) : metasSL (a ++ b) = metasSL a ++ metasSL b := by
  simp [metasSL]

theorem go_metas (m : Meta) (rs : List (Except Err AnonRes)) (idAnon : String) (acc0 : List Acc) :
    ∀ (plan : List (String × Nat × Op)) (seq decls seq' decls' : List Stmt),
      anonBody.go m rs idAnon acc0 plan seq decls = .ok (seq', decls') →
      Sub (metasSL seq' ++ metasSL decls') (metasSL seq ++ metasSL decls ++ (m :: metasAL acc0) ++ resM rs)
  | [], seq, decls, seq', decls', h => by
    unfold anonBody.go at h
    cases h
    intro x hx
    simp only [List.mem_append] at hx ⊢
    rcases hx with hx | hx
    · exact Or.inl (Or.inl (Or.inl hx))
    · exact Or.inl (Or.inl (Or.inr hx))
  | (inp, pos, op) :: r, seq, decls, seq', decls', h => by
    unfold anonBody.go at h
    split at h
    · cases h
    · cases h
    · rename_i stmts ndecls e' hget
      split at h
      · cases h
      · have ih := go_metas m rs idAnon acc0 r _ _ seq' decls' h
        have hres := resM_get rs pos stmts ndecls e' hget
        have hsub : metasSL [Stmt.sub m idAnon (Accs.ofList (acc0 ++ [Acc.cmp inp])) op e'] = m :: (metasAL acc0 ++ metasE e') := by
          simp [metasSL, metasS, metasAs_ofList, metasAL, metasA]
        intro x hx
        have h1 := ih x hx
        rw [metasSL_append, metasSL_append, metasSL_append, hsub] at h1
        have h2 := hres x
        simp only [List.mem_append, List.mem_cons] at h1 h2 ⊢
        grind

theorem metasL_map_outVar (m : Meta) (idAnon : String) (acc0 : List Acc) (os : List String) :
    Sub (metasL (os.map (fun o => Expr.var m idAnon (Accs.ofList (acc0 ++ [Acc.cmp o]))))) (m :: metasAL acc0) := by
  intro x hx
  unfold metasL at hx
  obtain ⟨e, he, hxe⟩ := List.mem_flatMap.mp hx
  obtain ⟨o, _, rfl⟩ := List.mem_map.mp he
  simp only [metasE, metasAs_ofList, metasAL, List.flatMap_append, List.flatMap_cons, metasA, List.flatMap_nil, List.append_nil,
    List.mem_cons] at hxe ⊢
  exact hxe

/-- the anonymous-component arm: everything it produces carries the location of the component, of its parameters, of the loop
    counter handed down, or comes from the (already desugared) input expressions -/
theorem anonBody_metas (tbl : List TemplateSig) (va : Option Expr) (m : Meta) (label id : String) (params : Exprs)
    (names : Option (List (Op × String))) (par : Bool) (nsignals : Nat) (rs : List (Except Err AnonRes))
    (stmts decls : List Stmt) (e' : Expr)
    (h : anonBody tbl va m label id params names par nsignals rs = .ok (stmts, decls, e')) :
    Sub (metasSL stmts ++ metasSL decls ++ metasE e') (m :: (metasEs params ++ vaM va ++ resM rs)) := by
  cases va with
  | none =>
    show Sub _ (m :: (metasEs params ++ ([] : List Meta) ++ resM rs))
    unfold anonBody at h
    split at h
    · cases h
    · rename_i t ht
      simp only at h
      split at h
      · cases h
      · split at h
        · cases h
        · rename_i plan hp
          split at h
          · cases h
          · rename_i seq ds hgo
            simp only [Except.ok.injEq, Prod.mk.injEq] at h
            obtain ⟨h1, h2, h3⟩ := h
            subst h1; subst h2; subst h3
            have hg := go_metas m rs _ _ plan _ _ seq ds hgo
            have hacc : Sub (metasAL ([] : List Acc)) (([] : List Meta)) := by
              intro x hx; simpa [metasAL, metasA] using hx
            have hdecl : Sub (metasSL [Stmt.decl m .component (id ++ "#" ++ label) .nil]) (m :: ([] : List Meta)) := by
              intro x hx; simpa [metasSL, metasS, metasEs] using hx
            have hcall : Sub (metasE (if par = true then Expr.par m (Expr.call m id params) else Expr.call m id params)) (m :: metasEs params) := by
              intro x hx
              split at hx
              · simp only [metasE, List.mem_cons] at hx ⊢
                rcases hx with hx | hx | hx
                · exact Or.inl hx
                · exact Or.inl hx
                · exact Or.inr hx
              · simpa [metasE] using hx
            have hout : Sub (metasE (match t.outputs with
                | [o] => Expr.var m (id ++ "#" ++ label) (Accs.ofList (([] : List Acc) ++ [Acc.cmp o]))
                | os => Expr.tuple m (Exprs.ofList (os.map (fun o => Expr.var m (id ++ "#" ++ label)
                    (Accs.ofList (([] : List Acc) ++ [Acc.cmp o]))))))) (m :: ([] : List Meta)) := by
              intro x hx
              split at hx
              · simp only [metasE, metasAs_ofList, metasAL, List.flatMap_append, List.flatMap_cons, metasA, List.flatMap_nil, List.append_nil,
                  List.mem_cons] at hx
                rcases hx with hx | hx
                · exact List.mem_cons.mpr (Or.inl hx)
                · exact List.mem_cons.mpr (Or.inr (hacc x (by simpa [metasAL, metasA] using hx)))
              · simp only [metasE, List.mem_cons, metasEs_ofList] at hx
                rcases hx with hx | hx
                · exact List.mem_cons.mpr (Or.inl hx)
                · have := metasL_map_outVar m (id ++ "#" ++ label) _ t.outputs x hx
                  rcases List.mem_cons.mp this with h5 | h5
                  · exact List.mem_cons.mpr (Or.inl h5)
                  · exact List.mem_cons.mpr (Or.inr (hacc x h5))
            intro x hx
            simp only [List.mem_append] at hx
            have hsub0 : ∀ y, y ∈ metasSL [Stmt.sub m (id ++ "#" ++ label) (Accs.ofList ([] : List Acc)) Op.var
                (if par = true then Expr.par m (Expr.call m id params) else Expr.call m id params)] →
                y ∈ m :: (metasEs params ++ ([] : List Meta) ++ resM rs) := by
              intro y hy
              simp only [metasSL, List.flatMap_cons, List.flatMap_nil, List.append_nil, metasS, metasAs_ofList, List.mem_cons, List.mem_append] at hy
              rcases hy with hy | hy | hy
              · exact List.mem_cons.mpr (Or.inl hy)
              · have := hacc y hy
                simp only [List.mem_cons, List.mem_append]; grind
              · have := hcall y hy
                simp only [List.mem_cons, List.mem_append] at this ⊢; grind
            have hgo' : ∀ y, y ∈ metasSL seq ++ metasSL ds → y ∈ m :: (metasEs params ++ ([] : List Meta) ++ resM rs) := by
              intro y hy
              have h6 := hg y hy
              simp only [List.mem_append, List.mem_cons] at h6
              rcases h6 with ((h6 | h6) | h6) | h6
              · exact hsub0 y h6
              · have := hdecl y h6
                simp only [List.mem_cons, List.mem_append] at this ⊢; grind
              · rcases h6 with h6 | h6
                · exact List.mem_cons.mpr (Or.inl h6)
                · have := hacc y h6
                  simp only [List.mem_cons, List.mem_append]; grind
              · simp only [List.mem_cons, List.mem_append]; grind
            rcases hx with (hx | hx) | hx
            · simp only [metasSL, List.flatMap_cons, List.flatMap_nil, List.append_nil, metasS, List.mem_cons, metasSs_ofList] at hx
              rcases hx with hx | hx
              · exact List.mem_cons.mpr (Or.inl hx)
              · exact hgo' x (List.mem_append.mpr (Or.inl hx))
            · exact hgo' x (List.mem_append.mpr (Or.inr hx))
            · have := hout x hx
              simp only [List.mem_cons, List.mem_append] at this ⊢; grind
  | some v =>
    show Sub _ (m :: (metasEs params ++ metasE v ++ resM rs))
    unfold anonBody at h
    split at h
    · cases h
    · rename_i t ht
      simp only at h
      split at h
      · cases h
      · split at h
        · cases h
        · rename_i plan hp
          split at h
          · cases h
          · rename_i seq ds hgo
            simp only [Except.ok.injEq, Prod.mk.injEq] at h
            obtain ⟨h1, h2, h3⟩ := h
            subst h1; subst h2; subst h3
            have hg := go_metas m rs _ _ plan _ _ seq ds hgo
            have hacc : Sub (metasAL [Acc.idx v]) (metasE v) := by
              intro x hx; simpa [metasAL, metasA] using hx
            have hdecl : Sub (metasSL [Stmt.decl m .anon (id ++ "#" ++ label) (.cons v .nil)]) (m :: metasE v) := by
              intro x hx; simpa [metasSL, metasS, metasEs] using hx
            have hcall : Sub (metasE (if par = true then Expr.par m (Expr.call m id params) else Expr.call m id params)) (m :: metasEs params) := by
              intro x hx
              split at hx
              · simp only [metasE, List.mem_cons] at hx ⊢
                rcases hx with hx | hx | hx
                · exact Or.inl hx
                · exact Or.inl hx
                · exact Or.inr hx
              · simpa [metasE] using hx
            have hout : Sub (metasE (match t.outputs with
                | [o] => Expr.var m (id ++ "#" ++ label) (Accs.ofList ([Acc.idx v] ++ [Acc.cmp o]))
                | os => Expr.tuple m (Exprs.ofList (os.map (fun o => Expr.var m (id ++ "#" ++ label)
                    (Accs.ofList ([Acc.idx v] ++ [Acc.cmp o]))))))) (m :: metasE v) := by
              intro x hx
              split at hx
              · simp only [metasE, metasAs_ofList, metasAL, List.flatMap_append, List.flatMap_cons, metasA, List.flatMap_nil, List.append_nil,
                  List.mem_cons] at hx
                rcases hx with hx | hx
                · exact List.mem_cons.mpr (Or.inl hx)
                · exact List.mem_cons.mpr (Or.inr (hacc x (by simpa [metasAL, metasA] using hx)))
              · simp only [metasE, List.mem_cons, metasEs_ofList] at hx
                rcases hx with hx | hx
                · exact List.mem_cons.mpr (Or.inl hx)
                · have := metasL_map_outVar m (id ++ "#" ++ label) _ t.outputs x hx
                  rcases List.mem_cons.mp this with h5 | h5
                  · exact List.mem_cons.mpr (Or.inl h5)
                  · exact List.mem_cons.mpr (Or.inr (hacc x h5))
            intro x hx
            simp only [List.mem_append] at hx
            have hsub0 : ∀ y, y ∈ metasSL [Stmt.sub m (id ++ "#" ++ label) (Accs.ofList [Acc.idx v]) Op.var
                (if par = true then Expr.par m (Expr.call m id params) else Expr.call m id params)] →
                y ∈ m :: (metasEs params ++ metasE v ++ resM rs) := by
              intro y hy
              simp only [metasSL, List.flatMap_cons, List.flatMap_nil, List.append_nil, metasS, metasAs_ofList, List.mem_cons, List.mem_append] at hy
              rcases hy with hy | hy | hy
              · exact List.mem_cons.mpr (Or.inl hy)
              · have := hacc y hy
                simp only [List.mem_cons, List.mem_append]; grind
              · have := hcall y hy
                simp only [List.mem_cons, List.mem_append] at this ⊢; grind
            have hgo' : ∀ y, y ∈ metasSL seq ++ metasSL ds → y ∈ m :: (metasEs params ++ metasE v ++ resM rs) := by
              intro y hy
              have h6 := hg y hy
              simp only [List.mem_append, List.mem_cons] at h6
              rcases h6 with ((h6 | h6) | h6) | h6
              · exact hsub0 y h6
              · have := hdecl y h6
                simp only [List.mem_cons, List.mem_append] at this ⊢; grind
              · rcases h6 with h6 | h6
                · exact List.mem_cons.mpr (Or.inl h6)
                · have := hacc y h6
                  simp only [List.mem_cons, List.mem_append]; grind
              · simp only [List.mem_cons, List.mem_append]; grind
            rcases hx with (hx | hx) | hx
            · simp only [metasSL, List.flatMap_cons, List.flatMap_nil, List.append_nil, metasS, List.mem_cons, metasSs_ofList] at hx
              rcases hx with hx | hx
              · exact List.mem_cons.mpr (Or.inl hx)
              · exact hgo' x (List.mem_append.mpr (Or.inl hx))
            · exact hgo' x (List.mem_append.mpr (Or.inr hx))
            · have := hout x hx
              simp only [List.mem_cons, List.mem_append] at this ⊢; grind

theorem resM_cons (r : Except Err AnonRes) (rs : List (Except Err AnonRes)) : resM (r :: rs) = resOne r ++ resM rs := by
  simp [resM]

mutual
theorem rmAnonE_metas (tbl : List TemplateSig) (va : Option Expr) : ∀ (e : Expr) (a b : List Stmt) (e' : Expr),
    rmAnonE tbl va e = .ok (a, b, e') → Sub (metasSL a ++ metasSL b ++ metasE e') (metasE e ++ vaM va)
  | .arr m vs, a, b, e', h => by
    unfold rmAnonE at h; split at h
    · cases h
    · cases h; intro x hx; simpa [metasSL] using Or.inl (by simpa [metasSL] using hx)
  | .num m n, a, b, e', h => by
    unfold rmAnonE at h; cases h; intro x hx; simpa [metasSL] using Or.inl (by simpa [metasSL] using hx)
  | .var m n acc, a, b, e', h => by
    unfold rmAnonE at h; split at h
    · cases h
    · cases h; intro x hx; simpa [metasSL] using Or.inl (by simpa [metasSL] using hx)
  | .infix m op l r, a, b, e', h => by
    unfold rmAnonE at h; split at h
    · cases h
    · cases h; intro x hx; simpa [metasSL] using Or.inl (by simpa [metasSL] using hx)
  | .prefix m op e, a, b, e', h => by
    unfold rmAnonE at h; split at h
    · cases h
    · cases h; intro x hx; simpa [metasSL] using Or.inl (by simpa [metasSL] using hx)
  | .switch m c t f, a, b, e', h => by
    unfold rmAnonE at h; split at h
    · cases h
    · cases h; intro x hx; simpa [metasSL] using Or.inl (by simpa [metasSL] using hx)
  | .call m i args, a, b, e', h => by
    unfold rmAnonE at h; split at h
    · cases h
    · cases h; intro x hx; simpa [metasSL] using Or.inl (by simpa [metasSL] using hx)
  | .anon m label i ps ss names par, a, b, e', h => by
    unfold rmAnonE at h
    have h1 := anonBody_metas tbl va m label i ps names par _ _ a b e' h
    have h2 := rmAnonEs_metas tbl va ss
    intro x hx
    have h3 := h1 x hx
    have h4 := h2 x
    simp only [metasE, List.mem_cons, List.mem_append] at h3 h4 ⊢
    grind
  | .tuple m vs, a, b, e', h => by
    unfold rmAnonE at h
    split at h
    · cases h
    · rename_i stmts decls vals ht
      cases h
      have h1 := rmAnonTuple_metas tbl va vs a b vals ht
      intro x hx
      have h2 := h1 x
      simp only [metasE, List.mem_cons, List.mem_append, metasEs_ofList] at hx h2 ⊢
      grind
  | .par m e, a, b, e', h => by
    unfold rmAnonE at h
    have h1 := rmAnonPar_metas tbl va m e a b e' h
    intro x hx
    have h2 := h1 x hx
    simp only [metasE, List.mem_cons, List.mem_append] at h2 ⊢
    grind
theorem rmAnonPar_metas (tbl : List TemplateSig) (va : Option Expr) (m : Meta) : ∀ (e : Expr) (a b : List Stmt) (e' : Expr),
    rmAnonPar tbl va m e = .ok (a, b, e') → Sub (metasSL a ++ metasSL b ++ metasE e') (m :: (metasE e ++ vaM va))
  | .anon m2 label i ps ss names par, a, b, e', h => by
    unfold rmAnonPar at h
    have h1 := anonBody_metas tbl va m2 label i ps names true _ _ a b e' h
    have h2 := rmAnonEs_metas tbl va ss
    intro x hx
    have h3 := h1 x hx
    have h4 := h2 x
    simp only [metasE, List.mem_cons, List.mem_append] at h3 h4 ⊢
    grind
  | .call m2 i args, a, b, e', h => by
    unfold rmAnonPar at h; split at h
    · cases h
    · cases h; intro x hx
      simp only [metasSL, List.flatMap_nil, List.nil_append, metasE, List.mem_cons, List.mem_append] at hx ⊢
      grind
  | .arr m2 vs, a, b, e', h => by
    unfold rmAnonPar at h; split at h
    · cases h
    · cases h; intro x hx
      simp only [metasSL, List.flatMap_nil, List.nil_append, metasE, List.mem_cons, List.mem_append] at hx ⊢
      grind
  | .num m2 n, a, b, e', h => by
    unfold rmAnonPar at h; split at h
    · cases h
    · cases h; intro x hx
      simp only [metasSL, List.flatMap_nil, List.nil_append, metasE, List.mem_cons, List.mem_append] at hx ⊢
      grind
  | .var m2 n acc, a, b, e', h => by
    unfold rmAnonPar at h; split at h
    · cases h
    · cases h; intro x hx
      simp only [metasSL, List.flatMap_nil, List.nil_append, metasE, List.mem_cons, List.mem_append] at hx ⊢
      grind
  | .infix m2 op l r, a, b, e', h => by
    unfold rmAnonPar at h; split at h
    · cases h
    · cases h; intro x hx
      simp only [metasSL, List.flatMap_nil, List.nil_append, metasE, List.mem_cons, List.mem_append] at hx ⊢
      grind
  | .prefix m2 op e, a, b, e', h => by
    unfold rmAnonPar at h; split at h
    · cases h
    · cases h; intro x hx
      simp only [metasSL, List.flatMap_nil, List.nil_append, metasE, List.mem_cons, List.mem_append] at hx ⊢
      grind
  | .switch m2 c t f, a, b, e', h => by
    unfold rmAnonPar at h; split at h
    · cases h
    · cases h; intro x hx
      simp only [metasSL, List.flatMap_nil, List.nil_append, metasE, List.mem_cons, List.mem_append] at hx ⊢
      grind
  | .tuple m2 vs, a, b, e', h => by
    unfold rmAnonPar at h; split at h
    · cases h
    · cases h; intro x hx
      simp only [metasSL, List.flatMap_nil, List.nil_append, metasE, List.mem_cons, List.mem_append] at hx ⊢
      grind
  | .par m2 e, a, b, e', h => by
    unfold rmAnonPar at h; split at h
    · cases h
    · cases h; intro x hx
      simp only [metasSL, List.flatMap_nil, List.nil_append, metasE, List.mem_cons, List.mem_append] at hx ⊢
      grind
theorem rmAnonEs_metas (tbl : List TemplateSig) (va : Option Expr) : ∀ (es : Exprs),
    Sub (resM (rmAnonEs tbl va es)) (metasEs es ++ vaM va)
  | .nil => by unfold rmAnonEs; intro x hx; simp [resM] at hx
  | .cons e r => by
    unfold rmAnonEs
    rw [resM_cons]
    have h2 := rmAnonEs_metas tbl va r
    intro x hx
    rcases List.mem_append.mp hx with hx | hx
    · cases hr : rmAnonE tbl va e with
      | error err => rw [hr] at hx; simp [resOne] at hx
      | ok res =>
        obtain ⟨a, b, e'⟩ := res
        rw [hr] at hx
        have h1 := rmAnonE_metas tbl va e a b e' hr x (by simpa [resOne] using hx)
        simp only [metasEs, List.mem_append] at h1 ⊢
        grind
    · have := h2 x hx
      simp only [metasEs, List.mem_append] at this ⊢
      grind
theorem rmAnonTuple_metas (tbl : List TemplateSig) (va : Option Expr) : ∀ (es : Exprs) (a b : List Stmt) (l : List Expr),
    rmAnonTuple tbl va es = .ok (a, b, l) → Sub (metasSL a ++ metasSL b ++ metasL l) (metasEs es ++ vaM va)
  | .nil, a, b, l, h => by
    unfold rmAnonTuple at h; cases h; intro x hx; simp [metasSL, metasL] at hx
  | .cons e r, a, b, l, h => by
    unfold rmAnonTuple at h
    split at h
    · cases h
    · rename_i stmts decls e' he
      split at h
      · cases h
      · rename_i stmts2 decls2 es hr
        cases h
        have h1 := rmAnonE_metas tbl va e stmts decls e' he
        have h2 := rmAnonTuple_metas tbl va r stmts2 decls2 es hr
        intro x hx
        have h3 := h1 x
        have h4 := h2 x
        simp only [metasSL_append, metasL, List.flatMap_cons, metasEs, List.mem_append] at hx h3 h4 ⊢
        grind
end

theorem wrapSubs_metas (m : Meta) (stmts : List Stmt) (subs : Stmt) :
    Sub (metasS (wrapSubs m stmts subs)) (m :: (metasSL stmts ++ metasS subs)) := by
  unfold wrapSubs
  split
  · intro x hx; simp only [List.mem_cons, List.mem_append]; exact Or.inr (Or.inr hx)
  · intro x hx
    simp only [metasS, metasSs_ofList, metasSL_append, metasSL, List.flatMap_cons, List.flatMap_nil, List.append_nil, List.mem_cons,
      List.mem_append] at hx ⊢
    grind

mutual
theorem rmAnonS_metas (tbl : List TemplateSig) : ∀ (va : Option Expr) (s s' : Stmt) (decls : List Stmt),
    rmAnonS tbl va s = .ok (s', decls) → Sub (metasS s' ++ metasSL decls) (metasS s ++ vaM va)
  | va, .msub m l op r, s', decls, h => by
    unfold rmAnonS at h
    split at h
    · cases h
    · split at h
      · cases h
      · rename_i stmts ds r' hr
        cases h
        have h1 := rmAnonE_metas tbl va r stmts decls r' hr
        have h2 := wrapSubs_metas m stmts (.msub m l op r')
        intro x hx
        have h3 := h1 x
        have h4 := h2 x
        simp only [metasS, List.mem_cons, List.mem_append] at hx h3 h4 ⊢
        grind
  | va, .ite m c t e, s', decls, h => by
    unfold rmAnonS at h
    split at h
    · cases h
    · split at h
      · cases h
      · rename_i t' d1 ht
        split at h
        · cases h
        · rename_i e' d2 he
          cases h
          have h1 := rmAnonS_metas tbl va t t' d1 ht
          have h2 := rmAnonO_metas tbl va e e' d2 he
          intro x hx
          have h3 := h1 x
          have h4 := h2 x
          simp only [metasS, metasSL_append, List.mem_cons, List.mem_append] at hx h3 h4 ⊢
          grind
  | va, .while_ m label c b, s', decls, h => by
    unfold rmAnonS at h
    split at h
    · cases h
    · simp only at h
      split at h
      · cases h
      · rename_i b' nd hb
        have h1 := rmAnonS_metas tbl (some (.var m ("anon_var@" ++ label) .nil)) b b' nd hb
        split at h
        · cases h
          intro x hx
          have h3 := h1 x
          simp only [metasS, metasSL, List.flatMap_nil, List.append_nil, List.mem_cons, List.mem_append, vaM, metasE, metasAs,
            List.not_mem_nil, or_false] at hx h3 ⊢
          grind
        · cases h
          intro x hx
          have h3 := h1 x
          simp only [metasS, metasSs, metasSL_append, metasSL, List.flatMap_append, List.flatMap_cons, List.flatMap_nil, List.append_nil,
            List.mem_cons, List.mem_append, vaM, metasE, metasAs, metasEs, List.not_mem_nil, or_false] at hx h3 ⊢
          grind
  | va, .log m args, s', decls, h => by
    unfold rmAnonS at h; split at h
    · cases h
    · cases h; intro x hx; simpa [metasSL] using Or.inl (by simpa [metasSL] using hx)
  | va, .assert m e, s', decls, h => by
    unfold rmAnonS at h; split at h
    · cases h
    · cases h; intro x hx; simpa [metasSL] using Or.inl (by simpa [metasSL] using hx)
  | va, .ret m e, s', decls, h => by
    unfold rmAnonS at h; split at h
    · cases h
    · cases h; intro x hx; simpa [metasSL] using Or.inl (by simpa [metasSL] using hx)
  | va, .ceq m l r, s', decls, h => by
    unfold rmAnonS at h; split at h
    · cases h
    · cases h; intro x hx; simpa [metasSL] using Or.inl (by simpa [metasSL] using hx)
  | va, .decl m xt n dims, s', decls, h => by
    unfold rmAnonS at h; split at h
    · cases h
    · cases h; intro x hx; simpa [metasSL] using Or.inl (by simpa [metasSL] using hx)
  | va, .init m xt is, s', decls, h => by
    unfold rmAnonS at h; split at h
    · cases h
    · rename_i is' ds hi
      cases h
      have h1 := rmAnonSs_metas tbl va is is' decls hi
      intro x hx
      have h3 := h1 x
      simp only [metasS, List.mem_cons, List.mem_append] at hx h3 ⊢
      grind
  | va, .block m ss, s', decls, h => by
    unfold rmAnonS at h; split at h
    · cases h
    · rename_i ss' ds hi
      cases h
      have h1 := rmAnonSs_metas tbl va ss ss' decls hi
      intro x hx
      have h3 := h1 x
      simp only [metasS, List.mem_cons, List.mem_append] at hx h3 ⊢
      grind
  | va, .sub m v acc op r, s', decls, h => by
    unfold rmAnonS at h
    split at h
    · cases h
    · split at h
      · cases h
      · rename_i stmts ds r' hr
        cases h
        have h1 := rmAnonE_metas tbl va r stmts decls r' hr
        have h2 := wrapSubs_metas m stmts (.sub m v acc op r')
        intro x hx
        have h3 := h1 x
        have h4 := h2 x
        simp only [metasS, List.mem_cons, List.mem_append] at hx h3 h4 ⊢
        grind
theorem rmAnonSs_metas (tbl : List TemplateSig) : ∀ (va : Option Expr) (ss ss' : Stmts) (decls : List Stmt),
    rmAnonSs tbl va ss = .ok (ss', decls) → Sub (metasSs ss' ++ metasSL decls) (metasSs ss ++ vaM va)
  | va, .nil, ss', decls, h => by
    unfold rmAnonSs at h; cases h; intro x hx; simp [metasSL, metasSs] at hx
  | va, .cons s r, ss', decls, h => by
    unfold rmAnonSs at h
    split at h
    · cases h
    · rename_i s' d1 hs
      split at h
      · cases h
      · rename_i r' d2 hr
        cases h
        have h1 := rmAnonS_metas tbl va s s' d1 hs
        have h2 := rmAnonSs_metas tbl va r r' d2 hr
        intro x hx
        have h3 := h1 x
        have h4 := h2 x
        simp only [metasSs, metasSL_append, List.mem_append] at hx h3 h4 ⊢
        grind
theorem rmAnonO_metas (tbl : List TemplateSig) : ∀ (va : Option Expr) (o o' : OptStmt) (decls : List Stmt),
    rmAnonO tbl va o = .ok (o', decls) → Sub (metasO o' ++ metasSL decls) (metasO o ++ vaM va)
  | va, .none, o', decls, h => by
    unfold rmAnonO at h; cases h; intro x hx; simp [metasSL, metasO] at hx
  | va, .some s, o', decls, h => by
    unfold rmAnonO at h
    split at h
    · cases h
    · rename_i s' d hs
      cases h
      have h1 := rmAnonS_metas tbl va s s' decls hs
      intro x hx
      have h3 := h1 x
      simp only [metasO, List.mem_append] at hx h3 ⊢
      grind
end

theorem metasSL_filter (p : Stmt → Bool) (l : List Stmt) : Sub (metasSL (l.filter p)) (metasSL l) := by
  intro x hx
  unfold metasSL at hx ⊢
  obtain ⟨s, hs, hxs⟩ := List.mem_flatMap.mp hx
  exact List.mem_flatMap.mpr ⟨s, (List.mem_filter.mp hs).1, hxs⟩

/-- **desugaring only copies locations**: every source range on a node of the desugared template body is the source range of a
    node of the body as written -/
theorem desugarTemplate_metas (tbl : List TemplateSig) (body s' : Stmt) (h : desugarTemplate tbl body = .ok s') :
    Sub (metasS s') (metasS body) := by
  unfold desugarTemplate at h
  split at h
  · cases h
  · rename_i m stmts decls ha
    have h1 := rmAnonS_metas tbl none body _ decls ha
    have h2 := rmTupS_metas _ s' h
    intro x hx
    have h3 := h2 x hx
    have f1 := metasSL_filter isVarDecl decls x
    have f2 := metasSL_filter isCompDecl decls x
    have f3 := metasSL_filter isSub decls x
    have h4 := h1 x
    simp only [metasS, metasSs_ofList, metasSL_append, metasSL, List.flatMap_append, List.flatMap_cons, List.flatMap_nil, List.append_nil,
      List.mem_cons, List.mem_append, vaM, List.not_mem_nil, or_false] at h3 h4 f1 f2 f3 ⊢
    have h5 : ∀ y, y ∈ List.flatMap metasS stmts.toList ↔ y ∈ metasSs stmts := by
      intro y; rw [← metasSs_toList]; rfl
    rw [h5] at h3
    grind
  · cases h

end Circomspect.Desugar
