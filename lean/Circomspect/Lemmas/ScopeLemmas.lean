/-
Lemmas for C10: the renamer of `unique_vars.rs` refines lexical resolution; suffixes are
injective on declarations; the SSA version key is injective.
-/
import Circomspect.Model.UniqueVars

namespace Circomspect.ScopeLemmas
open Circomspect UniqueVars ScopeSpec


abbrev Entry := String × (Nat × Option Nat)

def toDecl (e : Entry) : String × Nat := (e.1, e.2.1)
def toVer (e : Entry) : Option (String × Nat) := e.2.2.map (fun v => (e.1, v))

theorem lookup_flatten {α : Type} (stack : List (Scope α)) (n : String) :
    lookup stack n = (stack.flatten.find? (fun e => e.1 == n)).map (·.2) := by
  induction stack with
  | nil => simp [lookup]
  | cons sc rest ih =>
    simp only [lookup, List.flatten_cons, List.find?_append]
    cases h : sc.find? (fun e => e.1 == n) with
    | none => simp [ih]
    | some e => simp

theorem flatten_map_map (stack : List (Scope (Nat × Option Nat))) :
    (stack.map (fun sc => sc.map toDecl)).flatten = stack.flatten.map toDecl := by
  induction stack with
  | nil => rfl
  | cons sc rest ih => simp only [List.map_cons, List.flatten_cons, List.map_append, ih]

theorem flatten_map_filterMap (stack : List (Scope (Nat × Option Nat))) :
    (stack.map (fun sc => sc.filterMap toVer)).flatten = stack.flatten.filterMap toVer := by
  induction stack with
  | nil => rfl
  | cons sc rest ih => simp only [List.map_cons, List.flatten_cons, List.filterMap_append, ih]

/-- below an entry that kept the plain name there is no entry of the same name -/
def NoneLast (l : List Entry) : Prop :=
  ∀ (a b : List Entry) (n : String) (id : Nat), l = a ++ (n, (id, none)) :: b → ∀ e ∈ b, e.1 ≠ n

theorem noneLast_tail {e : Entry} {t : List Entry} (h : NoneLast (e :: t)) : NoneLast t := by
  intro a b n id hl x hx
  exact h (e :: a) b n id (by simp [hl]) x hx

theorem noneLast_drop {l : List Entry} (k : Nat) (h : NoneLast l) : NoneLast (l.drop k) := by
  induction k generalizing l with
  | zero => simpa using h
  | succ k ih =>
    cases l with
    | nil => simpa using h
    | cons e t => simpa using ih (noneLast_tail h)

theorem find_map_toDecl (l : List Entry) (n : String) :
    ((l.map toDecl).find? (fun e => e.1 == n)).map (·.2) = ((l.find? (fun e => e.1 == n)).map (·.2)).map (·.1) := by
  induction l with
  | nil => rfl
  | cons e t ih =>
    simp only [List.map_cons, List.find?_cons]
    by_cases h : e.1 = n
    · have hb : (e.1 == n) = true := by simpa using h
      have hb' : ((toDecl e).1 == n) = true := hb
      rw [hb, hb']; rfl
    · have hb : (e.1 == n) = false := by simpa using h
      have hb' : ((toDecl e).1 == n) = false := hb
      rw [hb, hb']; exact ih

theorem find_filterMap_toVer (l : List Entry) (n : String) (hl : NoneLast l) :
    ((l.filterMap toVer).find? (fun e => e.1 == n)).map (·.2) = ((l.find? (fun e => e.1 == n)).map (·.2)).bind (·.2) := by
  induction l with
  | nil => rfl
  | cons e t ih =>
    have iht := ih (noneLast_tail hl)
    obtain ⟨en, eid, ev⟩ := e
    by_cases h : en = n
    · subst h
      have hb : (((en, (eid, ev)) : Entry).1 == en) = true := by simp
      simp only [List.find?_cons, hb]
      cases ev with
      | some v =>
        have : toVer (en, (eid, some v)) = some (en, v) := rfl
        simp only [List.filterMap_cons, this, List.find?_cons]
        have hb2 : (((en, v) : String × Nat).1 == en) = true := by simp
        rw [hb2]; rfl
      | none =>
        have : toVer (en, (eid, none)) = none := rfl
        simp only [List.filterMap_cons, this]
        have hno := hl [] t en eid rfl
        have hnone : (t.filterMap toVer).find? (fun e => e.1 == en) = none := by
          rw [List.find?_eq_none]
          intro x hx
          rw [List.mem_filterMap] at hx
          obtain ⟨y, hy, hxy⟩ := hx
          obtain ⟨yn, yid, yv⟩ := y
          cases yv with
          | none => simp [toVer] at hxy
          | some v =>
            simp [toVer] at hxy; subst hxy
            have := hno (yn, (yid, some v)) hy
            simpa using this
        rw [hnone]; rfl
    · have hb : (((en, (eid, ev)) : Entry).1 == n) = false := by simpa using h
      simp only [List.find?_cons, hb]
      cases ev with
      | none =>
        have : toVer (en, (eid, none)) = none := rfl
        simp only [List.filterMap_cons, this]; exact iht
      | some v =>
        have : toVer (en, (eid, some v)) = some (en, v) := rfl
        simp only [List.filterMap_cons, this, List.find?_cons]
        have hb2 : (((en, v) : String × Nat).1 == n) = false := by simpa using h
        rw [hb2]; exact iht


/-- the refinement relation between the renamer's environment and the specification state -/
structure R (env : Env) (s : St) : Prop where
  globals : env.globals = s.counts
  next : env.next = s.next
  decls : env.decls = s.stack.map (fun sc => sc.map toDecl)
  vers : env.vers = s.stack.map (fun sc => sc.filterMap toVer)
  noneLast : NoneLast s.stack.flatten
  known : ∀ e ∈ s.stack.flatten, (globalLookup s.counts e.1).isSome = true

theorem lookup_decls {env : Env} {s : St} (h : R env s) (n : String) :
    lookup env.decls n = (lookup s.stack n).map (·.1) := by
  rw [h.decls, lookup_flatten, lookup_flatten, flatten_map_map, find_map_toDecl]

theorem lookup_vers {env : Env} {s : St} (h : R env s) (n : String) :
    lookup env.vers n = (lookup s.stack n).bind (·.2) := by
  rw [h.vers, lookup_flatten, lookup_flatten, flatten_map_filterMap, find_filterMap_toVer _ _ h.noneLast]

theorem push_flatten {α : Type} (stack : List (Scope α)) (n : String) (a : α) :
    (push stack n a).flatten = (n, a) :: stack.flatten := by
  cases stack with
  | nil => simp [push]
  | cons sc rest => simp [push]

theorem push_map_toDecl (stack : List (Scope (Nat × Option Nat))) (n : String) (id : Nat) (v : Option Nat) :
    (push stack n (id, v)).map (fun sc => sc.map toDecl) = push (stack.map (fun sc => sc.map toDecl)) n id := by
  cases stack with
  | nil => simp [push, toDecl]
  | cons sc rest => simp [push, toDecl]

theorem push_map_toVer_some (stack : List (Scope (Nat × Option Nat))) (n : String) (id k : Nat) :
    (push stack n (id, some k)).map (fun sc => sc.filterMap toVer) = push (stack.map (fun sc => sc.filterMap toVer)) n k := by
  cases stack with
  | nil => simp [push, toVer]
  | cons sc rest => simp [push, toVer]

theorem push_map_toVer_none (stack : List (Scope (Nat × Option Nat))) (hne : stack ≠ []) (n : String) (id : Nat) :
    (push stack n (id, none)).map (fun sc => sc.filterMap toVer) = stack.map (fun sc => sc.filterMap toVer) := by
  cases stack with
  | nil => exact absurd rfl hne
  | cons sc rest =>
    have : toVer (n, (id, none)) = none := rfl
    simp [push, List.filterMap_cons, this]

theorem globalLookup_cons (g : List (String × Option Nat)) (n m : String) (v : Option Nat) :
    globalLookup ((n, v) :: g) m = if n = m then some v else globalLookup g m := by
  unfold globalLookup
  simp only [List.find?_cons]
  by_cases h : n = m
  · have : ((n, v).1 == m) = true := by simpa using h
    rw [this]; simp [h]
  · have : ((n, v).1 == m) = false := by simpa using h
    rw [this]; simp [h]

/-- one step of the renamer is one step of the specification -/
theorem step_refines (env : Env) (s : St) (h : R env s) (hne : s.stack ≠ []) (e : Event) :
    (step env e).2 = (specStep s e).2 ∧ R (step env e).1 (specStep s e).1 := by
  cases e with
  | enter =>
    refine ⟨rfl, ?_⟩
    exact { globals := h.globals, next := h.next, decls := by simp [step, specStep, h.decls], vers := by simp [step, specStep, h.vers],
            noneLast := by simpa [specStep] using h.noneLast, known := by simpa [specStep] using h.known }
  | exit =>
    refine ⟨rfl, ?_⟩
    refine { globals := h.globals, next := h.next, decls := ?_, vers := ?_, noneLast := ?_, known := ?_ }
    · simp only [step, specStep]; rw [h.decls]; cases s.stack <;> simp
    · simp only [step, specStep]; rw [h.vers]; cases s.stack <;> simp
    · simp only [specStep]
      cases hs : s.stack with
      | nil => simp [NoneLast]
      | cons sc rest =>
        have := noneLast_drop sc.length h.noneLast
        rw [hs] at this
        simpa using this
    · simp only [specStep]
      intro e he
      apply h.known e
      cases hs : s.stack with
      | nil => rw [hs] at he; simp at he
      | cons sc rest => rw [hs] at he; simp at he; simp [he]
  | use n =>
    constructor
    · simp only [step, specStep]
      rw [lookup_vers h n, h.next]
    · exact { globals := h.globals, next := by simp [step, specStep, h.next], decls := h.decls, vers := h.vers,
              noneLast := h.noneLast, known := h.known }
  | decl n =>
    have hv : (nextVersion { env with decls := push env.decls n env.next, next := env.next + 1 } n).1 = freshSuffix s.counts n := by
      unfold nextVersion freshSuffix
      simp only [h.globals]
      cases globalLookup s.counts n with
      | none => rfl
      | some o => cases o <;> rfl
    constructor
    · simp only [step, specStep]
      rw [hv, lookup_decls h n, h.next]
    · simp only [step, specStep]
      -- the environment after `get_next_version`
      cases hf : freshSuffix s.counts n with
      | none =>
        have hg : globalLookup s.counts n = none := by
          unfold freshSuffix at hf
          cases hgl : globalLookup s.counts n with
          | none => rfl
          | some o => rw [hgl] at hf; cases o <;> simp at hf
        have henv : (nextVersion { env with decls := push env.decls n env.next, next := env.next + 1 } n).2 =
            { decls := push env.decls n env.next, vers := env.vers, globals := (n, none) :: env.globals, next := env.next + 1 } := by
          unfold nextVersion
          simp only [h.globals, hg]
        rw [henv]
        refine { globals := by simp [h.globals], next := by simp [h.next], decls := ?_, vers := ?_, noneLast := ?_, known := ?_ }
        · simp only; rw [push_map_toDecl, h.decls, h.next]
        · simp only; rw [push_map_toVer_none _ hne, h.vers]
        · simp only; rw [push_flatten]
          intro a b m id hl x hx
          cases a with
          | nil =>
            simp only [List.nil_append, List.cons.injEq] at hl
            obtain ⟨h1, h2⟩ := hl
            have hm : n = m := by injection h1
            subst hm; subst h2
            intro hxe
            have := h.known x hx
            rw [hxe, hg] at this; simp at this
          | cons a0 a' =>
            simp only [List.cons_append, List.cons.injEq] at hl
            exact h.noneLast a' b m id hl.2 x hx
        · simp only; rw [push_flatten]
          intro e he
          rw [globalLookup_cons]
          rcases List.mem_cons.mp he with e' | e'
          · subst e'; simp
          · split
            · simp
            · exact h.known e e'
      | some k =>
        have henv : (nextVersion { env with decls := push env.decls n env.next, next := env.next + 1 } n).2 =
            { decls := push env.decls n env.next, vers := push env.vers n k, globals := (n, some k) :: env.globals, next := env.next + 1 } := by
          have hv' := hv; rw [hf] at hv'
          unfold nextVersion at hv' ⊢
          simp only at hv' ⊢
          cases hgl : globalLookup env.globals n with
          | none => rw [hgl] at hv'; simp at hv'
          | some o =>
            cases o with
            | none => rw [hgl] at hv'; simp at hv'; subst hv'; rfl
            | some j => rw [hgl] at hv'; simp at hv'; subst hv'; rfl
        rw [henv]
        refine { globals := by simp [h.globals], next := by simp [h.next], decls := ?_, vers := ?_, noneLast := ?_, known := ?_ }
        · simp only; rw [push_map_toDecl, h.decls, h.next]
        · simp only; rw [push_map_toVer_some, h.vers]
        · simp only; rw [push_flatten]
          intro a b m id hl x hx
          cases a with
          | nil =>
            simp only [List.nil_append, List.cons.injEq] at hl
            obtain ⟨h1, _⟩ := hl
            injection h1 with _ h12
            injection h12 with _ h13
            cases h13
          | cons a0 a' =>
            simp only [List.cons_append, List.cons.injEq] at hl
            exact h.noneLast a' b m id hl.2 x hx
        · simp only; rw [push_flatten]
          intro e he
          rw [globalLookup_cons]
          rcases List.mem_cons.mp he with e' | e'
          · subst e'; simp
          · split
            · simp
            · exact h.known e e'


/-- scopes are entered and left in a well-nested way and the outermost block is never left
    (true of the event sequence of any statement tree) -/
def WellNested : Nat → List Event → Prop
  | _, [] => True
  | d, .enter :: r => WellNested (d + 1) r
  | d, .exit :: r => 2 ≤ d ∧ WellNested (d - 1) r
  | d, .decl _ :: r => WellNested d r
  | d, .use _ :: r => WellNested d r

theorem specStep_depth (s : St) (e : Event) (hne : s.stack ≠ []) :
    (specStep s e).1.stack.length = match e with
      | .enter => s.stack.length + 1 | .exit => s.stack.length - 1 | _ => s.stack.length := by
  cases e with
  | enter => simp [specStep]
  | exit => simp [specStep]
  | use n => simp [specStep]
  | decl n =>
    simp only [specStep]
    cases hs : s.stack with
    | nil => exact absurd hs hne
    | cons sc rest => simp [push]

/-- The renamer refines lexical resolution: on every well-nested event sequence it produces
    exactly the output of the specification. -/
theorem run_refines : ∀ (evs : List Event) (env : Env) (s : St) (d : Nat), R env s → s.stack.length = d → 1 ≤ d →
    WellNested d evs → run env evs = specRun s evs := by
  intro evs
  induction evs with
  | nil => intro env s d _ _ _ _; rfl
  | cons e rest ih =>
    intro env s d hR hd h1 hw
    have hne : s.stack ≠ [] := by intro e'; rw [e'] at hd; simp at hd; omega
    obtain ⟨hout, hR'⟩ := step_refines env s hR hne e
    have hdep := specStep_depth s e hne
    unfold run specRun
    cases e with
    | enter =>
      simp only [step, specStep] at hout hR' hdep ⊢
      exact ih _ _ (d + 1) hR' (by simp [hd]) (by omega) hw
    | exit =>
      simp only [step, specStep] at hout hR' hdep ⊢
      exact ih _ _ (d - 1) hR' (by rw [hdep, hd]) (by have := hw.1; omega) hw.2
    | decl n =>
      have e1 : step env (.decl n) = ((step env (.decl n)).1, (specStep s (.decl n)).2) := by
        rw [← hout]
      have e2 : (specStep s (.decl n)).2 = some { id := s.next, isDecl := true, name := n, suffix := freshSuffix s.counts n, shadows := (lookup s.stack n).map (·.1) } := rfl
      rw [e1, e2]
      simp only [specStep]
      congr 1
      exact ih _ _ d hR' (by simpa [specStep, hd] using hdep) h1 hw
    | use n =>
      have e1 : step env (.use n) = ((step env (.use n)).1, (specStep s (.use n)).2) := by
        rw [← hout]
      have e2 : (specStep s (.use n)).2 = some { id := s.next, isDecl := false, name := n, suffix := (lookup s.stack n).bind (·.2), shadows := none } := rfl
      rw [e1, e2]
      simp only [specStep]
      congr 1
      exact ih _ _ d hR' (by simpa [specStep, hd] using hdep) h1 hw

theorem R_init : R Env.init St.init where
  globals := rfl
  next := rfl
  decls := rfl
  vers := rfl
  noneLast := by intro a b n id h; simp [St.init] at h
  known := by intro e he; simp [St.init] at he

theorem rename_refines (params : List String) (body : List Event) (hw : WellNested 1 (paramEvents params ++ body)) :
    rename params body = specRun St.init (paramEvents params ++ body) :=
  run_refines _ Env.init St.init 1 R_init rfl (Nat.le_refl _) hw


def rank : Option Nat → Nat
  | none => 0
  | some k => k + 1

/-- number of declarations of `n` recorded in the counter table -/
def cnt (counts : List (String × Option Nat)) (n : String) : Nat :=
  match globalLookup counts n with
  | none => 0
  | some o => rank o + 1

theorem rank_fresh (counts : List (String × Option Nat)) (n : String) : rank (freshSuffix counts n) = cnt counts n := by
  unfold freshSuffix cnt
  cases globalLookup counts n with
  | none => rfl
  | some o => cases o <;> rfl

theorem cnt_cons (counts : List (String × Option Nat)) (n m : String) (v : Option Nat) :
    cnt ((n, v) :: counts) m = if n = m then rank v + 1 else cnt counts m := by
  unfold cnt
  rw [globalLookup_cons]
  by_cases h : n = m
  · simp [h]
  · simp [h]

/-- Declarations of the same name always receive different suffixes: the k-th declaration of a
    name (in traversal order) has rank k. -/
theorem spec_decl_ranks : ∀ (evs : List Event) (s : St) (pre : List Out),
    (∀ od ∈ pre, od.isDecl = true → rank od.suffix < cnt s.counts od.name) →
    ∀ (l : List Out), l = pre ++ specRun s evs →
    ∀ i j (oi oj : Out), i < j → l[i]? = some oi → l[j]? = some oj → oi.isDecl = true → oj.isDecl = true →
      oi.name = oj.name → pre.length ≤ j → rank oi.suffix < rank oj.suffix := by
  intro evs
  induction evs with
  | nil =>
    intro s pre _ l hl i j oi oj hij hi hj _ _ _ hpj
    subst hl
    simp [specRun] at hj
    have := (List.getElem?_eq_some_iff.mp hj).1
    omega
  | cons e rest ih =>
    intro s pre hpre l hl i j oi oj hij hi hj hdi hdj hn hpj
    cases e with
    | enter => exact ih { s with stack := [] :: s.stack } pre hpre l (by simpa [specRun, specStep] using hl) i j oi oj hij hi hj hdi hdj hn hpj
    | exit => exact ih { s with stack := s.stack.tail } pre hpre l (by simpa [specRun, specStep] using hl) i j oi oj hij hi hj hdi hdj hn hpj
    | use n =>
      let o : Out := { id := s.next, isDecl := false, name := n, suffix := (lookup s.stack n).bind (·.2), shadows := none }
      have hl' : l = (pre ++ [o]) ++ specRun { s with next := s.next + 1 } rest := by
        simp [hl, specRun, specStep, o]
      by_cases hjp : j = pre.length
      · -- position j is the use event itself: not a declaration
        subst hjp
        rw [hl'] at hj
        rw [List.getElem?_append_left (by simp), List.getElem?_append_right (by simp)] at hj
        simp at hj; subst hj; simp [o] at hdj
      · apply ih { s with next := s.next + 1 } (pre ++ [o]) _ l hl' i j oi oj hij hi hj hdi hdj hn (by simp; omega)
        intro od hod hdd
        rcases List.mem_append.mp hod with h | h
        · exact hpre od h hdd
        · simp at h; subst h; simp [o] at hdd
    | decl n =>
      let o : Out := { id := s.next, isDecl := true, name := n, suffix := freshSuffix s.counts n, shadows := (lookup s.stack n).map (·.1) }
      let s' : St := { stack := push s.stack n (s.next, freshSuffix s.counts n), counts := (n, freshSuffix s.counts n) :: s.counts, next := s.next + 1 }
      have hl' : l = (pre ++ [o]) ++ specRun s' rest := by
        simp [hl, specRun, specStep, o, s']
      have hpre' : ∀ od ∈ pre ++ [o], od.isDecl = true → rank od.suffix < cnt s'.counts od.name := by
        intro od hod hdd
        simp only [s', cnt_cons]
        rcases List.mem_append.mp hod with h | h
        · have := hpre od h hdd
          split
          · rename_i e; rw [rank_fresh, e]; omega
          · exact this
        · simp at h; subst h; simp [o]
      by_cases hjp : j = pre.length
      · subst hjp
        have hoj : oj = o := by
          rw [hl'] at hj
          rw [List.getElem?_append_left (by simp), List.getElem?_append_right (by simp)] at hj
          simpa using hj.symm
        have hoi : oi ∈ pre := by
          rw [hl'] at hi
          rw [List.getElem?_append_left (by simp; omega), List.getElem?_append_left (by omega)] at hi
          exact List.mem_of_getElem? hi
        subst hoj
        have := hpre oi hoi hdi
        simp only [o] at hn ⊢
        rw [rank_fresh, ← hn]; exact this
      · exact ih s' (pre ++ [o]) hpre' l hl' i j oi oj hij hi hj hdi hdj hn (by simp; omega)


/-- the key under which `ssa_impl.rs` tracks the versions of a (renamed) variable, after the
    `fix:` -/
def ssaKey (name : List Char) (suffix : Option (List Char)) : List Char :=
  match suffix with
  | none => name
  | some s => name ++ '.' :: s

/-- the key before the fix (`format!("{:?}", name.without_version())`) -/
def oldSsaKey (name : List Char) (suffix : Option (List Char)) : List Char :=
  match suffix with
  | none => name
  | some s => name ++ '_' :: s

theorem append_dot_inj : ∀ (n1 n2 a b : List Char), '.' ∉ n1 → '.' ∉ n2 → n1 ++ '.' :: a = n2 ++ '.' :: b → n1 = n2 ∧ a = b := by
  intro n1
  induction n1 with
  | nil =>
    intro n2 a b _ h2 h
    cases n2 with
    | nil => simp at h; exact ⟨rfl, h⟩
    | cons c t =>
      simp at h
      exfalso; apply h2; rw [← h.1]; simp
  | cons c t ih =>
    intro n2 a b h1 h2 h
    cases n2 with
    | nil =>
      simp at h
      exfalso; apply h1; rw [h.1]; simp
    | cons c2 t2 =>
      simp only [List.cons_append, List.cons.injEq] at h
      have := ih t2 a b (fun hm => h1 (List.mem_cons_of_mem _ hm)) (fun hm => h2 (List.mem_cons_of_mem _ hm)) h.2
      exact ⟨by rw [h.1, this.1], this.2⟩

/-- identifiers cannot contain `.`, so the version key is injective on (name, suffix) pairs -/
theorem ssaKey_injective (n1 n2 : List Char) (s1 s2 : Option (List Char)) (h1 : '.' ∉ n1) (h2 : '.' ∉ n2)
    (h : ssaKey n1 s1 = ssaKey n2 s2) : n1 = n2 ∧ s1 = s2 := by
  cases s1 with
  | none =>
    cases s2 with
    | none => exact ⟨h, rfl⟩
    | some b =>
      simp only [ssaKey] at h
      exfalso; apply h1; rw [h]; simp
  | some a =>
    cases s2 with
    | none =>
      simp only [ssaKey] at h
      exfalso; apply h2; rw [← h]; simp
    | some b =>
      simp only [ssaKey] at h
      obtain ⟨e1, e2⟩ := append_dot_inj n1 n2 a b h1 h2 h
      exact ⟨e1, by rw [e2]⟩

/-- the defect repaired by the `fix:` commit: the old key identified the renamed inner `x`
    (suffix `0`) with a variable literally called `x_0` -/
theorem oldSsaKey_collision : oldSsaKey ['x'] (some ['0']) = oldSsaKey ['x', '_', '0'] none ∧
    (['x'], some ['0']) ≠ ((['x', '_', '0'], none) : List Char × Option (List Char)) := by decide


end Circomspect.ScopeLemmas
