/-
Path-level soundness of degree propagation (C07, C20): every range that any number of passes of the
operational model `Propagate.degLoop` writes on any node of an SSA CFG bounds the degree of that node in
*every degree state that any execution of the CFG can reach*.

A degree state gives, for every SSA variable, the degree (in Circom's expression algebra, `Spec/Algebra`)
of the polynomial it currently holds.  Signals and components (variables of a non-local declaration) are
indeterminates: degree 1, always.  Template parameters are constants, function parameters at most linear
(the range the code starts from); every other variable starts at 0 (Circom's default value).  From any
reachable state *any* substitution to a local may be executed next, in any order and any number of times,
giving its variable any degree up to the algebra's degree of the right-hand side (this covers `phi`,
whose algebraic degree is the maximum over its arguments).

Hypotheses on the CFG (`WfD`, all decidable, evaluated on every real dump): a local is assigned by at
most one substitution; a variable is not declared both local and non-local, and parameters are not
non-local; parameters are not assigned (they are version 0); and — what the "first assignment to the
array" rule relies on — wherever an array `v` is updated element-wise, a substitution to `v` and a
non-local declaration of `v`, if the program has one at all, occur *earlier in block order*.
-/
import Circomspect.Lemmas.DegreeLemmas
import Circomspect.Lemmas.PathValues
set_option linter.unusedSimpArgs false
set_option linter.unusedVariables false
namespace Circomspect.Propagate
open Circomspect Ir Algebra

-- ---------------------------------------------------------------------------- erasure

mutual
theorem erase_degExpr (env : DegEnv) : ∀ e, erase (degExpr env e).1 = erase e
  | .infix a op l r => by
    unfold degExpr
    simp only
    cases hc : (degExpr env l).2 with
    | true => simp only [if_true, erase, erase_degExpr env l]
    | false => simp only [Bool.false_eq_true, if_false, erase, erase_degExpr env l, erase_degExpr env r]
  | .prefix a op e => by unfold degExpr; simp only [erase, erase_degExpr env e]
  | .switch a c t f => by
    unfold degExpr
    simp only
    cases h1 : (degExpr env c).2 with
    | true =>
      simp only [if_true]
      split <;> (try split) <;> simp only [erase, erase_degExpr env c]
    | false =>
      simp only [Bool.false_eq_true, if_false]
      cases h2 : (degExpr env t).2 with
      | true =>
        simp only [if_true]
        split <;> (try split) <;> simp only [erase, erase_degExpr env c, erase_degExpr env t]
      | false =>
        simp only [Bool.false_eq_true, if_false]
        split <;> (try split) <;> simp only [erase, erase_degExpr env c, erase_degExpr env t, erase_degExpr env f]
  | .var a v => by unfold degExpr; simp only [erase]
  | .num a n => by unfold degExpr; simp only [erase]
  | .call a n args => by
    unfold degExpr; simp only
    split <;> simp only [erase, eraseEs_degExprs env args false]
  | .arr a vals => by unfold degExpr; simp only [erase, eraseEs_degExprs env vals false]
  | .acc a v access => by unfold degExpr; simp only [erase, eraseAs_degAccs env access false]
  | .upd a v access rhe => by
    unfold degExpr; simp only [erase, eraseAs_degAccs env access _, erase_degExpr env rhe]
  | .phi a args => by unfold degExpr; split <;> simp only [erase]
theorem eraseEs_degExprs (env : DegEnv) : ∀ (es : Exprs) (c : Bool), eraseEs (degExprs env es c).1 = eraseEs es
  | .nil, c => by unfold degExprs; rfl
  | .cons e r, c => by
    unfold degExprs
    simp only
    cases c with
    | true => simp only [if_true, eraseEs, eraseEs_degExprs env r _]
    | false => simp only [Bool.false_eq_true, if_false, eraseEs, erase_degExpr env e, eraseEs_degExprs env r _]
theorem eraseAs_degAccs (env : DegEnv) : ∀ (acc : Accs) (c : Bool), eraseAs (degAccs env acc c).1 = eraseAs acc
  | .nil, c => by unfold degAccs; rfl
  | .cons (.idx e) r, c => by
    unfold degAccs
    simp only
    cases c with
    | true => simp only [if_true, eraseAs, eraseAs_degAccs env r _]
    | false => simp only [Bool.false_eq_true, if_false, eraseAs, erase_degExpr env e, eraseAs_degAccs env r _]
  | .cons (.cmp n) r, c => by
    unfold degAccs
    simp only [eraseAs, eraseAs_degAccs env r _]
end

mutual
/-- the algebra's degree does not look at annotations -/
theorem degE_erase (δ : VName → Nat) : ∀ e, degE δ (erase e) = degE δ e
  | .infix _ op l r => by simp only [erase, degE, degE_erase δ l, degE_erase δ r]
  | .prefix _ op e => by simp only [erase, degE, degE_erase δ e]
  | .switch _ c t f => by simp only [erase, degE, degE_erase δ c, degE_erase δ t, degE_erase δ f]
  | .var _ v => by simp only [erase, degE]
  | .num _ n => by simp only [erase, degE]
  | .call _ n args => by simp only [erase, degE, degEs_erase δ args]
  | .arr _ vals => by simp only [erase, degE, degEs_erase δ vals]
  | .acc _ v access => by simp only [erase, degE, degAs_erase δ access]
  | .upd _ v access rhe => by simp only [erase, degE, degAs_erase δ access, degE_erase δ rhe]
  | .phi _ args => by simp only [erase, degE]
theorem degEs_erase (δ : VName → Nat) : ∀ es, degEs δ (eraseEs es) = degEs δ es
  | .nil => by simp only [eraseEs, degEs]
  | .cons e r => by simp only [eraseEs, degEs, degE_erase δ e, degEs_erase δ r]
theorem degAs_erase (δ : VName → Nat) : ∀ acc, degAs δ (eraseAs acc) = degAs δ acc
  | .nil => by simp only [eraseAs, degAs]
  | .cons (.idx e) r => by simp only [eraseAs, degAs, degE_erase δ e, degAs_erase δ r]
  | .cons (.cmp n) r => by simp only [eraseAs, degAs, degAs_erase δ r]
end

-- ---------------------------------------------------------------------------- update bases

mutual
/-- the arrays that are updated element-wise somewhere in the expression -/
def basesE : Expr → List VName
  | .infix _ _ l r => basesE l ++ basesE r
  | .prefix _ _ e => basesE e
  | .switch _ c t f => basesE c ++ basesE t ++ basesE f
  | .var _ _ => []
  | .num _ _ => []
  | .call _ _ args => basesEs args
  | .arr _ vals => basesEs vals
  | .acc _ _ access => basesAs access
  | .upd _ v access rhe => v :: (basesAs access ++ basesE rhe)
  | .phi _ _ => []
def basesEs : Exprs → List VName
  | .nil => []
  | .cons e r => basesE e ++ basesEs r
def basesAs : Accs → List VName
  | .nil => []
  | .cons (.idx e) r => basesE e ++ basesAs r
  | .cons (.cmp _) r => basesAs r
end

mutual
theorem basesE_erase : ∀ e, basesE (erase e) = basesE e
  | .infix _ op l r => by simp only [erase, basesE, basesE_erase l, basesE_erase r]
  | .prefix _ op e => by simp only [erase, basesE, basesE_erase e]
  | .switch _ c t f => by simp only [erase, basesE, basesE_erase c, basesE_erase t, basesE_erase f]
  | .var _ v => by simp only [erase, basesE]
  | .num _ n => by simp only [erase, basesE]
  | .call _ n args => by simp only [erase, basesE, basesEs_erase args]
  | .arr _ vals => by simp only [erase, basesE, basesEs_erase vals]
  | .acc _ v access => by simp only [erase, basesE, basesAs_erase access]
  | .upd _ v access rhe => by simp only [erase, basesE, basesAs_erase access, basesE_erase rhe]
  | .phi _ args => by simp only [erase, basesE]
theorem basesEs_erase : ∀ es, basesEs (eraseEs es) = basesEs es
  | .nil => by simp only [eraseEs, basesEs]
  | .cons e r => by simp only [eraseEs, basesEs, basesE_erase e, basesEs_erase r]
theorem basesAs_erase : ∀ acc, basesAs (eraseAs acc) = basesAs acc
  | .nil => by simp only [eraseAs, basesAs]
  | .cons (.idx e) r => by simp only [eraseAs, basesAs, basesE_erase e, basesAs_erase r]
  | .cons (.cmp n) r => by simp only [eraseAs, basesAs, basesAs_erase r]
end

mutual
/-- soundness does not depend on the freshness predicate beyond the update bases of the expression -/
theorem soundD_restrict (δ : VName → Nat) (F₀ F : VName → Prop) :
    ∀ e, SoundD δ F₀ e → (∀ v, v ∈ basesE e → F v) → SoundD δ F e
  | .infix a op l r, h, hb => by
    unfold SoundD at h ⊢; simp only [basesE, List.mem_append] at hb
    exact ⟨h.1, soundD_restrict δ F₀ F l h.2.1 (fun v hv => hb v (Or.inl hv)),
      soundD_restrict δ F₀ F r h.2.2 (fun v hv => hb v (Or.inr hv))⟩
  | .prefix a op e, h, hb => by
    unfold SoundD at h ⊢; simp only [basesE] at hb
    exact ⟨h.1, soundD_restrict δ F₀ F e h.2 hb⟩
  | .switch a c t f, h, hb => by
    unfold SoundD at h ⊢; simp only [basesE, List.mem_append] at hb
    exact ⟨h.1, soundD_restrict δ F₀ F c h.2.1 (fun v hv => hb v (Or.inl (Or.inl hv))),
      soundD_restrict δ F₀ F t h.2.2.1 (fun v hv => hb v (Or.inl (Or.inr hv))),
      soundD_restrict δ F₀ F f h.2.2.2 (fun v hv => hb v (Or.inr hv))⟩
  | .var a v, h, _ => by unfold SoundD at h ⊢; exact h
  | .num a n, h, _ => by unfold SoundD at h ⊢; exact h
  | .call a n args, h, hb => by
    unfold SoundD at h ⊢; simp only [basesE] at hb
    exact ⟨h.1, soundDs_restrict δ F₀ F args h.2 hb⟩
  | .arr a vals, h, hb => by
    unfold SoundD at h ⊢; simp only [basesE] at hb
    exact ⟨h.1, soundDs_restrict δ F₀ F vals h.2 hb⟩
  | .acc a v access, h, hb => by
    unfold SoundD at h ⊢; simp only [basesE] at hb
    exact ⟨h.1, soundDa_restrict δ F₀ F access h.2 hb⟩
  | .upd a v access rhe, h, hb => by
    unfold SoundD at h ⊢; simp only [basesE, List.mem_cons, List.mem_append] at hb
    exact ⟨h.1, soundDa_restrict δ F₀ F access h.2.1 (fun w hw => hb w (Or.inr (Or.inl hw))),
      soundD_restrict δ F₀ F rhe h.2.2.1 (fun w hw => hb w (Or.inr (Or.inr hw))), hb v (Or.inl rfl)⟩
  | .phi a args, h, _ => by unfold SoundD at h ⊢; exact h
theorem soundDs_restrict (δ : VName → Nat) (F₀ F : VName → Prop) :
    ∀ es, SoundDs δ F₀ es → (∀ v, v ∈ basesEs es → F v) → SoundDs δ F es
  | .nil, _, _ => by unfold SoundDs; trivial
  | .cons e r, h, hb => by
    unfold SoundDs at h ⊢; simp only [basesEs, List.mem_append] at hb
    exact ⟨soundD_restrict δ F₀ F e h.1 (fun v hv => hb v (Or.inl hv)),
      soundDs_restrict δ F₀ F r h.2 (fun v hv => hb v (Or.inr hv))⟩
theorem soundDa_restrict (δ : VName → Nat) (F₀ F : VName → Prop) :
    ∀ acc, SoundDa δ F₀ acc → (∀ v, v ∈ basesAs acc → F v) → SoundDa δ F acc
  | .nil, _, _ => by unfold SoundDa; trivial
  | .cons (.idx e) r, h, hb => by
    unfold SoundDa at h ⊢; simp only [basesAs, List.mem_append] at hb
    exact ⟨soundD_restrict δ F₀ F e h.1 (fun v hv => hb v (Or.inl hv)),
      soundDa_restrict δ F₀ F r h.2 (fun v hv => hb v (Or.inr hv))⟩
  | .cons (.cmp n) r, h, hb => by
    unfold SoundDa at h ⊢; simp only [basesAs] at hb
    exact soundDa_restrict δ F₀ F r h hb
end

/-- the freshness predicate that asks nothing -/
abbrev FTop : VName → Prop := fun _ => True

theorem soundD_top' (δ : VName → Nat) (F : VName → Prop) (e : Expr) (h : SoundD δ F e) : SoundD δ FTop e :=
  soundD_restrict δ F FTop e h (fun _ _ => trivial)

-- ---------------------------------------------------------------------------- the program, syntactically

def basesL : LogArg → List VName
  | .str => []
  | .expr e => basesE e

/-- the arrays a statement updates element-wise -/
def basesS : Stmt → List VName
  | .decl _ _ dims => dims.flatMap basesE
  | .ite c => basesE c
  | .ret e => basesE e
  | .sub _ _ _ _ rhe => basesE rhe
  | .ceq l r => basesE l ++ basesE r
  | .log args => args.flatMap basesL
  | .assert e => basesE e

theorem basesS_eraseS (s : Stmt) : basesS (eraseS s) = basesS s := by
  cases s with
  | decl names ty dims =>
    simp only [eraseS, basesS, List.flatMap_map]
    congr 1; funext e; exact basesE_erase e
  | ite c => simp only [eraseS, basesS, basesE_erase]
  | ret e => simp only [eraseS, basesS, basesE_erase]
  | sub a v ty op rhe => simp only [eraseS, basesS, basesE_erase]
  | ceq l r => simp only [eraseS, basesS, basesE_erase]
  | log args =>
    simp only [eraseS, basesS, List.flatMap_map]
    congr 1; funext x; cases x <;> simp [eraseL, basesL, basesE_erase]
  | assert e => simp only [eraseS, basesS, basesE_erase]

/-- `s` declares `v` as a signal or component -/
def declaresNL (s : Stmt) (v : VName) : Prop :=
  match s with
  | .decl names ty _ => ty ≠ VType.local_ ∧ v ∈ names
  | _ => False

/-- `s` declares `v` as a local -/
def declaresL (s : Stmt) (v : VName) : Prop :=
  match s with
  | .decl names ty _ => ty = VType.local_ ∧ v ∈ names
  | _ => False

theorem declaresNL_eraseS (s : Stmt) (v : VName) : declaresNL (eraseS s) v ↔ declaresNL s v := by
  cases s <;> simp [eraseS, declaresNL]
theorem declaresL_eraseS (s : Stmt) (v : VName) : declaresL (eraseS s) v ↔ declaresL s v := by
  cases s <;> simp [eraseS, declaresL]

def NonLocal (E : List Stmt) (v : VName) : Prop := ∃ s, s ∈ E ∧ declaresNL s v
def LocalDecl (E : List Stmt) (v : VName) : Prop := ∃ s, s ∈ E ∧ declaresL s v
def HasSub (E : List Stmt) (v : VName) : Prop := ∃ s, s ∈ E ∧ defVar s = some v

/-- block order: before every element-wise update of `v`, the program has already seen the declaration of `v` if it is a signal or
    component, and otherwise a substitution to `v` if it has any at all (a signal array is assigned element by element, `out[i] <-- ..`,
    without an earlier assignment: its degree comes from the declaration) -/
def PosOK (E : List Stmt) : List Stmt → List Stmt → Prop
  | _, [] => True
  | pre, s :: r =>
    (∀ v, v ∈ basesS s → (HasSub E v → ¬ NonLocal E v → ∃ t, t ∈ pre ∧ defVar t = some v) ∧
                          (NonLocal E v → ∃ t, t ∈ pre ∧ declaresNL t v)) ∧
    PosOK E (pre ++ [s]) r

structure WfD (E : List Stmt) (ps : List VName) : Prop where
  single : ∀ s₁ s₂, s₁ ∈ E → s₂ ∈ E → ∀ v, defVar s₁ = some v → defVar s₂ = some v → s₁ = s₂ ∨ NonLocal E v
  types : ∀ v, NonLocal E v → ¬ LocalDecl E v ∧ v ∉ ps
  params : ∀ v, v ∈ ps → ¬ HasSub E v
  pos : PosOK E [] E

-- ---------------------------------------------------------------------------- executions

abbrev DState := VName → Nat

def DState.set (δ : DState) (v : VName) (d : Nat) : DState := fun w => if w = v then d else δ w
@[simp] theorem DState.set_same (δ : DState) (v : VName) (d : Nat) : δ.set v d v = d := by simp [DState.set]
theorem DState.set_other (δ : DState) (v w : VName) (d : Nat) (h : w ≠ v) : δ.set v d w = δ w := by
  simp [DState.set, h]

inductive StepD (E : List Stmt) : DState → DState → Prop
  | assign (δ : DState) (a : Ann) (v : VName) (ty : Option VType) (op : String) (rhe : Expr) (d : Nat) :
      Stmt.sub a v ty op rhe ∈ E → ¬ NonLocal E v → d ≤ degE δ rhe → StepD E δ (δ.set v d)

structure InitD (E : List Stmt) (ps : List VName) (fn : Bool) (δ : DState) : Prop where
  le3 : ∀ v, δ v ≤ 3
  nonlocal_ : ∀ v, NonLocal E v → δ v = 1
  param : ∀ v, v ∈ ps → δ v ≤ (if fn then 1 else 0)
  other : ∀ v, ¬ NonLocal E v → v ∉ ps → δ v = 0

inductive ReachD (E : List Stmt) (ps : List VName) (fn : Bool) : DState → Prop
  | init (δ : DState) : InitD E ps fn δ → ReachD E ps fn δ
  | step (δ δ' : DState) : ReachD E ps fn δ → StepD E δ δ' → ReachD E ps fn δ'

theorem reachD_le3 (E : List Stmt) (ps : List VName) (fn : Bool) : ∀ δ, ReachD E ps fn δ → ∀ v, δ v ≤ 3 := by
  intro δ hr
  induction hr with
  | init δ hi => exact hi.le3
  | step δ δ' hr hst ih =>
    intro w
    cases hst with
    | assign a v ty op rhe d hmem hnl hd =>
      by_cases hwv : w = v
      · subst hwv; rw [DState.set_same]
        have := degE_le3 δ ih rhe
        omega
      · rw [DState.set_other _ _ _ _ hwv]; exact ih w

theorem reachD_nonlocal (E : List Stmt) (ps : List VName) (fn : Bool) :
    ∀ δ, ReachD E ps fn δ → ∀ v, NonLocal E v → δ v = 1 := by
  intro δ hr
  induction hr with
  | init δ hi => exact hi.nonlocal_
  | step δ δ' hr hst ih =>
    intro w hw
    cases hst with
    | assign a v ty op rhe d hmem hnl hd =>
      by_cases hwv : w = v
      · subst hwv; exact absurd hw hnl
      · rw [DState.set_other _ _ _ _ hwv]; exact ih w hw

theorem reachD_param (E : List Stmt) (ps : List VName) (fn : Bool) (hp : ∀ v, v ∈ ps → ¬ HasSub E v) :
    ∀ δ, ReachD E ps fn δ → ∀ v, v ∈ ps → δ v ≤ (if fn then 1 else 0) := by
  intro δ hr
  induction hr with
  | init δ hi => exact hi.param
  | step δ δ' hr hst ih =>
    intro w hw
    cases hst with
    | assign a v ty op rhe d hmem hnl hd =>
      by_cases hwv : w = v
      · subst hwv; exact absurd ⟨_, hmem, rfl⟩ (hp w hw)
      · rw [DState.set_other _ _ _ _ hwv]; exact ih w hw

/-- the degree held by a variable that is neither non-local nor a parameter is 0 (its default) or was
    produced by one of its substitutions in a reachable state -/
theorem reachD_origin (E : List Stmt) (ps : List VName) (fn : Bool) :
    ∀ δ, ReachD E ps fn δ → ∀ v, ¬ NonLocal E v → v ∉ ps →
      δ v = 0 ∨ ∃ δ₁ a ty op rhe, ReachD E ps fn δ₁ ∧ Stmt.sub a v ty op rhe ∈ E ∧ δ v ≤ degE δ₁ rhe := by
  intro δ hr
  induction hr with
  | init δ hi => intro v h1 h2; exact Or.inl (hi.other v h1 h2)
  | step δ δ' hr hst ih =>
    intro w h1 h2
    cases hst with
    | assign a v ty op rhe d hmem hnl hd =>
      by_cases hwv : w = v
      · subst hwv; rw [DState.set_same]
        exact Or.inr ⟨δ, a, ty, op, rhe, hr, hmem, hd⟩
      · rw [DState.set_other _ _ _ _ hwv]; exact ih w h1 h2

-- ---------------------------------------------------------------------------- environment operations

theorem degree_setDegree (env : DegEnv) (v w : VName) (r : Range) :
    (env.setDegree v r).1.degree w = if w = v then some r else env.degree w := by
  unfold DegEnv.setDegree
  split
  · -- first insertion
    simp only [DegEnv.degree, List.find?_cons]
    by_cases hwv : w = v
    · subst hwv; simp
    · have : (v == w) = false := by simpa using fun h => hwv h.symm
      simp [this, hwv]
  · simp only [DegEnv.degree, List.find?_cons]
    by_cases hwv : w = v
    · subst hwv; simp
    · have : (v == w) = false := by simpa using fun h => hwv h.symm
      simp only [this, hwv, if_false, Bool.false_eq_true]
      rw [List.find?_filter]
      congr 2
      funext a
      by_cases haw : a.1 = w
      · subst haw; simp [hwv]
      · simp [haw]

theorem assigned_setDegree (env : DegEnv) (v : VName) (r : Range) : (env.setDegree v r).1.assigned = env.assigned := by
  unfold DegEnv.setDegree; split <;> rfl
theorem types_setDegree (env : DegEnv) (v : VName) (r : Range) : (env.setDegree v r).1.types = env.types := by
  unfold DegEnv.setDegree; split <;> rfl
theorem ranges_setType (env : DegEnv) (v : VName) (t : VType) : (env.setType v t).ranges = env.ranges := by
  unfold DegEnv.setType; split <;> rfl
theorem assigned_setType (env : DegEnv) (v : VName) (t : VType) : (env.setType v t).assigned = env.assigned := by
  unfold DegEnv.setType; split <;> rfl

theorem degree_setType (env : DegEnv) (v w : VName) (t : VType) : (env.setType v t).degree w = env.degree w := by
  simp only [DegEnv.degree, ranges_setType]

theorem isAssigned_setDegree (env : DegEnv) (v w : VName) (r : Range) :
    (env.setDegree v r).1.isAssigned w = env.isAssigned w := by
  simp only [DegEnv.isAssigned, assigned_setDegree]
theorem isAssigned_setType (env : DegEnv) (v w : VName) (t : VType) :
    (env.setType v t).isAssigned w = env.isAssigned w := by
  simp only [DegEnv.isAssigned, assigned_setType]
theorem isLocal_setDegree (env : DegEnv) (v w : VName) (r : Range) :
    (env.setDegree v r).1.isLocal w = env.isLocal w := by
  simp only [DegEnv.isLocal, types_setDegree]

theorem isLocal_setType (env : DegEnv) (v w : VName) (t : VType) (h : (env.setType v t).isLocal w = true) :
    (w = v ∧ t = VType.local_) ∨ env.isLocal w = true := by
  unfold DegEnv.setType at h
  split at h
  · simp only [DegEnv.isLocal, List.find?_cons] at h
    by_cases hvw : v = w
    · subst hvw
      simp only [beq_self_eq_true, Option.map_some, beq_iff_eq, Option.some.injEq] at h
      exact Or.inl ⟨rfl, h⟩
    · have : (v == w) = false := by simpa using hvw
      simp only [this] at h
      exact Or.inr h
  · exact Or.inr h

/-- `set_degree` reports a change exactly when the variable had no degree -/
theorem setDegree_changed (env : DegEnv) (v : VName) (r : Range) :
    (env.setDegree v r).2 = (env.degree v).isNone := by
  unfold DegEnv.setDegree
  split
  · rename_i h; simp [h]
  · rename_i x h; simp [h]

-- ---------------------------------------------------------------------------- statements

/-- every range on the statement bounds the degree of its node in the degree state `δ` -/
def SoundSD (δ : DState) : Stmt → Prop
  | .decl _ _ dims => ∀ e, e ∈ dims → SoundD δ FTop e
  | .ite c => SoundD δ FTop c
  | .ret e => SoundD δ FTop e
  | .sub _ _ _ _ rhe => SoundD δ FTop rhe
  | .ceq l r => SoundD δ FTop l ∧ SoundD δ FTop r
  | .log args => ∀ e, LogArg.expr e ∈ args → SoundD δ FTop e
  | .assert e => SoundD δ FTop e

def declStep (ty : VType) (acc : DegEnv × Bool) (n : VName) : DegEnv × Bool :=
  let (env, c) := acc
  let (env, c) :=
    if ty != VType.local_ then
      if c then (env, true) else env.setDegree n (1, 1)
    else (env, c)
  (env.setType n ty, c)

theorem degStmt_decl (env : DegEnv) (names : List VName) (ty : VType) (dims : List Expr) :
    degStmt env (.decl names ty dims) =
      (.decl names ty dims, (names.foldl (declStep ty) (env, false)).1, (names.foldl (declStep ty) (env, false)).2) := rfl

/-- what the declaration fold does to the environment -/
theorem declFold (ty : VType) : ∀ (names : List VName) (env : DegEnv) (c : Bool),
    let r := names.foldl (declStep ty) (env, c)
    (∀ w, env.degree w ≠ none → r.1.degree w ≠ none) ∧
    (∀ w rg, r.1.degree w = some rg → env.degree w = some rg ∨ (ty ≠ VType.local_ ∧ w ∈ names ∧ rg = (1, 1))) ∧
    (∀ w, r.1.isAssigned w = env.isAssigned w) ∧
    (∀ w, r.1.isLocal w = true → env.isLocal w = true ∨ (w ∈ names ∧ ty = VType.local_)) ∧
    (r.2 = false → c = false ∧ (ty ≠ VType.local_ → ∀ n, n ∈ names → r.1.degree n ≠ none)) := by
  intro names
  induction names with
  | nil =>
    intro env c
    refine ⟨fun _ h => h, fun _ _ h => Or.inl h, fun _ => rfl, fun _ h => Or.inl h, fun h => ⟨h, fun _ n hn => by cases hn⟩⟩
  | cons n rest ih =>
    intro env c
    simp only [List.foldl_cons]
    -- one step
    have hstep : ∃ env₁ c₁, declStep ty (env, c) n = (env₁, c₁) ∧
        (∀ w, env.degree w ≠ none → env₁.degree w ≠ none) ∧
        (∀ w rg, env₁.degree w = some rg → env.degree w = some rg ∨ (ty ≠ VType.local_ ∧ w = n ∧ rg = (1, 1))) ∧
        (∀ w, env₁.isAssigned w = env.isAssigned w) ∧
        (∀ w, env₁.isLocal w = true → env.isLocal w = true ∨ (w = n ∧ ty = VType.local_)) ∧
        (c₁ = false → c = false ∧ (ty ≠ VType.local_ → env₁.degree n ≠ none)) := by
      by_cases hty : ty = VType.local_
      · refine ⟨env.setType n ty, c, by simp [declStep, hty], ?_, ?_, ?_, ?_, ?_⟩
        · intro w h; rw [degree_setType]; exact h
        · intro w rg h; rw [degree_setType] at h; exact Or.inl h
        · intro w; rw [isAssigned_setType]
        · intro w h
          rcases isLocal_setType env n w ty h with ⟨h1, h2⟩ | h1
          · exact Or.inr ⟨h1, h2⟩
          · exact Or.inl h1
        · intro h; exact ⟨h, fun hne => absurd hty hne⟩
      · have hne : (ty != VType.local_) = true := by simpa using hty
        cases c with
        | true =>
          refine ⟨env.setType n ty, true, by simp [declStep, hne], ?_, ?_, ?_, ?_, ?_⟩
          · intro w h; rw [degree_setType]; exact h
          · intro w rg h; rw [degree_setType] at h; exact Or.inl h
          · intro w; rw [isAssigned_setType]
          · intro w h
            rcases isLocal_setType env n w ty h with ⟨h1, h2⟩ | h1
            · exact Or.inr ⟨h1, h2⟩
            · exact Or.inl h1
          · intro h; cases h
        | false =>
          refine ⟨(env.setDegree n (1, 1)).1.setType n ty, (env.setDegree n (1, 1)).2, by simp [declStep, hne], ?_, ?_, ?_, ?_, ?_⟩
          · intro w h; rw [degree_setType, degree_setDegree]; split
            · simp
            · exact h
          · intro w rg h
            rw [degree_setType, degree_setDegree] at h
            split at h
            · rename_i hw; cases h; exact Or.inr ⟨hty, hw, rfl⟩
            · exact Or.inl h
          · intro w; rw [isAssigned_setType, isAssigned_setDegree]
          · intro w h
            rcases isLocal_setType _ n w ty h with ⟨h1, h2⟩ | h1
            · exact Or.inr ⟨h1, h2⟩
            · rw [isLocal_setDegree] at h1; exact Or.inl h1
          · intro h
            refine ⟨rfl, fun _ => ?_⟩
            rw [degree_setType, degree_setDegree]; simp
    obtain ⟨env₁, c₁, heq, s1, s2, s3, s4, s5⟩ := hstep
    rw [heq]
    obtain ⟨i1, i2, i3, i4, i5⟩ := ih env₁ c₁
    refine ⟨fun w h => i1 w (s1 w h), ?_, fun w => by rw [i3 w, s3 w], ?_, ?_⟩
    · intro w rg h
      rcases i2 w rg h with h1 | ⟨h1, h2, h3⟩
      · rcases s2 w rg h1 with h4 | ⟨h4, h5, h6⟩
        · exact Or.inl h4
        · exact Or.inr ⟨h4, by rw [h5]; exact List.mem_cons_self, h6⟩
      · exact Or.inr ⟨h1, List.mem_cons_of_mem _ h2, h3⟩
    · intro w h
      rcases i4 w h with h1 | ⟨h1, h2⟩
      · rcases s4 w h1 with h3 | ⟨h3, h4⟩
        · exact Or.inl h3
        · exact Or.inr ⟨by rw [h3]; exact List.mem_cons_self, h4⟩
      · exact Or.inr ⟨List.mem_cons_of_mem _ h1, h2⟩
    · intro h
      obtain ⟨h1, h2⟩ := i5 h
      obtain ⟨h3, h4⟩ := s5 h1
      refine ⟨h3, fun hne m hm => ?_⟩
      rcases List.mem_cons.mp hm with hm | hm
      · subst hm; exact i1 _ (h4 hne)
      · exact h2 hne m hm

def logStepD (env : DegEnv) (acc : List LogArg × Bool) (x : LogArg) : List LogArg × Bool :=
  match x with
  | .str => (acc.1 ++ [.str], acc.2)
  | .expr e => let (e', c) := if acc.2 then (e, true) else degExpr env e; (acc.1 ++ [.expr e'], c)

theorem degStmt_log (env : DegEnv) (args : List LogArg) :
    degStmt env (.log args) =
      (.log (args.foldl (logStepD env) ([], false)).1, env, (args.foldl (logStepD env) ([], false)).2) := by
  simp only [degStmt]
  rfl

theorem logFoldD_inv (env : DegEnv) (Q : Expr → Prop) (hQ : ∀ e, Q e → Q (degExpr env e).1) :
    ∀ (l : List LogArg) (acc : List LogArg × Bool), (∀ e, LogArg.expr e ∈ acc.1 → Q e) → (∀ e, LogArg.expr e ∈ l → Q e) →
      ∀ e, LogArg.expr e ∈ (l.foldl (logStepD env) acc).1 → Q e := by
  intro l
  induction l with
  | nil => intro acc h1 _ e he; exact h1 e he
  | cons x r ih =>
    intro acc h1 h2 e he
    simp only [List.foldl_cons] at he
    apply ih (logStepD env acc x) _ (fun e he => h2 e (List.mem_cons_of_mem _ he)) e he
    intro e' he'
    cases x with
    | str =>
      simp only [logStepD, List.mem_append, List.mem_singleton] at he'
      rcases he' with h | h
      · exact h1 e' h
      · cases h
    | expr x =>
      unfold logStepD at he'
      cases hc : acc.2 with
      | true =>
        simp only [hc, if_true, List.mem_append, List.mem_singleton] at he'
        rcases he' with h | h
        · exact h1 e' h
        · cases h; exact h2 _ List.mem_cons_self
      | false =>
        simp only [hc, Bool.false_eq_true, if_false, List.mem_append, List.mem_singleton] at he'
        rcases he' with h | h
        · exact h1 e' h
        · cases h; exact hQ _ (h2 _ List.mem_cons_self)

theorem logFoldD_erase (env : DegEnv) :
    ∀ (l : List LogArg) (acc : List LogArg × Bool),
      (l.foldl (logStepD env) acc).1.map eraseL = acc.1.map eraseL ++ l.map eraseL := by
  intro l
  induction l with
  | nil => intro acc; simp
  | cons x r ih =>
    intro acc
    simp only [List.foldl_cons]
    rw [ih]
    cases x with
    | str => simp [logStepD, eraseL]
    | expr e =>
      unfold logStepD
      cases hc : acc.2 with
      | true => simp [hc, eraseL]
      | false => simp [hc, eraseL, erase_degExpr]

/-- the environment a substitution evaluates its right-hand side in: the target is marked assigned first -/
def subEnv (env : DegEnv) (v : VName) : DegEnv :=
  { env with assigned := if env.assigned.contains v then env.assigned else v :: env.assigned }

theorem degree_subEnv (env : DegEnv) (v w : VName) : (subEnv env v).degree w = env.degree w := rfl
theorem isLocal_subEnv (env : DegEnv) (v w : VName) : (subEnv env v).isLocal w = env.isLocal w := rfl
theorem isAssigned_subEnv_self (env : DegEnv) (v : VName) : (subEnv env v).isAssigned v = true := by
  unfold subEnv DegEnv.isAssigned
  by_cases h : env.assigned.contains v = true
  · simp only [h, if_true]
  · simp only [h, List.contains_cons, beq_self_eq_true, Bool.true_or]; simp
theorem isAssigned_subEnv_mono (env : DegEnv) (v w : VName) (h : env.isAssigned w = true) :
    (subEnv env v).isAssigned w = true := by
  unfold subEnv DegEnv.isAssigned at *
  by_cases hc : env.assigned.contains v = true
  · simp only [hc, if_true]; exact h
  · have : (if env.assigned.contains v = true then env.assigned else v :: env.assigned) = v :: env.assigned := by
      simp only [hc]; rfl
    rw [this, List.contains_cons, h, Bool.or_true]
theorem isAssigned_subEnv_false (env : DegEnv) (v w : VName) (h : (subEnv env v).isAssigned w = false) :
    env.isAssigned w = false := by
  cases h' : env.isAssigned w with
  | false => rfl
  | true => rw [isAssigned_subEnv_mono env v w h'] at h; cases h

/-- `degStmt` on a substitution, case by case -/
theorem degStmt_sub (env : DegEnv) (a : Ann) (v : VName) (ty : Option VType) (op : String) (rhe : Expr) :
    degStmt env (.sub a v ty op rhe) =
      let env₁ := subEnv env v
      let r := degExpr env₁ rhe
      if env₁.isLocal v then
        match r.1.ann.deg with
        | some rg =>
          if r.2 then (.sub a v ty op r.1, env₁, true)
          else (.sub a v ty op r.1, (env₁.setDegree v rg).1, (env₁.setDegree v rg).2)
        | none => (.sub a v ty op r.1, env₁, r.2)
      else (.sub a v ty op r.1, env₁, r.2) := rfl

theorem degStmt_sub_fst (env : DegEnv) (a : Ann) (v : VName) (ty : Option VType) (op : String) (rhe : Expr) :
    (degStmt env (.sub a v ty op rhe)).1 = .sub a v ty op (degExpr (subEnv env v) rhe).1 := by
  rw [degStmt_sub]
  simp only
  split
  · split
    · split <;> rfl
    · rfl
  · rfl

/-- degree propagation changes annotations only, statement level -/
theorem eraseS_degStmt (env : DegEnv) (s : Stmt) : eraseS (degStmt env s).1 = eraseS s := by
  cases s with
  | decl names ty dims => rw [degStmt_decl]
  | ite c => simp only [degStmt, eraseS, erase_degExpr]
  | ret e => simp only [degStmt, eraseS, erase_degExpr]
  | sub a v ty op rhe => rw [degStmt_sub_fst]; simp only [eraseS, erase_degExpr]
  | ceq l r =>
    simp only [degStmt]
    cases hc : (degExpr env l).2 with
    | true => simp only [if_true, eraseS, erase_degExpr]
    | false => simp only [Bool.false_eq_true, if_false, eraseS, erase_degExpr]
  | log args =>
    rw [degStmt_log]; simp only [eraseS]; rw [logFoldD_erase]; simp
  | assert e => simp only [degStmt, eraseS, erase_degExpr]

-- ---------------------------------------------------------------------------- the global invariant

/-- `M`: the statements currently in the CFG (a superset is harmless); `Done`: the (erased) statements
    that some pass has visited without any change -/
structure GInvD (E : List Stmt) (ps : List VName) (fn : Bool) (env : DegEnv) (M Done : Stmt → Prop) : Prop where
  linked : ∀ s, M s → eraseS s ∈ E
  bound : ∀ δ, ReachD E ps fn δ → ∀ v r, env.degree v = some r → δ v ≤ r.2 ∧ r.2 ≤ 3
  doneSub : ∀ t, Done t → ∀ v, defVar t = some v → env.isAssigned v = true
  doneDecl : ∀ t, Done t → ∀ v, declaresNL t v → env.degree v ≠ none
  params : ∀ v, v ∈ ps → env.degree v ≠ none
  localOnly : ∀ v, env.isLocal v = true → LocalDecl E v ∨ v ∈ ps
  sound : ∀ δ, ReachD E ps fn δ → ∀ s, M s → SoundSD δ s

/-- what the positional hypothesis gives for the statement being visited -/
def PreOK (E : List Stmt) (Done : Stmt → Prop) (B : List VName) : Prop :=
  ∀ v, v ∈ B → (HasSub E v → ¬ NonLocal E v → ∃ t, Done t ∧ defVar t = some v) ∧ (NonLocal E v → ∃ t, Done t ∧ declaresNL t v)

/-- in every reachable state the environment agrees, with freshness for the update bases `B` -/
theorem agreeD_of {E : List Stmt} {ps : List VName} {fn : Bool} {env : DegEnv} {M Done : Stmt → Prop}
    (h : GInvD E ps fn env M Done) (env₁ : DegEnv)
    (hdeg : ∀ w, env₁.degree w = env.degree w) (hasg : ∀ w, env.isAssigned w = true → env₁.isAssigned w = true)
    (B : List VName) (hpre : PreOK E Done B) :
    ∀ δ, ReachD E ps fn δ → AgreeD δ env₁ (fun v => v ∈ B) := by
  intro δ hr
  refine ⟨fun v r hv => h.bound δ hr v r (by rw [← hdeg]; exact hv), ?_, reachD_le3 E ps fn δ hr⟩
  intro v hvB hnone hna
  rw [hdeg] at hnone
  obtain ⟨p1, p2⟩ := hpre v hvB
  have hnl : ¬ NonLocal E v := by
    intro hn
    obtain ⟨t, ht, hd⟩ := p2 hn
    exact h.doneDecl t ht v hd hnone
  have hns : ¬ HasSub E v := by
    intro hs
    obtain ⟨t, ht, hd⟩ := p1 hs hnl
    have := hasg v (h.doneSub t ht v hd)
    rw [this] at hna; cases hna
  have hnp : v ∉ ps := fun hp => h.params v hp hnone
  rcases reachD_origin E ps fn δ hr v hnl hnp with h0 | ⟨δ₁, a, ty, op, rhe, _, hmem, _⟩
  · exact h0
  · exact absurd ⟨_, hmem, rfl⟩ hns

theorem preOK_mono {E : List Stmt} {Done : Stmt → Prop} {B B' : List VName} (h : PreOK E Done B)
    (hsub : ∀ v, v ∈ B' → v ∈ B) : PreOK E Done B' := fun v hv => h v (hsub v hv)

/-- an expression of the visited statement: sound before ⇒ sound after, in every reachable state -/
theorem expr_step {E : List Stmt} {ps : List VName} {fn : Bool} {env : DegEnv} {M Done : Stmt → Prop}
    (h : GInvD E ps fn env M Done) (env₁ : DegEnv)
    (hdeg : ∀ w, env₁.degree w = env.degree w) (hasg : ∀ w, env.isAssigned w = true → env₁.isAssigned w = true)
    (e : Expr) (hpre : PreOK E Done (basesE e)) :
    ∀ δ, ReachD E ps fn δ → SoundD δ FTop e → SoundD δ FTop (degExpr env₁ e).1 := by
  intro δ hr hs
  have hag := agreeD_of h env₁ hdeg hasg (basesE e) hpre δ hr
  have h1 := soundD_restrict δ FTop (fun v => v ∈ basesE e) e hs (fun _ hv => hv)
  exact soundD_top' δ _ _ (degExpr_sound δ _ env₁ hag e h1)

theorem le_maxList (l : List Nat) (x : Nat) (h : x ∈ l) : x ≤ maxList l := by
  induction l with
  | nil => cases h
  | cons y r ih =>
    simp only [maxList]
    rcases List.mem_cons.mp h with h | h
    · subst h; omega
    · have := ih h; omega

/-- processing one statement keeps the invariant; the statement becomes `Done` if nothing changed -/
theorem microD (E : List Stmt) (ps : List VName) (fn : Bool) (wf : WfD E ps) (env : DegEnv) (M Done : Stmt → Prop)
    (h : GInvD E ps fn env M Done) (s : Stmt) (hs : M s) (hpre : PreOK E Done (basesS s)) :
    GInvD E ps fn (degStmt env s).2.1 (fun t => M t ∨ t = (degStmt env s).1)
      (fun t => Done t ∨ ((degStmt env s).2.2 = false ∧ t = eraseS s)) := by
  have hlink := h.linked s hs
  cases s with
  | decl names ty dims =>
    rw [degStmt_decl]
    simp only
    obtain ⟨f1, f2, f3, f4, f5⟩ := declFold ty names env false
    have hdeclE : Stmt.decl names ty (dims.map erase) ∈ E := by simpa [eraseS] using hlink
    refine ⟨?_, ?_, ?_, ?_, ?_, ?_, ?_⟩
    · intro t ht; rcases ht with ht | ht
      · exact h.linked t ht
      · subst ht; exact hlink
    · intro δ hr v r hv
      rcases f2 v r hv with h1 | ⟨h1, h2, h3⟩
      · exact h.bound δ hr v r h1
      · subst h3
        have : δ v = 1 := reachD_nonlocal E ps fn δ hr v ⟨_, hdeclE, h1, h2⟩
        simp [this]
    · intro t ht v hd
      rw [f3]
      rcases ht with ht | ⟨_, ht⟩
      · exact h.doneSub t ht v hd
      · subst ht; simp [eraseS, defVar] at hd
    · intro t ht v hd
      rcases ht with ht | ⟨hc, ht⟩
      · exact f1 v (h.doneDecl t ht v hd)
      · subst ht
        simp only [eraseS, declaresNL] at hd
        exact (f5 hc).2 hd.1 v hd.2
    · intro v hv; exact f1 v (h.params v hv)
    · intro v hv
      rcases f4 v hv with h1 | ⟨h1, h2⟩
      · exact h.localOnly v h1
      · exact Or.inl ⟨_, hdeclE, h2, h1⟩
    · intro δ hr t ht
      rcases ht with ht | ht
      · exact h.sound δ hr t ht
      · subst ht; exact h.sound δ hr _ hs
  | sub a v ty op rhe =>
    have hsubE : Stmt.sub {} v ty op (erase rhe) ∈ E := by simpa [eraseS] using hlink
    have hpreE : PreOK E Done (basesE rhe) := by simpa [basesS] using hpre
    have hstep := expr_step h (subEnv env v) (degree_subEnv env v) (isAssigned_subEnv_mono env v) rhe hpreE
    have hsound : ∀ δ, ReachD E ps fn δ → SoundD δ FTop (degExpr (subEnv env v) rhe).1 := by
      intro δ hr
      have := h.sound δ hr _ hs
      unfold SoundSD at this
      exact hstep δ hr this
    -- facts that hold for all three possible result environments
    have hfst := degStmt_sub_fst env a v ty op rhe
    -- describe the resulting environment
    have henv : (degStmt env (.sub a v ty op rhe)).2.1 = subEnv env v ∨
        (∃ rg, (degExpr (subEnv env v) rhe).1.ann.deg = some rg ∧ (subEnv env v).isLocal v = true ∧
          (degStmt env (.sub a v ty op rhe)).2.1 = ((subEnv env v).setDegree v rg).1) := by
      rw [degStmt_sub]
      simp only
      split
      · rename_i hl
        split
        · rename_i rg hrg
          split
          · exact Or.inl rfl
          · exact Or.inr ⟨rg, hrg, hl, rfl⟩
        · exact Or.inl rfl
      · exact Or.inl rfl
    -- the degree of the new environment
    have hdeg' : ∀ w r, (degStmt env (.sub a v ty op rhe)).2.1.degree w = some r →
        env.degree w = some r ∨ (w = v ∧ (degExpr (subEnv env v) rhe).1.ann.deg = some r ∧ (subEnv env v).isLocal v = true) := by
      intro w r hw
      rcases henv with he | ⟨rg, hrg, hl, he⟩
      · rw [he, degree_subEnv] at hw; exact Or.inl hw
      · rw [he, degree_setDegree] at hw
        split at hw
        · rename_i hwv; cases hw; exact Or.inr ⟨hwv, hrg, hl⟩
        · rw [degree_subEnv] at hw; exact Or.inl hw
    have hmono : ∀ w, env.degree w ≠ none → (degStmt env (.sub a v ty op rhe)).2.1.degree w ≠ none := by
      intro w hw
      rcases henv with he | ⟨rg, hrg, hl, he⟩
      · rw [he, degree_subEnv]; exact hw
      · rw [he, degree_setDegree]; split
        · simp
        · rw [degree_subEnv]; exact hw
    have hasg' : ∀ w, (degStmt env (.sub a v ty op rhe)).2.1.isAssigned w = (subEnv env v).isAssigned w := by
      intro w
      rcases henv with he | ⟨rg, hrg, hl, he⟩
      · rw [he]
      · rw [he, isAssigned_setDegree]
    have hloc' : ∀ w, (degStmt env (.sub a v ty op rhe)).2.1.isLocal w = env.isLocal w := by
      intro w
      rcases henv with he | ⟨rg, hrg, hl, he⟩
      · rw [he, isLocal_subEnv]
      · rw [he, isLocal_setDegree, isLocal_subEnv]
    refine ⟨?_, ?_, ?_, ?_, ?_, ?_, ?_⟩
    · intro t ht; rcases ht with ht | ht
      · exact h.linked t ht
      · subst ht; rw [eraseS_degStmt]; exact hlink
    · -- the bound of the new environment
      intro δ hr w r hw
      rcases hdeg' w r hw with h1 | ⟨h1, h2, h3⟩
      · exact h.bound δ hr w r h1
      · subst h1
        rw [isLocal_subEnv] at h3
        have hcl := soundD_top δ FTop _ (hsound δ hr) r h2
        refine ⟨?_, hcl.2⟩
        -- `w` is a declared local, not a parameter: its degree is 0 or was produced by this substitution
        have hnp : w ∉ ps := fun hp => wf.params w hp ⟨_, hsubE, rfl⟩
        have hnl : ¬ NonLocal E w := by
          intro hn
          rcases h.localOnly w h3 with hl | hp
          · exact (wf.types w hn).1 hl
          · exact hnp hp
        rcases reachD_origin E ps fn δ hr w hnl hnp with h0 | ⟨δ₁, a₁, ty₁, op₁, rhe₁, hr₁, hmem₁, hle⟩
        · omega
        · have heq : Stmt.sub a₁ w ty₁ op₁ rhe₁ = Stmt.sub {} w ty op (erase rhe) := by
            rcases wf.single _ _ hmem₁ hsubE w rfl rfl with h | h
            · exact h
            · exact absurd h hnl
          simp only [Stmt.sub.injEq] at heq
          obtain ⟨_, _, _, _, h5⟩ := heq
          subst h5
          have hcl₁ := soundD_top δ₁ FTop _ (hsound δ₁ hr₁) r h2
          rw [degE_degExpr, ← degE_erase] at hcl₁
          omega
    · intro t ht w hd
      rw [hasg']
      rcases ht with ht | ⟨_, ht⟩
      · exact isAssigned_subEnv_mono env v w (h.doneSub t ht w hd)
      · subst ht
        simp only [eraseS, defVar, Option.some.injEq] at hd
        subst hd
        exact isAssigned_subEnv_self env v
    · intro t ht w hd
      rcases ht with ht | ⟨_, ht⟩
      · exact hmono w (h.doneDecl t ht w hd)
      · subst ht; simp [eraseS, declaresNL] at hd
    · intro w hw; exact hmono w (h.params w hw)
    · intro w hw; rw [hloc'] at hw; exact h.localOnly w hw
    · intro δ hr t ht
      rcases ht with ht | ht
      · exact h.sound δ hr t ht
      · subst ht
        rw [hfst]
        unfold SoundSD
        exact hsound δ hr
  | ite c =>
    have hpreE : PreOK E Done (basesE c) := by simpa [basesS] using hpre
    have hstep := expr_step h env (fun _ => rfl) (fun _ h => h) c hpreE
    simp only [degStmt]
    refine ⟨?_, h.bound, ?_, ?_, h.params, h.localOnly, ?_⟩
    · intro t ht; rcases ht with ht | ht
      · exact h.linked t ht
      · subst ht; simpa [eraseS, erase_degExpr] using hlink
    · intro t ht w hd
      rcases ht with ht | ⟨_, ht⟩
      · exact h.doneSub t ht w hd
      · subst ht; simp [eraseS, defVar] at hd
    · intro t ht w hd
      rcases ht with ht | ⟨_, ht⟩
      · exact h.doneDecl t ht w hd
      · subst ht; simp [eraseS, declaresNL] at hd
    · intro δ hr t ht
      rcases ht with ht | ht
      · exact h.sound δ hr t ht
      · subst ht
        have := h.sound δ hr _ hs
        unfold SoundSD at this ⊢
        exact hstep δ hr this
  | ret e =>
    have hpreE : PreOK E Done (basesE e) := by simpa [basesS] using hpre
    have hstep := expr_step h env (fun _ => rfl) (fun _ h => h) e hpreE
    simp only [degStmt]
    refine ⟨?_, h.bound, ?_, ?_, h.params, h.localOnly, ?_⟩
    · intro t ht; rcases ht with ht | ht
      · exact h.linked t ht
      · subst ht; simpa [eraseS, erase_degExpr] using hlink
    · intro t ht w hd
      rcases ht with ht | ⟨_, ht⟩
      · exact h.doneSub t ht w hd
      · subst ht; simp [eraseS, defVar] at hd
    · intro t ht w hd
      rcases ht with ht | ⟨_, ht⟩
      · exact h.doneDecl t ht w hd
      · subst ht; simp [eraseS, declaresNL] at hd
    · intro δ hr t ht
      rcases ht with ht | ht
      · exact h.sound δ hr t ht
      · subst ht
        have := h.sound δ hr _ hs
        unfold SoundSD at this ⊢
        exact hstep δ hr this
  | assert e =>
    have hpreE : PreOK E Done (basesE e) := by simpa [basesS] using hpre
    have hstep := expr_step h env (fun _ => rfl) (fun _ h => h) e hpreE
    simp only [degStmt]
    refine ⟨?_, h.bound, ?_, ?_, h.params, h.localOnly, ?_⟩
    · intro t ht; rcases ht with ht | ht
      · exact h.linked t ht
      · subst ht; simpa [eraseS, erase_degExpr] using hlink
    · intro t ht w hd
      rcases ht with ht | ⟨_, ht⟩
      · exact h.doneSub t ht w hd
      · subst ht; simp [eraseS, defVar] at hd
    · intro t ht w hd
      rcases ht with ht | ⟨_, ht⟩
      · exact h.doneDecl t ht w hd
      · subst ht; simp [eraseS, declaresNL] at hd
    · intro δ hr t ht
      rcases ht with ht | ht
      · exact h.sound δ hr t ht
      · subst ht
        have := h.sound δ hr _ hs
        unfold SoundSD at this ⊢
        exact hstep δ hr this
  | ceq l r =>
    have hpl : PreOK E Done (basesE l) := preOK_mono hpre (by intro v hv; simp [basesS, hv])
    have hpr : PreOK E Done (basesE r) := preOK_mono hpre (by intro v hv; simp [basesS, hv])
    have hl := expr_step h env (fun _ => rfl) (fun _ h => h) l hpl
    have hr' := expr_step h env (fun _ => rfl) (fun _ h => h) r hpr
    refine ⟨?_, ?_, ?_, ?_, ?_, ?_, ?_⟩
    · intro t ht; rcases ht with ht | ht
      · exact h.linked t ht
      · subst ht; rw [eraseS_degStmt]; exact hlink
    · simpa [degStmt] using h.bound
    · intro t ht w hd
      have : (degStmt env (.ceq l r)).2.1 = env := by simp [degStmt]
      rw [this]
      rcases ht with ht | ⟨_, ht⟩
      · exact h.doneSub t ht w hd
      · subst ht; simp [eraseS, defVar] at hd
    · intro t ht w hd
      have : (degStmt env (.ceq l r)).2.1 = env := by simp [degStmt]
      rw [this]
      rcases ht with ht | ⟨_, ht⟩
      · exact h.doneDecl t ht w hd
      · subst ht; simp [eraseS, declaresNL] at hd
    · simpa [degStmt] using h.params
    · simpa [degStmt] using h.localOnly
    · intro δ hr t ht
      rcases ht with ht | ht
      · exact h.sound δ hr t ht
      · subst ht
        have := h.sound δ hr _ hs
        unfold SoundSD at this
        simp only [degStmt]
        cases hc : (degExpr env l).2 with
        | true => simp only [if_true]; unfold SoundSD; exact ⟨hl δ hr this.1, this.2⟩
        | false => simp only [Bool.false_eq_true, if_false]; unfold SoundSD; exact ⟨hl δ hr this.1, hr' δ hr this.2⟩
  | log args =>
    rw [degStmt_log]
    simp only
    refine ⟨?_, h.bound, ?_, ?_, h.params, h.localOnly, ?_⟩
    · intro t ht; rcases ht with ht | ht
      · exact h.linked t ht
      · subst ht
        simp only [eraseS] at hlink ⊢
        rw [logFoldD_erase]; simpa using hlink
    · intro t ht w hd
      rcases ht with ht | ⟨_, ht⟩
      · exact h.doneSub t ht w hd
      · subst ht; simp [eraseS, defVar] at hd
    · intro t ht w hd
      rcases ht with ht | ⟨_, ht⟩
      · exact h.doneDecl t ht w hd
      · subst ht; simp [eraseS, declaresNL] at hd
    · intro δ hr t ht
      rcases ht with ht | ht
      · exact h.sound δ hr t ht
      · subst ht
        have hold := h.sound δ hr _ hs
        unfold SoundSD at hold ⊢
        intro e he
        -- every expression of the fold result is sound and has its update bases among those of the statement
        have := logFoldD_inv env (fun e => SoundD δ FTop e ∧ (∀ v, v ∈ basesE e → v ∈ basesS (.log args)))
          (by
            intro e ⟨h1, h2⟩
            refine ⟨expr_step h env (fun _ => rfl) (fun _ h => h) e (preOK_mono hpre h2) δ hr h1, ?_⟩
            intro v hv
            have : basesE (degExpr env e).1 = basesE e := by
              rw [← basesE_erase, erase_degExpr, basesE_erase]
            rw [this] at hv; exact h2 v hv)
          args ([], false) (by intro e he; simp at he)
          (by
            intro e he
            refine ⟨hold e he, ?_⟩
            intro v hv
            simp only [basesS, List.mem_flatMap]
            exact ⟨.expr e, he, by simpa [basesL] using hv⟩)
          e he
        exact this.1

-- ---------------------------------------------------------------------------- passes and the loop

def passStepD (acc : List Stmt × DegEnv × Bool) (s : Stmt) : List Stmt × DegEnv × Bool :=
  let (done, env, c) := acc
  if c then (done ++ [s], env, true)
  else let (s', env', c') := degStmt env s; (done ++ [s'], env', c')

def blockStepD (all : List Block) (acc : List Block × DegEnv × Bool) (b : Block) : List Block × DegEnv × Bool :=
  let (bs, env, c) := acc
  if c then (bs ++ [b], env, true)
  else
    let (ss, env', c') := b.stmts.foldl passStepD ([], setJoin all env b, false)
    (bs ++ [{ b with stmts := ss }], env', c')

theorem degPass_eq (env : DegEnv) (bs : List Block) : degPass env bs = bs.foldl (blockStepD bs) ([], env, false) := rfl

/-- marking the join as conditional changes nothing the invariant speaks about -/
theorem ginvD_setJoin {E : List Stmt} {ps : List VName} {fn : Bool} {env : DegEnv} {M Done : Stmt → Prop}
    (all : List Block) (b : Block) (h : GInvD E ps fn env M Done) : GInvD E ps fn (setJoin all env b) M Done :=
  ⟨h.linked, h.bound, h.doneSub, h.doneDecl, h.params, h.localOnly, h.sound⟩

theorem passStepD_true (rest : List Stmt) : ∀ (done : List Stmt) (env : DegEnv),
    rest.foldl passStepD (done, env, true) = (done ++ rest, env, true) := by
  induction rest with
  | nil => intro done env; simp
  | cons s r ih =>
    intro done env
    simp only [List.foldl_cons]
    have : passStepD (done, env, true) s = (done ++ [s], env, true) := rfl
    rw [this, ih]; simp

theorem blockStepD_true (all rest : List Block) : ∀ (done : List Block) (env : DegEnv),
    rest.foldl (blockStepD all) (done, env, true) = (done ++ rest, env, true) := by
  induction rest with
  | nil => intro done env; simp
  | cons s r ih =>
    intro done env
    simp only [List.foldl_cons]
    have : blockStepD all (done, env, true) s = (done ++ [s], env, true) := rfl
    rw [this, ih]; simp

theorem posOK_append (E : List Stmt) : ∀ (l₁ l₂ pre : List Stmt),
    PosOK E pre (l₁ ++ l₂) → PosOK E pre l₁ ∧ PosOK E (pre ++ l₁) l₂ := by
  intro l₁
  induction l₁ with
  | nil => intro l₂ pre h; exact ⟨trivial, by simpa using h⟩
  | cons s r ih =>
    intro l₂ pre h
    simp only [List.cons_append, PosOK] at h ⊢
    obtain ⟨i1, i2⟩ := ih l₂ (pre ++ [s]) h.2
    exact ⟨⟨h.1, i1⟩, by simpa using i2⟩

theorem stmts_foldD (E : List Stmt) (ps : List VName) (fn : Bool) (wf : WfD E ps) :
    ∀ (rest done : List Stmt) (env : DegEnv) (c : Bool) (M Done : Stmt → Prop) (pre : List Stmt),
      GInvD E ps fn env M Done → (∀ t, t ∈ done → M t) → (∀ t, t ∈ rest → M t) →
      PosOK E pre (rest.map eraseS) → (c = false → ∀ t, t ∈ pre → Done t) →
      ∃ M' Done' : Stmt → Prop, (∀ t, M t → M' t) ∧
        GInvD E ps fn (rest.foldl passStepD (done, env, c)).2.1 M' Done' ∧
        (∀ t, t ∈ (rest.foldl passStepD (done, env, c)).1 → M' t) ∧
        ((rest.foldl passStepD (done, env, c)).2.2 = false → ∀ t, t ∈ pre ++ rest.map eraseS → Done' t) ∧
        (rest.foldl passStepD (done, env, c)).1.map eraseS = done.map eraseS ++ rest.map eraseS := by
  intro rest
  induction rest with
  | nil =>
    intro done env c M Done pre h hd _ _ hpre
    exact ⟨M, Done, fun _ h => h, h, hd, by simpa using hpre, by simp⟩
  | cons s r ih =>
    intro done env c M Done pre h hd hr hpos hpre
    cases c with
    | true =>
      rw [passStepD_true]
      refine ⟨M, Done, fun _ h => h, h, ?_, ?_, by simp⟩
      · intro t ht
        rcases List.mem_append.mp ht with h1 | h1
        · exact hd t h1
        · exact hr t h1
      · intro hc; cases hc
    | false =>
      simp only [List.foldl_cons]
      have hstep : passStepD (done, env, false) s =
          (done ++ [(degStmt env s).1], (degStmt env s).2.1, (degStmt env s).2.2) := rfl
      rw [hstep]
      simp only [List.map_cons, PosOK] at hpos
      have hp : PreOK E Done (basesS s) := by
        intro v hv
        obtain ⟨p1, p2⟩ := hpos.1 v (by rw [basesS_eraseS]; exact hv)
        refine ⟨fun hs hnl => ?_, fun hn => ?_⟩
        · obtain ⟨t, ht, hd⟩ := p1 hs hnl; exact ⟨t, hpre rfl t ht, hd⟩
        · obtain ⟨t, ht, hd⟩ := p2 hn; exact ⟨t, hpre rfl t ht, hd⟩
      have hm := microD E ps fn wf env M Done h s (hr _ List.mem_cons_self) hp
      obtain ⟨M', Done', h1, h2, h3, h4, h5⟩ := ih (done ++ [(degStmt env s).1]) (degStmt env s).2.1 (degStmt env s).2.2
        (fun t => M t ∨ t = (degStmt env s).1) (fun t => Done t ∨ ((degStmt env s).2.2 = false ∧ t = eraseS s))
        (pre ++ [eraseS s]) hm
        (by
          intro t ht
          rcases List.mem_append.mp ht with h1 | h1
          · exact Or.inl (hd t h1)
          · simp only [List.mem_singleton] at h1; exact Or.inr h1)
        (fun t ht => Or.inl (hr t (List.mem_cons_of_mem _ ht)))
        hpos.2
        (by
          intro hc t ht
          rcases List.mem_append.mp ht with h1 | h1
          · exact Or.inl (hpre rfl t h1)
          · simp only [List.mem_singleton] at h1; exact Or.inr ⟨hc, h1⟩)
      refine ⟨M', Done', fun t ht => h1 t (Or.inl ht), h2, h3, ?_, ?_⟩
      · intro hc t ht
        apply h4 hc
        simpa [List.append_assoc] using ht
      · rw [h5]; simp [eraseS_degStmt]

theorem blocks_foldD (E : List Stmt) (ps : List VName) (fn : Bool) (wf : WfD E ps) (all : List Block) :
    ∀ (rest done : List Block) (env : DegEnv) (c : Bool) (M Done : Stmt → Prop) (pre : List Stmt),
      GInvD E ps fn env M Done → (∀ t, t ∈ stmtsOf done → M t) → (∀ t, t ∈ stmtsOf rest → M t) →
      PosOK E pre ((stmtsOf rest).map eraseS) → (c = false → ∀ t, t ∈ pre → Done t) →
      ∃ M' Done' : Stmt → Prop, (∀ t, M t → M' t) ∧
        GInvD E ps fn (rest.foldl (blockStepD all) (done, env, c)).2.1 M' Done' ∧
        (∀ t, t ∈ stmtsOf (rest.foldl (blockStepD all) (done, env, c)).1 → M' t) ∧
        (stmtsOf (rest.foldl (blockStepD all) (done, env, c)).1).map eraseS =
          (stmtsOf done).map eraseS ++ (stmtsOf rest).map eraseS := by
  intro rest
  induction rest with
  | nil =>
    intro done env c M Done pre h hd _ _ _
    exact ⟨M, Done, fun _ h => h, h, hd, by simp [stmtsOf]⟩
  | cons b r ih =>
    intro done env c M Done pre h hd hr hpos hpre
    have hb : ∀ t, t ∈ b.stmts → M t := by
      intro t ht; apply hr; simp only [stmtsOf, List.flatMap_cons, List.mem_append]; exact Or.inl ht
    have hr' : ∀ t, t ∈ stmtsOf r → M t := by
      intro t ht; apply hr; simp only [stmtsOf, List.flatMap_cons, List.mem_append]; exact Or.inr ht
    cases c with
    | true =>
      rw [blockStepD_true]
      refine ⟨M, Done, fun _ h => h, h, ?_, by simp [stmtsOf]⟩
      intro t ht
      simp only [stmtsOf, List.flatMap_append, List.mem_append] at ht
      rcases ht with h1 | h1
      · exact hd t h1
      · exact hr t h1
    | false =>
      simp only [List.foldl_cons]
      have hstep : blockStepD all (done, env, false) b =
          (done ++ [{ b with stmts := (b.stmts.foldl passStepD ([], setJoin all env b, false)).1 }],
            (b.stmts.foldl passStepD ([], setJoin all env b, false)).2.1, (b.stmts.foldl passStepD ([], setJoin all env b, false)).2.2) := rfl
      rw [hstep]
      have hsplit : (stmtsOf (b :: r)).map eraseS = b.stmts.map eraseS ++ (stmtsOf r).map eraseS := by
        simp [stmtsOf]
      rw [hsplit] at hpos
      obtain ⟨pos1, pos2⟩ := posOK_append E _ _ pre hpos
      obtain ⟨M₁, Done₁, g1, g2, g3, g4, g5⟩ := stmts_foldD E ps fn wf b.stmts [] (setJoin all env b) false M Done pre (ginvD_setJoin all b h)
        (by intro t ht; simp at ht) hb pos1 hpre
      obtain ⟨M', Done', h1, h2, h3, h4⟩ := ih (done ++ [{ b with stmts := (b.stmts.foldl passStepD ([], setJoin all env b, false)).1 }])
        (b.stmts.foldl passStepD ([], setJoin all env b, false)).2.1 (b.stmts.foldl passStepD ([], setJoin all env b, false)).2.2 M₁ Done₁
        (pre ++ b.stmts.map eraseS) g2
        (by
          intro t ht
          rw [stmtsOf_append] at ht
          rcases List.mem_append.mp ht with h1 | h1
          · exact g1 t (hd t h1)
          · exact g3 t h1)
        (fun t ht => g1 t (hr' t ht))
        pos2 g4
      refine ⟨M', Done', fun t ht => h1 t (g1 t ht), h2, h3, ?_⟩
      rw [h4, stmtsOf_append, List.map_append, g5]
      simp [stmtsOf]

theorem pass_invD (E : List Stmt) (ps : List VName) (fn : Bool) (wf : WfD E ps) (env : DegEnv) (bs : List Block)
    (M Done : Stmt → Prop) (h : GInvD E ps fn env M Done) (hm : ∀ t, t ∈ stmtsOf bs → M t)
    (hE : (stmtsOf bs).map eraseS = E) :
    ∃ M' Done' : Stmt → Prop, GInvD E ps fn (degPass env bs).2.1 M' Done' ∧
      (∀ t, t ∈ stmtsOf (degPass env bs).1 → M' t) ∧ (stmtsOf (degPass env bs).1).map eraseS = E := by
  rw [degPass_eq]
  obtain ⟨M', Done', _, h2, h3, h4⟩ := blocks_foldD E ps fn wf bs bs [] env false M Done [] h
    (by intro t ht; simp [stmtsOf] at ht) hm (by rw [hE]; exact wf.pos) (by intro _ t ht; cases ht)
  refine ⟨M', Done', h2, h3, ?_⟩
  rw [h4, hE]; simp [stmtsOf]

theorem loop_invD (E : List Stmt) (ps : List VName) (fn : Bool) (wf : WfD E ps) :
    ∀ (fuel : Nat) (env : DegEnv) (bs : List Block) (M Done : Stmt → Prop),
      GInvD E ps fn env M Done → (∀ t, t ∈ stmtsOf bs → M t) → (stmtsOf bs).map eraseS = E →
      ∃ (env' : DegEnv) (M' Done' : Stmt → Prop), GInvD E ps fn env' M' Done' ∧
        ∀ t, t ∈ stmtsOf (degLoop fuel env bs).1 → M' t := by
  intro fuel
  induction fuel with
  | zero => intro env bs M Done h hm _; exact ⟨env, M, Done, h, hm⟩
  | succ k ih =>
    intro env bs M Done h hm hE
    obtain ⟨M₁, Done₁, g1, g2, g3⟩ := pass_invD E ps fn wf env bs M Done h hm hE
    unfold degLoop
    simp only
    split
    · exact ih _ _ M₁ Done₁ g1 g2 g3
    · exact ⟨_, M₁, Done₁, g1, g2⟩

-- ---------------------------------------------------------------------------- variables that are constant by construction

theorem alg_zero (op : String) : alg op 0 0 = 0 := by
  unfold alg; split <;> (try split) <;> (try split) <;> simp_all

theorem algPrefix_zero (op : String) : algPrefix op 0 = 0 := by
  unfold algPrefix; split <;> simp

theorem maxList_zero : ∀ (l : List Nat), (∀ x ∈ l, x = 0) → maxList l = 0
  | [], _ => rfl
  | x :: r, h => by
    have hx := h x List.mem_cons_self
    have hr := maxList_zero r (fun y hy => h y (List.mem_cons_of_mem _ hy))
    simp [maxList, hx, hr]

/-- an expression built from numbers, parameters of degree 0 and variables of degree 0 has degree 0 -/
theorem constExpr_deg (ps C : List VName) (δ : VName → Nat) (hps : ∀ p, p ∈ ps → δ p = 0)
    (hC : ∀ w, C.contains w.base = true → δ w = 0) : ∀ e, constExpr ps C e = true → degE δ e = 0
  | .num _ _, _ => by simp [degE]
  | .var _ v, h => by
    simp only [constExpr, Bool.or_eq_true] at h
    simp only [degE]
    rcases h with h | h
    · exact hps v (by simpa using h)
    · exact hC v h
  | .infix _ op l r, h => by
    simp only [constExpr, Bool.and_eq_true] at h
    simp only [degE, constExpr_deg ps C δ hps hC l h.1, constExpr_deg ps C δ hps hC r h.2, alg_zero]
  | .prefix _ op e, h => by
    simp only [constExpr] at h
    simp only [degE, constExpr_deg ps C δ hps hC e h, algPrefix_zero]
  | .phi _ args, h => by
    simp only [constExpr, List.all_eq_true] at h
    simp only [degE]
    apply maxList_zero
    intro x hx
    obtain ⟨a, ha, rfl⟩ := List.mem_map.mp hx
    exact hC a (h a ha)
  | .switch _ _ _ _, h => by simp [constExpr] at h
  | .call _ _ _, h => by simp [constExpr] at h
  | .arr _ _, h => by simp [constExpr] at h
  | .acc _ _ _, h => by simp [constExpr] at h
  | .upd _ _ _ _, h => by simp [constExpr] at h

theorem mem_assignmentsOf (blocks : List Block) (b : Block) (hb : b ∈ blocks) (a : Ann) (v : VName) (ty : Option VType) (op : String)
    (rhe : Expr) (hs : Stmt.sub a v ty op rhe ∈ b.stmts) : (v.base, b.conds, ty, rhe) ∈ assignmentsOf blocks := by
  unfold assignmentsOf
  exact List.mem_flatMap.mpr ⟨b, hb, List.mem_filterMap.mpr ⟨_, hs, rfl⟩⟩

/-- in a template, every version of a variable of a closed set has degree 0 in every reachable degree state: its assignments are
    built from numbers, parameters and such variables (the semantics of `ReachD` lets any assignment fire at any time, so no
    statement about the order of execution is needed) -/
theorem reachD_const (cfg : Cfg) (C : List VName) (hfn : cfg.isFunction = false)
    (hparams : ∀ v, v ∈ cfg.params → ¬ HasSub ((stmtsOf cfg.blocks).map eraseS) v)
    (hcl : constClosed cfg.params cfg.blocks C = true) :
    ∀ δ, ReachD ((stmtsOf cfg.blocks).map eraseS) cfg.params cfg.isFunction δ →
      (∀ w, C.contains w.base = true → δ w = 0) ∧ (∀ p, p ∈ cfg.params → δ p = 0) := by
  unfold constClosed at hcl
  simp only [Bool.and_eq_true, List.all_eq_true] at hcl
  obtain ⟨hassign, hnl⟩ := hcl
  intro δ hr
  induction hr with
  | init δ hi =>
    have hp : ∀ p, p ∈ cfg.params → δ p = 0 := by
      intro p hp; have := hi.param p hp; rw [hfn] at this; simpa using this
    refine ⟨?_, hp⟩
    intro w hw
    by_cases hwp : w ∈ cfg.params
    · exact hp w hwp
    · by_cases hwn : NonLocal ((stmtsOf cfg.blocks).map eraseS) w
      · exfalso
        obtain ⟨s, hs, hd⟩ := hwn
        obtain ⟨s', hs', rfl⟩ := List.mem_map.mp hs
        cases s' with
        | decl names ty dims =>
          have hd' : ty ≠ VType.local_ ∧ w ∈ names := hd
          have hmem : w ∈ nonLocalNames cfg.blocks := by
            unfold stmtsOf at hs'
            obtain ⟨b, hb, hsb⟩ := List.mem_flatMap.mp hs'
            unfold nonLocalNames
            refine List.mem_flatMap.mpr ⟨b, hb, List.mem_flatMap.mpr ⟨_, hsb, ?_⟩⟩
            simp [hd'.1, hd'.2]
          have := hnl w hmem
          rw [hw] at this; simp at this
        | ite c => exact hd.elim
        | ret e => exact hd.elim
        | sub a v ty op rhe => exact hd.elim
        | ceq l r => exact hd.elim
        | log args => exact hd.elim
        | assert e => exact hd.elim
      · exact hi.other w hwn hwp
  | step δ δ' hr hst ih =>
    obtain ⟨ihC, ihP⟩ := ih
    cases hst with
    | assign a v ty op rhe d hmem hnlv hd =>
      have hvp : v ∉ cfg.params := fun hv => hparams v hv ⟨_, hmem, rfl⟩
      constructor
      · intro w hw
        by_cases hwv : w = v
        · subst hwv
          rw [DState.set_same]
          obtain ⟨s', hs', hes⟩ := List.mem_map.mp hmem
          cases s' with
          | sub a' v' ty' op' rhe' =>
            simp only [eraseS, Stmt.sub.injEq] at hes
            obtain ⟨_, hv', hty', _, hrhe⟩ := hes
            subst hv'
            unfold stmtsOf at hs'
            obtain ⟨b, hb, hsb⟩ := List.mem_flatMap.mp hs'
            have hin := mem_assignmentsOf cfg.blocks b hb a' _ ty' op' rhe' hsb
            have hok := hassign _ hin
            simp only [hw, Bool.not_true, Bool.false_or] at hok
            unfold assignmentOk at hok
            simp only [Bool.and_eq_true] at hok
            have h0 := constExpr_deg cfg.params C δ ihP ihC rhe' hok.1
            rw [← hrhe, degE_erase, h0] at hd
            omega
          | decl _ _ _ => simp [eraseS] at hes
          | ite _ => simp [eraseS] at hes
          | ret _ => simp [eraseS] at hes
          | ceq _ _ => simp [eraseS] at hes
          | log _ => simp [eraseS] at hes
          | assert _ => simp [eraseS] at hes
        · rw [DState.set_other _ _ _ _ hwv]; exact ihC w hw
      · intro p hp
        have hpv : p ≠ v := fun e => hvp (e ▸ hp)
        rw [DState.set_other _ _ _ _ hpv]; exact ihP p hp

-- ---------------------------------------------------------------------------- the start

def paramStep (fn : Bool) (env : DegEnv) (p : VName) : DegEnv :=
  ((env.setType p .local_).setDegree p (if fn then (0, 1) else (0, 0))).1

def seedStep (env : DegEnv) (v : VName) : DegEnv := (env.setDegree v (0, 0)).1

theorem degInit_eq (cfg : Cfg) :
    degInit cfg = (constVars cfg).foldl seedStep
      (cfg.params.foldl (paramStep cfg.isFunction) { ranges := [], types := [], assigned := [] }) := rfl

theorem seedFold : ∀ (vs : List VName) (env : DegEnv),
    let r := vs.foldl seedStep env
    (∀ w rg, r.degree w = some rg → env.degree w = some rg ∨ (w ∈ vs ∧ rg = (0, 0))) ∧
    (∀ w, env.degree w ≠ none → r.degree w ≠ none) ∧
    (∀ w, r.isLocal w = env.isLocal w) := by
  intro vs
  induction vs with
  | nil => intro env; exact ⟨fun _ _ h => Or.inl h, fun _ h => h, fun _ => rfl⟩
  | cons v r ih =>
    intro env
    simp only [List.foldl_cons]
    obtain ⟨i1, i2, i3⟩ := ih (seedStep env v)
    have d1 : ∀ w, (seedStep env v).degree w = if w = v then some (0, 0) else env.degree w := by
      intro w; unfold seedStep; rw [degree_setDegree]
    refine ⟨?_, ?_, ?_⟩
    · intro w rg h
      rcases i1 w rg h with h1 | ⟨h1, h2⟩
      · rw [d1] at h1
        split at h1
        · rename_i hw; cases h1; exact Or.inr ⟨by rw [hw]; exact List.mem_cons_self, rfl⟩
        · exact Or.inl h1
      · exact Or.inr ⟨List.mem_cons_of_mem _ h1, h2⟩
    · intro w h; apply i2; rw [d1]; split
      · simp
      · exact h
    · intro w; rw [i3]; unfold seedStep; exact isLocal_setDegree env v w (0, 0)

theorem mem_constVars (cfg : Cfg) (v : VName) (h : v ∈ constVars cfg) :
    cfg.isFunction = false ∧ ∃ C, constClosed cfg.params cfg.blocks C = true ∧ C.contains v.base = true := by
  unfold constVars at h
  split at h
  · cases h
  · rename_i hfn
    simp only at h
    split at h
    · rename_i hcl
      rw [List.mem_filter] at h
      exact ⟨by simpa using hfn, _, hcl, h.2⟩
    · cases h

theorem initFold (fn : Bool) : ∀ (ps : List VName) (env : DegEnv),
    let r := ps.foldl (paramStep fn) env
    (∀ w rg, r.degree w = some rg → env.degree w = some rg ∨ (w ∈ ps ∧ rg = (if fn then (0, 1) else (0, 0)))) ∧
    (∀ w, env.degree w ≠ none → r.degree w ≠ none) ∧ (∀ w, w ∈ ps → r.degree w ≠ none) ∧
    (∀ w, r.isLocal w = true → env.isLocal w = true ∨ w ∈ ps) := by
  intro ps
  induction ps with
  | nil =>
    intro env
    refine ⟨fun _ _ h => Or.inl h, fun _ h => h, ?_, fun _ h => Or.inl h⟩
    intro w hw; cases hw
  | cons p r ih =>
    intro env
    simp only [List.foldl_cons]
    obtain ⟨i1, i2, i3, i4⟩ := ih (paramStep fn env p)
    have d1 : ∀ w, (paramStep fn env p).degree w = if w = p then some (if fn then (0, 1) else (0, 0)) else env.degree w := by
      intro w; unfold paramStep; rw [degree_setDegree]; split
      · rfl
      · rw [degree_setType]
    refine ⟨?_, ?_, ?_, ?_⟩
    · intro w rg h
      rcases i1 w rg h with h1 | ⟨h1, h2⟩
      · rw [d1] at h1
        split at h1
        · rename_i hw; cases h1; exact Or.inr ⟨by rw [hw]; exact List.mem_cons_self, rfl⟩
        · exact Or.inl h1
      · exact Or.inr ⟨List.mem_cons_of_mem _ h1, h2⟩
    · intro w h; apply i2; rw [d1]; split
      · simp
      · exact h
    · intro w hw
      rcases List.mem_cons.mp hw with h | h
      · apply i2; rw [d1]; simp [h]
      · exact i3 w h
    · intro w h
      rcases i4 w h with h1 | h1
      · unfold paramStep at h1
        rw [isLocal_setDegree] at h1
        rcases isLocal_setType env p w _ h1 with ⟨h2, _⟩ | h2
        · exact Or.inr (by rw [h2]; exact List.mem_cons_self)
        · exact Or.inl h2
      · exact Or.inr (List.mem_cons_of_mem _ h1)

mutual
/-- no node of the expression carries a degree range (the CFG before the first pass) -/
def NoDegE : Expr → Prop
  | .infix a _ l r => a.deg = none ∧ NoDegE l ∧ NoDegE r
  | .prefix a _ e => a.deg = none ∧ NoDegE e
  | .switch a c t f => a.deg = none ∧ NoDegE c ∧ NoDegE t ∧ NoDegE f
  | .var a _ => a.deg = none
  | .num a _ => a.deg = none
  | .call a _ args => a.deg = none ∧ NoDegEs args
  | .arr a vals => a.deg = none ∧ NoDegEs vals
  | .acc a _ access => a.deg = none ∧ NoDegAs access
  | .upd a _ access rhe => a.deg = none ∧ NoDegAs access ∧ NoDegE rhe
  | .phi a _ => a.deg = none
def NoDegEs : Exprs → Prop
  | .nil => True
  | .cons e r => NoDegE e ∧ NoDegEs r
def NoDegAs : Accs → Prop
  | .nil => True
  | .cons (.idx e) r => NoDegE e ∧ NoDegAs r
  | .cons (.cmp _) r => NoDegAs r
end

theorem claimD_none (δ : VName → Nat) (e : Expr) (h : e.ann.deg = none) : claimD δ e := by
  intro r hr; rw [h] at hr; cases hr

mutual
theorem noDeg_sound (δ : VName → Nat) : ∀ e, NoDegE e → SoundD δ FTop e
  | .infix a op l r, h => by
    unfold NoDegE at h; unfold SoundD
    exact ⟨claimD_none δ _ h.1, noDeg_sound δ l h.2.1, noDeg_sound δ r h.2.2⟩
  | .prefix a op e, h => by
    unfold NoDegE at h; unfold SoundD
    exact ⟨claimD_none δ _ h.1, noDeg_sound δ e h.2⟩
  | .switch a c t f, h => by
    unfold NoDegE at h; unfold SoundD
    exact ⟨claimD_none δ _ h.1, noDeg_sound δ c h.2.1, noDeg_sound δ t h.2.2.1, noDeg_sound δ f h.2.2.2⟩
  | .var a v, h => by unfold NoDegE at h; unfold SoundD; exact claimD_none δ _ h
  | .num a n, h => by unfold NoDegE at h; unfold SoundD; exact claimD_none δ _ h
  | .call a n args, h => by unfold NoDegE at h; unfold SoundD; exact ⟨claimD_none δ _ h.1, noDegs_sound δ args h.2⟩
  | .arr a vals, h => by unfold NoDegE at h; unfold SoundD; exact ⟨claimD_none δ _ h.1, noDegs_sound δ vals h.2⟩
  | .acc a v access, h => by unfold NoDegE at h; unfold SoundD; exact ⟨claimD_none δ _ h.1, noDegAs_sound δ access h.2⟩
  | .upd a v access rhe, h => by
    unfold NoDegE at h; unfold SoundD
    exact ⟨claimD_none δ _ h.1, noDegAs_sound δ access h.2.1, noDeg_sound δ rhe h.2.2, trivial⟩
  | .phi a args, h => by unfold NoDegE at h; unfold SoundD; exact claimD_none δ _ h
theorem noDegs_sound (δ : VName → Nat) : ∀ es, NoDegEs es → SoundDs δ FTop es
  | .nil, _ => by unfold SoundDs; trivial
  | .cons e r, h => by
    unfold NoDegEs at h; unfold SoundDs
    exact ⟨noDeg_sound δ e h.1, noDegs_sound δ r h.2⟩
theorem noDegAs_sound (δ : VName → Nat) : ∀ acc, NoDegAs acc → SoundDa δ FTop acc
  | .nil, _ => by unfold SoundDa; trivial
  | .cons (.idx e) r, h => by
    unfold NoDegAs at h; unfold SoundDa
    exact ⟨noDeg_sound δ e h.1, noDegAs_sound δ r h.2⟩
  | .cons (.cmp n) r, h => by
    unfold NoDegAs at h; unfold SoundDa
    exact noDegAs_sound δ r h
end

def NoDegS : Stmt → Prop
  | .decl _ _ dims => ∀ e, e ∈ dims → NoDegE e
  | .ite c => NoDegE c
  | .ret e => NoDegE e
  | .sub _ _ _ _ rhe => NoDegE rhe
  | .ceq l r => NoDegE l ∧ NoDegE r
  | .log args => ∀ e, LogArg.expr e ∈ args → NoDegE e
  | .assert e => NoDegE e

theorem noDegS_sound (δ : DState) (s : Stmt) (h : NoDegS s) : SoundSD δ s := by
  cases s with
  | decl names ty dims => unfold NoDegS at h; unfold SoundSD; exact fun e he => noDeg_sound δ e (h e he)
  | ite c => unfold NoDegS at h; unfold SoundSD; exact noDeg_sound δ c h
  | ret e => unfold NoDegS at h; unfold SoundSD; exact noDeg_sound δ e h
  | assert e => unfold NoDegS at h; unfold SoundSD; exact noDeg_sound δ e h
  | ceq l r => unfold NoDegS at h; unfold SoundSD; exact ⟨noDeg_sound δ l h.1, noDeg_sound δ r h.2⟩
  | log args => unfold NoDegS at h; unfold SoundSD; exact fun e he => noDeg_sound δ e (h e he)
  | sub a v ty op rhe => unfold NoDegS at h; unfold SoundSD; exact noDeg_sound δ rhe h

/-- the program of a CFG: its statements without annotations, in block order -/
def programOf (cfg : Cfg) : List Stmt := (stmtsOf cfg.blocks).map eraseS

/-- the invariant holds of the environment propagation starts from: the parameters, and the variables that are constant by
    construction (`reachD_const`) -/
theorem degInit_inv (cfg : Cfg) (wf : WfD (programOf cfg) cfg.params)
    (hclean : ∀ s, s ∈ stmtsOf cfg.blocks → NoDegS s) :
    GInvD (programOf cfg) cfg.params cfg.isFunction (degInit cfg) (fun t => t ∈ stmtsOf cfg.blocks) (fun _ => False) := by
  obtain ⟨i1, i2, i3, i4⟩ := initFold cfg.isFunction cfg.params { ranges := [], types := [], assigned := [] }
  obtain ⟨j1, j2, j3⟩ := seedFold (constVars cfg)
    (cfg.params.foldl (paramStep cfg.isFunction) { ranges := [], types := [], assigned := [] })
  rw [degInit_eq]
  refine ⟨fun s hs => List.mem_map.mpr ⟨s, hs, rfl⟩, ?_, fun _ h => h.elim, fun _ h => h.elim, fun v hv => j2 v (i3 v hv), ?_,
    fun δ _ s hs => noDegS_sound δ s (hclean s hs)⟩
  · intro δ hr v r hv
    rcases j1 v r hv with hv' | ⟨h1, h2⟩
    · rcases i1 v r hv' with h1 | ⟨h1, h2⟩
      · simp [DegEnv.degree] at h1
      · subst h2
        have := reachD_param _ _ _ wf.params δ hr v h1
        constructor
        · cases hf : cfg.isFunction <;> simp [hf] at this ⊢ <;> omega
        · cases cfg.isFunction <;> simp
    · subst h2
      obtain ⟨hfn, C, hcl, hC⟩ := mem_constVars cfg v h1
      have := (reachD_const cfg C hfn wf.params hcl δ hr).1 v hC
      exact ⟨by omega, by omega⟩
  · intro v hv
    rw [j3] at hv
    rcases i4 v hv with h1 | h1
    · simp [DegEnv.isLocal] at h1
    · exact Or.inr h1

/-- **Path-level soundness of degree propagation, for every budget of passes.** -/
theorem degree_path_sound (cfg : Cfg) (wf : WfD (programOf cfg) cfg.params)
    (hclean : ∀ s, s ∈ stmtsOf cfg.blocks → NoDegS s) (k : Nat) :
    ∀ δ, ReachD (programOf cfg) cfg.params cfg.isFunction δ →
      ∀ s, s ∈ stmtsOf (degLoop k (degInit cfg) cfg.blocks).1 → SoundSD δ s := by
  have hinit := degInit_inv cfg wf hclean
  obtain ⟨env', M', Done', g1, g2⟩ := loop_invD _ _ _ wf k (degInit cfg) cfg.blocks _ _ hinit (fun _ h => h) rfl
  exact fun δ hr s hs => g1.sound δ hr s (g2 s hs)

-- ---------------------------------------------------------------------------- the hypotheses, decidably

def declaresNLB (s : Stmt) (v : VName) : Bool :=
  match s with
  | .decl names ty _ => ty != VType.local_ && names.contains v
  | _ => false
def declaresLB (s : Stmt) (v : VName) : Bool :=
  match s with
  | .decl names ty _ => ty == VType.local_ && names.contains v
  | _ => false

theorem declaresNLB_iff (s : Stmt) (v : VName) : declaresNLB s v = true ↔ declaresNL s v := by
  cases s <;> simp [declaresNLB, declaresNL]
theorem declaresLB_iff (s : Stmt) (v : VName) : declaresLB s v = true ↔ declaresL s v := by
  cases s <;> simp [declaresLB, declaresL]

def nonLocalB (E : List Stmt) (v : VName) : Bool := E.any (fun s => declaresNLB s v)
def localDeclB (E : List Stmt) (v : VName) : Bool := E.any (fun s => declaresLB s v)
def hasSubB (E : List Stmt) (v : VName) : Bool := E.any (fun s => defVar s == some v)

theorem nonLocalB_iff (E : List Stmt) (v : VName) : nonLocalB E v = true ↔ NonLocal E v := by
  simp only [nonLocalB, List.any_eq_true, NonLocal, declaresNLB_iff]
theorem localDeclB_iff (E : List Stmt) (v : VName) : localDeclB E v = true ↔ LocalDecl E v := by
  simp only [localDeclB, List.any_eq_true, LocalDecl, declaresLB_iff]
theorem hasSubB_iff (E : List Stmt) (v : VName) : hasSubB E v = true ↔ HasSub E v := by
  simp only [hasSubB, List.any_eq_true, HasSub, beq_iff_eq]

/-- names declared non-local by a statement -/
def nlNames : Stmt → List VName
  | .decl names ty _ => if ty != VType.local_ then names else []
  | _ => []

theorem mem_nlNames (s : Stmt) (v : VName) : v ∈ nlNames s ↔ declaresNL s v := by
  cases s with
  | decl names ty dims =>
    simp only [nlNames, declaresNL]
    by_cases h : ty = VType.local_
    · simp [h]
    · simp [h]
  | _ => simp [nlNames, declaresNL]

def singleOk (E : List Stmt) (a b : VName) : Prop := a ≠ b ∨ nonLocalB E a = true
instance (E : List Stmt) (a b : VName) : Decidable (singleOk E a b) := by unfold singleOk; exact inferInstance

def posOKB (E : List Stmt) : List Stmt → List Stmt → Bool
  | _, [] => true
  | pre, s :: r =>
    (basesS s).all (fun v => (!hasSubB E v || nonLocalB E v || pre.any (fun t => defVar t == some v)) &&
                             (!nonLocalB E v || pre.any (fun t => declaresNLB t v))) &&
    posOKB E (pre ++ [s]) r

theorem posOKB_sound (E : List Stmt) : ∀ (rest pre : List Stmt), posOKB E pre rest = true → PosOK E pre rest := by
  intro rest
  induction rest with
  | nil => intro pre _; trivial
  | cons s r ih =>
    intro pre h
    simp only [posOKB, Bool.and_eq_true, List.all_eq_true] at h
    refine ⟨?_, ih _ h.2⟩
    intro v hv
    have := h.1 v hv
    simp only [Bool.and_eq_true, Bool.or_eq_true, Bool.not_eq_true', List.any_eq_true, beq_iff_eq] at this
    refine ⟨fun hs hnl => ?_, fun hn => ?_⟩
    · rcases this.1 with (h1 | h1) | h1
      · rw [(hasSubB_iff E v).mpr hs] at h1; cases h1
      · exact absurd ((nonLocalB_iff E v).mp h1) hnl
      · exact h1
    · rcases this.2 with h1 | h1
      · rw [(nonLocalB_iff E v).mpr hn] at h1; cases h1
      · obtain ⟨t, ht, hd⟩ := h1; exact ⟨t, ht, (declaresNLB_iff t v).mp hd⟩

/-- the decidable form of `WfD`, evaluated by `csmodel pathhyps` on every real dump -/
def wfDB (E : List Stmt) (ps : List VName) : Bool :=
  decide ((E.filterMap defVar).Pairwise (singleOk E)) &&
  E.all (fun s => (nlNames s).all (fun v => !localDeclB E v && !ps.contains v)) &&
  ps.all (fun v => !hasSubB E v) &&
  posOKB E [] E

theorem single_of_pairwise (E₀ : List Stmt) : ∀ (P : List Stmt), (P.filterMap defVar).Pairwise (singleOk E₀) →
    ∀ s₁ s₂, s₁ ∈ P → s₂ ∈ P → ∀ v, defVar s₁ = some v → defVar s₂ = some v → s₁ = s₂ ∨ NonLocal E₀ v := by
  intro P
  induction P with
  | nil => intro _ s₁ s₂ h₁; cases h₁
  | cons s r ih =>
    intro hpw s₁ s₂ h₁ h₂ v d₁ d₂
    have hr : (r.filterMap defVar).Pairwise (singleOk E₀) := by
      cases hd : defVar s with
      | none => simpa [List.filterMap_cons, hd] using hpw
      | some w => rw [List.filterMap_cons, hd] at hpw; exact (List.pairwise_cons.mp hpw).2
    have clash : ∀ t, t ∈ r → defVar s = some v → defVar t = some v → NonLocal E₀ v := by
      intro t ht hs htv
      rw [List.filterMap_cons, hs] at hpw
      have := (List.pairwise_cons.mp hpw).1 v (List.mem_filterMap.mpr ⟨t, ht, htv⟩)
      rcases this with h | h
      · exact absurd rfl h
      · exact (nonLocalB_iff E₀ v).mp h
    rcases List.mem_cons.mp h₁ with e₁ | m₁ <;> rcases List.mem_cons.mp h₂ with e₂ | m₂
    · left; rw [e₁, e₂]
    · subst e₁; exact Or.inr (clash s₂ m₂ d₁ d₂)
    · subst e₂; exact Or.inr (clash s₁ m₁ d₂ d₁)
    · exact ih hr s₁ s₂ m₁ m₂ v d₁ d₂

theorem wfDB_sound (E : List Stmt) (ps : List VName) (h : wfDB E ps = true) : WfD E ps := by
  simp only [wfDB, Bool.and_eq_true, decide_eq_true_eq, List.all_eq_true] at h
  obtain ⟨⟨⟨h1, h2⟩, h3⟩, h4⟩ := h
  refine ⟨single_of_pairwise E E h1, ?_, ?_, posOKB_sound E E [] h4⟩
  · intro v ⟨s, hs, hd⟩
    have := h2 s hs v ((mem_nlNames s v).mpr hd)
    simp only [Bool.and_eq_true, Bool.not_eq_true'] at this
    refine ⟨fun hl => ?_, fun hp => ?_⟩
    · rw [(localDeclB_iff E v).mpr hl] at this; cases this.1
    · have h5 := this.2
      simp [hp] at h5
  · intro v hv hs
    have := h3 v hv
    rw [(hasSubB_iff E v).mpr hs] at this; cases this

end Circomspect.Propagate
