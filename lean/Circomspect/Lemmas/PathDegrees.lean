/-
Path-level soundness of degree propagation (C07, C20): every range that any number of passes of the
operational model `Propagate.degLoop` writes on any node of an SSA CFG bounds the degree of that node in
*every degree state that any execution of the CFG can reach*.

A degree state gives, for every SSA variable, the degree (in Circom's expression algebra, `Spec/Algebra`)
of the polynomial it currently holds.  Signals and components (variables of a non-local declaration) are
indeterminates: degree 1, always.  Template parameters are constants, function parameters at most linear
(the range the code starts from); every other variable starts at 0 (Circom's default value).  From any
reachable state *any* substitution to a local may be executed next, in any order and any number of times,
giving its variable any degree up to the algebra's degree of the right-hand side (this covers `phi`,
whose algebraic degree is the maximum over its arguments).

Hypotheses on the CFG (`WfD`, all decidable, evaluated on every real dump): a local is assigned by at
most one substitution; a variable is not declared both local and non-local, and parameters are not
non-local; parameters are not assigned (they are version 0); and — what the "first assignment to the
array" rule relies on — wherever an array `v` is updated element-wise, a substitution to `v` and a
non-local declaration of `v`, if the program has one at all, occur *earlier in block order*.
-/
import Circomspect.Lemmas.DegreeLemmas
import Circomspect.Lemmas.PathValues
set_option linter.unusedSimpArgs false
set_option linter.unusedVariables false
namespace Circomspect.Propagate
open Circomspect Ir Algebra

-- ---------------------------------------------------------------------------- erasure

mutual
theorem erase_degExpr (env : DegEnv) : ∀ e, erase (degExpr env e).1 = erase e
  | .infix a op l r => by
    unfold degExpr
    simp only
    cases hc : (degExpr env l).2 with
    | true => simp only [if_true, erase, erase_degExpr env l]
    | false => simp only [Bool.false_eq_true, if_false, erase, erase_degExpr env l, erase_degExpr env r]
  | .prefix a op e => by unfold degExpr; simp only [erase, erase_degExpr env e]
  | .switch a c t f => by
    unfold degExpr
    simp only
    cases h1 : (degExpr env c).2 with
    | true =>
      simp only [if_true]
      split <;> (try split) <;> simp only [erase, erase_degExpr env c]
    | false =>
      simp only [Bool.false_eq_true, if_false]
      cases h2 : (degExpr env t).2 with
      | true =>
        simp only [if_true]
        split <;> (try split) <;> simp only [erase, erase_degExpr env c, erase_degExpr env t]
      | false =>
        simp only [Bool.false_eq_true, if_false]
        split <;> (try split) <;> simp only [erase, erase_degExpr env c, erase_degExpr env t, erase_degExpr env f]
  | .var a v => by unfold degExpr; simp only [erase]
  | .num a n => by unfold degExpr; simp only [erase]
  | .call a n args => by
    unfold degExpr; simp only
    split <;> simp only [erase, eraseEs_degExprs env args false]
  | .arr a vals => by unfold degExpr; simp only [erase, eraseEs_degExprs env vals false]
  | .acc a v access => by unfold degExpr; simp only [erase, eraseAs_degAccs env access false]
  | .upd a v access rhe => by
    unfold degExpr; simp only [erase, eraseAs_degAccs env access _, erase_degExpr env rhe]
  | .phi a args => by unfold degExpr; simp only [erase]
theorem eraseEs_degExprs (env : DegEnv) : ∀ (es : Exprs) (c : Bool), eraseEs (degExprs env es c).1 = eraseEs es
  | .nil, c => by unfold degExprs; rfl
  | .cons e r, c => by
    unfold degExprs
    simp only
    cases c with
    | true => simp only [if_true, eraseEs, eraseEs_degExprs env r _]
    | false => simp only [Bool.false_eq_true, if_false, eraseEs, erase_degExpr env e, eraseEs_degExprs env r _]
theorem eraseAs_degAccs (env : DegEnv) : ∀ (acc : Accs) (c : Bool), eraseAs (degAccs env acc c).1 = eraseAs acc
  | .nil, c => by unfold degAccs; rfl
  | .cons (.idx e) r, c => by
    unfold degAccs
    simp only
    cases c with
    | true => simp only [if_true, eraseAs, eraseAs_degAccs env r _]
    | false => simp only [Bool.false_eq_true, if_false, eraseAs, erase_degExpr env e, eraseAs_degAccs env r _]
  | .cons (.cmp n) r, c => by
    unfold degAccs
    simp only [eraseAs, eraseAs_degAccs env r _]
end

mutual
/-- the algebra's degree does not look at annotations -/
theorem degE_erase (δ : VName → Nat) : ∀ e, degE δ (erase e) = degE δ e
  | .infix _ op l r => by simp only [erase, degE, degE_erase δ l, degE_erase δ r]
  | .prefix _ op e => by simp only [erase, degE, degE_erase δ e]
  | .switch _ c t f => by simp only [erase, degE, degE_erase δ c, degE_erase δ t, degE_erase δ f]
  | .var _ v => by simp only [erase, degE]
  | .num _ n => by simp only [erase, degE]
  | .call _ n args => by simp only [erase, degE, degEs_erase δ args]
  | .arr _ vals => by simp only [erase, degE, degEs_erase δ vals]
  | .acc _ v access => by simp only [erase, degE, degAs_erase δ access]
  | .upd _ v access rhe => by simp only [erase, degE, degAs_erase δ access, degE_erase δ rhe]
  | .phi _ args => by simp only [erase, degE]
theorem degEs_erase (δ : VName → Nat) : ∀ es, degEs δ (eraseEs es) = degEs δ es
  | .nil => by simp only [eraseEs, degEs]
  | .cons e r => by simp only [eraseEs, degEs, degE_erase δ e, degEs_erase δ r]
theorem degAs_erase (δ : VName → Nat) : ∀ acc, degAs δ (eraseAs acc) = degAs δ acc
  | .nil => by simp only [eraseAs, degAs]
  | .cons (.idx e) r => by simp only [eraseAs, degAs, degE_erase δ e, degAs_erase δ r]
  | .cons (.cmp n) r => by simp only [eraseAs, degAs, degAs_erase δ r]
end

-- ---------------------------------------------------------------------------- update bases

mutual
/-- the arrays that are updated element-wise somewhere in the expression -/
def basesE : Expr → List VName
  | .infix _ _ l r => basesE l ++ basesE r
  | .prefix _ _ e => basesE e
  | .switch _ c t f => basesE c ++ basesE t ++ basesE f
  | .var _ _ => []
  | .num _ _ => []
  | .call _ _ args => basesEs args
  | .arr _ vals => basesEs vals
  | .acc _ _ access => basesAs access
  | .upd _ v access rhe => v :: (basesAs access ++ basesE rhe)
  | .phi _ _ => []
def basesEs : Exprs → List VName
  | .nil => []
  | .cons e r => basesE e ++ basesEs r
def basesAs : Accs → List VName
  | .nil => []
  | .cons (.idx e) r => basesE e ++ basesAs r
  | .cons (.cmp _) r => basesAs r
end

mutual
theorem basesE_erase : ∀ e, basesE (erase e) = basesE e
  | .infix _ op l r => by simp only [erase, basesE, basesE_erase l, basesE_erase r]
  | .prefix _ op e => by simp only [erase, basesE, basesE_erase e]
  | .switch _ c t f => by simp only [erase, basesE, basesE_erase c, basesE_erase t, basesE_erase f]
  | .var _ v => by simp only [erase, basesE]
  | .num _ n => by simp only [erase, basesE]
  | .call _ n args => by simp only [erase, basesE, basesEs_erase args]
  | .arr _ vals => by simp only [erase, basesE, basesEs_erase vals]
  | .acc _ v access => by simp only [erase, basesE, basesAs_erase access]
  | .upd _ v access rhe => by simp only [erase, basesE, basesAs_erase access, basesE_erase rhe]
  | .phi _ args => by simp only [erase, basesE]
theorem basesEs_erase : ∀ es, basesEs (eraseEs es) = basesEs es
  | .nil => by simp only [eraseEs, basesEs]
  | .cons e r => by simp only [eraseEs, basesEs, basesE_erase e, basesEs_erase r]
theorem basesAs_erase : ∀ acc, basesAs (eraseAs acc) = basesAs acc
  | .nil => by simp only [eraseAs, basesAs]
  | .cons (.idx e) r => by simp only [eraseAs, basesAs, basesE_erase e, basesAs_erase r]
  | .cons (.cmp n) r => by simp only [eraseAs, basesAs, basesAs_erase r]
end

mutual
/-- soundness does not depend on the freshness predicate beyond the update bases of the expression -/
theorem soundD_restrict (δ : VName → Nat) (F₀ F : VName → Prop) :
    ∀ e, SoundD δ F₀ e → (∀ v, v ∈ basesE e → F v) → SoundD δ F e
  | .infix a op l r, h, hb => by
    unfold SoundD at h ⊢; simp only [basesE, List.mem_append] at hb
    exact ⟨h.1, soundD_restrict δ F₀ F l h.2.1 (fun v hv => hb v (Or.inl hv)),
      soundD_restrict δ F₀ F r h.2.2 (fun v hv => hb v (Or.inr hv))⟩
  | .prefix a op e, h, hb => by
    unfold SoundD at h ⊢; simp only [basesE] at hb
    exact ⟨h.1, soundD_restrict δ F₀ F e h.2 hb⟩
  | .switch a c t f, h, hb => by
    unfold SoundD at h ⊢; simp only [basesE, List.mem_append] at hb
    exact ⟨h.1, soundD_restrict δ F₀ F c h.2.1 (fun v hv => hb v (Or.inl (Or.inl hv))),
      soundD_restrict δ F₀ F t h.2.2.1 (fun v hv => hb v (Or.inl (Or.inr hv))),
      soundD_restrict δ F₀ F f h.2.2.2 (fun v hv => hb v (Or.inr hv))⟩
  | .var a v, h, _ => by unfold SoundD at h ⊢; exact h
  | .num a n, h, _ => by unfold SoundD at h ⊢; exact h
  | .call a n args, h, hb => by
    unfold SoundD at h ⊢; simp only [basesE] at hb
    exact ⟨h.1, soundDs_restrict δ F₀ F args h.2 hb⟩
  | .arr a vals, h, hb => by
    unfold SoundD at h ⊢; simp only [basesE] at hb
    exact ⟨h.1, soundDs_restrict δ F₀ F vals h.2 hb⟩
  | .acc a v access, h, hb => by
    unfold SoundD at h ⊢; simp only [basesE] at hb
    exact ⟨h.1, soundDa_restrict δ F₀ F access h.2 hb⟩
  | .upd a v access rhe, h, hb => by
    unfold SoundD at h ⊢; simp only [basesE, List.mem_cons, List.mem_append] at hb
    exact ⟨h.1, soundDa_restrict δ F₀ F access h.2.1 (fun w hw => hb w (Or.inr (Or.inl hw))),
      soundD_restrict δ F₀ F rhe h.2.2.1 (fun w hw => hb w (Or.inr (Or.inr hw))), hb v (Or.inl rfl)⟩
  | .phi a args, h, _ => by unfold SoundD at h ⊢; exact h
theorem soundDs_restrict (δ : VName → Nat) (F₀ F : VName → Prop) :
    ∀ es, SoundDs δ F₀ es → (∀ v, v ∈ basesEs es → F v) → SoundDs δ F es
  | .nil, _, _ => by unfold SoundDs; trivial
  | .cons e r, h, hb => by
    unfold SoundDs at h ⊢; simp only [basesEs, List.mem_append] at hb
    exact ⟨soundD_restrict δ F₀ F e h.1 (fun v hv => hb v (Or.inl hv)),
      soundDs_restrict δ F₀ F r h.2 (fun v hv => hb v (Or.inr hv))⟩
theorem soundDa_restrict (δ : VName → Nat) (F₀ F : VName → Prop) :
    ∀ acc, SoundDa δ F₀ acc → (∀ v, v ∈ basesAs acc → F v) → SoundDa δ F acc
  | .nil, _, _ => by unfold SoundDa; trivial
  | .cons (.idx e) r, h, hb => by
    unfold SoundDa at h ⊢; simp only [basesAs, List.mem_append] at hb
    exact ⟨soundD_restrict δ F₀ F e h.1 (fun v hv => hb v (Or.inl hv)),
      soundDa_restrict δ F₀ F r h.2 (fun v hv => hb v (Or.inr hv))⟩
  | .cons (.cmp n) r, h, hb => by
    unfold SoundDa at h ⊢; simp only [basesAs] at hb
    exact soundDa_restrict δ F₀ F r h hb
end

/-- the freshness predicate that asks nothing -/
abbrev FTop : VName → Prop := fun _ => True

theorem soundD_top' (δ : VName → Nat) (F : VName → Prop) (e : Expr) (h : SoundD δ F e) : SoundD δ FTop e :=
  soundD_restrict δ F FTop e h (fun _ _ => trivial)

-- ---------------------------------------------------------------------------- the program, syntactically

def basesL : LogArg → List VName
  | .str => []
  | .expr e => basesE e

/-- the arrays a statement updates element-wise -/
def basesS : Stmt → List VName
  | .decl _ _ dims => dims.flatMap basesE
  | .ite c => basesE c
  | .ret e => basesE e
  | .sub _ _ _ _ rhe => basesE rhe
  | .ceq l r => basesE l ++ basesE r
  | .log args => args.flatMap basesL
  | .assert e => basesE e

theorem basesS_eraseS (s : Stmt) : basesS (eraseS s) = basesS s := by
  cases s with
  | decl names ty dims =>
    simp only [eraseS, basesS, List.flatMap_map]
    congr 1; funext e; exact basesE_erase e
  | ite c => simp only [eraseS, basesS, basesE_erase]
  | ret e => simp only [eraseS, basesS, basesE_erase]
  | sub a v ty op rhe => simp only [eraseS, basesS, basesE_erase]
  | ceq l r => simp only [eraseS, basesS, basesE_erase]
  | log args =>
    simp only [eraseS, basesS, List.flatMap_map]
    congr 1; funext x; cases x <;> simp [eraseL, basesL, basesE_erase]
  | assert e => simp only [eraseS, basesS, basesE_erase]

/-- `s` declares `v` as a signal or component -/
def declaresNL (s : Stmt) (v : VName) : Prop :=
  match s with
  | .decl names ty _ => ty ≠ VType.local_ ∧ v ∈ names
  | _ => False

/-- `s` declares `v` as a local -/
def declaresL (s : Stmt) (v : VName) : Prop :=
  match s with
  | .decl names ty _ => ty = VType.local_ ∧ v ∈ names
  | _ => False

theorem declaresNL_eraseS (s : Stmt) (v : VName) : declaresNL (eraseS s) v ↔ declaresNL s v := by
  cases s <;> simp [eraseS, declaresNL]
theorem declaresL_eraseS (s : Stmt) (v : VName) : declaresL (eraseS s) v ↔ declaresL s v := by
  cases s <;> simp [eraseS, declaresL]

def NonLocal (E : List Stmt) (v : VName) : Prop := ∃ s, s ∈ E ∧ declaresNL s v
def LocalDecl (E : List Stmt) (v : VName) : Prop := ∃ s, s ∈ E ∧ declaresL s v
def HasSub (E : List Stmt) (v : VName) : Prop := ∃ s, s ∈ E ∧ defVar s = some v

/-- block order: before every element-wise update of `v`, the program has already seen a substitution
    to `v` and a non-local declaration of `v`, if it has any at all -/
def PosOK (E : List Stmt) : List Stmt → List Stmt → Prop
  | _, [] => True
  | pre, s :: r =>
    (∀ v, v ∈ basesS s → (HasSub E v → ∃ t, t ∈ pre ∧ defVar t = some v) ∧
                          (NonLocal E v → ∃ t, t ∈ pre ∧ declaresNL t v)) ∧
    PosOK E (pre ++ [s]) r

structure WfD (E : List Stmt) (ps : List VName) : Prop where
  single : ∀ s₁ s₂, s₁ ∈ E → s₂ ∈ E → ∀ v, defVar s₁ = some v → defVar s₂ = some v → s₁ = s₂ ∨ NonLocal E v
  types : ∀ v, NonLocal E v → ¬ LocalDecl E v ∧ v ∉ ps
  params : ∀ v, v ∈ ps → ¬ HasSub E v
  pos : PosOK E [] E

-- ---------------------------------------------------------------------------- executions

abbrev DState := VName → Nat

def DState.set (δ : DState) (v : VName) (d : Nat) : DState := fun w => if w = v then d else δ w
@[simp] theorem DState.set_same (δ : DState) (v : VName) (d : Nat) : δ.set v d v = d := by simp [DState.set]
theorem DState.set_other (δ : DState) (v w : VName) (d : Nat) (h : w ≠ v) : δ.set v d w = δ w := by
  simp [DState.set, h]

inductive StepD (E : List Stmt) : DState → DState → Prop
  | assign (δ : DState) (a : Ann) (v : VName) (ty : Option VType) (op : String) (rhe : Expr) (d : Nat) :
      Stmt.sub a v ty op rhe ∈ E → ¬ NonLocal E v → d ≤ degE δ rhe → StepD E δ (δ.set v d)

structure InitD (E : List Stmt) (ps : List VName) (fn : Bool) (δ : DState) : Prop where
  le3 : ∀ v, δ v ≤ 3
  nonlocal_ : ∀ v, NonLocal E v → δ v = 1
  param : ∀ v, v ∈ ps → δ v ≤ (if fn then 1 else 0)
  other : ∀ v, ¬ NonLocal E v → v ∉ ps → δ v = 0

inductive ReachD (E : List Stmt) (ps : List VName) (fn : Bool) : DState → Prop
  | init (δ : DState) : InitD E ps fn δ → ReachD E ps fn δ
  | step (δ δ' : DState) : ReachD E ps fn δ → StepD E δ δ' → ReachD E ps fn δ'

theorem reachD_le3 (E : List Stmt) (ps : List VName) (fn : Bool) : ∀ δ, ReachD E ps fn δ → ∀ v, δ v ≤ 3 := by
  intro δ hr
  induction hr with
  | init δ hi => exact hi.le3
  | step δ δ' hr hst ih =>
    intro w
    cases hst with
    | assign a v ty op rhe d hmem hnl hd =>
      by_cases hwv : w = v
      · subst hwv; rw [DState.set_same]
        have := degE_le3 δ ih rhe
        omega
      · rw [DState.set_other _ _ _ _ hwv]; exact ih w

theorem reachD_nonlocal (E : List Stmt) (ps : List VName) (fn : Bool) :
    ∀ δ, ReachD E ps fn δ → ∀ v, NonLocal E v → δ v = 1 := by
  intro δ hr
  induction hr with
  | init δ hi => exact hi.nonlocal_
  | step δ δ' hr hst ih =>
    intro w hw
    cases hst with
    | assign a v ty op rhe d hmem hnl hd =>
      by_cases hwv : w = v
      · subst hwv; exact absurd hw hnl
      · rw [DState.set_other _ _ _ _ hwv]; exact ih w hw

theorem reachD_param (E : List Stmt) (ps : List VName) (fn : Bool) (hp : ∀ v, v ∈ ps → ¬ HasSub E v) :
    ∀ δ, ReachD E ps fn δ → ∀ v, v ∈ ps → δ v ≤ (if fn then 1 else 0) := by
  intro δ hr
  induction hr with
  | init δ hi => exact hi.param
  | step δ δ' hr hst ih =>
    intro w hw
    cases hst with
    | assign a v ty op rhe d hmem hnl hd =>
      by_cases hwv : w = v
      · subst hwv; exact absurd ⟨_, hmem, rfl⟩ (hp w hw)
      · rw [DState.set_other _ _ _ _ hwv]; exact ih w hw

/-- the degree held by a variable that is neither non-local nor a parameter is 0 (its default) or was
    produced by one of its substitutions in a reachable state -/
theorem reachD_origin (E : List Stmt) (ps : List VName) (fn : Bool) :
    ∀ δ, ReachD E ps fn δ → ∀ v, ¬ NonLocal E v → v ∉ ps →
      δ v = 0 ∨ ∃ δ₁ a ty op rhe, ReachD E ps fn δ₁ ∧ Stmt.sub a v ty op rhe ∈ E ∧ δ v ≤ degE δ₁ rhe := by
  intro δ hr
  induction hr with
  | init δ hi => intro v h1 h2; exact Or.inl (hi.other v h1 h2)
  | step δ δ' hr hst ih =>
    intro w h1 h2
    cases hst with
    | assign a v ty op rhe d hmem hnl hd =>
      by_cases hwv : w = v
      · subst hwv; rw [DState.set_same]
        exact Or.inr ⟨δ, a, ty, op, rhe, hr, hmem, hd⟩
      · rw [DState.set_other _ _ _ _ hwv]; exact ih w h1 h2

-- ---------------------------------------------------------------------------- environment operations

theorem degree_setDegree (env : DegEnv) (v w : VName) (r : Range) :
    (env.setDegree v r).1.degree w = if w = v then some r else env.degree w := by
  unfold DegEnv.setDegree
  split
  · -- first insertion
    simp only [DegEnv.degree, List.find?_cons]
    by_cases hwv : w = v
    · subst hwv; simp
    · have : (v == w) = false := by simpa using fun h => hwv h.symm
      simp [this, hwv]
  · simp only [DegEnv.degree, List.find?_cons]
    by_cases hwv : w = v
    · subst hwv; simp
    · have : (v == w) = false := by simpa using fun h => hwv h.symm
      simp only [this, hwv, if_false, Bool.false_eq_true]
      rw [List.find?_filter]
      congr 2
      funext a
      by_cases haw : a.1 = w
      · subst haw; simp [hwv]
      · simp [haw]

theorem assigned_setDegree (env : DegEnv) (v : VName) (r : Range) : (env.setDegree v r).1.assigned = env.assigned := by
  unfold DegEnv.setDegree; split <;> rfl
theorem types_setDegree (env : DegEnv) (v : VName) (r : Range) : (env.setDegree v r).1.types = env.types := by
  unfold DegEnv.setDegree; split <;> rfl
theorem ranges_setType (env : DegEnv) (v : VName) (t : VType) : (env.setType v t).ranges = env.ranges := by
  unfold DegEnv.setType; split <;> rfl
theorem assigned_setType (env : DegEnv) (v : VName) (t : VType) : (env.setType v t).assigned = env.assigned := by
  unfold DegEnv.setType; split <;> rfl

theorem degree_setType (env : DegEnv) (v w : VName) (t : VType) : (env.setType v t).degree w = env.degree w := by
  simp only [DegEnv.degree, ranges_setType]

theorem isAssigned_setDegree (env : DegEnv) (v w : VName) (r : Range) :
    (env.setDegree v r).1.isAssigned w = env.isAssigned w := by
  simp only [DegEnv.isAssigned, assigned_setDegree]
theorem isAssigned_setType (env : DegEnv) (v w : VName) (t : VType) :
    (env.setType v t).isAssigned w = env.isAssigned w := by
  simp only [DegEnv.isAssigned, assigned_setType]
theorem isLocal_setDegree (env : DegEnv) (v w : VName) (r : Range) :
    (env.setDegree v r).1.isLocal w = env.isLocal w := by
  simp only [DegEnv.isLocal, types_setDegree]

theorem isLocal_setType (env : DegEnv) (v w : VName) (t : VType) (h : (env.setType v t).isLocal w = true) :
    (w = v ∧ t = VType.local_) ∨ env.isLocal w = true := by
  unfold DegEnv.setType at h
  split at h
  · simp only [DegEnv.isLocal, List.find?_cons] at h
    by_cases hvw : v = w
    · subst hvw
      simp only [beq_self_eq_true, Option.map_some, beq_iff_eq, Option.some.injEq] at h
      exact Or.inl ⟨rfl, h⟩
    · have : (v == w) = false := by simpa using hvw
      simp only [this] at h
      exact Or.inr h
  · exact Or.inr h

/-- `set_degree` reports a change exactly when the variable had no degree -/
theorem setDegree_changed (env : DegEnv) (v : VName) (r : Range) :
    (env.setDegree v r).2 = (env.degree v).isNone := by
  unfold DegEnv.setDegree
  split
  · rename_i h; simp [h]
  · rename_i x h; simp [h]

-- ---------------------------------------------------------------------------- statements

/-- every range on the statement bounds the degree of its node in the degree state `δ` -/
def SoundSD (δ : DState) : Stmt → Prop
  | .decl _ _ dims => ∀ e, e ∈ dims → SoundD δ FTop e
  | .ite c => SoundD δ FTop c
  | .ret e => SoundD δ FTop e
  | .sub _ _ _ _ rhe => SoundD δ FTop rhe
  | .ceq l r => SoundD δ FTop l ∧ SoundD δ FTop r
  | .log args => ∀ e, LogArg.expr e ∈ args → SoundD δ FTop e
  | .assert e => SoundD δ FTop e

def declStep (ty : VType) (acc : DegEnv × Bool) (n : VName) : DegEnv × Bool :=
  let (env, c) := acc
  let (env, c) :=
    if ty != VType.local_ then
      if c then (env, true) else env.setDegree n (1, 1)
    else (env, c)
  (env.setType n ty, c)

theorem degStmt_decl (env : DegEnv) (names : List VName) (ty : VType) (dims : List Expr) :
    degStmt env (.decl names ty dims) =
      (.decl names ty dims, (names.foldl (declStep ty) (env, false)).1, (names.foldl (declStep ty) (env, false)).2) := rfl

/-- what the declaration fold does to the environment -/
theorem declFold (ty : VType) : ∀ (names : List VName) (env : DegEnv) (c : Bool),
    let r := names.foldl (declStep ty) (env, c)
    (∀ w, env.degree w ≠ none → r.1.degree w ≠ none) ∧
    (∀ w rg, r.1.degree w = some rg → env.degree w = some rg ∨ (ty ≠ VType.local_ ∧ w ∈ names ∧ rg = (1, 1))) ∧
    (∀ w, r.1.isAssigned w = env.isAssigned w) ∧
    (∀ w, r.1.isLocal w = true → env.isLocal w = true ∨ (w ∈ names ∧ ty = VType.local_)) ∧
    (r.2 = false → c = false ∧ (ty ≠ VType.local_ → ∀ n, n ∈ names → r.1.degree n ≠ none)) := by
  intro names
  induction names with
  | nil =>
    intro env c
    refine ⟨fun _ h => h, fun _ _ h => Or.inl h, fun _ => rfl, fun _ h => Or.inl h, fun h => ⟨h, fun _ n hn => by cases hn⟩⟩
  | cons n rest ih =>
    intro env c
    simp only [List.foldl_cons]
    -- one step
    have hstep : ∃ env₁ c₁, declStep ty (env, c) n = (env₁, c₁) ∧
        (∀ w, env.degree w ≠ none → env₁.degree w ≠ none) ∧
        (∀ w rg, env₁.degree w = some rg → env.degree w = some rg ∨ (ty ≠ VType.local_ ∧ w = n ∧ rg = (1, 1))) ∧
        (∀ w, env₁.isAssigned w = env.isAssigned w) ∧
        (∀ w, env₁.isLocal w = true → env.isLocal w = true ∨ (w = n ∧ ty = VType.local_)) ∧
        (c₁ = false → c = false ∧ (ty ≠ VType.local_ → env₁.degree n ≠ none)) := by
      by_cases hty : ty = VType.local_
      · refine ⟨env.setType n ty, c, by simp [declStep, hty], ?_, ?_, ?_, ?_, ?_⟩
        · intro w h; rw [degree_setType]; exact h
        · intro w rg h; rw [degree_setType] at h; exact Or.inl h
        · intro w; rw [isAssigned_setType]
        · intro w h
          rcases isLocal_setType env n w ty h with ⟨h1, h2⟩ | h1
          · exact Or.inr ⟨h1, h2⟩
          · exact Or.inl h1
        · intro h; exact ⟨h, fun hne => absurd hty hne⟩
      · have hne : (ty != VType.local_) = true := by simpa using hty
        cases c with
        | true =>
          refine ⟨env.setType n ty, true, by simp [declStep, hne], ?_, ?_, ?_, ?_, ?_⟩
          · intro w h; rw [degree_setType]; exact h
          · intro w rg h; rw [degree_setType] at h; exact Or.inl h
          · intro w; rw [isAssigned_setType]
          · intro w h
            rcases isLocal_setType env n w ty h with ⟨h1, h2⟩ | h1
            · exact Or.inr ⟨h1, h2⟩
            · exact Or.inl h1
          · intro h; cases h
        | false =>
          refine ⟨(env.setDegree n (1, 1)).1.setType n ty, (env.setDegree n (1, 1)).2, by simp [declStep, hne], ?_, ?_, ?_, ?_, ?_⟩
          · intro w h; rw [degree_setType, degree_setDegree]; split
            · simp
            · exact h
          · intro w rg h
            rw [degree_setType, degree_setDegree] at h
            split at h
            · rename_i hw; cases h; exact Or.inr ⟨hty, hw, rfl⟩
            · exact Or.inl h
          · intro w; rw [isAssigned_setType, isAssigned_setDegree]
          · intro w h
            rcases isLocal_setType _ n w ty h with ⟨h1, h2⟩ | h1
            · exact Or.inr ⟨h1, h2⟩
            · rw [isLocal_setDegree] at h1; exact Or.inl h1
          · intro h
            refine ⟨rfl, fun _ => ?_⟩
            rw [degree_setType, degree_setDegree]; simp
    obtain ⟨env₁, c₁, heq, s1, s2, s3, s4, s5⟩ := hstep
    rw [heq]
    obtain ⟨i1, i2, i3, i4, i5⟩ := ih env₁ c₁
    refine ⟨fun w h => i1 w (s1 w h), ?_, fun w => by rw [i3 w, s3 w], ?_, ?_⟩
    · intro w rg h
      rcases i2 w rg h with h1 | ⟨h1, h2, h3⟩
      · rcases s2 w rg h1 with h4 | ⟨h4, h5, h6⟩
        · exact Or.inl h4
        · exact Or.inr ⟨h4, by rw [h5]; exact List.mem_cons_self, h6⟩
      · exact Or.inr ⟨h1, List.mem_cons_of_mem _ h2, h3⟩
    · intro w h
      rcases i4 w h with h1 | ⟨h1, h2⟩
      · rcases s4 w h1 with h3 | ⟨h3, h4⟩
        · exact Or.inl h3
        · exact Or.inr ⟨by rw [h3]; exact List.mem_cons_self, h4⟩
      · exact Or.inr ⟨List.mem_cons_of_mem _ h1, h2⟩
    · intro h
      obtain ⟨h1, h2⟩ := i5 h
      obtain ⟨h3, h4⟩ := s5 h1
      refine ⟨h3, fun hne m hm => ?_⟩
      rcases List.mem_cons.mp hm with hm | hm
      · subst hm; exact i1 _ (h4 hne)
      · exact h2 hne m hm

def logStepD (env : DegEnv) (acc : List LogArg × Bool) (x : LogArg) : List LogArg × Bool :=
  match x with
  | .str => (acc.1 ++ [.str], acc.2)
  | .expr e => let (e', c) := if acc.2 then (e, true) else degExpr env e; (acc.1 ++ [.expr e'], c)

theorem degStmt_log (env : DegEnv) (args : List LogArg) :
    degStmt env (.log args) =
      (.log (args.foldl (logStepD env) ([], false)).1, env, (args.foldl (logStepD env) ([], false)).2) := by
  simp only [degStmt]
  rfl

theorem logFoldD_inv (env : DegEnv) (Q : Expr → Prop) (hQ : ∀ e, Q e → Q (degExpr env e).1) :
    ∀ (l : List LogArg) (acc : List LogArg × Bool), (∀ e, LogArg.expr e ∈ acc.1 → Q e) → (∀ e, LogArg.expr e ∈ l → Q e) →
      ∀ e, LogArg.expr e ∈ (l.foldl (logStepD env) acc).1 → Q e := by
  intro l
  induction l with
  | nil => intro acc h1 _ e he; exact h1 e he
  | cons x r ih =>
    intro acc h1 h2 e he
    simp only [List.foldl_cons] at he
    apply ih (logStepD env acc x) _ (fun e he => h2 e (List.mem_cons_of_mem _ he)) e he
    intro e' he'
    cases x with
    | str =>
      simp only [logStepD, List.mem_append, List.mem_singleton] at he'
      rcases he' with h | h
      · exact h1 e' h
      · cases h
    | expr x =>
      unfold logStepD at he'
      cases hc : acc.2 with
      | true =>
        simp only [hc, if_true, List.mem_append, List.mem_singleton] at he'
        rcases he' with h | h
        · exact h1 e' h
        · cases h; exact h2 _ List.mem_cons_self
      | false =>
        simp only [hc, Bool.false_eq_true, if_false, List.mem_append, List.mem_singleton] at he'
        rcases he' with h | h
        · exact h1 e' h
        · cases h; exact hQ _ (h2 _ List.mem_cons_self)

theorem logFoldD_erase (env : DegEnv) :
    ∀ (l : List LogArg) (acc : List LogArg × Bool),
      (l.foldl (logStepD env) acc).1.map eraseL = acc.1.map eraseL ++ l.map eraseL := by
  intro l
  induction l with
  | nil => intro acc; simp
  | cons x r ih =>
    intro acc
    simp only [List.foldl_cons]
    rw [ih]
    cases x with
    | str => simp [logStepD, eraseL]
    | expr e =>
      unfold logStepD
      cases hc : acc.2 with
      | true => simp [hc, eraseL]
      | false => simp [hc, eraseL, erase_degExpr]

/-- degree propagation changes annotations only, statement level -/
theorem eraseS_degStmt (env : DegEnv) (s : Stmt) : eraseS (degStmt env s).1 = eraseS s := by
  cases s with
  | decl names ty dims => rw [degStmt_decl]
  | ite c => simp only [degStmt, eraseS, erase_degExpr]
  | ret e => simp only [degStmt, eraseS, erase_degExpr]
  | sub a v ty op rhe =>
    simp only [degStmt]
    split
    · split
      · split <;> simp only [eraseS, erase_degExpr]
      · simp only [eraseS, erase_degExpr]
    · simp only [eraseS, erase_degExpr]
  | ceq l r =>
    simp only [degStmt]
    cases hc : (degExpr env l).2 with
    | true => simp only [if_true, eraseS, erase_degExpr]
    | false => simp only [Bool.false_eq_true, if_false, eraseS, erase_degExpr]
  | log args =>
    rw [degStmt_log]; simp only [eraseS]; rw [logFoldD_erase]; simp
  | assert e => simp only [degStmt, eraseS, erase_degExpr]

end Circomspect.Propagate
