/-
`SignalAssign.mayAlias` never separates two accesses that denote the same signal, or of which one denotes a part of the other,
under any values of the index expressions that agree with what constant propagation knows.
-/
import Circomspect.Model.SignalAssign

namespace Circomspect.SignalAssign

/-- one step of an access in an execution: a port, or an index with its value -/
inductive CAcc
  | port (name : String)
  | idx (value : String)
  deriving DecidableEq

/-- the step `a` of the program text denotes the step `c` in an execution: a known index value is the value -/
def denotes : Acc → CAcc → Prop
  | .port a, .port c => a = c
  | .idx (some k), .idx v => k = v
  | .idx none, .idx _ => True
  | _, _ => False

def denotesL : List Acc → List CAcc → Prop
  | [], [] => True
  | a :: as, c :: cs => denotes a c ∧ denotesL as cs
  | _, _ => False

/-- `p` is a prefix of `q` -/
def isPrefix : List CAcc → List CAcc → Prop
  | [], _ => True
  | x :: p, y :: q => x = y ∧ isPrefix p q
  | _ :: _, [] => False

theorem accAlias_refl' : ∀ a, accAlias a a = true
  | .port _ => by simp [accAlias]
  | .idx none => by simp [accAlias]
  | .idx (some _) => by simp [accAlias]

theorem accAlias_of_denotes (a b : Acc) (c : CAcc) (ha : denotes a c) (hb : denotes b c) : accAlias a b = true := by
  cases a with
  | port x =>
    cases b with
    | port y =>
      cases c with
      | port z => simp only [denotes] at ha hb; subst ha; subst hb; simp [accAlias]
      | idx _ => simp [denotes] at ha
    | idx v =>
      cases c with
      | port _ => cases v <;> simp [denotes] at hb
      | idx _ => simp [denotes] at ha
  | idx u =>
    cases b with
    | port y =>
      cases c with
      | port _ => cases u <;> simp [denotes] at ha
      | idx _ => simp [denotes] at hb
    | idx v =>
      cases c with
      | port _ => cases u <;> simp [denotes] at ha
      | idx w =>
        cases u with
        | none => cases v <;> simp [accAlias]
        | some k =>
          cases v with
          | none => simp [accAlias]
          | some k' =>
            simp only [denotes] at ha hb
            subst ha; subst hb; simp [accAlias]

/-- if, in some execution, the access `a` denotes `ca`, `b` denotes `cb`, and one of `ca`, `cb` is a prefix of the other — the same
    signal, or an array (a component) and one of its elements (ports) — then the pass identifies `a` and `b` -/
theorem mayAlias_complete : ∀ (a b : List Acc) (ca cb : List CAcc), denotesL a ca → denotesL b cb →
    (isPrefix ca cb ∨ isPrefix cb ca) → mayAlias a b = true
  | [], _, _, _, _, _, _ => by simp [mayAlias]
  | _ :: _, [], _, _, _, _, _ => by simp [mayAlias]
  | x :: a, y :: b, [], _, ha, _, _ => by simp [denotesL] at ha
  | x :: a, y :: b, _ :: _, [], _, hb, _ => by simp [denotesL] at hb
  | x :: a, y :: b, c :: ca, d :: cb, ha, hb, hp => by
    simp only [denotesL] at ha hb
    have hcd : c = d := by
      rcases hp with h | h
      · exact h.1
      · exact h.1.symm
    subst hcd
    have hrest : isPrefix ca cb ∨ isPrefix cb ca := by
      rcases hp with h | h
      · exact Or.inl h.2
      · exact Or.inr h.2
    simp only [mayAlias, Bool.and_eq_true]
    exact ⟨accAlias_of_denotes x y c ha.1 hb.1, mayAlias_complete a b ca cb ha.2 hb.2 hrest⟩

/-- and it separates two accesses only when no execution makes them meet: known, different index values or different ports at
    some position before either access ends -/
theorem mayAlias_false_sound : ∀ (a b : List Acc) (ca cb : List CAcc), mayAlias a b = false → denotesL a ca → denotesL b cb →
    ¬ (isPrefix ca cb ∨ isPrefix cb ca) := by
  intro a b ca cb hf ha hb hp
  have := mayAlias_complete a b ca cb ha hb hp
  rw [hf] at this
  cases this

end Circomspect.SignalAssign
