/-
Lemmas about the model of the SSA construction (C14).
Part 1: the work list of `insert_phi_statements` ends with a placement that is closed under the dominance
frontier: every block in the frontier of a block that writes `v` — through a statement or through a phi
statement — has a phi statement for `v`.
-/
import Circomspect.Model.SsaBuild
import Circomspect.Lemmas.DominatorLemmas
set_option linter.unusedSimpArgs false
set_option linter.unusedVariables false
namespace Circomspect.SsaBuild
open Circomspect.Ssa

/-- the blocks outside the work list are done: their writes have phis throughout their frontier -/
def InvW (n : Nat) (df : Nat → List Nat) (written : Nat → List Var) (wl : List Nat) (P : Phis) : Prop :=
  ∀ x, x < n → x ∉ wl → ∀ v, v ∈ written x ++ P x → ∀ j, j ∈ df x → v ∈ P j

def Closed (n : Nat) (df : Nat → List Nat) (written : Nat → List Var) (P : Phis) : Prop :=
  ∀ x, x < n → ∀ v, v ∈ written x ++ P x → ∀ j, j ∈ df x → v ∈ P j

theorem mem_addPhi (P : Phis) (j : Nat) (v : Var) (k : Nat) (u : Var) :
    u ∈ addPhi P j v k ↔ u ∈ P k ∨ (k = j ∧ u = v) := by
  unfold addPhi
  by_cases h : k = j
  · simp [h]; constructor
    · rintro (h1 | h1); exact Or.inr h1; exact Or.inl h1
    · rintro (h1 | h1); exact Or.inr h1; exact Or.inl h1
  · simp [h]

/-- what one frontier block does -/
theorem frontierStep_spec (j : Nat) : ∀ (W : List Var) (P : Phis) (wl : List Nat),
    let r := frontierStep W j (P, wl)
    (∀ v, v ∈ W → v ∈ r.1 j) ∧
    (∀ k u, u ∈ P k → u ∈ r.1 k) ∧
    (∀ k u, u ∈ r.1 k → u ∈ P k ∨ (k = j ∧ u ∈ W)) ∧
    (∀ y, y ∈ wl → y ∈ r.2) ∧ (∀ y, y ∈ r.2 → y ∈ wl ∨ y = j) ∧
    (j ∉ r.2 → ∀ u, u ∈ r.1 j → u ∈ P j) := by
  intro W
  induction W with
  | nil =>
    intro P wl
    refine ⟨fun v h => (List.not_mem_nil h).elim, fun _ _ h => h, fun _ _ h => Or.inl h, fun _ h => h, fun _ h => Or.inl h, fun _ _ h => h⟩
  | cons w ws ih =>
    intro P wl
    simp only [frontierStep, List.foldl_cons]
    by_cases hp : hasPhi P j w = true
    · simp only [hp, if_true]
      obtain ⟨i1, i2, i3, i4, i5, i6⟩ := ih P wl
      refine ⟨?_, i2, ?_, i4, i5, i6⟩
      · intro v hv
        rcases List.mem_cons.mp hv with h | h
        · subst h; apply i2; simpa [hasPhi] using hp
        · exact i1 v h
      · intro k u hu
        rcases i3 k u hu with h | ⟨h1, h2⟩
        · exact Or.inl h
        · exact Or.inr ⟨h1, List.mem_cons_of_mem _ h2⟩
    · simp only [hp, Bool.false_eq_true, if_false]
      obtain ⟨i1, i2, i3, i4, i5, i6⟩ := ih (addPhi P j w) (wl ++ [j])
      refine ⟨?_, ?_, ?_, ?_, ?_, ?_⟩
      · intro v hv
        rcases List.mem_cons.mp hv with h | h
        · subst h; apply i2; rw [mem_addPhi]; exact Or.inr ⟨rfl, rfl⟩
        · exact i1 v h
      · intro k u hu; apply i2; rw [mem_addPhi]; exact Or.inl hu
      · intro k u hu
        rcases i3 k u hu with h | ⟨h1, h2⟩
        · rcases (mem_addPhi P j w k u).mp h with h' | ⟨h1, h2⟩
          · exact Or.inl h'
          · exact Or.inr ⟨h1, by rw [h2]; exact List.mem_cons_self⟩
        · exact Or.inr ⟨h1, List.mem_cons_of_mem _ h2⟩
      · intro y hy; apply i4; exact List.mem_append_left _ hy
      · intro y hy
        rcases i5 y hy with h | h
        · rcases List.mem_append.mp h with h' | h'
          · exact Or.inl h'
          · simp at h'; exact Or.inr h'
        · exact Or.inr h
      · intro hj
        exfalso; apply hj; apply i4; simp

/-- the loop over the frontier of the popped block -/
theorem frontierFold_spec (W : List Var) : ∀ (fr : List Nat) (P : Phis) (wl : List Nat),
    let r := fr.foldl (fun acc j => frontierStep W j acc) (P, wl)
    (∀ j, j ∈ fr → ∀ v, v ∈ W → v ∈ r.1 j) ∧
    (∀ k u, u ∈ P k → u ∈ r.1 k) ∧
    (∀ k u, u ∈ r.1 k → u ∈ P k ∨ (k ∈ fr ∧ u ∈ W)) ∧
    (∀ y, y ∈ wl → y ∈ r.2) ∧ (∀ y, y ∈ r.2 → y ∈ wl ∨ y ∈ fr) ∧
    (∀ k, k ∉ r.2 → ∀ u, u ∈ r.1 k → u ∈ P k) := by
  intro fr
  induction fr with
  | nil =>
    intro P wl
    refine ⟨fun j h => (List.not_mem_nil h).elim, fun _ _ h => h, fun _ _ h => Or.inl h, fun _ h => h, fun _ h => Or.inl h, fun _ _ _ h => h⟩
  | cons j js ih =>
    intro P wl
    simp only [List.foldl_cons]
    obtain ⟨s1, s2, s3, s4, s5, s6⟩ := frontierStep_spec j W P wl
    obtain ⟨i1, i2, i3, i4, i5, i6⟩ := ih (frontierStep W j (P, wl)).1 (frontierStep W j (P, wl)).2
    refine ⟨?_, ?_, ?_, ?_, ?_, ?_⟩
    · intro k hk v hv
      rcases List.mem_cons.mp hk with h | h
      · subst h; exact i2 _ _ (s1 v hv)
      · exact i1 k h v hv
    · intro k u hu; exact i2 k u (s2 k u hu)
    · intro k u hu
      rcases i3 k u hu with h | ⟨h1, h2⟩
      · rcases s3 k u h with h' | ⟨h1, h2⟩
        · exact Or.inl h'
        · exact Or.inr ⟨by rw [h1]; exact List.mem_cons_self, h2⟩
      · exact Or.inr ⟨List.mem_cons_of_mem _ h1, h2⟩
    · intro y hy; exact i4 y (s4 y hy)
    · intro y hy
      rcases i5 y hy with h | h
      · rcases s5 y h with h' | h'
        · exact Or.inl h'
        · exact Or.inr (by rw [h']; exact List.mem_cons_self)
      · exact Or.inr (List.mem_cons_of_mem _ h)
    · intro k hk u hu
      have hk' : k ∉ (frontierStep W j (P, wl)).2 := fun hm => hk (i4 k hm)
      have h1 := i6 k hk u hu
      by_cases hkj : k = j
      · subst hkj; exact s6 hk' u h1
      · rcases s3 k u h1 with h' | ⟨h2, _⟩
        · exact h'
        · exact absurd h2 hkj

theorem getLast_split {α : Type} (l : List α) (x : α) (h : l.getLast? = some x) : l = l.dropLast ++ [x] := by
  have hne : l ≠ [] := by intro e; rw [e] at h; cases h
  have := List.dropLast_concat_getLast hne
  rw [List.getLast?_eq_some_getLast hne] at h
  cases h
  exact this.symm

/-- one iteration of the work list keeps the invariant -/
theorem invW_step (n : Nat) (df : Nat → List Nat) (written : Nat → List Var) (wl : List Nat) (P : Phis) (cur : Nat)
    (h : InvW n df written wl P) (hl : wl.getLast? = some cur) :
    let r := (df cur).foldl (fun acc j => frontierStep (written cur ++ P cur) j acc) (P, wl.dropLast)
    InvW n df written r.2 r.1 := by
  intro r
  obtain ⟨g1, g2, g3, g4, g5, g6⟩ := frontierFold_spec (written cur ++ P cur) (df cur) P wl.dropLast
  intro x hx hxr v hv j hj
  have hsplit := getLast_split wl cur hl
  have hxd : x ∉ wl.dropLast := fun hm => hxr (g4 x hm)
  have hv' : v ∈ written x ++ P x := by
    rcases List.mem_append.mp hv with h1 | h1
    · exact List.mem_append_left _ h1
    · exact List.mem_append_right _ (g6 x hxr v h1)
  by_cases hxc : x = cur
  · subst hxc; exact g1 j hj v hv'
  · have hxw : x ∉ wl := by
      rw [hsplit]; intro hm
      rcases List.mem_append.mp hm with h1 | h1
      · exact hxd h1
      · simp at h1; exact hxc h1
    exact g2 j v (h x hx hxw v hv' j hj)

/-- when the work list is empty the placement is closed -/
theorem insertPhis_closed (n : Nat) (df : Nat → List Nat) (written : Nat → List Var) :
    ∀ (fuel : Nat) (wl : List Nat) (P Pf : Phis), InvW n df written wl P →
      insertPhis df written fuel wl P = some Pf → Closed n df written Pf := by
  intro fuel
  induction fuel with
  | zero =>
    intro wl P Pf hinv h
    simp only [insertPhis] at h
    split at h
    · rename_i he
      cases h
      have : wl = [] := by simpa using he
      subst this
      exact fun x hx v hv j hj => hinv x hx (by simp) v hv j hj
    · cases h
  | succ f ih =>
    intro wl P Pf hinv h
    simp only [insertPhis] at h
    cases hl : wl.getLast? with
    | none =>
      rw [hl] at h; cases h
      have : wl = [] := by simpa using hl
      subst this
      exact fun x hx v hv j hj => hinv x hx (by simp) v hv j hj
    | some cur =>
      rw [hl] at h
      exact ih _ _ Pf (invW_step n df written wl P cur hinv hl) h

/-- **closure of the phi placement**: started as the code starts it (every block on the work list, no phi
    statement yet), a run that empties the work list ends with a closed placement -/
theorem insertPhis_closed_init (n : Nat) (df : Nat → List Nat) (written : Nat → List Var) (fuel : Nat) (Pf : Phis)
    (h : insertPhis df written fuel (List.range n) (fun _ => []) = some Pf) : Closed n df written Pf :=
  insertPhis_closed n df written fuel (List.range n) (fun _ => []) Pf
    (fun x hx hxn => absurd (List.mem_range.mpr hx) hxn) h

-- ---------------------------------------------------------------------------- part 2: the renaming

open Circomspect.Graph Circomspect.DominatorLemmas

/-- the graph of a CFG before SSA conversion -/
def graphP (c : PCfg) : Graph := { n := c.blocks.length, pred := fun i => (c.block i).preds }

/-- the hypotheses of the construction theorem: the graph is rooted; `idom` is the immediate-dominator
    function (C15) and decreases the block index (C12); the phi placement is closed under the dominance
    frontier (part 1, with `df` the frontier computed by C15's model) and only mentions known variables -/
structure BuildHyp (c : PCfg) (P : Phis) (idom : Nat → Nat) (vars : List Var) : Prop where
  rooted : Rooted (graphP c)
  idom_ok : ∀ i, 0 < i → i < c.blocks.length → IDom (graphP c) (idom i) i
  idom_lt : ∀ i, 0 < i → i < c.blocks.length → idom i < i
  closed : ∀ x, x < c.blocks.length → ∀ v, v ∈ written c x ++ P x → ∀ j, InFrontier (graphP c) x j → v ∈ P j
  phiVars : ∀ i v, v ∈ P i → v ∈ vars

theorem insOf_zero (V : Versions) (c : PCfg) (P : Phis) (idom : Nat → Nat) : insOf V c P idom 0 = entryMap c.params := by
  rw [insOf]; simp

theorem insOf_succ (V : Versions) (c : PCfg) (P : Phis) (idom : Nat → Nat) (i : Nat) (h0 : 0 < i) (hlt : idom i < i) :
    insOf V c P idom i = outOfB V c P idom (idom i) := by
  rw [insOf]
  simp only [h0, hlt, and_self, dite_true, outOfB]

theorem set_other (m : VMap) (v w : Var) (k : Nat) (h : w ≠ v) : m.set v k w = m w := by
  simp [VMap.set, h]
theorem set_same (m : VMap) (v : Var) (k : Nat) : m.set v k v = some k := by
  simp [VMap.set]

theorem stepMap_other (V : Versions) (i k : Nat) (m : VMap) (s : PStmt) (w : Var) (h : s.target ≠ some w) :
    stepMap V i k m s w = m w := by
  unfold stepMap
  cases ht : s.target with
  | none =>
    cases s.upd <;> simp
  | some v =>
    have hvw : w ≠ v := by intro e; subst e; exact h ht
    cases s.upd with
    | false => simp [set_other _ _ _ _ hvw]
    | true =>
      simp only
      rw [set_other _ _ _ _ hvw]
      split
      · exact set_other _ _ _ _ hvw
      · rfl

theorem stepMaps_other (V : Versions) (i : Nat) (w : Var) : ∀ (ss : List PStmt) (k : Nat) (m : VMap),
    (∀ s, s ∈ ss → s.target ≠ some w) → stepMaps V i k m ss w = m w := by
  intro ss
  induction ss with
  | nil => intro k m _; rfl
  | cons s rest ih =>
    intro k m h
    simp only [stepMaps]
    rw [ih (k + 1) _ (fun t ht => h t (List.mem_cons_of_mem _ ht)), stepMap_other V i k m s w (h s List.mem_cons_self)]

theorem phiMap_other (V : Versions) (P : Phis) (i : Nat) (w : Var) (h : w ∉ P i) (m : VMap) : phiMap V P i m w = m w := by
  unfold phiMap
  have key : ∀ (l : List Var) (m : VMap), w ∉ l → (l.foldl (fun m v => m.set v (V.phi i v)) m) w = m w := by
    intro l
    induction l with
    | nil => intro m _; rfl
    | cons v vs ih =>
      intro m hl
      simp only [List.foldl_cons]
      rw [ih _ (fun hm => hl (List.mem_cons_of_mem _ hm))]
      exact set_other _ _ _ _ (fun e => hl (by rw [e]; exact List.mem_cons_self))
  exact key (P i) m h

/-- a block that neither assigns nor has a phi statement for `w` leaves its version alone -/
theorem blockOut_other (V : Versions) (c : PCfg) (P : Phis) (i : Nat) (w : Var) (h : w ∉ written c i ++ P i) (m : VMap) :
    blockOut V c P i m w = m w := by
  unfold blockOut
  have h1 : w ∉ written c i := fun hm => h (List.mem_append_left _ hm)
  have h2 : w ∉ P i := fun hm => h (List.mem_append_right _ hm)
  rw [stepMaps_other V i w _ 0 _ ?_, phiMap_other V P i w h2]
  intro s hs ht
  exact h1 (List.mem_filterMap.mpr ⟨s, hs, ht⟩)

/-- up the dominator tree from a predecessor `p` of `i` to the immediate dominator `d` of `i`: if `i` has no
    phi statement for `v`, no block on the way defines `v`, so the version at the end of `p` is the version
    at the end of `d` -/
theorem chain_out (V : Versions) (c : PCfg) (P : Phis) (idom : Nat → Nat) (vars : List Var) (H : BuildHyp c P idom vars)
    (i p : Nat) (v : Var) (hi : i < c.blocks.length) (hi0 : 0 < i) (hp : p ∈ (c.block i).preds) (hv : v ∉ P i) :
    ∀ x, x < c.blocks.length → Dom (graphP c) (idom i) x → Dom (graphP c) x p →
      outOfB V c P idom x v = outOfB V c P idom (idom i) v := by
  intro x
  induction x using Nat.strongRecOn with
  | _ x ih =>
    intro hx hdx hxp
    by_cases hxd : x = idom i
    · rw [hxd]
    · have hidom := H.idom_ok i hi0 hi
      -- `x` is not the entry block
      have hx0 : 0 < x := by
        rcases Nat.eq_zero_or_pos x with h0 | h0
        · exfalso
          subst h0
          have := hdx [0] Path.root
          simp at this
          exact hxd this.symm
        · exact h0
      -- `x` does not define `v`: otherwise `i` is in its dominance frontier and has a phi for `v`
      have hnd : v ∉ written c x ++ P x := by
        intro hm
        apply hv
        apply H.closed x hx v hm i
        refine ⟨hi, ⟨p, hp, hxp⟩, ?_⟩
        intro hs
        have h1 : Dom (graphP c) x (idom i) := hidom.2 x hs
        exact hxd (dom_antisymm (H.rooted.reach x hx) hxp |> fun _ => dom_antisymm (H.rooted.reach x hx) h1 hdx)
      have hidx := H.idom_ok x hx0 hx
      have hlt := H.idom_lt x hx0 hx
      unfold outOfB
      rw [blockOut_other V c P x v hnd, insOf_succ V c P idom x hx0 hlt]
      apply ih (idom x) hlt (by omega)
      · exact hidx.2 (idom i) ⟨hdx, fun e => hxd e.symm⟩
      · exact dom_trans hidx.1.1 hxp

/-- **the join condition**: on an edge into a block that has no phi statement for `v`, the version at the
    end of the predecessor is the version assumed at the entry of the block -/
theorem edge_no_phi (V : Versions) (c : PCfg) (P : Phis) (idom : Nat → Nat) (vars : List Var) (H : BuildHyp c P idom vars)
    (i p : Nat) (v : Var) (hi : i < c.blocks.length) (hp : p ∈ (c.block i).preds) (hv : v ∉ P i) :
    outOfB V c P idom p v = insOf V c P idom i v := by
  have hi0 : 0 < i := by
    rcases Nat.eq_zero_or_pos i with h0 | h0
    · subst h0
      have := H.rooted.entry
      simp only [graphP] at this
      rw [this] at hp; cases hp
    · exact h0
  have hidom := H.idom_ok i hi0 hi
  have hplt : p < c.blocks.length := H.rooted.closed i hi p hp
  rw [insOf_succ V c P idom i hi0 (H.idom_lt i hi0 hi)]
  apply chain_out V c P idom vars H i p v hi hi0 hp hv p hplt
  · exact dom_pred hidom.1.1 hidom.1.2 hp hi
  · exact dom_refl _ p

end Circomspect.SsaBuild
