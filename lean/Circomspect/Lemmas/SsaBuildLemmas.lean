/-
Lemmas about the model of the SSA construction (C14).
Part 1: the work list of `insert_phi_statements` ends with a placement that is closed under the dominance
frontier: every block in the frontier of a block that writes `v` — through a statement or through a phi
statement — has a phi statement for `v`.
-/
import Circomspect.Model.SsaBuild
import Circomspect.Lemmas.DominatorLemmas
set_option linter.unusedSimpArgs false
set_option linter.unusedVariables false
namespace Circomspect.SsaBuild
open Circomspect.Ssa

/-- the blocks outside the work list are done: their writes have phis throughout their frontier -/
def InvW (n : Nat) (df : Nat → List Nat) (written : Nat → List Var) (wl : List Nat) (P : Phis) : Prop :=
  ∀ x, x < n → x ∉ wl → ∀ v, v ∈ written x ++ P x → ∀ j, j ∈ df x → v ∈ P j

def Closed (n : Nat) (df : Nat → List Nat) (written : Nat → List Var) (P : Phis) : Prop :=
  ∀ x, x < n → ∀ v, v ∈ written x ++ P x → ∀ j, j ∈ df x → v ∈ P j

theorem mem_addPhi (P : Phis) (j : Nat) (v : Var) (k : Nat) (u : Var) :
    u ∈ addPhi P j v k ↔ u ∈ P k ∨ (k = j ∧ u = v) := by
  unfold addPhi
  by_cases h : k = j
  · simp [h]; constructor
    · rintro (h1 | h1); exact Or.inr h1; exact Or.inl h1
    · rintro (h1 | h1); exact Or.inr h1; exact Or.inl h1
  · simp [h]

/-- what one frontier block does -/
theorem frontierStep_spec (j : Nat) : ∀ (W : List Var) (P : Phis) (wl : List Nat),
    let r := frontierStep W j (P, wl)
    (∀ v, v ∈ W → v ∈ r.1 j) ∧
    (∀ k u, u ∈ P k → u ∈ r.1 k) ∧
    (∀ k u, u ∈ r.1 k → u ∈ P k ∨ (k = j ∧ u ∈ W)) ∧
    (∀ y, y ∈ wl → y ∈ r.2) ∧ (∀ y, y ∈ r.2 → y ∈ wl ∨ y = j) ∧
    (j ∉ r.2 → ∀ u, u ∈ r.1 j → u ∈ P j) := by
  intro W
  induction W with
  | nil =>
    intro P wl
    refine ⟨fun v h => (List.not_mem_nil h).elim, fun _ _ h => h, fun _ _ h => Or.inl h, fun _ h => h, fun _ h => Or.inl h, fun _ _ h => h⟩
  | cons w ws ih =>
    intro P wl
    simp only [frontierStep, List.foldl_cons]
    by_cases hp : hasPhi P j w = true
    · simp only [hp, if_true]
      obtain ⟨i1, i2, i3, i4, i5, i6⟩ := ih P wl
      refine ⟨?_, i2, ?_, i4, i5, i6⟩
      · intro v hv
        rcases List.mem_cons.mp hv with h | h
        · subst h; apply i2; simpa [hasPhi] using hp
        · exact i1 v h
      · intro k u hu
        rcases i3 k u hu with h | ⟨h1, h2⟩
        · exact Or.inl h
        · exact Or.inr ⟨h1, List.mem_cons_of_mem _ h2⟩
    · simp only [hp, Bool.false_eq_true, if_false]
      obtain ⟨i1, i2, i3, i4, i5, i6⟩ := ih (addPhi P j w) (wl ++ [j])
      refine ⟨?_, ?_, ?_, ?_, ?_, ?_⟩
      · intro v hv
        rcases List.mem_cons.mp hv with h | h
        · subst h; apply i2; rw [mem_addPhi]; exact Or.inr ⟨rfl, rfl⟩
        · exact i1 v h
      · intro k u hu; apply i2; rw [mem_addPhi]; exact Or.inl hu
      · intro k u hu
        rcases i3 k u hu with h | ⟨h1, h2⟩
        · rcases (mem_addPhi P j w k u).mp h with h' | ⟨h1, h2⟩
          · exact Or.inl h'
          · exact Or.inr ⟨h1, by rw [h2]; exact List.mem_cons_self⟩
        · exact Or.inr ⟨h1, List.mem_cons_of_mem _ h2⟩
      · intro y hy; apply i4; exact List.mem_append_left _ hy
      · intro y hy
        rcases i5 y hy with h | h
        · rcases List.mem_append.mp h with h' | h'
          · exact Or.inl h'
          · simp at h'; exact Or.inr h'
        · exact Or.inr h
      · intro hj
        exfalso; apply hj; apply i4; simp

/-- the loop over the frontier of the popped block -/
theorem frontierFold_spec (W : List Var) : ∀ (fr : List Nat) (P : Phis) (wl : List Nat),
    let r := fr.foldl (fun acc j => frontierStep W j acc) (P, wl)
    (∀ j, j ∈ fr → ∀ v, v ∈ W → v ∈ r.1 j) ∧
    (∀ k u, u ∈ P k → u ∈ r.1 k) ∧
    (∀ k u, u ∈ r.1 k → u ∈ P k ∨ (k ∈ fr ∧ u ∈ W)) ∧
    (∀ y, y ∈ wl → y ∈ r.2) ∧ (∀ y, y ∈ r.2 → y ∈ wl ∨ y ∈ fr) ∧
    (∀ k, k ∉ r.2 → ∀ u, u ∈ r.1 k → u ∈ P k) := by
  intro fr
  induction fr with
  | nil =>
    intro P wl
    refine ⟨fun j h => (List.not_mem_nil h).elim, fun _ _ h => h, fun _ _ h => Or.inl h, fun _ h => h, fun _ h => Or.inl h, fun _ _ _ h => h⟩
  | cons j js ih =>
    intro P wl
    simp only [List.foldl_cons]
    obtain ⟨s1, s2, s3, s4, s5, s6⟩ := frontierStep_spec j W P wl
    obtain ⟨i1, i2, i3, i4, i5, i6⟩ := ih (frontierStep W j (P, wl)).1 (frontierStep W j (P, wl)).2
    refine ⟨?_, ?_, ?_, ?_, ?_, ?_⟩
    · intro k hk v hv
      rcases List.mem_cons.mp hk with h | h
      · subst h; exact i2 _ _ (s1 v hv)
      · exact i1 k h v hv
    · intro k u hu; exact i2 k u (s2 k u hu)
    · intro k u hu
      rcases i3 k u hu with h | ⟨h1, h2⟩
      · rcases s3 k u h with h' | ⟨h1, h2⟩
        · exact Or.inl h'
        · exact Or.inr ⟨by rw [h1]; exact List.mem_cons_self, h2⟩
      · exact Or.inr ⟨List.mem_cons_of_mem _ h1, h2⟩
    · intro y hy; exact i4 y (s4 y hy)
    · intro y hy
      rcases i5 y hy with h | h
      · rcases s5 y h with h' | h'
        · exact Or.inl h'
        · exact Or.inr (by rw [h']; exact List.mem_cons_self)
      · exact Or.inr (List.mem_cons_of_mem _ h)
    · intro k hk u hu
      have hk' : k ∉ (frontierStep W j (P, wl)).2 := fun hm => hk (i4 k hm)
      have h1 := i6 k hk u hu
      by_cases hkj : k = j
      · subst hkj; exact s6 hk' u h1
      · rcases s3 k u h1 with h' | ⟨h2, _⟩
        · exact h'
        · exact absurd h2 hkj

theorem getLast_split {α : Type} (l : List α) (x : α) (h : l.getLast? = some x) : l = l.dropLast ++ [x] := by
  have hne : l ≠ [] := by intro e; rw [e] at h; cases h
  have := List.dropLast_concat_getLast hne
  rw [List.getLast?_eq_some_getLast hne] at h
  cases h
  exact this.symm

/-- one iteration of the work list keeps the invariant -/
theorem invW_step (n : Nat) (df : Nat → List Nat) (written : Nat → List Var) (wl : List Nat) (P : Phis) (cur : Nat)
    (h : InvW n df written wl P) (hl : wl.getLast? = some cur) :
    let r := (df cur).foldl (fun acc j => frontierStep (written cur ++ P cur) j acc) (P, wl.dropLast)
    InvW n df written r.2 r.1 := by
  intro r
  obtain ⟨g1, g2, g3, g4, g5, g6⟩ := frontierFold_spec (written cur ++ P cur) (df cur) P wl.dropLast
  intro x hx hxr v hv j hj
  have hsplit := getLast_split wl cur hl
  have hxd : x ∉ wl.dropLast := fun hm => hxr (g4 x hm)
  have hv' : v ∈ written x ++ P x := by
    rcases List.mem_append.mp hv with h1 | h1
    · exact List.mem_append_left _ h1
    · exact List.mem_append_right _ (g6 x hxr v h1)
  by_cases hxc : x = cur
  · subst hxc; exact g1 j hj v hv'
  · have hxw : x ∉ wl := by
      rw [hsplit]; intro hm
      rcases List.mem_append.mp hm with h1 | h1
      · exact hxd h1
      · simp at h1; exact hxc h1
    exact g2 j v (h x hx hxw v hv' j hj)

/-- when the work list is empty the placement is closed -/
theorem insertPhis_closed (n : Nat) (df : Nat → List Nat) (written : Nat → List Var) :
    ∀ (fuel : Nat) (wl : List Nat) (P Pf : Phis), InvW n df written wl P →
      insertPhis df written fuel wl P = some Pf → Closed n df written Pf := by
  intro fuel
  induction fuel with
  | zero =>
    intro wl P Pf hinv h
    simp only [insertPhis] at h
    split at h
    · rename_i he
      cases h
      have : wl = [] := by simpa using he
      subst this
      exact fun x hx v hv j hj => hinv x hx (by simp) v hv j hj
    · cases h
  | succ f ih =>
    intro wl P Pf hinv h
    simp only [insertPhis] at h
    cases hl : wl.getLast? with
    | none =>
      rw [hl] at h; cases h
      have : wl = [] := by simpa using hl
      subst this
      exact fun x hx v hv j hj => hinv x hx (by simp) v hv j hj
    | some cur =>
      rw [hl] at h
      exact ih _ _ Pf (invW_step n df written wl P cur hinv hl) h

/-- **closure of the phi placement**: started as the code starts it (every block on the work list, no phi
    statement yet), a run that empties the work list ends with a closed placement -/
theorem insertPhis_closed_init (n : Nat) (df : Nat → List Nat) (written : Nat → List Var) (fuel : Nat) (Pf : Phis)
    (h : insertPhis df written fuel (List.range n) (fun _ => []) = some Pf) : Closed n df written Pf :=
  insertPhis_closed n df written fuel (List.range n) (fun _ => []) Pf
    (fun x hx hxn => absurd (List.mem_range.mpr hx) hxn) h

/-- phi statements are only inserted for variables that some block writes -/
theorem insertPhis_vars (df : Nat → List Nat) (written : Nat → List Var) (Q : Var → Prop) (hQ : ∀ x v, v ∈ written x → Q v) :
    ∀ (fuel : Nat) (wl : List Nat) (P Pf : Phis), (∀ j v, v ∈ P j → Q v) →
      insertPhis df written fuel wl P = some Pf → ∀ j v, v ∈ Pf j → Q v := by
  intro fuel
  induction fuel with
  | zero =>
    intro wl P Pf hP h
    simp only [insertPhis] at h
    split at h
    · cases h; exact hP
    · cases h
  | succ f ih =>
    intro wl P Pf hP h
    simp only [insertPhis] at h
    cases hl : wl.getLast? with
    | none => rw [hl] at h; cases h; exact hP
    | some cur =>
      rw [hl] at h
      obtain ⟨_, _, g3, _, _, _⟩ := frontierFold_spec (written cur ++ P cur) (df cur) P wl.dropLast
      apply ih _ _ Pf ?_ h
      intro j v hv
      rcases g3 j v hv with h1 | ⟨_, h2⟩
      · exact hP j v h1
      · rcases List.mem_append.mp h2 with h3 | h3
        · exact hQ cur v h3
        · exact hP cur v h3

/-- **the placement is the least closed one**: every phi statement the work list inserts is in every placement that is
    closed under the dominance frontier — so the set of phi statements does not depend on the order in which blocks and
    variables are taken (work-list order, hash order of `variables_written`) -/
theorem insertPhis_least (n : Nat) (df : Nat → List Nat) (written : Nat → List Var) (hdf : ∀ x j, j ∈ df x → j < n)
    (Q : Phis) (hQ : Closed n df written Q) :
    ∀ (fuel : Nat) (wl : List Nat) (P Pf : Phis), (∀ y, y ∈ wl → y < n) → (∀ j v, v ∈ P j → v ∈ Q j) →
      insertPhis df written fuel wl P = some Pf → ∀ j v, v ∈ Pf j → v ∈ Q j := by
  intro fuel
  induction fuel with
  | zero =>
    intro wl P Pf _ hP h
    simp only [insertPhis] at h
    split at h
    · cases h; exact hP
    · cases h
  | succ f ih =>
    intro wl P Pf hwl hP h
    simp only [insertPhis] at h
    cases hl : wl.getLast? with
    | none => rw [hl] at h; cases h; exact hP
    | some cur =>
      rw [hl] at h
      have hsplit := getLast_split wl cur hl
      have hcur : cur < n := hwl cur (by rw [hsplit]; simp)
      obtain ⟨_, _, g3, _, g5, _⟩ := frontierFold_spec (written cur ++ P cur) (df cur) P wl.dropLast
      apply ih _ _ Pf ?_ ?_ h
      · intro y hy
        rcases g5 y hy with h1 | h1
        · exact hwl y (by rw [hsplit]; exact List.mem_append_left _ h1)
        · exact hdf cur y h1
      · intro j v hv
        rcases g3 j v hv with h1 | ⟨h1, h2⟩
        · exact hP j v h1
        · apply hQ cur hcur v ?_ j h1
          rcases List.mem_append.mp h2 with h3 | h3
          · exact List.mem_append_left _ h3
          · exact List.mem_append_right _ (hP cur v h3)

-- ---------------------------------------------------------------------------- termination of the work list

/-- the rows of a placement: nothing outside the graph, no variable twice, only variables that are written -/
structure RowsOK (n : Nat) (allW : List Var) (P : Phis) : Prop where
  out : ∀ j, n ≤ j → P j = []
  nodup : ∀ j, (P j).Nodup
  sub : ∀ j v, v ∈ P j → v ∈ allW

def sizeP (n : Nat) (P : Phis) : Nat := ((List.range n).map (fun j => (P j).length)).sum

theorem sum_map_succ_at (f f' : Nat → Nat) (i : Nat) : ∀ (l : List Nat), l.Nodup → i ∈ l →
    (∀ k, k ≠ i → f' k = f k) → f' i = f i + 1 → (l.map f').sum = (l.map f).sum + 1 := by
  intro l
  induction l with
  | nil => intro _ hi; cases hi
  | cons x xs ih =>
    intro hnd hi hoth hat
    simp only [List.map_cons, List.sum_cons]
    have hnd' := List.nodup_cons.mp hnd
    by_cases hx : x = i
    · subst hx
      have : xs.map f' = xs.map f := by
        apply List.map_congr_left
        intro k hk
        exact hoth k (fun e => hnd'.1 (e ▸ hk))
      rw [this, hat]; omega
    · have hi' : i ∈ xs := by
        rcases List.mem_cons.mp hi with e | e
        · exact absurd e.symm hx
        · exact e
      rw [hoth x hx, ih hnd'.2 hi' hoth hat]; omega

theorem sizeP_addPhi (n : Nat) (P : Phis) (j : Nat) (v : Var) (hj : j < n) : sizeP n (addPhi P j v) = sizeP n P + 1 := by
  unfold sizeP
  apply sum_map_succ_at _ _ j (List.range n) List.nodup_range (List.mem_range.mpr hj)
  · intro k hk; simp [addPhi, hk]
  · simp [addPhi]

theorem sizeP_le (n : Nat) (allW : List Var) (P : Phis) (h : RowsOK n allW P) : sizeP n P ≤ n * allW.length := by
  unfold sizeP
  have : ∀ (l : List Nat), ((l.map (fun j => (P j).length)).sum) ≤ l.length * allW.length := by
    intro l
    induction l with
    | nil => simp
    | cons x xs ih =>
      simp only [List.map_cons, List.sum_cons, List.length_cons]
      have := List.Nodup.length_le_of_subset (h.nodup x) (fun v hv => h.sub x v hv)
      rw [Nat.add_mul]; omega
  simpa using this (List.range n)

theorem rowsOK_addPhi (n : Nat) (allW : List Var) (P : Phis) (j : Nat) (v : Var) (h : RowsOK n allW P)
    (hj : j < n) (hv : v ∈ allW) (hnew : hasPhi P j v = false) : RowsOK n allW (addPhi P j v) := by
  refine ⟨?_, ?_, ?_⟩
  · intro k hk
    have : k ≠ j := by omega
    simp [addPhi, this, h.out k hk]
  · intro k
    by_cases hkj : k = j
    · subst hkj
      simp only [addPhi, if_true]
      exact List.nodup_cons.mpr ⟨by simpa [hasPhi] using hnew, h.nodup k⟩
    · simp [addPhi, hkj, h.nodup k]
  · intro k u hu
    rcases (mem_addPhi P j v k u).mp hu with h1 | ⟨_, h2⟩
    · exact h.sub k u h1
    · rw [h2]; exact hv

/-- one frontier block: as many pushes as new phi statements -/
theorem frontierStep_count (n : Nat) (allW : List Var) (j : Nat) (hj : j < n) : ∀ (W : List Var) (P : Phis) (wl : List Nat),
    (∀ v, v ∈ W → v ∈ allW) → RowsOK n allW P →
    let r := frontierStep W j (P, wl)
    RowsOK n allW r.1 ∧ ∃ k, sizeP n r.1 = sizeP n P + k ∧ r.2.length = wl.length + k := by
  intro W
  induction W with
  | nil => intro P wl _ h; exact ⟨h, 0, rfl, rfl⟩
  | cons w ws ih =>
    intro P wl hW h
    simp only [frontierStep, List.foldl_cons]
    by_cases hp : hasPhi P j w = true
    · simp only [hp, if_true]
      exact ih P wl (fun v hv => hW v (List.mem_cons_of_mem _ hv)) h
    · have hp' : hasPhi P j w = false := by simpa using hp
      simp only [hp', Bool.false_eq_true, if_false]
      have h1 := rowsOK_addPhi n allW P j w h hj (hW w List.mem_cons_self) hp'
      obtain ⟨r1, k, e1, e2⟩ := ih (addPhi P j w) (wl ++ [j]) (fun v hv => hW v (List.mem_cons_of_mem _ hv)) h1
      have e1' : sizeP n (frontierStep ws j (addPhi P j w, wl ++ [j])).1 = sizeP n P + (k + 1) := by
        rw [e1, sizeP_addPhi n P j w hj]; omega
      have e2' : (frontierStep ws j (addPhi P j w, wl ++ [j])).2.length = wl.length + (k + 1) := by
        rw [e2]; simp; omega
      exact ⟨r1, k + 1, e1', e2'⟩

theorem frontierFold_count (n : Nat) (allW : List Var) (W : List Var) (hW : ∀ v, v ∈ W → v ∈ allW) :
    ∀ (fr : List Nat) (P : Phis) (wl : List Nat), (∀ j, j ∈ fr → j < n) → RowsOK n allW P →
    let r := fr.foldl (fun acc j => frontierStep W j acc) (P, wl)
    RowsOK n allW r.1 ∧ ∃ k, sizeP n r.1 = sizeP n P + k ∧ r.2.length = wl.length + k := by
  intro fr
  induction fr with
  | nil => intro P wl _ h; exact ⟨h, 0, rfl, rfl⟩
  | cons j js ih =>
    intro P wl hfr h
    simp only [List.foldl_cons]
    obtain ⟨s1, k1, a1, a2⟩ := frontierStep_count n allW j (hfr j List.mem_cons_self) W P wl hW h
    obtain ⟨s2, k2, b1, b2⟩ := ih (frontierStep W j (P, wl)).1 (frontierStep W j (P, wl)).2
      (fun x hx => hfr x (List.mem_cons_of_mem _ hx)) s1
    exact ⟨s2, k1 + k2, by rw [b1, a1]; omega, by rw [b2, a2]; omega⟩

/-- **the work list terminates**: with `|work list| + 2 * (n * |variables| - |phis placed|)` fuel the run ends
    with an empty list -/
theorem insertPhis_terminates (n : Nat) (allW : List Var) (df : Nat → List Nat) (written : Nat → List Var)
    (hdf : ∀ x j, j ∈ df x → j < n) (hwr : ∀ x v, v ∈ written x → v ∈ allW) :
    ∀ (fuel : Nat) (wl : List Nat) (P : Phis), RowsOK n allW P →
      wl.length + 2 * (n * allW.length - sizeP n P) ≤ fuel → ∃ Pf, insertPhis df written fuel wl P = some Pf := by
  intro fuel
  induction fuel with
  | zero =>
    intro wl P h hm
    have : wl = [] := by
      cases wl with
      | nil => rfl
      | cons x xs => simp at hm
    subst this
    exact ⟨P, by simp [insertPhis]⟩
  | succ f ih =>
    intro wl P h hm
    simp only [insertPhis]
    cases hl : wl.getLast? with
    | none => exact ⟨P, rfl⟩
    | some cur =>
      simp only
      have hsplit := getLast_split wl cur hl
      have hlen : wl.length = wl.dropLast.length + 1 := by
        have := congrArg List.length hsplit; simpa using this
      have hW : ∀ v, v ∈ written cur ++ P cur → v ∈ allW := by
        intro v hv
        rcases List.mem_append.mp hv with h1 | h1
        · exact hwr cur v h1
        · exact h.sub cur v h1
      obtain ⟨r1, k, e1, e2⟩ := frontierFold_count n allW (written cur ++ P cur) hW (df cur) P wl.dropLast (hdf cur) h
      have hb := sizeP_le n allW _ r1
      have hb0 := sizeP_le n allW P h
      apply ih _ _ r1
      rw [e2, e1]
      rw [e1] at hb
      omega

-- ---------------------------------------------------------------------------- part 2: the renaming

open Circomspect.Graph Circomspect.DominatorLemmas

/-- the graph of a CFG before SSA conversion -/
def graphP (c : PCfg) : Graph := { n := c.blocks.length, pred := fun i => (c.block i).preds }

/-- the hypotheses of the construction theorem: the graph is rooted; `idom` is the immediate-dominator
    function (C15) and decreases the block index (C12); the phi placement is closed under the dominance
    frontier (part 1, with `df` the frontier computed by C15's model) and only mentions known variables -/
structure BuildHyp (c : PCfg) (P : Phis) (idom : Nat → Nat) (vars : List Var) : Prop where
  rooted : Rooted (graphP c)
  idom_ok : ∀ i, 0 < i → i < c.blocks.length → IDom (graphP c) (idom i) i
  idom_lt : ∀ i, 0 < i → i < c.blocks.length → idom i < i
  closed : ∀ x, x < c.blocks.length → ∀ v, v ∈ written c x ++ P x → ∀ j, InFrontier (graphP c) x j → v ∈ P j
  phiVars : ∀ i v, v ∈ P i → v ∈ vars

theorem insOf_zero (V : Versions) (c : PCfg) (P : Phis) (idom : Nat → Nat) : insOf V c P idom 0 = entryMap c.params := by
  rw [insOf]; simp

theorem insOf_succ (V : Versions) (c : PCfg) (P : Phis) (idom : Nat → Nat) (i : Nat) (h0 : 0 < i) (hlt : idom i < i) :
    insOf V c P idom i = outOfB V c P idom (idom i) := by
  rw [insOf]
  simp only [h0, hlt, and_self, dite_true, outOfB]

theorem set_other (m : VMap) (v w : Var) (k : Nat) (h : w ≠ v) : m.set v k w = m w := by
  simp [VMap.set, h]
theorem set_same (m : VMap) (v : Var) (k : Nat) : m.set v k v = some k := by
  simp [VMap.set]

theorem stepMap_other (V : Versions) (i k : Nat) (m : VMap) (s : PStmt) (w : Var) (h : s.target ≠ some w) :
    stepMap V i k m s w = m w := by
  unfold stepMap
  cases ht : s.target with
  | none =>
    cases s.upd <;> simp
  | some v =>
    have hvw : w ≠ v := by intro e; subst e; exact h ht
    cases s.upd with
    | false => simp [set_other _ _ _ _ hvw]
    | true =>
      simp only
      rw [set_other _ _ _ _ hvw]
      split
      · exact set_other _ _ _ _ hvw
      · rfl

theorem stepMaps_other (V : Versions) (i : Nat) (w : Var) : ∀ (ss : List PStmt) (k : Nat) (m : VMap),
    (∀ s, s ∈ ss → s.target ≠ some w) → stepMaps V i k m ss w = m w := by
  intro ss
  induction ss with
  | nil => intro k m _; rfl
  | cons s rest ih =>
    intro k m h
    simp only [stepMaps]
    rw [ih (k + 1) _ (fun t ht => h t (List.mem_cons_of_mem _ ht)), stepMap_other V i k m s w (h s List.mem_cons_self)]

theorem phiMap_other (V : Versions) (P : Phis) (i : Nat) (w : Var) (h : w ∉ P i) (m : VMap) : phiMap V P i m w = m w := by
  unfold phiMap
  have key : ∀ (l : List Var) (m : VMap), w ∉ l → (l.foldl (fun m v => m.set v (V.phi i v)) m) w = m w := by
    intro l
    induction l with
    | nil => intro m _; rfl
    | cons v vs ih =>
      intro m hl
      simp only [List.foldl_cons]
      rw [ih _ (fun hm => hl (List.mem_cons_of_mem _ hm))]
      exact set_other _ _ _ _ (fun e => hl (by rw [e]; exact List.mem_cons_self))
  exact key (P i) m h

/-- a block that neither assigns nor has a phi statement for `w` leaves its version alone -/
theorem blockOut_other (V : Versions) (c : PCfg) (P : Phis) (i : Nat) (w : Var) (h : w ∉ written c i ++ P i) (m : VMap) :
    blockOut V c P i m w = m w := by
  unfold blockOut
  have h1 : w ∉ written c i := fun hm => h (List.mem_append_left _ hm)
  have h2 : w ∉ P i := fun hm => h (List.mem_append_right _ hm)
  rw [stepMaps_other V i w _ 0 _ ?_, phiMap_other V P i w h2]
  intro s hs ht
  exact h1 (List.mem_filterMap.mpr ⟨s, hs, ht⟩)

/-- up the dominator tree from a predecessor `p` of `i` to the immediate dominator `d` of `i`: if `i` has no
    phi statement for `v`, no block on the way defines `v`, so the version at the end of `p` is the version
    at the end of `d` -/
theorem chain_out (V : Versions) (c : PCfg) (P : Phis) (idom : Nat → Nat) (vars : List Var) (H : BuildHyp c P idom vars)
    (i p : Nat) (v : Var) (hi : i < c.blocks.length) (hi0 : 0 < i) (hp : p ∈ (c.block i).preds) (hv : v ∉ P i) :
    ∀ x, x < c.blocks.length → Dom (graphP c) (idom i) x → Dom (graphP c) x p →
      outOfB V c P idom x v = outOfB V c P idom (idom i) v := by
  intro x
  induction x using Nat.strongRecOn with
  | _ x ih =>
    intro hx hdx hxp
    by_cases hxd : x = idom i
    · rw [hxd]
    · have hidom := H.idom_ok i hi0 hi
      -- `x` is not the entry block
      have hx0 : 0 < x := by
        rcases Nat.eq_zero_or_pos x with h0 | h0
        · exfalso
          subst h0
          have := hdx [0] Path.root
          simp at this
          exact hxd this.symm
        · exact h0
      -- `x` does not define `v`: otherwise `i` is in its dominance frontier and has a phi for `v`
      have hnd : v ∉ written c x ++ P x := by
        intro hm
        apply hv
        apply H.closed x hx v hm i
        refine ⟨hi, ⟨p, hp, hxp⟩, ?_⟩
        intro hs
        have h1 : Dom (graphP c) x (idom i) := hidom.2 x hs
        exact hxd (dom_antisymm (H.rooted.reach x hx) hxp |> fun _ => dom_antisymm (H.rooted.reach x hx) h1 hdx)
      have hidx := H.idom_ok x hx0 hx
      have hlt := H.idom_lt x hx0 hx
      unfold outOfB
      rw [blockOut_other V c P x v hnd, insOf_succ V c P idom x hx0 hlt]
      apply ih (idom x) hlt (by omega)
      · exact hidx.2 (idom i) ⟨hdx, fun e => hxd e.symm⟩
      · exact dom_trans hidx.1.1 hxp

/-- **the join condition**: on an edge into a block that has no phi statement for `v`, the version at the
    end of the predecessor is the version assumed at the entry of the block -/
theorem edge_no_phi (V : Versions) (c : PCfg) (P : Phis) (idom : Nat → Nat) (vars : List Var) (H : BuildHyp c P idom vars)
    (i p : Nat) (v : Var) (hi : i < c.blocks.length) (hp : p ∈ (c.block i).preds) (hv : v ∉ P i) :
    outOfB V c P idom p v = insOf V c P idom i v := by
  have hi0 : 0 < i := by
    rcases Nat.eq_zero_or_pos i with h0 | h0
    · subst h0
      have := H.rooted.entry
      simp only [graphP] at this
      rw [this] at hp; cases hp
    · exact h0
  have hidom := H.idom_ok i hi0 hi
  have hplt : p < c.blocks.length := H.rooted.closed i hi p hp
  rw [insOf_succ V c P idom i hi0 (H.idom_lt i hi0 hi)]
  apply chain_out V c P idom vars H i p v hi hi0 hp hv p hplt
  · exact dom_pred hidom.1.1 hidom.1.2 hp hi
  · exact dom_refl _ p

-- ---------------------------------------------------------------------------- part 3: the built CFG

theorem optAll_spec {α : Type} : ∀ (l : List (Option α)) (r : List α), optAll l = some r → l = r.map some
  | [], r, h => by simp [optAll] at h; subst h; rfl
  | none :: rest, r, h => by simp [optAll] at h
  | some x :: rest, r, h => by
    simp only [optAll] at h
    cases hr : optAll rest with
    | none => rw [hr] at h; cases h
    | some xs =>
      rw [hr] at h; cases h
      simp [optAll_spec rest xs hr]

theorem execStmts_append (m : VMap) (a b : List Stmt) : execStmts m (a ++ b) = execStmts (execStmts m a) b := by
  simp [execStmts, List.foldl_append]

theorem exec_phis (V : Versions) (c : PCfg) (P : Phis) (idom : Nat → Nat) (i : Nat) (m : VMap) :
    execStmts m (phiStmts V c P idom i) = phiMap V P i m := by
  unfold phiStmts phiMap execStmts
  rw [List.foldl_map]
  rfl

/-- a renamed statement acts on the version map as `stepMap` says -/
theorem exec_renameStmt (V : Versions) (i k : Nat) (m : VMap) (s : PStmt) (s' : Stmt) (h : renameStmt V i k m s = some s') :
    execStmt m s' = stepMap V i k m s := by
  unfold renameStmt at h
  cases hr : optAll (s.reads.map (fun r => (m r).map (fun n => (r, n)))) with
  | none => rw [hr] at h; cases h
  | some rs =>
    rw [hr] at h; simp only [Option.some.injEq] at h; subst h
    unfold execStmt stepMap preStmt
    cases ht : s.target with
    | none => cases s.upd <;> simp
    | some v =>
      cases hu : s.upd with
      | false => simp
      | true =>
        simp only [Option.map_some, List.foldl_cons, List.foldl_nil, updRead]
        cases hm : m v with
        | none => simp
        | some kk => simp

theorem exec_renameStmts (V : Versions) (i : Nat) : ∀ (ss : List PStmt) (k : Nat) (m : VMap) (ss' : List Stmt),
    renameStmts V i k m ss = some ss' → execStmts m ss' = stepMaps V i k m ss := by
  intro ss
  induction ss with
  | nil => intro k m ss' h; simp [renameStmts] at h; subst h; rfl
  | cons s rest ih =>
    intro k m ss' h
    simp only [renameStmts] at h
    cases h1 : renameStmt V i k m s with
    | none => rw [h1] at h; cases h
    | some s' =>
      rw [h1] at h; simp only at h
      cases h2 : renameStmts V i (k + 1) (stepMap V i k m s) rest with
      | none => rw [h2] at h; cases h
      | some rest' =>
        rw [h2] at h; simp only [Option.some.injEq] at h; subst h
        simp only [stepMaps]
        have := ih (k + 1) _ rest' h2
        rw [← this, ← exec_renameStmt V i k m s s' h1]
        rfl

/-- the reads of a renamed statement name the current versions -/
theorem reads_renameStmt (V : Versions) (i k : Nat) (m : VMap) (s : PStmt) (s' : Stmt) (h : renameStmt V i k m s = some s') :
    s'.isPhi = false ∧ s'.reads.all (fun r => preStmt m s' r.1 == some r.2) = true := by
  unfold renameStmt at h
  cases hr : optAll (s.reads.map (fun r => (m r).map (fun n => (r, n)))) with
  | none => rw [hr] at h; cases h
  | some rs =>
    rw [hr] at h; simp only [Option.some.injEq] at h; subst h
    refine ⟨rfl, ?_⟩
    have hspec := optAll_spec _ rs hr
    -- every renamed read carries the current version
    have hrs : ∀ r, r ∈ rs → m r.1 = some r.2 := by
      intro r hmem
      have : some r ∈ rs.map some := List.mem_map.mpr ⟨r, hmem, rfl⟩
      rw [← hspec] at this
      obtain ⟨x, _, hx⟩ := List.mem_map.mp this
      cases hmx : m x with
      | none => rw [hmx] at hx; cases hx
      | some n => rw [hmx] at hx; simp at hx; subst hx; exact hmx
    rw [List.all_eq_true]
    intro r hmem
    simp only [beq_iff_eq]
    cases ht : s.target with
    | none =>
      cases hu : s.upd <;> simp only [ht, hu, List.nil_append] at hmem ⊢ <;> simp [preStmt] <;> exact hrs r hmem
    | some v =>
      cases hu : s.upd with
      | false =>
        simp only [ht, hu, List.nil_append] at hmem ⊢
        simp [preStmt]; exact hrs r hmem
      | true =>
        simp only [ht, hu, List.cons_append, List.nil_append, List.mem_cons] at hmem ⊢
        simp only [preStmt, List.foldl_cons, List.foldl_nil, updRead]
        rcases hmem with h1 | h1
        · subst h1
          cases hm : m v with
          | none => simp [set_same, updRead, hm]
          | some kk => simp [hm, updRead]
        · have := hrs r h1
          cases hm : m v with
          | none =>
            simp only [if_true]
            have hne : r.1 ≠ v := by intro e; rw [e, hm] at this; cases this
            rw [set_other _ _ _ _ hne]; exact this
          | some kk => simp [this]

theorem readsOk_renameStmts (V : Versions) (i : Nat) : ∀ (ss : List PStmt) (k : Nat) (m : VMap) (ss' : List Stmt),
    renameStmts V i k m ss = some ss' → readsOk m ss' = true := by
  intro ss
  induction ss with
  | nil => intro k m ss' h; simp [renameStmts] at h; subst h; rfl
  | cons s rest ih =>
    intro k m ss' h
    simp only [renameStmts] at h
    cases h1 : renameStmt V i k m s with
    | none => rw [h1] at h; cases h
    | some s' =>
      rw [h1] at h; simp only at h
      cases h2 : renameStmts V i (k + 1) (stepMap V i k m s) rest with
      | none => rw [h2] at h; cases h
      | some rest' =>
        rw [h2] at h; simp only [Option.some.injEq] at h; subst h
        simp only [readsOk, Bool.and_eq_true, Bool.or_eq_true]
        refine ⟨Or.inr (reads_renameStmt V i k m s s' h1).2, ?_⟩
        rw [exec_renameStmt V i k m s s' h1]
        exact ih (k + 1) _ rest' h2

theorem renamed_noPhi (V : Versions) (i : Nat) : ∀ (ss : List PStmt) (k : Nat) (m : VMap) (ss' : List Stmt),
    renameStmts V i k m ss = some ss' → ∀ s', s' ∈ ss' → s'.isPhi = false := by
  intro ss
  induction ss with
  | nil => intro k m ss' h; simp [renameStmts] at h; subst h; intro s' hs; cases hs
  | cons s rest ih =>
    intro k m ss' h
    simp only [renameStmts] at h
    cases h1 : renameStmt V i k m s with
    | none => rw [h1] at h; cases h
    | some s' =>
      rw [h1] at h; simp only at h
      cases h2 : renameStmts V i (k + 1) (stepMap V i k m s) rest with
      | none => rw [h2] at h; cases h
      | some rest' =>
        rw [h2] at h; simp only [Option.some.injEq] at h; subst h
        intro t ht
        rcases List.mem_cons.mp ht with e | e
        · subst e; exact (reads_renameStmt V i k m s _ h1).1
        · exact ih (k + 1) _ rest' h2 t e

theorem readsOk_phis (V : Versions) (c : PCfg) (P : Phis) (idom : Nat → Nat) (i : Nat) (ss : List Stmt) (m : VMap) :
    readsOk m (phiStmts V c P idom i ++ ss) = readsOk (phiMap V P i m) ss := by
  unfold phiStmts phiMap
  generalize P i = l
  induction l generalizing m with
  | nil => rfl
  | cons v vs ih =>
    simp only [List.map_cons, List.cons_append, readsOk, Bool.true_or, Bool.true_and, List.foldl_cons]
    rw [ih]
    rfl

/-- the shape of the built CFG -/
theorem build_spec (V : Versions) (c : PCfg) (P : Phis) (idom : Nat → Nat) (c' : Cfg) (h : build V c P idom = some c') :
    c'.params = c.params ∧ c'.blocks.length = c.blocks.length ∧
    ∀ i, i < c.blocks.length → ∃ ss, renameStmts V i 0 (phiMap V P i (insOf V c P idom i)) (c.block i).stmts = some ss ∧
      c'.block i = { stmts := phiStmts V c P idom i ++ ss, preds := (c.block i).preds, succs := (c.block i).succs } := by
  unfold build at h
  split at h
  · cases h
  · rename_i bs hbs
    simp only [Option.some.injEq] at h; subst h
    have hspec := optAll_spec _ bs hbs
    have hlen : bs.length = c.blocks.length := by
      have := congrArg List.length hspec
      simp at this; exact this.symm
    refine ⟨rfl, hlen, ?_⟩
    intro i hi
    have hget := congrArg (fun l => l[i]?) hspec
    simp only [List.getElem?_map, List.getElem?_range hi, Option.map_some] at hget
    cases hr : renameStmts V i 0 (phiMap V P i (insOf V c P idom i)) (c.block i).stmts with
    | none => rw [hr] at hget; simp at hget; cases hb : bs[i]? <;> simp [hb] at hget
    | some ss =>
      rw [hr] at hget
      refine ⟨ss, rfl, ?_⟩
      simp only [Option.map_some] at hget
      cases hb : bs[i]? with
      | none => rw [hb] at hget; simp at hget
      | some B =>
        rw [hb] at hget; simp only [Option.map_some, Option.some.injEq] at hget
        unfold Cfg.block
        simp only [List.getD_eq_getElem?_getD, hb, Option.getD_some]
        exact hget.symm

theorem phiFor_phis_some (V : Versions) (c : PCfg) (P : Phis) (idom : Nat → Nat) (i : Nat) (ss : List Stmt) (v : Var)
    (hv : v ∈ P i) (preds succs : List Nat) :
    phiFor { stmts := phiStmts V c P idom i ++ ss, preds := preds, succs := succs } v = some (phiArgs V c P idom i v) := by
  unfold phiFor phiStmts
  simp only
  generalize P i = l at hv
  induction l with
  | nil => cases hv
  | cons w ws ih =>
    simp only [List.map_cons, List.cons_append, List.find?_cons]
    by_cases hwv : w = v
    · subst hwv; simp
    · have : (w == v) = false := by simpa using hwv
      simp only [this, Bool.and_false, Bool.true_and]
      rcases List.mem_cons.mp hv with e | e
      · exact absurd e.symm hwv
      · exact ih e

theorem phiFor_phis_none (V : Versions) (c : PCfg) (P : Phis) (idom : Nat → Nat) (i : Nat) (ss : List Stmt) (v : Var)
    (hv : v ∉ P i) (hss : ∀ s, s ∈ ss → s.isPhi = false) (preds succs : List Nat) :
    phiFor { stmts := phiStmts V c P idom i ++ ss, preds := preds, succs := succs } v = none := by
  unfold phiFor
  simp only [Option.map_eq_none_iff, List.find?_eq_none]
  intro s hs
  rcases List.mem_append.mp hs with h | h
  · unfold phiStmts at h
    obtain ⟨w, hw, e⟩ := List.mem_map.mp h
    subst e
    have hne : w ≠ v := fun e => hv (by rw [← e]; exact hw)
    have : (w == v) = false := by simpa using hne
    simp [this]
  · simp [hss s h]

theorem mem_phiArgs (V : Versions) (c : PCfg) (P : Phis) (idom : Nat → Nat) (i : Nat) (v : Var) (r : VVar)
    (h : r ∈ phiArgs V c P idom i v) : r.1 = v := by
  unfold phiArgs at h
  rw [List.mem_eraseDups] at h
  obtain ⟨p, _, hp⟩ := List.mem_filterMap.mp h
  cases ho : outOfB V c P idom p v with
  | none => rw [ho] at hp; cases hp
  | some k => rw [ho] at hp; simp at hp; rw [← hp]

theorem phiArgs_contains (V : Versions) (c : PCfg) (P : Phis) (idom : Nat → Nat) (i p : Nat) (v : Var) (k : Nat)
    (hp : p ∈ (c.block i).preds) (hk : outOfB V c P idom p v = some k) : (v, k) ∈ phiArgs V c P idom i v := by
  unfold phiArgs
  rw [List.mem_eraseDups]
  exact List.mem_filterMap.mpr ⟨p, hp, by rw [hk]; rfl⟩

/-- `vars` lists every variable of the CFG -/
structure VarsOk (c : PCfg) (vars : List Var) : Prop where
  params : ∀ p, p ∈ c.params → p ∈ vars
  stmts : ∀ i, i < c.blocks.length → ∀ s, s ∈ (c.block i).stmts →
    (∀ v, s.target = some v → v ∈ vars) ∧ ∀ r, r ∈ s.reads → r ∈ vars

theorem vars_renameStmt (V : Versions) (i k : Nat) (m : VMap) (s : PStmt) (s' : Stmt) (vars : List Var)
    (h : renameStmt V i k m s = some s') (ht : ∀ v, s.target = some v → v ∈ vars) (hr : ∀ r, r ∈ s.reads → r ∈ vars) :
    (∀ t, s'.target = some t → t.1 ∈ vars) ∧ (∀ r, r ∈ s'.reads → r.1 ∈ vars) ∧ (∀ r, r ∈ s'.implicit → r.1 ∈ vars) := by
  unfold renameStmt at h
  cases hro : optAll (s.reads.map (fun r => (m r).map (fun n => (r, n)))) with
  | none => rw [hro] at h; cases h
  | some rs =>
    rw [hro] at h; simp only [Option.some.injEq] at h; subst h
    have hspec := optAll_spec _ rs hro
    have hrs : ∀ r, r ∈ rs → r.1 ∈ vars := by
      intro r hmem
      have : some r ∈ rs.map some := List.mem_map.mpr ⟨r, hmem, rfl⟩
      rw [← hspec] at this
      obtain ⟨x, hx, hxe⟩ := List.mem_map.mp this
      cases hmx : m x with
      | none => rw [hmx] at hxe; cases hxe
      | some n => rw [hmx] at hxe; simp at hxe; subst hxe; exact hr x hx
    have himp : ∀ r, r ∈ (match s.upd, s.target with | true, some v => [(v, updRead V i k m v)] | _, _ => ([] : List VVar)) → r.1 ∈ vars := by
      intro r hmem
      cases hu : s.upd <;> cases htt : s.target <;> simp only [hu, htt] at hmem
      · cases hmem
      · cases hmem
      · cases hmem
      · simp only [List.mem_singleton] at hmem; subst hmem; exact ht _ htt
    refine ⟨?_, ?_, himp⟩
    · intro t htt
      cases hst : s.target with
      | none => simp [hst] at htt
      | some v => simp [hst] at htt; subst htt; exact ht v hst
    · intro r hmem
      rcases List.mem_append.mp hmem with h1 | h1
      · exact himp r h1
      · exact hrs r h1

theorem vars_renameStmts (V : Versions) (i : Nat) (vars : List Var) : ∀ (ss : List PStmt) (k : Nat) (m : VMap) (ss' : List Stmt),
    renameStmts V i k m ss = some ss' →
    (∀ s, s ∈ ss → (∀ v, s.target = some v → v ∈ vars) ∧ ∀ r, r ∈ s.reads → r ∈ vars) →
    ∀ s', s' ∈ ss' → (∀ t, s'.target = some t → t.1 ∈ vars) ∧ (∀ r, r ∈ s'.reads → r.1 ∈ vars) ∧ (∀ r, r ∈ s'.implicit → r.1 ∈ vars) := by
  intro ss
  induction ss with
  | nil => intro k m ss' h _; simp [renameStmts] at h; subst h; intro s' hs; cases hs
  | cons s rest ih =>
    intro k m ss' h hv
    simp only [renameStmts] at h
    cases h1 : renameStmt V i k m s with
    | none => rw [h1] at h; cases h
    | some s' =>
      rw [h1] at h; simp only at h
      cases h2 : renameStmts V i (k + 1) (stepMap V i k m s) rest with
      | none => rw [h2] at h; cases h
      | some rest' =>
        rw [h2] at h; simp only [Option.some.injEq] at h; subst h
        intro t ht
        rcases List.mem_cons.mp ht with e | e
        · subst e
          exact vars_renameStmt V i k m s _ vars h1 (hv s List.mem_cons_self).1 (hv s List.mem_cons_self).2
        · exact ih (k + 1) _ rest' h2 (fun t' ht' => hv t' (List.mem_cons_of_mem _ ht')) t e

/-- **the construction passes the certificate check**, for every numbering of the versions -/
theorem build_check (V : Versions) (c : PCfg) (P : Phis) (idom : Nat → Nat) (vars : List Var)
    (H : BuildHyp c P idom vars) (hvars : VarsOk c vars) (c' : Cfg) (h : build V c P idom = some c') :
    ssaLocalCheck c' vars (insOf V c P idom) = true := by
  obtain ⟨hpar, hlen, hblk⟩ := build_spec V c P idom c' h
  have hpos : 0 < c.blocks.length := H.rooted.pos
  -- the map at the end of a block of the built CFG
  have hout : ∀ i, i < c.blocks.length → outOf c' (insOf V c P idom) i = outOfB V c P idom i := by
    intro i hi
    obtain ⟨ss, hss, hb⟩ := hblk i hi
    unfold outOf outOfB blockOut
    rw [hb]
    simp only
    rw [execStmts_append, exec_phis, exec_renameStmts V i _ 0 _ ss hss]
  unfold ssaLocalCheck
  simp only [Bool.and_eq_true, List.all_eq_true, decide_eq_true_eq]
  refine ⟨⟨⟨?_, ?_⟩, ?_⟩, ?_⟩
  · -- mentions
    unfold mentions
    simp only [Bool.and_eq_true, List.all_eq_true]
    refine ⟨?_, ?_⟩
    · intro p hp; rw [hpar] at hp; simpa using hvars.params p hp
    · intro b hb s hs
      obtain ⟨i, hi, hbi⟩ := List.mem_iff_getElem.mp hb
      have hi' : i < c.blocks.length := by rw [← hlen]; exact hi
      obtain ⟨ss, hss, hbl⟩ := hblk i hi'
      have hbe : c'.block i = b := by
        unfold Cfg.block
        simp [List.getD_eq_getElem?_getD, List.getElem?_eq_getElem hi, hbi]
      rw [hbl] at hbe
      rw [← hbe] at hs
      simp only at hs
      rcases List.mem_append.mp hs with hs1 | hs1
      · -- a phi statement
        unfold phiStmts at hs1
        obtain ⟨v, hv, e⟩ := List.mem_map.mp hs1
        subst e
        refine ⟨⟨by simpa using H.phiVars i v hv, ?_⟩, ?_⟩
        · intro r hr
          rw [mem_phiArgs V c P idom i v r hr]
          simpa using H.phiVars i v hv
        · intro r hr; cases hr
      · obtain ⟨t1, t2, t3⟩ := vars_renameStmts V i vars _ 0 _ ss hss (hvars.stmts i hi') s hs1
        refine ⟨⟨?_, fun r hr => by simpa using t2 r hr⟩, fun r hr => by simpa using t3 r hr⟩
        cases hst : s.target with
        | none => rfl
        | some t => simpa using t1 t hst
  · -- the entry block has no predecessor
    obtain ⟨ss, _, hb⟩ := hblk 0 hpos
    rw [hb]
    have := H.rooted.entry
    simp only [graphP] at this
    simp [this]
  · -- the entry map
    intro v _
    rw [insOf_zero, hpar]
    simp
  · intro i hi
    rw [List.mem_range, hlen] at hi
    obtain ⟨ss, hss, hb⟩ := hblk i hi
    have hnophi := renamed_noPhi V i _ 0 _ ss hss
    refine ⟨⟨?_, ?_⟩, ?_⟩
    · -- phis form a prefix
      rw [hb]
      unfold phiPrefix
      simp only [Bool.and_eq_true, List.all_eq_true]
      constructor
      · intro s hs
        have hsub : s ∈ phiStmts V c P idom i ++ ss := (List.dropWhile_sublist _).subset hs
        rcases List.mem_append.mp hsub with h1 | h1
        · -- a phi statement cannot survive `dropWhile isPhi` before a non-phi one... it can only if a non-phi precedes it
          exfalso
          have hall : ∀ t, t ∈ phiStmts V c P idom i → t.isPhi = true := by
            intro t ht; unfold phiStmts at ht; obtain ⟨v, _, e⟩ := List.mem_map.mp ht; subst e; rfl
          have hdrop : (phiStmts V c P idom i ++ ss).dropWhile (·.isPhi) = ss.dropWhile (·.isPhi) := by
            generalize phiStmts V c P idom i = l at hall
            induction l with
            | nil => rfl
            | cons t ts ih =>
              simp only [List.cons_append, List.dropWhile_cons, hall t List.mem_cons_self, if_true]
              exact ih (fun t' ht' => hall t' (List.mem_cons_of_mem _ ht'))
          rw [hdrop] at hs
          have := hnophi s ((List.dropWhile_sublist _).subset hs)
          rw [hall s h1] at this; cases this
        · simp [hnophi s h1]
      · intro s hs
        rcases List.mem_append.mp hs with h1 | h1
        · unfold phiStmts at h1; obtain ⟨v, _, e⟩ := List.mem_map.mp h1; subst e; simp
        · simp [hnophi s h1]
    · -- the edge conditions
      intro p hp v hv
      have hp' : p ∈ (c.block i).preds := by rw [hb] at hp; exact hp
      have hplt : p < c.blocks.length := H.rooted.closed i hi p hp'
      by_cases hvP : v ∈ P i
      · rw [hb, phiFor_phis_some V c P idom i ss v hvP]
        simp only
        rw [hout p hplt]
        cases hk : outOfB V c P idom p v with
        | none => rfl
        | some k => simpa using phiArgs_contains V c P idom i p v k hp' hk
      · rw [hb, phiFor_phis_none V c P idom i ss v hvP hnophi]
        simp only
        rw [hout p hplt, edge_no_phi V c P idom vars H i p v hi hp' hvP]
        simp
    · -- the reads
      rw [hb]
      simp only
      rw [readsOk_phis]
      exact readsOk_renameStmts V i _ 0 _ ss hss

end Circomspect.SsaBuild
