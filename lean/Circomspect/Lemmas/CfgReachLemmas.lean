/-
What the reachability helpers of the CFG return (Model/CfgReach.lean): the work list never exhausts its budget and
returns exactly what is reachable; predecessors are reachability in the reversed graph; an interval is "reachable from
the start and reaching the end".
-/
import Circomspect.Model.CfgReach
import Circomspect.Lemmas.TaintLemmas

namespace Circomspect.CfgReach
open Circomspect.Taint

/-- a step at the front of a path -/
theorem reach_head (es : Edges) {x u y : Nat} (h : (x, u) ∈ es) (r : Reach es u y) : Reach es x y := by
  induction r with
  | refl => exact Reach.step Reach.refl h
  | step _ he ih => exact Reach.step ih he

theorem reach_trans (es : Edges) {x u y : Nat} (a : Reach es x u) (b : Reach es u y) : Reach es x y := by
  induction b with
  | refl => exact a
  | step _ he ih => exact Reach.step ih he

theorem mem_rev (es : Edges) (a b : Nat) : (a, b) ∈ rev es ↔ (b, a) ∈ es := by
  unfold rev
  simp only [List.mem_map]
  constructor
  · intro ⟨e, he, h⟩
    obtain ⟨p, q⟩ := e
    simp only [Prod.mk.injEq] at h
    obtain ⟨h1, h2⟩ := h
    subst h1; subst h2; exact he
  · intro h
    exact ⟨(b, a), h, rfl⟩

/-- reachability in the reversed graph is reachability backwards -/
theorem reach_rev (es : Edges) (x y : Nat) : Reach (rev es) x y ↔ Reach es y x := by
  constructor
  · intro h
    induction h with
    | refl => exact Reach.refl
    | step _ he ih => exact reach_head es ((mem_rev es _ _).mp he) ih
  · intro h
    induction h with
    | refl => exact Reach.refl
    | step _ he ih => exact reach_head (rev es) ((mem_rev es _ _).mpr he) ih

/-- everything the work list returns satisfies a property that holds at the start and is preserved by edges -/
theorem workLoop_within (es : Edges) (P : Nat → Prop) (hP : ∀ u v, P u → (u, v) ∈ es → P v) :
    ∀ (k : Nat) (work result r : List Nat), workLoop es k work result = some r →
      (∀ u, u ∈ result ∨ u ∈ work → P u) → ∀ y, y ∈ r → P y := by
  intro k
  induction k with
  | zero => intro work result r h; simp [workLoop] at h
  | succ k ih =>
    intro work result r h hstart y hy
    cases work with
    | nil =>
      simp only [workLoop] at h
      cases h; exact hstart y (Or.inl hy)
    | cons w work =>
      simp only [workLoop] at h
      split at h
      · apply ih _ _ r h _ y hy
        intro u hu
        rcases hu with hu | hu
        · exact hstart u (Or.inl hu)
        · exact hstart u (Or.inr (List.mem_cons_of_mem _ hu))
      · apply ih _ _ r h _ y hy
        intro u hu
        rcases hu with hu | hu
        · rcases List.mem_cons.mp hu with h2 | h2
          · subst h2; exact hstart _ (Or.inr List.mem_cons_self)
          · exact hstart u (Or.inl h2)
        · rcases List.mem_append.mp hu with h2 | h2
          · exact hP w u (hstart w (Or.inr List.mem_cons_self)) ((mem_succs es w u).mp (List.mem_filter.mp h2).1)
          · exact hstart u (Or.inr (List.mem_cons_of_mem _ h2))

/-- the work list never exhausts the budget `closure` gives it -/
theorem closure_returns (es : Edges) (starts : List Nat) :
    ∃ r, workLoop es (closureFuel es starts.length) starts [] = some r := by
  apply workLoop_terminates
  unfold pending closureFuel
  have h : (List.filter (fun e => !([] : List V).contains e.1) es).length ≤ es.length := List.length_filter_le _ _
  exact Nat.lt_succ_of_le (by rw [Nat.add_comm]; exact Nat.add_le_add_right h _)

/-- `closure` is reachability from one of the start blocks -/
theorem closure_spec (es : Edges) (starts : List Nat) (x : Nat) :
    x ∈ closure es starts ↔ ∃ s, s ∈ starts ∧ Reach es s x := by
  obtain ⟨r, hr⟩ := closure_returns es starts
  have hc : closure es starts = r := by unfold closure; rw [hr]; rfl
  rw [hc]
  have c := workLoop_closed es _ starts [] r hr (by intro u hu; cases hu)
  constructor
  · intro hx
    apply workLoop_within es (fun y => ∃ s, s ∈ starts ∧ Reach es s y) _ _ starts [] r hr _ x hx
    · intro u v ⟨s, hs, hr⟩ he
      exact ⟨s, hs, Reach.step hr he⟩
    · intro u hu
      rcases hu with hu | hu
      · cases hu
      · exact ⟨u, hu, Reach.refl⟩
  · intro ⟨s, hs, hreach⟩
    induction hreach with
    | refl => exact c.1 s (Or.inr hs)
    | step _ he ih => exact c.2 _ ih _ ((mem_succs es _ _).mpr he)

theorem mem_getSuccessors (es : Edges) (b x : Nat) : x ∈ getSuccessors es b ↔ Reach es b x ∧ x ≠ b := by
  unfold getSuccessors
  simp only [List.mem_filter, closure_spec, List.mem_singleton, bne_iff_ne, ne_eq]
  constructor
  · intro ⟨⟨s, hs, hr⟩, hne⟩
    subst hs; exact ⟨hr, hne⟩
  · intro ⟨hr, hne⟩
    exact ⟨⟨b, rfl, hr⟩, hne⟩

theorem mem_getPredecessors (es : Edges) (b x : Nat) : x ∈ getPredecessors es b ↔ Reach es x b ∧ x ≠ b := by
  unfold getPredecessors
  simp only [List.mem_filter, closure_spec, List.mem_singleton, bne_iff_ne, ne_eq]
  constructor
  · intro ⟨⟨s, hs, hr⟩, hne⟩
    subst hs; exact ⟨(reach_rev es _ _).mp hr, hne⟩
  · intro ⟨hr, hne⟩
    exact ⟨⟨b, rfl, (reach_rev es _ _).mpr hr⟩, hne⟩

/-- an interval: reachable from the start, reaching the end, and not the end itself -/
theorem mem_getInterval (es : Edges) (s e x : Nat) :
    x ∈ getInterval es s e ↔ Reach es s x ∧ Reach es x e ∧ x ≠ e := by
  unfold getInterval
  simp only [List.mem_filter, closure_spec, List.mem_singleton, List.contains_eq_mem, decide_eq_true_eq, mem_getPredecessors]
  constructor
  · intro ⟨⟨s', hs, hr⟩, h2⟩
    subst hs; exact ⟨hr, h2⟩
  · intro ⟨hr, h2⟩
    exact ⟨⟨s, rfl, hr⟩, h2⟩

/-- a branch region: the first block and what it reaches when the sides do not join, otherwise what lies between the
    first block and a block of its dominance frontier -/
theorem mem_branch (es : Edges) (df : Nat → List Nat) (start x : Nat) :
    x ∈ branch es df start ↔
      (df start = [] ∧ Reach es start x) ∨ (∃ e, e ∈ df start ∧ Reach es start x ∧ Reach es x e ∧ x ≠ e) := by
  unfold branch
  split
  · rename_i h
    simp only [h, List.mem_append, mem_getSuccessors, List.mem_singleton, List.not_mem_nil, false_and, exists_false, or_false, true_and]
    constructor
    · intro hx
      rcases hx with hx | hx
      · exact hx.1
      · subst hx; exact Reach.refl
    · intro hx
      by_cases hxs : x = start
      · exact Or.inr hxs
      · exact Or.inl ⟨hx, hxs⟩
  · rename_i h
    simp only [List.mem_flatMap, mem_getInterval]
    constructor
    · intro ⟨e, he, hx⟩
      exact Or.inr ⟨e, he, hx⟩
    · intro hx
      rcases hx with hx | hx
      · exact absurd hx.1 h
      · exact hx

/-- every block of a branch region is reachable from the first block of that side: the taint from a condition never
    reaches an assignment that cannot run after the branch was taken -/
theorem branch_reachable (es : Edges) (df : Nat → List Nat) (start x : Nat) (h : x ∈ branch es df start) :
    Reach es start x := by
  rcases (mem_branch es df start x).mp h with h1 | ⟨_, _, h1, _⟩
  · exact h1.2
  · exact h1

theorem rev_filter (es : Edges) (idom : Option Nat) :
    (rev es).filter (fun e => some e.1 != idom) = rev (es.filter (fun e => some e.2 != idom)) := by
  unfold rev
  induction es with
  | nil => rfl
  | cons e r ih =>
    simp only [List.map_cons, List.filter_cons]
    by_cases h : (some e.2 != idom) = true
    · simp only [h, if_true, List.map_cons, ih]
    · simp only [h, if_false, ih]; rfl

/-- the walk of `get_join_conditions` finds the blocks from which a predecessor of `j` can be reached without entering the
    immediate dominator of `j` — the blocks on the last stretch of a path to `j`, after it has left the dominator for the last
    time; which predecessor such a path arrives through is decided by the if statements among them -/
theorem mem_joinWalk (es : Edges) (idom : Option Nat) (j x : Nat) :
    x ∈ joinWalk es idom j ↔ ∃ p, (p, j) ∈ es ∧ Reach (es.filter (fun e => some e.2 != idom)) x p := by
  unfold joinWalk
  rw [closure_spec, rev_filter]
  constructor
  · intro ⟨p, hp, hr⟩
    obtain ⟨e, he, hpe⟩ := List.mem_map.mp hp
    have h2 : e.2 = j := by simpa using (List.mem_filter.mp he).2
    refine ⟨p, ?_, (reach_rev _ _ _).mp hr⟩
    obtain ⟨a, b⟩ := e
    simp only at hpe h2
    subst hpe; subst h2
    exact (List.mem_filter.mp he).1
  · intro ⟨p, hp, hr⟩
    exact ⟨p, List.mem_map.mpr ⟨(p, j), List.mem_filter.mpr ⟨hp, by simp⟩, rfl⟩, (reach_rev _ _ _).mpr hr⟩

end Circomspect.CfgReach
