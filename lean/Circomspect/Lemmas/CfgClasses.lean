/-
C12, the clauses about branches and successor counts: every block of a lifted CFG is in one of five
classes (plain without / with its successor, branch with the false edge open / resolved by a later
block / resolved by a back edge), so a branch is the last statement of its block, its targets are among
the successors, and no block has more than two successors (one without a branch).
The openness facts needed at each step come from `TracePaths.visit_paths`.
-/
import Circomspect.Lemmas.TracePaths
set_option linter.unusedSimpArgs false
set_option linter.unusedVariables false
namespace Circomspect.TracePaths
open Circomspect CfgLift Trace CfgLemmas

/-- the class of block `i` -/
def Cls (i : Nat) (b : Block) : Prop :=
  PlainOpen b ∨
  (trailingBranch b = false ∧ ∃ j, b.succs = [j]) ∨
  BranchOpen i b ∨
  (∃ init l j, b.stmts = init ++ [IStmt.branch l (i + 1) (some j)] ∧ b.succs = [i + 1, j] ∧ i + 1 < j) ∨
  (∃ init l h, b.stmts = init ++ [IStmt.branch l (i + 1) none] ∧ b.succs = [h, i + 1] ∧ h < i + 1)

def AllCls (bs : List Block) : Prop := ∀ (i : Nat) (b : Block), bs[i]? = some b → Cls i b

theorem holds_and {R1 R2 : List Block → List Nat → Prop} {o : Out} (h1 : Holds R1 o) (h2 : Holds R2 o) :
    Holds (fun bs ps => R1 bs ps ∧ R2 bs ps) o := by
  cases o with
  | ok bs ps => exact ⟨h1, h2⟩
  | panic s => trivial

theorem cls_new (i d : Nat) (ps : List Nat) : Cls i { depth := d, stmts := [], preds := union ps [], succs := [] } :=
  Or.inl ⟨by simp [trailingBranch], rfl⟩

theorem cls_completeBlock (bs : List Block) (ps : List Nat) (d : Nat) (h : AllCls bs) (hop : ∀ p, p ∈ ps → OpenAt bs p) :
    AllCls (completeBlock bs ps d) := by
  intro i b' hb'
  by_cases hi : i < bs.length
  · rw [completeBlock_get_lt bs ps d i hi] at hb'
    cases hbi : bs[i]? with
    | none => rw [hbi] at hb'; cases hb'
    | some b =>
      rw [hbi] at hb'; simp only [Option.map_some, Option.some.injEq] at hb'; subst hb'
      by_cases hp : i ∈ ps
      · obtain ⟨b0, hb0, hc⟩ := hop i hp
        rw [hbi] at hb0; cases hb0
        rcases hc with ho | ⟨ho, hlt⟩
        · obtain ⟨hs, hsu⟩ := completed_plain bs.length ps i b ho hp
          exact Or.inr (Or.inl ⟨by simpa [trailingBranch, hs] using ho.1, bs.length, hsu⟩)
        · obtain ⟨init, l, _, hs', hsu⟩ := completed_branch bs.length ps i b ho hp hlt
          exact Or.inr (Or.inr (Or.inr (Or.inl ⟨init, l, bs.length, hs', hsu, hlt⟩)))
      · rw [completed_other _ _ _ _ hp]; exact h i b hbi
  · have hlen : (completeBlock bs ps d).length = bs.length + 1 := length_completeBlock _ _ _
    have hlt := (List.getElem?_eq_some_iff.mp hb').1
    have : i = bs.length := by omega
    subst this
    rw [completeBlock_get_new] at hb'; cases hb'
    exact cls_new _ d ps

theorem cls_addEdges (bs : List Block) (fs : List Nat) (hd : Nat) (h : AllCls bs) (hop : ∀ p, p ∈ fs → OpenAt bs p)
    (hh : ∀ p, p ∈ fs → hd < p + 1) : AllCls (addEdges bs fs hd) := by
  intro i b' hb'
  rw [addEdges_get] at hb'
  cases hbi : bs[i]? with
  | none => rw [hbi] at hb'; cases hb'
  | some b =>
    rw [hbi] at hb'; simp only [Option.map_some, Option.some.injEq] at hb'; subst hb'
    by_cases hp : i ∈ fs
    · have hc : fs.contains i = true := by simpa using hp
      obtain ⟨b0, hb0, hcl⟩ := hop i hp
      rw [hbi] at hb0; cases hb0
      rcases hcl with ho | ⟨ho, _⟩
      · refine Or.inr (Or.inl ⟨by simpa [trailingBranch, edged_stmts] using ho.1, hd, ?_⟩)
        rw [edged_succs, if_pos hc, ho.2]; simp [insertSorted]
      · obtain ⟨init, l, hs, hsu⟩ := ho
        have hlt := hh i hp
        refine Or.inr (Or.inr (Or.inr (Or.inr ⟨init, l, hd, by rw [edged_stmts]; exact hs, ?_, hlt⟩)))
        rw [edged_succs, if_pos hc, hsu]
        simp [insertSorted, hlt]
    · have := edged_walk_same fs hd i b hp
      have hcls := h i b hbi
      -- the class only depends on statements and successors
      rcases hcls with ho | ⟨ht, j, hj⟩ | ⟨init, l, hs, hsu⟩ | ⟨init, l, j, hs, hsu, hlt⟩ | ⟨init, l, h', hs, hsu, hlt⟩
      · exact Or.inl ⟨by simpa [trailingBranch, this.1] using ho.1, by rw [this.2]; exact ho.2⟩
      · exact Or.inr (Or.inl ⟨by simpa [trailingBranch, this.1] using ht, j, by rw [this.2]; exact hj⟩)
      · exact Or.inr (Or.inr (Or.inl ⟨init, l, by rw [this.1]; exact hs, by rw [this.2]; exact hsu⟩))
      · exact Or.inr (Or.inr (Or.inr (Or.inl ⟨init, l, j, by rw [this.1]; exact hs, by rw [this.2]; exact hsu, hlt⟩)))
      · exact Or.inr (Or.inr (Or.inr (Or.inr ⟨init, l, h', by rw [this.1]; exact hs, by rw [this.2]; exact hsu, hlt⟩)))

theorem cls_appendSimple (bs : List Block) (loc : Loc) (h : AllCls bs) (hc : CurOpen bs) :
    AllCls (appendStmt bs (IStmt.simple loc)) := by
  obtain ⟨b, hb, ho⟩ := hc
  intro i b' hb'
  rw [appendStmt_get] at hb'
  cases hbi : bs[i]? with
  | none => rw [hbi] at hb'; cases hb'
  | some bi =>
    rw [hbi] at hb'; simp only [Option.map_some, Option.some.injEq] at hb'; subst hb'
    by_cases hl : i = bs.length - 1
    · subst hl
      rw [hb] at hbi; cases hbi
      simp only [if_true]
      exact Or.inl ⟨by simp [trailingBranch], ho.2⟩
    · simp only [if_neg hl]; exact h i bi hbi

/-- transfer of the classification along "all blocks below `n` are unchanged or described" -/
theorem cls_of_pre (bs bsP : List Block) (h : AllCls bs)
    (hsame : ∀ i, i + 1 < bs.length → bsP[i]? = bs[i]?)
    (hrest : ∀ i b, bs.length - 1 ≤ i → bsP[i]? = some b → Cls i b) : AllCls bsP := by
  intro i b hb
  by_cases hi : i + 1 < bs.length
  · rw [hsame i hi] at hb; exact h i b hb
  · exact hrest i b (by omega) hb

theorem cls_itePre (bs : List Block) (loc : Loc) (d : Nat) (hpos : 0 < bs.length) (hc : CurOpen bs) (h : AllCls bs) :
    AllCls (itePre loc d bs) := by
  have P := itePre_facts bs loc d hpos hc
  obtain ⟨b, bc, hb, hbc, hs, hsu⟩ := P.cond
  apply cls_of_pre bs _ h P.frame
  intro i bi hge hbi
  have hlt := (List.getElem?_eq_some_iff.mp hbi).1
  rw [P.len] at hlt
  by_cases h1 : i = bs.length - 1
  · subst h1; rw [hbc] at hbi; cases hbi
    exact Or.inr (Or.inr (Or.inl ⟨b.stmts, loc, hs, hsu⟩))
  · obtain ⟨bn, hbn, hon⟩ := P.cur
    have : i = (itePre loc d bs).length - 1 := by rw [P.len]; omega
    rw [this, hbn] at hbi; cases hbi
    exact Or.inl hon

theorem cls_whilePre (bs : List Block) (loc : Loc) (d : Nat) (hpos : 0 < bs.length) (hc : CurOpen bs) (h : AllCls bs) :
    AllCls (whilePre loc d bs) := by
  have W := whilePre_facts bs loc d hpos hc
  obtain ⟨b, bcW, hb, hbcW, hsW, hsuW⟩ := W.before
  obtain ⟨bh, hbh, hsh, hsuh⟩ := W.header
  obtain ⟨b', hb', ho⟩ := hc
  rw [hb] at hb'; cases hb'
  apply cls_of_pre bs _ h W.frame
  intro i bi hge hbi
  have hlt := (List.getElem?_eq_some_iff.mp hbi).1
  rw [W.len] at hlt
  by_cases h1 : i = bs.length - 1
  · subst h1; rw [hbcW] at hbi; cases hbi
    exact Or.inr (Or.inl ⟨by simpa [trailingBranch, hsW] using ho.1, bs.length, hsuW⟩)
  · by_cases h2 : i = bs.length
    · subst h2; rw [hbh] at hbi; cases hbi
      exact Or.inr (Or.inr (Or.inl ⟨[], loc, by simpa using hsh, hsuh⟩))
    · obtain ⟨bn, hbn, hon⟩ := W.cur
      have : i = (whilePre loc d bs).length - 1 := by rw [W.len]; omega
      rw [this, hbn] at hbi; cases hbi
      exact Or.inl hon

mutual
theorem visit_cls (rets : List Loc) (fuelE : Nat) : ∀ (s : Stmt) (d : Nat) (bs : List Block), 0 < bs.length → CurOpen bs → AllCls bs →
    Holds (fun bs1 _ => AllCls bs1) (visit s d bs)
  | .simple loc, d, bs, hp, hc, ha => by rw [visit]; exact cls_appendSimple bs loc ha hc
  | .init cs, d, bs, hp, hc, ha => by rw [visit]; exact visitInit_cls rets fuelE cs d bs hp hc ha
  | .block cs, d, bs, hp, hc, ha => by
      rw [visit]
      exact visitBlock_cls rets fuelE cs d bs [] hp (fun _ => hc) (fun p h => (List.not_mem_nil h).elim) ha
  | .while loc body, d, bs, hp, hc, ha => by
      rw [visit]
      have W := whilePre_facts bs loc d hp hc
      have hpos : 0 < (whilePre loc d bs).length := by rw [W.len]; omega
      have hg := visit_paths rets fuelE body (d + 1) (whilePre loc d bs) hpos W.cur
      have hcl := visit_cls rets fuelE body (d + 1) (whilePre loc d bs) hpos W.cur (cls_whilePre bs loc d hp hc ha)
      apply holds_andThen (holds_and hg hcl)
      intro bs' ps ⟨g, c⟩
      have hgeF := orLast_ge (c := bs.length + 1) (bs := bs') (ps := ps)
        (fun q hq => by have := g.1.ge q hq; rw [W.len] at this; omega)
        (by have := g.1.len; rw [W.len] at this; omega)
      exact cls_addEdges bs' _ _ c (openAt_orLast g.1.pend g.1.cur) (fun p hp' => by have := hgeF p hp'; omega)
  | .ite loc thn, d, bs, hp, hc, ha => by
      rw [visit]
      have P := itePre_facts bs loc d hp hc
      have hpos : 0 < (itePre loc d bs).length := by rw [P.len]; omega
      apply holds_andThen (visit_cls rets fuelE thn d (itePre loc d bs) hpos P.cur (cls_itePre bs loc d hp hc ha))
      intro bs1 ifPs c
      exact c
  | .iteElse loc thn els, d, bs, hp, hc, ha => by
      rw [visit]
      have P := itePre_facts bs loc d hp hc
      have hpos : 0 < (itePre loc d bs).length := by rw [P.len]; omega
      have hg := visit_paths rets fuelE thn d (itePre loc d bs) hpos P.cur
      have hcl := visit_cls rets fuelE thn d (itePre loc d bs) hpos P.cur (cls_itePre bs loc d hp hc ha)
      apply holds_andThen (holds_and hg hcl)
      intro bs1 ifPs ⟨g, c⟩
      obtain ⟨b, bc, hb, hbc, hs, hsu⟩ := P.cond
      have hlen1 : bs.length + 1 ≤ bs1.length := by have := g.1.len; rw [P.len] at this; exact this
      have hbc1 : bs1[bs.length - 1]? = some bc := by
        rw [g.1.frame (bs.length - 1) (by rw [P.len]; omega)]; exact hbc
      have E := elsePre_facts bs1 (bs.length - 1) d bc loc b.stmts hbc1 hs hsu (by omega)
      have hop : ∀ p, p ∈ [bs.length - 1] → OpenAt bs1 p := by
        intro p hp'; simp at hp'; subst hp'
        exact ⟨bc, hbc1, Or.inr ⟨⟨b.stmts, loc, hs, hsu⟩, by omega⟩⟩
      apply holds_andThen (visit_cls rets fuelE els d (completeBlock bs1 [bs.length - 1] d) (by rw [E.len]; omega) E.cur
        (cls_completeBlock bs1 _ d c hop))
      intro bs2 elPs c2
      exact c2
theorem visitBlock_cls (rets : List Loc) (fuelE : Nat) : ∀ (cs : Stmts) (d : Nat) (bs : List Block) (ps : List Nat),
    0 < bs.length → (ps = [] → CurOpen bs) → (∀ p, p ∈ ps → OpenAt bs p) → AllCls bs →
    Holds (fun bs1 _ => AllCls bs1) (visitBlock cs d bs ps)
  | .nil, d, bs, ps, hp, hcur, hpend, ha => by rw [visitBlock]; exact ha
  | .cons s rest, d, bs, ps, hp, hcur, hpend, ha => by
      rw [visitBlock]
      obtain ⟨h0pos, h0cur, _, _, _, _⟩ := start_block bs ps d hp hcur hpend
      have ha0 : AllCls (if ps.isEmpty then bs else completeBlock bs ps d) := by
        split
        · exact ha
        · exact cls_completeBlock bs ps d ha hpend
      have hg := visit_paths rets fuelE s d _ h0pos h0cur
      have hcl := visit_cls rets fuelE s d _ h0pos h0cur ha0
      apply holds_andThen (holds_and hg hcl)
      intro bs' ps' ⟨g, c⟩
      have hpos' : 0 < bs'.length := by have := g.1.len; omega
      exact visitBlock_cls rets fuelE rest d bs' ps' hpos' g.1.cur g.1.pend c
theorem visitInit_cls (rets : List Loc) (fuelE : Nat) : ∀ (cs : Stmts) (d : Nat) (bs : List Block),
    0 < bs.length → CurOpen bs → AllCls bs → Holds (fun bs1 _ => AllCls bs1) (visitInit cs d bs)
  | .nil, d, bs, hp, hc, ha => by rw [visitInit]; exact ha
  | .cons s rest, d, bs, hp, hc, ha => by
      rw [visitInit]
      have hg := visit_paths rets fuelE s d bs hp hc
      have hcl := visit_cls rets fuelE s d bs hp hc ha
      apply holds_andThen (holds_and hg hcl)
      intro bs' ps' ⟨g, c⟩
      have hpos' : 0 < bs'.length := by have := g.1.len; omega
      split
      · rename_i hemp
        have hps' : ps' = [] := by simpa using hemp
        exact visitInit_cls rets fuelE rest d bs' hpos' (g.1.cur hps') c
      · trivial
end

theorem allCls_init : AllCls initBlocks := by
  intro i b hb
  have : i = 0 := by
    have := (List.getElem?_eq_some_iff.mp hb).1
    simp [initBlocks] at this; exact this
  subst this
  simp [initBlocks] at hb
  subst hb
  exact Or.inl ⟨by simp [trailingBranch], rfl⟩

/-- every block of a lifted CFG is in one of the five classes -/
theorem lift_cls (body : Stmt) (bs : List Block) (ps : List Nat) (h : lift body = .ok bs ps) : AllCls bs := by
  have hv := visit_cls [] 0 body 0 initBlocks (by simp [initBlocks]) curOpen_init allCls_init
  unfold lift at h
  change visit body 0 initBlocks = _ at h
  rw [h] at hv
  exact hv

/-- what the classes give: at most two successors, at most one without a branch, and the targets of a
    trailing branch are successors -/
theorem cls_successors {i : Nat} {b : Block} (h : Cls i b) :
    b.succs.length ≤ 2 ∧ (trailingBranch b = false → b.succs.length ≤ 1) ∧
    (∀ l t f, b.stmts.getLast? = some (IStmt.branch l t f) → t ∈ b.succs ∧ ∀ j, f = some j → j ∈ b.succs) := by
  rcases h with ho | ⟨ht, j, hj⟩ | ⟨init, l, hs, hsu⟩ | ⟨init, l, j, hs, hsu, hlt⟩ | ⟨init, l, h', hs, hsu, hlt⟩
  · refine ⟨by rw [ho.2]; simp, fun _ => by rw [ho.2]; simp, ?_⟩
    intro l t f hl; have := ho.1; simp [trailingBranch, hl] at this
  · refine ⟨by rw [hj]; simp, fun _ => by rw [hj]; simp, ?_⟩
    intro l t f hl; simp [trailingBranch, hl] at ht
  · refine ⟨by rw [hsu]; simp, fun ht => by simp [trailingBranch, hs] at ht, ?_⟩
    intro l' t f hl
    rw [hs] at hl; simp at hl
    obtain ⟨_, rfl, rfl⟩ := hl
    exact ⟨by rw [hsu]; simp, fun j hj => by cases hj⟩
  · refine ⟨by rw [hsu]; simp, fun ht => by simp [trailingBranch, hs] at ht, ?_⟩
    intro l' t f hl
    rw [hs] at hl; simp at hl
    obtain ⟨_, rfl, rfl⟩ := hl
    exact ⟨by rw [hsu]; simp, fun j' hj => by cases hj; rw [hsu]; simp⟩
  · refine ⟨by rw [hsu]; simp, fun ht => by simp [trailingBranch, hs] at ht, ?_⟩
    intro l' t f hl
    rw [hs] at hl; simp at hl
    obtain ⟨_, rfl, rfl⟩ := hl
    exact ⟨by rw [hsu]; simp, fun j hj => by cases hj⟩

end Circomspect.TracePaths
