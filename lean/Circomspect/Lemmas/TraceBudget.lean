/-
C13, the concrete walk budget: the executable `Trace.cfgTrace` gives the walk `(|ds| + 1) * (|blocks| + 1)`
block visits.  That is always enough: a fall-through edge of a lifted CFG leads to a block with a larger
index or to a block that ends in a branch (a loop header), so between two decisions a path enters at most
`|blocks| + 1` blocks.
-/
import Circomspect.Lemmas.CfgClasses
set_option linter.unusedSimpArgs false
set_option linter.unusedVariables false
namespace Circomspect.TracePaths
open Circomspect CfgLift Trace CfgLemmas

/-- a fall-through edge goes forward, or into a block that ends in a branch -/
def FallOK (G : List Block) : Prop :=
  ∀ (i : Nat) (b : Block) (j : Nat), G[i]? = some b → trailingBranch b = false → b.succs = [j] →
    i < j ∨ ∃ bj, G[j]? = some bj ∧ trailingBranch bj = true

theorem completed_trailing (j : Nat) (ps : List Nat) (i : Nat) (b : Block) :
    trailingBranch (completed j ps i b) = trailingBranch b := by
  unfold completed
  split
  · unfold patchFalse
    simp only
    split
    · rename_i loc t heq
      split
      · simp [trailingBranch, heq]
      · rfl
    · rfl
  · rfl

theorem fall_completeBlock (bs : List Block) (ps : List Nat) (d : Nat) (h : FallOK bs) (hop : ∀ p, p ∈ ps → OpenAt bs p) :
    FallOK (completeBlock bs ps d) := by
  have hlen : (completeBlock bs ps d).length = bs.length + 1 := length_completeBlock _ _ _
  intro i b' j hb' htb hsu
  by_cases hi : i < bs.length
  · rw [completeBlock_get_lt bs ps d i hi] at hb'
    cases hbi : bs[i]? with
    | none => rw [hbi] at hb'; cases hb'
    | some b =>
      rw [hbi] at hb'; simp only [Option.map_some, Option.some.injEq] at hb'; subst hb'
      by_cases hp : i ∈ ps
      · obtain ⟨b0, hb0, hc⟩ := hop i hp
        rw [hbi] at hb0; cases hb0
        rcases hc with ho | ⟨ho, hlt⟩
        · have := (completed_plain bs.length ps i b ho hp).2
          rw [this] at hsu; cases hsu
          exact Or.inl hi
        · obtain ⟨l, hl⟩ := branchOpen_last ho
          rw [completed_trailing] at htb
          simp [trailingBranch, hl] at htb
      · rw [completed_other _ _ _ _ hp] at htb hsu
        rcases h i b j hbi htb hsu with h1 | ⟨bj, hbj, htj⟩
        · exact Or.inl h1
        · have hjlt : j < bs.length := (List.getElem?_eq_some_iff.mp hbj).1
          exact Or.inr ⟨completed bs.length ps j bj, by rw [completeBlock_get_lt bs ps d j hjlt, hbj]; rfl,
            by rw [completed_trailing]; exact htj⟩
  · have hlt := (List.getElem?_eq_some_iff.mp hb').1
    have : i = bs.length := by omega
    subst this
    rw [completeBlock_get_new] at hb'; cases hb'
    cases hsu

theorem fall_addEdges (bs : List Block) (fs : List Nat) (hd : Nat) (h : FallOK bs) (hop : ∀ p, p ∈ fs → OpenAt bs p)
    (hhd : ∃ bh, bs[hd]? = some bh ∧ trailingBranch bh = true) : FallOK (addEdges bs fs hd) := by
  intro i b' j hb' htb hsu
  rw [addEdges_get] at hb'
  cases hbi : bs[i]? with
  | none => rw [hbi] at hb'; cases hb'
  | some b =>
    rw [hbi] at hb'; simp only [Option.map_some, Option.some.injEq] at hb'; subst hb'
    have keep : ∀ (k : Nat) (bk : Block), bs[k]? = some bk → trailingBranch bk = true →
        ∃ bk', (addEdges bs fs hd)[k]? = some bk' ∧ trailingBranch bk' = true := by
      intro k bk hbk htk
      exact ⟨edged fs hd k bk, by rw [addEdges_get, hbk]; rfl, by simpa [trailingBranch, edged_stmts] using htk⟩
    by_cases hp : i ∈ fs
    · have hc : fs.contains i = true := by simpa using hp
      obtain ⟨b0, hb0, hcl⟩ := hop i hp
      rw [hbi] at hb0; cases hb0
      rcases hcl with ho | ⟨ho, _⟩
      · rw [edged_succs, if_pos hc, ho.2] at hsu
        simp [insertSorted] at hsu
        subst hsu
        obtain ⟨bh, hbh, hth⟩ := hhd
        exact Or.inr (keep _ bh hbh hth)
      · obtain ⟨l, hl⟩ := branchOpen_last ho
        simp [trailingBranch, edged_stmts, hl] at htb
    · have hw := edged_walk_same fs hd i b hp
      rw [hw.2] at hsu
      have htb' : trailingBranch b = false := by simpa [trailingBranch, hw.1] using htb
      rcases h i b j hbi htb' hsu with h1 | ⟨bj, hbj, htj⟩
      · exact Or.inl h1
      · exact Or.inr (keep j bj hbj htj)

theorem fall_appendStmt (bs : List Block) (s : IStmt) (h : FallOK bs) (hc : CurOpen bs) : FallOK (appendStmt bs s) := by
  obtain ⟨b, hb, ho⟩ := hc
  intro i b' j hb' htb hsu
  rw [appendStmt_get] at hb'
  cases hbi : bs[i]? with
  | none => rw [hbi] at hb'; cases hb'
  | some bi =>
    rw [hbi] at hb'; simp only [Option.map_some, Option.some.injEq] at hb'; subst hb'
    by_cases hl : i = bs.length - 1
    · subst hl; rw [hb] at hbi; cases hbi
      simp only [if_true] at hsu
      rw [ho.2] at hsu; cases hsu
    · simp only [if_neg hl] at htb hsu
      rcases h i bi j hbi htb hsu with h1 | ⟨bj, hbj, htj⟩
      · exact Or.inl h1
      · refine Or.inr ⟨_, by rw [appendStmt_get, hbj]; rfl, ?_⟩
        by_cases hjl : j = bs.length - 1
        · subst hjl; rw [hb] at hbj; cases hbj
          rw [ho.1] at htj; cases htj
        · simp only [if_neg hjl]; exact htj

/-- transfer along a description of the blocks from the current one on -/
theorem fall_of_pre (bs bsP : List Block) (h : FallOK bs) (hlen : bs.length ≤ bsP.length)
    (hsame : ∀ i, i + 1 < bs.length → bsP[i]? = bs[i]?)
    (hcur : ∀ b : Block, bs[bs.length - 1]? = some b → PlainOpen b)
    (hkeep : ∀ (k : Nat) (bk : Block), bs[k]? = some bk → trailingBranch bk = true → ∃ bk' : Block, bsP[k]? = some bk' ∧ trailingBranch bk' = true)
    (hrest : ∀ (i : Nat) (b : Block) (j : Nat), bs.length - 1 ≤ i → bsP[i]? = some b → trailingBranch b = false → b.succs = [j] →
      i < j ∨ ∃ bj : Block, bsP[j]? = some bj ∧ trailingBranch bj = true) : FallOK bsP := by
  intro i b j hb htb hsu
  by_cases hi : i + 1 < bs.length
  · rw [hsame i hi] at hb
    rcases h i b j hb htb hsu with h1 | ⟨bj, hbj, htj⟩
    · exact Or.inl h1
    · exact Or.inr (hkeep j bj hbj htj)
  · exact hrest i b j (by omega) hb htb hsu

theorem fall_itePre (bs : List Block) (loc : Loc) (d : Nat) (hpos : 0 < bs.length) (hc : CurOpen bs) (h : FallOK bs) :
    FallOK (itePre loc d bs) := by
  have P := itePre_facts bs loc d hpos hc
  obtain ⟨b, bc, hb, hbc, hs, hsu⟩ := P.cond
  obtain ⟨b0, hb0, ho⟩ := hc
  rw [hb] at hb0; cases hb0
  apply fall_of_pre bs _ h (by rw [P.len]; omega) P.frame (fun b' hb' => by rw [hb] at hb'; cases hb'; exact ho)
  · intro k bk hbk htk
    have hklt : k < bs.length := (List.getElem?_eq_some_iff.mp hbk).1
    by_cases hk : k = bs.length - 1
    · subst hk; rw [hb] at hbk; cases hbk; rw [ho.1] at htk; cases htk
    · exact ⟨bk, by rw [P.frame k (by omega)]; exact hbk, htk⟩
  · intro i bi j hge hbi htb hsu'
    have hlt := (List.getElem?_eq_some_iff.mp hbi).1
    rw [P.len] at hlt
    by_cases h1 : i = bs.length - 1
    · subst h1; rw [hbc] at hbi; cases hbi
      simp [trailingBranch, hs] at htb
    · obtain ⟨bn, hbn, hon⟩ := P.cur
      have : i = (itePre loc d bs).length - 1 := by rw [P.len]; omega
      rw [this, hbn] at hbi; cases hbi
      rw [hon.2] at hsu'; cases hsu'

theorem fall_whilePre (bs : List Block) (loc : Loc) (d : Nat) (hpos : 0 < bs.length) (hc : CurOpen bs) (h : FallOK bs) :
    FallOK (whilePre loc d bs) := by
  have W := whilePre_facts bs loc d hpos hc
  obtain ⟨b, bcW, hb, hbcW, hsW, hsuW⟩ := W.before
  obtain ⟨bh, hbh, hsh, hsuh⟩ := W.header
  obtain ⟨b0, hb0, ho⟩ := hc
  rw [hb] at hb0; cases hb0
  apply fall_of_pre bs _ h (by rw [W.len]; omega) W.frame (fun b' hb' => by rw [hb] at hb'; cases hb'; exact ho)
  · intro k bk hbk htk
    have hklt : k < bs.length := (List.getElem?_eq_some_iff.mp hbk).1
    by_cases hk : k = bs.length - 1
    · subst hk; rw [hb] at hbk; cases hbk; rw [ho.1] at htk; cases htk
    · exact ⟨bk, by rw [W.frame k (by omega)]; exact hbk, htk⟩
  · intro i bi j hge hbi htb hsu'
    have hlt := (List.getElem?_eq_some_iff.mp hbi).1
    rw [W.len] at hlt
    by_cases h1 : i = bs.length - 1
    · subst h1; rw [hbcW] at hbi; cases hbi
      rw [hsuW] at hsu'; cases hsu'
      exact Or.inl (by omega)
    · by_cases h2 : i = bs.length
      · subst h2; rw [hbh] at hbi; cases hbi
        simp [trailingBranch, hsh] at htb
      · obtain ⟨bn, hbn, hon⟩ := W.cur
        have : i = (whilePre loc d bs).length - 1 := by rw [W.len]; omega
        rw [this, hbn] at hbi; cases hbi
        rw [hon.2] at hsu'; cases hsu'

mutual
theorem visit_fall (rets : List Loc) (fuelE : Nat) : ∀ (s : Stmt) (d : Nat) (bs : List Block), 0 < bs.length → CurOpen bs → FallOK bs →
    Holds (fun bs1 _ => FallOK bs1) (visit s d bs)
  | .simple loc, d, bs, hp, hc, ha => by rw [visit]; exact fall_appendStmt bs _ ha hc
  | .init cs, d, bs, hp, hc, ha => by rw [visit]; exact visitInit_fall rets fuelE cs d bs hp hc ha
  | .block cs, d, bs, hp, hc, ha => by
      rw [visit]
      exact visitBlock_fall rets fuelE cs d bs [] hp (fun _ => hc) (fun p h => (List.not_mem_nil h).elim) ha
  | .while loc body, d, bs, hp, hc, ha => by
      rw [visit]
      have W := whilePre_facts bs loc d hp hc
      have hpos : 0 < (whilePre loc d bs).length := by rw [W.len]; omega
      have hg := visit_paths rets fuelE body (d + 1) (whilePre loc d bs) hpos W.cur
      have hcl := visit_fall rets fuelE body (d + 1) (whilePre loc d bs) hpos W.cur (fall_whilePre bs loc d hp hc ha)
      apply holds_andThen (holds_and hg hcl)
      intro bs' ps ⟨g, c⟩
      obtain ⟨bh, hbh, hsh, _⟩ := W.header
      have hbh' : bs'[bs.length]? = some bh := by
        rw [g.1.frame bs.length (by rw [W.len]; omega)]; exact hbh
      have hh : bs.length - 1 + 1 = bs.length := by omega
      rw [hh]
      exact fall_addEdges bs' _ _ c (openAt_orLast g.1.pend g.1.cur) ⟨bh, hbh', by simp [trailingBranch, hsh]⟩
  | .ite loc thn, d, bs, hp, hc, ha => by
      rw [visit]
      have P := itePre_facts bs loc d hp hc
      have hpos : 0 < (itePre loc d bs).length := by rw [P.len]; omega
      apply holds_andThen (visit_fall rets fuelE thn d (itePre loc d bs) hpos P.cur (fall_itePre bs loc d hp hc ha))
      intro bs1 ifPs c
      exact c
  | .iteElse loc thn els, d, bs, hp, hc, ha => by
      rw [visit]
      have P := itePre_facts bs loc d hp hc
      have hpos : 0 < (itePre loc d bs).length := by rw [P.len]; omega
      have hg := visit_paths rets fuelE thn d (itePre loc d bs) hpos P.cur
      have hcl := visit_fall rets fuelE thn d (itePre loc d bs) hpos P.cur (fall_itePre bs loc d hp hc ha)
      apply holds_andThen (holds_and hg hcl)
      intro bs1 ifPs ⟨g, c⟩
      obtain ⟨b, bc, hb, hbc, hs, hsu⟩ := P.cond
      have hlen1 : bs.length + 1 ≤ bs1.length := by have := g.1.len; rw [P.len] at this; exact this
      have hbc1 : bs1[bs.length - 1]? = some bc := by
        rw [g.1.frame (bs.length - 1) (by rw [P.len]; omega)]; exact hbc
      have E := elsePre_facts bs1 (bs.length - 1) d bc loc b.stmts hbc1 hs hsu (by omega)
      have hop : ∀ p, p ∈ [bs.length - 1] → OpenAt bs1 p := by
        intro p hp'; simp at hp'; subst hp'
        exact ⟨bc, hbc1, Or.inr ⟨⟨b.stmts, loc, hs, hsu⟩, by omega⟩⟩
      apply holds_andThen (visit_fall rets fuelE els d (completeBlock bs1 [bs.length - 1] d) (by rw [E.len]; omega) E.cur
        (fall_completeBlock bs1 _ d c hop))
      intro bs2 elPs c2
      exact c2
theorem visitBlock_fall (rets : List Loc) (fuelE : Nat) : ∀ (cs : Stmts) (d : Nat) (bs : List Block) (ps : List Nat),
    0 < bs.length → (ps = [] → CurOpen bs) → (∀ p, p ∈ ps → OpenAt bs p) → FallOK bs →
    Holds (fun bs1 _ => FallOK bs1) (visitBlock cs d bs ps)
  | .nil, d, bs, ps, hp, hcur, hpend, ha => by rw [visitBlock]; exact ha
  | .cons s rest, d, bs, ps, hp, hcur, hpend, ha => by
      rw [visitBlock]
      obtain ⟨h0pos, h0cur, _, _, _, _⟩ := start_block bs ps d hp hcur hpend
      have ha0 : FallOK (if ps.isEmpty then bs else completeBlock bs ps d) := by
        split
        · exact ha
        · exact fall_completeBlock bs ps d ha hpend
      have hg := visit_paths rets fuelE s d _ h0pos h0cur
      have hcl := visit_fall rets fuelE s d _ h0pos h0cur ha0
      apply holds_andThen (holds_and hg hcl)
      intro bs' ps' ⟨g, c⟩
      have hpos' : 0 < bs'.length := by have := g.1.len; omega
      exact visitBlock_fall rets fuelE rest d bs' ps' hpos' g.1.cur g.1.pend c
theorem visitInit_fall (rets : List Loc) (fuelE : Nat) : ∀ (cs : Stmts) (d : Nat) (bs : List Block),
    0 < bs.length → CurOpen bs → FallOK bs → Holds (fun bs1 _ => FallOK bs1) (visitInit cs d bs)
  | .nil, d, bs, hp, hc, ha => by rw [visitInit]; exact ha
  | .cons s rest, d, bs, hp, hc, ha => by
      rw [visitInit]
      have hg := visit_paths rets fuelE s d bs hp hc
      have hcl := visit_fall rets fuelE s d bs hp hc ha
      apply holds_andThen (holds_and hg hcl)
      intro bs' ps' ⟨g, c⟩
      have hpos' : 0 < bs'.length := by have := g.1.len; omega
      split
      · rename_i hemp
        have hps' : ps' = [] := by simpa using hemp
        exact visitInit_fall rets fuelE rest d bs' hpos' (g.1.cur hps') c
      · trivial
end

theorem fallOK_init : FallOK initBlocks := by
  intro i b j hb _ hsu
  have : i = 0 := by
    have := (List.getElem?_eq_some_iff.mp hb).1
    simp [initBlocks] at this; exact this
  subst this
  simp [initBlocks] at hb
  subst hb
  cases hsu

theorem lift_fall (body : Stmt) (bs : List Block) (ps : List Nat) (h : lift body = .ok bs ps) : FallOK bs := by
  have hv := visit_fall [] 0 body 0 initBlocks (by simp [initBlocks]) curOpen_init fallOK_init
  unfold lift at h
  change visit body 0 initBlocks = _ at h
  rw [h] at hv
  exact hv

-- ---------------------------------------------------------------------------- the budget

/-- the number of block visits a path from block `i` with the decisions `ds` can need -/
def budgetAt (G : List Block) (i : Nat) (ds : List Bool) : Nat :=
  ds.length * (G.length + 1) +
    (match G[i]? with
     | some b => if trailingBranch b then 0 else G.length - i
     | none => 0) + 1

theorem budgetAt_plain (G : List Block) (i : Nat) (ds : List Bool) (b : Block) (hb : G[i]? = some b)
    (ht : trailingBranch b = false) : budgetAt G i ds = ds.length * (G.length + 1) + (G.length - i) + 1 := by
  unfold budgetAt; simp [hb, ht]

theorem budgetAt_branch (G : List Block) (i : Nat) (ds : List Bool) (b : Block) (hb : G[i]? = some b)
    (ht : trailingBranch b = true) : budgetAt G i ds = ds.length * (G.length + 1) + 1 := by
  unfold budgetAt; simp [hb, ht]

theorem budgetAt_none (G : List Block) (i : Nat) (ds : List Bool) (hb : G[i]? = none) :
    budgetAt G i ds = ds.length * (G.length + 1) + 1 := by
  unfold budgetAt; simp [hb]

theorem budgetAt_le' (G : List Block) (i : Nat) (ds : List Bool) :
    budgetAt G i ds ≤ ds.length * (G.length + 1) + G.length + 1 := by
  cases hb : G[i]? with
  | none => rw [budgetAt_none G i ds hb]; omega
  | some b =>
    cases ht : trailingBranch b with
    | true => rw [budgetAt_branch G i ds b hb ht]; omega
    | false =>
      rw [budgetAt_plain G i ds b hb ht]
      have : G.length - i ≤ G.length := Nat.sub_le _ _
      omega

theorem budgetAt_le (G : List Block) (i : Nat) (ds : List Bool) : budgetAt G i ds ≤ (ds.length + 1) * (G.length + 1) := by
  have := budgetAt_le' G i ds
  rw [Nat.add_mul]; omega

/-- `path_walk` with an explicit bound on the budget -/
theorem path_walk_bound (G : List Block) (hf : FallOK G) {i a : Nat} {tr : List Loc} {ds ds' : List Bool} {e : End}
    (h : Path G i a tr ds ds' e) :
    ∃ N, N ≤ budgetAt G i ds ∧ ∀ fuel, N ≤ fuel → ∀ acc, (acc ++ before G i a ++ tr) <+: walk G fuel i ds acc := by
  induction h with
  | here i a ds =>
    obtain ⟨N, hN⟩ := path_walk G (Path.here (G := G) i a ds)
    -- the `here` case of `path_walk` uses one block visit
    refine ⟨1, by have : 1 ≤ budgetAt G i ds := by unfold budgetAt; omega
                  exact this, ?_⟩
    intro fuel hfu acc
    obtain ⟨f, rfl⟩ : ∃ f, fuel = f + 1 := ⟨fuel - 1, by omega⟩
    simp only [List.append_nil]
    cases hb : G[i]? with
    | none => rw [walk_none G f i ds acc hb]; unfold before; simp [hb]
    | some b =>
      have h1 : acc ++ before G i a <+: acc ++ locsOf b :=
        (List.prefix_append_right_inj acc).mpr (before_prefix G i a b hb)
      have h2 : acc ++ locsOf b <+: walk G (f + 1) i ds acc := by
        unfold walk; simp only [hb, locsOf]
        have hp := List.prefix_refl (acc ++ b.stmts.map stmtLoc)
        split
        · split
          · exact hp
          · split
            · exact walk_acc_prefix _ _ _ _ _
            · split
              · exact walk_acc_prefix _ _ _ _ _
              · split
                · exact walk_acc_prefix _ _ _ _ _
                · exact hp
        · split
          · exact walk_acc_prefix _ _ _ _ _
          · exact hp
      exact h1.trans h2
  | simple i a b loc tr ds ds' e hb hs _ ih =>
    obtain ⟨N, hNb, hN⟩ := ih
    refine ⟨N, hNb, ?_⟩
    intro fuel hfu acc
    have := hN fuel hfu acc
    rw [before_succ G i a b _ hb hs] at this
    simpa [stmtLoc, List.append_assoc] using this
  | brT i a b loc t f tr ds ds' e hb hs hl _ ih =>
    obtain ⟨N, hNb, hN⟩ := ih
    have htb : trailingBranch b = true := (trailing_iff b).mpr ⟨loc, t, f, last_of_index b a _ hs hl⟩
    refine ⟨N + 1, ?_, ?_⟩
    · have := budgetAt_le' G t ds
      rw [budgetAt_branch G i (true :: ds) b hb htb]
      simp only [List.length_cons, Nat.add_mul]
      omega
    · intro fuel hfu acc
      obtain ⟨f', rfl⟩ : ∃ f', fuel = f' + 1 := ⟨fuel - 1, by omega⟩
      rw [walk_branch_true G f' i ds acc b loc t f hb (last_of_index b a _ hs hl)]
      have := hN f' (by omega) (acc ++ locsOf b)
      rw [before_zero] at this
      have hfull : before G i a ++ [loc] = locsOf b := by
        have := before_succ G i a b _ hb hs
        rw [before_full G i (a + 1) b hb (by omega)] at this
        simpa [stmtLoc] using this.symm
      rw [← hfull]
      rw [← hfull] at this
      simpa [List.append_assoc] using this
  | brF i a b loc t f ds hb hs hl =>
    refine ⟨1, by have : 1 ≤ budgetAt G i (false :: ds) := by unfold budgetAt; omega
                  exact this, ?_⟩
    intro fuel hfu acc
    obtain ⟨f', rfl⟩ : ∃ f', fuel = f' + 1 := ⟨fuel - 1, by omega⟩
    have hfull : before G i a ++ [loc] = locsOf b := by
      have := before_succ G i a b _ hb hs
      rw [before_full G i (a + 1) b hb (by omega)] at this
      simpa [stmtLoc] using this.symm
    have h1 : acc ++ before G i a ++ [loc] = acc ++ locsOf b := by rw [List.append_assoc, hfull]
    rw [h1]
    unfold walk; simp only [hb, locsOf, last_of_index b a _ hs hl, Bool.false_eq_true, if_false]
    have hp := List.prefix_refl (acc ++ b.stmts.map stmtLoc)
    split
    · exact walk_acc_prefix _ _ _ _ _
    · split
      · exact walk_acc_prefix _ _ _ _ _
      · exact hp
  | brFgo i a b loc t f j tr ds ds' e hb hs hl hfa _ ih =>
    obtain ⟨N, hNb, hN⟩ := ih
    have htb : trailingBranch b = true := (trailing_iff b).mpr ⟨loc, t, f, last_of_index b a _ hs hl⟩
    refine ⟨N + 1, ?_, ?_⟩
    · have := budgetAt_le' G j ds
      rw [budgetAt_branch G i (false :: ds) b hb htb]
      simp only [List.length_cons, Nat.add_mul]
      omega
    · intro fuel hfu acc
      obtain ⟨f', rfl⟩ : ∃ f', fuel = f' + 1 := ⟨fuel - 1, by omega⟩
      rw [walk_branch_false G f' i ds acc b loc t f j hb (last_of_index b a _ hs hl) hfa]
      have := hN f' (by omega) (acc ++ locsOf b)
      rw [before_zero] at this
      have hfull : before G i a ++ [loc] = locsOf b := by
        have := before_succ G i a b _ hb hs
        rw [before_full G i (a + 1) b hb (by omega)] at this
        simpa [stmtLoc] using this.symm
      rw [← hfull]
      rw [← hfull] at this
      simpa [List.append_assoc] using this
  | fall i a b j tr ds ds' e hb ha htb hsu _ ih =>
    obtain ⟨N, hNb, hN⟩ := ih
    have hilt : i < G.length := (List.getElem?_eq_some_iff.mp hb).1
    refine ⟨N + 1, ?_, ?_⟩
    · -- the edge goes forward, or into a block ending in a branch
      rw [budgetAt_plain G i ds b hb htb]
      rcases hf i b j hb htb hsu with hlt | ⟨bj, hbj, htj⟩
      · cases hbj : G[j]? with
        | none => rw [budgetAt_none G j ds hbj] at hNb; omega
        | some bj =>
          cases htj : trailingBranch bj with
          | true => rw [budgetAt_branch G j ds bj hbj htj] at hNb; omega
          | false => rw [budgetAt_plain G j ds bj hbj htj] at hNb; omega
      · rw [budgetAt_branch G j ds bj hbj htj] at hNb; omega
    · intro fuel hfu acc
      obtain ⟨f', rfl⟩ : ∃ f', fuel = f' + 1 := ⟨fuel - 1, by omega⟩
      rw [walk_fall G f' i ds acc b j hb htb hsu]
      have := hN f' (by omega) (acc ++ locsOf b)
      rw [before_zero] at this
      rw [before_full G i a b hb (by omega)]
      simpa [List.append_assoc] using this

/-- the source trace is a prefix of the trace of some path from the entry of the lifted CFG -/
theorem lift_path (rets : List Loc) (body : Stmt) (bs : List Block) (ps : List Nat) (ds : List Bool)
    (h : lift body = .ok bs ps) :
    ∃ tr' ds'' e, Path bs 0 0 tr' ds ds'' e ∧ astTrace rets body ds <+: tr' := by
  have hv := visit_paths rets (ds.length + 1) body 0 initBlocks (by simp [initBlocks]) curOpen_init
  unfold lift at h
  change visit body 0 initBlocks = _ at h
  rw [h] at hv
  obtain ⟨_, hpaths⟩ := hv
  have hp := hpaths ⟨[], ds, false⟩ rfl
  have h0 : initBlocks.length - 1 = 0 := rfl
  have h1 : TracePaths.curLen initBlocks = 0 := rfl
  rw [h0, h1] at hp
  obtain ⟨tr, t1, t2, t3⟩ := hp
  simp only [List.nil_append] at t1 t2 t3
  unfold astTrace
  rw [t1]
  cases hst : (exec rets (ds.length + 1) body ⟨[], ds, false⟩).stop with
  | false =>
    obtain ⟨e, hpath, _⟩ := t2 hst
    exact ⟨tr, _, e, hpath, List.prefix_refl _⟩
  | true =>
    obtain ⟨tr', ds'', e, hpath, hpf⟩ := t3 hst
    exact ⟨tr', ds'', e, hpath, hpf⟩

/-- **C13 with the concrete budget of `cfgTrace`** -/
theorem trace_inclusion_cfgTrace (rets : List Loc) (body : Stmt) (bs : List Block) (ps : List Nat) (ds : List Bool)
    (h : lift body = .ok bs ps) : isPrefix (astTrace rets body ds) (cfgTrace bs ds) = true := by
  obtain ⟨tr', ds'', e, hpath, hpf⟩ := lift_path rets body bs ps ds h
  obtain ⟨N, hNb, hN⟩ := path_walk_bound bs (lift_fall body bs ps h) hpath
  have hfuel : N ≤ (ds.length + 1) * (bs.length + 1) := Nat.le_trans hNb (budgetAt_le bs 0 ds)
  have := hN _ hfuel []
  rw [before_zero] at this
  apply (isPrefix_iff _ _).mpr
  unfold cfgTrace
  exact hpf.trans (by simpa using this)

end Circomspect.TracePaths
