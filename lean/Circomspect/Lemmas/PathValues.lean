/-
Path-level soundness of value propagation (C06, C20): every claim that any number of passes of the
operational model `Propagate.valLoop` writes on any node of an SSA CFG is right in *every state that
any execution of the CFG can reach*.

Executions are over-approximated: a state is a map from SSA variables to values (`none` = not yet
assigned), and from any reachable state *any* substitution of the CFG may be executed next, in any
order and any number of times (so every path of the graph, every loop count and every branch decision
is an instance); a `phi` takes the value of any one of its arguments (the argument of the incoming
edge, hypothesis `PhiComplete` of DESIGN.md); calls, inline arrays, array reads and updates evaluate to
whatever an arbitrary oracle `ω` says (a fresh one at every step); a variable that has no defining
substitution (parameters, input signals, locals declared without initialiser) may change arbitrarily
at any time.  The only hypothesis on the CFG is `SingleDef`: no two substitutions that can carry a claim
assign the same variable — clause (a) of C14 for versioned locals; for an unversioned variable (a signal, a
component) it holds by construction, because the pre-pass of `Cfg::propagate_values` (`multiOf`) marks every
such variable assigned by two statements as not constant (`singleDef_unversioned`).  Calls, inline arrays,
array reads and element-wise updates never carry a claim (`quiet`), so `component c = T(); c.in <== e;` is
inside the theorem.
-/
import Circomspect.Lemmas.ValueLemmas
set_option linter.unusedSimpArgs false
set_option linter.unusedVariables false
namespace Circomspect.Propagate
open Circomspect Ir

-- ---------------------------------------------------------------------------- erasure facts

mutual
theorem erase_erase : ∀ e, erase (erase e) = erase e
  | .infix _ op l r => by simp only [erase, erase_erase l, erase_erase r]
  | .prefix _ op e => by simp only [erase, erase_erase e]
  | .switch _ c t f => by simp only [erase, erase_erase c, erase_erase t, erase_erase f]
  | .var _ v => by simp only [erase]
  | .num _ n => by simp only [erase]
  | .call _ n args => by simp only [erase, eraseEs_eraseEs args]
  | .arr _ vals => by simp only [erase, eraseEs_eraseEs vals]
  | .acc _ v access => by simp only [erase, eraseAs_eraseAs access]
  | .upd _ v access rhe => by simp only [erase, eraseAs_eraseAs access, erase_erase rhe]
  | .phi _ args => by simp only [erase]
theorem eraseEs_eraseEs : ∀ es, eraseEs (eraseEs es) = eraseEs es
  | .nil => by simp only [eraseEs]
  | .cons e r => by simp only [eraseEs, erase_erase e, eraseEs_eraseEs r]
theorem eraseAs_eraseAs : ∀ acc, eraseAs (eraseAs acc) = eraseAs acc
  | .nil => by simp only [eraseAs]
  | .cons (.idx e) r => by simp only [eraseAs, erase_erase e, eraseAs_eraseAs r]
  | .cons (.cmp n) r => by simp only [eraseAs, eraseAs_eraseAs r]
end

/-- evaluation does not look at annotations -/
theorem evalE_erase (ρ : VName → Option Val) (ω : Expr → Option Val) (p : Int) :
    ∀ e, evalE ρ ω p (erase e) = evalE ρ ω p e
  | .infix _ op l r => by simp only [erase, evalE, evalE_erase ρ ω p l, evalE_erase ρ ω p r]
  | .prefix _ op e => by simp only [erase, evalE, evalE_erase ρ ω p e]
  | .switch _ c t f => by simp only [erase, evalE, evalE_erase ρ ω p c, evalE_erase ρ ω p t, evalE_erase ρ ω p f]
  | .var _ v => by simp only [erase, evalE]
  | .num _ n => by simp only [erase, evalE]
  | .call a n args => by
    have := erase_erase (.call a n args)
    simp only [erase] at this ⊢; simp only [evalE, erase, this]
  | .arr a vals => by
    have := erase_erase (.arr a vals)
    simp only [erase] at this ⊢; simp only [evalE, erase, this]
  | .acc a v access => by
    have := erase_erase (.acc a v access)
    simp only [erase] at this ⊢; simp only [evalE, erase, this]
  | .upd a v access rhe => by
    have := erase_erase (.upd a v access rhe)
    simp only [erase] at this ⊢; simp only [evalE, erase, this]
  | .phi _ args => by simp only [erase, evalE]

theorem evalE_congr (ρ : VName → Option Val) (ω : Expr → Option Val) (p : Int) (e e' : Expr)
    (h : erase e = erase e') : evalE ρ ω p e = evalE ρ ω p e' := by
  rw [← evalE_erase ρ ω p e, h, evalE_erase]

def isPhi : Expr → Bool
  | .phi _ _ => true
  | _ => false

theorem isPhi_erase : ∀ e, isPhi (erase e) = isPhi e
  | .infix _ _ _ _ => rfl
  | .prefix _ _ _ => rfl
  | .switch _ _ _ _ => rfl
  | .var _ _ => rfl
  | .num _ _ => rfl
  | .call _ _ _ => rfl
  | .arr _ _ => rfl
  | .acc _ _ _ => rfl
  | .upd _ _ _ _ => rfl
  | .phi _ _ => rfl

theorem erase_phi_inv : ∀ (e : Expr) (args : List VName), erase e = .phi {} args → ∃ a, e = .phi a args
  | .infix _ _ _ _, _, h => by simp [erase] at h
  | .prefix _ _ _, _, h => by simp [erase] at h
  | .switch _ _ _ _, _, h => by simp [erase] at h
  | .var _ _, _, h => by simp [erase] at h
  | .num _ _, _, h => by simp [erase] at h
  | .call _ _ _, _, h => by simp [erase] at h
  | .arr _ _, _, h => by simp [erase] at h
  | .acc _ _ _, _, h => by simp [erase] at h
  | .upd _ _ _ _, _, h => by simp [erase] at h
  | .phi a args', args, h => by
    simp only [erase, Expr.phi.injEq, true_and] at h
    subst h; exact ⟨a, rfl⟩

def eraseL : LogArg → LogArg
  | .str => .str
  | .expr e => .expr (erase e)

/-- the statement without its annotations -/
def eraseS : Stmt → Stmt
  | .decl names ty dims => .decl names ty (dims.map erase)
  | .ite c => .ite (erase c)
  | .ret e => .ret (erase e)
  | .sub _ v ty op rhe => .sub {} v ty op (erase rhe)
  | .ceq l r => .ceq (erase l) (erase r)
  | .log args => .log (args.map eraseL)
  | .assert e => .assert (erase e)

-- ---------------------------------------------------------------------------- executions

abbrev State := VName → Option Val

def State.set (σ : State) (v : VName) (y : Option Val) : State := fun w => if w = v then y else σ w

@[simp] theorem State.set_same (σ : State) (v : VName) (y : Option Val) : σ.set v y v = y := by simp [State.set]
theorem State.set_other (σ : State) (v w : VName) (y : Option Val) (h : w ≠ v) : σ.set v y w = σ w := by
  simp [State.set, h]

/-- the variable a statement assigns -/
def defVar : Stmt → Option VName
  | .sub _ v _ _ _ => some v
  | _ => none

theorem defVar_eraseS (s : Stmt) : defVar (eraseS s) = defVar s := by cases s <;> rfl

/-- one execution step of the program `P` (its substitutions, in any order) -/
inductive Step (p : Int) (P : List Stmt) : State → State → Prop
  | assign (σ : State) (a : Ann) (v : VName) (ty : Option VType) (op : String) (rhe : Expr) (ω : Expr → Option Val) :
      Stmt.sub a v ty op rhe ∈ P → isPhi rhe = false → Step p P σ (σ.set v (evalE σ ω p rhe))
  | phi (σ : State) (a : Ann) (v : VName) (ty : Option VType) (op : String) (a' : Ann) (args : List VName) (arg : VName) :
      Stmt.sub a v ty op (.phi a' args) ∈ P → arg ∈ args → Step p P σ (σ.set v (σ arg))
  | havoc (σ : State) (v : VName) (y : Option Val) :
      (∀ s, s ∈ P → defVar s ≠ some v) → Step p P σ (σ.set v y)

/-- initially no variable that the program assigns has a value; all others are arbitrary -/
def Init (P : List Stmt) (σ : State) : Prop := ∀ s, s ∈ P → ∀ v, defVar s = some v → σ v = none

inductive Reach (p : Int) (P : List Stmt) : State → Prop
  | init (σ : State) : Init P σ → Reach p P σ
  | step (σ σ' : State) : Reach p P σ → Step p P σ σ' → Reach p P σ'

/-- the expression forms that never carry a value claim: element-wise updates, calls (component
    instantiations among them), inline arrays and array reads -/
def quiet : Expr → Bool
  | .upd _ _ _ _ => true
  | .call _ _ _ => true
  | .arr _ _ => true
  | .acc _ _ _ => true
  | _ => false

/-- the statement assigns a quiet expression, e.g. `v = update(v, access, e)` or `c = T(..)` -/
def isUpdS : Stmt → Bool
  | .sub _ _ _ _ rhe => quiet rhe
  | _ => false

/-- no two substitutions of the program assign the same variable — except substitutions of quiet expressions
    (which never produce a claim) and the variables `Mu` that the pre-pass marked as not constant -/
def SingleDef (Mu : VName → Prop) (P : List Stmt) : Prop :=
  ∀ s₁ s₂, s₁ ∈ P → s₂ ∈ P → ∀ v, defVar s₁ = some v → defVar s₂ = some v →
    s₁ = s₂ ∨ (isUpdS s₁ = true ∧ isUpdS s₂ = true) ∨ Mu v

theorem isUpd_erase : ∀ e, quiet (erase e) = quiet e
  | .infix _ _ _ _ => rfl
  | .prefix _ _ _ => rfl
  | .switch _ _ _ _ => rfl
  | .var _ _ => rfl
  | .num _ _ => rfl
  | .call _ _ _ => rfl
  | .arr _ _ => rfl
  | .acc _ _ _ => rfl
  | .upd _ _ _ _ => rfl
  | .phi _ _ => rfl

theorem isUpd_congr (e e' : Expr) (h : erase e = erase e') : quiet e = quiet e' := by
  rw [← isUpd_erase e, h, isUpd_erase]

/-- a quiet node never carries a value claim -/
theorem sound_upd_none (ρ : VName → Option Val) (ω : Expr → Option Val) (p : Int) :
    ∀ e, SoundE ρ ω p e → quiet e = true → e.ann.val = none
  | .upd a v access rhe, h, _ => by unfold SoundE at h; exact h.1
  | .infix _ _ _ _, _, hu => by simp [quiet] at hu
  | .prefix _ _ _, _, hu => by simp [quiet] at hu
  | .switch _ _ _ _, _, hu => by simp [quiet] at hu
  | .var _ _, _, hu => by simp [quiet] at hu
  | .num _ _, _, hu => by simp [quiet] at hu
  | .call _ _ _, h, _ => by unfold SoundE at h; exact h.1
  | .arr _ _, h, _ => by unfold SoundE at h; exact h.1
  | .acc _ _ _, h, _ => by unfold SoundE at h; exact h.1
  | .phi _ _, _, hu => by simp [quiet] at hu

/-- how a value of `v` can have come about -/
def Produced (p : Int) (P : List Stmt) (σ₀ : State) (v : VName) (y : Val) : Prop :=
  (∃ a ty op rhe ω, Stmt.sub a v ty op rhe ∈ P ∧ isPhi rhe = false ∧ evalE σ₀ ω p rhe = some y) ∨
  (∃ a ty op a' args arg, Stmt.sub a v ty op (.phi a' args) ∈ P ∧ arg ∈ args ∧ σ₀ arg = some y)

/-- every value of an assigned variable was produced by one of its substitutions in a reachable state -/
theorem reach_origin (p : Int) (P : List Stmt) (v : VName) (hdef : ∃ s, s ∈ P ∧ defVar s = some v) :
    ∀ σ, Reach p P σ → ∀ y, σ v = some y → ∃ σ₀, Reach p P σ₀ ∧ Produced p P σ₀ v y := by
  intro σ hr
  induction hr with
  | init σ hi =>
    intro y hy
    obtain ⟨s, hs, hd⟩ := hdef
    rw [hi s hs v hd] at hy; cases hy
  | step σ σ' hr hst ih =>
    intro y hy
    cases hst with
    | assign a w ty op rhe ω hmem hnp =>
      by_cases hvw : v = w
      · subst hvw
        rw [State.set_same] at hy
        exact ⟨σ, hr, Or.inl ⟨a, ty, op, rhe, ω, hmem, hnp, hy⟩⟩
      · rw [State.set_other _ _ _ _ hvw] at hy
        exact ih y hy
    | phi a w ty op a' args arg hmem harg =>
      by_cases hvw : v = w
      · subst hvw
        rw [State.set_same] at hy
        exact ⟨σ, hr, Or.inr ⟨a, ty, op, a', args, arg, hmem, harg, hy⟩⟩
      · rw [State.set_other _ _ _ _ hvw] at hy
        exact ih y hy
    | havoc w y' hno =>
      by_cases hvw : v = w
      · subst hvw
        obtain ⟨s, hs, hd⟩ := hdef
        exact absurd hd (hno s hs)
      · rw [State.set_other _ _ _ _ hvw] at hy
        exact ih y hy

-- ---------------------------------------------------------------------------- statement soundness

/-- every claim on the statement is right in the state `σ`, whatever the opaque forms evaluate to -/
def SoundS (Mu : VName → Prop) (σ : State) (p : Int) : Stmt → Prop
  | .decl _ _ dims => ∀ e, e ∈ dims → ∀ ω, SoundE σ ω p e
  | .ite c => ∀ ω, SoundE σ ω p c
  | .ret e => ∀ ω, SoundE σ ω p e
  | .sub a v _ _ rhe => (∀ ω, SoundE σ ω p rhe) ∧ (¬ Mu v → ∀ x, a.val = some x → ∀ y, σ v = some y → y = x)
  | .ceq l r => ∀ ω, SoundE σ ω p l ∧ SoundE σ ω p r
  | .log args => ∀ e, LogArg.expr e ∈ args → ∀ ω, SoundE σ ω p e
  | .assert e => ∀ ω, SoundE σ ω p e

theorem add_prime (env : ValEnv) (v : VName) (x : Val) : (env.add v x).prime = env.prime := by
  unfold ValEnv.add
  split
  · rfl
  · split
    · split <;> rfl
    · rfl

theorem valStmt_prime (env : ValEnv) (s : Stmt) : (valStmt env s).2.1.prime = env.prime := by
  cases s with
  | decl names ty dims => simp only [valStmt]
  | ite c => simp only [valStmt]
  | ret e => simp only [valStmt]
  | sub a v ty op rhe =>
    simp only [valStmt]
    split
    · split
      · exact add_prime _ _ _
      · rfl
    · rfl
  | ceq l r => simp only [valStmt]
  | log args => simp only [valStmt]
  | assert e => simp only [valStmt]

/-! the two `foldl`s of `valStmt` (declaration dimensions, log arguments) -/

def dimStep (env : ValEnv) (acc : List Expr × Bool) (e : Expr) : List Expr × Bool :=
  let (e', c) := if acc.2 then (e, true) else valExpr env e; (acc.1 ++ [e'], c)

theorem dimFold_inv (env : ValEnv) (Q : Expr → Prop) (hQ : ∀ e, Q e → Q (valExpr env e).1) :
    ∀ (l : List Expr) (acc : List Expr × Bool), (∀ e, e ∈ acc.1 → Q e) → (∀ e, e ∈ l → Q e) →
      ∀ e, e ∈ (l.foldl (dimStep env) acc).1 → Q e := by
  intro l
  induction l with
  | nil => intro acc h1 _ e he; exact h1 e he
  | cons x r ih =>
    intro acc h1 h2 e he
    simp only [List.foldl_cons] at he
    apply ih (dimStep env acc x) _ (fun e he => h2 e (List.mem_cons_of_mem _ he)) e he
    intro e' he'
    unfold dimStep at he'
    cases hc : acc.2 with
    | true =>
      simp only [hc, if_true, List.mem_append, List.mem_singleton] at he'
      rcases he' with h | h
      · exact h1 e' h
      · subst h; exact h2 _ List.mem_cons_self
    | false =>
      simp only [hc, Bool.false_eq_true, if_false, List.mem_append, List.mem_singleton] at he'
      rcases he' with h | h
      · exact h1 e' h
      · subst h; exact hQ _ (h2 _ List.mem_cons_self)

theorem dimFold_erase (env : ValEnv) :
    ∀ (l : List Expr) (acc : List Expr × Bool),
      (l.foldl (dimStep env) acc).1.map erase = acc.1.map erase ++ l.map erase := by
  intro l
  induction l with
  | nil => intro acc; simp
  | cons x r ih =>
    intro acc
    simp only [List.foldl_cons]
    rw [ih]
    unfold dimStep
    cases hc : acc.2 with
    | true => simp [hc]
    | false => simp [hc, erase_valExpr]

def logStep (env : ValEnv) (acc : List LogArg × Bool) (x : LogArg) : List LogArg × Bool :=
  match x with
  | .str => (acc.1 ++ [.str], acc.2)
  | .expr e => let (e', c) := if acc.2 then (e, true) else valExpr env e; (acc.1 ++ [.expr e'], c)

theorem logFold_inv (env : ValEnv) (Q : Expr → Prop) (hQ : ∀ e, Q e → Q (valExpr env e).1) :
    ∀ (l : List LogArg) (acc : List LogArg × Bool), (∀ e, LogArg.expr e ∈ acc.1 → Q e) → (∀ e, LogArg.expr e ∈ l → Q e) →
      ∀ e, LogArg.expr e ∈ (l.foldl (logStep env) acc).1 → Q e := by
  intro l
  induction l with
  | nil => intro acc h1 _ e he; exact h1 e he
  | cons x r ih =>
    intro acc h1 h2 e he
    simp only [List.foldl_cons] at he
    apply ih (logStep env acc x) _ (fun e he => h2 e (List.mem_cons_of_mem _ he)) e he
    intro e' he'
    cases x with
    | str =>
      simp only [logStep, List.mem_append, List.mem_singleton] at he'
      rcases he' with h | h
      · exact h1 e' h
      · cases h
    | expr x =>
      unfold logStep at he'
      cases hc : acc.2 with
      | true =>
        simp only [hc, if_true, List.mem_append, List.mem_singleton] at he'
        rcases he' with h | h
        · exact h1 e' h
        · cases h; exact h2 _ List.mem_cons_self
      | false =>
        simp only [hc, Bool.false_eq_true, if_false, List.mem_append, List.mem_singleton] at he'
        rcases he' with h | h
        · exact h1 e' h
        · cases h; exact hQ _ (h2 _ List.mem_cons_self)

theorem logFold_erase (env : ValEnv) :
    ∀ (l : List LogArg) (acc : List LogArg × Bool),
      (l.foldl (logStep env) acc).1.map eraseL = acc.1.map eraseL ++ l.map eraseL := by
  intro l
  induction l with
  | nil => intro acc; simp
  | cons x r ih =>
    intro acc
    simp only [List.foldl_cons]
    rw [ih]
    cases x with
    | str => simp [logStep, eraseL]
    | expr e =>
      unfold logStep
      cases hc : acc.2 with
      | true => simp [hc, eraseL]
      | false => simp [hc, eraseL, erase_valExpr]

theorem valStmt_decl (env : ValEnv) (names : List VName) (ty : VType) (dims : List Expr) :
    valStmt env (.decl names ty dims) =
      (.decl names ty (dims.foldl (dimStep env) ([], false)).1, env, (dims.foldl (dimStep env) ([], false)).2) := rfl

theorem valStmt_log (env : ValEnv) (args : List LogArg) :
    valStmt env (.log args) =
      (.log (args.foldl (logStep env) ([], false)).1, env, (args.foldl (logStep env) ([], false)).2) := by
  simp only [valStmt]
  rfl

/-- propagation changes annotations only, statement level -/
theorem eraseS_valStmt (env : ValEnv) (s : Stmt) : eraseS (valStmt env s).1 = eraseS s := by
  cases s with
  | decl names ty dims =>
    rw [valStmt_decl]; simp only [eraseS]; rw [dimFold_erase]; simp
  | ite c => simp only [valStmt, eraseS, erase_valExpr]
  | ret e => simp only [valStmt, eraseS, erase_valExpr]
  | sub a v ty op rhe =>
    simp only [valStmt]
    split
    · split <;> simp only [eraseS, erase_valExpr]
    · simp only [eraseS, erase_valExpr]
  | ceq l r =>
    simp only [valStmt]
    cases hc : (valExpr env l).2 with
    | true => simp only [if_true, eraseS, erase_valExpr]
    | false => simp only [Bool.false_eq_true, if_false, eraseS, erase_valExpr]
  | log args =>
    rw [valStmt_log]; simp only [eraseS]; rw [logFold_erase]; simp
  | assert e => simp only [valStmt, eraseS, erase_valExpr]

-- ---------------------------------------------------------------------------- the global invariant

/-- `M` is the set of statements currently in the CFG (a superset is harmless): all of them are
    annotated versions of statements of the program `P`, the abstract environment agrees with every
    reachable state and every claim is right in every reachable state -/
structure GInv (Mu : VName → Prop) (p : Int) (P : List Stmt) (env : ValEnv) (M : Stmt → Prop) : Prop where
  prime : env.prime = p
  marked : ∀ v, Mu v → env.nonConstant.contains v = true
  linked : ∀ s, M s → eraseS s ∈ P.map eraseS
  agree : ∀ σ, Reach p P σ → Agree σ env
  sound : ∀ σ, Reach p P σ → ∀ s, M s → SoundS Mu σ p s

theorem GInv.weaken {Mu : VName → Prop} {p : Int} {P : List Stmt} {env : ValEnv} {M M' : Stmt → Prop}
    (h : GInv Mu p P env M) (hsub : ∀ s, M' s → M s) : GInv Mu p P env M' :=
  ⟨h.prime, h.marked, fun s hs => h.linked s (hsub s hs), h.agree, fun σ hr s hs => h.sound σ hr s (hsub s hs)⟩

theorem orSetVal_some (a : Ann) (c : Bool) (x : Val) :
    (orSetVal a c (some x)).1.val = a.val ∨ (orSetVal a c (some x)).1.val = some x := by
  cases c <;> simp [orSetVal, setVal]

/-- the linked original of a substitution -/
theorem linked_sub (P : List Stmt) (a : Ann) (v : VName) (ty : Option VType) (op : String) (rhe : Expr)
    (h : eraseS (.sub a v ty op rhe) ∈ P.map eraseS) :
    ∃ a₀ rhe₀, Stmt.sub a₀ v ty op rhe₀ ∈ P ∧ erase rhe₀ = erase rhe := by
  obtain ⟨s₀, hs₀, he⟩ := List.mem_map.mp h
  cases s₀ with
  | sub a₀ v₀ ty₀ op₀ rhe₀ =>
    simp only [eraseS, Stmt.sub.injEq, true_and] at he
    obtain ⟨h1, h2, h3, h4⟩ := he
    subst h1; subst h2; subst h3
    exact ⟨a₀, rhe₀, hs₀, h4⟩
  | decl _ _ _ => simp [eraseS] at he
  | ite _ => simp [eraseS] at he
  | ret _ => simp [eraseS] at he
  | ceq _ _ => simp [eraseS] at he
  | log _ => simp [eraseS] at he
  | assert _ => simp [eraseS] at he

/-- the key fact: once the right-hand side of the (only) substitution to `v` carries the claim `x`,
    `v` never holds another value -/
theorem sub_value (Mu : VName → Prop) (p : Int) (P : List Stmt) (hsd : SingleDef Mu P) (env : ValEnv) (M : Stmt → Prop)
    (h : GInv Mu p P env M) (a : Ann) (v : VName) (ty : Option VType) (op : String) (rhe : Expr)
    (hs : M (.sub a v ty op rhe)) (hmu : ¬ Mu v) (x : Val) (hx : (valExpr env rhe).1.ann.val = some x) :
    ∀ σ, Reach p P σ → ∀ y, σ v = some y → y = x := by
  intro σ hr y hy
  obtain ⟨a₀, rhe₀, hmem₀, her⟩ := linked_sub P a v ty op rhe (h.linked _ hs)
  obtain ⟨σ₀, hr₀, hprod⟩ := reach_origin p P v ⟨_, hmem₀, rfl⟩ σ hr y hy
  have hsound₀ := (h.sound σ₀ hr₀ _ hs)
  unfold SoundS at hsound₀
  have hag₀ := h.agree σ₀ hr₀
  have hp := h.prime
  rcases hprod with ⟨a₁, ty₁, op₁, rhe₁, ω, hmem₁, hnp, hev⟩ | ⟨a₁, ty₁, op₁, a', args, arg, hmem₁, harg, hval⟩
  · have hs' := valExpr_sound σ₀ ω env hag₀ rhe (by rw [hp]; exact hsound₀.1 ω)
    have heq : Stmt.sub a₁ v ty₁ op₁ rhe₁ = Stmt.sub a₀ v ty op rhe₀ := by
      rcases hsd _ _ hmem₁ hmem₀ v rfl rfl with h | ⟨_, hu⟩ | h
      · exact h
      · exfalso
        simp only [isUpdS] at hu
        have hu' : quiet (valExpr env rhe).1 = true := by
          rw [isUpd_congr _ rhe (erase_valExpr env rhe), ← isUpd_congr _ _ her]; exact hu
        rw [sound_upd_none σ₀ ω env.prime _ hs' hu'] at hx; cases hx
      · exact absurd h hmu
    simp only [Stmt.sub.injEq] at heq
    obtain ⟨_, _, _, _, h5⟩ := heq
    subst h5
    have htop := sound_top σ₀ ω env.prime _ hs' x hx y
    rw [evalE_valExpr, hp, ← evalE_congr σ₀ ω p _ _ her] at htop
    exact htop hev
  · have heq : Stmt.sub a₁ v ty₁ op₁ (.phi a' args) = Stmt.sub a₀ v ty op rhe₀ := by
      rcases hsd _ _ hmem₁ hmem₀ v rfl rfl with h | ⟨hu, _⟩ | h
      · exact h
      · simp [isUpdS, quiet] at hu
      · exact absurd h hmu
    simp only [Stmt.sub.injEq] at heq
    obtain ⟨_, _, _, _, h5⟩ := heq
    subst h5
    simp only [erase] at her
    obtain ⟨a₃, hrhe⟩ := erase_phi_inv rhe args her.symm
    have ω : Expr → Option Val := fun _ => none
    have hs' := valExpr_sound σ₀ ω env hag₀ rhe (by rw [hp]; exact hsound₀.1 ω)
    have her' : erase (valExpr env rhe).1 = .phi {} args := by rw [erase_valExpr, hrhe]; simp only [erase]
    obtain ⟨a₄, h4⟩ := erase_phi_inv _ args her'
    rw [h4] at hs' hx
    unfold SoundE at hs'
    exact hs' x hx arg harg y hval

/-- a marked variable is never recorded -/
theorem add_marked (env : ValEnv) (v : VName) (x : Val) (h : env.nonConstant.contains v = true) : env.add v x = env := by
  unfold ValEnv.add; simp only [h, if_true]

theorem add_marked_mono (env : ValEnv) (v : VName) (x : Val) (w : VName) (h : env.nonConstant.contains w = true) :
    (env.add v x).nonConstant.contains w = true := by
  unfold ValEnv.add
  split
  · exact h
  · split
    · split
      · exact h
      · simp only [List.contains_cons, h, Bool.or_true]
    · exact h

theorem valStmt_marked (env : ValEnv) (s : Stmt) (w : VName) (h : env.nonConstant.contains w = true) :
    (valStmt env s).2.1.nonConstant.contains w = true := by
  cases s with
  | decl names ty dims => simp only [valStmt]; exact h
  | ite c => simp only [valStmt]; exact h
  | ret e => simp only [valStmt]; exact h
  | sub a v ty op rhe =>
    simp only [valStmt]
    split
    · split
      · exact add_marked_mono env v _ w h
      · exact h
    · exact h
  | ceq l r => simp only [valStmt]; exact h
  | log args => rw [valStmt_log]; exact h
  | assert e => simp only [valStmt]; exact h

/-- processing one statement keeps the invariant -/
theorem micro (Mu : VName → Prop) (p : Int) (P : List Stmt) (hsd : SingleDef Mu P) (env : ValEnv) (M : Stmt → Prop)
    (h : GInv Mu p P env M) (s : Stmt) (hs : M s) :
    GInv Mu p P (valStmt env s).2.1 (fun t => M t ∨ t = (valStmt env s).1) := by
  have hp := h.prime
  have hexpr : ∀ σ, Reach p P σ → ∀ ω e, SoundE σ ω p e → SoundE σ ω p (valExpr env e).1 := by
    intro σ hr ω e he
    have := valExpr_sound σ ω env (h.agree σ hr) e (by rw [hp]; exact he)
    rw [hp] at this; exact this
  refine ⟨by rw [valStmt_prime]; exact hp, fun v hv => valStmt_marked env s v (h.marked v hv), ?_, ?_, ?_⟩
  · intro t ht
    rcases ht with ht | ht
    · exact h.linked t ht
    · subst ht; rw [eraseS_valStmt]; exact h.linked s hs
  · -- agreement of the new environment
    intro σ hr
    cases s with
    | decl names ty dims => exact h.agree σ hr
    | ite c => exact h.agree σ hr
    | ret e => exact h.agree σ hr
    | ceq l r => exact h.agree σ hr
    | log args => exact h.agree σ hr
    | assert e => exact h.agree σ hr
    | sub a v ty op rhe =>
      simp only [valStmt]
      split
      · split
        · rename_i x hx
          by_cases hmu : Mu v
          · rw [add_marked env v x (h.marked v hmu)]; exact h.agree σ hr
          · exact agree_add σ env v x (h.agree σ hr) (sub_value Mu p P hsd env M h a v ty op rhe hs hmu x hx σ hr)
        · exact h.agree σ hr
      · exact h.agree σ hr
  · intro σ hr t ht
    rcases ht with ht | ht
    · exact h.sound σ hr t ht
    · subst ht
      have hold := h.sound σ hr s hs
      cases s with
      | decl names ty dims =>
        rw [valStmt_decl]
        unfold SoundS at hold ⊢
        intro e he ω
        exact dimFold_inv env (fun e => SoundE σ ω p e) (hexpr σ hr ω) dims ([], false)
          (by intro e he; simp at he) (fun e he => hold e he ω) e he
      | ite c => simp only [valStmt]; unfold SoundS at hold ⊢; exact fun ω => hexpr σ hr ω c (hold ω)
      | ret e => simp only [valStmt]; unfold SoundS at hold ⊢; exact fun ω => hexpr σ hr ω e (hold ω)
      | assert e => simp only [valStmt]; unfold SoundS at hold ⊢; exact fun ω => hexpr σ hr ω e (hold ω)
      | ceq l r =>
        simp only [valStmt]
        unfold SoundS at hold
        cases hc : (valExpr env l).2 with
        | true =>
          simp only [if_true]; unfold SoundS
          exact fun ω => ⟨hexpr σ hr ω l (hold ω).1, (hold ω).2⟩
        | false =>
          simp only [Bool.false_eq_true, if_false]; unfold SoundS
          exact fun ω => ⟨hexpr σ hr ω l (hold ω).1, hexpr σ hr ω r (hold ω).2⟩
      | log args =>
        rw [valStmt_log]
        unfold SoundS at hold ⊢
        intro e he ω
        exact logFold_inv env (fun e => SoundE σ ω p e) (hexpr σ hr ω) args ([], false)
          (by intro e he; simp at he) (fun e he => hold e he ω) e he
      | sub a v ty op rhe =>
        unfold SoundS at hold
        simp only [valStmt]
        split
        · split
          · rename_i x hx
            simp only
            unfold SoundS
            refine ⟨fun ω => hexpr σ hr ω rhe (hold.1 ω), ?_⟩
            intro hmu x' hx' y hy
            rcases orSetVal_some a (valExpr env rhe).2 x with h1 | h1
            · rw [h1] at hx'; exact hold.2 hmu x' hx' y hy
            · rw [h1] at hx'; cases hx'
              exact sub_value Mu p P hsd env M h a v ty op rhe hs hmu x hx σ hr y hy
          · unfold SoundS
            exact ⟨fun ω => hexpr σ hr ω rhe (hold.1 ω), hold.2⟩
        · unfold SoundS
          exact ⟨fun ω => hexpr σ hr ω rhe (hold.1 ω), hold.2⟩

-- ---------------------------------------------------------------------------- passes and the loop

def stmtsOf (bs : List Block) : List Stmt := bs.flatMap (·.stmts)

theorem stmtsOf_append (bs : List Block) (b : Block) : stmtsOf (bs ++ [b]) = stmtsOf bs ++ b.stmts := by
  simp [stmtsOf]

def passStep (n : Nat) (acc : List Stmt × ValEnv × Bool) (s : Stmt) : List Stmt × ValEnv × Bool :=
  let (done, env, c) := acc
  if c then (done ++ [s], env, true)
  else if phiShort n s then (done ++ [s], env, false)
  else let (s', env', c') := valStmt env s; (done ++ [s'], env', c')

def blockStep (acc : List Block × ValEnv × Bool) (b : Block) : List Block × ValEnv × Bool :=
  let (bs, env, c) := acc
  if c then (bs ++ [b], env, true)
  else
    let (ss, env', c') := b.stmts.foldl (passStep b.npreds) ([], env, false)
    (bs ++ [{ b with stmts := ss }], env', c')

theorem valPass_eq (env : ValEnv) (bs : List Block) : valPass env bs = bs.foldl blockStep ([], env, false) := rfl

theorem stmts_fold (Mu : VName → Prop) (p : Int) (P : List Stmt) (hsd : SingleDef Mu P) (n : Nat) :
    ∀ (rest done : List Stmt) (env : ValEnv) (c : Bool) (M : Stmt → Prop),
      GInv Mu p P env M → (∀ t, t ∈ done → M t) → (∀ t, t ∈ rest → M t) →
      ∃ M' : Stmt → Prop, (∀ t, M t → M' t) ∧ GInv Mu p P (rest.foldl (passStep n) (done, env, c)).2.1 M' ∧
        ∀ t, t ∈ (rest.foldl (passStep n) (done, env, c)).1 → M' t := by
  intro rest
  induction rest with
  | nil => intro done env c M h hd _; exact ⟨M, fun _ h => h, h, hd⟩
  | cons s r ih =>
    intro done env c M h hd hr
    simp only [List.foldl_cons]
    cases c with
    | true =>
      have : passStep n (done, env, true) s = (done ++ [s], env, true) := rfl
      rw [this]
      apply ih (done ++ [s]) env true M h
      · intro t ht
        rcases List.mem_append.mp ht with h1 | h1
        · exact hd t h1
        · simp only [List.mem_singleton] at h1; subst h1; exact hr _ List.mem_cons_self
      · exact fun t ht => hr t (List.mem_cons_of_mem _ ht)
    | false =>
      by_cases hps : phiShort n s = true
      · have : passStep n (done, env, false) s = (done ++ [s], env, false) := by
          simp only [passStep, hps, if_true, Bool.false_eq_true, if_false]
        rw [this]
        apply ih (done ++ [s]) env false M h
        · intro t ht
          rcases List.mem_append.mp ht with h1 | h1
          · exact hd t h1
          · simp only [List.mem_singleton] at h1; subst h1; exact hr _ List.mem_cons_self
        · exact fun t ht => hr t (List.mem_cons_of_mem _ ht)
      have : passStep n (done, env, false) s = (done ++ [(valStmt env s).1], (valStmt env s).2.1, (valStmt env s).2.2) := by
        simp only [passStep, hps, Bool.false_eq_true, if_false]
      rw [this]
      have hm := micro Mu p P hsd env M h s (hr _ List.mem_cons_self)
      obtain ⟨M', h1, h2, h3⟩ := ih (done ++ [(valStmt env s).1]) (valStmt env s).2.1 (valStmt env s).2.2
        (fun t => M t ∨ t = (valStmt env s).1) hm
        (by
          intro t ht
          rcases List.mem_append.mp ht with h1 | h1
          · exact Or.inl (hd t h1)
          · simp only [List.mem_singleton] at h1; exact Or.inr h1)
        (fun t ht => Or.inl (hr t (List.mem_cons_of_mem _ ht)))
      exact ⟨M', fun t ht => h1 t (Or.inl ht), h2, h3⟩

theorem blocks_fold (Mu : VName → Prop) (p : Int) (P : List Stmt) (hsd : SingleDef Mu P) :
    ∀ (rest done : List Block) (env : ValEnv) (c : Bool) (M : Stmt → Prop),
      GInv Mu p P env M → (∀ t, t ∈ stmtsOf done → M t) → (∀ t, t ∈ stmtsOf rest → M t) →
      ∃ M' : Stmt → Prop, (∀ t, M t → M' t) ∧ GInv Mu p P (rest.foldl blockStep (done, env, c)).2.1 M' ∧
        ∀ t, t ∈ stmtsOf (rest.foldl blockStep (done, env, c)).1 → M' t := by
  intro rest
  induction rest with
  | nil => intro done env c M h hd _; exact ⟨M, fun _ h => h, h, hd⟩
  | cons b r ih =>
    intro done env c M h hd hr
    have hb : ∀ t, t ∈ b.stmts → M t := by
      intro t ht; apply hr; simp only [stmtsOf, List.flatMap_cons, List.mem_append]; exact Or.inl ht
    have hr' : ∀ t, t ∈ stmtsOf r → M t := by
      intro t ht; apply hr; simp only [stmtsOf, List.flatMap_cons, List.mem_append]; exact Or.inr ht
    simp only [List.foldl_cons]
    cases c with
    | true =>
      have : blockStep (done, env, true) b = (done ++ [b], env, true) := rfl
      rw [this]
      apply ih (done ++ [b]) env true M h _ hr'
      intro t ht
      rw [stmtsOf_append] at ht
      rcases List.mem_append.mp ht with h1 | h1
      · exact hd t h1
      · exact hb t h1
    | false =>
      have : blockStep (done, env, false) b =
          (done ++ [{ b with stmts := (b.stmts.foldl (passStep b.npreds) ([], env, false)).1 }],
            (b.stmts.foldl (passStep b.npreds) ([], env, false)).2.1, (b.stmts.foldl (passStep b.npreds) ([], env, false)).2.2) := rfl
      rw [this]
      obtain ⟨M₁, g1, g2, g3⟩ := stmts_fold Mu p P hsd b.npreds b.stmts [] env false M h (by intro t ht; simp at ht) hb
      obtain ⟨M', h1, h2, h3⟩ := ih (done ++ [{ b with stmts := (b.stmts.foldl (passStep b.npreds) ([], env, false)).1 }])
        (b.stmts.foldl (passStep b.npreds) ([], env, false)).2.1 (b.stmts.foldl (passStep b.npreds) ([], env, false)).2.2 M₁ g2
        (by
          intro t ht
          rw [stmtsOf_append] at ht
          rcases List.mem_append.mp ht with h1 | h1
          · exact g1 t (hd t h1)
          · exact g3 t h1)
        (fun t ht => g1 t (hr' t ht))
      exact ⟨M', fun t ht => h1 t (g1 t ht), h2, h3⟩

theorem pass_inv (Mu : VName → Prop) (p : Int) (P : List Stmt) (hsd : SingleDef Mu P) (env : ValEnv) (bs : List Block) (M : Stmt → Prop)
    (h : GInv Mu p P env M) (hm : ∀ t, t ∈ stmtsOf bs → M t) :
    ∃ M' : Stmt → Prop, GInv Mu p P (valPass env bs).2.1 M' ∧ ∀ t, t ∈ stmtsOf (valPass env bs).1 → M' t := by
  rw [valPass_eq]
  obtain ⟨M', _, h2, h3⟩ := blocks_fold Mu p P hsd bs [] env false M h (by intro t ht; simp [stmtsOf] at ht) hm
  exact ⟨M', h2, h3⟩

theorem loop_inv (Mu : VName → Prop) (p : Int) (P : List Stmt) (hsd : SingleDef Mu P) :
    ∀ (fuel : Nat) (env : ValEnv) (bs : List Block) (M : Stmt → Prop),
      GInv Mu p P env M → (∀ t, t ∈ stmtsOf bs → M t) →
      ∃ (env' : ValEnv) (M' : Stmt → Prop), GInv Mu p P env' M' ∧ ∀ t, t ∈ stmtsOf (valLoop fuel env bs).1 → M' t := by
  intro fuel
  induction fuel with
  | zero => intro env bs M h hm; exact ⟨env, M, h, hm⟩
  | succ k ih =>
    intro env bs M h hm
    obtain ⟨M₁, g1, g2⟩ := pass_inv Mu p P hsd env bs M h hm
    unfold valLoop
    simp only
    split
    · exact ih _ _ M₁ g1 g2
    · exact ⟨_, M₁, g1, g2⟩

/-- the variables the pre-pass marks -/
def MuOf (bs : List Block) : VName → Prop := fun v => v ∈ multiOf (stmtsOf bs)

/-- **Path-level soundness of value propagation, for every budget of passes.** -/
theorem value_path_sound (p : Int) (bs : List Block) (hsd : SingleDef (MuOf bs) (stmtsOf bs))
    (h0 : ∀ σ, Reach p (stmtsOf bs) σ → ∀ s, s ∈ stmtsOf bs → SoundS (MuOf bs) σ p s) (k : Nat) :
    ∀ σ, Reach p (stmtsOf bs) σ → ∀ s, s ∈ stmtsOf (valLoop k (valInit p bs) bs).1 → SoundS (MuOf bs) σ p s := by
  have hinit : GInv (MuOf bs) p (stmtsOf bs) (valInit p bs) (fun t => t ∈ stmtsOf bs) :=
    ⟨rfl, fun v hv => by
        have : v ∈ multiOf (bs.flatMap (·.stmts)) := hv
        simpa [valInit] using Or.inl this,
     fun s hs => List.mem_map.mpr ⟨s, hs, rfl⟩,
     fun σ _ v x hx => by simp [ValEnv.get, valInit] at hx, h0⟩
  obtain ⟨env', M', g1, g2⟩ := loop_inv (MuOf bs) p (stmtsOf bs) hsd k (valInit p bs) bs _ hinit (fun _ h => h)
  exact fun σ hr s hs => g1.sound σ hr s (g2 s hs)

/-- decidable sufficient condition for `SingleDef`, evaluated on every real SSA dump: the assigned
    variables are pairwise different, or both assignments are quiet, or the variable is marked -/
def defKey : Stmt → Option (VName × Bool)
  | .sub _ v _ _ rhe => some (v, quiet rhe)
  | _ => none

def defsOk (mu : List VName) (a b : VName × Bool) : Prop := a.1 ≠ b.1 ∨ (a.2 = true ∧ b.2 = true) ∨ a.1 ∈ mu
instance (mu : List VName) (a b : VName × Bool) : Decidable (defsOk mu a b) := by unfold defsOk; exact inferInstance

def singleDefB (P : List Stmt) : Bool := decide ((P.filterMap defKey).Pairwise (defsOk (multiOf P)))

theorem defKey_spec (s : Stmt) (v : VName) (h : defVar s = some v) : defKey s = some (v, isUpdS s) := by
  cases s <;> simp [defVar] at h
  subst h; rfl

theorem singleDef_of_pairwise (mu : List VName) : ∀ (P : List Stmt), (P.filterMap defKey).Pairwise (defsOk mu) → SingleDef (· ∈ mu) P := by
  intro P
  induction P with
  | nil => intro _ s₁ s₂ h₁; cases h₁
  | cons s r ih =>
    intro hpw s₁ s₂ h₁ h₂ v d₁ d₂
    have hr : (r.filterMap defKey).Pairwise (defsOk mu) := by
      cases hd : defKey s with
      | none => simpa [List.filterMap_cons, hd] using hpw
      | some w => rw [List.filterMap_cons, hd] at hpw; exact (List.pairwise_cons.mp hpw).2
    have clash : ∀ t, t ∈ r → defVar s = some v → defVar t = some v → (isUpdS s = true ∧ isUpdS t = true) ∨ v ∈ mu := by
      intro t ht hs htv
      rw [List.filterMap_cons, defKey_spec s v hs] at hpw
      have := (List.pairwise_cons.mp hpw).1 (v, isUpdS t) (List.mem_filterMap.mpr ⟨t, ht, defKey_spec t v htv⟩)
      rcases this with h | h | h
      · exact absurd rfl h
      · exact Or.inl h
      · exact Or.inr h
    rcases List.mem_cons.mp h₁ with e₁ | m₁ <;> rcases List.mem_cons.mp h₂ with e₂ | m₂
    · left; rw [e₁, e₂]
    · subst e₁; exact Or.inr (clash s₂ m₂ d₁ d₂)
    · subst e₂
      rcases clash s₁ m₁ d₂ d₁ with h | h
      · exact Or.inr (Or.inl h.symm)
      · exact Or.inr (Or.inr h)
    · exact ih hr s₁ s₂ m₁ m₂ v d₁ d₂

theorem singleDefB_sound (bs : List Block) (h : singleDefB (stmtsOf bs) = true) : SingleDef (MuOf bs) (stmtsOf bs) :=
  singleDef_of_pairwise (multiOf (stmtsOf bs)) (stmtsOf bs) (by simpa [singleDefB] using h)

-- ---------------------------------------------------------------------------- what the pre-pass guarantees

/-- the statements the pre-pass counts: substitutions to an unversioned variable that are not element-wise updates -/
def nonUpdKey : Stmt → Option VName
  | .sub _ v _ _ rhe => if v.version.isNone && !isUpd rhe then some v else none
  | _ => none

theorem multiStep_key (acc : List VName × List VName) (s : Stmt) :
    multiStep acc s = match nonUpdKey s with
      | some v => if acc.1.contains v then (acc.1, v :: acc.2) else (v :: acc.1, acc.2)
      | none => acc := by
  cases s with
  | sub a v ty op rhe =>
    simp only [multiStep, nonUpdKey]
    split <;> rfl
  | decl _ _ _ => rfl
  | ite _ => rfl
  | ret _ => rfl
  | ceq _ _ => rfl
  | log _ => rfl
  | assert _ => rfl

theorem multiFold_mono : ∀ (P : List Stmt) (acc : List VName × List VName),
    (∀ w, w ∈ acc.1 → w ∈ (P.foldl multiStep acc).1) ∧ (∀ w, w ∈ acc.2 → w ∈ (P.foldl multiStep acc).2) := by
  intro P
  induction P with
  | nil => intro acc; exact ⟨fun _ h => h, fun _ h => h⟩
  | cons s r ih =>
    intro acc
    simp only [List.foldl_cons]
    obtain ⟨i1, i2⟩ := ih (multiStep acc s)
    rw [multiStep_key] at i1 i2 ⊢
    cases hk : nonUpdKey s with
    | none => simp only [hk] at i1 i2 ⊢; exact ⟨i1, i2⟩
    | some v =>
      simp only [hk] at i1 i2 ⊢
      by_cases hc : acc.1.contains v = true
      · simp only [hc, if_true] at i1 i2 ⊢
        exact ⟨i1, fun w hw => i2 w (List.mem_cons_of_mem _ hw)⟩
      · simp only [hc, Bool.false_eq_true, if_false] at i1 i2 ⊢
        exact ⟨fun w hw => i1 w (List.mem_cons_of_mem _ hw), i2⟩

/-- a variable already seen that is assigned again gets marked -/
theorem multiFold_seen : ∀ (P : List Stmt) (acc : List VName × List VName) (w : VName), w ∈ acc.1 →
    ∀ s, s ∈ P → nonUpdKey s = some w → w ∈ (P.foldl multiStep acc).2 := by
  intro P
  induction P with
  | nil => intro acc w _ s hs; cases hs
  | cons t r ih =>
    intro acc w hw s hs hk
    simp only [List.foldl_cons]
    rcases List.mem_cons.mp hs with e | m
    · subst e
      apply (multiFold_mono r _).2
      rw [multiStep_key, hk]
      have : acc.1.contains w = true := by simpa using hw
      simp only [this, if_true]
      exact List.mem_cons_self
    · apply ih _ w _ s m hk
      exact (multiFold_mono [t] acc).1 w hw

/-- two counted substitutions to the same variable, at different places of the program: the variable is marked -/
theorem multiFold_two : ∀ (l₁ : List Stmt) (s₁ : Stmt) (l₂ : List Stmt) (acc : List VName × List VName) (w : VName),
    nonUpdKey s₁ = some w → ∀ s₂, s₂ ∈ l₂ → nonUpdKey s₂ = some w → w ∈ ((l₁ ++ s₁ :: l₂).foldl multiStep acc).2 := by
  intro l₁
  induction l₁ with
  | nil =>
    intro s₁ l₂ acc w h₁ s₂ m₂ h₂
    simp only [List.nil_append, List.foldl_cons]
    apply multiFold_seen l₂ _ w _ s₂ m₂ h₂
    rw [multiStep_key, h₁]
    by_cases hc : acc.1.contains w = true
    · simp only [hc, if_true]; simpa using hc
    · simp only [hc, Bool.false_eq_true, if_false]; exact List.mem_cons_self
  | cons t r ih =>
    intro s₁ l₂ acc w h₁ s₂ m₂ h₂
    simp only [List.cons_append, List.foldl_cons]
    exact ih s₁ l₂ _ w h₁ s₂ m₂ h₂

theorem two_mem_split {α : Type} : ∀ (l : List α) (a b : α), a ∈ l → b ∈ l → a ≠ b →
    ∃ l₁ l₂, (l = l₁ ++ a :: l₂ ∧ b ∈ l₂) ∨ (l = l₁ ++ b :: l₂ ∧ a ∈ l₂) := by
  intro l
  induction l with
  | nil => intro a b ha; cases ha
  | cons x r ih =>
    intro a b ha hb hne
    rcases List.mem_cons.mp ha with ea | ma <;> rcases List.mem_cons.mp hb with eb | mb
    · exact absurd (ea.trans eb.symm) hne
    · subst ea; exact ⟨[], r, Or.inl ⟨rfl, mb⟩⟩
    · subst eb; exact ⟨[], r, Or.inr ⟨rfl, ma⟩⟩
    · obtain ⟨l₁, l₂, h⟩ := ih a b ma mb hne
      rcases h with ⟨h1, h2⟩ | ⟨h1, h2⟩
      · exact ⟨x :: l₁, l₂, Or.inl ⟨by rw [h1]; rfl, h2⟩⟩
      · exact ⟨x :: l₁, l₂, Or.inr ⟨by rw [h1]; rfl, h2⟩⟩

/-- **for unversioned variables the hypothesis holds by construction**: two different substitutions to the same
    signal or component, neither an element-wise update, make the pre-pass mark it -/
theorem singleDef_unversioned (P : List Stmt) (s₁ s₂ : Stmt) (h₁ : s₁ ∈ P) (h₂ : s₂ ∈ P) (v : VName)
    (k₁ : nonUpdKey s₁ = some v) (k₂ : nonUpdKey s₂ = some v) : s₁ = s₂ ∨ v ∈ multiOf P := by
  by_cases hne : s₁ = s₂
  · exact Or.inl hne
  · right
    obtain ⟨l₁, l₂, h⟩ := two_mem_split P s₁ s₂ h₁ h₂ hne
    unfold multiOf
    rcases h with ⟨e, m⟩ | ⟨e, m⟩
    · rw [e]; exact multiFold_two l₁ s₁ l₂ _ v k₁ s₂ m k₂
    · rw [e]; exact multiFold_two l₁ s₂ l₂ _ v k₂ s₁ m k₁

-- ---------------------------------------------------------------------------- the start: no claims

mutual
/-- no node of the expression carries a value claim (the CFG before the first pass) -/
def NoValE : Expr → Prop
  | .infix a _ l r => a.val = none ∧ NoValE l ∧ NoValE r
  | .prefix a _ e => a.val = none ∧ NoValE e
  | .switch a c t f => a.val = none ∧ NoValE c ∧ NoValE t ∧ NoValE f
  | .var a _ => a.val = none
  | .num a _ => a.val = none
  | .call a _ args => a.val = none ∧ NoValEs args
  | .arr a vals => a.val = none ∧ NoValEs vals
  | .acc a _ access => a.val = none ∧ NoValAs access
  | .upd a _ access rhe => a.val = none ∧ NoValAs access ∧ NoValE rhe
  | .phi a _ => a.val = none
def NoValEs : Exprs → Prop
  | .nil => True
  | .cons e r => NoValE e ∧ NoValEs r
def NoValAs : Accs → Prop
  | .nil => True
  | .cons (.idx e) r => NoValE e ∧ NoValAs r
  | .cons (.cmp _) r => NoValAs r
end

theorem claimOk_none (ρ : VName → Option Val) (ω : Expr → Option Val) (p : Int) (e : Expr) (h : e.ann.val = none) :
    claimOk ρ ω p e := by
  intro x hx; rw [h] at hx; cases hx

mutual
theorem noVal_sound (ρ : VName → Option Val) (ω : Expr → Option Val) (p : Int) : ∀ e, NoValE e → SoundE ρ ω p e
  | .infix a op l r, h => by
    unfold NoValE at h; unfold SoundE
    exact ⟨claimOk_none ρ ω p _ h.1, noVal_sound ρ ω p l h.2.1, noVal_sound ρ ω p r h.2.2⟩
  | .prefix a op e, h => by
    unfold NoValE at h; unfold SoundE
    exact ⟨claimOk_none ρ ω p _ h.1, noVal_sound ρ ω p e h.2⟩
  | .switch a c t f, h => by
    unfold NoValE at h; unfold SoundE
    exact ⟨claimOk_none ρ ω p _ h.1, noVal_sound ρ ω p c h.2.1, noVal_sound ρ ω p t h.2.2.1, noVal_sound ρ ω p f h.2.2.2⟩
  | .var a v, h => by unfold NoValE at h; unfold SoundE; exact claimOk_none ρ ω p _ h
  | .num a n, h => by unfold NoValE at h; unfold SoundE; exact claimOk_none ρ ω p _ h
  | .call a n args, h => by unfold NoValE at h; unfold SoundE; exact ⟨h.1, noVals_sound ρ ω p args h.2⟩
  | .arr a vals, h => by unfold NoValE at h; unfold SoundE; exact ⟨h.1, noVals_sound ρ ω p vals h.2⟩
  | .acc a v access, h => by unfold NoValE at h; unfold SoundE; exact ⟨h.1, noValAs_sound ρ ω p access h.2⟩
  | .upd a v access rhe, h => by
    unfold NoValE at h; unfold SoundE
    exact ⟨h.1, noValAs_sound ρ ω p access h.2.1, noVal_sound ρ ω p rhe h.2.2⟩
  | .phi a args, h => by
    unfold NoValE at h; unfold SoundE
    intro x hx; rw [h] at hx; cases hx
theorem noVals_sound (ρ : VName → Option Val) (ω : Expr → Option Val) (p : Int) : ∀ es, NoValEs es → SoundEs ρ ω p es
  | .nil, _ => by unfold SoundEs; trivial
  | .cons e r, h => by
    unfold NoValEs at h; unfold SoundEs
    exact ⟨noVal_sound ρ ω p e h.1, noVals_sound ρ ω p r h.2⟩
theorem noValAs_sound (ρ : VName → Option Val) (ω : Expr → Option Val) (p : Int) : ∀ acc, NoValAs acc → SoundAs ρ ω p acc
  | .nil, _ => by unfold SoundAs; trivial
  | .cons (.idx e) r, h => by
    unfold NoValAs at h; unfold SoundAs
    exact ⟨noVal_sound ρ ω p e h.1, noValAs_sound ρ ω p r h.2⟩
  | .cons (.cmp n) r, h => by
    unfold NoValAs at h; unfold SoundAs
    exact noValAs_sound ρ ω p r h
end

/-- no node of the statement carries a value claim -/
def NoValS : Stmt → Prop
  | .decl _ _ dims => ∀ e, e ∈ dims → NoValE e
  | .ite c => NoValE c
  | .ret e => NoValE e
  | .sub a _ _ _ rhe => a.val = none ∧ NoValE rhe
  | .ceq l r => NoValE l ∧ NoValE r
  | .log args => ∀ e, LogArg.expr e ∈ args → NoValE e
  | .assert e => NoValE e

theorem noValS_sound (Mu : VName → Prop) (σ : State) (p : Int) (s : Stmt) (h : NoValS s) : SoundS Mu σ p s := by
  cases s with
  | decl names ty dims => unfold NoValS at h; unfold SoundS; exact fun e he ω => noVal_sound σ ω p e (h e he)
  | ite c => unfold NoValS at h; unfold SoundS; exact fun ω => noVal_sound σ ω p c h
  | ret e => unfold NoValS at h; unfold SoundS; exact fun ω => noVal_sound σ ω p e h
  | assert e => unfold NoValS at h; unfold SoundS; exact fun ω => noVal_sound σ ω p e h
  | ceq l r => unfold NoValS at h; unfold SoundS; exact fun ω => ⟨noVal_sound σ ω p l h.1, noVal_sound σ ω p r h.2⟩
  | log args => unfold NoValS at h; unfold SoundS; exact fun e he ω => noVal_sound σ ω p e (h e he)
  | sub a v ty op rhe =>
    unfold NoValS at h; unfold SoundS
    refine ⟨fun ω => noVal_sound σ ω p rhe h.2, ?_⟩
    intro _ x hx; rw [h.1] at hx; cases hx

end Circomspect.Propagate
