/-
Lemmas about the desugaring model (Model/Desugar.lean): the specification predicates (is there a
tuple / anonymous component anywhere below a node), completeness of the ContainsExpression
traversal with respect to them, and what the two removal passes return.
-/
import Circomspect.Model.Desugar
namespace Circomspect.Desugar

/-! spec: is there a node of kind `k` (true: tuple, false: anonymous component) anywhere below -/
mutual
def hasE (k : Bool) : Expr → Bool
  | .infix _ _ l r => hasE k l || hasE k r
  | .prefix _ _ e => hasE k e
  | .switch _ c t f => hasE k c || hasE k t || hasE k f
  | .var _ _ acc => hasAs k acc
  | .num _ _ => false
  | .call _ _ args => hasEs k args
  | .anon _ _ _ ps ss _ _ => !k || hasEs k ps || hasEs k ss
  | .arr _ vs => hasEs k vs
  | .tuple _ vs => k || hasEs k vs
  | .par _ e => hasE k e
def hasEs (k : Bool) : Exprs → Bool
  | .nil => false
  | .cons e r => hasE k e || hasEs k r
def hasA (k : Bool) : Acc → Bool
  | .idx e => hasE k e
  | .cmp _ => false
def hasAs (k : Bool) : Accs → Bool
  | .nil => false
  | .cons a r => hasA k a || hasAs k r
end

theorem app_nil {α : Type} (a b : List α) : a ++ b = [] ↔ a = [] ∧ b = [] := List.append_eq_nil_iff

mutual
theorem collectE_iff (k : Bool) : ∀ e : Expr, collectE k e = [] ↔ hasE k e = false
  | .infix _ _ l r => by
    simp only [collectE, hasE, app_nil, Bool.or_eq_false_iff, collectE_iff k l, collectE_iff k r]
  | .prefix _ _ e => by simp only [collectE, hasE, collectE_iff k e]
  | .switch _ c t f => by
    simp only [collectE, hasE, app_nil, Bool.or_eq_false_iff, collectE_iff k c, collectE_iff k t, collectE_iff k f, and_assoc]
  | .var _ _ acc => by simp only [collectE, hasE, collectAs_iff k acc]
  | .num _ _ => by simp [collectE, hasE]
  | .call _ _ args => by simp only [collectE, hasE, collectEs_iff k args]
  | .anon m _ _ ps ss _ _ => by
    cases k with
    | true => simp [collectE, hasE, collectEs_iff true ps, collectEs_iff true ss]
    | false => simp [collectE, hasE]
  | .arr _ vs => by simp only [collectE, hasE, collectEs_iff k vs]
  | .tuple m vs => by
    cases k with
    | true => simp [collectE, hasE]
    | false => simp [collectE, hasE, collectEs_iff false vs]
  | .par _ e => by simp only [collectE, hasE, collectE_iff k e]
theorem collectEs_iff (k : Bool) : ∀ es : Exprs, collectEs k es = [] ↔ hasEs k es = false
  | .nil => by simp [collectEs, hasEs]
  | .cons e r => by simp only [collectEs, hasEs, app_nil, Bool.or_eq_false_iff, collectE_iff k e, collectEs_iff k r]
theorem collectA_iff (k : Bool) : ∀ a : Acc, collectA k a = [] ↔ hasA k a = false
  | .idx e => by simp only [collectA, hasA, collectE_iff k e]
  | .cmp _ => by simp [collectA, hasA]
theorem collectAs_iff (k : Bool) : ∀ a : Accs, collectAs k a = [] ↔ hasAs k a = false
  | .nil => by simp [collectAs, hasAs]
  | .cons a r => by simp only [collectAs, hasAs, app_nil, Bool.or_eq_false_iff, collectA_iff k a, collectAs_iff k r]
end

theorem containsE_iff (k : Bool) (e : Expr) : containsE k e = false ↔ hasE k e = false := by
  unfold containsE
  rw [← collectE_iff]
  cases collectE k e <;> simp

theorem containsEs_iff (k : Bool) (e : Exprs) : containsEs k e = false ↔ hasEs k e = false := by
  unfold containsEs
  rw [← collectEs_iff]
  cases collectEs k e <;> simp

theorem containsAs_iff (k : Bool) (e : Accs) : containsAs k e = false ↔ hasAs k e = false := by
  unfold containsAs
  rw [← collectAs_iff]
  cases collectAs k e <;> simp


def hasLog (k : Bool) : List LogArg → Bool
  | [] => false
  | .str _ :: r => hasLog k r
  | .exp e :: r => hasE k e || hasLog k r

mutual
def hasS (k : Bool) : Stmt → Bool
  | .ite _ c t e => hasE k c || hasS k t || hasO k e
  | .while_ _ _ c b => hasE k c || hasS k b
  | .ret _ e => hasE k e
  | .init _ _ is => hasSs k is
  | .decl _ _ _ dims => hasEs k dims
  | .sub _ _ acc _ r => hasAs k acc || hasE k r
  | .msub _ l _ r => hasE k l || hasE k r
  | .ceq _ l r => hasE k l || hasE k r
  | .log _ args => hasLog k args
  | .block _ ss => hasSs k ss
  | .assert _ e => hasE k e
def hasSs (k : Bool) : Stmts → Bool
  | .nil => false
  | .cons s r => hasS k s || hasSs k r
def hasO (k : Bool) : OptStmt → Bool
  | .none => false
  | .some s => hasS k s
end

mutual
def msubS : Stmt → Bool
  | .msub _ _ _ _ => true
  | .ite _ _ t e => msubS t || msubO e
  | .while_ _ _ _ b => msubS b
  | .init _ _ is => msubSs is
  | .block _ ss => msubSs ss
  | _ => false
def msubSs : Stmts → Bool
  | .nil => false
  | .cons s r => msubS s || msubSs r
def msubO : OptStmt → Bool
  | .none => false
  | .some s => msubS s
end

/-- no tuple, no anonymous component, no multi-substitution anywhere -/
def sugarS (s : Stmt) : Bool := hasS true s || hasS false s || msubS s

theorem collectLog_iff (k : Bool) : ∀ l : List LogArg, collectLog k l = [] ↔ hasLog k l = false
  | [] => by simp [collectLog, hasLog]
  | .str _ :: r => by simp only [collectLog, hasLog, collectLog_iff k r]
  | .exp e :: r => by
    simp only [collectLog, hasLog, app_nil, Bool.or_eq_false_iff, collectE_iff k e, collectLog_iff k r]

mutual
theorem collectS_iff (k : Bool) : ∀ s : Stmt, collectS k s = [] ↔ hasS k s = false
  | .ite _ c t e => by
    simp only [collectS, hasS, app_nil, Bool.or_eq_false_iff, collectE_iff k c, collectS_iff k t, collectO_iff k e, and_assoc]
  | .while_ _ _ c b => by
    simp only [collectS, hasS, app_nil, Bool.or_eq_false_iff, collectE_iff k c, collectS_iff k b]
  | .ret _ e => by simp only [collectS, hasS, collectE_iff k e]
  | .init _ _ is => by simp only [collectS, hasS, collectSs_iff k is]
  | .decl _ _ _ dims => by simp only [collectS, hasS, collectEs_iff k dims]
  | .sub _ _ acc _ r => by
    simp only [collectS, hasS, app_nil, Bool.or_eq_false_iff, collectAs_iff k acc, collectE_iff k r]
  | .msub _ l _ r => by
    simp only [collectS, hasS, app_nil, Bool.or_eq_false_iff, collectE_iff k l, collectE_iff k r]
  | .ceq _ l r => by
    simp only [collectS, hasS, app_nil, Bool.or_eq_false_iff, collectE_iff k l, collectE_iff k r]
  | .log _ args => by simp only [collectS, hasS, collectLog_iff k args]
  | .block _ ss => by simp only [collectS, hasS, collectSs_iff k ss]
  | .assert _ e => by simp only [collectS, hasS, collectE_iff k e]
theorem collectSs_iff (k : Bool) : ∀ s : Stmts, collectSs k s = [] ↔ hasSs k s = false
  | .nil => by simp [collectSs, hasSs]
  | .cons s r => by
    simp only [collectSs, hasSs, app_nil, Bool.or_eq_false_iff, collectS_iff k s, collectSs_iff k r]
theorem collectO_iff (k : Bool) : ∀ s : OptStmt, collectO k s = [] ↔ hasO k s = false
  | .none => by simp [collectO, hasO]
  | .some s => by simp only [collectO, hasO, collectS_iff k s]
end

mutual
theorem invalidS_iff : ∀ s : Stmt, invalidS s = [] ↔ msubS s = false
  | .msub _ _ _ _ => by simp [invalidS, msubS]
  | .ite _ _ t e => by
    simp only [invalidS, msubS, app_nil, Bool.or_eq_false_iff, invalidS_iff t, invalidO_iff e]
  | .while_ _ _ _ b => by simp only [invalidS, msubS, invalidS_iff b]
  | .init _ _ is => by simp only [invalidS, msubS, invalidSs_iff is]
  | .block _ ss => by simp only [invalidS, msubS, invalidSs_iff ss]
  | .ret _ _ => by simp [invalidS, msubS]
  | .decl _ _ _ _ => by simp [invalidS, msubS]
  | .sub _ _ _ _ _ => by simp [invalidS, msubS]
  | .ceq _ _ _ => by simp [invalidS, msubS]
  | .log _ _ => by simp [invalidS, msubS]
  | .assert _ _ => by simp [invalidS, msubS]
theorem invalidSs_iff : ∀ s : Stmts, invalidSs s = [] ↔ msubSs s = false
  | .nil => by simp [invalidSs, msubSs]
  | .cons s r => by
    simp only [invalidSs, msubSs, app_nil, Bool.or_eq_false_iff, invalidS_iff s, invalidSs_iff r]
theorem invalidO_iff : ∀ s : OptStmt, invalidO s = [] ↔ msubO s = false
  | .none => by simp [invalidO, msubO]
  | .some s => by simp only [invalidO, msubO, invalidS_iff s]
end

theorem functionReports_iff (body : Stmt) : functionReports body = [] ↔ sugarS body = false := by
  unfold functionReports sugarS
  rw [Bool.or_eq_false_iff, Bool.or_eq_false_iff, ← collectS_iff, ← collectS_iff, ← invalidS_iff]
  cases h1 : collectS true body with
  | cons a t => simp
  | nil =>
    cases h2 : collectS false body with
    | cons a t => simp
    | nil => simp


theorem hasEs_toList (k : Bool) : ∀ es : Exprs, hasEs k es = false ↔ ∀ e, e ∈ es.toList → hasE k e = false
  | .nil => by simp [hasEs, Exprs.toList]
  | .cons e r => by
    simp only [hasEs, Exprs.toList, Bool.or_eq_false_iff, hasEs_toList k r, List.mem_cons]
    constructor
    · intro ⟨h1, h2⟩ x hx
      rcases hx with hx | hx
      · rw [hx]; exact h1
      · exact h2 x hx
    · intro h
      exact ⟨h e (Or.inl rfl), fun x hx => h x (Or.inr hx)⟩

theorem toList_ofList (l : List Expr) : (Exprs.ofList l).toList = l := by
  induction l with
  | nil => rfl
  | cons a t ih => simp [Exprs.ofList, Exprs.toList, ih]

theorem hasEs_ofList (k : Bool) (l : List Expr) :
    hasEs k (Exprs.ofList l) = false ↔ ∀ e, e ∈ l → hasE k e = false := by
  rw [hasEs_toList, toList_ofList]

theorem anyContains_iff (k : Bool) : ∀ es : Exprs, anyContains k es = false ↔ hasEs k es = false
  | .nil => by simp [anyContains, hasEs]
  | .cons e r => by
    simp only [anyContains, hasEs, Bool.or_eq_false_iff, containsE_iff, anyContains_iff k r]

/-- what `remove_tuple_from_expression` returns: a tuple-free expression, or one flat tuple of
    tuple-free expressions -/
def FlatOk (e : Expr) : Prop :=
  hasE true e = false ∨ ∃ m vs, e = .tuple m vs ∧ hasEs true vs = false

mutual
theorem rmTupE_spec : ∀ (e e' : Expr), rmTupE e = .ok e' → hasE false e = false →
    FlatOk e' ∧ hasE false e' = false
  | .arr m vs, e', h, ha => by
    unfold rmTupE at h
    split at h
    · cases h
    · rename_i hc
      cases h
      refine ⟨Or.inl ?_, ha⟩
      simp only [hasE]
      exact (anyContains_iff true vs).mp (by simpa using hc)
  | .num m n, e', h, ha => by
    unfold rmTupE at h; cases h
    exact ⟨Or.inl (by simp [hasE]), ha⟩
  | .var m n acc, e', h, ha => by
    unfold rmTupE at h
    split at h
    · cases h
    · rename_i hc
      cases h
      refine ⟨Or.inl ?_, ha⟩
      simp only [hasE]
      exact (containsAs_iff true acc).mp (by simpa using hc)
  | .infix m op l r, e', h, ha => by
    unfold rmTupE at h
    split at h
    · cases h
    · rename_i hc
      cases h
      refine ⟨Or.inl ?_, ha⟩
      simp only [Bool.or_eq_true, not_or, Bool.not_eq_true] at hc
      simp only [hasE, Bool.or_eq_false_iff]
      exact ⟨(containsE_iff true l).mp hc.1, (containsE_iff true r).mp hc.2⟩
  | .prefix m op e, e', h, ha => by
    unfold rmTupE at h
    split at h
    · cases h
    · rename_i hc
      cases h
      refine ⟨Or.inl ?_, ha⟩
      simp only [hasE]
      exact (containsE_iff true e).mp (by simpa using hc)
  | .switch m c t f, e', h, ha => by
    unfold rmTupE at h
    split at h
    · cases h
    · rename_i hc
      cases h
      refine ⟨Or.inl ?_, ha⟩
      simp only [Bool.or_eq_true, not_or, Bool.not_eq_true] at hc
      simp only [hasE, Bool.or_eq_false_iff]
      exact ⟨⟨(containsE_iff true c).mp hc.1.1, (containsE_iff true t).mp hc.1.2⟩, (containsE_iff true f).mp hc.2⟩
  | .call m i args, e', h, ha => by
    unfold rmTupE at h
    split at h
    · cases h
    · rename_i hc
      cases h
      refine ⟨Or.inl ?_, ha⟩
      simp only [hasE]
      exact (anyContains_iff true args).mp (by simpa using hc)
  | .anon m _ _ _ _ _ _, e', h, ha => by
    unfold rmTupE at h; cases h
  | .tuple m vs, e', h, ha => by
    unfold rmTupE at h
    split at h
    · cases h
    · rename_i vals hv
      cases h
      have ha' : hasEs false vs = false := by simpa [hasE] using ha
      have := rmTupEs_spec vs vals hv ha'
      refine ⟨Or.inr ⟨m, _, rfl, ?_⟩, ?_⟩
      · exact (hasEs_ofList true vals).mpr (fun e he => (this e he).1)
      · simp only [hasE, Bool.false_or]
        exact (hasEs_ofList false vals).mpr (fun e he => (this e he).2)
  | .par m e, e', h, ha => by
    unfold rmTupE at h
    split at h
    · cases h
    · rename_i hc
      cases h
      refine ⟨Or.inl ?_, ha⟩
      simp only [hasE]
      exact (containsE_iff true e).mp (by simpa using hc)
theorem rmTupEs_spec : ∀ (es : Exprs) (vals : List Expr), rmTupEs es = .ok vals → hasEs false es = false →
    ∀ v, v ∈ vals → hasE true v = false ∧ hasE false v = false
  | .nil, vals, h, _ => by
    unfold rmTupEs at h; cases h
    intro v hv; cases hv
  | .cons e r, vals, h, ha => by
    unfold rmTupEs at h
    simp only [hasEs, Bool.or_eq_false_iff] at ha
    split at h
    · cases h
    · rename_i e' he
      split at h
      · cases h
      · rename_i rest hr
        have h1 := rmTupE_spec e e' he ha.1
        have h2 := rmTupEs_spec r rest hr ha.2
        split at h
        · rename_i tm inner
          cases h
          intro v hv
          rcases List.mem_append.mp hv with hv | hv
          · rcases h1.1 with hf | ⟨m', vs', heq, hvs⟩
            · simp [hasE] at hf
            · cases heq
              have hanon : hasEs false inner = false := by simpa [hasE] using h1.2
              exact ⟨(hasEs_toList true inner).mp hvs v hv, (hasEs_toList false inner).mp hanon v hv⟩
          · exact h2 v hv
        · rename_i hnt
          cases h
          intro v hv
          rcases List.mem_cons.mp hv with hv | hv
          · subst hv
            rcases h1.1 with hf | ⟨m', vs', heq, _⟩
            · exact ⟨hf, h1.2⟩
            · exact absurd heq (hnt m' vs')
          · exact h2 v hv
end


theorem firstIdxWith_none (k : Bool) : ∀ acc : Accs, firstIdxWith k acc = none → hasAs k acc = false
  | .nil, _ => by simp [hasAs]
  | .cons (.idx e) r, h => by
    unfold firstIdxWith at h
    split at h
    · cases h
    · rename_i hc
      simp only [hasAs, hasA, Bool.or_eq_false_iff]
      exact ⟨(containsE_iff k e).mp (by simpa using hc), firstIdxWith_none k r h⟩
  | .cons (.cmp _) r, h => by
    unfold firstIdxWith at h
    simp only [hasAs, hasA, Bool.false_or]
    exact firstIdxWith_none k r h

theorem hasLog_append (k : Bool) : ∀ a b : List LogArg, hasLog k (a ++ b) = (hasLog k a || hasLog k b)
  | [], b => by simp [hasLog]
  | .str _ :: r, b => by simp only [List.cons_append, hasLog, hasLog_append k r b]
  | .exp e :: r, b => by simp only [List.cons_append, hasLog, hasLog_append k r b, Bool.or_assoc]

mutual
theorem sepLogE_anon : ∀ e : Expr, hasE false e = false → hasLog false (sepLogE e) = false
  | .tuple _ vs, h => by
    unfold sepLogE
    have : hasEs false vs = false := by simpa [hasE] using h
    simp only [hasLog_append, hasLog, Bool.or_false, Bool.false_or]
    exact sepLogEs_anon vs this
  | .infix _ _ _ _, h => by unfold sepLogE; simpa [hasLog] using h
  | .prefix _ _ _, h => by unfold sepLogE; simpa [hasLog] using h
  | .switch _ _ _ _, h => by unfold sepLogE; simpa [hasLog] using h
  | .var _ _ _, h => by unfold sepLogE; simpa [hasLog] using h
  | .num _ _, h => by unfold sepLogE; simp [hasLog, hasE]
  | .call _ _ _, h => by unfold sepLogE; simpa [hasLog] using h
  | .anon _ _ _ _ _ _ _, h => by simp [hasE] at h
  | .arr _ _, h => by unfold sepLogE; simpa [hasLog] using h
  | .par _ _, h => by unfold sepLogE; simpa [hasLog] using h
theorem sepLogEs_anon : ∀ es : Exprs, hasEs false es = false → hasLog false (sepLogEs es) = false
  | .nil, _ => by simp [sepLogEs, hasLog]
  | .cons e r, h => by
    simp only [hasEs, Bool.or_eq_false_iff] at h
    simp only [sepLogEs, hasLog_append, Bool.or_eq_false_iff]
    exact ⟨sepLogE_anon e h.1, sepLogEs_anon r h.2⟩
end

theorem sepLog_anon : ∀ l : List LogArg, hasLog false l = false → hasLog false (sepLog l) = false
  | [], _ => by simp [sepLog, hasLog]
  | .str _ :: r, h => by
    simp only [hasLog] at h
    simp only [sepLog, hasLog]
    exact sepLog_anon r h
  | .exp e :: r, h => by
    simp only [hasLog, Bool.or_eq_false_iff] at h
    simp only [sepLog, hasLog_append, Bool.or_eq_false_iff]
    exact ⟨sepLogE_anon e h.1, sepLog_anon r h.2⟩

theorem firstLogTuple_none : ∀ l : List LogArg, firstLogTuple l = none → hasLog true l = false
  | [], _ => by simp [hasLog]
  | .str _ :: r, h => by
    unfold firstLogTuple at h
    simp only [hasLog]
    exact firstLogTuple_none r h
  | .exp e :: r, h => by
    unfold firstLogTuple at h
    split at h
    · cases h
    · rename_i hc
      simp only [hasLog, Bool.or_eq_false_iff]
      exact ⟨(containsE_iff true e).mp (by simpa using hc), firstLogTuple_none r h⟩

def CleanS (s : Stmt) : Prop := hasS true s = false ∧ hasS false s = false ∧ msubS s = false

theorem hasSs_ofList (k : Bool) : ∀ l : List Stmt, hasSs k (Stmts.ofList l) = false ↔ ∀ s, s ∈ l → hasS k s = false
  | [] => by simp [Stmts.ofList, hasSs]
  | a :: t => by
    simp only [Stmts.ofList, hasSs, Bool.or_eq_false_iff, hasSs_ofList k t, List.mem_cons]
    constructor
    · intro ⟨h1, h2⟩ x hx
      rcases hx with hx | hx
      · rw [hx]; exact h1
      · exact h2 x hx
    · intro h
      exact ⟨h a (Or.inl rfl), fun x hx => h x (Or.inr hx)⟩

theorem msubSs_ofList : ∀ l : List Stmt, msubSs (Stmts.ofList l) = false ↔ ∀ s, s ∈ l → msubS s = false
  | [] => by simp [Stmts.ofList, msubSs]
  | a :: t => by
    simp only [Stmts.ofList, msubSs, Bool.or_eq_false_iff, msubSs_ofList t, List.mem_cons]
    constructor
    · intro ⟨h1, h2⟩ x hx
      rcases hx with hx | hx
      · rw [hx]; exact h1
      · exact h2 x hx
    · intro h
      exact ⟨h a (Or.inl rfl), fun x hx => h x (Or.inr hx)⟩

theorem zipSubs_clean (op : Op) : ∀ (ls rs : List Expr) (subs : List Stmt), zipSubs op ls rs = some subs →
    (∀ l, l ∈ ls → hasE true l = false ∧ hasE false l = false) →
    (∀ r, r ∈ rs → hasE true r = false ∧ hasE false r = false) →
    ∀ s, s ∈ subs → CleanS s
  | [], _, subs, h, _, _ => by
    unfold zipSubs at h; cases h
    intro s hs; cases hs
  | .var vm n acc :: ls, r :: rs, subs, h, hl, hr => by
    unfold zipSubs at h
    split at h
    · cases h
    · rename_i rest hrest
      cases h
      have ih := zipSubs_clean op ls rs rest hrest (fun l hl' => hl l (List.mem_cons_of_mem _ hl'))
        (fun x hx => hr x (List.mem_cons_of_mem _ hx))
      intro s hs
      split at hs
      · rcases List.mem_cons.mp hs with hs | hs
        · subst hs
          have h1 := hl _ List.mem_cons_self
          have h2 := hr r List.mem_cons_self
          simp only [hasE] at h1
          exact ⟨by simp [hasS, h1.1, h2.1], by simp [hasS, h1.2, h2.2], by simp [msubS]⟩
        · exact ih s hs
      · exact ih s hs
  | .var _ _ _ :: _, [], subs, h, _, _ => by simp [zipSubs] at h
  | .infix _ _ _ _ :: _, _, subs, h, _, _ => by simp [zipSubs] at h
  | .prefix _ _ _ :: _, _, subs, h, _, _ => by simp [zipSubs] at h
  | .switch _ _ _ _ :: _, _, subs, h, _, _ => by simp [zipSubs] at h
  | .num _ _ :: _, _, subs, h, _, _ => by simp [zipSubs] at h
  | .call _ _ _ :: _, _, subs, h, _, _ => by simp [zipSubs] at h
  | .anon _ _ _ _ _ _ _ :: _, _, subs, h, _, _ => by simp [zipSubs] at h
  | .arr _ _ :: _, _, subs, h, _, _ => by simp [zipSubs] at h
  | .tuple _ _ :: _, _, subs, h, _, _ => by simp [zipSubs] at h
  | .par _ _ :: _, _, subs, h, _, _ => by simp [zipSubs] at h


theorem flat_values {e : Expr} {m : Meta} {vs : Exprs} (h : FlatOk e ∧ hasE false e = false) (he : e = .tuple m vs) :
    ∀ v, v ∈ vs.toList → hasE true v = false ∧ hasE false v = false := by
  subst he
  intro v hv
  rcases h.1 with hf | ⟨m', vs', heq, hvs⟩
  · simp [hasE] at hf
  · cases heq
    have hanon : hasEs false vs = false := by simpa [hasE] using h.2
    exact ⟨(hasEs_toList true vs).mp hvs v hv, (hasEs_toList false vs).mp hanon v hv⟩

mutual
theorem rmTupS_spec : ∀ (s s' : Stmt), rmTupS s = .ok s' → hasS false s = false → CleanS s'
  | .msub m l op r, s', h, ha => by
    unfold rmTupS at h
    simp only [hasS, Bool.or_eq_false_iff] at ha
    split at h
    · cases h
    · rename_i l' hl
      split at h
      · cases h
      · rename_i r' hr
        have sl := rmTupE_spec l l' hl ha.1
        have sr := rmTupE_spec r r' hr ha.2
        split at h
        · rename_i lm lv rm rv
          split at h
          · split at h
            · rename_i subs hz
              cases h
              have hc := zipSubs_clean op lv.toList rv.toList subs hz (flat_values sl rfl) (flat_values sr rfl)
              refine ⟨?_, ?_, ?_⟩
              · simp only [hasS]; exact (hasSs_ofList true subs).mpr (fun s hs => (hc s hs).1)
              · simp only [hasS]; exact (hasSs_ofList false subs).mpr (fun s hs => (hc s hs).2.1)
              · simp only [msubS]; exact (msubSs_ofList subs).mpr (fun s hs => (hc s hs).2.2)
            · cases h
          · split at h <;> cases h
        · split at h <;> cases h
  | .ite m c t e, s', h, ha => by
    unfold rmTupS at h
    simp only [hasS, Bool.or_eq_false_iff] at ha
    split at h
    · cases h
    · rename_i hc
      split at h
      · cases h
      · rename_i t' ht
        split at h
        · cases h
        · rename_i e' he
          cases h
          have h1 := rmTupS_spec t t' ht ha.1.2
          have h2 := rmTupO_spec e e' he ha.2
          have hcc : hasE true c = false := (containsE_iff true c).mp (by simpa using hc)
          exact ⟨by simp [hasS, hcc, h1.1, h2.1], by simp [hasS, ha.1.1, h1.2.1, h2.2.1], by simp [msubS, h1.2.2, h2.2.2]⟩
  | .while_ m label c b, s', h, ha => by
    unfold rmTupS at h
    simp only [hasS, Bool.or_eq_false_iff] at ha
    split at h
    · cases h
    · rename_i hc
      split at h
      · cases h
      · rename_i b' hb
        cases h
        have h1 := rmTupS_spec b b' hb ha.2
        have hcc : hasE true c = false := (containsE_iff true c).mp (by simpa using hc)
        exact ⟨by simp [hasS, hcc, h1.1], by simp [hasS, ha.1, h1.2.1], by simp [msubS, h1.2.2]⟩
  | .log m args, s', h, ha => by
    unfold rmTupS at h
    simp only [hasS] at ha
    simp only at h
    split at h
    · cases h
    · rename_i hn
      cases h
      exact ⟨by simp only [hasS]; exact firstLogTuple_none _ hn, by simp only [hasS]; exact sepLog_anon args ha, by simp [msubS]⟩
  | .assert m e, s', h, ha => by
    unfold rmTupS at h
    simp only [hasS] at ha
    split at h
    · cases h
    · rename_i hc
      cases h
      exact ⟨by simp only [hasS]; exact (containsE_iff true e).mp (by simpa using hc), by simpa [hasS] using ha, by simp [msubS]⟩
  | .ret m e, s', h, ha => by
    unfold rmTupS at h
    simp only [hasS] at ha
    split at h
    · cases h
    · rename_i hc
      cases h
      exact ⟨by simp only [hasS]; exact (containsE_iff true e).mp (by simpa using hc), by simpa [hasS] using ha, by simp [msubS]⟩
  | .ceq m l r, s', h, ha => by
    unfold rmTupS at h
    simp only [hasS, Bool.or_eq_false_iff] at ha
    split at h
    · cases h
    · rename_i hc
      cases h
      simp only [Bool.or_eq_true, not_or, Bool.not_eq_true] at hc
      exact ⟨by simp [hasS, (containsE_iff true l).mp hc.1, (containsE_iff true r).mp hc.2], by simp [hasS, ha.1, ha.2], by simp [msubS]⟩
  | .decl m xt n dims, s', h, ha => by
    unfold rmTupS at h
    simp only [hasS] at ha
    split at h
    · cases h
    · rename_i hc
      cases h
      exact ⟨by simp only [hasS]; exact (anyContains_iff true dims).mp (by simpa using hc), by simpa [hasS] using ha, by simp [msubS]⟩
  | .init m xt is, s', h, ha => by
    unfold rmTupS at h
    simp only [hasS] at ha
    split at h
    · cases h
    · rename_i is' hi
      cases h
      have := rmTupSs_spec is is' hi ha
      exact ⟨by simpa [hasS] using this.1, by simpa [hasS] using this.2.1, by simpa [msubS] using this.2.2⟩
  | .block m ss, s', h, ha => by
    unfold rmTupS at h
    simp only [hasS] at ha
    split at h
    · cases h
    · rename_i ss' hi
      cases h
      have := rmTupSs_spec ss ss' hi ha
      exact ⟨by simpa [hasS] using this.1, by simpa [hasS] using this.2.1, by simpa [msubS] using this.2.2⟩
  | .sub m v acc op r, s', h, ha => by
    unfold rmTupS at h
    simp only [hasS, Bool.or_eq_false_iff] at ha
    split at h
    · cases h
    · rename_i r' hr
      have sr := rmTupE_spec r r' hr ha.2
      split at h
      · cases h
      · rename_i hnt
        split at h
        · cases h
        · rename_i hacc
          have hat : hasAs true acc = false := firstIdxWith_none true acc hacc
          have hrt : hasE true r' = false := by
            rcases sr.1 with hf | ⟨m', vs', heq, _⟩
            · exact hf
            · subst heq; simp [Expr.isTuple] at hnt
          split at h
          · cases h
            exact ⟨by simp [hasS, hat, hrt], by simp [hasS, ha.1, sr.2], by simp [msubS]⟩
          · cases h
            exact ⟨by simp [hasS, hasSs], by simp [hasS, hasSs], by simp [msubS, msubSs]⟩
theorem rmTupSs_spec : ∀ (ss ss' : Stmts), rmTupSs ss = .ok ss' → hasSs false ss = false →
    hasSs true ss' = false ∧ hasSs false ss' = false ∧ msubSs ss' = false
  | .nil, ss', h, _ => by
    unfold rmTupSs at h; cases h
    simp [hasSs, msubSs]
  | .cons s r, ss', h, ha => by
    unfold rmTupSs at h
    simp only [hasSs, Bool.or_eq_false_iff] at ha
    split at h
    · cases h
    · rename_i s1 hs
      split at h
      · cases h
      · rename_i r1 hr
        cases h
        have h1 := rmTupS_spec s s1 hs ha.1
        have h2 := rmTupSs_spec r r1 hr ha.2
        exact ⟨by simp [hasSs, h1.1, h2.1], by simp [hasSs, h1.2.1, h2.2.1], by simp [msubSs, h1.2.2, h2.2.2]⟩
theorem rmTupO_spec : ∀ (o o' : OptStmt), rmTupO o = .ok o' → hasO false o = false →
    hasO true o' = false ∧ hasO false o' = false ∧ msubO o' = false
  | .none, o', h, _ => by
    unfold rmTupO at h; cases h
    simp [hasO, msubO]
  | .some s, o', h, ha => by
    unfold rmTupO at h
    simp only [hasO] at ha
    split at h
    · cases h
    · rename_i s1 hs
      cases h
      have h1 := rmTupS_spec s s1 hs ha
      exact ⟨by simpa [hasO] using h1.1, by simpa [hasO] using h1.2.1, by simpa [msubO] using h1.2.2⟩
end


def VaOk (va : Option Expr) : Prop := ∀ v, va = some v → hasE false v = false

def AnonFreeRes (res : AnonRes) : Prop :=
  (∀ s, s ∈ res.1 → hasS false s = false) ∧ (∀ d, d ∈ res.2.1 → hasS false d = false) ∧
    hasE false res.2.2 = false

theorem hasAs_ofList (k : Bool) : ∀ l : List Acc, hasAs k (Accs.ofList l) = false ↔ ∀ a, a ∈ l → hasA k a = false
  | [] => by simp [Accs.ofList, hasAs]
  | a :: t => by
    simp only [Accs.ofList, hasAs, Bool.or_eq_false_iff, hasAs_ofList k t, List.mem_cons]
    constructor
    · intro ⟨h1, h2⟩ x hx
      rcases hx with hx | hx
      · rw [hx]; exact h1
      · exact h2 x hx
    · intro h
      exact ⟨h a (Or.inl rfl), fun x hx => h x (Or.inr hx)⟩

theorem hasSs_toList (k : Bool) : ∀ ss : Stmts, hasSs k ss = false ↔ ∀ s, s ∈ ss.toList → hasS k s = false
  | .nil => by simp [hasSs, Stmts.toList]
  | .cons s r => by
    simp only [hasSs, Stmts.toList, Bool.or_eq_false_iff, hasSs_toList k r, List.mem_cons]
    constructor
    · intro ⟨h1, h2⟩ x hx
      rcases hx with hx | hx
      · rw [hx]; exact h1
      · exact h2 x hx
    · intro h
      exact ⟨h s (Or.inl rfl), fun x hx => h x (Or.inr hx)⟩

theorem firstAnon_none : ∀ es : Exprs, firstAnon id es = none → hasEs false es = false
  | .nil, _ => by simp [hasEs]
  | .cons e r, h => by
    unfold firstAnon at h
    split at h
    · cases h
    · rename_i hc
      simp only [hasEs, Bool.or_eq_false_iff]
      exact ⟨(containsE_iff false e).mp (by simpa using hc), firstAnon_none r h⟩

theorem firstLogAnon_false : ∀ l : List LogArg, firstLogAnon l = false → hasLog false l = false
  | [], _ => by simp [hasLog]
  | .str _ :: r, h => by
    unfold firstLogAnon at h
    simp only [hasLog]
    exact firstLogAnon_false r h
  | .exp e :: r, h => by
    unfold firstLogAnon at h
    simp only [Bool.or_eq_false_iff] at h
    simp only [hasLog, Bool.or_eq_false_iff]
    exact ⟨(containsE_iff false e).mp h.1, firstLogAnon_false r h.2⟩

def acc0Of (va : Option Expr) : List Acc :=
  match va with
  | none => []
  | some v => [Acc.idx v]

theorem acc0_ok (va : Option Expr) (hva : VaOk va) :
    ∀ a, a ∈ acc0Of va → hasA false a = false := by
  intro a ha
  unfold acc0Of at ha
  cases va with
  | none => cases ha
  | some v =>
    have : a = .idx v := by simpa using ha
    subst this
    simp only [hasA]
    exact hva v rfl

theorem go_spec (m : Meta) (rs : List (Except Err AnonRes)) (idAnon : String) (acc0 : List Acc)
    (hrs : ∀ r, r ∈ rs → ∀ res, r = .ok res → AnonFreeRes res)
    (hacc : ∀ a, a ∈ acc0 → hasA false a = false) :
    ∀ (plan : List (String × Nat × Op)) (seq decls seq' decls' : List Stmt),
      anonBody.go m rs idAnon acc0 plan seq decls = .ok (seq', decls') →
      (∀ s, s ∈ seq → hasS false s = false) → (∀ d, d ∈ decls → hasS false d = false) →
      (∀ s, s ∈ seq' → hasS false s = false) ∧ (∀ d, d ∈ decls' → hasS false d = false) := by
  intro plan
  induction plan with
  | nil =>
    intro seq decls seq' decls' h hs hd
    unfold anonBody.go at h
    cases h
    exact ⟨hs, hd⟩
  | cons p rest ih =>
    intro seq decls seq' decls' h hs hd
    obtain ⟨inp, pos, op⟩ := p
    unfold anonBody.go at h
    split at h
    · cases h
    · cases h
    · rename_i stmts ndecls e' hget
      split at h
      · cases h
      · rename_i hc
        have hmem : (Except.ok (stmts, ndecls, e') : Except Err AnonRes) ∈ rs := List.mem_of_getElem? hget
        have hres := hrs _ hmem _ rfl
        have he' : hasE false e' = false := hres.2.2
        apply ih _ _ _ _ h
        · intro s hs'
          rcases List.mem_append.mp hs' with hs' | hs'
          · rcases List.mem_append.mp hs' with hs' | hs'
            · exact hs s hs'
            · exact hres.1 s hs'
          · have : s = _ := List.mem_singleton.mp hs'
            subst this
            simp only [hasS, Bool.or_eq_false_iff]
            refine ⟨(hasAs_ofList false _).mpr ?_, he'⟩
            intro a ha
            rcases List.mem_append.mp ha with ha | ha
            · exact hacc a ha
            · have : a = .cmp inp := List.mem_singleton.mp ha
              subst this; rfl
        · intro d hd'
          rcases List.mem_append.mp hd' with hd' | hd'
          · exact hd d hd'
          · exact hres.2.1 d hd'

theorem anonBody_spec (tbl : List TemplateSig) (va : Option Expr) (m : Meta) (label id : String)
    (params : Exprs) (names : Option (List (Op × String))) (par : Bool) (n : Nat)
    (rs : List (Except Err AnonRes)) (res : AnonRes)
    (hva : VaOk va) (hrs : ∀ r, r ∈ rs → ∀ res, r = .ok res → AnonFreeRes res)
    (h : anonBody tbl va m label id params names par n rs = .ok res) : AnonFreeRes res := by
  unfold anonBody at h
  split at h
  · cases h
  · rename_i t ht
    simp only at h
    split at h
    · cases h
    · rename_i hpar
      have hp : hasEs false params = false := (containsEs_iff false params).mp (by simpa using hpar)
      split at h
      · cases h
      · rename_i plan hplan
        split at h
        · cases h
        · rename_i seq decls hgo
          cases h
          have hacc := acc0_ok va hva
          have hcall : hasE false (if par then Expr.par m (.call m id params) else .call m id params) = false := by
            cases par <;> simp [hasE, hp]
          have hgo' := go_spec m rs (id ++ "#" ++ label) (acc0Of va) hrs hacc plan _ _ seq decls hgo
            (by
              intro s hs
              have : s = _ := List.mem_singleton.mp hs
              subst this
              simp only [hasS, Bool.or_eq_false_iff]
              exact ⟨(hasAs_ofList false _).mpr hacc, hcall⟩)
            (by
              intro d hd
              have : d = _ := List.mem_singleton.mp hd
              subst this
              cases va with
              | none => simp [hasS, hasEs]
              | some v => simp [hasS, hasEs, hva v rfl])
          have hout : ∀ o : String, hasE false (Expr.var m (id ++ "#" ++ label)
              (Accs.ofList (acc0Of va ++ [Acc.cmp o]))) = false := by
            intro o
            simp only [hasE]
            apply (hasAs_ofList false _).mpr
            intro a ha
            rcases List.mem_append.mp ha with ha | ha
            · exact hacc a ha
            · have : a = .cmp o := List.mem_singleton.mp ha
              subst this; rfl
          refine ⟨?_, hgo'.2, ?_⟩
          · intro s hs
            have : s = _ := List.mem_singleton.mp hs
            subst this
            simp only [hasS]
            exact (hasSs_ofList false seq).mpr hgo'.1
          · show hasE false (match t.outputs with | [o] => _ | os => _) = false
            split
            · exact hout _
            · simp only [hasE, Bool.false_or]
              apply (hasEs_ofList false _).mpr
              intro e he
              obtain ⟨o, _, ho⟩ := List.mem_map.mp he
              subst ho
              exact hout o


theorem res_plain (e : Expr) (h : hasE false e = false) : AnonFreeRes ([], [], e) := by
  unfold AnonFreeRes
  exact ⟨fun _ hs => (by cases hs), fun _ hd => (by cases hd), h⟩

theorem hasE_par (k : Bool) (m : Meta) (e : Expr) : hasE k (.par m e) = hasE k e := by
  simp only [hasE]

mutual
theorem rmAnonE_spec (tbl : List TemplateSig) (va : Option Expr) (hva : VaOk va) :
    ∀ (e : Expr) (res : AnonRes), rmAnonE tbl va e = .ok res → AnonFreeRes res
  | .arr m vs, res, h => by
    unfold rmAnonE at h
    split at h
    · cases h
    · rename_i hn
      cases h
      exact res_plain _ (by simp only [hasE]; exact firstAnon_none vs hn)
  | .num m n, res, h => by
    unfold rmAnonE at h; cases h
    exact res_plain _ (by simp [hasE])
  | .var m n acc, res, h => by
    unfold rmAnonE at h
    split at h
    · cases h
    · rename_i hc
      cases h
      exact res_plain _ (by simp only [hasE]; exact (containsAs_iff false acc).mp (by simpa using hc))
  | .infix m op l r, res, h => by
    unfold rmAnonE at h
    split at h
    · cases h
    · rename_i hc
      cases h
      simp only [Bool.or_eq_true, not_or, Bool.not_eq_true] at hc
      exact res_plain _ (by simp [hasE, (containsE_iff false l).mp hc.1, (containsE_iff false r).mp hc.2])
  | .prefix m op e, res, h => by
    unfold rmAnonE at h
    split at h
    · cases h
    · rename_i hc
      cases h
      exact res_plain _ (by simp only [hasE]; exact (containsE_iff false e).mp (by simpa using hc))
  | .switch m c t f, res, h => by
    unfold rmAnonE at h
    split at h
    · cases h
    · rename_i hc
      cases h
      simp only [Bool.or_eq_true, not_or, Bool.not_eq_true] at hc
      exact res_plain _ (by simp [hasE, (containsE_iff false c).mp hc.1.1, (containsE_iff false t).mp hc.1.2, (containsE_iff false f).mp hc.2])
  | .call m i args, res, h => by
    unfold rmAnonE at h
    split at h
    · cases h
    · rename_i hc
      cases h
      exact res_plain _ (by simp only [hasE]; exact (containsEs_iff false args).mp (by simpa using hc))
  | .anon m label i ps ss names par, res, h => by
    unfold rmAnonE at h
    exact anonBody_spec tbl va m label i ps names par _ _ res hva (rmAnonEs_spec tbl va hva ss) h
  | .tuple m vs, res, h => by
    unfold rmAnonE at h
    split at h
    · cases h
    · rename_i stmts decls vals hv
      cases h
      have := rmAnonTuple_spec tbl va hva vs stmts decls vals hv
      refine ⟨this.1, this.2.1, ?_⟩
      simp only [hasE, Bool.false_or]
      exact (hasEs_ofList false vals).mpr this.2.2
  | .par m e, res, h => by
    unfold rmAnonE at h
    have := rmAnonPar_spec tbl va hva m e res h
    exact this
theorem rmAnonPar_spec (tbl : List TemplateSig) (va : Option Expr) (hva : VaOk va) (m : Meta) :
    ∀ (e : Expr) (res : AnonRes), rmAnonPar tbl va m e = .ok res → AnonFreeRes res
  | .anon m2 label i ps ss names p0, res, h => by
    unfold rmAnonPar at h
    exact anonBody_spec tbl va m2 label i ps names true _ _ res hva (rmAnonEs_spec tbl va hva ss) h
  | .call m2 i args, res, h => by
    unfold rmAnonPar at h
    split at h
    · cases h
    · rename_i hc
      cases h
      exact res_plain _ (by simp only [hasE]; exact (containsEs_iff false args).mp (by simpa using hc))
  | .infix a b c d, res, h => by
    unfold rmAnonPar at h
    split at h
    · cases h
    · rename_i hc
      cases h
      exact res_plain _ (by rw [hasE_par]; exact (containsE_iff false _).mp (by simpa using hc))
  | .prefix a b c, res, h => by
    unfold rmAnonPar at h
    split at h
    · cases h
    · rename_i hc
      cases h
      exact res_plain _ (by rw [hasE_par]; exact (containsE_iff false _).mp (by simpa using hc))
  | .switch a b c d, res, h => by
    unfold rmAnonPar at h
    split at h
    · cases h
    · rename_i hc
      cases h
      exact res_plain _ (by rw [hasE_par]; exact (containsE_iff false _).mp (by simpa using hc))
  | .var a b c, res, h => by
    unfold rmAnonPar at h
    split at h
    · cases h
    · rename_i hc
      cases h
      exact res_plain _ (by rw [hasE_par]; exact (containsE_iff false _).mp (by simpa using hc))
  | .num a b, res, h => by
    unfold rmAnonPar at h
    split at h
    · cases h
    · cases h
      exact res_plain _ (by simp [hasE])
  | .arr a b, res, h => by
    unfold rmAnonPar at h
    split at h
    · cases h
    · rename_i hc
      cases h
      exact res_plain _ (by rw [hasE_par]; exact (containsE_iff false _).mp (by simpa using hc))
  | .tuple a b, res, h => by
    unfold rmAnonPar at h
    split at h
    · cases h
    · rename_i hc
      cases h
      exact res_plain _ (by rw [hasE_par]; exact (containsE_iff false _).mp (by simpa using hc))
  | .par a b, res, h => by
    unfold rmAnonPar at h
    split at h
    · cases h
    · rename_i hc
      cases h
      exact res_plain _ (by rw [hasE_par]; exact (containsE_iff false _).mp (by simpa using hc))
theorem rmAnonEs_spec (tbl : List TemplateSig) (va : Option Expr) (hva : VaOk va) :
    ∀ (es : Exprs) (r : Except Err AnonRes), r ∈ rmAnonEs tbl va es → ∀ res, r = .ok res → AnonFreeRes res
  | .nil, r, hr, _, _ => by
    unfold rmAnonEs at hr; cases hr
  | .cons e rest, r, hr, res, heq => by
    unfold rmAnonEs at hr
    rcases List.mem_cons.mp hr with hr | hr
    · subst heq
      exact rmAnonE_spec tbl va hva e res hr.symm
    · exact rmAnonEs_spec tbl va hva rest r hr res heq
theorem rmAnonTuple_spec (tbl : List TemplateSig) (va : Option Expr) (hva : VaOk va) :
    ∀ (es : Exprs) (stmts decls : List Stmt) (vals : List Expr),
      rmAnonTuple tbl va es = .ok (stmts, decls, vals) →
      (∀ s, s ∈ stmts → hasS false s = false) ∧ (∀ d, d ∈ decls → hasS false d = false) ∧
        (∀ v, v ∈ vals → hasE false v = false)
  | .nil, stmts, decls, vals, h => by
    unfold rmAnonTuple at h; cases h
    exact ⟨fun _ h => (by cases h), fun _ h => (by cases h), fun _ h => (by cases h)⟩
  | .cons e r, stmts, decls, vals, h => by
    unfold rmAnonTuple at h
    split at h
    · cases h
    · rename_i s1 d1 e1 he
      split at h
      · cases h
      · rename_i s2 d2 es2 hr
        cases h
        have h1 := rmAnonE_spec tbl va hva e _ he
        have h2 := rmAnonTuple_spec tbl va hva r s2 d2 es2 hr
        refine ⟨?_, ?_, ?_⟩
        · intro s hs
          rcases List.mem_append.mp hs with hs | hs
          · exact h1.1 s hs
          · exact h2.1 s hs
        · intro d hd
          rcases List.mem_append.mp hd with hd | hd
          · exact h1.2.1 d hd
          · exact h2.2.1 d hd
        · intro v hv
          rcases List.mem_cons.mp hv with hv | hv
          · subst hv; exact h1.2.2
          · exact h2.2.2 v hv
end


theorem wrapSubs_anon (m : Meta) (stmts : List Stmt) (subs : Stmt)
    (h1 : ∀ s, s ∈ stmts → hasS false s = false) (h2 : hasS false subs = false) :
    hasS false (wrapSubs m stmts subs) = false := by
  unfold wrapSubs
  split
  · exact h2
  · simp only [hasS]
    apply (hasSs_ofList false _).mpr
    intro s hs
    rcases List.mem_append.mp hs with hs | hs
    · exact h1 s hs
    · have : s = subs := List.mem_singleton.mp hs
      subst this; exact h2

mutual
theorem rmAnonS_spec (tbl : List TemplateSig) :
    ∀ (s : Stmt) (va : Option Expr) (s' : Stmt) (decls : List Stmt), VaOk va → rmAnonS tbl va s = .ok (s', decls) →
      hasS false s' = false ∧ ∀ d, d ∈ decls → hasS false d = false
  | .msub m l op r, va, s', decls, hva, h => by
    unfold rmAnonS at h
    split at h
    · cases h
    · rename_i hc
      split at h
      · cases h
      · rename_i stmts dd r' hr
        cases h
        have hres := rmAnonE_spec tbl va hva r _ hr
        have hl : hasE false l = false := (containsE_iff false l).mp (by simpa using hc)
        exact ⟨wrapSubs_anon m stmts _ hres.1 (by simp [hasS, hl, hres.2.2]), hres.2.1⟩
  | .ite m c t e, va, s', decls, hva, h => by
    unfold rmAnonS at h
    split at h
    · cases h
    · rename_i hc
      split at h
      · cases h
      · rename_i t' d1 ht
        split at h
        · cases h
        · rename_i e' d2 he
          cases h
          have h1 := rmAnonS_spec tbl t va t' d1 hva ht
          have h2 := rmAnonO_spec tbl e va e' d2 hva he
          have hcc : hasE false c = false := (containsE_iff false c).mp (by simpa using hc)
          refine ⟨by simp [hasS, hcc, h1.1, h2.1], ?_⟩
          intro d hd
          rcases List.mem_append.mp hd with hd | hd
          · exact h1.2 d hd
          · exact h2.2 d hd
  | .while_ m label c b, va, s', decls, hva, h => by
    unfold rmAnonS at h
    split at h
    · cases h
    · rename_i hc
      simp only at h
      have hva' : VaOk (some (Expr.var m ("anon_var@" ++ label) Accs.nil)) := by
        intro v hv
        cases hv
        simp [hasE, hasAs]
      split at h
      · cases h
      · rename_i b' nd hb
        have h1 := rmAnonS_spec tbl b _ b' nd hva' hb
        have hcc : hasE false c = false := (containsE_iff false c).mp (by simpa using hc)
        split at h
        · cases h
          exact ⟨by simp [hasS, hcc, h1.1], fun d hd => by cases hd⟩
        · cases h
          refine ⟨by simp [hasS, hasSs, hcc, h1.1, hasE, hasAs], ?_⟩
          intro d hd
          rcases List.mem_append.mp hd with hd | hd
          · rcases List.mem_cons.mp hd with hd | hd
            · subst hd; simp [hasS, hasEs]
            · have : d = _ := List.mem_singleton.mp hd
              subst this; simp [hasS, hasAs, hasE]
          · exact h1.2 d hd
  | .log m args, va, s', decls, hva, h => by
    unfold rmAnonS at h
    split at h
    · cases h
    · rename_i hc
      cases h
      exact ⟨by simp only [hasS]; exact firstLogAnon_false args (by simpa using hc), fun d hd => by cases hd⟩
  | .assert m e, va, s', decls, hva, h => by
    unfold rmAnonS at h
    split at h
    · cases h
    · rename_i hc
      cases h
      exact ⟨by simp only [hasS]; exact (containsE_iff false e).mp (by simpa using hc), fun d hd => by cases hd⟩
  | .ret m e, va, s', decls, hva, h => by
    unfold rmAnonS at h
    split at h
    · cases h
    · rename_i hc
      cases h
      exact ⟨by simp only [hasS]; exact (containsE_iff false e).mp (by simpa using hc), fun d hd => by cases hd⟩
  | .ceq m l r, va, s', decls, hva, h => by
    unfold rmAnonS at h
    split at h
    · cases h
    · rename_i hc
      cases h
      simp only [Bool.or_eq_true, not_or, Bool.not_eq_true] at hc
      exact ⟨by simp [hasS, (containsE_iff false l).mp hc.1, (containsE_iff false r).mp hc.2], fun d hd => by cases hd⟩
  | .decl m xt n dims, va, s', decls, hva, h => by
    unfold rmAnonS at h
    split at h
    · cases h
    · rename_i hn
      cases h
      exact ⟨by simp only [hasS]; exact firstAnon_none dims hn, fun d hd => by cases hd⟩
  | .init m xt is, va, s', decls, hva, h => by
    unfold rmAnonS at h
    split at h
    · cases h
    · rename_i is' dd hi
      have := rmAnonSs_spec tbl is va is' dd hva hi
      cases h
      exact ⟨by simpa [hasS] using this.1, this.2⟩
  | .block m ss, va, s', decls, hva, h => by
    unfold rmAnonS at h
    split at h
    · cases h
    · rename_i ss' dd hi
      have := rmAnonSs_spec tbl ss va ss' dd hva hi
      cases h
      exact ⟨by simpa [hasS] using this.1, this.2⟩
  | .sub m v acc op r, va, s', decls, hva, h => by
    unfold rmAnonS at h
    split at h
    · cases h
    · rename_i hacc
      split at h
      · cases h
      · rename_i stmts dd r' hr
        cases h
        have hres := rmAnonE_spec tbl va hva r _ hr
        have ha : hasAs false acc = false := firstIdxWith_none false acc hacc
        exact ⟨wrapSubs_anon m stmts _ hres.1 (by simp [hasS, ha, hres.2.2]), hres.2.1⟩
theorem rmAnonSs_spec (tbl : List TemplateSig) :
    ∀ (ss : Stmts) (va : Option Expr) (ss' : Stmts) (decls : List Stmt), VaOk va → rmAnonSs tbl va ss = .ok (ss', decls) →
      hasSs false ss' = false ∧ ∀ d, d ∈ decls → hasS false d = false
  | .nil, va, ss', decls, _, h => by
    unfold rmAnonSs at h; cases h
    exact ⟨by simp [hasSs], fun d hd => by cases hd⟩
  | .cons s r, va, ss', decls, hva, h => by
    unfold rmAnonSs at h
    split at h
    · cases h
    · rename_i s1 d1 hs
      split at h
      · cases h
      · rename_i r1 d2 hr
        cases h
        have h1 := rmAnonS_spec tbl s va s1 d1 hva hs
        have h2 := rmAnonSs_spec tbl r va r1 d2 hva hr
        refine ⟨by simp [hasSs, h1.1, h2.1], ?_⟩
        intro d hd
        rcases List.mem_append.mp hd with hd | hd
        · exact h1.2 d hd
        · exact h2.2 d hd
theorem rmAnonO_spec (tbl : List TemplateSig) :
    ∀ (o : OptStmt) (va : Option Expr) (o' : OptStmt) (decls : List Stmt), VaOk va → rmAnonO tbl va o = .ok (o', decls) →
      hasO false o' = false ∧ ∀ d, d ∈ decls → hasS false d = false
  | .none, va, o', decls, _, h => by
    unfold rmAnonO at h; cases h
    exact ⟨by simp [hasO], fun d hd => by cases hd⟩
  | .some s, va, o', decls, hva, h => by
    unfold rmAnonO at h
    split at h
    · cases h
    · rename_i s1 d1 hs
      have h1 := rmAnonS_spec tbl s va s1 d1 hva hs
      cases h
      exact ⟨by simpa [hasO] using h1.1, h1.2⟩
end

/-- every template that survives `remove_syntactic_sugar` is free of tuples, anonymous components and
    multi-substitutions, wherever in a statement or expression they were written -/
theorem desugarTemplate_clean (tbl : List TemplateSig) (body body' : Stmt)
    (h : desugarTemplate tbl body = .ok body') : CleanS body' := by
  unfold desugarTemplate at h
  split at h
  · cases h
  · rename_i m stmts decls hr
    have hva : VaOk none := fun v hv => by cases hv
    have h1 := rmAnonS_spec tbl body none _ decls hva hr
    apply rmTupS_spec _ _ h
    simp only [hasS]
    apply (hasSs_ofList false _).mpr
    have hstm : hasSs false stmts = false := by simpa [hasS] using h1.1
    intro s hs
    simp only [List.append_assoc, List.mem_append, List.mem_cons, List.not_mem_nil, or_false] at hs
    rcases hs with hs | hs | hs | hs
    · subst hs
      simp only [hasS]
      exact (hasSs_ofList false _).mpr (fun d hd => h1.2 d (List.mem_filter.mp hd).1)
    · exact h1.2 s (List.mem_filter.mp hs).1
    · subst hs
      simp only [hasS]
      exact (hasSs_ofList false _).mpr (fun d hd => h1.2 d (List.mem_filter.mp hd).1)
    · exact (hasSs_toList false stmts).mp hstm s hs
  · cases h


/-! spec: the leaves of a (nested) tuple, left to right -/
mutual
def flatE : Expr → List Expr
  | .tuple _ vs => flatEs vs
  | e => [e]
def flatEs : Exprs → List Expr
  | .nil => []
  | .cons e r => flatE e ++ flatEs r
end

/-- spec: the element-wise assignments, skipping `_` -/
def elementwise (op : Op) (ls rs : List Expr) : List Stmt :=
  (ls.zip rs).filterMap (fun p => match p.1 with
    | .var vm n acc => if n != "_" then some (.sub vm n acc op p.2) else none
    | _ => none)

theorem exprsLen_toList : ∀ es : Exprs, exprsLen es = es.toList.length
  | .nil => rfl
  | .cons _ r => by simp [exprsLen, Exprs.toList, exprsLen_toList r]

mutual
theorem rmTupE_shape : ∀ (e e' : Expr), rmTupE e = .ok e' →
    (e.isTuple = false → e' = e) ∧ (∀ m vs, e = .tuple m vs → e' = .tuple m (Exprs.ofList (flatEs vs)))
  | .arr m vs, e', h => by
    unfold rmTupE at h
    split at h
    · cases h
    · cases h; exact ⟨fun _ => rfl, fun _ _ hh => by cases hh⟩
  | .num m n, e', h => by
    unfold rmTupE at h; cases h; exact ⟨fun _ => rfl, fun _ _ hh => by cases hh⟩
  | .var m n acc, e', h => by
    unfold rmTupE at h
    split at h
    · cases h
    · cases h; exact ⟨fun _ => rfl, fun _ _ hh => by cases hh⟩
  | .infix m op l r, e', h => by
    unfold rmTupE at h
    split at h
    · cases h
    · cases h; exact ⟨fun _ => rfl, fun _ _ hh => by cases hh⟩
  | .prefix m op e, e', h => by
    unfold rmTupE at h
    split at h
    · cases h
    · cases h; exact ⟨fun _ => rfl, fun _ _ hh => by cases hh⟩
  | .switch m c t f, e', h => by
    unfold rmTupE at h
    split at h
    · cases h
    · cases h; exact ⟨fun _ => rfl, fun _ _ hh => by cases hh⟩
  | .call m i args, e', h => by
    unfold rmTupE at h
    split at h
    · cases h
    · cases h; exact ⟨fun _ => rfl, fun _ _ hh => by cases hh⟩
  | .anon m _ _ _ _ _ _, e', h => by
    unfold rmTupE at h; cases h
  | .tuple m vs, e', h => by
    unfold rmTupE at h
    split at h
    · cases h
    · rename_i vals hv
      cases h
      have := rmTupEs_shape vs vals hv
      refine ⟨fun hh => by simp [Expr.isTuple] at hh, ?_⟩
      intro m' vs' hh
      cases hh
      rw [this]
  | .par m e, e', h => by
    unfold rmTupE at h
    split at h
    · cases h
    · cases h; exact ⟨fun _ => rfl, fun _ _ hh => by cases hh⟩
theorem rmTupEs_shape : ∀ (es : Exprs) (vals : List Expr), rmTupEs es = .ok vals → vals = flatEs es
  | .nil, vals, h => by
    unfold rmTupEs at h; cases h; rfl
  | .cons e r, vals, h => by
    unfold rmTupEs at h
    split at h
    · cases h
    · rename_i e' he
      split at h
      · cases h
      · rename_i rest hr
        have h1 := rmTupE_shape e e' he
        have h2 := rmTupEs_shape r rest hr
        subst h2
        split at h
        · rename_i tm inner
          cases h
          -- e' is a tuple, hence so is e
          cases hte : e.isTuple with
          | false =>
            have := h1.1 hte
            subst this
            simp [Expr.isTuple] at hte
          | true =>
            cases e with
            | tuple m0 vs0 =>
              have := h1.2 m0 vs0 rfl
              cases this
              simp [flatEs, flatE, toList_ofList]
            | _ => simp [Expr.isTuple] at hte
        · rename_i hnt
          cases h
          cases hte : e.isTuple with
          | false =>
            have := h1.1 hte
            subst this
            cases e' with
            | tuple m0 vs0 => simp [Expr.isTuple] at hte
            | _ => simp [flatEs, flatE]
          | true =>
            cases e with
            | tuple m0 vs0 =>
              have := h1.2 m0 vs0 rfl
              exact absurd this (hnt m0 _)
            | _ => simp [Expr.isTuple] at hte
end

theorem zipSubs_eq (op : Op) : ∀ (ls rs : List Expr) (subs : List Stmt), zipSubs op ls rs = some subs →
    ls.length ≤ rs.length → subs = elementwise op ls rs
  | [], rs, subs, h, _ => by
    unfold zipSubs at h; cases h
    simp [elementwise]
  | .var vm n acc :: ls, r :: rs, subs, h, hlen => by
    unfold zipSubs at h
    split at h
    · cases h
    · rename_i rest hrest
      cases h
      have ih := zipSubs_eq op ls rs rest hrest (by simpa using hlen)
      subst ih
      unfold elementwise
      simp only [List.zip_cons_cons, List.filterMap_cons]
      split <;> rfl
  | .var _ _ _ :: _, [], subs, h, _ => by simp [zipSubs] at h
  | .infix _ _ _ _ :: _, _, subs, h, _ => by simp [zipSubs] at h
  | .prefix _ _ _ :: _, _, subs, h, _ => by simp [zipSubs] at h
  | .switch _ _ _ _ :: _, _, subs, h, _ => by simp [zipSubs] at h
  | .num _ _ :: _, _, subs, h, _ => by simp [zipSubs] at h
  | .call _ _ _ :: _, _, subs, h, _ => by simp [zipSubs] at h
  | .anon _ _ _ _ _ _ _ :: _, _, subs, h, _ => by simp [zipSubs] at h
  | .arr _ _ :: _, _, subs, h, _ => by simp [zipSubs] at h
  | .tuple _ _ :: _, _, subs, h, _ => by simp [zipSubs] at h
  | .par _ _ :: _, _, subs, h, _ => by simp [zipSubs] at h

/-- a tuple assignment is the element-wise assignments of the flattened sides, in order, skipping `_` -/
theorem tuple_assignment (m lm rm : Meta) (ls rs : Exprs) (op : Op) (s' : Stmt)
    (h : rmTupS (.msub m (.tuple lm ls) op (.tuple rm rs)) = .ok s') :
    (flatEs ls).length = (flatEs rs).length ∧
    s' = .block m (Stmts.ofList (elementwise op (flatEs ls) (flatEs rs))) := by
  unfold rmTupS at h
  split at h
  · cases h
  · rename_i l' hl
    split at h
    · cases h
    · rename_i r' hr
      have sl := (rmTupE_shape _ l' hl).2 lm ls rfl
      have sr := (rmTupE_shape _ r' hr).2 rm rs rfl
      subst sl; subst sr
      simp only [exprsLen_toList, toList_ofList] at h
      split at h
      · rename_i hlen
        have hlen' : (flatEs ls).length = (flatEs rs).length := by simpa using hlen
        split at h
        · rename_i subs hz
          cases h
          exact ⟨hlen', by rw [zipSubs_eq op _ _ subs hz (Nat.le_of_eq hlen')]⟩
        · cases h
      · split at h <;> cases h


theorem indexOf_spec (n : String) : ∀ (l : List String) (pos : Nat), indexOf n l = some pos → l[pos]? = some n
  | [], pos, h => by simp [indexOf] at h
  | x :: r, pos, h => by
    unfold indexOf at h
    split at h
    · rename_i hx
      cases h
      have : x = n := by simpa using hx
      simp [this]
    · cases hi : indexOf n r with
      | none => simp [hi] at h
      | some p =>
        simp [hi] at h
        subst h
        simpa using indexOf_spec n r p hi

/-- named inputs: every template input, in declaration order, takes the value and operator written
    next to its name -/
theorem inputPlan_go_spec (m : Meta) (ns : List (Op × String)) :
    ∀ (inputs : List String) (plan : List (String × Nat × Op)),
      inputPlan.go m ns (ns.map (·.2)) inputs = .ok plan →
      plan.map (·.1) = inputs ∧ ∀ p, p ∈ plan → ns[p.2.1]? = some (p.2.2, p.1)
  | [], plan, h => by
    unfold inputPlan.go at h; cases h
    exact ⟨rfl, fun _ hp => (by cases hp)⟩
  | inp :: r, plan, h => by
    unfold inputPlan.go at h
    split at h
    · cases h
    · rename_i pos hpos
      split at h
      · cases h
      · rename_i rest hrest
        cases h
        have ih := inputPlan_go_spec m ns r rest hrest
        refine ⟨by simp [ih.1], ?_⟩
        intro p hp
        rcases List.mem_cons.mp hp with hp | hp
        · subst hp
          have h1 := indexOf_spec inp _ pos hpos
          rw [List.getElem?_map] at h1
          cases hns : ns[pos]? with
          | none => simp [hns] at h1
          | some q =>
            simp [hns] at h1
            obtain ⟨o, nm⟩ := q
            simp at h1
            subst h1
            simp
        · exact ih.2 p hp

theorem inputPlan_spec (m : Meta) (inputs : List String) (names : Option (List (Op × String))) (n : Nat)
    (plan : List (String × Nat × Op)) (h : inputPlan m inputs names n = .ok plan) :
    plan.map (·.1) = inputs ∧ inputs.length = n ∧
    (∀ ns, names = some ns → ∀ p, p ∈ plan → ns[p.2.1]? = some (p.2.2, p.1)) ∧
    (names = none → plan = (inputs.zip (List.range n)).map (fun p => (p.1, p.2, Op.csig))) := by
  unfold inputPlan at h
  split at h
  · rename_i ns
    simp only at h
    split at h
    · cases h
    · rename_i plan' hgo
      split at h
      · cases h
      · rename_i hlen
        cases h
        have := inputPlan_go_spec m ns inputs plan hgo
        exact ⟨this.1, by simpa using hlen, fun ns' hns => (by cases hns; exact this.2), fun hn => (by cases hn)⟩
  · split at h
    · cases h
    · rename_i hlen
      cases h
      have hl : inputs.length = n := by simpa using hlen
      refine ⟨?_, hl, fun ns hns => (by cases hns), fun _ => rfl⟩
      rw [List.map_map]
      have : ((fun p : String × Nat × Op => p.1) ∘ fun p : String × Nat => (p.1, p.2, Op.csig)) = Prod.fst := rfl
      rw [this, List.map_fst_zip]
      simp [hl]

/-- the direct component-port assignments of a statement list: (variable, port, operator) -/
def lastCmp (l : List Acc) : Option String :=
  match l.getLast? with
  | some (.cmp n) => some n
  | _ => none

def directSubs (l : List Stmt) : List (String × Option String × Op) :=
  l.filterMap (fun s => match s with
    | .sub _ v acc op _ => some (v, lastCmp acc.toList, op)
    | _ => none)

def isBlock : Stmt → Bool
  | .block _ _ => true
  | _ => false

theorem directSubs_blocks (l : List Stmt) (h : ∀ s, s ∈ l → isBlock s = true) : directSubs l = [] := by
  unfold directSubs
  apply List.filterMap_eq_nil_iff.mpr
  intro s hs
  have := h s hs
  cases s <;> simp [isBlock] at this ⊢

theorem directSubs_append (a b : List Stmt) : directSubs (a ++ b) = directSubs a ++ directSubs b := by
  simp [directSubs, List.filterMap_append]

theorem accs_toList_ofList (l : List Acc) : (Accs.ofList l).toList = l := by
  induction l with
  | nil => rfl
  | cons a t ih => simp [Accs.ofList, Accs.toList, ih]

theorem lastCmp_append (l : List Acc) (n : String) : lastCmp (l ++ [.cmp n]) = some n := by
  unfold lastCmp
  simp

theorem anonBody_blocks (tbl : List TemplateSig) (va : Option Expr) (m : Meta) (label id : String)
    (params : Exprs) (names : Option (List (Op × String))) (par : Bool) (n : Nat)
    (rs : List (Except Err AnonRes)) (res : AnonRes)
    (h : anonBody tbl va m label id params names par n rs = .ok res) : ∀ s, s ∈ res.1 → isBlock s = true := by
  unfold anonBody at h
  split at h
  · cases h
  · simp only at h
    split at h
    · cases h
    · split at h
      · cases h
      · split at h
        · cases h
        · cases h
          intro s hs
          have : s = _ := List.mem_singleton.mp hs
          subst this
          rfl

theorem go_order (m : Meta) (rs : List (Except Err AnonRes)) (idAnon : String) (acc0 : List Acc)
    (hrs : ∀ r, r ∈ rs → ∀ res, r = .ok res → ∀ s, s ∈ res.1 → isBlock s = true) :
    ∀ (plan : List (String × Nat × Op)) (seq decls seq' decls' : List Stmt),
      anonBody.go m rs idAnon acc0 plan seq decls = .ok (seq', decls') →
      directSubs seq' = directSubs seq ++ plan.map (fun p => (idAnon, some p.1, p.2.2)) := by
  intro plan
  induction plan with
  | nil =>
    intro seq decls seq' decls' h
    unfold anonBody.go at h
    cases h
    simp
  | cons p rest ih =>
    intro seq decls seq' decls' h
    obtain ⟨inp, pos, op⟩ := p
    unfold anonBody.go at h
    split at h
    · cases h
    · cases h
    · rename_i stmts ndecls e' hget
      split at h
      · cases h
      · have hmem : (Except.ok (stmts, ndecls, e') : Except Err AnonRes) ∈ rs := List.mem_of_getElem? hget
        have hb := hrs _ hmem _ rfl
        rw [ih _ _ _ _ h, directSubs_append, directSubs_append, directSubs_blocks stmts hb]
        simp [directSubs, accs_toList_ofList, lastCmp_append]

mutual
theorem rmAnonE_blocks (tbl : List TemplateSig) (va : Option Expr) :
    ∀ (e : Expr) (res : AnonRes), rmAnonE tbl va e = .ok res → ∀ s, s ∈ res.1 → isBlock s = true
  | .arr m vs, res, h => by
    unfold rmAnonE at h
    split at h
    · cases h
    · cases h; intro s hs; cases hs
  | .num m n, res, h => by
    unfold rmAnonE at h; cases h; intro s hs; cases hs
  | .var m n acc, res, h => by
    unfold rmAnonE at h
    split at h
    · cases h
    · cases h; intro s hs; cases hs
  | .infix m op l r, res, h => by
    unfold rmAnonE at h
    split at h
    · cases h
    · cases h; intro s hs; cases hs
  | .prefix m op e, res, h => by
    unfold rmAnonE at h
    split at h
    · cases h
    · cases h; intro s hs; cases hs
  | .switch m c t f, res, h => by
    unfold rmAnonE at h
    split at h
    · cases h
    · cases h; intro s hs; cases hs
  | .call m i args, res, h => by
    unfold rmAnonE at h
    split at h
    · cases h
    · cases h; intro s hs; cases hs
  | .anon m label i ps ss names par, res, h => by
    unfold rmAnonE at h
    exact anonBody_blocks tbl va m label i ps names par _ _ res h
  | .tuple m vs, res, h => by
    unfold rmAnonE at h
    split at h
    · cases h
    · rename_i stmts decls vals hv
      cases h
      exact rmAnonTuple_blocks tbl va vs stmts decls vals hv
  | .par m e, res, h => by
    unfold rmAnonE at h
    exact rmAnonPar_blocks tbl va m e res h
theorem rmAnonPar_blocks (tbl : List TemplateSig) (va : Option Expr) (m : Meta) :
    ∀ (e : Expr) (res : AnonRes), rmAnonPar tbl va m e = .ok res → ∀ s, s ∈ res.1 → isBlock s = true
  | .anon m2 label i ps ss names p0, res, h => by
    unfold rmAnonPar at h
    exact anonBody_blocks tbl va m2 label i ps names true _ _ res h
  | .call m2 i args, res, h => by
    unfold rmAnonPar at h
    split at h
    · cases h
    · cases h; intro s hs; cases hs
  | .infix a b c d, res, h => by
    unfold rmAnonPar at h
    split at h
    · cases h
    · cases h; intro s hs; cases hs
  | .prefix a b c, res, h => by
    unfold rmAnonPar at h
    split at h
    · cases h
    · cases h; intro s hs; cases hs
  | .switch a b c d, res, h => by
    unfold rmAnonPar at h
    split at h
    · cases h
    · cases h; intro s hs; cases hs
  | .var a b c, res, h => by
    unfold rmAnonPar at h
    split at h
    · cases h
    · cases h; intro s hs; cases hs
  | .num a b, res, h => by
    unfold rmAnonPar at h
    split at h
    · cases h
    · cases h; intro s hs; cases hs
  | .arr a b, res, h => by
    unfold rmAnonPar at h
    split at h
    · cases h
    · cases h; intro s hs; cases hs
  | .tuple a b, res, h => by
    unfold rmAnonPar at h
    split at h
    · cases h
    · cases h; intro s hs; cases hs
  | .par a b, res, h => by
    unfold rmAnonPar at h
    split at h
    · cases h
    · cases h; intro s hs; cases hs
theorem rmAnonTuple_blocks (tbl : List TemplateSig) (va : Option Expr) :
    ∀ (es : Exprs) (stmts decls : List Stmt) (vals : List Expr),
      rmAnonTuple tbl va es = .ok (stmts, decls, vals) → ∀ s, s ∈ stmts → isBlock s = true
  | .nil, stmts, decls, vals, h => by
    unfold rmAnonTuple at h; cases h; intro s hs; cases hs
  | .cons e r, stmts, decls, vals, h => by
    unfold rmAnonTuple at h
    split at h
    · cases h
    · rename_i s1 d1 e1 he
      split at h
      · cases h
      · rename_i s2 d2 es2 hr
        cases h
        intro s hs
        rcases List.mem_append.mp hs with hs | hs
        · exact rmAnonE_blocks tbl va e _ he s hs
        · exact rmAnonTuple_blocks tbl va r s2 d2 es2 hr s hs
end


theorem rmAnonEs_blocks (tbl : List TemplateSig) (va : Option Expr) :
    ∀ (es : Exprs) (r : Except Err AnonRes), r ∈ rmAnonEs tbl va es → ∀ res, r = .ok res →
      ∀ s, s ∈ res.1 → isBlock s = true
  | .nil, r, hr, _, _ => by
    unfold rmAnonEs at hr; cases hr
  | .cons e rest, r, hr, res, heq => by
    unfold rmAnonEs at hr
    rcases List.mem_cons.mp hr with hr | hr
    · subst heq
      exact rmAnonE_blocks tbl va e res hr.symm
    · exact rmAnonEs_blocks tbl va rest r hr res heq

/-- the value an anonymous component stands for: its outputs, in declaration order -/
def outValue (va : Option Expr) (m : Meta) (idAnon : String) (outputs : List String) : Expr :=
  match outputs with
  | [o] => .var m idAnon (Accs.ofList (acc0Of va ++ [.cmp o]))
  | os => .tuple m (Exprs.ofList (os.map (fun o => Expr.var m idAnon (Accs.ofList (acc0Of va ++ [.cmp o])))))

theorem lastCmp_acc0 (va : Option Expr) : lastCmp (acc0Of va) = none := by
  cases va <;> simp [acc0Of, lastCmp]

theorem anonBody_shape (tbl : List TemplateSig) (va : Option Expr) (m : Meta) (label id : String)
    (params : Exprs) (names : Option (List (Op × String))) (par : Bool) (n : Nat)
    (rs : List (Except Err AnonRes)) (res : AnonRes)
    (hrs : ∀ r, r ∈ rs → ∀ res, r = .ok res → ∀ s, s ∈ res.1 → isBlock s = true)
    (h : anonBody tbl va m label id params names par n rs = .ok res) :
    ∃ t plan seq, lookupT tbl id = some t ∧ inputPlan m t.inputs names n = .ok plan ∧
      res.1 = [.block m (Stmts.ofList seq)] ∧
      directSubs seq = (id ++ "#" ++ label, none, Op.var) ::
        plan.map (fun p => (id ++ "#" ++ label, some p.1, p.2.2)) ∧
      res.2.2 = outValue va m (id ++ "#" ++ label) t.outputs := by
  unfold anonBody at h
  split at h
  · cases h
  · rename_i t ht
    simp only at h
    split at h
    · cases h
    · split at h
      · cases h
      · rename_i plan hplan
        split at h
        · cases h
        · rename_i seq decls hgo
          cases h
          refine ⟨t, plan, seq, ht, hplan, rfl, ?_, ?_⟩
          · have := go_order m rs (id ++ "#" ++ label) (acc0Of va) hrs plan _ _ seq decls hgo
            rw [this]
            cases va <;> simp [directSubs, lastCmp, Accs.ofList, Accs.toList]
          · unfold outValue acc0Of
            show (match t.outputs with | [o] => _ | os => _) = _
            split <;> rfl


def unreachableMsg (msg : String) : Bool := msg == "unreachable: anonymous component after removal"

/-! the error of the tuple removal is never the `unreachable!()` of `remove_tuple_from_expression` when
    the input contains no anonymous component -/
mutual
theorem rmTupE_err : ∀ (e : Expr) (err : Err), rmTupE e = .error err → hasE false e = false → unreachableMsg err.2 = false
  | .arr m vs, err, h, _ => by
    unfold rmTupE at h
    split at h
    · cases h; dsimp only; decide
    · cases h
  | .num m n, err, h, _ => by unfold rmTupE at h; cases h
  | .var m n acc, err, h, _ => by
    unfold rmTupE at h
    split at h
    · cases h; dsimp only; decide
    · cases h
  | .infix m op l r, err, h, _ => by
    unfold rmTupE at h
    split at h
    · cases h; dsimp only; decide
    · cases h
  | .prefix m op e, err, h, _ => by
    unfold rmTupE at h
    split at h
    · cases h; dsimp only; decide
    · cases h
  | .switch m c t f, err, h, _ => by
    unfold rmTupE at h
    split at h
    · cases h; dsimp only; decide
    · cases h
  | .call m i args, err, h, _ => by
    unfold rmTupE at h
    split at h
    · cases h; dsimp only; decide
    · cases h
  | .anon m _ _ _ _ _ _, err, h, ha => by simp [hasE] at ha
  | .tuple m vs, err, h, ha => by
    unfold rmTupE at h
    split at h
    · rename_i e' he
      cases h
      exact rmTupEs_err vs _ he (by simpa [hasE] using ha)
    · cases h
  | .par m e, err, h, _ => by
    unfold rmTupE at h
    split at h
    · cases h; dsimp only; decide
    · cases h
theorem rmTupEs_err : ∀ (es : Exprs) (err : Err), rmTupEs es = .error err → hasEs false es = false → unreachableMsg err.2 = false
  | .nil, err, h, _ => by unfold rmTupEs at h; cases h
  | .cons e r, err, h, ha => by
    unfold rmTupEs at h
    simp only [hasEs, Bool.or_eq_false_iff] at ha
    split at h
    · rename_i e1 he
      cases h
      exact rmTupE_err e _ he ha.1
    · split at h
      · rename_i e2 hr
        cases h
        exact rmTupEs_err r _ hr ha.2
      · split at h <;> cases h
end

mutual
theorem rmTupS_err : ∀ (s : Stmt) (err : Err), rmTupS s = .error err → hasS false s = false → unreachableMsg err.2 = false
  | .msub m l op r, err, h, ha => by
    unfold rmTupS at h
    simp only [hasS, Bool.or_eq_false_iff] at ha
    split at h
    · rename_i e1 he
      cases h
      exact rmTupE_err l _ he ha.1
    · split at h
      · rename_i e1 he
        cases h
        exact rmTupE_err r _ he ha.2
      · split at h
        · split at h
          · split at h
            · cases h
            · cases h; dsimp only; decide
          · split at h
            · cases h; dsimp only; decide
            · cases h; dsimp only; decide
        · split at h
          · cases h; dsimp only; decide
          · cases h; dsimp only; decide
  | .ite m c t e, err, h, ha => by
    unfold rmTupS at h
    simp only [hasS, Bool.or_eq_false_iff] at ha
    split at h
    · cases h; dsimp only; decide
    · split at h
      · rename_i e1 he
        cases h
        exact rmTupS_err t _ he ha.1.2
      · split at h
        · rename_i e1 he
          cases h
          exact rmTupO_err e _ he ha.2
        · cases h
  | .while_ m label c b, err, h, ha => by
    unfold rmTupS at h
    simp only [hasS, Bool.or_eq_false_iff] at ha
    split at h
    · cases h; dsimp only; decide
    · split at h
      · rename_i e1 he
        cases h
        exact rmTupS_err b _ he ha.2
      · cases h
  | .log m args, err, h, _ => by
    unfold rmTupS at h
    simp only at h
    split at h
    · cases h; dsimp only; decide
    · cases h
  | .assert m e, err, h, _ => by
    unfold rmTupS at h
    split at h
    · cases h; dsimp only; decide
    · cases h
  | .ret m e, err, h, _ => by
    unfold rmTupS at h
    split at h
    · cases h; dsimp only; decide
    · cases h
  | .ceq m l r, err, h, _ => by
    unfold rmTupS at h
    split at h
    · cases h; dsimp only; decide
    · cases h
  | .decl m xt n dims, err, h, _ => by
    unfold rmTupS at h
    split at h
    · cases h; dsimp only; decide
    · cases h
  | .init m xt is, err, h, ha => by
    unfold rmTupS at h
    split at h
    · rename_i e1 he
      cases h
      exact rmTupSs_err is _ he (by simpa [hasS] using ha)
    · cases h
  | .block m ss, err, h, ha => by
    unfold rmTupS at h
    split at h
    · rename_i e1 he
      cases h
      exact rmTupSs_err ss _ he (by simpa [hasS] using ha)
    · cases h
  | .sub m v acc op r, err, h, ha => by
    unfold rmTupS at h
    simp only [hasS, Bool.or_eq_false_iff] at ha
    split at h
    · rename_i e1 he
      cases h
      exact rmTupE_err r _ he ha.2
    · split at h
      · cases h; dsimp only; decide
      · split at h
        · cases h; dsimp only; decide
        · split at h <;> cases h
theorem rmTupSs_err : ∀ (ss : Stmts) (err : Err), rmTupSs ss = .error err → hasSs false ss = false → unreachableMsg err.2 = false
  | .nil, err, h, _ => by unfold rmTupSs at h; cases h
  | .cons s r, err, h, ha => by
    unfold rmTupSs at h
    simp only [hasSs, Bool.or_eq_false_iff] at ha
    split at h
    · rename_i e1 he
      cases h
      exact rmTupS_err s _ he ha.1
    · split at h
      · rename_i e1 he
        cases h
        exact rmTupSs_err r _ he ha.2
      · cases h
theorem rmTupO_err : ∀ (o : OptStmt) (err : Err), rmTupO o = .error err → hasO false o = false → unreachableMsg err.2 = false
  | .none, err, h, _ => by unfold rmTupO at h; cases h
  | .some s, err, h, ha => by
    unfold rmTupO at h
    split at h
    · rename_i e1 he
      cases h
      exact rmTupS_err s _ he (by simpa [hasO] using ha)
    · cases h
end


def declOk (d : Stmt) : Bool := isVarDecl d || isCompDecl d || isSub d

theorem go_decls (m : Meta) (rs : List (Except Err AnonRes)) (idAnon : String) (acc0 : List Acc)
    (hrs : ∀ r, r ∈ rs → ∀ res, r = .ok res → ∀ d, d ∈ res.2.1 → declOk d = true) :
    ∀ (plan : List (String × Nat × Op)) (seq decls seq' decls' : List Stmt),
      anonBody.go m rs idAnon acc0 plan seq decls = .ok (seq', decls') →
      (∀ d, d ∈ decls → declOk d = true) → ∀ d, d ∈ decls' → declOk d = true := by
  intro plan
  induction plan with
  | nil =>
    intro seq decls seq' decls' h hd
    unfold anonBody.go at h
    cases h
    exact hd
  | cons p rest ih =>
    intro seq decls seq' decls' h hd
    obtain ⟨inp, pos, op⟩ := p
    unfold anonBody.go at h
    split at h
    · cases h
    · cases h
    · rename_i stmts ndecls e' hget
      split at h
      · cases h
      · have hmem : (Except.ok (stmts, ndecls, e') : Except Err AnonRes) ∈ rs := List.mem_of_getElem? hget
        apply ih _ _ _ _ h
        intro d hd'
        rcases List.mem_append.mp hd' with hd' | hd'
        · exact hd d hd'
        · exact hrs _ hmem _ rfl d hd'

theorem anonBody_decls (tbl : List TemplateSig) (va : Option Expr) (m : Meta) (label id : String)
    (params : Exprs) (names : Option (List (Op × String))) (par : Bool) (n : Nat)
    (rs : List (Except Err AnonRes)) (res : AnonRes)
    (hrs : ∀ r, r ∈ rs → ∀ res, r = .ok res → ∀ d, d ∈ res.2.1 → declOk d = true)
    (h : anonBody tbl va m label id params names par n rs = .ok res) : ∀ d, d ∈ res.2.1 → declOk d = true := by
  unfold anonBody at h
  split at h
  · cases h
  · simp only at h
    split at h
    · cases h
    · split at h
      · cases h
      · rename_i plan hplan
        split at h
        · cases h
        · rename_i seq decls hgo
          cases h
          apply go_decls m rs _ _ hrs plan _ _ seq decls hgo
          intro d hd
          have : d = _ := List.mem_singleton.mp hd
          subst this
          cases va <;> rfl

mutual
theorem rmAnonE_decls (tbl : List TemplateSig) (va : Option Expr) :
    ∀ (e : Expr) (res : AnonRes), rmAnonE tbl va e = .ok res → ∀ d, d ∈ res.2.1 → declOk d = true
  | .arr m vs, res, h => by
    unfold rmAnonE at h
    split at h
    · cases h
    · cases h; intro d hd; cases hd
  | .num m n, res, h => by
    unfold rmAnonE at h; cases h; intro d hd; cases hd
  | .var m n acc, res, h => by
    unfold rmAnonE at h
    split at h
    · cases h
    · cases h; intro d hd; cases hd
  | .infix m op l r, res, h => by
    unfold rmAnonE at h
    split at h
    · cases h
    · cases h; intro d hd; cases hd
  | .prefix m op e, res, h => by
    unfold rmAnonE at h
    split at h
    · cases h
    · cases h; intro d hd; cases hd
  | .switch m c t f, res, h => by
    unfold rmAnonE at h
    split at h
    · cases h
    · cases h; intro d hd; cases hd
  | .call m i args, res, h => by
    unfold rmAnonE at h
    split at h
    · cases h
    · cases h; intro d hd; cases hd
  | .anon m label i ps ss names par, res, h => by
    unfold rmAnonE at h
    exact anonBody_decls tbl va m label i ps names par _ _ res (rmAnonEs_decls tbl va ss) h
  | .tuple m vs, res, h => by
    unfold rmAnonE at h
    split at h
    · cases h
    · rename_i stmts decls vals hv
      cases h
      exact rmAnonTuple_decls tbl va vs stmts decls vals hv
  | .par m e, res, h => by
    unfold rmAnonE at h
    exact rmAnonPar_decls tbl va m e res h
theorem rmAnonPar_decls (tbl : List TemplateSig) (va : Option Expr) (m : Meta) :
    ∀ (e : Expr) (res : AnonRes), rmAnonPar tbl va m e = .ok res → ∀ d, d ∈ res.2.1 → declOk d = true
  | .anon m2 label i ps ss names p0, res, h => by
    unfold rmAnonPar at h
    exact anonBody_decls tbl va m2 label i ps names true _ _ res (rmAnonEs_decls tbl va ss) h
  | .call m2 i args, res, h => by
    unfold rmAnonPar at h
    split at h
    · cases h
    · cases h; intro d hd; cases hd
  | .infix a b c d', res, h => by
    unfold rmAnonPar at h
    split at h
    · cases h
    · cases h; intro d hd; cases hd
  | .prefix a b c, res, h => by
    unfold rmAnonPar at h
    split at h
    · cases h
    · cases h; intro d hd; cases hd
  | .switch a b c d', res, h => by
    unfold rmAnonPar at h
    split at h
    · cases h
    · cases h; intro d hd; cases hd
  | .var a b c, res, h => by
    unfold rmAnonPar at h
    split at h
    · cases h
    · cases h; intro d hd; cases hd
  | .num a b, res, h => by
    unfold rmAnonPar at h
    split at h
    · cases h
    · cases h; intro d hd; cases hd
  | .arr a b, res, h => by
    unfold rmAnonPar at h
    split at h
    · cases h
    · cases h; intro d hd; cases hd
  | .tuple a b, res, h => by
    unfold rmAnonPar at h
    split at h
    · cases h
    · cases h; intro d hd; cases hd
  | .par a b, res, h => by
    unfold rmAnonPar at h
    split at h
    · cases h
    · cases h; intro d hd; cases hd
theorem rmAnonEs_decls (tbl : List TemplateSig) (va : Option Expr) :
    ∀ (es : Exprs) (r : Except Err AnonRes), r ∈ rmAnonEs tbl va es → ∀ res, r = .ok res →
      ∀ d, d ∈ res.2.1 → declOk d = true
  | .nil, r, hr, _, _ => by
    unfold rmAnonEs at hr; cases hr
  | .cons e rest, r, hr, res, heq => by
    unfold rmAnonEs at hr
    rcases List.mem_cons.mp hr with hr | hr
    · subst heq
      exact rmAnonE_decls tbl va e res hr.symm
    · exact rmAnonEs_decls tbl va rest r hr res heq
theorem rmAnonTuple_decls (tbl : List TemplateSig) (va : Option Expr) :
    ∀ (es : Exprs) (stmts decls : List Stmt) (vals : List Expr),
      rmAnonTuple tbl va es = .ok (stmts, decls, vals) → ∀ d, d ∈ decls → declOk d = true
  | .nil, stmts, decls, vals, h => by
    unfold rmAnonTuple at h; cases h; intro d hd; cases hd
  | .cons e r, stmts, decls, vals, h => by
    unfold rmAnonTuple at h
    split at h
    · cases h
    · rename_i s1 d1 e1 he
      split at h
      · cases h
      · rename_i s2 d2 es2 hr
        cases h
        intro d hd
        rcases List.mem_append.mp hd with hd | hd
        · exact rmAnonE_decls tbl va e _ he d hd
        · exact rmAnonTuple_decls tbl va r s2 d2 es2 hr d hd
end

mutual
theorem rmAnonS_decls (tbl : List TemplateSig) :
    ∀ (s : Stmt) (va : Option Expr) (s' : Stmt) (decls : List Stmt), rmAnonS tbl va s = .ok (s', decls) →
      ∀ d, d ∈ decls → declOk d = true
  | .msub m l op r, va, s', decls, h => by
    unfold rmAnonS at h
    split at h
    · cases h
    · split at h
      · cases h
      · rename_i stmts dd r' hr
        have := rmAnonE_decls tbl va r _ hr
        cases h
        exact this
  | .ite m c t e, va, s', decls, h => by
    unfold rmAnonS at h
    split at h
    · cases h
    · split at h
      · cases h
      · rename_i t' d1 ht
        split at h
        · cases h
        · rename_i e' d2 he
          have h1 := rmAnonS_decls tbl t va t' d1 ht
          have h2 := rmAnonO_decls tbl e va e' d2 he
          cases h
          intro d hd
          rcases List.mem_append.mp hd with hd | hd
          · exact h1 d hd
          · exact h2 d hd
  | .while_ m label c b, va, s', decls, h => by
    unfold rmAnonS at h
    split at h
    · cases h
    · simp only at h
      split at h
      · cases h
      · rename_i b' nd hb
        have h1 := rmAnonS_decls tbl b _ b' nd hb
        split at h
        · cases h; intro d hd; cases hd
        · cases h
          intro d hd
          rcases List.mem_append.mp hd with hd | hd
          · rcases List.mem_cons.mp hd with hd | hd
            · subst hd; rfl
            · have : d = _ := List.mem_singleton.mp hd
              subst this; rfl
          · exact h1 d hd
  | .log m args, va, s', decls, h => by
    unfold rmAnonS at h
    split at h
    · cases h
    · cases h; intro d hd; cases hd
  | .assert m e, va, s', decls, h => by
    unfold rmAnonS at h
    split at h
    · cases h
    · cases h; intro d hd; cases hd
  | .ret m e, va, s', decls, h => by
    unfold rmAnonS at h
    split at h
    · cases h
    · cases h; intro d hd; cases hd
  | .ceq m l r, va, s', decls, h => by
    unfold rmAnonS at h
    split at h
    · cases h
    · cases h; intro d hd; cases hd
  | .decl m xt n dims, va, s', decls, h => by
    unfold rmAnonS at h
    split at h
    · cases h
    · cases h; intro d hd; cases hd
  | .init m xt is, va, s', decls, h => by
    unfold rmAnonS at h
    split at h
    · cases h
    · rename_i is' dd hi
      have := rmAnonSs_decls tbl is va is' dd hi
      cases h
      exact this
  | .block m ss, va, s', decls, h => by
    unfold rmAnonS at h
    split at h
    · cases h
    · rename_i ss' dd hi
      have := rmAnonSs_decls tbl ss va ss' dd hi
      cases h
      exact this
  | .sub m v acc op r, va, s', decls, h => by
    unfold rmAnonS at h
    split at h
    · cases h
    · split at h
      · cases h
      · rename_i stmts dd r' hr
        have := rmAnonE_decls tbl va r _ hr
        cases h
        exact this
theorem rmAnonSs_decls (tbl : List TemplateSig) :
    ∀ (ss : Stmts) (va : Option Expr) (ss' : Stmts) (decls : List Stmt), rmAnonSs tbl va ss = .ok (ss', decls) →
      ∀ d, d ∈ decls → declOk d = true
  | .nil, va, ss', decls, h => by
    unfold rmAnonSs at h; cases h; intro d hd; cases hd
  | .cons s r, va, ss', decls, h => by
    unfold rmAnonSs at h
    split at h
    · cases h
    · rename_i s1 d1 hs
      split at h
      · cases h
      · rename_i r1 d2 hr
        have h1 := rmAnonS_decls tbl s va s1 d1 hs
        have h2 := rmAnonSs_decls tbl r va r1 d2 hr
        cases h
        intro d hd
        rcases List.mem_append.mp hd with hd | hd
        · exact h1 d hd
        · exact h2 d hd
theorem rmAnonO_decls (tbl : List TemplateSig) :
    ∀ (o : OptStmt) (va : Option Expr) (o' : OptStmt) (decls : List Stmt), rmAnonO tbl va o = .ok (o', decls) →
      ∀ d, d ∈ decls → declOk d = true
  | .none, va, o', decls, h => by
    unfold rmAnonO at h; cases h; intro d hd; cases hd
  | .some s, va, o', decls, h => by
    unfold rmAnonO at h
    split at h
    · cases h
    · rename_i s1 d1 hs
      have h1 := rmAnonS_decls tbl s va s1 d1 hs
      cases h
      exact h1
end

theorem rmAnonS_block (tbl : List TemplateSig) (va : Option Expr) (m : Meta) (ss : Stmts) (s' : Stmt) (decls : List Stmt)
    (h : rmAnonS tbl va (.block m ss) = .ok (s', decls)) : ∃ ss', s' = .block m ss' := by
  unfold rmAnonS at h
  split at h
  · cases h
  · cases h
    exact ⟨_, rfl⟩

/-- the body handed to the tuple removal by `remove_syntactic_sugar` -/
def assembled (m : Meta) (stmts : Stmts) (decls : List Stmt) : Stmt :=
  .block m (Stmts.ofList ([Stmt.init m .local_ (Stmts.ofList (decls.filter isVarDecl))] ++ decls.filter isSub ++
    [Stmt.init m .component (Stmts.ofList (decls.filter isCompDecl))] ++ stmts.toList))

theorem assembled_anon_free (tbl : List TemplateSig) (body : Stmt) (m : Meta) (stmts : Stmts) (decls : List Stmt)
    (hr : rmAnonS tbl none body = .ok (.block m stmts, decls)) : hasS false (assembled m stmts decls) = false := by
  have hva : VaOk none := fun v hv => by cases hv
  have h1 := rmAnonS_spec tbl _ none _ decls hva hr
  have hstm : hasSs false stmts = false := by simpa [hasS] using h1.1
  unfold assembled
  simp only [hasS]
  apply (hasSs_ofList false _).mpr
  intro s hs
  simp only [List.append_assoc, List.mem_append, List.mem_cons, List.not_mem_nil, or_false] at hs
  rcases hs with hs | hs | hs | hs
  · subst hs
    simp only [hasS]
    exact (hasSs_ofList false _).mpr (fun d hd => h1.2 d (List.mem_filter.mp hd).1)
  · exact h1.2 s (List.mem_filter.mp hs).1
  · subst hs
    simp only [hasS]
    exact (hasSs_ofList false _).mpr (fun d hd => h1.2 d (List.mem_filter.mp hd).1)
  · exact (hasSs_toList false stmts).mp hstm s hs

/-- the tuple removal never reaches its `unreachable!()` on the output of the anonymous-component removal -/
theorem tuple_phase_no_unreachable (tbl : List TemplateSig) (body : Stmt) (m : Meta) (stmts : Stmts) (decls : List Stmt)
    (err : Err) (hr : rmAnonS tbl none body = .ok (.block m stmts, decls))
    (h : rmTupS (assembled m stmts decls) = .error err) : unreachableMsg err.2 = false :=
  rmTupS_err _ err h (assembled_anon_free tbl body m stmts decls hr)

end Circomspect.Desugar
