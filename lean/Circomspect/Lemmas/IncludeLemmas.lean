/-
Lemmas about the include work list (`Model/Includes.lean`): what one `add_include` does to the
state, what `take_next` returns, the loop invariant, and the termination measure.
-/
import Circomspect.Model.Includes

namespace Circomspect.Includes

/-- the unresolved includes of a file, with their positions -/
def unresolved (libs : List Lib) (f : File) : Nat → List Inc → List (File × Nat)
  | _, [] => []
  | idx, i :: r => (if resolve libs i = none then [(f, idx)] else []) ++ unresolved libs f (idx + 1) r

inductive Reach (fs : Fs) (inputs : List File) : File → Prop
  | input {f : File} : f ∈ inputs → Reach fs inputs f
  | inc {f g : File} {i : Inc} : Reach fs inputs f → i ∈ fs.incs f → resolve fs.libs i = some g →
      Reach fs inputs g

theorem contains_iff (l : List File) (x : File) : l.contains x = true ↔ x ∈ l := by
  simp

/-! ### one include -/

theorem addInclude_black (libs f st idx i) : (addInclude libs f st idx i).black = st.black := by
  unfold addInclude
  split
  · split <;> rfl
  · split <;> rfl

theorem addInclude_reads (libs f st idx i) : (addInclude libs f st idx i).reads = st.reads := by
  unfold addInclude
  split
  · split <;> rfl
  · split <;> rfl

theorem addInclude_stack_mono (libs f st idx i) :
    ∀ g, g ∈ st.stack → g ∈ (addInclude libs f st idx i).stack := by
  intro g hg
  unfold addInclude
  split
  · split
    · exact hg
    · exact List.mem_cons_of_mem _ hg
  · split
    · exact List.mem_cons_of_mem _ hg
    · exact hg

theorem addInclude_stack_sub (libs f st idx i) :
    ∀ g, g ∈ (addInclude libs f st idx i).stack → g ∈ st.stack ∨ resolve libs i = some g := by
  intro g
  unfold addInclude resolve
  split
  · rename_i p hp
    split
    · intro h; exact Or.inl h
    · intro h
      rcases List.mem_cons.mp h with h | h
      · right; rw [h]
      · exact Or.inl h
  · split
    · rename_i p hp
      intro h
      rcases List.mem_cons.mp h with h | h
      · right; rw [h, hp]
      · exact Or.inl h
    · intro h; exact Or.inl h

theorem addInclude_resolved (libs f st idx i) :
    ∀ g, resolve libs i = some g → g ∈ st.black ∨ g ∈ (addInclude libs f st idx i).stack := by
  intro g
  unfold addInclude resolve
  split
  · rename_i p hp
    intro h
    have : p = g := Option.some.inj h
    subst this
    split
    · rename_i hb
      exact Or.inl ((contains_iff _ _).mp hb)
    · exact Or.inr (List.mem_cons_self)
  · intro h
    rw [h]
    exact Or.inr (List.mem_cons_self)

theorem addInclude_errors (libs f st idx i) :
    (addInclude libs f st idx i).errors =
      st.errors ++ (if resolve libs i = none then [(f, idx)] else []) := by
  unfold addInclude resolve
  split
  · rename_i p hp
    have : (some p = none) = False := by simp
    split <;> simp
  · split
    · rename_i p hp
      simp [hp]
    · rename_i hp
      simp [hp]

/-! ### all includes of one file -/

theorem addIncludes_spec (libs : List Lib) (f : File) :
    ∀ (l : List Inc) (st : St) (idx : Nat),
      (addIncludes libs f st idx l).black = st.black ∧
      (addIncludes libs f st idx l).reads = st.reads ∧
      (∀ g, g ∈ st.stack → g ∈ (addIncludes libs f st idx l).stack) ∧
      (∀ g, g ∈ (addIncludes libs f st idx l).stack →
          g ∈ st.stack ∨ ∃ i, i ∈ l ∧ resolve libs i = some g) ∧
      (∀ i, i ∈ l → ∀ g, resolve libs i = some g →
          g ∈ st.black ∨ g ∈ (addIncludes libs f st idx l).stack) ∧
      (addIncludes libs f st idx l).errors = st.errors ++ unresolved libs f idx l := by
  intro l
  induction l with
  | nil =>
    intro st idx
    refine ⟨rfl, rfl, fun _ h => h, fun _ h => Or.inl h, ?_, ?_⟩
    · intro i hi; cases hi
    · simp [addIncludes, unresolved]
  | cons i r ih =>
    intro st idx
    have h := ih (addInclude libs f st idx i) (idx + 1)
    obtain ⟨hb, hr, hm, hs, hres, he⟩ := h
    refine ⟨?_, ?_, ?_, ?_, ?_, ?_⟩
    · show (addIncludes libs f (addInclude libs f st idx i) (idx + 1) r).black = _
      rw [hb, addInclude_black]
    · show (addIncludes libs f (addInclude libs f st idx i) (idx + 1) r).reads = _
      rw [hr, addInclude_reads]
    · intro g hg
      exact hm g (addInclude_stack_mono libs f st idx i g hg)
    · intro g hg
      rcases hs g hg with h | ⟨j, hj, hjr⟩
      · rcases addInclude_stack_sub libs f st idx i g h with h | h
        · exact Or.inl h
        · exact Or.inr ⟨i, List.mem_cons_self, h⟩
      · exact Or.inr ⟨j, List.mem_cons_of_mem _ hj, hjr⟩
    · intro j hj g hg
      rcases List.mem_cons.mp hj with hj | hj
      · subst hj
        rcases addInclude_resolved libs f st idx j g hg with h | h
        · exact Or.inl h
        · exact Or.inr (hm g h)
      · rcases hres j hj g hg with h | h
        · rw [addInclude_black] at h; exact Or.inl h
        · exact Or.inr h
    · show (addIncludes libs f (addInclude libs f st idx i) (idx + 1) r).errors = _
      rw [he, addInclude_errors]
      simp [unresolved, List.append_assoc]

/-! ### take_next -/

theorem takeNext_some (black : List File) :
    ∀ (stack : List File) (f : File) (r : List File), takeNext black stack = some (f, r) →
      f ∉ black ∧ f ∈ stack ∧ (∀ g, g ∈ r → g ∈ stack) ∧
      (∀ g, g ∈ stack → g ∈ black ∨ g = f ∨ g ∈ r) := by
  intro stack
  induction stack with
  | nil => intro f r h; simp [takeNext] at h
  | cons a t ih =>
    intro f r h
    unfold takeNext at h
    split at h
    · rename_i hb
      obtain ⟨h1, h2, h3, h4⟩ := ih f r h
      refine ⟨h1, List.mem_cons_of_mem _ h2, fun g hg => List.mem_cons_of_mem _ (h3 g hg), ?_⟩
      intro g hg
      rcases List.mem_cons.mp hg with hg | hg
      · subst hg; exact Or.inl ((contains_iff _ _).mp hb)
      · exact h4 g hg
    · rename_i hb
      have := Option.some.inj h
      have hf : a = f := congrArg Prod.fst this
      have hr : t = r := congrArg Prod.snd this
      subst hf; subst hr
      refine ⟨?_, List.mem_cons_self, fun g hg => List.mem_cons_of_mem _ hg, ?_⟩
      · intro hc; exact hb ((contains_iff _ _).mpr hc)
      · intro g hg
        rcases List.mem_cons.mp hg with hg | hg
        · exact Or.inr (Or.inl hg)
        · exact Or.inr (Or.inr hg)

theorem takeNext_none (black : List File) :
    ∀ (stack : List File), takeNext black stack = none → ∀ g, g ∈ stack → g ∈ black := by
  intro stack
  induction stack with
  | nil => intro _ g hg; cases hg
  | cons a t ih =>
    intro h g hg
    unfold takeNext at h
    split at h
    · rename_i hb
      rcases List.mem_cons.mp hg with hg | hg
      · subst hg; exact (contains_iff _ _).mp hb
      · exact ih h g hg
    · cases h

/-! ### the loop invariant -/

structure Inv (fs : Fs) (inputs : List File) (st : St) : Prop where
  readsNodup : st.reads.Nodup
  readsBlack : ∀ f, f ∈ st.reads ↔ f ∈ st.black
  closed : ∀ f, f ∈ st.reads → ∀ i, i ∈ fs.incs f → ∀ g, resolve fs.libs i = some g →
      g ∈ st.black ∨ g ∈ st.stack
  inputsIn : ∀ f, f ∈ inputs → f ∈ st.black ∨ f ∈ st.stack
  reach : ∀ g, (g ∈ st.black ∨ g ∈ st.stack) → Reach fs inputs g
  errors : st.errors = st.reads.flatMap (fun f => unresolved fs.libs f 0 (fs.incs f))

theorem inv_init (fs : Fs) (inputs : List File) : Inv fs inputs (init inputs) := by
  refine ⟨List.nodup_nil, ?_, ?_, ?_, ?_, rfl⟩
  · intro f; simp [init]
  · intro f hf; cases hf
  · intro f hf; right; simpa [init] using hf
  · intro g hg
    rcases hg with hg | hg
    · cases hg
    · exact Reach.input (by simpa [init] using hg)

theorem inv_step (fs : Fs) (inputs : List File) (st st' : St) (h : step fs st = some st')
    (inv : Inv fs inputs st) : Inv fs inputs st' := by
  unfold step at h
  split at h
  · cases h
  · rename_i f r htn
    have hst' := Option.some.inj h
    obtain ⟨hnb, hfs, hrs, hcases⟩ := takeNext_some st.black st.stack f r htn
    have spec := addIncludes_spec fs.libs f (fs.incs f)
      { st with stack := r, black := f :: st.black, reads := st.reads ++ [f] } 0
    rw [hst'] at spec
    obtain ⟨hb, hr, hm, hs, hres, he⟩ := spec
    simp only at hb hr hm hs hres he
    have hnr : f ∉ st.reads := fun hc => hnb ((inv.readsBlack f).mp hc)
    refine ⟨?_, ?_, ?_, ?_, ?_, ?_⟩
    · rw [hr]
      exact List.nodup_append.mpr ⟨inv.readsNodup, (by simp), by
        intro a ha b hb2
        have : b = f := by simpa using hb2
        intro e; subst e; subst this; exact hnr ha⟩
    · intro x
      rw [hr, hb]
      simp only [List.mem_append, List.mem_cons, List.not_mem_nil, or_false]
      constructor
      · intro hx
        rcases hx with hx | hx
        · exact Or.inr ((inv.readsBlack x).mp hx)
        · exact Or.inl hx
      · intro hx
        rcases hx with hx | hx
        · exact Or.inr hx
        · exact Or.inl ((inv.readsBlack x).mpr hx)
    · intro x hx i hi g hg
      rw [hr] at hx
      rw [hb]
      rcases List.mem_append.mp hx with hx | hx
      · rcases inv.closed x hx i hi g hg with h1 | h1
        · exact Or.inl (List.mem_cons_of_mem _ h1)
        · rcases hcases g h1 with h2 | h2 | h2
          · exact Or.inl (List.mem_cons_of_mem _ h2)
          · subst h2; exact Or.inl List.mem_cons_self
          · exact Or.inr (hm g h2)
      · have : x = f := by simpa using hx
        subst this
        rcases hres i hi g hg with h1 | h1
        · exact Or.inl h1
        · exact Or.inr h1
    · intro x hx
      rw [hb]
      rcases inv.inputsIn x hx with h1 | h1
      · exact Or.inl (List.mem_cons_of_mem _ h1)
      · rcases hcases x h1 with h2 | h2 | h2
        · exact Or.inl (List.mem_cons_of_mem _ h2)
        · subst h2; exact Or.inl List.mem_cons_self
        · exact Or.inr (hm x h2)
    · intro g hg
      rw [hb] at hg
      have hf : Reach fs inputs f := inv.reach f (Or.inr hfs)
      rcases hg with hg | hg
      · rcases List.mem_cons.mp hg with hg | hg
        · subst hg; exact hf
        · exact inv.reach g (Or.inl hg)
      · rcases hs g hg with h1 | ⟨i, hi, hir⟩
        · exact inv.reach g (Or.inr (hrs g h1))
        · exact Reach.inc hf hi hir
    · rw [he, hr, inv.errors]
      simp [List.flatMap_append]

theorem inv_stop (fs : Fs) (inputs : List File) (st : St) (h : step fs st = none)
    (inv : Inv fs inputs st) : Inv fs inputs { st with stack := [] } := by
  unfold step at h
  split at h
  · rename_i htn
    have hall := takeNext_none st.black st.stack htn
    refine ⟨inv.readsNodup, inv.readsBlack, ?_, ?_, ?_, inv.errors⟩
    · intro f hf i hi g hg
      rcases inv.closed f hf i hi g hg with h1 | h1
      · exact Or.inl h1
      · exact Or.inl (hall g h1)
    · intro f hf
      rcases inv.inputsIn f hf with h1 | h1
      · exact Or.inl h1
      · exact Or.inl (hall f h1)
    · intro g hg
      rcases hg with hg | hg
      · exact inv.reach g (Or.inl hg)
      · cases hg
  · cases h

theorem inv_run (fs : Fs) (inputs : List File) :
    ∀ (k : Nat) (st : St), Inv fs inputs st → Inv fs inputs (run fs k st) := by
  intro k
  induction k with
  | zero => intro st inv; exact inv
  | succ k ih =>
    intro st inv
    unfold run
    split
    · rename_i h; exact inv_stop fs inputs st h inv
    · rename_i st' h; exact ih st' (inv_step fs inputs st st' h inv)

/-! ### termination -/

theorem filter_length_le {α : Type} (p q : α → Bool) (hpq : ∀ x, q x = true → p x = true) :
    ∀ l : List α, (l.filter q).length ≤ (l.filter p).length := by
  intro l
  induction l with
  | nil => exact Nat.le_refl _
  | cons b t ih =>
    simp only [List.filter_cons]
    cases hq : q b with
    | true =>
      rw [hpq b hq]
      simp only [if_true, List.length_cons]
      omega
    | false =>
      cases hp : p b with
      | true => simp only [if_true, Bool.false_eq_true, if_false, List.length_cons]; omega
      | false => simp only [Bool.false_eq_true, if_false]; exact ih

theorem filter_length_lt {α : Type} (p q : α → Bool) (hpq : ∀ x, q x = true → p x = true)
    (a : α) (hp : p a = true) (hq : q a = false) :
    ∀ l : List α, a ∈ l → (l.filter q).length < (l.filter p).length := by
  intro l
  induction l with
  | nil => intro h; cases h
  | cons b t ih =>
    intro h
    simp only [List.filter_cons]
    rcases List.mem_cons.mp h with h | h
    · subst h
      rw [hp, hq]
      simp only [if_true, Bool.false_eq_true, if_false, List.length_cons]
      have := filter_length_le p q hpq t
      omega
    · have := ih h
      cases hq2 : q b with
      | true =>
        rw [hpq b hq2]
        simp only [if_true, List.length_cons]
        omega
      | false =>
        cases hp2 : p b with
        | true => simp only [if_true, Bool.false_eq_true, if_false, List.length_cons]; omega
        | false => simp only [Bool.false_eq_true, if_false]; exact this

def meas (fs : Fs) (st : St) : Nat :=
  ((List.range fs.n).filter (fun x => !st.black.contains x)).length

def Bnd (fs : Fs) (st : St) : Prop := ∀ g, (g ∈ st.black ∨ g ∈ st.stack) → g < fs.n

theorem lookup_mem {α : Type} (k : Nat) : ∀ (es : List (Nat × α)) (v : α), es.lookup k = some v → (k, v) ∈ es := by
  intro es
  induction es with
  | nil => intro v h; simp [List.lookup] at h
  | cons e t ih =>
    intro v h
    obtain ⟨a, b⟩ := e
    rw [List.lookup_cons] at h
    split at h
    · rename_i hk
      have hk' : k = a := by simpa using hk
      have : b = v := Option.some.inj h
      subst this; subst hk'
      exact List.mem_cons_self
    · exact List.mem_cons_of_mem _ (ih v h)

theorem libLookup_wf (n : Nat) (i : Inc) : ∀ (libs : List Lib), libs.all (libWf n) = true →
    ∀ g, libLookup i libs = some g → g < n := by
  intro libs
  induction libs with
  | nil => intro _ g h; simp [libLookup] at h
  | cons l r ih =>
    intro hw g h
    rw [List.all_cons, Bool.and_eq_true] at hw
    cases l with
    | dir es =>
      unfold libLookup at h
      split at h
      · rename_i f hf
        have : f = g := Option.some.inj h
        subst this
        have hm := lookup_mem i.key es f hf
        have := hw.1
        unfold libWf at this
        have := (List.all_eq_true.mp this) _ hm
        simpa using this
      · exact ih hw.2 g h
    | file t nm =>
      unfold libLookup at h
      split at h
      · have : t = g := Option.some.inj h
        subst this
        have := hw.1
        unfold libWf at this
        simpa using this
      · exact ih hw.2 g h

theorem resolve_wf (fs : Fs) (inputs : List File) (hw : fs.wf inputs = true) (f : File) (i : Inc)
    (hi : i ∈ fs.incs f) (g : File) (hg : resolve fs.libs i = some g) : g < fs.n := by
  unfold Fs.wf at hw
  rw [Bool.and_eq_true, Bool.and_eq_true] at hw
  obtain ⟨⟨hf, hl⟩, _⟩ := hw
  unfold resolve at hg
  split at hg
  · rename_i p hp
    have : p = g := Option.some.inj hg
    subst this
    unfold Fs.incs at hi
    split at hi
    · rename_i info hinfo
      split at hi
      · have hmem : info ∈ fs.files := List.mem_of_getElem? hinfo
        have h1 := (List.all_eq_true.mp hf) info hmem
        have h2 := (List.all_eq_true.mp h1) i hi
        unfold incWf at h2
        rw [hp] at h2
        simpa using h2
      · cases hi
    · cases hi
  · exact libLookup_wf fs.n i fs.libs hl g hg

theorem bnd_init (fs : Fs) (inputs : List File) (hw : fs.wf inputs = true) : Bnd fs (init inputs) := by
  intro g hg
  unfold Fs.wf at hw
  rw [Bool.and_eq_true] at hw
  rcases hg with hg | hg
  · cases hg
  · have : g ∈ inputs := by simpa [init] using hg
    have := (List.all_eq_true.mp hw.2) g this
    simpa using this

theorem bnd_step (fs : Fs) (inputs : List File) (hw : fs.wf inputs = true) (st st' : St)
    (h : step fs st = some st') (b : Bnd fs st) : Bnd fs st' ∧ meas fs st' < meas fs st := by
  unfold step at h
  split at h
  · cases h
  · rename_i f r htn
    have hst' := Option.some.inj h
    obtain ⟨hnb, hfs, hrs, hcases⟩ := takeNext_some st.black st.stack f r htn
    have spec := addIncludes_spec fs.libs f (fs.incs f)
      { st with stack := r, black := f :: st.black, reads := st.reads ++ [f] } 0
    rw [hst'] at spec
    obtain ⟨hb, hr, hm, hs, hres, he⟩ := spec
    simp only at hb hr hm hs hres he
    have hfn : f < fs.n := b f (Or.inr hfs)
    constructor
    · intro g hg
      rw [hb] at hg
      rcases hg with hg | hg
      · rcases List.mem_cons.mp hg with hg | hg
        · subst hg; exact hfn
        · exact b g (Or.inl hg)
      · rcases hs g hg with h1 | ⟨i, hi, hir⟩
        · exact b g (Or.inr (hrs g h1))
        · exact resolve_wf fs inputs hw f i hi g hir
    · unfold meas
      rw [hb]
      apply filter_length_lt _ _ _ f
      · simpa using hnb
      · simp
      · exact List.mem_range.mpr hfn
      · intro x hx
        simp only [List.contains_cons, Bool.not_eq_true', Bool.or_eq_false_iff] at hx
        simpa using hx.2

theorem run_terminates (fs : Fs) (inputs : List File) (hw : fs.wf inputs = true) :
    ∀ (k : Nat) (st : St), Bnd fs st → meas fs st < k →
      (run fs k st).stack = [] ∧ ∀ j, run fs (k + j) st = run fs k st := by
  intro k
  induction k with
  | zero => intro st _ h; omega
  | succ k ih =>
    intro st b hm
    cases hs : step fs st with
    | none =>
      constructor
      · unfold run; rw [hs]
      · intro j
        have : k + 1 + j = (k + j) + 1 := by omega
        rw [this]
        unfold run; rw [hs]
    | some st' =>
      obtain ⟨b', hlt⟩ := bnd_step fs inputs hw st st' hs b
      have := ih st' b' (by omega)
      constructor
      · unfold run; rw [hs]; exact this.1
      · intro j
        have e : k + 1 + j = (k + j) + 1 := by omega
        rw [e]
        show (match step fs st with | none => _ | some st' => run fs (k + j) st') = (match step fs st with | none => _ | some st' => run fs k st')
        rw [hs]
        exact this.2 j

theorem meas_le (fs : Fs) (st : St) : meas fs st ≤ fs.n := by
  unfold meas
  have := List.length_filter_le (fun x => !st.black.contains x) (List.range fs.n)
  simpa using this

end Circomspect.Includes
