/-
Why a range check in a dominating block covers a later use of the same SSA expression (`find_unconstrained_less_than` since the
repair of the same-block rule): on every path to the use, after the last visit of the checking block none of the blocks that define
a variable the expression reads is visited again — so the expression has, at the use, the value that was checked.
-/
import Circomspect.Lemmas.DominatorLemmas

namespace Circomspect.DomCheck
open Circomspect Graph DominatorLemmas

/-- the part of a path from an intermediate node down to the entry is a path to that node -/
theorem suffix_path {g : Graph} : ∀ (front : List Nat) (x : Nat) (back : List Nat) (i : Nat),
    Path g i (front ++ x :: back) → Path g x (x :: back) := by
  intro front
  induction front with
  | nil =>
    intro x back i h
    simp only [List.nil_append] at h
    obtain ⟨t, e⟩ := path_cons h
    injection e with e1 _
    subst e1; exact h
  | cons f front ih =>
    intro x back i h
    simp only [List.cons_append] at h
    rcases path_inv h with ⟨_, e⟩ | ⟨j, t, e, hj, _, _⟩
    · injection e with _ e2
      have : (front ++ x :: back).length = 0 := by rw [e2]; rfl
      simp at this
    · injection e with _ e2
      subst e2
      exact ih x back j hj

/-- a node that is dominated by `d` (and is not `d`) can be avoided on the way to `d` -/
theorem avoid {g : Graph} {d b : Nat} (hd : Dom g d b) (hne : d ≠ b) :
    ∀ n (ρ : List Nat), ρ.length ≤ n → Path g d ρ → ∃ ρ', Path g d ρ' ∧ b ∉ ρ' := by
  intro n
  induction n with
  | zero =>
    intro ρ hl hρ
    obtain ⟨t, e⟩ := path_cons hρ
    subst e; simp at hl
  | succ n ih =>
    intro ρ hl hρ
    by_cases hb : b ∈ ρ
    · obtain ⟨π1, hp1, _, _, hlt1⟩ := subpath hρ b hb
      obtain ⟨π2, hp2, _, _, hlt2⟩ := subpath hp1 d (hd π1 hp1)
      have h1 := hlt1 (fun e => hne e.symm)
      have h2 := hlt2 hne
      exact ih π2 (by omega) hp2
    · exact ⟨ρ, hρ, hb⟩

/-- `b1` dominates `b2`: every path to `b2` visits `b1`, and after its last visit of `b1` it visits no other block that dominates
    `b1` (paths list the last node first, so "after" is `front`) -/
theorem no_redefinition {g : Graph} {b1 b2 : Nat} (hb : Dom g b1 b2) {π : List Nat} (hπ : Path g b2 π) :
    ∃ front back, π = front ++ b1 :: back ∧ b1 ∉ front ∧ ∀ d, Dom g d b1 → d ≠ b1 → d ∉ front := by
  obtain ⟨front, x, back, e, hx, hf, _⟩ := first_occurrence b1 b1 π (Or.inl (hb π hπ))
  have hx' : x = b1 := by rcases hx with h | h <;> exact h
  subst hx'
  refine ⟨front, back, e, hf, ?_⟩
  intro d hd hne hdf
  obtain ⟨s1, s2, es⟩ := List.append_of_mem hdf
  -- the path reaches `d` after its last visit of `b1`; replace the way to `d` by one that avoids `b1`
  have hπ' : Path g b2 (s1 ++ d :: (s2 ++ x :: back)) := by
    rw [e, es] at hπ
    simpa [List.append_assoc] using hπ
  have hpd : Path g d (d :: (s2 ++ x :: back)) := suffix_path s1 d _ b2 hπ'
  obtain ⟨ρ, hρ, hbρ⟩ := avoid hd hne _ _ (Nat.le_refl _) hpd
  obtain ⟨σ, eσ⟩ := path_cons hρ
  subst eσ
  have hnew : Path g b2 (s1 ++ d :: σ) := path_splice s1 d _ σ b2 hπ' hρ
  have hmem := hb _ hnew
  rcases List.mem_append.mp hmem with h | h
  · exact hf (by rw [es]; exact List.mem_append_left _ h)
  · exact hbρ h

end Circomspect.DomCheck
