/-
The cyclomatic complexity of `definition_complexity.rs` is `2 + edges - nodes` in unsigned arithmetic: it is defined (no underflow) on
every lifted CFG, because a graph in which every block but the entry has a predecessor has at least `nodes - 1` edges.
-/
import Circomspect.Lemmas.CfgLemmas

namespace Circomspect.CfgEdges
open Circomspect CfgLift CfgLemmas

theorem filter_ne_length (a : Nat) : ∀ (l : List Nat), l.Nodup → l.length ≤ (l.filter (fun x => x != a)).length + 1
  | [], _ => by simp
  | x :: t, h => by
    have hn := List.nodup_cons.mp h
    by_cases hx : x = a
    · subst hx
      have : t.filter (fun y => y != x) = t := by
        apply List.filter_eq_self.mpr
        intro y hy
        have : y ≠ x := by intro e; subst e; exact hn.1 hy
        simpa using this
      simp [this]
    · have ih := filter_ne_length a t hn.2
      have hx' : (x != a) = true := by simpa using hx
      simp only [List.filter_cons, hx', if_true, List.length_cons]
      omega

/-- a duplicate-free list all of whose elements occur in `L` is not longer than `L` -/
theorem nodup_subset_length : ∀ (L l : List Nat), l.Nodup → (∀ x ∈ l, x ∈ L) → l.length ≤ L.length
  | [], l, _, hs => by
    cases l with
    | nil => simp
    | cons x t => exact absurd (hs x List.mem_cons_self) (by simp)
  | a :: L', l, hn, hs => by
    have h1 := filter_ne_length a l hn
    have hn' : (l.filter (fun x => x != a)).Nodup := hn.filter _
    have hs' : ∀ x ∈ l.filter (fun x => x != a), x ∈ L' := by
      intro x hx
      rw [List.mem_filter] at hx
      have hne : x ≠ a := by simpa using hx.2
      rcases List.mem_cons.mp (hs x hx.1) with e | h
      · exact absurd e hne
      · exact h
    have ih := nodup_subset_length L' _ hn' hs'
    simp only [List.length_cons]
    omega

theorem edges_eq_flat (bs : List Block) : edges bs = (bs.flatMap (fun b => b.succs)).length := by
  unfold edges
  rw [List.length_flatMap]

end Circomspect.CfgEdges

namespace Circomspect.CfgEdges
open Circomspect CfgLift CfgLemmas

/-- a graph in which every block but the first has a predecessor, and predecessors are mirrored by successors, has at least
    `nodes - 1` edges -/
theorem nodes_le_edges (bs : List Block)
    (hmirror : ∀ (i j : Nat) (bi bj : Block), bs[i]? = some bi → bs[j]? = some bj → (j ∈ bi.succs ↔ i ∈ bj.preds))
    (hrange : ∀ (i : Nat) (b : Block), bs[i]? = some b → (∀ j ∈ b.succs, j < bs.length) ∧ (∀ j ∈ b.preds, j < bs.length))
    (hfwd : ∀ (j : Nat) (b : Block), 0 < j → bs[j]? = some b → ∃ i ∈ b.preds, i < j) :
    bs.length ≤ edges bs + 1 := by
  rw [edges_eq_flat]
  let l := (List.range bs.length).filter (fun j => decide (0 < j))
  have hn : l.Nodup := (List.nodup_range).filter _
  have hsub : ∀ x ∈ l, x ∈ bs.flatMap (fun b => b.succs) := by
    intro j hj
    simp only [l, List.mem_filter, List.mem_range, decide_eq_true_eq] at hj
    obtain ⟨hlt, hpos⟩ := hj
    have hbj : bs[j]? = some bs[j] := List.getElem?_eq_getElem hlt
    obtain ⟨i, hi, _⟩ := hfwd j bs[j] hpos hbj
    have hilt : i < bs.length := (hrange j bs[j] hbj).2 i hi
    have hbi : bs[i]? = some bs[i] := List.getElem?_eq_getElem hilt
    have hs : j ∈ bs[i].succs := (hmirror i j bs[i] bs[j] hbi hbj).mpr hi
    exact List.mem_flatMap.mpr ⟨bs[i], List.getElem_mem hilt, hs⟩
  have hlen := nodup_subset_length _ l hn hsub
  have hl : l.length + 1 ≥ bs.length := by
    have : ∀ n, ((List.range n).filter (fun j => decide (0 < j))).length + 1 ≥ n := by
      intro n
      induction n with
      | zero => simp
      | succ k ih =>
        rw [List.range_succ, List.filter_append, List.length_append]
        cases k with
        | zero => simp
        | succ m => simp at ih ⊢; omega
    exact this bs.length
  omega

theorem edges_le : ∀ (bs : List Block), (∀ b ∈ bs, b.succs.length ≤ 2) → edges bs ≤ 2 * bs.length
  | [], _ => by simp [edges]
  | b :: t, hs => by
    have hb := hs b List.mem_cons_self
    have ih := edges_le t (fun x hx => hs x (List.mem_cons_of_mem _ hx))
    unfold edges at ih ⊢
    simp only [List.map_cons, List.sum_cons, List.length_cons]
    omega

end Circomspect.CfgEdges
