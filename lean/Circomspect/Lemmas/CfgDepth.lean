/-
C12, the loop-depth clause: every statement of every block of a lifted CFG sits in a block whose recorded
depth is the loop nesting depth of that statement in the source (`CfgSpec.depths`; the branch of a `while`
counts as outside its own loop).
-/
import Circomspect.Lemmas.TracePaths
import Circomspect.Lemmas.TraceLemmas
import Circomspect.Spec.Cfg
set_option linter.unusedSimpArgs false
set_option linter.unusedVariables false
namespace Circomspect.TracePaths
open Circomspect CfgLift Trace CfgLemmas CfgSpec

/-- every statement of every block has its (range, block depth) in `Q` -/
def DepthQ (Q : Loc × Nat → Prop) (bs : List Block) : Prop :=
  ∀ (i : Nat) (b : Block), bs[i]? = some b → ∀ l, l ∈ b.stmts.map Trace.stmtLoc → Q (l, b.depth)

/-- the current block was created at depth `d` -/
def CurDepth (bs : List Block) (d : Nat) : Prop := ∃ b, bs[bs.length - 1]? = some b ∧ b.depth = d

theorem patchFalse_depth (b : Block) (j : Nat) : (patchFalse b j).depth = b.depth := by
  unfold patchFalse; split
  · split <;> rfl
  · rfl

theorem completed_depth (j : Nat) (ps : List Nat) (i : Nat) (b : Block) : (completed j ps i b).depth = b.depth := by
  unfold completed; split
  · rw [patchFalse_depth]
  · rfl

theorem completed_locs (j : Nat) (ps : List Nat) (i : Nat) (b : Block) :
    (completed j ps i b).stmts.map Trace.stmtLoc = b.stmts.map Trace.stmtLoc := by
  unfold completed; split
  · exact Circomspect.TraceLemmas.patchFalse_locs _ j
  · rfl

theorem edged_depth (fs : List Nat) (h i : Nat) (b : Block) : (edged fs h i b).depth = b.depth := by
  unfold edged; simp only; split <;> split <;> rfl

theorem depthQ_completeBlock (Q : Loc × Nat → Prop) (bs : List Block) (ps : List Nat) (d : Nat) (h : DepthQ Q bs) :
    DepthQ Q (completeBlock bs ps d) ∧ CurDepth (completeBlock bs ps d) d := by
  have hlen : (completeBlock bs ps d).length = bs.length + 1 := length_completeBlock _ _ _
  constructor
  · intro i b' hb' l hl
    by_cases hi : i < bs.length
    · rw [completeBlock_get_lt bs ps d i hi] at hb'
      cases hbi : bs[i]? with
      | none => rw [hbi] at hb'; cases hb'
      | some b =>
        rw [hbi] at hb'; simp only [Option.map_some, Option.some.injEq] at hb'; subst hb'
        rw [completed_locs] at hl; rw [completed_depth]
        exact h i b hbi l hl
    · have hlt := (List.getElem?_eq_some_iff.mp hb').1
      have : i = bs.length := by omega
      subst this
      rw [completeBlock_get_new] at hb'; cases hb'
      simp at hl
  · exact ⟨_, by rw [hlen]; simpa using completeBlock_get_new bs ps d, rfl⟩

theorem depthQ_addEdges (Q : Loc × Nat → Prop) (bs : List Block) (fs : List Nat) (hd : Nat) (h : DepthQ Q bs) :
    DepthQ Q (addEdges bs fs hd) := by
  intro i b' hb' l hl
  rw [addEdges_get] at hb'
  cases hbi : bs[i]? with
  | none => rw [hbi] at hb'; cases hb'
  | some b =>
    rw [hbi] at hb'; simp only [Option.map_some, Option.some.injEq] at hb'; subst hb'
    rw [edged_stmts] at hl; rw [edged_depth]
    exact h i b hbi l hl

theorem depthQ_appendStmt (Q : Loc × Nat → Prop) (bs : List Block) (s : IStmt) (d : Nat) (h : DepthQ Q bs)
    (hc : CurDepth bs d) (hq : Q (Trace.stmtLoc s, d)) :
    DepthQ Q (appendStmt bs s) ∧ CurDepth (appendStmt bs s) d := by
  obtain ⟨b, hb, hd⟩ := hc
  have hlen : (appendStmt bs s).length = bs.length := length_appendStmt _ _
  constructor
  · intro i b' hb' l hl
    rw [appendStmt_get] at hb'
    cases hbi : bs[i]? with
    | none => rw [hbi] at hb'; cases hb'
    | some bi =>
      rw [hbi] at hb'; simp only [Option.map_some, Option.some.injEq] at hb'; subst hb'
      by_cases hi : i = bs.length - 1
      · subst hi; rw [hb] at hbi; cases hbi
        simp only [if_true, List.map_append, List.mem_append, List.map_cons, List.map_nil, List.mem_singleton] at hl ⊢
        rcases hl with h1 | h1
        · exact h _ b hb l h1
        · subst h1; rw [hd]; exact hq
      · simp only [if_neg hi] at hl ⊢; exact h i bi hbi l hl
  · refine ⟨{ b with stmts := b.stmts ++ [s] }, by rw [hlen, appendStmt_get, hb]; simp, hd⟩

mutual
theorem visit_depth (Q : Loc × Nat → Prop) : ∀ (s : Stmt) (d : Nat) (bs : List Block), 0 < bs.length →
    (∀ x, x ∈ depths s d → Q x) → DepthQ Q bs → CurDepth bs d →
    Holds (fun bs1 ps1 => DepthQ Q bs1 ∧ 0 < bs1.length ∧ (ps1 = [] → CurDepth bs1 d)) (visit s d bs)
  | .simple loc, d, bs, hp, hq, hD, hc => by
      rw [visit]
      have := depthQ_appendStmt Q bs (.simple loc) d hD hc (hq _ (by simp [depths, Trace.stmtLoc]))
      exact ⟨this.1, by rw [length_appendStmt]; exact hp, fun _ => this.2⟩
  | .init cs, d, bs, hp, hq, hD, hc => by
      rw [visit]; exact visitInit_depth Q cs d bs hp (by simpa [depths] using hq) hD hc
  | .block cs, d, bs, hp, hq, hD, hc => by
      rw [visit]; exact visitBlock_depth Q cs d bs [] hp (by simpa [depths] using hq) hD (fun _ => hc)
  | .while loc body, d, bs, hp, hq, hD, hc => by
      rw [visit]
      have h1 := depthQ_completeBlock Q bs [bs.length - 1] d hD
      have h2 := depthQ_appendStmt Q _ (IStmt.branch loc (bs.length - 1 + 2) none) d h1.1 h1.2 (hq _ (by simp [depths, Trace.stmtLoc]))
      have h3 := depthQ_completeBlock Q _ [bs.length - 1 + 1] (d + 1) h2.1
      have hpos : 0 < (whilePre loc d bs).length := by unfold whilePre; simp [length_completeBlock]
      apply holds_andThen (visit_depth Q body (d + 1) (whilePre loc d bs) hpos
        (fun x hx => hq x (by simp [depths]; exact Or.inr hx)) h3.1 h3.2)
      intro bs' ps ⟨g1, g2, _⟩
      exact ⟨depthQ_addEdges Q bs' _ _ g1, by rw [length_addEdges]; exact g2, fun h => by cases h⟩
  | .ite loc thn, d, bs, hp, hq, hD, hc => by
      rw [visit]
      have h1 := depthQ_appendStmt Q bs (IStmt.branch loc (bs.length - 1 + 1) none) d hD hc (hq _ (by simp [depths, Trace.stmtLoc]))
      have h2 := depthQ_completeBlock Q _ [bs.length - 1] d h1.1
      have hpos : 0 < (itePre loc d bs).length := by unfold itePre; simp [length_completeBlock]
      apply holds_andThen (visit_depth Q thn d (itePre loc d bs) hpos
        (fun x hx => hq x (by simp [depths]; exact Or.inr hx)) h2.1 h2.2)
      intro bs1 ifPs ⟨g1, g2, _⟩
      exact ⟨g1, g2, fun h => absurd h (insertSorted_ne_nil _ _)⟩
  | .iteElse loc thn els, d, bs, hp, hq, hD, hc => by
      rw [visit]
      have h1 := depthQ_appendStmt Q bs (IStmt.branch loc (bs.length - 1 + 1) none) d hD hc (hq _ (by simp [depths, Trace.stmtLoc]))
      have h2 := depthQ_completeBlock Q _ [bs.length - 1] d h1.1
      have hpos : 0 < (itePre loc d bs).length := by unfold itePre; simp [length_completeBlock]
      apply holds_andThen (visit_depth Q thn d (itePre loc d bs) hpos
        (fun x hx => hq x (by simp [depths]; exact Or.inr (Or.inl hx))) h2.1 h2.2)
      intro bs1 ifPs ⟨g1, g2, _⟩
      have h3 := depthQ_completeBlock Q bs1 [bs.length - 1] d g1
      apply holds_andThen (visit_depth Q els d (completeBlock bs1 [bs.length - 1] d) (by simp [length_completeBlock])
        (fun x hx => hq x (by simp [depths]; exact Or.inr (Or.inr hx))) h3.1 h3.2)
      intro bs2 elPs ⟨k1, k2, _⟩
      refine ⟨k1, k2, ?_⟩
      intro h
      exfalso
      cases hol : orLast ifPs bs1 with
      | nil => exact orLast_ne _ _ hol
      | cons q qs =>
        have : q ∈ union (orLast ifPs bs1) (orLast elPs bs2) := (mem_union q _ _).mpr (Or.inl (by rw [hol]; exact List.mem_cons_self))
        rw [h] at this; cases this
theorem visitBlock_depth (Q : Loc × Nat → Prop) : ∀ (cs : Stmts) (d : Nat) (bs : List Block) (ps : List Nat), 0 < bs.length →
    (∀ x, x ∈ depthsList cs d → Q x) → DepthQ Q bs → (ps = [] → CurDepth bs d) →
    Holds (fun bs1 ps1 => DepthQ Q bs1 ∧ 0 < bs1.length ∧ (ps1 = [] → CurDepth bs1 d)) (visitBlock cs d bs ps)
  | .nil, d, bs, ps, hp, hq, hD, hc => by rw [visitBlock]; exact ⟨hD, hp, hc⟩
  | .cons s rest, d, bs, ps, hp, hq, hD, hc => by
      rw [visitBlock]
      have h0 : DepthQ Q (if ps.isEmpty then bs else completeBlock bs ps d) ∧
          CurDepth (if ps.isEmpty then bs else completeBlock bs ps d) d ∧
          0 < (if ps.isEmpty then bs else completeBlock bs ps d).length := by
        split
        · rename_i he; exact ⟨hD, hc (by simpa using he), hp⟩
        · have := depthQ_completeBlock Q bs ps d hD
          exact ⟨this.1, this.2, by simp [length_completeBlock]⟩
      apply holds_andThen (visit_depth Q s d _ h0.2.2 (fun x hx => hq x (by simp [depthsList]; exact Or.inl hx)) h0.1 h0.2.1)
      intro bs' ps' ⟨g1, g2, g3⟩
      exact visitBlock_depth Q rest d bs' ps' g2 (fun x hx => hq x (by simp [depthsList]; exact Or.inr hx)) g1 g3
theorem visitInit_depth (Q : Loc × Nat → Prop) : ∀ (cs : Stmts) (d : Nat) (bs : List Block), 0 < bs.length →
    (∀ x, x ∈ depthsList cs d → Q x) → DepthQ Q bs → CurDepth bs d →
    Holds (fun bs1 ps1 => DepthQ Q bs1 ∧ 0 < bs1.length ∧ (ps1 = [] → CurDepth bs1 d)) (visitInit cs d bs)
  | .nil, d, bs, hp, hq, hD, hc => by rw [visitInit]; exact ⟨hD, hp, fun _ => hc⟩
  | .cons s rest, d, bs, hp, hq, hD, hc => by
      rw [visitInit]
      apply holds_andThen (visit_depth Q s d bs hp (fun x hx => hq x (by simp [depthsList]; exact Or.inl hx)) hD hc)
      intro bs' ps' ⟨g1, g2, g3⟩
      split
      · rename_i hemp
        exact visitInit_depth Q rest d bs' g2 (fun x hx => hq x (by simp [depthsList]; exact Or.inr hx)) g1 (g3 (by simpa using hemp))
      · trivial
end

/-- every statement of a lifted CFG sits in a block of its source nesting depth -/
theorem lift_depth (body : Stmt) (bs : List Block) (ps : List Nat) (h : lift body = .ok bs ps) :
    ∀ (i : Nat) (b : Block), bs[i]? = some b → ∀ st, st ∈ b.stmts → (Trace.stmtLoc st, b.depth) ∈ depths body 0 := by
  have hv := visit_depth (fun x => x ∈ depths body 0) body 0 initBlocks (by simp [initBlocks]) (fun x hx => hx)
    (by intro i b hb l hl
        have : i = 0 := by
          have := (List.getElem?_eq_some_iff.mp hb).1
          simp [initBlocks] at this; exact this
        subst this; simp [initBlocks] at hb; subst hb; simp at hl)
    ⟨_, rfl, rfl⟩
  unfold lift at h
  change visit body 0 initBlocks = _ at h
  rw [h] at hv
  intro i b hb st hst
  exact hv.1 i b hb _ (List.mem_map.mpr ⟨st, hst, rfl⟩)

end Circomspect.TracePaths
