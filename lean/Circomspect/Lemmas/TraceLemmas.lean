/-
Lemmas for C13: statement conservation of the lifting model, in program order.
-/
import Circomspect.Lemmas.CfgLemmas
import Circomspect.Spec.Trace

namespace Circomspect.TraceLemmas
open Circomspect CfgLift CfgLemmas


def flatLocs (bs : List Block) : List Loc := bs.flatMap (fun b => b.stmts.map Trace.stmtLoc)

mutual
def pre : Stmt → List Loc
  | .simple loc => [loc]
  | .init cs => preList cs
  | .block cs => preList cs
  | .ite loc t => loc :: pre t
  | .iteElse loc t e => loc :: (pre t ++ pre e)
  | .while loc b => loc :: pre b
def preList : Stmts → List Loc
  | .nil => []
  | .cons s rest => pre s ++ preList rest
end

theorem modify_last (init : List Block) (last : Block) (f : Block → Block) :
    CfgLift.modify (init ++ [last]) ((init ++ [last]).length - 1) f = init ++ [f last] := by
  unfold CfgLift.modify
  rw [List.mapIdx_append]
  simp only [List.length_append, List.length_singleton, Nat.add_sub_cancel]
  congr 1
  · apply List.ext_getElem
    · simp
    · intro i h1 h2
      simp only [List.getElem_mapIdx]
      have : i < init.length := by simpa using h1
      have hne : ¬ (i = init.length) := by omega
      simp [hne]
  · simp

theorem flatLocs_appendStmt (bs : List Block) (s : IStmt) (h : bs ≠ []) :
    flatLocs (appendStmt bs s) = flatLocs bs ++ [Trace.stmtLoc s] := by
  have := List.dropLast_concat_getLast h
  rw [← this]
  unfold appendStmt
  rw [modify_last]
  unfold flatLocs
  simp [List.flatMap_append]

theorem patchFalse_locs (b : Block) (j : Nat) : (patchFalse b j).stmts.map Trace.stmtLoc = b.stmts.map Trace.stmtLoc := by
  unfold patchFalse
  split
  · rename_i loc t heq
    split
    · simp only
      have hne : b.stmts ≠ [] := by intro e; rw [e] at heq; simp at heq
      have := List.dropLast_concat_getLast hne
      have hl : b.stmts.getLast hne = .branch loc t none := by
        have := List.getLast?_eq_some_getLast hne
        rw [this] at heq; injection heq
      conv => rhs; rw [← this]
      rw [List.map_append, List.map_append, hl]
      rfl
    · rfl
  · rfl

theorem flatLocs_completeBlock (bs : List Block) (ps : List Nat) (d : Nat) :
    flatLocs (completeBlock bs ps d) = flatLocs bs := by
  unfold completeBlock flatLocs
  simp only [List.flatMap_append, List.flatMap_cons, List.flatMap_nil, List.map_nil, List.append_nil]
  rw [List.flatMap_def, List.flatMap_def]
  congr 1
  apply List.ext_getElem
  · simp
  · intro i h1 h2
    simp only [List.getElem_mapIdx, List.getElem_map]
    split
    · rw [patchFalse_locs]
    · rfl

theorem flatLocs_addEdges (bs : List Block) (fs : List Nat) (hd : Nat) :
    flatLocs (addEdges bs fs hd) = flatLocs bs := by
  unfold addEdges flatLocs
  rw [List.flatMap_def, List.flatMap_def]
  congr 1
  apply List.ext_getElem
  · simp
  · intro i h1 h2
    simp only [List.getElem_mapIdx, List.getElem_map]
    split <;> split <;> rfl


theorem ne_nil_of_pos {bs : List Block} (h : 0 < bs.length) : bs ≠ [] := by
  intro e; rw [e] at h; simp at h

theorem flatLocs_whilePre (loc : Loc) (d : Nat) (bs : List Block) (h : 0 < bs.length) :
    flatLocs (whilePre loc d bs) = flatLocs bs ++ [loc] := by
  unfold whilePre
  simp only
  rw [flatLocs_completeBlock, flatLocs_appendStmt _ _ (ne_nil_of_pos (by rw [length_completeBlock]; omega)), flatLocs_completeBlock]
  rfl

theorem flatLocs_itePre (loc : Loc) (d : Nat) (bs : List Block) (h : 0 < bs.length) :
    flatLocs (itePre loc d bs) = flatLocs bs ++ [loc] := by
  unfold itePre
  simp only
  rw [flatLocs_completeBlock, flatLocs_appendStmt _ _ (ne_nil_of_pos h)]
  rfl

def LocRel (bs : List Block) (extra : List Loc) (bs' : List Block) (_ps : List Nat) : Prop :=
  0 < bs'.length ∧ flatLocs bs' = flatLocs bs ++ extra

mutual
theorem visit_locs : ∀ (s : Stmt) (d : Nat) (bs : List Block), 0 < bs.length →
    Holds (LocRel bs (pre s)) (visit s d bs)
  | .simple loc, d, bs, h => by
      rw [visit, pre]
      exact ⟨by rw [length_appendStmt]; exact h, flatLocs_appendStmt bs _ (ne_nil_of_pos h)⟩
  | .init cs, d, bs, h => by rw [visit, pre]; exact visitInit_locs cs d bs h
  | .block cs, d, bs, h => by rw [visit, pre]; exact visitBlock_locs cs d bs [] h
  | .while loc body, d, bs, h => by
      rw [visit, pre]
      have hl : 0 < (whilePre loc d bs).length := by
        unfold whilePre; simp [length_completeBlock]
      apply holds_andThen (visit_locs body (d + 1) _ hl)
      intro bs' ps ⟨hpos, hloc⟩
      refine ⟨by rw [length_addEdges]; exact hpos, ?_⟩
      rw [flatLocs_addEdges, hloc, flatLocs_whilePre loc d bs h]; simp
  | .ite loc thn, d, bs, h => by
      rw [visit, pre]
      have hl : 0 < (itePre loc d bs).length := by unfold itePre; simp [length_completeBlock]
      apply holds_andThen (visit_locs thn d _ hl)
      intro bs1 ps ⟨hpos, hloc⟩
      exact ⟨hpos, by rw [hloc, flatLocs_itePre loc d bs h]; simp⟩
  | .iteElse loc thn els, d, bs, h => by
      rw [visit, pre]
      have hl : 0 < (itePre loc d bs).length := by unfold itePre; simp [length_completeBlock]
      apply holds_andThen (visit_locs thn d _ hl)
      intro bs1 ps1 ⟨hpos1, hloc1⟩
      apply holds_andThen (visit_locs els d _ (by rw [length_completeBlock]; omega))
      intro bs2 ps2 ⟨hpos2, hloc2⟩
      exact ⟨hpos2, by rw [hloc2, flatLocs_completeBlock, hloc1, flatLocs_itePre loc d bs h]; simp⟩
theorem visitBlock_locs : ∀ (cs : Stmts) (d : Nat) (bs : List Block) (ps : List Nat), 0 < bs.length →
    Holds (LocRel bs (preList cs)) (visitBlock cs d bs ps)
  | .nil, d, bs, ps, h => by rw [visitBlock, preList]; exact ⟨h, by simp⟩
  | .cons s rest, d, bs, ps, h => by
      rw [visitBlock, preList]
      have h0 : 0 < (if ps.isEmpty then bs else completeBlock bs ps d).length ∧
          flatLocs (if ps.isEmpty then bs else completeBlock bs ps d) = flatLocs bs := by
        split
        · exact ⟨h, rfl⟩
        · exact ⟨by rw [length_completeBlock]; omega, flatLocs_completeBlock _ _ _⟩
      apply holds_andThen (visit_locs s d _ h0.1)
      intro bs' ps' ⟨hpos, hloc⟩
      apply holds_mono (visitBlock_locs rest d bs' ps' hpos)
      intro bs'' ps'' ⟨hpos', hloc'⟩
      exact ⟨hpos', by rw [hloc', hloc, h0.2]; simp⟩
theorem visitInit_locs : ∀ (cs : Stmts) (d : Nat) (bs : List Block), 0 < bs.length →
    Holds (LocRel bs (preList cs)) (visitInit cs d bs)
  | .nil, d, bs, h => by rw [visitInit, preList]; exact ⟨h, by simp⟩
  | .cons s rest, d, bs, h => by
      rw [visitInit, preList]
      apply holds_andThen (visit_locs s d bs h)
      intro bs' ps ⟨hpos, hloc⟩
      split
      · apply holds_mono (visitInit_locs rest d bs' hpos)
        intro bs'' ps'' ⟨hpos', hloc'⟩
        exact ⟨hpos', by rw [hloc', hloc]; simp⟩
      · trivial
end

/-- Statement conservation, in program order: the statements of the blocks, concatenated in index
    order, are exactly the statements of the source in pre-order (an `if`/`while` contributing
    one branch statement at the position of its condition) — nothing lost, duplicated or reordered. -/
theorem lift_locs (body : Stmt) (bs : List Block) (ps : List Nat) (h : lift body = .ok bs ps) :
    flatLocs bs = pre body := by
  have := visit_locs body 0 initBlocks (by simp [initBlocks])
  unfold lift at h
  change visit body 0 initBlocks = _ at h
  rw [h] at this
  have e : flatLocs initBlocks = [] := by simp [flatLocs, initBlocks]
  simpa [e] using this.2


end Circomspect.TraceLemmas
