/-
Lemmas for C05/C04: the model of `parser_logic::preprocess` refines the reference lexer, and
properties of the reference lexer. Core Lean only.
-/
import Circomspect.Model.Strip
import Circomspect.Spec.Strip

namespace Circomspect.StripLemmas
open Circomspect Strip StripSpec


/-- decidable comparison of lexer results (used by the concrete examples) -/
def same : Except Nat (List Char) → Except Nat (List Char) → Bool
  | .ok a, .ok b => a == b
  | .error a, .error b => a == b
  | _, _ => false

theorem slash_size : '/'.utf8Size = 1 := by decide
theorem star_size : '*'.utf8Size = 1 := by decide
theorem nl_size : '\n'.utf8Size = 1 := by decide

theorem code_nil (off : Nat) : code off [] = .ok [] := by rw [code]
theorem code_slash_slash (off : Nat) (r : List Char) :
    code off ('/' :: '/' :: r) = (line (off + 2) r).map ([' ', ' '] ++ ·) := by rw [code]
theorem code_slash_star (off : Nat) (r : List Char) :
    code off ('/' :: '*' :: r) = (block off (off + 2) r).map ([' ', ' '] ++ ·) := by rw [code]
theorem code_slash_other (off : Nat) (c1 : Char) (r : List Char) (h1 : c1 ≠ '/') (h2 : c1 ≠ '*') :
    code off ('/' :: c1 :: r) = (code (off + 1) (c1 :: r)).map ('/' :: ·) := by
  rw [code, slash_size] <;> (intros; simp_all)
theorem code_slash_nil (off : Nat) : code off ['/'] = .ok ['/'] := by
  rw [code, code_nil] <;> first | rfl | (intros; simp_all)
theorem code_other (off : Nat) (c : Char) (r : List Char) (h : c ≠ '/') :
    code off (c :: r) = (code (off + c.utf8Size) r).map (c :: ·) := by
  rw [code] <;> (intros; simp_all)
theorem line_nil (off : Nat) : line off [] = .ok [] := by rw [line]
theorem line_nl (off : Nat) (r : List Char) :
    line off ('\n' :: r) = (code (off + 1) r).map ('\n' :: ·) := by rw [line]
theorem line_other (off : Nat) (c : Char) (r : List Char) (h : c ≠ '\n') :
    line off (c :: r) = (line (off + c.utf8Size) r).map (blank c ++ ·) := by
  rw [line] <;> (intros; simp_all)
theorem block_nil (st off : Nat) : block st off [] = .error st := by rw [block]
theorem block_star_slash (st off : Nat) (r : List Char) :
    block st off ('*' :: '/' :: r) = (code (off + 2) r).map ([' ', ' '] ++ ·) := by rw [block]
theorem block_star_other (st off : Nat) (c1 : Char) (r : List Char) (h : c1 ≠ '/') :
    block st off ('*' :: c1 :: r) = (block st (off + 1) (c1 :: r)).map ([' '] ++ ·) := by
  rw [block, star_size] <;> first | rfl | (intros; simp_all)
theorem block_star_nil (st off : Nat) : block st off ['*'] = .error st := by
  rw [block, block_nil] <;> first | rfl | (intros; simp_all)
theorem block_other (st off : Nat) (c : Char) (r : List Char) (h : c ≠ '*') :
    block st off (c :: r) = (block st (off + c.utf8Size) r).map (blank c ++ ·) := by
  rw [block] <;> (intros; simp_all)


theorem map_map' {ε α β γ} (x : Except ε α) (f : α → β) (g : β → γ) :
    (x.map f).map g = x.map (fun a => g (f a)) := by cases x <;> rfl

theorem run_eq (n : Nat) : ∀ (s : List Char), s.length ≤ n → ∀ (loc bs : Nat) (pp : List Char),
    run 0 loc bs pp s = (code loc s).map (pp ++ ·) ∧
    run 1 loc bs pp s = (line loc s).map (pp ++ ·) ∧
    run 2 loc bs pp s = (block bs loc s).map (pp ++ ·) := by
  induction n with
  | zero =>
    intro s hs loc bs pp
    have : s = [] := List.eq_nil_of_length_eq_zero (by omega)
    subst this
    simp [run, code_nil, line_nil, block_nil, Except.map]
  | succ n ih =>
    intro s hs loc bs pp
    match s, hs with
    | [], _ => simp [run, code_nil, line_nil, block_nil, Except.map]
    | c0 :: rest, hs =>
      have hr : rest.length ≤ n := by simp at hs; omega
      refine ⟨?_, ?_, ?_⟩
      · -- state 0
        rw [run.eq_def]; simp only [if_true]
        by_cases h0 : c0 = '/'
        · subst h0; simp only [if_true]
          match rest, hr with
          | [], _ => simp [code_slash_nil, Except.map]
          | c1 :: rest', hr =>
            have hr' : rest'.length ≤ n := by simp at hr; omega
            simp only
            by_cases h1 : c1 = '/'
            · subst h1; simp only [if_true]
              rw [(ih rest' hr' _ _ _).2.1, code_slash_slash, map_map', slash_size]
              simp [Nat.add_assoc]
            · by_cases h2 : c1 = '*'
              · subst h2; simp only [h1, if_false, if_true]
                rw [(ih rest' hr' _ _ _).2.2, code_slash_star, map_map', slash_size]
                simp [Nat.add_assoc]
              · simp only [h1, h2, if_false]
                rw [(ih rest' hr' _ _ _).1, code_slash_other _ _ _ h1 h2, code_other _ _ _ h1,
                  map_map', map_map', slash_size]
                simp [Nat.add_assoc]
        · simp only [h0, if_false]
          rw [(ih rest hr _ _ _).1, code_other _ _ _ h0, map_map']
          simp
      · -- state 1
        rw [run.eq_def]
        simp only [show ¬ (1 = 0) by decide, if_false, true_and]
        by_cases h0 : c0 = '\n'
        · subst h0; simp only [if_true]
          rw [(ih rest hr _ _ _).1, line_nl, map_map', nl_size]; simp
        · simp only [h0, if_false, show ¬ (1 = 2) by decide, false_and]
          rw [(ih rest hr _ _ _).2.1, line_other _ _ _ h0, map_map']
          simp [blanks, blank]
      · -- state 2
        rw [run.eq_def]
        simp only [show ¬ (2 = 0) by decide, show ¬ (2 = 1) by decide, if_false, false_and, true_and]
        by_cases h0 : c0 = '*'
        · subst h0; simp only [if_true]
          match rest, hr with
          | [], _ => simp [run, block_star_nil, Except.map]
          | c1 :: rest', hr =>
            have hr' : rest'.length ≤ n := by simp at hr; omega
            simp only
            by_cases h1 : c1 = '/'
            · subst h1; simp only [if_true]
              rw [(ih rest' hr' _ _ _).1, block_star_slash, map_map', star_size]
              simp [Nat.add_assoc]
            · simp only [h1, if_false]
              rw [(ih (c1 :: rest') hr _ _ _).2.2, block_star_other _ _ _ _ h1, map_map', star_size]
              simp
        · simp only [h0, if_false]
          rw [(ih rest hr _ _ _).2.2, block_other _ _ _ _ h0, map_map']
          simp [blanks, blank]

theorem refines (s : List Char) : preprocess s = strip s := by
  unfold preprocess strip
  rw [(run_eq s.length s (Nat.le_refl _) 0 0 []).1]
  cases code 0 s <;> simp [Except.map]


/-- positional alignment of the stripped text with the source: every source character is
    either copied or replaced by as many blanks as it has bytes -/
inductive Aligned : List Char → List Char → Prop
  | nil : Aligned [] []
  | keep (c : Char) {s o : List Char} : Aligned s o → Aligned (c :: s) (c :: o)
  | blank (c : Char) {s o : List Char} : Aligned s o → Aligned (c :: s) (StripSpec.blank c ++ o)

def bytes' : List Char → Nat
  | [] => 0
  | c :: r => c.utf8Size + bytes' r

theorem bytes'_append (a b : List Char) : bytes' (a ++ b) = bytes' a + bytes' b := by
  induction a with
  | nil => simp [bytes']
  | cons c r ih => simp [bytes', ih, Nat.add_assoc]

theorem space_size : ' '.utf8Size = 1 := by decide

theorem bytes'_blank (c : Char) : bytes' (StripSpec.blank c) = c.utf8Size := by
  unfold StripSpec.blank
  generalize c.utf8Size = k
  induction k with
  | zero => simp [bytes']
  | succ k ih => simp [List.replicate_succ, bytes', ih, space_size]; omega

theorem Aligned.bytes_eq {s o : List Char} (h : Aligned s o) : bytes' o = bytes' s := by
  induction h with
  | nil => rfl
  | keep c _ ih => simp [bytes', ih]
  | blank c _ ih => simp [bytes', bytes'_append, bytes'_blank, ih]

theorem blank2 (c d : Char) (hc : c.utf8Size = 1) (hd : d.utf8Size = 1) {s o : List Char}
    (h : Aligned s o) : Aligned (c :: d :: s) ([' ', ' '] ++ o) := by
  have h1 : Aligned (d :: s) (StripSpec.blank d ++ o) := Aligned.blank d h
  have h2 := Aligned.blank c h1
  simpa [StripSpec.blank, hc, hd] using h2

theorem aligned_all (n : Nat) : ∀ (s : List Char), s.length ≤ n → ∀ (off st : Nat) (o : List Char),
    (code off s = .ok o → Aligned s o) ∧ (line off s = .ok o → Aligned s o) ∧
    (block st off s = .ok o → Aligned s o) := by
  induction n with
  | zero =>
    intro s hs off st o
    have : s = [] := List.eq_nil_of_length_eq_zero (by omega)
    subst this
    refine ⟨?_, ?_, ?_⟩
    · rw [code_nil]; intro h; injection h with h; subst h; exact .nil
    · rw [line_nil]; intro h; injection h with h; subst h; exact .nil
    · rw [block_nil]; intro h; cases h
  | succ n ih =>
    intro s hs off st o
    match s, hs with
    | [], _ =>
      refine ⟨?_, ?_, ?_⟩
      · rw [code_nil]; intro h; injection h with h; subst h; exact .nil
      · rw [line_nil]; intro h; injection h with h; subst h; exact .nil
      · rw [block_nil]; intro h; cases h
    | c0 :: rest, hs =>
      have hr : rest.length ≤ n := by simp at hs; omega
      refine ⟨?_, ?_, ?_⟩
      · by_cases h0 : c0 = '/'
        · subst h0
          match rest, hr with
          | [], _ => rw [code_slash_nil]; intro h; injection h with h; subst h; exact .keep _ .nil
          | c1 :: rest', hr =>
            have hr' : rest'.length ≤ n := by simp at hr; omega
            by_cases h1 : c1 = '/'
            · subst h1; rw [code_slash_slash]; intro h
              cases hl : line (off + 2) rest' with
              | error e => rw [hl] at h; cases h
              | ok o' =>
                rw [hl] at h; injection h with h; subst h
                exact blank2 _ _ slash_size slash_size ((ih rest' hr' _ st _).2.1 hl)
            · by_cases h2 : c1 = '*'
              · subst h2; rw [code_slash_star]; intro h
                cases hl : block off (off + 2) rest' with
                | error e => rw [hl] at h; cases h
                | ok o' =>
                  rw [hl] at h; injection h with h; subst h
                  exact blank2 _ _ slash_size star_size ((ih rest' hr' _ _ _).2.2 hl)
              · rw [code_slash_other _ _ _ h1 h2]; intro h
                cases hl : code (off + 1) (c1 :: rest') with
                | error e => rw [hl] at h; cases h
                | ok o' =>
                  rw [hl] at h; injection h with h; subst h
                  exact .keep _ ((ih (c1 :: rest') hr _ st _).1 hl)
        · rw [code_other _ _ _ h0]; intro h
          cases hl : code (off + c0.utf8Size) rest with
          | error e => rw [hl] at h; cases h
          | ok o' =>
            rw [hl] at h; injection h with h; subst h
            exact .keep _ ((ih rest hr _ st _).1 hl)
      · by_cases h0 : c0 = '\n'
        · subst h0; rw [line_nl]; intro h
          cases hl : code (off + 1) rest with
          | error e => rw [hl] at h; cases h
          | ok o' =>
            rw [hl] at h; injection h with h; subst h
            exact .keep _ ((ih rest hr _ st _).1 hl)
        · rw [line_other _ _ _ h0]; intro h
          cases hl : line (off + c0.utf8Size) rest with
          | error e => rw [hl] at h; cases h
          | ok o' =>
            rw [hl] at h; injection h with h; subst h
            exact .blank _ ((ih rest hr _ st _).2.1 hl)
      · by_cases h0 : c0 = '*'
        · subst h0
          match rest, hr with
          | [], _ => rw [block_star_nil]; intro h; cases h
          | c1 :: rest', hr =>
            have hr' : rest'.length ≤ n := by simp at hr; omega
            by_cases h1 : c1 = '/'
            · subst h1; rw [block_star_slash]; intro h
              cases hl : code (off + 2) rest' with
              | error e => rw [hl] at h; cases h
              | ok o' =>
                rw [hl] at h; injection h with h; subst h
                exact blank2 _ _ star_size slash_size ((ih rest' hr' _ st _).1 hl)
            · rw [block_star_other _ _ _ _ h1]; intro h
              cases hl : block st (off + 1) (c1 :: rest') with
              | error e => rw [hl] at h; cases h
              | ok o' =>
                rw [hl] at h; injection h with h; subst h
                have := Aligned.blank '*' ((ih (c1 :: rest') hr _ st _).2.2 hl)
                simpa [StripSpec.blank, star_size] using this
        · rw [block_other _ _ _ _ h0]; intro h
          cases hl : block st (off + c0.utf8Size) rest with
          | error e => rw [hl] at h; cases h
          | ok o' =>
            rw [hl] at h; injection h with h; subst h
            exact .blank _ ((ih rest hr _ st _).2.2 hl)


/-- does the text contain `*/`? -/
def hasClose : List Char → Bool
  | [] => false
  | c :: r => (c == '*' && r.head? == some '/') || hasClose r

def blankAll (s : List Char) : List Char := s.flatMap StripSpec.blank

/-- a block comment extends to the first following `*/`, whatever it contains -/
theorem block_first_close (st : Nat) (body post : List Char) (h : hasClose body = false) :
    ∀ off, block st off (body ++ '*' :: '/' :: post) =
      (code (off + bytes' body + 2) post).map (blankAll body ++ [' ', ' '] ++ ·) := by
  induction body with
  | nil => intro off; simp [block_star_slash, bytes', blankAll]
  | cons c r ih =>
    intro off
    simp only [hasClose, Bool.or_eq_false_iff] at h
    obtain ⟨h1, h2⟩ := h
    by_cases hc : c = '*'
    · subst hc
      match r, h1, h2, ih with
      | [], _, _, _ =>
        simp only [List.cons_append, List.nil_append]
        rw [block_star_other _ _ _ _ (by decide), block_star_slash, map_map']
        simp [bytes', blankAll, StripSpec.blank, star_size, Nat.add_assoc]
      | c1 :: r', h1, h2, ih =>
        have hc1 : c1 ≠ '/' := by
          intro e; subst e; simp at h1
        simp only [List.cons_append]
        rw [block_star_other _ _ _ _ hc1]
        have := ih h2 (off + 1)
        simp only [List.cons_append] at this
        rw [this, map_map']
        simp [bytes', blankAll, StripSpec.blank, star_size, Nat.add_assoc]
    · simp only [List.cons_append]
      rw [block_other _ _ _ _ hc, ih h2, map_map']
      simp [bytes', blankAll, Nat.add_assoc]

/-- a block comment that contains no `*/` up to the end of the input is an error located at
    its opener -/
theorem block_unclosed (st : Nat) (body : List Char) (h : hasClose body = false) :
    ∀ off, block st off body = .error st := by
  induction body with
  | nil => intro off; rw [block_nil]
  | cons c r ih =>
    intro off
    simp only [hasClose, Bool.or_eq_false_iff] at h
    obtain ⟨h1, h2⟩ := h
    by_cases hc : c = '*'
    · subst hc
      match r, h1, h2, ih with
      | [], _, _, _ => rw [block_star_nil]
      | c1 :: r', h1, h2, ih =>
        have hc1 : c1 ≠ '/' := by
          intro e; subst e; simp at h1
        rw [block_star_other _ _ _ _ hc1, ih h2]; rfl
    · rw [block_other _ _ _ _ hc, ih h2]; rfl

/-- a line comment extends to the next newline, whatever it contains -/
theorem line_to_newline (body post : List Char) (h : '\n' ∉ body) :
    ∀ off, line off (body ++ '\n' :: post) =
      (code (off + bytes' body + 1) post).map (blankAll body ++ ['\n'] ++ ·) := by
  induction body with
  | nil => intro off; simp [line_nl, bytes', blankAll]
  | cons c r ih =>
    intro off
    have hc : c ≠ '\n' := by intro e; subst e; simp at h
    have hr : '\n' ∉ r := by intro e; exact h (List.mem_cons_of_mem _ e)
    simp only [List.cons_append]
    rw [line_other _ _ _ hc, ih hr, map_map']
    simp [bytes', blankAll, Nat.add_assoc]

/-- a line comment at the end of the input (no newline) is blanked to the end -/
theorem line_to_eof (body : List Char) (h : '\n' ∉ body) :
    ∀ off, line off body = .ok (blankAll body) := by
  induction body with
  | nil => intro off; simp [line_nil, blankAll]
  | cons c r ih =>
    intro off
    have hc : c ≠ '\n' := by intro e; subst e; simp at h
    have hr : '\n' ∉ r := by intro e; exact h (List.mem_cons_of_mem _ e)
    rw [line_other _ _ _ hc, ih hr]
    simp [blankAll, Except.map]

theorem code_replicate_blank (k : Nat) (o : List Char) (off : Nat) (h : ∀ off', code off' o = .ok o) :
    code off (List.replicate k ' ' ++ o) = .ok (List.replicate k ' ' ++ o) := by
  induction k generalizing off with
  | zero => simpa using h off
  | succ k ih =>
    simp only [List.replicate_succ, List.cons_append]
    rw [code_other _ _ _ (by decide), ih]; rfl

/-- the stripped text contains no comment any more: stripping it again changes nothing -/
theorem idem_all (n : Nat) : ∀ (s : List Char), s.length ≤ n → ∀ (off st : Nat) (o : List Char),
    (code off s = .ok o → ∀ off', code off' o = .ok o) ∧
    (line off s = .ok o → ∀ off', code off' o = .ok o) ∧
    (block st off s = .ok o → ∀ off', code off' o = .ok o) := by
  induction n with
  | zero =>
    intro s hs off st o
    have : s = [] := List.eq_nil_of_length_eq_zero (by omega)
    subst this
    refine ⟨?_, ?_, ?_⟩
    · rw [code_nil]; intro h; injection h with h; subst h; intro _; exact code_nil _
    · rw [line_nil]; intro h; injection h with h; subst h; intro _; exact code_nil _
    · rw [block_nil]; intro h; cases h
  | succ n ih =>
    intro s hs off st o
    match s, hs with
    | [], _ =>
      refine ⟨?_, ?_, ?_⟩
      · rw [code_nil]; intro h; injection h with h; subst h; intro _; exact code_nil _
      · rw [line_nil]; intro h; injection h with h; subst h; intro _; exact code_nil _
      · rw [block_nil]; intro h; cases h
    | c0 :: rest, hs =>
      have hr : rest.length ≤ n := by simp at hs; omega
      have two : ∀ (o' : List Char), (∀ off', code off' o' = .ok o') →
          ∀ off', code off' ([' ', ' '] ++ o') = .ok ([' ', ' '] ++ o') := by
        intro o' h off'
        exact code_replicate_blank 2 o' off' h
      refine ⟨?_, ?_, ?_⟩
      · by_cases h0 : c0 = '/'
        · subst h0
          match rest, hr with
          | [], _ =>
            rw [code_slash_nil]; intro h; injection h with h; subst h; intro _; exact code_slash_nil _
          | c1 :: rest', hr =>
            have hr' : rest'.length ≤ n := by simp at hr; omega
            by_cases h1 : c1 = '/'
            · subst h1; rw [code_slash_slash]; intro h
              cases hl : line (off + 2) rest' with
              | error e => rw [hl] at h; cases h
              | ok o' =>
                rw [hl] at h; injection h with h; subst h
                exact two _ ((ih rest' hr' _ st _).2.1 hl)
            · by_cases h2 : c1 = '*'
              · subst h2; rw [code_slash_star]; intro h
                cases hl : block off (off + 2) rest' with
                | error e => rw [hl] at h; cases h
                | ok o' =>
                  rw [hl] at h; injection h with h; subst h
                  exact two _ ((ih rest' hr' _ _ _).2.2 hl)
              · rw [code_slash_other _ _ _ h1 h2]; intro h
                cases hl : code (off + 1) (c1 :: rest') with
                | error e => rw [hl] at h; cases h
                | ok o' =>
                  rw [hl] at h; injection h with h; subst h
                  have ih' := (ih (c1 :: rest') hr _ st _).1 hl
                  -- the output of `c1 :: rest'` starts with `c1`
                  rw [code_other _ _ _ h1] at hl
                  cases hl2 : code (off + 1 + c1.utf8Size) rest' with
                  | error e => rw [hl2] at hl; cases hl
                  | ok o2 =>
                    rw [hl2] at hl; injection hl with hl; subst hl
                    intro off'
                    show code off' ('/' :: c1 :: o2) = _
                    rw [code_slash_other _ _ _ h1 h2, ih' _]; rfl
        · rw [code_other _ _ _ h0]; intro h
          cases hl : code (off + c0.utf8Size) rest with
          | error e => rw [hl] at h; cases h
          | ok o' =>
            rw [hl] at h; injection h with h; subst h
            intro off'
            show code off' (c0 :: o') = _
            rw [code_other _ _ _ h0, (ih rest hr _ st _).1 hl]; rfl
      · by_cases h0 : c0 = '\n'
        · subst h0; rw [line_nl]; intro h
          cases hl : code (off + 1) rest with
          | error e => rw [hl] at h; cases h
          | ok o' =>
            rw [hl] at h; injection h with h; subst h
            intro off'
            show code off' ('\n' :: o') = _
            rw [code_other _ _ _ (by decide), (ih rest hr _ st _).1 hl]; rfl
        · rw [line_other _ _ _ h0]; intro h
          cases hl : line (off + c0.utf8Size) rest with
          | error e => rw [hl] at h; cases h
          | ok o' =>
            rw [hl] at h; injection h with h; subst h
            intro off'
            exact code_replicate_blank _ _ _ ((ih rest hr _ st _).2.1 hl)
      · by_cases h0 : c0 = '*'
        · subst h0
          match rest, hr with
          | [], _ => rw [block_star_nil]; intro h; cases h
          | c1 :: rest', hr =>
            have hr' : rest'.length ≤ n := by simp at hr; omega
            by_cases h1 : c1 = '/'
            · subst h1; rw [block_star_slash]; intro h
              cases hl : code (off + 2) rest' with
              | error e => rw [hl] at h; cases h
              | ok o' =>
                rw [hl] at h; injection h with h; subst h
                exact two _ ((ih rest' hr' _ st _).1 hl)
            · rw [block_star_other _ _ _ _ h1]; intro h
              cases hl : block st (off + 1) (c1 :: rest') with
              | error e => rw [hl] at h; cases h
              | ok o' =>
                rw [hl] at h; injection h with h; subst h
                intro off'
                exact code_replicate_blank 1 _ _ ((ih (c1 :: rest') hr _ st _).2.2 hl)
        · rw [block_other _ _ _ _ h0]; intro h
          cases hl : block st (off + c0.utf8Size) rest with
          | error e => rw [hl] at h; cases h
          | ok o' =>
            rw [hl] at h; injection h with h; subst h
            intro off'
            exact code_replicate_blank _ _ _ ((ih rest hr _ st _).2.2 hl)


end Circomspect.StripLemmas
