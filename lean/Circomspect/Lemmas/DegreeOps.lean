/-
C07 — degree claims are sound (the operator tables and their lifting to ranges).

`Gen/ImplTables.lean` is the *graph of the running code*: `vharness tables` executes the real
`Degree` / `DegreeRange` functions over their whole (finite) domain on every run.  The theorems
below are therefore re-checked against what the code does now:
* the hand model `Propagate.degOp` / `rangeOp` (used by the propagation model) equals the code
  on the whole domain;
* the code's degree is exactly the degree of Circom's expression algebra (`Algebra.alg`), for
  all 23 operators and all operand degrees — in particular `~` and `!` of a non-constant
  operand are non-quadratic;
* lifting to ranges is sound: whatever the true degrees within the operand ranges, the
  algebra's degree is at most the upper end of the result range (monotonicity).
The expression- and path-level statements are in `Props/C06.lean`/`C20.lean` (shared
propagation model) and in the correspondence run of `checks/c07.py`.
-/
import Circomspect.Gen.ImplTables
import Circomspect.Spec.Algebra
import Circomspect.Model.Propagate

namespace Circomspect.C07ops
open Circomspect Gen Algebra Propagate

/-- the model of the operator tables is the code, on the whole domain -/
theorem C07_model_is_code :
    implDegOp.all (fun r => degOp r.1 r.2.1 r.2.2.1 == r.2.2.2) = true ∧
    implDegPrefix.all (fun r => degPrefix r.1 r.2.1 == r.2.2) = true ∧
    implRangeOp.all (fun r => rangeOp r.1 r.2.1 r.2.2.1 == r.2.2.2) = true ∧
    implRangePrefix.all (fun r => rangePrefix r.1 r.2.1 == r.2.2) = true ∧
    implRangeInf.all (fun r => rangeInf r.1 r.2.1 == r.2.2) = true := by
  refine ⟨by decide +kernel, by decide +kernel, by decide +kernel, by decide +kernel, by decide +kernel⟩

/-- every operator of the language and every pair of operand degrees is in the table -/
theorem C07_table_complete :
    infixOps.all (fun op => (List.range 4).all (fun a => (List.range 4).all (fun b =>
      implDegOp.any (fun r => r.1 == op && r.2.1 == a && r.2.2.1 == b)))) = true ∧
    prefixOps.all (fun op => (List.range 4).all (fun a => implDegPrefix.any (fun r => r.1 == op && r.2.1 == a))) = true := by
  refine ⟨by decide +kernel, by decide +kernel⟩

/-- the code's transfer function is Circom's algebra, row by row (this *is* the quantifier: the
    table is the whole function) -/
theorem C07_table :
    implDegOp.all (fun r => alg r.1 r.2.1 r.2.2.1 == r.2.2.2) = true ∧
    implDegPrefix.all (fun r => algPrefix r.1 r.2.1 == r.2.2) = true := by
  refine ⟨by decide +kernel, by decide +kernel⟩

theorem degOp_le3 (op : String) (a b : Nat) (ha : a ≤ 3) (hb : b ≤ 3) : degOp op a b ≤ 3 := by
  unfold degOp; simp only [Nat.max_def]; (repeat' split) <;> omega

/-- the operator tables are monotone in both operands -/
theorem degOp_mono (op : String) (a a' b b' : Nat) (ha : a ≤ a') (hb : b ≤ b') (ha' : a' ≤ 3) (hb' : b' ≤ 3) :
    degOp op a b ≤ degOp op a' b' := by
  unfold degOp; simp only [Nat.max_def]; (repeat' split) <;> omega

theorem degPrefix_mono (op : String) (a a' : Nat) (ha : a ≤ a') : degPrefix op a ≤ degPrefix op a' := by
  unfold degPrefix; (repeat' split) <;> omega

theorem alg_eq_degOp (op : String) (a b : Nat) (ha : a ≤ 3) (hb : b ≤ 3) : alg op a b = degOp op a b := by
  unfold alg degOp
  by_cases h1 : op = "add"
  · subst h1; simp
  · by_cases h2 : op = "sub"
    · subst h2; simp
    · by_cases h3 : op = "mul"
      · subst h3; simp only [h1, h2, or_self, if_false, if_true]
        simp only [Nat.min_def]; (repeat' split) <;> omega
      · simp only [h1, h2, h3, or_self, if_false]

/-- Range soundness for all 20 infix operators: if the true degrees lie below the upper ends of the
    operand ranges, the algebra's degree lies below the upper end of the computed range. -/
theorem C07_range (op : String) (r s : Ir.Range) (d₁ d₂ : Nat) (h₁ : d₁ ≤ r.2) (h₂ : d₂ ≤ s.2)
    (hr : r.2 ≤ 3) (hs : s.2 ≤ 3) : alg op d₁ d₂ ≤ (rangeOp op r s).2 := by
  rw [alg_eq_degOp op d₁ d₂ (by omega) (by omega)]
  exact degOp_mono op d₁ r.2 d₂ s.2 h₁ h₂ hr hs

theorem C07_range_prefix (op : String) (r : Ir.Range) (d : Nat) (h : d ≤ r.2) (hop : op ∈ prefixOps) :
    algPrefix op d ≤ (rangePrefix op r).2 := by
  have e : algPrefix op d = degPrefix op d := by
    unfold algPrefix degPrefix
    simp only [prefixOps, List.mem_cons, List.not_mem_nil, or_false] at hop
    rcases hop with h | h | h <;> subst h <;> simp
  rw [e]; exact degPrefix_mono op d r.2 h

/-- joins (`DegreeRange::inf`, used for phi, arrays and ternaries) keep upper bounds -/
theorem C07_inf (r s : Ir.Range) : r.2 ≤ (rangeInf r s).2 ∧ s.2 ≤ (rangeInf r s).2 := by
  unfold rangeInf; simp only [Nat.max_def]; split <;> omega

/-- the two rows repaired by a `fix:` commit: `~x` and `!x` of a non-constant `x` -/
example : algPrefix "compl" 1 = 3 ∧ algPrefix "not" 1 = 3 ∧ degPrefix "compl" 1 = 3 := by decide

end Circomspect.C07ops
