/-
C13, trace inclusion: the statements a structured program executes under a sequence of decisions,
up to its first `return`, are a prefix of the walk of the lifted CFG under the same decisions.

Part 1 (this file, first half): a small-step *path* relation on a block vector, stable under the later
steps of the construction, and its link to the block-at-a-time `Trace.walk`.
Part 2: the lifting produces, for every statement and every run, a path with the run's trace.
-/
import Circomspect.Spec.Trace
import Circomspect.Lemmas.CfgLemmas
set_option linter.unusedSimpArgs false
set_option linter.unusedVariables false
namespace Circomspect.TracePaths
open Circomspect CfgLift Trace CfgLemmas

/-- where a path ends: at offset `a` of block `i`, or on the (not yet resolved) false edge of the
    branch that ends block `i` -/
inductive End
  | at (i a : Nat)
  | fe (i : Nat)
  deriving DecidableEq, Repr

/-- the false target of a block ending in `branch _ t f`, exactly as `Trace.walk` computes it -/
def falseTgt (b : Block) (t : Nat) (f : Option Nat) : Option Nat :=
  match f with
  | some j => some j
  | none => (b.succs.filter (· != t)).head?

def trailingBranch (b : Block) : Bool :=
  match b.stmts.getLast? with
  | some (.branch _ _ _) => true
  | _ => false

/-- paths: from offset `a` of block `i`, emitting `tr` and consuming the decisions `ds` down to `ds'` -/
inductive Path (G : List Block) : Nat → Nat → List Loc → List Bool → List Bool → End → Prop
  | here (i a : Nat) (ds : List Bool) : Path G i a [] ds ds (.at i a)
  | simple (i a : Nat) (b : Block) (loc : Loc) (tr : List Loc) (ds ds' : List Bool) (e : End) :
      G[i]? = some b → b.stmts[a]? = some (.simple loc) → Path G i (a + 1) tr ds ds' e → Path G i a (loc :: tr) ds ds' e
  | brT (i a : Nat) (b : Block) (loc : Loc) (t : Nat) (f : Option Nat) (tr : List Loc) (ds ds' : List Bool) (e : End) :
      G[i]? = some b → b.stmts[a]? = some (.branch loc t f) → a + 1 = b.stmts.length →
      Path G t 0 tr ds ds' e → Path G i a (loc :: tr) (true :: ds) ds' e
  | brF (i a : Nat) (b : Block) (loc : Loc) (t : Nat) (f : Option Nat) (ds : List Bool) :
      G[i]? = some b → b.stmts[a]? = some (.branch loc t f) → a + 1 = b.stmts.length →
      Path G i a [loc] (false :: ds) ds (.fe i)
  | brFgo (i a : Nat) (b : Block) (loc : Loc) (t : Nat) (f : Option Nat) (j : Nat) (tr : List Loc) (ds ds' : List Bool) (e : End) :
      G[i]? = some b → b.stmts[a]? = some (.branch loc t f) → a + 1 = b.stmts.length → falseTgt b t f = some j →
      Path G j 0 tr ds ds' e → Path G i a (loc :: tr) (false :: ds) ds' e
  | fall (i a : Nat) (b : Block) (j : Nat) (tr : List Loc) (ds ds' : List Bool) (e : End) :
      G[i]? = some b → a = b.stmts.length → trailingBranch b = false → b.succs = [j] →
      Path G j 0 tr ds ds' e → Path G i a tr ds ds' e

/-- concatenation at a position -/
theorem Path.trans {G : List Block} {i a : Nat} {tr₁ : List Loc} {ds ds₁ : List Bool} {j c : Nat}
    (h₁ : Path G i a tr₁ ds ds₁ (.at j c)) :
    ∀ {tr₂ : List Loc} {ds₂ : List Bool} {e : End}, Path G j c tr₂ ds₁ ds₂ e → Path G i a (tr₁ ++ tr₂) ds ds₂ e := by
  generalize he : End.at j c = e₁ at h₁
  induction h₁ with
  | here i a ds => intro tr₂ ds₂ e h₂; cases he; exact h₂
  | simple i a b loc tr ds ds' e hb hs _ ih => intro tr₂ ds₂ e' h₂; exact .simple i a b loc _ ds ds₂ e' hb hs (ih he h₂)
  | brT i a b loc t f tr ds ds' e hb hs hl _ ih => intro tr₂ ds₂ e' h₂; exact .brT i a b loc t f _ ds ds₂ e' hb hs hl (ih he h₂)
  | brF i a b loc t f ds hb hs hl => cases he
  | brFgo i a b loc t f j' tr ds ds' e hb hs hl hf _ ih =>
    intro tr₂ ds₂ e' h₂; exact .brFgo i a b loc t f j' _ ds ds₂ e' hb hs hl hf (ih he h₂)
  | fall i a b j' tr ds ds' e hb ha htb hsu _ ih =>
    intro tr₂ ds₂ e' h₂; exact .fall i a b j' _ ds ds₂ e' hb ha htb hsu (ih he h₂)

/-- resolving a pending false edge -/
theorem Path.resolve {G : List Block} {i a : Nat} {tr₁ : List Loc} {ds ds₁ : List Bool} {k : Nat}
    (h₁ : Path G i a tr₁ ds ds₁ (.fe k)) :
    ∀ {b : Block} {loc : Loc} {t : Nat} {f : Option Nat} {j : Nat} {tr₂ : List Loc} {ds₂ : List Bool} {e : End},
      G[k]? = some b → b.stmts.getLast? = some (.branch loc t f) → falseTgt b t f = some j →
      Path G j 0 tr₂ ds₁ ds₂ e → Path G i a (tr₁ ++ tr₂) ds ds₂ e := by
  generalize he : End.fe k = e₁ at h₁
  induction h₁ with
  | here i a ds => cases he
  | simple i a b loc tr ds ds' e hb hs _ ih =>
    intro b' loc' t f j tr₂ ds₂ e' hk hl hf h₂
    exact .simple i a b loc _ ds ds₂ e' hb hs (ih he hk hl hf h₂)
  | brT i a b loc t f tr ds ds' e hb hs hl _ ih =>
    intro b' loc' t' f' j tr₂ ds₂ e' hk hl' hf h₂
    exact .brT i a b loc t f _ ds ds₂ e' hb hs hl (ih he hk hl' hf h₂)
  | brF i a b loc t f ds hb hs hl =>
    intro b' loc' t' f' j tr₂ ds₂ e' hk hl' hf h₂
    cases he
    rw [hb] at hk; cases hk
    have hlast : b.stmts.getLast? = some (.branch loc t f) := by
      rw [List.getLast?_eq_getElem?]
      have : b.stmts.length - 1 = a := by omega
      rw [this]; exact hs
    rw [hlast] at hl'; cases hl'
    exact .brFgo _ a b loc t f j tr₂ ds ds₂ e' hb hs hl hf h₂
  | brFgo i a b loc t f j' tr ds ds' e hb hs hl hf _ ih =>
    intro b' loc' t' f' j tr₂ ds₂ e' hk hl' hf' h₂
    exact .brFgo i a b loc t f j' _ ds ds₂ e' hb hs hl hf (ih he hk hl' hf' h₂)
  | fall i a b j' tr ds ds' e hb ha htb hsu _ ih =>
    intro b' loc' t' f' j tr₂ ds₂ e' hk hl' hf' h₂
    exact .fall i a b j' _ ds ds₂ e' hb ha htb hsu (ih he hk hl' hf' h₂)

-- ---------------------------------------------------------------------------- paths and `Trace.walk`

def locsOf (b : Block) : List Loc := b.stmts.map stmtLoc

theorem walk_none (G : List Block) (f cur : Nat) (ds : List Bool) (acc : List Loc) (h : G[cur]? = none) :
    walk G (f + 1) cur ds acc = acc := by
  unfold walk; simp only [h]

theorem walk_branch_true (G : List Block) (f cur : Nat) (ds : List Bool) (acc : List Loc) (b : Block) (l : Loc) (t : Nat)
    (fo : Option Nat) (h : G[cur]? = some b) (hl : b.stmts.getLast? = some (.branch l t fo)) :
    walk G (f + 1) cur (true :: ds) acc = walk G f t ds (acc ++ locsOf b) := by
  conv => lhs; unfold walk
  simp only [h, hl, if_true, locsOf]

theorem walk_branch_false (G : List Block) (f cur : Nat) (ds : List Bool) (acc : List Loc) (b : Block) (l : Loc) (t : Nat)
    (fo : Option Nat) (j : Nat) (h : G[cur]? = some b) (hl : b.stmts.getLast? = some (.branch l t fo))
    (hf : falseTgt b t fo = some j) :
    walk G (f + 1) cur (false :: ds) acc = walk G f j ds (acc ++ locsOf b) := by
  conv => lhs; unfold walk
  simp only [h, hl, locsOf, Bool.false_eq_true, if_false]
  cases fo with
  | some j' => simp only [falseTgt, Option.some.injEq] at hf; subst hf; rfl
  | none =>
    simp only [falseTgt] at hf
    cases hfl : b.succs.filter (· != t) with
    | nil => rw [hfl] at hf; simp at hf
    | cons j' r => rw [hfl] at hf; simp only [List.head?_cons, Option.some.injEq] at hf; subst hf; rfl

theorem walk_fall (G : List Block) (f cur : Nat) (ds : List Bool) (acc : List Loc) (b : Block) (j : Nat)
    (h : G[cur]? = some b) (htb : trailingBranch b = false) (hs : b.succs = [j]) :
    walk G (f + 1) cur ds acc = walk G f j ds (acc ++ locsOf b) := by
  conv => lhs; unfold walk
  simp only [h, locsOf]
  unfold trailingBranch at htb
  split
  · rename_i l t fo hl; rw [hl] at htb; cases htb
  · simp only [hs]

theorem walk_acc_prefix (G : List Block) : ∀ (f cur : Nat) (ds : List Bool) (acc : List Loc), acc <+: walk G f cur ds acc := by
  intro f
  induction f with
  | zero => intro cur ds acc; unfold walk; exact List.prefix_refl _
  | succ f ih =>
    intro cur ds acc
    unfold walk
    split
    · exact List.prefix_refl _
    · rename_i b hb
      simp only
      have hp : acc <+: acc ++ b.stmts.map stmtLoc := List.prefix_append _ _
      split
      · split
        · exact hp
        · split
          · exact hp.trans (ih _ _ _)
          · split
            · exact hp.trans (ih _ _ _)
            · split
              · exact hp.trans (ih _ _ _)
              · exact hp
      · split
        · exact hp.trans (ih _ _ _)
        · exact hp

/-- the statements of block `i` before offset `a` -/
def before (G : List Block) (i a : Nat) : List Loc :=
  match G[i]? with
  | some b => (b.stmts.take a).map stmtLoc
  | none => []

theorem before_zero (G : List Block) (i : Nat) : before G i 0 = [] := by
  unfold before; split <;> simp

theorem last_of_index (b : Block) (a : Nat) (s : IStmt) (hs : b.stmts[a]? = some s) (hl : a + 1 = b.stmts.length) :
    b.stmts.getLast? = some s := by
  rw [List.getLast?_eq_getElem?]
  have : b.stmts.length - 1 = a := by omega
  rw [this]; exact hs

theorem before_succ (G : List Block) (i a : Nat) (b : Block) (s : IStmt) (hb : G[i]? = some b) (hs : b.stmts[a]? = some s) :
    before G i (a + 1) = before G i a ++ [stmtLoc s] := by
  unfold before; simp only [hb]
  rw [List.take_add_one, hs]; simp

theorem before_full (G : List Block) (i a : Nat) (b : Block) (hb : G[i]? = some b) (ha : b.stmts.length ≤ a) :
    before G i a = locsOf b := by
  unfold before locsOf; simp only [hb]; rw [List.take_of_length_le ha]

theorem before_prefix (G : List Block) (i a : Nat) (b : Block) (hb : G[i]? = some b) : before G i a <+: locsOf b := by
  unfold before locsOf; simp only [hb]
  exact List.IsPrefix.map _ (List.take_prefix _ _)

/-- every path is followed by the walk: with enough fuel, what the path has emitted is a prefix of what the
    walk returns -/
theorem path_walk (G : List Block) {i a : Nat} {tr : List Loc} {ds ds' : List Bool} {e : End}
    (h : Path G i a tr ds ds' e) :
    ∃ N, ∀ fuel, N ≤ fuel → ∀ acc, (acc ++ before G i a ++ tr) <+: walk G fuel i ds acc := by
  induction h with
  | here i a ds =>
    refine ⟨1, ?_⟩
    intro fuel hf acc
    obtain ⟨f, rfl⟩ : ∃ f, fuel = f + 1 := ⟨fuel - 1, by omega⟩
    simp only [List.append_nil]
    cases hb : G[i]? with
    | none => rw [walk_none G f i ds acc hb]; unfold before; simp [hb]
    | some b =>
      have h1 : acc ++ before G i a <+: acc ++ locsOf b := by
        exact (List.prefix_append_right_inj acc).mpr (before_prefix G i a b hb)
      -- the walk extends `acc ++ locsOf b`
      have h2 : acc ++ locsOf b <+: walk G (f + 1) i ds acc := by
        unfold walk; simp only [hb, locsOf]
        have hp := List.prefix_refl (acc ++ b.stmts.map stmtLoc)
        split
        · split
          · exact hp
          · split
            · exact walk_acc_prefix _ _ _ _ _
            · split
              · exact walk_acc_prefix _ _ _ _ _
              · split
                · exact walk_acc_prefix _ _ _ _ _
                · exact hp
        · split
          · exact walk_acc_prefix _ _ _ _ _
          · exact hp
      exact h1.trans h2
  | simple i a b loc tr ds ds' e hb hs _ ih =>
    obtain ⟨N, hN⟩ := ih
    refine ⟨N, ?_⟩
    intro fuel hf acc
    have := hN fuel hf acc
    rw [before_succ G i a b _ hb hs] at this
    simpa [stmtLoc, List.append_assoc] using this
  | brT i a b loc t f tr ds ds' e hb hs hl _ ih =>
    obtain ⟨N, hN⟩ := ih
    refine ⟨N + 1, ?_⟩
    intro fuel hf acc
    obtain ⟨f', rfl⟩ : ∃ f', fuel = f' + 1 := ⟨fuel - 1, by omega⟩
    rw [walk_branch_true G f' i ds acc b loc t f hb (last_of_index b a _ hs hl)]
    have := hN f' (by omega) (acc ++ locsOf b)
    rw [before_zero] at this
    have hfull : before G i a ++ [loc] = locsOf b := by
      have := before_succ G i a b _ hb hs
      rw [before_full G i (a + 1) b hb (by omega)] at this
      simpa [stmtLoc] using this.symm
    rw [← hfull]
    rw [← hfull] at this
    simpa [List.append_assoc] using this
  | brF i a b loc t f ds hb hs hl =>
    refine ⟨1, ?_⟩
    intro fuel hf acc
    obtain ⟨f', rfl⟩ : ∃ f', fuel = f' + 1 := ⟨fuel - 1, by omega⟩
    have hfull : before G i a ++ [loc] = locsOf b := by
      have := before_succ G i a b _ hb hs
      rw [before_full G i (a + 1) b hb (by omega)] at this
      simpa [stmtLoc] using this.symm
    have h1 : acc ++ before G i a ++ [loc] = acc ++ locsOf b := by rw [List.append_assoc, hfull]
    rw [h1]
    unfold walk; simp only [hb, locsOf, last_of_index b a _ hs hl, Bool.false_eq_true, if_false]
    have hp := List.prefix_refl (acc ++ b.stmts.map stmtLoc)
    split
    · exact walk_acc_prefix _ _ _ _ _
    · split
      · exact walk_acc_prefix _ _ _ _ _
      · exact hp
  | brFgo i a b loc t f j tr ds ds' e hb hs hl hf _ ih =>
    obtain ⟨N, hN⟩ := ih
    refine ⟨N + 1, ?_⟩
    intro fuel hfu acc
    obtain ⟨f', rfl⟩ : ∃ f', fuel = f' + 1 := ⟨fuel - 1, by omega⟩
    rw [walk_branch_false G f' i ds acc b loc t f j hb (last_of_index b a _ hs hl) hf]
    have := hN f' (by omega) (acc ++ locsOf b)
    rw [before_zero] at this
    have hfull : before G i a ++ [loc] = locsOf b := by
      have := before_succ G i a b _ hb hs
      rw [before_full G i (a + 1) b hb (by omega)] at this
      simpa [stmtLoc] using this.symm
    rw [← hfull]
    rw [← hfull] at this
    simpa [List.append_assoc] using this
  | fall i a b j tr ds ds' e hb ha htb hsu _ ih =>
    obtain ⟨N, hN⟩ := ih
    refine ⟨N + 1, ?_⟩
    intro fuel hfu acc
    obtain ⟨f', rfl⟩ : ∃ f', fuel = f' + 1 := ⟨fuel - 1, by omega⟩
    rw [walk_fall G f' i ds acc b j hb htb hsu]
    have := hN f' (by omega) (acc ++ locsOf b)
    rw [before_zero] at this
    rw [before_full G i a b hb (by omega)]
    simpa [List.append_assoc] using this

-- ---------------------------------------------------------------------------- block classes and extension

/-- a block without a trailing branch and without a successor: statements may still be appended, or it
    is a pending fall-through exit -/
def PlainOpen (b : Block) : Prop := trailingBranch b = false ∧ b.succs = []

/-- block `i` ends in a branch whose false edge is not resolved yet -/
def BranchOpen (i : Nat) (b : Block) : Prop :=
  ∃ init l, b.stmts = init ++ [IStmt.branch l (i + 1) none] ∧ b.succs = [i + 1]

/-- all edges the walk can take out of the block are in place -/
def Closed (b : Block) : Prop :=
  (trailingBranch b = false ∧ ∃ j, b.succs = [j]) ∨
  (∃ l t f j, b.stmts.getLast? = some (IStmt.branch l t f) ∧ falseTgt b t f = some j)

theorem plainOpen_not_closed {b : Block} (h : PlainOpen b) : ¬ Closed b := by
  rintro (⟨_, j, hj⟩ | ⟨l, t, f, j, hl, _⟩)
  · rw [h.2] at hj; cases hj
  · have := h.1; simp [trailingBranch, hl] at this

theorem branchOpen_last {i : Nat} {b : Block} (h : BranchOpen i b) :
    ∃ l, b.stmts.getLast? = some (IStmt.branch l (i + 1) none) := by
  obtain ⟨init, l, hs, _⟩ := h
  exact ⟨l, by rw [hs]; simp⟩

theorem branchOpen_not_closed {i : Nat} {b : Block} (h : BranchOpen i b) : ¬ Closed b := by
  obtain ⟨l, hl⟩ := branchOpen_last h
  obtain ⟨init, l', hs, hsu⟩ := h
  rintro (⟨ht, _⟩ | ⟨l2, t, f, j, hl2, hf⟩)
  · simp [trailingBranch, hl] at ht
  · rw [hl] at hl2; cases hl2
    simp [falseTgt, hsu] at hf

/-- how the statements of a not-yet-closed block may still change: statements are appended (only while
    it has no trailing branch) and an open false target gets resolved -/
def StmtsExt (b b' : Block) : Prop :=
  (∀ (a : Nat) (s : IStmt), b.stmts[a]? = some s →
    b'.stmts[a]? = some s ∨ ∃ l t j, s = IStmt.branch l t none ∧ b'.stmts[a]? = some (IStmt.branch l t (some j))) ∧
  (trailingBranch b = true → b'.stmts.length = b.stmts.length)

def BlockExt (b b' : Block) : Prop :=
  (Closed b → b'.stmts = b.stmts ∧ b'.succs = b.succs) ∧ (¬ Closed b → StmtsExt b b')

/-- `G'` is a later stage of the construction of `G` -/
def Ext (G G' : List Block) : Prop :=
  ∀ (i : Nat) (b : Block), G[i]? = some b → ∃ b' : Block, G'[i]? = some b' ∧ BlockExt b b'

theorem stmtsExt_refl (b : Block) : StmtsExt b b := ⟨fun _ _ h => Or.inl h, fun _ => rfl⟩
theorem blockExt_refl (b : Block) : BlockExt b b := ⟨fun _ => ⟨rfl, rfl⟩, fun _ => stmtsExt_refl b⟩
theorem Ext.refl (G : List Block) : Ext G G := fun i b h => ⟨b, h, blockExt_refl b⟩

theorem trailing_iff (b : Block) : trailingBranch b = true ↔ ∃ l t f, b.stmts.getLast? = some (IStmt.branch l t f) := by
  unfold trailingBranch
  constructor
  · intro h
    split at h
    · rename_i l t f hl; exact ⟨l, t, f, hl⟩
    · cases h
  · rintro ⟨l, t, f, hl⟩; rw [hl]

theorem stmtsExt_trailing {b b' : Block} (h : StmtsExt b b') (ht : trailingBranch b = true) : trailingBranch b' = true := by
  obtain ⟨l, t, f, hl⟩ := (trailing_iff b).mp ht
  have hlen := h.2 ht
  rw [List.getLast?_eq_getElem?] at hl
  rcases h.1 _ _ hl with h1 | ⟨l', t', j, h1, h2⟩
  · apply (trailing_iff b').mpr
    refine ⟨l, t, f, ?_⟩
    rw [List.getLast?_eq_getElem?, hlen]; exact h1
  · apply (trailing_iff b').mpr
    refine ⟨l', t', some j, ?_⟩
    rw [List.getLast?_eq_getElem?, hlen]; exact h2

theorem stmtsExt_trans {b b' b'' : Block} (h₁ : StmtsExt b b') (h₂ : StmtsExt b' b'') : StmtsExt b b'' := by
  refine ⟨?_, ?_⟩
  · intro a s hs
    rcases h₁.1 a s hs with h | ⟨l, t, j, e, h⟩
    · rcases h₂.1 a s h with h' | ⟨l, t, j, e, h'⟩
      · exact Or.inl h'
      · exact Or.inr ⟨l, t, j, e, h'⟩
    · rcases h₂.1 a _ h with h' | ⟨l', t', j', e', h'⟩
      · exact Or.inr ⟨l, t, j, e, h'⟩
      · cases e'
  · intro ht
    rw [h₂.2 (stmtsExt_trailing h₁ ht), h₁.2 ht]

theorem closed_congr {b b' : Block} (hs : b'.stmts = b.stmts) (hu : b'.succs = b.succs) (h : Closed b) : Closed b' := by
  rcases h with ⟨h1, j, hj⟩ | ⟨l, t, f, j, hl, hf⟩
  · exact Or.inl ⟨by simpa [trailingBranch, hs] using h1, j, by rw [hu]; exact hj⟩
  · exact Or.inr ⟨l, t, f, j, by rw [hs]; exact hl, by simpa [falseTgt, hu] using hf⟩

theorem Ext.trans {G G' G'' : List Block} (h₁ : Ext G G') (h₂ : Ext G' G'') : Ext G G'' := by
  intro i b hb
  obtain ⟨b', hb', e₁⟩ := h₁ i b hb
  obtain ⟨b'', hb'', e₂⟩ := h₂ i b' hb'
  refine ⟨b'', hb'', ?_, ?_⟩
  · intro hc
    obtain ⟨s1, u1⟩ := e₁.1 hc
    obtain ⟨s2, u2⟩ := e₂.1 (closed_congr s1 u1 hc)
    exact ⟨by rw [s2, s1], by rw [u2, u1]⟩
  · intro hc
    have x₁ := e₁.2 hc
    by_cases hc' : Closed b'
    · obtain ⟨s2, _⟩ := e₂.1 hc'
      refine ⟨?_, ?_⟩
      · intro a s hs; rw [s2]; exact x₁.1 a s hs
      · intro ht; rw [s2]; exact x₁.2 ht
    · exact stmtsExt_trans x₁ (e₂.2 hc')

/-- paths survive the later stages of the construction -/
theorem Path.mono {G G' : List Block} (hx : Ext G G') {i a : Nat} {tr : List Loc} {ds ds' : List Bool} {e : End}
    (h : Path G i a tr ds ds' e) : Path G' i a tr ds ds' e := by
  induction h with
  | here i a ds => exact .here i a ds
  | simple i a b loc tr ds ds' e hb hs _ ih =>
    obtain ⟨b', hb', ex⟩ := hx i b hb
    have : b'.stmts[a]? = some (.simple loc) := by
      by_cases hc : Closed b
      · rw [(ex.1 hc).1]; exact hs
      · rcases (ex.2 hc).1 a _ hs with h | ⟨l, t, j, e', _⟩
        · exact h
        · cases e'
    exact .simple i a b' loc tr ds ds' e hb' this ih
  | brT i a b loc t f tr ds ds' e hb hs hl _ ih =>
    obtain ⟨b', hb', ex⟩ := hx i b hb
    by_cases hc : Closed b
    · exact .brT i a b' loc t f tr ds ds' e hb' (by rw [(ex.1 hc).1]; exact hs) (by rw [(ex.1 hc).1]; exact hl) ih
    · have ht : trailingBranch b = true := (trailing_iff b).mpr ⟨loc, t, f, last_of_index b a _ hs hl⟩
      have hlen := (ex.2 hc).2 ht
      rcases (ex.2 hc).1 a _ hs with h | ⟨l', t', j, e', h⟩
      · exact .brT i a b' loc t f tr ds ds' e hb' h (by omega) ih
      · cases e'; exact .brT i a b' loc t (some j) tr ds ds' e hb' h (by omega) ih
  | brF i a b loc t f ds hb hs hl =>
    obtain ⟨b', hb', ex⟩ := hx i b hb
    by_cases hc : Closed b
    · exact .brF i a b' loc t f ds hb' (by rw [(ex.1 hc).1]; exact hs) (by rw [(ex.1 hc).1]; exact hl)
    · have ht : trailingBranch b = true := (trailing_iff b).mpr ⟨loc, t, f, last_of_index b a _ hs hl⟩
      have hlen := (ex.2 hc).2 ht
      rcases (ex.2 hc).1 a _ hs with h | ⟨l', t', j, e', h⟩
      · exact .brF i a b' loc t f ds hb' h (by omega)
      · cases e'; exact .brF i a b' loc t (some j) ds hb' h (by omega)
  | brFgo i a b loc t f j tr ds ds' e hb hs hl hf _ ih =>
    obtain ⟨b', hb', ex⟩ := hx i b hb
    have hc : Closed b := Or.inr ⟨loc, t, f, j, last_of_index b a _ hs hl, hf⟩
    obtain ⟨s1, u1⟩ := ex.1 hc
    exact .brFgo i a b' loc t f j tr ds ds' e hb' (by rw [s1]; exact hs) (by rw [s1]; exact hl)
      (by simpa [falseTgt, u1] using hf) ih
  | fall i a b j tr ds ds' e hb ha htb hsu _ ih =>
    obtain ⟨b', hb', ex⟩ := hx i b hb
    have hc : Closed b := Or.inl ⟨htb, j, hsu⟩
    obtain ⟨s1, u1⟩ := ex.1 hc
    exact .fall i a b' j tr ds ds' e hb' (by rw [s1]; exact ha) (by simpa [trailingBranch, s1] using htb) (by rw [u1]; exact hsu) ih

-- ---------------------------------------------------------------------------- the three primitive operations, block by block

theorem appendStmt_get (bs : List Block) (s : IStmt) (i : Nat) :
    (appendStmt bs s)[i]? = (bs[i]?).map (fun b => if i = bs.length - 1 then { b with stmts := b.stmts ++ [s] } else b) := by
  unfold appendStmt CfgLift.modify
  rw [List.getElem?_mapIdx]

def completed (j : Nat) (ps : List Nat) (i : Nat) (b : Block) : Block :=
  if ps.contains i then patchFalse { b with succs := insertSorted j b.succs } j else b

theorem completeBlock_get_lt (bs : List Block) (ps : List Nat) (d i : Nat) (hi : i < bs.length) :
    (completeBlock bs ps d)[i]? = (bs[i]?).map (completed bs.length ps i) := by
  unfold completeBlock
  simp only
  rw [List.getElem?_append_left (by simpa using hi), List.getElem?_mapIdx]
  rfl

theorem completeBlock_get_new (bs : List Block) (ps : List Nat) (d : Nat) :
    (completeBlock bs ps d)[bs.length]? = some { depth := d, stmts := [], preds := union ps [], succs := [] } := by
  unfold completeBlock
  simp only
  rw [List.getElem?_append_right (by simp)]
  simp

def edged (fs : List Nat) (h i : Nat) (b : Block) : Block :=
  let b := if fs.contains i then { b with succs := insertSorted h b.succs } else b
  if i = h then { b with preds := union fs b.preds } else b

theorem addEdges_get (bs : List Block) (fs : List Nat) (h i : Nat) :
    (addEdges bs fs h)[i]? = (bs[i]?).map (edged fs h i) := by
  unfold addEdges
  rw [List.getElem?_mapIdx]
  rfl

theorem edged_stmts (fs : List Nat) (h i : Nat) (b : Block) : (edged fs h i b).stmts = b.stmts := by
  unfold edged; simp only; split <;> split <;> rfl

theorem edged_succs (fs : List Nat) (h i : Nat) (b : Block) :
    (edged fs h i b).succs = if fs.contains i then insertSorted h b.succs else b.succs := by
  unfold edged; simp only; split <;> split <;> rfl

theorem patchFalse_succs (b : Block) (j : Nat) : (patchFalse b j).succs = b.succs := (patchFalse_edges b j).2

/-- a plain open block that is completed: same statements, the new block is its only successor -/
theorem completed_plain (j : Nat) (ps : List Nat) (i : Nat) (b : Block) (hp : PlainOpen b) (hi : i ∈ ps) :
    (completed j ps i b).stmts = b.stmts ∧ (completed j ps i b).succs = [j] := by
  have hc : ps.contains i = true := by simpa using hi
  unfold completed
  rw [if_pos hc]
  have hnb : ∀ l t, b.stmts.getLast? ≠ some (IStmt.branch l t none) := by
    intro l t h
    have := hp.1
    simp [trailingBranch, h] at this
  constructor
  · unfold patchFalse
    split
    · rename_i loc t heq; exact absurd heq (hnb loc t)
    · rfl
  · rw [patchFalse_succs]; simp [hp.2, insertSorted]

/-- an open branch block that is completed by a block other than its true target: the false target is
    resolved to the new block -/
theorem completed_branch (j : Nat) (ps : List Nat) (i : Nat) (b : Block) (hb : BranchOpen i b) (hi : i ∈ ps)
    (hj : i + 1 < j) :
    ∃ init l, b.stmts = init ++ [IStmt.branch l (i + 1) none] ∧
      (completed j ps i b).stmts = init ++ [IStmt.branch l (i + 1) (some j)] ∧ (completed j ps i b).succs = [i + 1, j] := by
  obtain ⟨init, l, hs, hsu⟩ := hb
  refine ⟨init, l, hs, ?_, ?_⟩
  · have hc : ps.contains i = true := by simpa using hi
    unfold completed
    rw [if_pos hc]
    unfold patchFalse
    simp only [hs, List.getLast?_append, List.getLast?_singleton, Option.some_or]
    have : (j != i + 1) = true := by simpa using (by omega : j ≠ i + 1)
    simp [this]
  · have hc : ps.contains i = true := by simpa using hi
    unfold completed
    rw [if_pos hc, patchFalse_succs]
    simp only [hsu, insertSorted]
    have h1 : ¬ j < i + 1 := by omega
    have h2 : ¬ j = i + 1 := by omega
    simp [h1, h2]

theorem completed_other (j : Nat) (ps : List Nat) (i : Nat) (b : Block) (hi : i ∉ ps) : completed j ps i b = b := by
  unfold completed
  have : ps.contains i = false := by simpa using hi
  rw [this]; rfl

theorem stmtsExt_of_eq {b b' : Block} (h : b'.stmts = b.stmts) : StmtsExt b b' :=
  ⟨fun a s hs => Or.inl (by rw [h]; exact hs), fun _ => by rw [h]⟩

theorem blockExt_of_open_eq {b b' : Block} (hc : ¬ Closed b) (h : b'.stmts = b.stmts) : BlockExt b b' :=
  ⟨fun c => absurd c hc, fun _ => stmtsExt_of_eq h⟩

theorem stmtsExt_patch (b b' : Block) (init : List IStmt) (l : Loc) (t j : Nat)
    (h : b.stmts = init ++ [IStmt.branch l t none]) (h' : b'.stmts = init ++ [IStmt.branch l t (some j)]) : StmtsExt b b' := by
  refine ⟨?_, fun _ => by rw [h, h']; simp⟩
  intro a s hs
  rw [h] at hs
  rw [h']
  by_cases ha : a < init.length
  · rw [List.getElem?_append_left ha] at hs ⊢; exact Or.inl hs
  · rw [List.getElem?_append_right (by omega)] at hs ⊢
    cases hk : a - init.length with
    | zero =>
      rw [hk] at hs; simp only [List.getElem?_cons_zero, Option.some.injEq] at hs
      exact Or.inr ⟨l, t, j, hs.symm, by simp⟩
    | succ k => rw [hk] at hs; simp at hs

/-- appending a statement to the (plain, open) current block -/
theorem ext_appendStmt (bs : List Block) (s : IStmt) (b : Block) (hb : bs[bs.length - 1]? = some b) (ho : PlainOpen b) :
    Ext bs (appendStmt bs s) := by
  intro i bi hi
  rw [appendStmt_get, hi]
  by_cases hl : i = bs.length - 1
  · subst hl
    rw [hb] at hi; cases hi
    refine ⟨{ b with stmts := b.stmts ++ [s] }, by simp, fun c => absurd c (plainOpen_not_closed ho), fun _ => ⟨?_, ?_⟩⟩
    · intro a s' hs
      left
      have : a < b.stmts.length := (List.getElem?_eq_some_iff.mp hs).1
      rw [List.getElem?_append_left this]; exact hs
    · intro ht; rw [ho.1] at ht; cases ht
  · exact ⟨bi, by simp [hl], blockExt_refl bi⟩

/-- what a pending exit looks like -/
def OpenAt (bs : List Block) (p : Nat) : Prop :=
  ∃ b, bs[p]? = some b ∧ (PlainOpen b ∨ (BranchOpen p b ∧ p + 1 < bs.length))

theorem ext_completeBlock (bs : List Block) (ps : List Nat) (d : Nat) (h : ∀ p, p ∈ ps → OpenAt bs p) :
    Ext bs (completeBlock bs ps d) := by
  intro i bi hi
  have hlt : i < bs.length := (List.getElem?_eq_some_iff.mp hi).1
  rw [completeBlock_get_lt bs ps d i hlt, hi]
  refine ⟨_, rfl, ?_⟩
  by_cases hp : i ∈ ps
  · obtain ⟨b, hb, hcls⟩ := h i hp
    rw [hi] at hb; cases hb
    rcases hcls with ho | ⟨ho, hlen⟩
    · exact blockExt_of_open_eq (plainOpen_not_closed ho) (completed_plain _ ps i bi ho hp).1
    · obtain ⟨init, l, hs, hs', _⟩ := completed_branch bs.length ps i bi ho hp hlen
      exact ⟨fun c => absurd c (branchOpen_not_closed ho), fun _ => stmtsExt_patch _ _ init l _ _ hs hs'⟩
  · rw [completed_other _ ps i bi hp]; exact blockExt_refl bi

theorem ext_addEdges (bs : List Block) (fs : List Nat) (hd : Nat) (h : ∀ p, p ∈ fs → OpenAt bs p) :
    Ext bs (addEdges bs fs hd) := by
  intro i bi hi
  rw [addEdges_get, hi]
  refine ⟨_, rfl, ?_, fun _ => stmtsExt_of_eq (edged_stmts fs hd i bi)⟩
  intro hc
  refine ⟨edged_stmts fs hd i bi, ?_⟩
  rw [edged_succs]
  by_cases hp : i ∈ fs
  · obtain ⟨b, hb, hcls⟩ := h i hp
    rw [hi] at hb; cases hb
    rcases hcls with ho | ⟨ho, _⟩
    · exact absurd hc (plainOpen_not_closed ho)
    · exact absurd hc (branchOpen_not_closed ho)
  · have : fs.contains i = false := by simpa using hp
    rw [this]; rfl

end Circomspect.TracePaths
