/-
C13, trace inclusion: the statements a structured program executes under a sequence of decisions,
up to its first `return`, are a prefix of the walk of the lifted CFG under the same decisions.

Part 1 (this file, first half): a small-step *path* relation on a block vector, stable under the later
steps of the construction, and its link to the block-at-a-time `Trace.walk`.
Part 2: the lifting produces, for every statement and every run, a path with the run's trace.
-/
import Circomspect.Spec.Trace
import Circomspect.Lemmas.CfgLemmas
set_option linter.unusedSimpArgs false
set_option linter.unusedVariables false
namespace Circomspect.TracePaths
open Circomspect CfgLift Trace CfgLemmas

/-- where a path ends: at offset `a` of block `i`, or on the (not yet resolved) false edge of the
    branch that ends block `i` -/
inductive End
  | at (i a : Nat)
  | fe (i : Nat)
  deriving DecidableEq, Repr

/-- the false target of a block ending in `branch _ t f`, exactly as `Trace.walk` computes it -/
def falseTgt (b : Block) (t : Nat) (f : Option Nat) : Option Nat :=
  match f with
  | some j => some j
  | none => (b.succs.filter (· != t)).head?

def trailingBranch (b : Block) : Bool :=
  match b.stmts.getLast? with
  | some (.branch _ _ _) => true
  | _ => false

/-- paths: from offset `a` of block `i`, emitting `tr` and consuming the decisions `ds` down to `ds'` -/
inductive Path (G : List Block) : Nat → Nat → List Loc → List Bool → List Bool → End → Prop
  | here (i a : Nat) (ds : List Bool) : Path G i a [] ds ds (.at i a)
  | simple (i a : Nat) (b : Block) (loc : Loc) (tr : List Loc) (ds ds' : List Bool) (e : End) :
      G[i]? = some b → b.stmts[a]? = some (.simple loc) → Path G i (a + 1) tr ds ds' e → Path G i a (loc :: tr) ds ds' e
  | brT (i a : Nat) (b : Block) (loc : Loc) (t : Nat) (f : Option Nat) (tr : List Loc) (ds ds' : List Bool) (e : End) :
      G[i]? = some b → b.stmts[a]? = some (.branch loc t f) → a + 1 = b.stmts.length →
      Path G t 0 tr ds ds' e → Path G i a (loc :: tr) (true :: ds) ds' e
  | brF (i a : Nat) (b : Block) (loc : Loc) (t : Nat) (f : Option Nat) (ds : List Bool) :
      G[i]? = some b → b.stmts[a]? = some (.branch loc t f) → a + 1 = b.stmts.length →
      Path G i a [loc] (false :: ds) ds (.fe i)
  | brFgo (i a : Nat) (b : Block) (loc : Loc) (t : Nat) (f : Option Nat) (j : Nat) (tr : List Loc) (ds ds' : List Bool) (e : End) :
      G[i]? = some b → b.stmts[a]? = some (.branch loc t f) → a + 1 = b.stmts.length → falseTgt b t f = some j →
      Path G j 0 tr ds ds' e → Path G i a (loc :: tr) (false :: ds) ds' e
  | fall (i a : Nat) (b : Block) (j : Nat) (tr : List Loc) (ds ds' : List Bool) (e : End) :
      G[i]? = some b → a = b.stmts.length → trailingBranch b = false → b.succs = [j] →
      Path G j 0 tr ds ds' e → Path G i a tr ds ds' e

/-- concatenation at a position -/
theorem Path.trans {G : List Block} {i a : Nat} {tr₁ : List Loc} {ds ds₁ : List Bool} {j c : Nat}
    (h₁ : Path G i a tr₁ ds ds₁ (.at j c)) :
    ∀ {tr₂ : List Loc} {ds₂ : List Bool} {e : End}, Path G j c tr₂ ds₁ ds₂ e → Path G i a (tr₁ ++ tr₂) ds ds₂ e := by
  generalize he : End.at j c = e₁ at h₁
  induction h₁ with
  | here i a ds => intro tr₂ ds₂ e h₂; cases he; exact h₂
  | simple i a b loc tr ds ds' e hb hs _ ih => intro tr₂ ds₂ e' h₂; exact .simple i a b loc _ ds ds₂ e' hb hs (ih he h₂)
  | brT i a b loc t f tr ds ds' e hb hs hl _ ih => intro tr₂ ds₂ e' h₂; exact .brT i a b loc t f _ ds ds₂ e' hb hs hl (ih he h₂)
  | brF i a b loc t f ds hb hs hl => cases he
  | brFgo i a b loc t f j' tr ds ds' e hb hs hl hf _ ih =>
    intro tr₂ ds₂ e' h₂; exact .brFgo i a b loc t f j' _ ds ds₂ e' hb hs hl hf (ih he h₂)
  | fall i a b j' tr ds ds' e hb ha htb hsu _ ih =>
    intro tr₂ ds₂ e' h₂; exact .fall i a b j' _ ds ds₂ e' hb ha htb hsu (ih he h₂)

/-- resolving a pending false edge -/
theorem Path.resolve {G : List Block} {i a : Nat} {tr₁ : List Loc} {ds ds₁ : List Bool} {k : Nat}
    (h₁ : Path G i a tr₁ ds ds₁ (.fe k)) :
    ∀ {b : Block} {loc : Loc} {t : Nat} {f : Option Nat} {j : Nat} {tr₂ : List Loc} {ds₂ : List Bool} {e : End},
      G[k]? = some b → b.stmts.getLast? = some (.branch loc t f) → falseTgt b t f = some j →
      Path G j 0 tr₂ ds₁ ds₂ e → Path G i a (tr₁ ++ tr₂) ds ds₂ e := by
  generalize he : End.fe k = e₁ at h₁
  induction h₁ with
  | here i a ds => cases he
  | simple i a b loc tr ds ds' e hb hs _ ih =>
    intro b' loc' t f j tr₂ ds₂ e' hk hl hf h₂
    exact .simple i a b loc _ ds ds₂ e' hb hs (ih he hk hl hf h₂)
  | brT i a b loc t f tr ds ds' e hb hs hl _ ih =>
    intro b' loc' t' f' j tr₂ ds₂ e' hk hl' hf h₂
    exact .brT i a b loc t f _ ds ds₂ e' hb hs hl (ih he hk hl' hf h₂)
  | brF i a b loc t f ds hb hs hl =>
    intro b' loc' t' f' j tr₂ ds₂ e' hk hl' hf h₂
    cases he
    rw [hb] at hk; cases hk
    have hlast : b.stmts.getLast? = some (.branch loc t f) := by
      rw [List.getLast?_eq_getElem?]
      have : b.stmts.length - 1 = a := by omega
      rw [this]; exact hs
    rw [hlast] at hl'; cases hl'
    exact .brFgo _ a b loc t f j tr₂ ds ds₂ e' hb hs hl hf h₂
  | brFgo i a b loc t f j' tr ds ds' e hb hs hl hf _ ih =>
    intro b' loc' t' f' j tr₂ ds₂ e' hk hl' hf' h₂
    exact .brFgo i a b loc t f j' _ ds ds₂ e' hb hs hl hf (ih he hk hl' hf' h₂)
  | fall i a b j' tr ds ds' e hb ha htb hsu _ ih =>
    intro b' loc' t' f' j tr₂ ds₂ e' hk hl' hf' h₂
    exact .fall i a b j' _ ds ds₂ e' hb ha htb hsu (ih he hk hl' hf' h₂)

-- ---------------------------------------------------------------------------- paths and `Trace.walk`

def locsOf (b : Block) : List Loc := b.stmts.map stmtLoc

theorem walk_none (G : List Block) (f cur : Nat) (ds : List Bool) (acc : List Loc) (h : G[cur]? = none) :
    walk G (f + 1) cur ds acc = acc := by
  unfold walk; simp only [h]

theorem walk_branch_true (G : List Block) (f cur : Nat) (ds : List Bool) (acc : List Loc) (b : Block) (l : Loc) (t : Nat)
    (fo : Option Nat) (h : G[cur]? = some b) (hl : b.stmts.getLast? = some (.branch l t fo)) :
    walk G (f + 1) cur (true :: ds) acc = walk G f t ds (acc ++ locsOf b) := by
  conv => lhs; unfold walk
  simp only [h, hl, if_true, locsOf]

theorem walk_branch_false (G : List Block) (f cur : Nat) (ds : List Bool) (acc : List Loc) (b : Block) (l : Loc) (t : Nat)
    (fo : Option Nat) (j : Nat) (h : G[cur]? = some b) (hl : b.stmts.getLast? = some (.branch l t fo))
    (hf : falseTgt b t fo = some j) :
    walk G (f + 1) cur (false :: ds) acc = walk G f j ds (acc ++ locsOf b) := by
  conv => lhs; unfold walk
  simp only [h, hl, locsOf, Bool.false_eq_true, if_false]
  cases fo with
  | some j' => simp only [falseTgt, Option.some.injEq] at hf; subst hf; rfl
  | none =>
    simp only [falseTgt] at hf
    cases hfl : b.succs.filter (· != t) with
    | nil => rw [hfl] at hf; simp at hf
    | cons j' r => rw [hfl] at hf; simp only [List.head?_cons, Option.some.injEq] at hf; subst hf; rfl

theorem walk_fall (G : List Block) (f cur : Nat) (ds : List Bool) (acc : List Loc) (b : Block) (j : Nat)
    (h : G[cur]? = some b) (htb : trailingBranch b = false) (hs : b.succs = [j]) :
    walk G (f + 1) cur ds acc = walk G f j ds (acc ++ locsOf b) := by
  conv => lhs; unfold walk
  simp only [h, locsOf]
  unfold trailingBranch at htb
  split
  · rename_i l t fo hl; rw [hl] at htb; cases htb
  · simp only [hs]

theorem walk_acc_prefix (G : List Block) : ∀ (f cur : Nat) (ds : List Bool) (acc : List Loc), acc <+: walk G f cur ds acc := by
  intro f
  induction f with
  | zero => intro cur ds acc; unfold walk; exact List.prefix_refl _
  | succ f ih =>
    intro cur ds acc
    unfold walk
    split
    · exact List.prefix_refl _
    · rename_i b hb
      simp only
      have hp : acc <+: acc ++ b.stmts.map stmtLoc := List.prefix_append _ _
      split
      · split
        · exact hp
        · split
          · exact hp.trans (ih _ _ _)
          · split
            · exact hp.trans (ih _ _ _)
            · split
              · exact hp.trans (ih _ _ _)
              · exact hp
      · split
        · exact hp.trans (ih _ _ _)
        · exact hp

/-- the statements of block `i` before offset `a` -/
def before (G : List Block) (i a : Nat) : List Loc :=
  match G[i]? with
  | some b => (b.stmts.take a).map stmtLoc
  | none => []

theorem before_zero (G : List Block) (i : Nat) : before G i 0 = [] := by
  unfold before; split <;> simp

theorem last_of_index (b : Block) (a : Nat) (s : IStmt) (hs : b.stmts[a]? = some s) (hl : a + 1 = b.stmts.length) :
    b.stmts.getLast? = some s := by
  rw [List.getLast?_eq_getElem?]
  have : b.stmts.length - 1 = a := by omega
  rw [this]; exact hs

theorem before_succ (G : List Block) (i a : Nat) (b : Block) (s : IStmt) (hb : G[i]? = some b) (hs : b.stmts[a]? = some s) :
    before G i (a + 1) = before G i a ++ [stmtLoc s] := by
  unfold before; simp only [hb]
  rw [List.take_add_one, hs]; simp

theorem before_full (G : List Block) (i a : Nat) (b : Block) (hb : G[i]? = some b) (ha : b.stmts.length ≤ a) :
    before G i a = locsOf b := by
  unfold before locsOf; simp only [hb]; rw [List.take_of_length_le ha]

theorem before_prefix (G : List Block) (i a : Nat) (b : Block) (hb : G[i]? = some b) : before G i a <+: locsOf b := by
  unfold before locsOf; simp only [hb]
  exact List.IsPrefix.map _ (List.take_prefix _ _)

/-- every path is followed by the walk: with enough fuel, what the path has emitted is a prefix of what the
    walk returns -/
theorem path_walk (G : List Block) {i a : Nat} {tr : List Loc} {ds ds' : List Bool} {e : End}
    (h : Path G i a tr ds ds' e) :
    ∃ N, ∀ fuel, N ≤ fuel → ∀ acc, (acc ++ before G i a ++ tr) <+: walk G fuel i ds acc := by
  induction h with
  | here i a ds =>
    refine ⟨1, ?_⟩
    intro fuel hf acc
    obtain ⟨f, rfl⟩ : ∃ f, fuel = f + 1 := ⟨fuel - 1, by omega⟩
    simp only [List.append_nil]
    cases hb : G[i]? with
    | none => rw [walk_none G f i ds acc hb]; unfold before; simp [hb]
    | some b =>
      have h1 : acc ++ before G i a <+: acc ++ locsOf b := by
        exact (List.prefix_append_right_inj acc).mpr (before_prefix G i a b hb)
      -- the walk extends `acc ++ locsOf b`
      have h2 : acc ++ locsOf b <+: walk G (f + 1) i ds acc := by
        unfold walk; simp only [hb, locsOf]
        have hp := List.prefix_refl (acc ++ b.stmts.map stmtLoc)
        split
        · split
          · exact hp
          · split
            · exact walk_acc_prefix _ _ _ _ _
            · split
              · exact walk_acc_prefix _ _ _ _ _
              · split
                · exact walk_acc_prefix _ _ _ _ _
                · exact hp
        · split
          · exact walk_acc_prefix _ _ _ _ _
          · exact hp
      exact h1.trans h2
  | simple i a b loc tr ds ds' e hb hs _ ih =>
    obtain ⟨N, hN⟩ := ih
    refine ⟨N, ?_⟩
    intro fuel hf acc
    have := hN fuel hf acc
    rw [before_succ G i a b _ hb hs] at this
    simpa [stmtLoc, List.append_assoc] using this
  | brT i a b loc t f tr ds ds' e hb hs hl _ ih =>
    obtain ⟨N, hN⟩ := ih
    refine ⟨N + 1, ?_⟩
    intro fuel hf acc
    obtain ⟨f', rfl⟩ : ∃ f', fuel = f' + 1 := ⟨fuel - 1, by omega⟩
    rw [walk_branch_true G f' i ds acc b loc t f hb (last_of_index b a _ hs hl)]
    have := hN f' (by omega) (acc ++ locsOf b)
    rw [before_zero] at this
    have hfull : before G i a ++ [loc] = locsOf b := by
      have := before_succ G i a b _ hb hs
      rw [before_full G i (a + 1) b hb (by omega)] at this
      simpa [stmtLoc] using this.symm
    rw [← hfull]
    rw [← hfull] at this
    simpa [List.append_assoc] using this
  | brF i a b loc t f ds hb hs hl =>
    refine ⟨1, ?_⟩
    intro fuel hf acc
    obtain ⟨f', rfl⟩ : ∃ f', fuel = f' + 1 := ⟨fuel - 1, by omega⟩
    have hfull : before G i a ++ [loc] = locsOf b := by
      have := before_succ G i a b _ hb hs
      rw [before_full G i (a + 1) b hb (by omega)] at this
      simpa [stmtLoc] using this.symm
    have h1 : acc ++ before G i a ++ [loc] = acc ++ locsOf b := by rw [List.append_assoc, hfull]
    rw [h1]
    unfold walk; simp only [hb, locsOf, last_of_index b a _ hs hl, Bool.false_eq_true, if_false]
    have hp := List.prefix_refl (acc ++ b.stmts.map stmtLoc)
    split
    · exact walk_acc_prefix _ _ _ _ _
    · split
      · exact walk_acc_prefix _ _ _ _ _
      · exact hp
  | brFgo i a b loc t f j tr ds ds' e hb hs hl hf _ ih =>
    obtain ⟨N, hN⟩ := ih
    refine ⟨N + 1, ?_⟩
    intro fuel hfu acc
    obtain ⟨f', rfl⟩ : ∃ f', fuel = f' + 1 := ⟨fuel - 1, by omega⟩
    rw [walk_branch_false G f' i ds acc b loc t f j hb (last_of_index b a _ hs hl) hf]
    have := hN f' (by omega) (acc ++ locsOf b)
    rw [before_zero] at this
    have hfull : before G i a ++ [loc] = locsOf b := by
      have := before_succ G i a b _ hb hs
      rw [before_full G i (a + 1) b hb (by omega)] at this
      simpa [stmtLoc] using this.symm
    rw [← hfull]
    rw [← hfull] at this
    simpa [List.append_assoc] using this
  | fall i a b j tr ds ds' e hb ha htb hsu _ ih =>
    obtain ⟨N, hN⟩ := ih
    refine ⟨N + 1, ?_⟩
    intro fuel hfu acc
    obtain ⟨f', rfl⟩ : ∃ f', fuel = f' + 1 := ⟨fuel - 1, by omega⟩
    rw [walk_fall G f' i ds acc b j hb htb hsu]
    have := hN f' (by omega) (acc ++ locsOf b)
    rw [before_zero] at this
    rw [before_full G i a b hb (by omega)]
    simpa [List.append_assoc] using this

-- ---------------------------------------------------------------------------- block classes and extension

/-- a block without a trailing branch and without a successor: statements may still be appended, or it
    is a pending fall-through exit -/
def PlainOpen (b : Block) : Prop := trailingBranch b = false ∧ b.succs = []

/-- block `i` ends in a branch whose false edge is not resolved yet -/
def BranchOpen (i : Nat) (b : Block) : Prop :=
  ∃ init l, b.stmts = init ++ [IStmt.branch l (i + 1) none] ∧ b.succs = [i + 1]

/-- all edges the walk can take out of the block are in place -/
def Closed (b : Block) : Prop :=
  (trailingBranch b = false ∧ ∃ j, b.succs = [j]) ∨
  (∃ l t f j, b.stmts.getLast? = some (IStmt.branch l t f) ∧ falseTgt b t f = some j)

theorem plainOpen_not_closed {b : Block} (h : PlainOpen b) : ¬ Closed b := by
  rintro (⟨_, j, hj⟩ | ⟨l, t, f, j, hl, _⟩)
  · rw [h.2] at hj; cases hj
  · have := h.1; simp [trailingBranch, hl] at this

theorem branchOpen_last {i : Nat} {b : Block} (h : BranchOpen i b) :
    ∃ l, b.stmts.getLast? = some (IStmt.branch l (i + 1) none) := by
  obtain ⟨init, l, hs, _⟩ := h
  exact ⟨l, by rw [hs]; simp⟩

theorem branchOpen_not_closed {i : Nat} {b : Block} (h : BranchOpen i b) : ¬ Closed b := by
  obtain ⟨l, hl⟩ := branchOpen_last h
  obtain ⟨init, l', hs, hsu⟩ := h
  rintro (⟨ht, _⟩ | ⟨l2, t, f, j, hl2, hf⟩)
  · simp [trailingBranch, hl] at ht
  · rw [hl] at hl2; cases hl2
    simp [falseTgt, hsu] at hf

/-- how the statements of a not-yet-closed block may still change: statements are appended (only while
    it has no trailing branch) and an open false target gets resolved -/
def StmtsExt (b b' : Block) : Prop :=
  (∀ (a : Nat) (s : IStmt), b.stmts[a]? = some s →
    b'.stmts[a]? = some s ∨ ∃ l t j, s = IStmt.branch l t none ∧ b'.stmts[a]? = some (IStmt.branch l t (some j))) ∧
  (trailingBranch b = true → b'.stmts.length = b.stmts.length)

def BlockExt (b b' : Block) : Prop :=
  (Closed b → b'.stmts = b.stmts ∧ b'.succs = b.succs) ∧ (¬ Closed b → StmtsExt b b')

/-- `G'` is a later stage of the construction of `G` -/
def Ext (G G' : List Block) : Prop :=
  ∀ (i : Nat) (b : Block), G[i]? = some b → ∃ b' : Block, G'[i]? = some b' ∧ BlockExt b b'

theorem stmtsExt_refl (b : Block) : StmtsExt b b := ⟨fun _ _ h => Or.inl h, fun _ => rfl⟩
theorem blockExt_refl (b : Block) : BlockExt b b := ⟨fun _ => ⟨rfl, rfl⟩, fun _ => stmtsExt_refl b⟩
theorem Ext.refl (G : List Block) : Ext G G := fun i b h => ⟨b, h, blockExt_refl b⟩

theorem trailing_iff (b : Block) : trailingBranch b = true ↔ ∃ l t f, b.stmts.getLast? = some (IStmt.branch l t f) := by
  unfold trailingBranch
  constructor
  · intro h
    split at h
    · rename_i l t f hl; exact ⟨l, t, f, hl⟩
    · cases h
  · rintro ⟨l, t, f, hl⟩; rw [hl]

theorem stmtsExt_trailing {b b' : Block} (h : StmtsExt b b') (ht : trailingBranch b = true) : trailingBranch b' = true := by
  obtain ⟨l, t, f, hl⟩ := (trailing_iff b).mp ht
  have hlen := h.2 ht
  rw [List.getLast?_eq_getElem?] at hl
  rcases h.1 _ _ hl with h1 | ⟨l', t', j, h1, h2⟩
  · apply (trailing_iff b').mpr
    refine ⟨l, t, f, ?_⟩
    rw [List.getLast?_eq_getElem?, hlen]; exact h1
  · apply (trailing_iff b').mpr
    refine ⟨l', t', some j, ?_⟩
    rw [List.getLast?_eq_getElem?, hlen]; exact h2

theorem stmtsExt_trans {b b' b'' : Block} (h₁ : StmtsExt b b') (h₂ : StmtsExt b' b'') : StmtsExt b b'' := by
  refine ⟨?_, ?_⟩
  · intro a s hs
    rcases h₁.1 a s hs with h | ⟨l, t, j, e, h⟩
    · rcases h₂.1 a s h with h' | ⟨l, t, j, e, h'⟩
      · exact Or.inl h'
      · exact Or.inr ⟨l, t, j, e, h'⟩
    · rcases h₂.1 a _ h with h' | ⟨l', t', j', e', h'⟩
      · exact Or.inr ⟨l, t, j, e, h'⟩
      · cases e'
  · intro ht
    rw [h₂.2 (stmtsExt_trailing h₁ ht), h₁.2 ht]

theorem closed_congr {b b' : Block} (hs : b'.stmts = b.stmts) (hu : b'.succs = b.succs) (h : Closed b) : Closed b' := by
  rcases h with ⟨h1, j, hj⟩ | ⟨l, t, f, j, hl, hf⟩
  · exact Or.inl ⟨by simpa [trailingBranch, hs] using h1, j, by rw [hu]; exact hj⟩
  · exact Or.inr ⟨l, t, f, j, by rw [hs]; exact hl, by simpa [falseTgt, hu] using hf⟩

theorem Ext.trans {G G' G'' : List Block} (h₁ : Ext G G') (h₂ : Ext G' G'') : Ext G G'' := by
  intro i b hb
  obtain ⟨b', hb', e₁⟩ := h₁ i b hb
  obtain ⟨b'', hb'', e₂⟩ := h₂ i b' hb'
  refine ⟨b'', hb'', ?_, ?_⟩
  · intro hc
    obtain ⟨s1, u1⟩ := e₁.1 hc
    obtain ⟨s2, u2⟩ := e₂.1 (closed_congr s1 u1 hc)
    exact ⟨by rw [s2, s1], by rw [u2, u1]⟩
  · intro hc
    have x₁ := e₁.2 hc
    by_cases hc' : Closed b'
    · obtain ⟨s2, _⟩ := e₂.1 hc'
      refine ⟨?_, ?_⟩
      · intro a s hs; rw [s2]; exact x₁.1 a s hs
      · intro ht; rw [s2]; exact x₁.2 ht
    · exact stmtsExt_trans x₁ (e₂.2 hc')

/-- paths survive the later stages of the construction -/
theorem Path.mono {G G' : List Block} (hx : Ext G G') {i a : Nat} {tr : List Loc} {ds ds' : List Bool} {e : End}
    (h : Path G i a tr ds ds' e) : Path G' i a tr ds ds' e := by
  induction h with
  | here i a ds => exact .here i a ds
  | simple i a b loc tr ds ds' e hb hs _ ih =>
    obtain ⟨b', hb', ex⟩ := hx i b hb
    have : b'.stmts[a]? = some (.simple loc) := by
      by_cases hc : Closed b
      · rw [(ex.1 hc).1]; exact hs
      · rcases (ex.2 hc).1 a _ hs with h | ⟨l, t, j, e', _⟩
        · exact h
        · cases e'
    exact .simple i a b' loc tr ds ds' e hb' this ih
  | brT i a b loc t f tr ds ds' e hb hs hl _ ih =>
    obtain ⟨b', hb', ex⟩ := hx i b hb
    by_cases hc : Closed b
    · exact .brT i a b' loc t f tr ds ds' e hb' (by rw [(ex.1 hc).1]; exact hs) (by rw [(ex.1 hc).1]; exact hl) ih
    · have ht : trailingBranch b = true := (trailing_iff b).mpr ⟨loc, t, f, last_of_index b a _ hs hl⟩
      have hlen := (ex.2 hc).2 ht
      rcases (ex.2 hc).1 a _ hs with h | ⟨l', t', j, e', h⟩
      · exact .brT i a b' loc t f tr ds ds' e hb' h (by omega) ih
      · cases e'; exact .brT i a b' loc t (some j) tr ds ds' e hb' h (by omega) ih
  | brF i a b loc t f ds hb hs hl =>
    obtain ⟨b', hb', ex⟩ := hx i b hb
    by_cases hc : Closed b
    · exact .brF i a b' loc t f ds hb' (by rw [(ex.1 hc).1]; exact hs) (by rw [(ex.1 hc).1]; exact hl)
    · have ht : trailingBranch b = true := (trailing_iff b).mpr ⟨loc, t, f, last_of_index b a _ hs hl⟩
      have hlen := (ex.2 hc).2 ht
      rcases (ex.2 hc).1 a _ hs with h | ⟨l', t', j, e', h⟩
      · exact .brF i a b' loc t f ds hb' h (by omega)
      · cases e'; exact .brF i a b' loc t (some j) ds hb' h (by omega)
  | brFgo i a b loc t f j tr ds ds' e hb hs hl hf _ ih =>
    obtain ⟨b', hb', ex⟩ := hx i b hb
    have hc : Closed b := Or.inr ⟨loc, t, f, j, last_of_index b a _ hs hl, hf⟩
    obtain ⟨s1, u1⟩ := ex.1 hc
    exact .brFgo i a b' loc t f j tr ds ds' e hb' (by rw [s1]; exact hs) (by rw [s1]; exact hl)
      (by simpa [falseTgt, u1] using hf) ih
  | fall i a b j tr ds ds' e hb ha htb hsu _ ih =>
    obtain ⟨b', hb', ex⟩ := hx i b hb
    have hc : Closed b := Or.inl ⟨htb, j, hsu⟩
    obtain ⟨s1, u1⟩ := ex.1 hc
    exact .fall i a b' j tr ds ds' e hb' (by rw [s1]; exact ha) (by simpa [trailingBranch, s1] using htb) (by rw [u1]; exact hsu) ih

-- ---------------------------------------------------------------------------- the three primitive operations, block by block

theorem appendStmt_get (bs : List Block) (s : IStmt) (i : Nat) :
    (appendStmt bs s)[i]? = (bs[i]?).map (fun b => if i = bs.length - 1 then { b with stmts := b.stmts ++ [s] } else b) := by
  unfold appendStmt CfgLift.modify
  rw [List.getElem?_mapIdx]

def completed (j : Nat) (ps : List Nat) (i : Nat) (b : Block) : Block :=
  if ps.contains i then patchFalse { b with succs := insertSorted j b.succs } j else b

theorem completeBlock_get_lt (bs : List Block) (ps : List Nat) (d i : Nat) (hi : i < bs.length) :
    (completeBlock bs ps d)[i]? = (bs[i]?).map (completed bs.length ps i) := by
  unfold completeBlock
  simp only
  rw [List.getElem?_append_left (by simpa using hi), List.getElem?_mapIdx]
  rfl

theorem completeBlock_get_new (bs : List Block) (ps : List Nat) (d : Nat) :
    (completeBlock bs ps d)[bs.length]? = some { depth := d, stmts := [], preds := union ps [], succs := [] } := by
  unfold completeBlock
  simp only
  rw [List.getElem?_append_right (by simp)]
  simp

def edged (fs : List Nat) (h i : Nat) (b : Block) : Block :=
  let b := if fs.contains i then { b with succs := insertSorted h b.succs } else b
  if i = h then { b with preds := union fs b.preds } else b

theorem addEdges_get (bs : List Block) (fs : List Nat) (h i : Nat) :
    (addEdges bs fs h)[i]? = (bs[i]?).map (edged fs h i) := by
  unfold addEdges
  rw [List.getElem?_mapIdx]
  rfl

theorem edged_stmts (fs : List Nat) (h i : Nat) (b : Block) : (edged fs h i b).stmts = b.stmts := by
  unfold edged; simp only; split <;> split <;> rfl

theorem edged_succs (fs : List Nat) (h i : Nat) (b : Block) :
    (edged fs h i b).succs = if fs.contains i then insertSorted h b.succs else b.succs := by
  unfold edged; simp only; split <;> split <;> rfl

theorem patchFalse_succs (b : Block) (j : Nat) : (patchFalse b j).succs = b.succs := (patchFalse_edges b j).2

/-- a plain open block that is completed: same statements, the new block is its only successor -/
theorem completed_plain (j : Nat) (ps : List Nat) (i : Nat) (b : Block) (hp : PlainOpen b) (hi : i ∈ ps) :
    (completed j ps i b).stmts = b.stmts ∧ (completed j ps i b).succs = [j] := by
  have hc : ps.contains i = true := by simpa using hi
  unfold completed
  rw [if_pos hc]
  have hnb : ∀ l t, b.stmts.getLast? ≠ some (IStmt.branch l t none) := by
    intro l t h
    have := hp.1
    simp [trailingBranch, h] at this
  constructor
  · unfold patchFalse
    split
    · rename_i loc t heq; exact absurd heq (hnb loc t)
    · rfl
  · rw [patchFalse_succs]; simp [hp.2, insertSorted]

/-- an open branch block that is completed by a block other than its true target: the false target is
    resolved to the new block -/
theorem completed_branch (j : Nat) (ps : List Nat) (i : Nat) (b : Block) (hb : BranchOpen i b) (hi : i ∈ ps)
    (hj : i + 1 < j) :
    ∃ init l, b.stmts = init ++ [IStmt.branch l (i + 1) none] ∧
      (completed j ps i b).stmts = init ++ [IStmt.branch l (i + 1) (some j)] ∧ (completed j ps i b).succs = [i + 1, j] := by
  obtain ⟨init, l, hs, hsu⟩ := hb
  refine ⟨init, l, hs, ?_, ?_⟩
  · have hc : ps.contains i = true := by simpa using hi
    unfold completed
    rw [if_pos hc]
    unfold patchFalse
    simp only [hs, List.getLast?_append, List.getLast?_singleton, Option.some_or]
    have : (j != i + 1) = true := by simpa using (by omega : j ≠ i + 1)
    simp [this]
  · have hc : ps.contains i = true := by simpa using hi
    unfold completed
    rw [if_pos hc, patchFalse_succs]
    simp only [hsu, insertSorted]
    have h1 : ¬ j < i + 1 := by omega
    have h2 : ¬ j = i + 1 := by omega
    simp [h1, h2]

theorem completed_other (j : Nat) (ps : List Nat) (i : Nat) (b : Block) (hi : i ∉ ps) : completed j ps i b = b := by
  unfold completed
  have : ps.contains i = false := by simpa using hi
  rw [this]; rfl

theorem stmtsExt_of_eq {b b' : Block} (h : b'.stmts = b.stmts) : StmtsExt b b' :=
  ⟨fun a s hs => Or.inl (by rw [h]; exact hs), fun _ => by rw [h]⟩

theorem blockExt_of_open_eq {b b' : Block} (hc : ¬ Closed b) (h : b'.stmts = b.stmts) : BlockExt b b' :=
  ⟨fun c => absurd c hc, fun _ => stmtsExt_of_eq h⟩

theorem stmtsExt_patch (b b' : Block) (init : List IStmt) (l : Loc) (t j : Nat)
    (h : b.stmts = init ++ [IStmt.branch l t none]) (h' : b'.stmts = init ++ [IStmt.branch l t (some j)]) : StmtsExt b b' := by
  refine ⟨?_, fun _ => by rw [h, h']; simp⟩
  intro a s hs
  rw [h] at hs
  rw [h']
  by_cases ha : a < init.length
  · rw [List.getElem?_append_left ha] at hs ⊢; exact Or.inl hs
  · rw [List.getElem?_append_right (by omega)] at hs ⊢
    cases hk : a - init.length with
    | zero =>
      rw [hk] at hs; simp only [List.getElem?_cons_zero, Option.some.injEq] at hs
      exact Or.inr ⟨l, t, j, hs.symm, by simp⟩
    | succ k => rw [hk] at hs; simp at hs

/-- appending a statement to the (plain, open) current block -/
theorem ext_appendStmt (bs : List Block) (s : IStmt) (b : Block) (hb : bs[bs.length - 1]? = some b) (ho : PlainOpen b) :
    Ext bs (appendStmt bs s) := by
  intro i bi hi
  rw [appendStmt_get, hi]
  by_cases hl : i = bs.length - 1
  · subst hl
    rw [hb] at hi; cases hi
    refine ⟨{ b with stmts := b.stmts ++ [s] }, by simp, fun c => absurd c (plainOpen_not_closed ho), fun _ => ⟨?_, ?_⟩⟩
    · intro a s' hs
      left
      have : a < b.stmts.length := (List.getElem?_eq_some_iff.mp hs).1
      rw [List.getElem?_append_left this]; exact hs
    · intro ht; rw [ho.1] at ht; cases ht
  · exact ⟨bi, by simp [hl], blockExt_refl bi⟩

/-- what a pending exit looks like -/
def OpenAt (bs : List Block) (p : Nat) : Prop :=
  ∃ b, bs[p]? = some b ∧ (PlainOpen b ∨ (BranchOpen p b ∧ p + 1 < bs.length))

theorem ext_completeBlock (bs : List Block) (ps : List Nat) (d : Nat) (h : ∀ p, p ∈ ps → OpenAt bs p) :
    Ext bs (completeBlock bs ps d) := by
  intro i bi hi
  have hlt : i < bs.length := (List.getElem?_eq_some_iff.mp hi).1
  rw [completeBlock_get_lt bs ps d i hlt, hi]
  refine ⟨_, rfl, ?_⟩
  by_cases hp : i ∈ ps
  · obtain ⟨b, hb, hcls⟩ := h i hp
    rw [hi] at hb; cases hb
    rcases hcls with ho | ⟨ho, hlen⟩
    · exact blockExt_of_open_eq (plainOpen_not_closed ho) (completed_plain _ ps i bi ho hp).1
    · obtain ⟨init, l, hs, hs', _⟩ := completed_branch bs.length ps i bi ho hp hlen
      exact ⟨fun c => absurd c (branchOpen_not_closed ho), fun _ => stmtsExt_patch _ _ init l _ _ hs hs'⟩
  · rw [completed_other _ ps i bi hp]; exact blockExt_refl bi

theorem ext_addEdges (bs : List Block) (fs : List Nat) (hd : Nat) (h : ∀ p, p ∈ fs → OpenAt bs p) :
    Ext bs (addEdges bs fs hd) := by
  intro i bi hi
  rw [addEdges_get, hi]
  refine ⟨_, rfl, ?_, fun _ => stmtsExt_of_eq (edged_stmts fs hd i bi)⟩
  intro hc
  refine ⟨edged_stmts fs hd i bi, ?_⟩
  rw [edged_succs]
  by_cases hp : i ∈ fs
  · obtain ⟨b, hb, hcls⟩ := h i hp
    rw [hi] at hb; cases hb
    rcases hcls with ho | ⟨ho, _⟩
    · exact absurd hc (plainOpen_not_closed ho)
    · exact absurd hc (branchOpen_not_closed ho)
  · have : fs.contains i = false := by simpa using hp
    rw [this]; rfl

-- ---------------------------------------------------------------------------- the source semantics once stopped

theorem loop_stop (body : Run → Run) (loc : Loc) : ∀ (f : Nat) (r : Run), r.stop = true → Trace.loop body loc f r = r := by
  intro f
  cases f with
  | zero => intro r h; unfold Trace.loop; cases r; simp_all
  | succ f => intro r h; unfold Trace.loop; simp [h]

mutual
theorem exec_stop (rets : List Loc) (fuel : Nat) : ∀ (s : Stmt) (r : Run), r.stop = true → exec rets fuel s r = r
  | .simple loc, r, h => by unfold exec; simp [h]
  | .init cs, r, h => by unfold exec; exact execList_stop rets fuel cs r h
  | .block cs, r, h => by unfold exec; exact execList_stop rets fuel cs r h
  | .ite loc t, r, h => by unfold exec; simp [h]
  | .iteElse loc t e, r, h => by unfold exec; simp [h]
  | .while loc b, r, h => by unfold exec; exact loop_stop _ loc fuel r h
theorem execList_stop (rets : List Loc) (fuel : Nat) : ∀ (cs : Stmts) (r : Run), r.stop = true → execList rets fuel cs r = r
  | .nil, r, _ => by unfold execList; rfl
  | .cons s rest, r, h => by
    unfold execList
    rw [exec_stop rets fuel s r h]
    exact execList_stop rets fuel rest r h
end

-- ---------------------------------------------------------------------------- states of the construction

/-- the current (last) block is plain and open: statements can be appended to it -/
def CurOpen (bs : List Block) : Prop := ∃ b, bs[bs.length - 1]? = some b ∧ PlainOpen b

/-- the number of statements already in the current block -/
def curLen (bs : List Block) : Nat := ((bs[bs.length - 1]?).map (fun b => b.stmts.length)).getD 0

/-- the ways out of a finished fragment: the end of the current block (nothing pending), or the end /
    the open false edge of one of the pending blocks -/
def ExitOf (bs : List Block) (ps : List Nat) (e : End) : Prop :=
  (ps = [] ∧ e = .at (bs.length - 1) (curLen bs)) ∨
  (∃ p b, p ∈ ps ∧ bs[p]? = some b ∧ ((PlainOpen b ∧ e = .at p b.stmts.length) ∨ (BranchOpen p b ∧ e = .fe p)))

/-- what `visit` guarantees about the blocks -/
structure Res (bs bs1 : List Block) (ps1 : List Nat) : Prop where
  ext : Ext bs bs1
  len : bs.length ≤ bs1.length
  frame : ∀ i, i + 1 < bs.length → bs1[i]? = bs[i]?
  cur : ps1 = [] → CurOpen bs1
  pend : ∀ p, p ∈ ps1 → OpenAt bs1 p
  ge : ∀ p, p ∈ ps1 → bs.length - 1 ≤ p

/-- the run `r'` obtained from `r` is matched by a path that starts at offset `a` of block `i`, after a path
    prefix `tr₀` from `(i₀, a₀)` -/
def PathOut (bs1 : List Block) (ps1 : List Nat) (i₀ a₀ : Nat) (tr₀ : List Loc) (ds₀ : List Bool) (r r' : Run) : Prop :=
  ∃ tr, r'.trace = r.trace ++ tr ∧
    (r'.stop = false → ∃ e, Path bs1 i₀ a₀ (tr₀ ++ tr) ds₀ r'.ds e ∧ ExitOf bs1 ps1 e) ∧
    (r'.stop = true → ∃ tr' ds'' e, Path bs1 i₀ a₀ tr' ds₀ ds'' e ∧ (tr₀ ++ tr) <+: tr')

theorem PathOut.mono {bs1 bs2 : List Block} {ps1 : List Nat} {i₀ a₀ : Nat} {tr₀ : List Loc} {ds₀ : List Bool} {r r' : Run}
    (hx : Ext bs1 bs2) (h : PathOut bs1 ps1 i₀ a₀ tr₀ ds₀ r r') (hstop : r'.stop = true) :
    ∀ ps2, PathOut bs2 ps2 i₀ a₀ tr₀ ds₀ r r' := by
  intro ps2
  obtain ⟨tr, h1, _, h3⟩ := h
  refine ⟨tr, h1, ?_, ?_⟩
  · intro hn; rw [hstop] at hn; cases hn
  · intro _
    obtain ⟨tr', ds'', e, hp, hpre⟩ := h3 hstop
    exact ⟨tr', ds'', e, hp.mono hx, hpre⟩

-- ---------------------------------------------------------------------------- connecting the exits

theorem plain_not_branch {p : Nat} {b : Block} (h₁ : PlainOpen b) (h₂ : BranchOpen p b) : False := by
  obtain ⟨l, hl⟩ := branchOpen_last h₂
  have := h₁.1
  simp [trailingBranch, hl] at this

theorem exitOf_orLast {bs : List Block} {ps : List Nat} {e : End} (h : ExitOf bs ps e) (hc : ps = [] → CurOpen bs) :
    ExitOf bs (orLast ps bs) e := by
  rcases h with ⟨hps, he⟩ | h
  · obtain ⟨b, hb, ho⟩ := hc hps
    right
    refine ⟨bs.length - 1, b, by simp [orLast, hps], hb, Or.inl ⟨ho, ?_⟩⟩
    rw [he]; simp [curLen, hb]
  · obtain ⟨p, b, hp, hb, hcase⟩ := h
    right
    refine ⟨p, b, ?_, hb, hcase⟩
    unfold orLast
    have : ps ≠ [] := by intro e'; rw [e'] at hp; cases hp
    simp [this]; exact hp

theorem openAt_orLast {bs : List Block} {ps : List Nat} (hp : ∀ p, p ∈ ps → OpenAt bs p) (hc : ps = [] → CurOpen bs) :
    ∀ p, p ∈ orLast ps bs → OpenAt bs p := by
  intro p hmem
  unfold orLast at hmem
  by_cases hps : ps = []
  · simp [hps] at hmem
    obtain ⟨b, hb, ho⟩ := hc hps
    subst hmem
    exact ⟨b, hb, Or.inl ho⟩
  · have : ps.isEmpty = false := by simpa using hps
    rw [this] at hmem
    exact hp p hmem

theorem orLast_ne (ps : List Nat) (bs : List Block) : orLast ps bs ≠ [] := by
  unfold orLast; split
  · simp
  · rename_i h; intro e; rw [e] at h; simp at h

/-- all pending exits are connected to the block that `completeBlock` creates -/
theorem connect_complete (bs : List Block) (ps : List Nat) (d : Nat) (hne : ps ≠ []) (hop : ∀ p, p ∈ ps → OpenAt bs p)
    {i a : Nat} {tr : List Loc} {ds ds' : List Bool} {e : End} (hex : ExitOf bs ps e) (hpath : Path bs i a tr ds ds' e) :
    Path (completeBlock bs ps d) i a tr ds ds' (.at bs.length 0) := by
  have hx := ext_completeBlock bs ps d hop
  have hp' := hpath.mono hx
  rcases hex with ⟨hps, _⟩ | ⟨p, b, hp, hb, hcase⟩
  · exact absurd hps hne
  · have hlt : p < bs.length := (List.getElem?_eq_some_iff.mp hb).1
    have hget : (completeBlock bs ps d)[p]? = some (completed bs.length ps p b) := by
      rw [completeBlock_get_lt bs ps d p hlt, hb]; rfl
    rcases hcase with ⟨ho, he⟩ | ⟨ho, he⟩
    · subst he
      obtain ⟨hs, hsu⟩ := completed_plain bs.length ps p b ho hp
      have hfall : Path (completeBlock bs ps d) p b.stmts.length [] ds' ds' (.at bs.length 0) :=
        .fall p _ _ bs.length [] ds' ds' _ hget (by rw [hs]) (by simpa [trailingBranch, hs] using ho.1) hsu (.here _ _ _)
      simpa using hp'.trans hfall
    · subst he
      obtain ⟨b', hb', hcls⟩ := hop p hp
      rw [hb] at hb'; cases hb'
      rcases hcls with hpl | ⟨_, hlen⟩
      · exact (plain_not_branch hpl ho).elim
      · obtain ⟨init, l, hs, hs', hsu⟩ := completed_branch bs.length ps p b ho hp hlen
        have hl : (completed bs.length ps p b).stmts.getLast? = some (IStmt.branch l (p + 1) (some bs.length)) := by
          rw [hs']; simp
        have := hp'.resolve hget hl (by simp [falseTgt]) (.here bs.length 0 ds')
        simpa using this

/-- all pending exits are connected to the loop header by `addEdges` -/
theorem connect_edges (bs : List Block) (fs : List Nat) (h : Nat) (hne : fs ≠ []) (hop : ∀ p, p ∈ fs → OpenAt bs p)
    (hh : ∀ p, p ∈ fs → h ≠ p + 1)
    {i a : Nat} {tr : List Loc} {ds ds' : List Bool} {e : End} (hex : ExitOf bs fs e) (hpath : Path bs i a tr ds ds' e) :
    Path (addEdges bs fs h) i a tr ds ds' (.at h 0) := by
  have hx := ext_addEdges bs fs h hop
  have hp' := hpath.mono hx
  rcases hex with ⟨hps, _⟩ | ⟨p, b, hp, hb, hcase⟩
  · exact absurd hps hne
  · have hget : (addEdges bs fs h)[p]? = some (edged fs h p b) := by rw [addEdges_get, hb]; rfl
    have hc : fs.contains p = true := by simpa using hp
    rcases hcase with ⟨ho, he⟩ | ⟨ho, he⟩
    · subst he
      have hsu : (edged fs h p b).succs = [h] := by rw [edged_succs, if_pos hc, ho.2]; simp [insertSorted]
      have hfall : Path (addEdges bs fs h) p b.stmts.length [] ds' ds' (.at h 0) :=
        .fall p _ _ h [] ds' ds' _ hget (by rw [edged_stmts]) (by simpa [trailingBranch, edged_stmts] using ho.1) hsu (.here _ _ _)
      simpa using hp'.trans hfall
    · subst he
      obtain ⟨init, l, hs, hsu⟩ := ho
      have hl : (edged fs h p b).stmts.getLast? = some (IStmt.branch l (p + 1) none) := by
        rw [edged_stmts, hs]; simp
      have hne' := hh p hp
      have hf : falseTgt (edged fs h p b) (p + 1) none = some h := by
        unfold falseTgt
        simp only [edged_succs, if_pos hc, hsu, insertSorted]
        by_cases h1 : h < p + 1
        · simp [h1, hne']
        · have h2 : ¬ h = p + 1 := hne'
          simp [h1, h2, hne']
      have := hp'.resolve hget hl hf (.here h 0 ds')
      simpa using this

-- ---------------------------------------------------------------------------- the blocks before an `if` / `while` body

theorem ext_of_pointwise (G G' : List Block) (c : Nat) (b : Block) (hb : G[c]? = some b) (ho : PlainOpen b)
    (hsame : ∀ i, i < G.length → i ≠ c → G'[i]? = G[i]?)
    (hc : ∃ b', G'[c]? = some b' ∧ ∃ extra, b'.stmts = b.stmts ++ extra) : Ext G G' := by
  intro i bi hi
  have hlt : i < G.length := (List.getElem?_eq_some_iff.mp hi).1
  by_cases hic : i = c
  · subst hic
    rw [hb] at hi; cases hi
    obtain ⟨b', hb', extra, hs⟩ := hc
    refine ⟨b', hb', fun cl => absurd cl (plainOpen_not_closed ho), fun _ => ⟨?_, ?_⟩⟩
    · intro a s hs'
      left
      rw [hs]
      have := (List.getElem?_eq_some_iff.mp hs').1
      rw [List.getElem?_append_left this]; exact hs'
    · intro ht; rw [ho.1] at ht; cases ht
  · exact ⟨bi, by rw [hsame i hlt hic]; exact hi, blockExt_refl bi⟩

structure ItePre (bs bsP : List Block) (loc : Loc) : Prop where
  len : bsP.length = bs.length + 1
  cond : ∃ b bc, bs[bs.length - 1]? = some b ∧ bsP[bs.length - 1]? = some bc ∧
    bc.stmts = b.stmts ++ [IStmt.branch loc (bs.length - 1 + 1) none] ∧ bc.succs = [bs.length - 1 + 1]
  cur : CurOpen bsP
  curLen : curLen bsP = 0
  ext : Ext bs bsP
  frame : ∀ i, i + 1 < bs.length → bsP[i]? = bs[i]?

theorem itePre_facts (bs : List Block) (loc : Loc) (d : Nat) (hpos : 0 < bs.length) (hc : CurOpen bs) :
    ItePre bs (itePre loc d bs) loc := by
  obtain ⟨b, hb, ho⟩ := hc
  have hlenA : (appendStmt bs (IStmt.branch loc (bs.length - 1 + 1) none)).length = bs.length := length_appendStmt _ _
  have hlen : (itePre loc d bs).length = bs.length + 1 := by
    unfold itePre; simp only [length_completeBlock, length_appendStmt]
  -- the blocks below the new one
  have hget : ∀ i, i < bs.length → (itePre loc d bs)[i]? =
      (bs[i]?).map (fun b => completed bs.length [bs.length - 1] i (if i = bs.length - 1 then { b with stmts := b.stmts ++ [IStmt.branch loc (bs.length - 1 + 1) none] } else b)) := by
    intro i hi
    unfold itePre
    simp only
    rw [completeBlock_get_lt _ _ _ _ (by rw [hlenA]; exact hi), appendStmt_get, hlenA]
    cases bs[i]? <;> rfl
  have hnew : (itePre loc d bs)[bs.length]? = some { depth := d, stmts := [], preds := union [bs.length - 1] [], succs := [] } := by
    unfold itePre
    simp only
    have := completeBlock_get_new (appendStmt bs (IStmt.branch loc (bs.length - 1 + 1) none)) [bs.length - 1] d
    rw [hlenA] at this; exact this
  have hsame : ∀ i, i < bs.length → i ≠ bs.length - 1 → (itePre loc d bs)[i]? = bs[i]? := by
    intro i hi hne
    rw [hget i hi]
    cases hbi : bs[i]? with
    | none => rfl
    | some bi =>
      simp only [Option.map_some, if_neg hne]
      rw [completed_other _ _ _ _ (by simpa using hne)]
  have hcond : ∃ bc, (itePre loc d bs)[bs.length - 1]? = some bc ∧
      bc.stmts = b.stmts ++ [IStmt.branch loc (bs.length - 1 + 1) none] ∧ bc.succs = [bs.length - 1 + 1] := by
    refine ⟨_, by rw [hget _ (by omega), hb]; rfl, ?_, ?_⟩
    · simp only [if_true]
      unfold completed
      simp only [List.contains_cons, beq_self_eq_true, Bool.true_or, if_true]
      unfold patchFalse
      simp only [List.getLast?_append, List.getLast?_singleton, Option.some_or]
      have : (bs.length != bs.length - 1 + 1) = false := by simp; omega
      simp [this]
    · simp only [if_true]
      unfold completed
      simp only [List.contains_cons, beq_self_eq_true, Bool.true_or, if_true]
      rw [patchFalse_succs]
      simp only [ho.2, insertSorted]
      congr 1; omega
  obtain ⟨bc, hbc, hs, hsu⟩ := hcond
  refine ⟨hlen, ⟨b, bc, hb, hbc, hs, hsu⟩, ?_, ?_, ?_, ?_⟩
  · refine ⟨_, by rw [hlen]; simpa using hnew, ?_⟩
    exact ⟨by simp [trailingBranch], rfl⟩
  · unfold TracePaths.curLen; rw [hlen]; simp [hnew]
  · exact ext_of_pointwise bs _ (bs.length - 1) b hb ho hsame ⟨bc, hbc, _, hs⟩
  · intro i hi; exact hsame i (by omega) (by omega)

structure WhilePre (bs bsW : List Block) (loc : Loc) : Prop where
  len : bsW.length = bs.length + 2
  before : ∃ b bc, bs[bs.length - 1]? = some b ∧ bsW[bs.length - 1]? = some bc ∧ bc.stmts = b.stmts ∧ bc.succs = [bs.length]
  header : ∃ bh, bsW[bs.length]? = some bh ∧ bh.stmts = [IStmt.branch loc (bs.length + 1) none] ∧ bh.succs = [bs.length + 1]
  cur : CurOpen bsW
  curLen : curLen bsW = 0
  ext : Ext bs bsW
  frame : ∀ i, i + 1 < bs.length → bsW[i]? = bs[i]?

theorem whilePre_facts (bs : List Block) (loc : Loc) (d : Nat) (hpos : 0 < bs.length) (hc : CurOpen bs) :
    WhilePre bs (whilePre loc d bs) loc := by
  obtain ⟨b, hb, ho⟩ := hc
  -- stage 1: the header block is created
  let bs1 := completeBlock bs [bs.length - 1] d
  have hl1 : bs1.length = bs.length + 1 := length_completeBlock _ _ _
  have g1 : ∀ i, i < bs.length → bs1[i]? = (bs[i]?).map (completed bs.length [bs.length - 1] i) :=
    fun i hi => completeBlock_get_lt bs _ d i hi
  have n1 : bs1[bs.length]? = some { depth := d, stmts := [], preds := union [bs.length - 1] [], succs := [] } :=
    completeBlock_get_new bs _ d
  -- stage 2: the branch is appended to the header
  let bs2 := appendStmt bs1 (IStmt.branch loc (bs.length - 1 + 2) none)
  have hl2 : bs2.length = bs.length + 1 := by simp only [bs2, length_appendStmt, hl1]
  have g2 : ∀ i, bs2[i]? = (bs1[i]?).map (fun b => if i = bs.length then { b with stmts := b.stmts ++ [IStmt.branch loc (bs.length - 1 + 2) none] } else b) := by
    intro i
    have := appendStmt_get bs1 (IStmt.branch loc (bs.length - 1 + 2) none) i
    rw [hl1] at this
    simpa using this
  -- stage 3: the first block of the body
  have hw : whilePre loc d bs = completeBlock bs2 [bs.length - 1 + 1] (d + 1) := rfl
  have hlen : (whilePre loc d bs).length = bs.length + 2 := by rw [hw, length_completeBlock, hl2]
  have g3 : ∀ i, i < bs.length + 1 → (whilePre loc d bs)[i]? = (bs2[i]?).map (completed (bs.length + 1) [bs.length - 1 + 1] i) := by
    intro i hi
    rw [hw]
    have := completeBlock_get_lt bs2 [bs.length - 1 + 1] (d + 1) i (by rw [hl2]; exact hi)
    rw [hl2] at this; exact this
  have n3 : (whilePre loc d bs)[bs.length + 1]? = some { depth := d + 1, stmts := [], preds := union [bs.length - 1 + 1] [], succs := [] } := by
    rw [hw]
    have := completeBlock_get_new bs2 [bs.length - 1 + 1] (d + 1)
    rw [hl2] at this; exact this
  have hcm : bs.length - 1 + 1 = bs.length := by omega
  have hsame : ∀ i, i < bs.length → i ≠ bs.length - 1 → (whilePre loc d bs)[i]? = bs[i]? := by
    intro i hi hne
    rw [g3 i (by omega), g2 i, g1 i hi]
    cases hbi : bs[i]? with
    | none => rfl
    | some bi =>
      simp only [Option.map_some]
      have hne2 : i ≠ bs.length := by omega
      rw [completed_other (bs.length + 1) [bs.length - 1 + 1] i _ (by simp; omega)]
      simp only [if_neg hne2]
      rw [completed_other bs.length [bs.length - 1] i _ (by simpa using hne)]
  have hbefore : ∃ bc, (whilePre loc d bs)[bs.length - 1]? = some bc ∧ bc.stmts = b.stmts ∧ bc.succs = [bs.length] := by
    have hne2 : bs.length - 1 ≠ bs.length := by omega
    obtain ⟨hs, hsu⟩ := completed_plain bs.length [bs.length - 1] (bs.length - 1) b ho (by simp)
    refine ⟨completed bs.length [bs.length - 1] (bs.length - 1) b, ?_, hs, hsu⟩
    rw [g3 _ (by omega), g2, g1 _ (by omega), hb]
    simp only [Option.map_some, if_neg hne2]
    rw [completed_other (bs.length + 1) [bs.length - 1 + 1] (bs.length - 1) _ (by simp)]
  have hheader : ∃ bh, (whilePre loc d bs)[bs.length]? = some bh ∧
      bh.stmts = [IStmt.branch loc (bs.length + 1) none] ∧ bh.succs = [bs.length + 1] := by
    refine ⟨_, by rw [g3 _ (by omega), g2, n1]; rfl, ?_, ?_⟩
    · simp only [if_true, List.nil_append]
      unfold completed
      have : ([bs.length - 1 + 1] : List Nat).contains bs.length = true := by simp; omega
      rw [if_pos this]
      unfold patchFalse
      simp only [List.getLast?_singleton]
      have h2 : (bs.length + 1 != bs.length - 1 + 2) = false := by simp; omega
      simp only [h2, Bool.false_eq_true, if_false]
      congr 2; omega
    · simp only [if_true]
      unfold completed
      have : ([bs.length - 1 + 1] : List Nat).contains bs.length = true := by simp; omega
      rw [if_pos this, patchFalse_succs]
      simp [insertSorted]
  obtain ⟨bc, hbc, hs, hsu⟩ := hbefore
  refine ⟨hlen, ⟨b, bc, hb, hbc, hs, hsu⟩, hheader, ?_, ?_, ?_, ?_⟩
  · refine ⟨_, by rw [hlen]; simpa using n3, ?_⟩
    exact ⟨by simp [trailingBranch], rfl⟩
  · unfold TracePaths.curLen; rw [hlen]; simp [n3]
  · exact ext_of_pointwise bs _ (bs.length - 1) b hb ho hsame ⟨bc, hbc, [], by simp [hs]⟩
  · intro i hi; exact hsame i (by omega) (by omega)

-- ---------------------------------------------------------------------------- the main induction

theorem pathOut_prepend {bs0 bs1 : List Block} {ps1 : List Nat} {i₀ a₀ : Nat} {tr₀ : List Loc} {ds₀ : List Bool}
    {c a : Nat} {r r' : Run} (hx : Ext bs0 bs1)
    (hpre : Path bs0 i₀ a₀ tr₀ ds₀ r.ds (.at c a)) (h : PathOut bs1 ps1 c a [] r.ds r r') :
    PathOut bs1 ps1 i₀ a₀ tr₀ ds₀ r r' := by
  obtain ⟨tr, h1, h2, h3⟩ := h
  have hpre' := hpre.mono hx
  refine ⟨tr, h1, ?_, ?_⟩
  · intro hs
    obtain ⟨e, hp, hex⟩ := h2 hs
    exact ⟨e, hpre'.trans (by simpa using hp), hex⟩
  · intro hs
    obtain ⟨tr', ds'', e, hp, hpf⟩ := h3 hs
    refine ⟨tr₀ ++ tr', ds'', e, hpre'.trans hp, ?_⟩
    simp only [List.nil_append] at hpf
    exact (List.prefix_append_right_inj tr₀).mpr hpf

/-- what `visit` establishes: the block facts and, for every run, a matching path from the end of the
    current block -/
def Goal (rets : List Loc) (fuelE : Nat) (s : Stmt) (bs bs1 : List Block) (ps1 : List Nat) : Prop :=
  Res bs bs1 ps1 ∧
  ∀ r : Run, r.stop = false → PathOut bs1 ps1 (bs.length - 1) (curLen bs) [] r.ds r (exec rets fuelE s r)

structure ResL (bs : List Block) (ps : List Nat) (bs1 : List Block) (ps1 : List Nat) : Prop where
  ext : Ext bs bs1
  len : bs.length ≤ bs1.length
  frame : ∀ i, i + 1 < bs.length → i ∉ ps → bs1[i]? = bs[i]?
  cur : ps1 = [] → CurOpen bs1
  pend : ∀ p, p ∈ ps1 → OpenAt bs1 p
  ge : ∀ p, p ∈ ps1 → bs.length - 1 ≤ p ∨ p ∈ ps

def GoalL (rets : List Loc) (fuelE : Nat) (cs : Stmts) (bs : List Block) (ps : List Nat) (bs1 : List Block) (ps1 : List Nat) : Prop :=
  ResL bs ps bs1 ps1 ∧
  ∀ (r : Run), r.stop = false → ∀ (i₀ a₀ : Nat) (tr₀ : List Loc) (ds₀ : List Bool) (e₀ : End),
    Path bs i₀ a₀ tr₀ ds₀ r.ds e₀ → ExitOf bs ps e₀ → PathOut bs1 ps1 i₀ a₀ tr₀ ds₀ r (execList rets fuelE cs r)

theorem curLen_eq {bs : List Block} {b : Block} (hb : bs[bs.length - 1]? = some b) : curLen bs = b.stmts.length := by
  simp [curLen, hb]

/-- the case of a statement that is not a control statement -/
theorem goal_simple (rets : List Loc) (fuelE : Nat) (loc : Loc) (bs : List Block) (hpos : 0 < bs.length) (hc : CurOpen bs) :
    Goal rets fuelE (.simple loc) bs (appendStmt bs (.simple loc)) [] := by
  obtain ⟨b, hb, ho⟩ := hc
  have hlen : (appendStmt bs (IStmt.simple loc)).length = bs.length := length_appendStmt _ _
  have hget : (appendStmt bs (IStmt.simple loc))[bs.length - 1]? = some { b with stmts := b.stmts ++ [IStmt.simple loc] } := by
    rw [appendStmt_get, hb]; simp
  have hget' : (appendStmt bs (IStmt.simple loc))[(appendStmt bs (IStmt.simple loc)).length - 1]? =
      some { b with stmts := b.stmts ++ [IStmt.simple loc] } := by rw [hlen]; exact hget
  have hcur : CurOpen (appendStmt bs (IStmt.simple loc)) := by
    refine ⟨{ b with stmts := b.stmts ++ [IStmt.simple loc] }, hget', ?_, ho.2⟩
    simp [trailingBranch]
  have hres : Res bs (appendStmt bs (IStmt.simple loc)) [] := by
    refine ⟨ext_appendStmt bs _ b hb ho, by rw [hlen]; exact Nat.le_refl _, ?_, fun _ => hcur, ?_, ?_⟩
    · intro i hi
      rw [appendStmt_get]
      have : i ≠ bs.length - 1 := by omega
      cases bs[i]? <;> simp [this]
    · intro p hp; cases hp
    · intro p hp; cases hp
  refine ⟨hres, ?_⟩
  intro r hr
  have hpath : Path (appendStmt bs (IStmt.simple loc)) (bs.length - 1) (curLen bs) [loc] r.ds r.ds
      (.at (bs.length - 1) (curLen bs + 1)) := by
    refine .simple _ _ _ loc [] r.ds r.ds _ hget ?_ (.here _ _ _)
    rw [curLen_eq hb]; simp
  have hexit : ExitOf (appendStmt bs (IStmt.simple loc)) [] (.at (bs.length - 1) (curLen bs + 1)) := by
    left
    refine ⟨rfl, ?_⟩
    rw [curLen_eq hget', curLen_eq hb, hlen]; simp
  unfold exec
  simp only [hr, Bool.false_eq_true, if_false]
  refine ⟨[loc], rfl, ?_, ?_⟩
  · intro _; exact ⟨_, by simpa using hpath, hexit⟩
  · intro _; exact ⟨[loc], r.ds, _, hpath, by simp⟩

theorem insertSorted_ne_nil (x : Nat) (l : List Nat) : insertSorted x l ≠ [] := by
  cases l with
  | nil => simp [insertSorted]
  | cons y ys => unfold insertSorted; split <;> (try split) <;> simp

theorem exitOf_mono {bs : List Block} {ps ps' : List Nat} {e : End} (h : ExitOf bs ps e) (hne : ps ≠ [])
    (hsub : ∀ p, p ∈ ps → p ∈ ps') : ExitOf bs ps' e := by
  rcases h with ⟨hps, _⟩ | ⟨p, b, hp, hb, hcase⟩
  · exact absurd hps hne
  · exact Or.inr ⟨p, b, hsub p hp, hb, hcase⟩

theorem orLast_ge {ps : List Nat} {bs : List Block} {c : Nat} (h : ∀ p, p ∈ ps → c ≤ p) (hl : c ≤ bs.length - 1) :
    ∀ p, p ∈ orLast ps bs → c ≤ p := by
  intro p hp
  unfold orLast at hp
  split at hp
  · simp at hp; omega
  · exact h p hp

theorem goal_ite (rets : List Loc) (fuelE : Nat) (loc : Loc) (thn : Stmt) (d : Nat) (bs : List Block)
    (hpos : 0 < bs.length) (hc : CurOpen bs) (bs1 : List Block) (ifPs : List Nat)
    (hthn : Goal rets fuelE thn (itePre loc d bs) bs1 ifPs) :
    Goal rets fuelE (.ite loc thn) bs bs1 (insertSorted (bs.length - 1) (orLast ifPs bs1)) := by
  have P := itePre_facts bs loc d hpos hc
  obtain ⟨hres, hpaths⟩ := hthn
  obtain ⟨b, bc, hb, hbc, hs, hsu⟩ := P.cond
  have hlen1 : bs.length + 1 ≤ bs1.length := by have := hres.len; rw [P.len] at this; exact this
  have hbc1 : bs1[bs.length - 1]? = some bc := by
    rw [hres.frame (bs.length - 1) (by rw [P.len]; omega)]; exact hbc
  have hbo : BranchOpen (bs.length - 1) bc := ⟨b.stmts, loc, hs, hsu⟩
  have hopL := openAt_orLast hres.pend hres.cur
  have hres' : Res bs bs1 (insertSorted (bs.length - 1) (orLast ifPs bs1)) := by
    refine ⟨P.ext.trans hres.ext, by omega, ?_, fun h => absurd h (insertSorted_ne_nil _ _), ?_, ?_⟩
    · intro i hi
      rw [hres.frame i (by rw [P.len]; omega), P.frame i hi]
    · intro p hp
      rcases (mem_insertSorted p _ _).mp hp with h | h
      · subst h; exact ⟨bc, hbc1, Or.inr ⟨hbo, by omega⟩⟩
      · exact hopL p h
    · intro p hp
      rcases (mem_insertSorted p _ _).mp hp with h | h
      · omega
      · have := orLast_ge (c := bs.length - 1) (fun q hq => by have := hres.ge q hq; rw [P.len] at this; omega) (by omega) p h
        exact this
  refine ⟨hres', ?_⟩
  intro r hr
  have ha : curLen bs = b.stmts.length := curLen_eq hb
  have hstmt : bc.stmts[curLen bs]? = some (IStmt.branch loc (bs.length - 1 + 1) none) := by rw [hs, ha]; simp
  have hlast : curLen bs + 1 = bc.stmts.length := by rw [hs, ha]; simp
  unfold exec
  simp only [hr, Bool.false_eq_true, if_false]
  cases hds : r.ds with
  | nil =>
    simp only
    refine ⟨[], by simp, ?_, ?_⟩
    · intro h; cases h
    · intro _; exact ⟨[], [], _, .here _ _ _, by simp⟩
  | cons dd ds' =>
    simp only
    cases dd with
    | true =>
      simp only [if_true]
      have h1 := hpaths ⟨r.trace ++ [loc], ds', false⟩ rfl
      rw [P.len, P.curLen] at h1
      have hidx : bs.length + 1 - 1 = bs.length - 1 + 1 := by omega
      rw [hidx] at h1
      obtain ⟨tr, t1, t2, t3⟩ := h1
      simp only [List.nil_append] at t2 t3
      refine ⟨loc :: tr, by rw [t1]; simp, ?_, ?_⟩
      · intro hs'
        obtain ⟨e, hp, hex⟩ := t2 hs'
        refine ⟨e, ?_, exitOf_mono (exitOf_orLast hex hres.cur) (orLast_ne _ _) (fun p hp' => (mem_insertSorted p _ _).mpr (Or.inr hp'))⟩
        simp only [List.nil_append]
        exact .brT _ _ bc loc _ none tr ds' _ e hbc1 hstmt hlast (by simpa using hp)
      · intro hs'
        obtain ⟨tr', ds'', e, hp, hpf⟩ := t3 hs'
        refine ⟨loc :: tr', ds'', e, .brT _ _ bc loc _ none tr' ds' ds'' e hbc1 hstmt hlast (by simpa using hp), ?_⟩
        simpa using hpf
    | false =>
      simp only [Bool.false_eq_true, if_false]
      refine ⟨[loc], rfl, ?_, ?_⟩
      · intro _
        refine ⟨.fe (bs.length - 1), by simpa using Path.brF _ _ bc loc _ none ds' hbc1 hstmt hlast, ?_⟩
        exact Or.inr ⟨bs.length - 1, bc, (mem_insertSorted _ _ _).mpr (Or.inl rfl), hbc1, Or.inr ⟨hbo, rfl⟩⟩
      · intro hs'; simp [hr] at hs'

theorem exitOf_transfer {bs bs' : List Block} {ps : List Nat} {e : End} (h : ExitOf bs ps e) (hne : ps ≠ [])
    (hsame : ∀ p, p ∈ ps → bs'[p]? = bs[p]?) : ExitOf bs' ps e := by
  rcases h with ⟨hps, _⟩ | ⟨p, b, hp, hb, hcase⟩
  · exact absurd hps hne
  · exact Or.inr ⟨p, b, hp, by rw [hsame p hp]; exact hb, hcase⟩

theorem openAt_transfer {bs bs' : List Block} {p : Nat} (h : OpenAt bs p) (hsame : bs'[p]? = bs[p]?)
    (hlen : bs.length ≤ bs'.length) : OpenAt bs' p := by
  obtain ⟨b, hb, hc⟩ := h
  refine ⟨b, by rw [hsame]; exact hb, ?_⟩
  rcases hc with h1 | ⟨h1, h2⟩
  · exact Or.inl h1
  · exact Or.inr ⟨h1, by omega⟩

/-- the blocks before the else-case: the open false edge of the condition block is resolved to the new block -/
structure ElsePre (bs1 bsE : List Block) (c : Nat) (loc : Loc) (init : List IStmt) : Prop where
  len : bsE.length = bs1.length + 1
  cond : ∃ bcE, bsE[c]? = some bcE ∧ bcE.stmts = init ++ [IStmt.branch loc (c + 1) (some bs1.length)]
  cur : CurOpen bsE
  curLen : curLen bsE = 0
  ext : Ext bs1 bsE
  frame : ∀ i, i < bs1.length → i ≠ c → bsE[i]? = bs1[i]?

theorem elsePre_facts (bs1 : List Block) (c d : Nat) (bc : Block) (loc : Loc) (init : List IStmt)
    (hbc : bs1[c]? = some bc) (hs : bc.stmts = init ++ [IStmt.branch loc (c + 1) none]) (hsu : bc.succs = [c + 1])
    (hlt : c + 1 < bs1.length) : ElsePre bs1 (completeBlock bs1 [c] d) c loc init := by
  have hbo : BranchOpen c bc := ⟨init, loc, hs, hsu⟩
  have hop : ∀ p, p ∈ [c] → OpenAt bs1 p := by
    intro p hp; simp at hp; subst hp; exact ⟨bc, hbc, Or.inr ⟨hbo, hlt⟩⟩
  have hlen : (completeBlock bs1 [c] d).length = bs1.length + 1 := length_completeBlock _ _ _
  have hnew := completeBlock_get_new bs1 [c] d
  refine ⟨hlen, ?_, ?_, ?_, ext_completeBlock bs1 [c] d hop, ?_⟩
  · obtain ⟨init', l', hs1, hs2, _⟩ := completed_branch bs1.length [c] c bc hbo (by simp) hlt
    refine ⟨_, by rw [completeBlock_get_lt bs1 [c] d c (by omega), hbc]; rfl, ?_⟩
    rw [hs] at hs1
    have := List.append_inj' hs1 rfl
    obtain ⟨e1, e2⟩ := this
    simp only [List.cons.injEq, IStmt.branch.injEq, and_true, true_and] at e2
    rw [hs2, ← e1, ← e2]
  · refine ⟨_, by rw [hlen]; simpa using hnew, ?_⟩
    exact ⟨by simp [trailingBranch], rfl⟩
  · unfold TracePaths.curLen; rw [hlen]; simp [hnew]
  · intro i hi hne
    rw [completeBlock_get_lt bs1 [c] d i hi]
    cases hbi : bs1[i]? with
    | none => rfl
    | some bi => simp only [Option.map_some]; rw [completed_other _ _ _ _ (by simpa using hne)]

theorem goal_iteElse (rets : List Loc) (fuelE : Nat) (loc : Loc) (thn els : Stmt) (d : Nat) (bs : List Block)
    (hpos : 0 < bs.length) (hc : CurOpen bs) (bs1 : List Block) (ifPs : List Nat)
    (hthn : Goal rets fuelE thn (itePre loc d bs) bs1 ifPs) (bs2 : List Block) (elPs : List Nat)
    (hels : Goal rets fuelE els (completeBlock bs1 [bs.length - 1] d) bs2 elPs) :
    Goal rets fuelE (.iteElse loc thn els) bs bs2 (union (orLast ifPs bs1) (orLast elPs bs2)) := by
  have P := itePre_facts bs loc d hpos hc
  obtain ⟨hres1, hpaths1⟩ := hthn
  obtain ⟨hres2, hpaths2⟩ := hels
  obtain ⟨b, bc, hb, hbc, hs, hsu⟩ := P.cond
  have hlen1 : bs.length + 1 ≤ bs1.length := by have := hres1.len; rw [P.len] at this; exact this
  have hbc1 : bs1[bs.length - 1]? = some bc := by
    rw [hres1.frame (bs.length - 1) (by rw [P.len]; omega)]; exact hbc
  have E := elsePre_facts bs1 (bs.length - 1) d bc loc b.stmts hbc1 hs hsu (by omega)
  obtain ⟨bcE, hbcE, hsE⟩ := E.cond
  have hlen2 : bs1.length + 1 ≤ bs2.length := by have := hres2.len; rw [E.len] at this; exact this
  have hbc2 : bs2[bs.length - 1]? = some bcE := by
    rw [hres2.frame (bs.length - 1) (by rw [E.len]; omega)]; exact hbcE
  have hx12 : Ext bs1 bs2 := E.ext.trans hres2.ext
  -- pending exits of the if-case are untouched by the else-case
  have hgeL := orLast_ge (c := bs.length - 1 + 1) (bs := bs1) (ps := ifPs)
    (fun q hq => by have := hres1.ge q hq; rw [P.len] at this; omega) (by omega)
  have hopL1 := openAt_orLast hres1.pend hres1.cur
  have hsame1 : ∀ p, p ∈ orLast ifPs bs1 → bs2[p]? = bs1[p]? := by
    intro p hp
    obtain ⟨bp, hbp, _⟩ := hopL1 p hp
    have hplt : p < bs1.length := (List.getElem?_eq_some_iff.mp hbp).1
    have := hgeL p hp
    rw [hres2.frame p (by rw [E.len]; omega), E.frame p hplt (by omega)]
  have hopL2 := openAt_orLast hres2.pend hres2.cur
  have hres' : Res bs bs2 (union (orLast ifPs bs1) (orLast elPs bs2)) := by
    refine ⟨P.ext.trans (hres1.ext.trans hx12), by omega, ?_, ?_, ?_, ?_⟩
    · intro i hi
      rw [hres2.frame i (by rw [E.len]; omega), E.frame i (by omega) (by omega),
        hres1.frame i (by rw [P.len]; omega), P.frame i hi]
    · intro h
      exfalso
      cases hol : orLast ifPs bs1 with
      | nil => exact orLast_ne _ _ hol
      | cons q qs =>
        have : q ∈ union (orLast ifPs bs1) (orLast elPs bs2) := (mem_union q _ _).mpr (Or.inl (by rw [hol]; exact List.mem_cons_self))
        rw [h] at this; cases this
    · intro p hp
      rcases (mem_union p _ _).mp hp with h | h
      · exact openAt_transfer (hopL1 p h) (hsame1 p h) (by omega)
      · exact hopL2 p h
    · intro p hp
      rcases (mem_union p _ _).mp hp with h | h
      · have := hgeL p h; omega
      · have := orLast_ge (c := bs.length - 1) (bs := bs2) (ps := elPs)
          (fun q hq => by have := hres2.ge q hq; rw [E.len] at this; omega) (by omega) p h
        exact this
  refine ⟨hres', ?_⟩
  intro r hr
  have ha : curLen bs = b.stmts.length := curLen_eq hb
  have hstmt : bcE.stmts[curLen bs]? = some (IStmt.branch loc (bs.length - 1 + 1) (some bs1.length)) := by rw [hsE, ha]; simp
  have hlast : curLen bs + 1 = bcE.stmts.length := by rw [hsE, ha]; simp
  unfold exec
  simp only [hr, Bool.false_eq_true, if_false]
  cases hds : r.ds with
  | nil =>
    simp only
    refine ⟨[], by simp, ?_, ?_⟩
    · intro h; cases h
    · intro _; exact ⟨[], [], _, .here _ _ _, by simp⟩
  | cons dd ds' =>
    simp only
    cases dd with
    | true =>
      simp only [if_true]
      have h1 := hpaths1 ⟨r.trace ++ [loc], ds', false⟩ rfl
      rw [P.len, P.curLen] at h1
      have hidx : bs.length + 1 - 1 = bs.length - 1 + 1 := by omega
      rw [hidx] at h1
      obtain ⟨tr, t1, t2, t3⟩ := h1
      simp only [List.nil_append] at t2 t3
      refine ⟨loc :: tr, by rw [t1]; simp, ?_, ?_⟩
      · intro hs'
        obtain ⟨e, hp, hex⟩ := t2 hs'
        refine ⟨e, ?_, ?_⟩
        · simp only [List.nil_append]
          exact .brT _ _ bcE loc _ _ tr ds' _ e hbc2 hstmt hlast (by simpa using hp.mono hx12)
        · exact exitOf_mono (exitOf_transfer (exitOf_orLast hex hres1.cur) (orLast_ne _ _) hsame1) (orLast_ne _ _)
            (fun p hp' => (mem_union p _ _).mpr (Or.inl hp'))
      · intro hs'
        obtain ⟨tr', ds'', e, hp, hpf⟩ := t3 hs'
        refine ⟨loc :: tr', ds'', e, .brT _ _ bcE loc _ _ tr' ds' ds'' e hbc2 hstmt hlast (by simpa using hp.mono hx12), ?_⟩
        simpa using hpf
    | false =>
      simp only [Bool.false_eq_true, if_false]
      have h1 := hpaths2 ⟨r.trace ++ [loc], ds', false⟩ rfl
      rw [E.len, E.curLen] at h1
      have hidx : bs1.length + 1 - 1 = bs1.length := by omega
      rw [hidx] at h1
      obtain ⟨tr, t1, t2, t3⟩ := h1
      simp only [List.nil_append] at t2 t3
      refine ⟨loc :: tr, by rw [t1]; simp, ?_, ?_⟩
      · intro hs'
        obtain ⟨e, hp, hex⟩ := t2 hs'
        refine ⟨e, ?_, ?_⟩
        · simp only [List.nil_append]
          exact .brFgo _ _ bcE loc _ _ bs1.length tr ds' _ e hbc2 hstmt hlast (by simp [falseTgt]) (by simpa using hp)
        · exact exitOf_mono (exitOf_orLast hex hres2.cur) (orLast_ne _ _) (fun p hp' => (mem_union p _ _).mpr (Or.inr hp'))
      · intro hs'
        obtain ⟨tr', ds'', e, hp, hpf⟩ := t3 hs'
        refine ⟨loc :: tr', ds'', e, .brFgo _ _ bcE loc _ _ bs1.length tr' ds' ds'' e hbc2 hstmt hlast (by simp [falseTgt]) (by simpa using hp), ?_⟩
        simpa using hpf

theorem edged_walk_same (fs : List Nat) (h i : Nat) (b : Block) (hi : i ∉ fs) :
    (edged fs h i b).stmts = b.stmts ∧ (edged fs h i b).succs = b.succs := by
  refine ⟨edged_stmts fs h i b, ?_⟩
  rw [edged_succs]
  have : fs.contains i = false := by simpa using hi
  rw [this]; rfl

theorem edged_other (fs : List Nat) (h i : Nat) (b : Block) (hi : i ∉ fs) (hh : i ≠ h) : edged fs h i b = b := by
  unfold edged
  have : fs.contains i = false := by simpa using hi
  simp only [this, Bool.false_eq_true, if_false, if_neg hh]

theorem goal_while (rets : List Loc) (fuelE : Nat) (loc : Loc) (body : Stmt) (d : Nat) (bs : List Block)
    (hpos : 0 < bs.length) (hc : CurOpen bs) (bs' : List Block) (ps : List Nat)
    (hbody : Goal rets fuelE body (whilePre loc d bs) bs' ps) :
    Goal rets fuelE (.while loc body) bs (addEdges bs' (orLast ps bs') (bs.length - 1 + 1)) [bs.length - 1 + 1] := by
  have W := whilePre_facts bs loc d hpos hc
  obtain ⟨hres, hpaths⟩ := hbody
  obtain ⟨b, bcW, hb, hbcW, hsW, hsuW⟩ := W.before
  obtain ⟨bh, hbh, hsh, hsuh⟩ := W.header
  have hh : bs.length - 1 + 1 = bs.length := by omega
  rw [hh]
  have hlen' : bs.length + 2 ≤ bs'.length := by have := hres.len; rw [W.len] at this; exact this
  have hbc' : bs'[bs.length - 1]? = some bcW := by
    rw [hres.frame (bs.length - 1) (by rw [W.len]; omega)]; exact hbcW
  have hbh' : bs'[bs.length]? = some bh := by
    rw [hres.frame bs.length (by rw [W.len]; omega)]; exact hbh
  have hopF := openAt_orLast hres.pend hres.cur
  have hgeF := orLast_ge (c := bs.length + 1) (bs := bs') (ps := ps)
    (fun q hq => by have := hres.ge q hq; rw [W.len] at this; omega) (by omega)
  have hxF : Ext bs' (addEdges bs' (orLast ps bs') bs.length) := ext_addEdges bs' _ _ hopF
  have hlenF : (addEdges bs' (orLast ps bs') bs.length).length = bs'.length := length_addEdges _ _ _
  have hnc : bs.length - 1 ∉ orLast ps bs' := fun hm => by have := hgeF _ hm; omega
  have hnh : bs.length ∉ orLast ps bs' := fun hm => by have := hgeF _ hm; omega
  -- the block before the loop and the header in the final graph
  have hbcF : ∃ bcF, (addEdges bs' (orLast ps bs') bs.length)[bs.length - 1]? = some bcF ∧ bcF.stmts = b.stmts ∧ bcF.succs = [bs.length] := by
    refine ⟨_, by rw [addEdges_get, hbc']; rfl, ?_, ?_⟩
    · rw [(edged_walk_same _ _ _ _ hnc).1, hsW]
    · rw [(edged_walk_same _ _ _ _ hnc).2, hsuW]
  have hbhF : ∃ bhF, (addEdges bs' (orLast ps bs') bs.length)[bs.length]? = some bhF ∧
      bhF.stmts = [IStmt.branch loc (bs.length + 1) none] ∧ bhF.succs = [bs.length + 1] := by
    refine ⟨_, by rw [addEdges_get, hbh']; rfl, ?_, ?_⟩
    · rw [(edged_walk_same _ _ _ _ hnh).1, hsh]
    · rw [(edged_walk_same _ _ _ _ hnh).2, hsuh]
  obtain ⟨bcF, hgcF, hscF, hsucF⟩ := hbcF
  obtain ⟨bhF, hghF, hshF, hsuhF⟩ := hbhF
  have hboF : BranchOpen bs.length bhF := ⟨[], loc, by simpa using hshF, hsuhF⟩
  have hres' : Res bs (addEdges bs' (orLast ps bs') bs.length) [bs.length] := by
    refine ⟨W.ext.trans (hres.ext.trans hxF), by omega, ?_, ?_, ?_, ?_⟩
    rotate_left
    · intro h; cases h
    rotate_right
    · intro i hi
      rw [addEdges_get]
      have hni : i ∉ orLast ps bs' := fun hm => by have := hgeF _ hm; omega
      have : bs'[i]? = bs[i]? := by rw [hres.frame i (by rw [W.len]; omega), W.frame i hi]
      rw [this]
      cases hbi : bs[i]? with
      | none => rfl
      | some bi => simp only [Option.map_some]; rw [edged_other _ _ _ _ hni (by omega)]
    · intro p hp
      simp only [List.mem_singleton] at hp; subst hp
      exact ⟨bhF, hghF, Or.inr ⟨hboF, by omega⟩⟩
    · intro p hp
      simp only [List.mem_singleton] at hp; omega
  refine ⟨hres', ?_⟩
  -- the loop, from the header
  have hloop : ∀ (f : Nat) (r : Run), r.stop = false →
      PathOut (addEdges bs' (orLast ps bs') bs.length) [bs.length] bs.length 0 [] r.ds r (Trace.loop (exec rets fuelE body) loc f r) := by
    intro f
    induction f with
    | zero =>
      intro r hr
      unfold Trace.loop
      refine ⟨[], by simp, ?_, ?_⟩
      · intro h; cases h
      · intro _; exact ⟨[], r.ds, _, .here _ _ _, by simp⟩
    | succ f ih =>
      intro r hr
      unfold Trace.loop
      simp only [hr, Bool.false_eq_true, if_false]
      cases hds : r.ds with
      | nil =>
        simp only
        refine ⟨[], by simp, ?_, ?_⟩
        · intro h; cases h
        · intro _; exact ⟨[], [], _, .here _ _ _, by simp⟩
      | cons dd ds' =>
        simp only
        have hstmt : bhF.stmts[0]? = some (IStmt.branch loc (bs.length + 1) none) := by rw [hshF]; rfl
        have hlast : 0 + 1 = bhF.stmts.length := by rw [hshF]; rfl
        cases dd with
        | false =>
          simp only [Bool.false_eq_true, if_false]
          refine ⟨[loc], rfl, ?_, ?_⟩
          · intro _
            refine ⟨.fe bs.length, by simpa using Path.brF _ _ bhF loc _ none ds' hghF hstmt hlast, ?_⟩
            exact Or.inr ⟨bs.length, bhF, by simp, hghF, Or.inr ⟨hboF, rfl⟩⟩
          · intro hs'; simp at hs'
        | true =>
          simp only [if_true]
          have h1 := hpaths ⟨r.trace ++ [loc], ds', false⟩ rfl
          rw [W.len, W.curLen] at h1
          have hidx : bs.length + 2 - 1 = bs.length + 1 := by omega
          rw [hidx] at h1
          obtain ⟨trb, t1, t2, t3⟩ := h1
          simp only [List.nil_append] at t2 t3
          cases hst : (exec rets fuelE body ⟨r.trace ++ [loc], ds', false⟩).stop with
          | true =>
            rw [loop_stop _ loc f _ hst]
            refine ⟨loc :: trb, by rw [t1]; simp, ?_, ?_⟩
            · intro hs'; rw [hst] at hs'; cases hs'
            · intro _
              obtain ⟨tr', ds'', e, hp, hpf⟩ := t3 hst
              refine ⟨loc :: tr', ds'', e, .brT _ _ bhF loc _ none tr' ds' ds'' e hghF hstmt hlast (hp.mono hxF), ?_⟩
              simpa using hpf
          | false =>
            obtain ⟨e, hp, hex⟩ := t2 hst
            have hconn := connect_edges bs' (orLast ps bs') bs.length (orLast_ne _ _) hopF
              (fun p hp' => by have := hgeF p hp'; omega) (exitOf_orLast hex hres.cur) hp
            obtain ⟨tr2, u1, u2, u3⟩ := ih (exec rets fuelE body ⟨r.trace ++ [loc], ds', false⟩) hst
            simp only [List.nil_append] at u2 u3
            have hhead : Path (addEdges bs' (orLast ps bs') bs.length) bs.length 0 (loc :: trb) (true :: ds')
                (exec rets fuelE body ⟨r.trace ++ [loc], ds', false⟩).ds (.at bs.length 0) :=
              .brT _ _ bhF loc _ none trb ds' _ _ hghF hstmt hlast hconn
            refine ⟨loc :: trb ++ tr2, by rw [u1, t1]; simp, ?_, ?_⟩
            · intro hs'
              obtain ⟨e2, hp2, hex2⟩ := u2 hs'
              exact ⟨e2, by simpa using hhead.trans hp2, hex2⟩
            · intro hs'
              obtain ⟨tr', ds'', e2, hp2, hpf⟩ := u3 hs'
              refine ⟨(loc :: trb) ++ tr', ds'', e2, hhead.trans hp2, ?_⟩
              simp only [List.nil_append, List.cons_append]
              exact List.cons_prefix_cons.mpr ⟨rfl, (List.prefix_append_right_inj trb).mpr hpf⟩
  intro r hr
  have ha : curLen bs = b.stmts.length := curLen_eq hb
  have hfall : Path (addEdges bs' (orLast ps bs') bs.length) (bs.length - 1) (curLen bs) [] r.ds r.ds (.at bs.length 0) := by
    refine .fall _ _ bcF bs.length [] r.ds r.ds _ hgcF (by rw [hscF, ha]) ?_ hsucF (.here _ _ _)
    obtain ⟨b', hb', ho⟩ := hc
    rw [hb] at hb'; cases hb'
    simpa [trailingBranch, hscF] using ho.1
  unfold exec
  exact pathOut_prepend (Ext.refl _) hfall (hloop fuelE r hr)

theorem exitOf_nil {bs : List Block} {e : End} (h : ExitOf bs [] e) : e = .at (bs.length - 1) (curLen bs) := by
  rcases h with ⟨_, he⟩ | ⟨p, b, hp, _⟩
  · exact he
  · cases hp

theorem goal_of_goalL (rets : List Loc) (fuelE : Nat) (cs : Stmts) (s : Stmt) (bs bs1 : List Block) (ps1 : List Nat)
    (hexec : ∀ r, exec rets fuelE s r = execList rets fuelE cs r) (h : GoalL rets fuelE cs bs [] bs1 ps1) :
    Goal rets fuelE s bs bs1 ps1 := by
  obtain ⟨hres, hpaths⟩ := h
  refine ⟨⟨hres.ext, hres.len, fun i hi => hres.frame i hi (by simp), hres.cur, hres.pend, ?_⟩, ?_⟩
  · intro p hp
    rcases hres.ge p hp with h | h
    · exact h
    · cases h
  · intro r hr
    rw [hexec]
    exact hpaths r hr _ _ [] r.ds _ (.here _ _ _) (Or.inl ⟨rfl, rfl⟩)

/-- the blocks a statement of a block starts from: the pending exits are connected to a fresh block -/
theorem start_block (bs : List Block) (ps : List Nat) (d : Nat) (hpos : 0 < bs.length) (hcur : ps = [] → CurOpen bs)
    (hpend : ∀ p, p ∈ ps → OpenAt bs p) :
    let bs0 := if ps.isEmpty then bs else completeBlock bs ps d
    0 < bs0.length ∧ CurOpen bs0 ∧ Ext bs bs0 ∧ bs.length ≤ bs0.length ∧
    (∀ i, i < bs.length → i ∉ ps → bs0[i]? = bs[i]?) ∧
    (∀ (i₀ a₀ : Nat) (tr₀ : List Loc) (ds₀ ds : List Bool) (e₀ : End), Path bs i₀ a₀ tr₀ ds₀ ds e₀ → ExitOf bs ps e₀ →
      Path bs0 i₀ a₀ tr₀ ds₀ ds (.at (bs0.length - 1) (curLen bs0))) := by
  intro bs0
  by_cases hps : ps = []
  · have : bs0 = bs := by simp [bs0, hps]
    rw [this]
    refine ⟨hpos, hcur hps, Ext.refl bs, Nat.le_refl _, fun _ _ _ => rfl, ?_⟩
    intro i₀ a₀ tr₀ ds₀ ds e₀ hp hex
    subst hps
    rw [exitOf_nil hex] at hp; exact hp
  · have hne : ps.isEmpty = false := by simpa using hps
    have h0 : bs0 = completeBlock bs ps d := by simp [bs0, hne]
    rw [h0]
    have hlen : (completeBlock bs ps d).length = bs.length + 1 := length_completeBlock _ _ _
    have hnew := completeBlock_get_new bs ps d
    refine ⟨by omega, ?_, ext_completeBlock bs ps d hpend, by omega, ?_, ?_⟩
    · refine ⟨_, by rw [hlen]; simpa using hnew, ?_⟩
      exact ⟨by simp [trailingBranch], rfl⟩
    · intro i hi hni
      rw [completeBlock_get_lt bs ps d i hi]
      cases hbi : bs[i]? with
      | none => rfl
      | some bi => simp only [Option.map_some]; rw [completed_other _ _ _ _ hni]
    · intro i₀ a₀ tr₀ ds₀ ds e₀ hp hex
      have hcl : TracePaths.curLen (completeBlock bs ps d) = 0 := by
        unfold TracePaths.curLen; rw [hlen]; simp [hnew]
      rw [hcl, hlen]
      simpa using connect_complete bs ps d hps hpend hex hp

mutual
theorem visit_paths (rets : List Loc) (fuelE : Nat) : ∀ (s : Stmt) (d : Nat) (bs : List Block), 0 < bs.length → CurOpen bs →
    Holds (Goal rets fuelE s bs) (visit s d bs)
  | .simple loc, d, bs, hp, hc => by rw [visit]; exact goal_simple rets fuelE loc bs hp hc
  | .init cs, d, bs, hp, hc => by
      rw [visit]
      apply holds_mono (visitInit_paths rets fuelE cs d bs hp hc)
      intro bs1 ps1 g
      exact goal_of_goalL rets fuelE cs (.init cs) bs bs1 ps1 (fun r => by rw [exec]) g
  | .block cs, d, bs, hp, hc => by
      rw [visit]
      apply holds_mono (visitBlock_paths rets fuelE cs d bs [] hp (fun _ => hc) (fun p h => (List.not_mem_nil h).elim))
      intro bs1 ps1 g
      exact goal_of_goalL rets fuelE cs (.block cs) bs bs1 ps1 (fun r => by rw [exec]) g
  | .while loc body, d, bs, hp, hc => by
      rw [visit]
      have W := whilePre_facts bs loc d hp hc
      apply holds_andThen (visit_paths rets fuelE body (d + 1) (whilePre loc d bs) (by rw [W.len]; omega) W.cur)
      intro bs' ps g
      exact goal_while rets fuelE loc body d bs hp hc bs' ps g
  | .ite loc thn, d, bs, hp, hc => by
      rw [visit]
      have P := itePre_facts bs loc d hp hc
      apply holds_andThen (visit_paths rets fuelE thn d (itePre loc d bs) (by rw [P.len]; omega) P.cur)
      intro bs1 ifPs g
      exact goal_ite rets fuelE loc thn d bs hp hc bs1 ifPs g
  | .iteElse loc thn els, d, bs, hp, hc => by
      rw [visit]
      have P := itePre_facts bs loc d hp hc
      apply holds_andThen (visit_paths rets fuelE thn d (itePre loc d bs) (by rw [P.len]; omega) P.cur)
      intro bs1 ifPs g
      obtain ⟨b, bc, hb, hbc, hs, hsu⟩ := P.cond
      have hlen1 : bs.length + 1 ≤ bs1.length := by have := g.1.len; rw [P.len] at this; exact this
      have hbc1 : bs1[bs.length - 1]? = some bc := by
        rw [g.1.frame (bs.length - 1) (by rw [P.len]; omega)]; exact hbc
      have E := elsePre_facts bs1 (bs.length - 1) d bc loc b.stmts hbc1 hs hsu (by omega)
      apply holds_andThen (visit_paths rets fuelE els d (completeBlock bs1 [bs.length - 1] d) (by rw [E.len]; omega) E.cur)
      intro bs2 elPs g2
      exact goal_iteElse rets fuelE loc thn els d bs hp hc bs1 ifPs g bs2 elPs g2
theorem visitBlock_paths (rets : List Loc) (fuelE : Nat) : ∀ (cs : Stmts) (d : Nat) (bs : List Block) (ps : List Nat),
    0 < bs.length → (ps = [] → CurOpen bs) → (∀ p, p ∈ ps → OpenAt bs p) →
    Holds (GoalL rets fuelE cs bs ps) (visitBlock cs d bs ps)
  | .nil, d, bs, ps, hp, hcur, hpend => by
      rw [visitBlock]
      refine ⟨⟨Ext.refl bs, Nat.le_refl _, fun _ _ _ => rfl, hcur, hpend, fun p h => Or.inr h⟩, ?_⟩
      intro r hr i₀ a₀ tr₀ ds₀ e₀ hpath hex
      unfold execList
      refine ⟨[], by simp, ?_, ?_⟩
      · intro _; exact ⟨e₀, by simpa using hpath, hex⟩
      · intro hs; rw [hr] at hs; cases hs
  | .cons s rest, d, bs, ps, hp, hcur, hpend => by
      rw [visitBlock]
      obtain ⟨h0pos, h0cur, h0ext, h0len, h0frame, h0conn⟩ := start_block bs ps d hp hcur hpend
      apply holds_andThen (visit_paths rets fuelE s d _ h0pos h0cur)
      intro bs' ps' gs
      obtain ⟨hress, hpathss⟩ := gs
      have hpos' : 0 < bs'.length := by have := hress.len; omega
      apply holds_mono (visitBlock_paths rets fuelE rest d bs' ps' hpos' hress.cur hress.pend)
      intro bs1 ps1 gr
      obtain ⟨hresr, hpathsr⟩ := gr
      refine ⟨⟨h0ext.trans (hress.ext.trans hresr.ext), by have := hress.len; have := hresr.len; omega, ?_, hresr.cur, hresr.pend, ?_⟩, ?_⟩
      · intro i hi hni
        have hni' : i ∉ ps' := fun hm => by have := hress.ge i hm; omega
        rw [hresr.frame i (by have := hress.len; omega) hni', hress.frame i (by omega), h0frame i (by omega) hni]
      · intro p hp'
        left
        rcases hresr.ge p hp' with h | h
        · have := hress.len; omega
        · have := hress.ge p h; omega
      · intro r hr i₀ a₀ tr₀ ds₀ e₀ hpath hex
        have hstart := h0conn i₀ a₀ tr₀ ds₀ r.ds e₀ hpath hex
        have hs1 := pathOut_prepend hress.ext hstart (hpathss r hr)
        unfold execList
        cases hst : (exec rets fuelE s r).stop with
        | true =>
          rw [execList_stop rets fuelE rest _ hst]
          exact PathOut.mono hresr.ext hs1 hst ps1
        | false =>
          obtain ⟨trs, q1, q2, _⟩ := hs1
          obtain ⟨es, hps, hexs⟩ := q2 hst
          obtain ⟨tr2, w1, w2, w3⟩ := hpathsr (exec rets fuelE s r) hst i₀ a₀ (tr₀ ++ trs) ds₀ es hps hexs
          refine ⟨trs ++ tr2, by rw [w1, q1]; simp, ?_, ?_⟩
          · intro hs'
            obtain ⟨e, hpe, hexe⟩ := w2 hs'
            exact ⟨e, by simpa [List.append_assoc] using hpe, hexe⟩
          · intro hs'
            obtain ⟨tr', ds'', e, hpe, hpf⟩ := w3 hs'
            exact ⟨tr', ds'', e, hpe, by simpa [List.append_assoc] using hpf⟩
theorem visitInit_paths (rets : List Loc) (fuelE : Nat) : ∀ (cs : Stmts) (d : Nat) (bs : List Block),
    0 < bs.length → CurOpen bs → Holds (GoalL rets fuelE cs bs []) (visitInit cs d bs)
  | .nil, d, bs, hp, hc => by
      rw [visitInit]
      refine ⟨⟨Ext.refl bs, Nat.le_refl _, fun _ _ _ => rfl, fun _ => hc, fun p h => (List.not_mem_nil h).elim, fun p h => Or.inr h⟩, ?_⟩
      intro r hr i₀ a₀ tr₀ ds₀ e₀ hpath hex
      unfold execList
      refine ⟨[], by simp, ?_, ?_⟩
      · intro _; exact ⟨e₀, by simpa using hpath, hex⟩
      · intro hs; rw [hr] at hs; cases hs
  | .cons s rest, d, bs, hp, hc => by
      rw [visitInit]
      apply holds_andThen (visit_paths rets fuelE s d bs hp hc)
      intro bs' ps' gs
      obtain ⟨hress, hpathss⟩ := gs
      have hpos' : 0 < bs'.length := by have := hress.len; omega
      split
      · rename_i hemp
        have hps' : ps' = [] := by simpa using hemp
        subst hps'
        apply holds_mono (visitInit_paths rets fuelE rest d bs' hpos' (hress.cur rfl))
        intro bs1 ps1 gr
        obtain ⟨hresr, hpathsr⟩ := gr
        refine ⟨⟨hress.ext.trans hresr.ext, by have := hress.len; have := hresr.len; omega, ?_, hresr.cur, hresr.pend, ?_⟩, ?_⟩
        · intro i hi _
          rw [hresr.frame i (by have := hress.len; omega) (by simp), hress.frame i hi]
        · intro p hp'
          left
          rcases hresr.ge p hp' with h | h
          · have := hress.len; omega
          · cases h
        · intro r hr i₀ a₀ tr₀ ds₀ e₀ hpath hex
          rw [exitOf_nil hex] at hpath
          have hs1 := pathOut_prepend hress.ext hpath (hpathss r hr)
          unfold execList
          cases hst : (exec rets fuelE s r).stop with
          | true =>
            rw [execList_stop rets fuelE rest _ hst]
            exact PathOut.mono hresr.ext hs1 hst ps1
          | false =>
            obtain ⟨trs, q1, q2, _⟩ := hs1
            obtain ⟨es, hps, hexs⟩ := q2 hst
            obtain ⟨tr2, w1, w2, w3⟩ := hpathsr (exec rets fuelE s r) hst i₀ a₀ (tr₀ ++ trs) ds₀ es hps hexs
            refine ⟨trs ++ tr2, by rw [w1, q1]; simp, ?_, ?_⟩
            · intro hs'
              obtain ⟨e, hpe, hexe⟩ := w2 hs'
              exact ⟨e, by simpa [List.append_assoc] using hpe, hexe⟩
            · intro hs'
              obtain ⟨tr', ds'', e, hpe, hpf⟩ := w3 hs'
              exact ⟨tr', ds'', e, hpe, by simpa [List.append_assoc] using hpf⟩
      · trivial
end

-- ---------------------------------------------------------------------------- the theorem

theorem isPrefix_iff : ∀ (a b : List Loc), isPrefix a b = true ↔ a <+: b
  | [], b => by simp [isPrefix]
  | x :: xs, [] => by simp [isPrefix]
  | x :: xs, y :: ys => by
    simp only [isPrefix, Bool.and_eq_true, beq_iff_eq, List.cons_prefix_cons]
    rw [isPrefix_iff xs ys]

theorem curOpen_init : CurOpen initBlocks :=
  ⟨_, rfl, by simp [trailingBranch], rfl⟩

/-- **C13, trace inclusion**: for every statement tree, every set of `return` locations and every sequence of
    decisions, the statements the source program executes (up to its first `return`) are a prefix of the walk
    of the lifted CFG under the same decisions, for every sufficiently large walk budget -/
theorem trace_inclusion (rets : List Loc) (body : Stmt) (bs : List Block) (ps : List Nat) (ds : List Bool)
    (h : lift body = .ok bs ps) :
    ∃ N, ∀ fuel, N ≤ fuel → isPrefix (astTrace rets body ds) (walk bs fuel 0 ds []) = true := by
  have hv := visit_paths rets (ds.length + 1) body 0 initBlocks (by simp [initBlocks]) curOpen_init
  unfold lift at h
  change visit body 0 initBlocks = _ at h
  rw [h] at hv
  obtain ⟨_, hpaths⟩ := hv
  have hp := hpaths ⟨[], ds, false⟩ rfl
  have h0 : initBlocks.length - 1 = 0 := rfl
  have h1 : TracePaths.curLen initBlocks = 0 := rfl
  rw [h0, h1] at hp
  obtain ⟨tr, t1, t2, t3⟩ := hp
  simp only [List.nil_append] at t1 t2 t3
  unfold astTrace
  rw [t1]
  cases hst : (exec rets (ds.length + 1) body ⟨[], ds, false⟩).stop with
  | false =>
    obtain ⟨e, hpath, _⟩ := t2 hst
    obtain ⟨N, hN⟩ := path_walk bs hpath
    refine ⟨N, fun fuel hf => (isPrefix_iff _ _).mpr ?_⟩
    have := hN fuel hf []
    rw [before_zero] at this
    simpa using this
  | true =>
    obtain ⟨tr', ds'', e, hpath, hpf⟩ := t3 hst
    obtain ⟨N, hN⟩ := path_walk bs hpath
    refine ⟨N, fun fuel hf => (isPrefix_iff _ _).mpr ?_⟩
    have := hN fuel hf []
    rw [before_zero] at this
    exact hpf.trans (by simpa using this)

end Circomspect.TracePaths
