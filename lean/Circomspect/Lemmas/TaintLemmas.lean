/-
Lemmas about the taint / side-effect model (Model/Taint.lean): reachability, the closure loop, what
the sink set covers, and why a claimed variable reaches no sink.
-/
import Circomspect.Model.Taint
import Circomspect.Lemmas.IncludeLemmas
namespace Circomspect.Taint

inductive Reach (es : List (V × V)) (x : V) : V → Prop
  | refl : Reach es x x
  | step {u y : V} : Reach es x u → (u, y) ∈ es → Reach es x y

theorem mem_succs (es : List (V × V)) (u y : V) : y ∈ succs es u ↔ (u, y) ∈ es := by
  unfold succs
  simp only [List.mem_map, List.mem_filter]
  constructor
  · intro ⟨e, ⟨he, hu⟩, hy⟩
    have : e.1 = u := by simpa using hu
    obtain ⟨a, b⟩ := e
    simp at this hy
    subst this; subst hy
    exact he
  · intro h
    exact ⟨(u, y), ⟨h, by simp⟩, rfl⟩

theorem subset_spec (a b : List V) : subset a b = true ↔ ∀ x, x ∈ a → x ∈ b := by
  unfold subset
  simp [List.all_eq_true]

/-- the loop invariant: everything one step from `result` is in `result` or in `update` -/
theorem closeLoop_closed (es : List (V × V)) :
    ∀ (k : Nat) (update result r : List V), closeLoop es k update result = some r →
      (∀ u, u ∈ result → ∀ v, v ∈ succs es u → v ∈ result ∨ v ∈ update) →
      (∀ u, u ∈ result ∨ u ∈ update → u ∈ r) ∧ (∀ u, u ∈ r → ∀ v, v ∈ succs es u → v ∈ r) := by
  intro k
  induction k with
  | zero => intro update result r h; simp [closeLoop] at h
  | succ k ih =>
    intro update result r h inv
    unfold closeLoop at h
    split at h
    · rename_i hs
      have hs' := (subset_spec update result).mp hs
      cases h
      constructor
      · intro u hu
        rcases hu with hu | hu
        · exact hu
        · exact hs' u hu
      · intro u hu v hv
        rcases inv u hu v hv with h1 | h1
        · exact h1
        · exact hs' v h1
    · have := ih (update.flatMap (succs es)) (result ++ update) r h (by
        intro u hu v hv
        rcases List.mem_append.mp hu with hu | hu
        · rcases inv u hu v hv with h1 | h1
          · exact Or.inl (List.mem_append_left _ h1)
          · exact Or.inl (List.mem_append_right _ h1)
        · exact Or.inr (List.mem_flatMap.mpr ⟨u, hu, hv⟩))
      constructor
      · intro u hu
        apply this.1 u
        rcases hu with hu | hu
        · exact Or.inl (List.mem_append_left _ hu)
        · exact Or.inl (List.mem_append_right _ hu)
      · exact this.2

/-- everything the loop returns was in the start sets or is the target of an edge -/
theorem closeLoop_origin (es : List (V × V)) :
    ∀ (k : Nat) (update result r : List V), closeLoop es k update result = some r →
      ∀ y, y ∈ r → y ∈ result ∨ y ∈ update ∨ ∃ u, (u, y) ∈ es := by
  intro k
  induction k with
  | zero => intro update result r h; simp [closeLoop] at h
  | succ k ih =>
    intro update result r h y hy
    unfold closeLoop at h
    split at h
    · cases h; exact Or.inl hy
    · rcases ih _ _ r h y hy with h1 | h1 | h1
      · rcases List.mem_append.mp h1 with h1 | h1
        · exact Or.inl h1
        · exact Or.inr (Or.inl h1)
      · obtain ⟨u, _, hv⟩ := List.mem_flatMap.mp h1
        exact Or.inr (Or.inr ⟨u, (mem_succs es u y).mp hv⟩)
      · exact Or.inr (Or.inr h1)

/-- the invariant of the work list: everything one step from `result` is in `result` or still on the list -/
theorem workLoop_closed (es : List (V × V)) :
    ∀ (k : Nat) (work result r : List V), workLoop es k work result = some r →
      (∀ u, u ∈ result → ∀ v, v ∈ succs es u → v ∈ result ∨ v ∈ work) →
      (∀ u, u ∈ result ∨ u ∈ work → u ∈ r) ∧ (∀ u, u ∈ r → ∀ v, v ∈ succs es u → v ∈ r) := by
  intro k
  induction k with
  | zero => intro work result r h; simp [workLoop] at h
  | succ k ih =>
    intro work result r h inv
    cases work with
    | nil =>
      simp only [workLoop] at h
      cases h
      constructor
      · intro u hu
        rcases hu with hu | hu
        · exact hu
        · cases hu
      · intro u hu v hv
        rcases inv u hu v hv with h1 | h1
        · exact h1
        · cases h1
    | cons x work =>
      simp only [workLoop] at h
      split at h
      · rename_i hc
        have hx : x ∈ result := by simpa using hc
        have := ih work result r h (by
          intro u hu v hv
          rcases inv u hu v hv with h1 | h1
          · exact Or.inl h1
          · rcases List.mem_cons.mp h1 with h2 | h2
            · subst h2; exact Or.inl hx
            · exact Or.inr h2)
        constructor
        · intro u hu
          rcases hu with hu | hu
          · exact this.1 u (Or.inl hu)
          · rcases List.mem_cons.mp hu with h2 | h2
            · subst h2; exact this.1 _ (Or.inl hx)
            · exact this.1 u (Or.inr h2)
        · exact this.2
      · have := ih _ (x :: result) r h (by
          intro u hu v hv
          rcases List.mem_cons.mp hu with h2 | h2
          · subst h2
            by_cases hvr : v ∈ u :: result
            · exact Or.inl hvr
            · refine Or.inr (List.mem_append_left _ (List.mem_filter.mpr ⟨hv, ?_⟩))
              simpa using hvr
          · rcases inv u h2 v hv with h1 | h1
            · exact Or.inl (List.mem_cons_of_mem _ h1)
            · rcases List.mem_cons.mp h1 with h3 | h3
              · subst h3; exact Or.inl List.mem_cons_self
              · exact Or.inr (List.mem_append_right _ h3))
        constructor
        · intro u hu
          rcases hu with hu | hu
          · exact this.1 u (Or.inl (List.mem_cons_of_mem _ hu))
          · rcases List.mem_cons.mp hu with h2 | h2
            · subst h2; exact this.1 _ (Or.inl List.mem_cons_self)
            · exact this.1 u (Or.inr (List.mem_append_right _ h2))
        · exact this.2

/-- everything the work list returns was in the start sets or is the target of an edge -/
theorem workLoop_origin (es : List (V × V)) :
    ∀ (k : Nat) (work result r : List V), workLoop es k work result = some r →
      ∀ y, y ∈ r → y ∈ result ∨ y ∈ work ∨ ∃ u, (u, y) ∈ es := by
  intro k
  induction k with
  | zero => intro work result r h; simp [workLoop] at h
  | succ k ih =>
    intro work result r h y hy
    cases work with
    | nil =>
      simp only [workLoop] at h
      cases h; exact Or.inl hy
    | cons x work =>
      simp only [workLoop] at h
      split at h
      · rcases ih _ _ r h y hy with h1 | h1 | h1
        · exact Or.inl h1
        · exact Or.inr (Or.inl (List.mem_cons_of_mem _ h1))
        · exact Or.inr (Or.inr h1)
      · rcases ih _ _ r h y hy with h1 | h1 | h1
        · rcases List.mem_cons.mp h1 with h2 | h2
          · subst h2; exact Or.inr (Or.inl List.mem_cons_self)
          · exact Or.inl h2
        · rcases List.mem_append.mp h1 with h2 | h2
          · exact Or.inr (Or.inr ⟨x, (mem_succs es x y).mp (List.mem_filter.mp h2).1⟩)
          · exact Or.inr (Or.inl (List.mem_cons_of_mem _ h2))
        · exact Or.inr (Or.inr h1)

/-- `multi_step_taint` returns (at least) everything reachable in zero or more steps -/
theorem multiStepTaint_complete (es : List (V × V)) (fuel : Nat) (x : V) (r : List V)
    (h : multiStepTaint es fuel x = some r) : ∀ y, Reach es x y → y ∈ r := by
  unfold multiStepTaint at h
  have := workLoop_closed es fuel [x] [] r h (by intro u hu; cases hu)
  intro y hy
  induction hy with
  | refl => exact this.1 x (Or.inr (List.mem_singleton.mpr rfl))
  | step _ he ih => exact this.2 _ ih _ ((mem_succs es _ _).mpr he)

/-- `multi_step_constraint` returns (at least) every one-step partner -/
theorem multiStepCons_partners (es : List (V × V)) (fuel : Nat) (x : V) (r : List V)
    (h : multiStepCons es fuel x = some r) : ∀ y, (x, y) ∈ es → y ∈ r := by
  unfold multiStepCons at h
  have := workLoop_closed es fuel (succs es x) [] r h (by intro u hu; cases hu)
  intro y hy
  exact this.1 y (Or.inr ((mem_succs es x y).mpr hy))

theorem multiStepCons_origin (es : List (V × V)) (fuel : Nat) (x : V) (r : List V)
    (h : multiStepCons es fuel x = some r) : ∀ y, y ∈ r → ∃ u, (u, y) ∈ es := by
  unfold multiStepCons at h
  intro y hy
  rcases workLoop_origin es fuel _ _ r h y hy with h1 | h1 | h1
  · cases h1
  · exact ⟨x, (mem_succs es x y).mp h1⟩
  · exact h1


theorem optBind_spec {α β : Type} (f : α → Option (List β)) :
    ∀ (l : List α) (r : List β), optBind l f = some r →
      ∀ a, a ∈ l → ∃ x, f a = some x ∧ ∀ y, y ∈ x → y ∈ r := by
  intro l
  induction l with
  | nil => intro r _ a ha; cases ha
  | cons b t ih =>
    intro r h a ha
    unfold optBind at h
    simp only [List.foldr_cons] at h
    split at h
    · rename_i x rest hfx hrest
      cases h
      rcases List.mem_cons.mp ha with ha | ha
      · subst ha
        exact ⟨x, hfx, fun y hy => List.mem_append_left _ hy⟩
      · obtain ⟨x', hx', hsub⟩ := ih rest hrest a ha
        exact ⟨x', hx', fun y hy => List.mem_append_right _ (hsub y hy)⟩
    · cases h

theorem optBind_origin {α β : Type} (f : α → Option (List β)) :
    ∀ (l : List α) (r : List β), optBind l f = some r →
      ∀ y, y ∈ r → ∃ a x, a ∈ l ∧ f a = some x ∧ y ∈ x := by
  intro l
  induction l with
  | nil =>
    intro r h y hy
    unfold optBind at h
    simp at h
    subst h; cases hy
  | cons b t ih =>
    intro r h y hy
    unfold optBind at h
    simp only [List.foldr_cons] at h
    split at h
    · rename_i x rest hfx hrest
      cases h
      rcases List.mem_append.mp hy with hy | hy
      · exact ⟨b, x, List.mem_cons_self, hfx, hy⟩
      · obtain ⟨a, x', ha, hx', hyx⟩ := ih rest hrest y hy
        exact ⟨a, x', List.mem_cons_of_mem _ ha, hx', hyx⟩
    · cases h

theorem edges_mem (fs : List Fact) (a b : V) : (a, b) ∈ edges fs ↔ ∃ f, f ∈ fs ∧ (a, b) ∈ edgesOf f := by
  unfold edges; simp [List.mem_flatMap]

theorem edge_source_read (fs : List Fact) (a b : V) (h : (a, b) ∈ edges fs) : a ∈ readSet fs := by
  obtain ⟨f, hf, he⟩ := (edges_mem fs a b).mp h
  unfold readSet
  apply List.mem_flatMap.mpr
  refine ⟨f, hf, ?_⟩
  cases f with
  | assign w rs phi =>
    simp only [edgesOf, List.mem_map] at he
    obtain ⟨r, hr, heq⟩ := he
    cases heq; exact hr
  | decl names rs =>
    simp only [edgesOf, List.mem_flatMap, List.mem_map] at he
    obtain ⟨n, _, r, hr, heq⟩ := he
    cases heq; exact hr
  | branch rs c region =>
    simp only [edgesOf] at he
    split at he
    · cases he
    · simp only [List.mem_flatMap, List.mem_map] at he
      obtain ⟨n, _, r, hr, heq⟩ := he
      cases heq; exact hr
  | observe rs => simp [edgesOf] at he
  | constraint us reads => simp [edgesOf] at he
  | other rs => simp [edgesOf] at he

/-- a variable that nobody reads reaches only itself -/
theorem reach_unread (fs : List Fact) (x y : V) (hx : x ∉ readSet fs) (h : Reach (edges fs) x y) : y = x := by
  induction h with
  | refl => rfl
  | step _ he ih =>
    subst ih
    exact absurd (edge_source_read fs _ _ he) hx

theorem consEdges_mem (fs : List Fact) (a b : V) :
    (a, b) ∈ consEdges fs ↔ ∃ us reads, Fact.constraint us reads ∈ fs ∧ a ∈ us ∧ b ∈ us ∧ a ≠ b := by
  unfold consEdges
  simp only [List.mem_flatMap]
  constructor
  · intro ⟨f, hf, he⟩
    cases f with
    | constraint us reads =>
      simp only [consOf, List.mem_flatMap, List.mem_map, List.mem_filter] at he
      obtain ⟨a', ha', b', ⟨hb', hne⟩, heq⟩ := he
      cases heq
      exact ⟨us, reads, hf, ha', hb', by simpa using hne⟩
    | assign w rs phi => simp [consOf] at he
    | decl names rs => simp [consOf] at he
    | branch rs c region => simp [consOf] at he
    | observe rs => simp [consOf] at he
    | other rs => simp [consOf] at he
  · intro ⟨us, reads, hf, ha, hb, hne⟩
    refine ⟨_, hf, ?_⟩
    simp only [consOf, List.mem_flatMap, List.mem_map, List.mem_filter]
    exact ⟨a, ha, b, ⟨hb, by simpa using hne⟩, rfl⟩

/-- well-formedness of the facts: the variables of a constraint are read by some statement (the real
    passes count the assigned signal of `<==` as read) -/
def ConsWf (fs : List Fact) : Prop :=
  ∀ us reads, Fact.constraint us reads ∈ fs → ∀ u, u ∈ us → u ∈ readSet fs

theorem consWfB_spec (fs : List Fact) (h : consWfB fs = true) : ConsWf fs := by
  intro us reads hf u hu
  unfold consWfB at h
  have := (List.all_eq_true.mp h) _ hf
  simp only at this
  have := (List.all_eq_true.mp this) u hu
  simpa using this

theorem sinkReads_sub (fs : List Fact) (y : V) (h : y ∈ fs.flatMap sinkReadsOf) : y ∈ readSet fs := by
  obtain ⟨f, hf, hy⟩ := List.mem_flatMap.mp h
  unfold readSet
  apply List.mem_flatMap.mpr
  refine ⟨f, hf, ?_⟩
  cases f <;> simp [sinkReadsOf, readsOf] at hy ⊢ <;> exact hy

theorem mem_consVars (fs : List Fact) (u : V) : u ∈ consVars fs ↔ ∃ us reads, Fact.constraint us reads ∈ fs ∧ u ∈ us := by
  unfold consVars
  rw [List.mem_flatMap]
  constructor
  · rintro ⟨f, hf, hu⟩
    cases f with
    | constraint us reads => exact ⟨us, reads, hf, hu⟩
    | assign _ _ _ => cases hu
    | decl _ _ => cases hu
    | branch _ _ _ => cases hu
    | observe _ => cases hu
    | other _ => cases hu
  · rintro ⟨us, reads, hf, hu⟩
    exact ⟨_, hf, hu⟩

/-- what the sink set contains; `M` is any set of variables that an input/output signal flows into (the variables whose
    symbolic value mentions such a signal are among them) -/
theorem sinks_cover (d : Def) (S : List V) (h : d.sinks = some S) (M : List V)
    (hM : ∀ u, u ∈ M → ∃ e, e ∈ d.exported ∧ Reach (edges d.facts) e u) :
    (∀ e, e ∈ d.exported → e ∈ S) ∧
    (∀ f, f ∈ d.facts → ∀ y, y ∈ sinkReadsOf f → y ∈ S) ∧
    (∀ us reads, Fact.constraint us reads ∈ d.facts → (∃ u, u ∈ us ∧ u ∈ M) → ∀ v, v ∈ us → v ∈ S) := by
  unfold Def.sinks at h
  simp only at h
  split at h
  · cases h
  · rename_i b hb
    split at h
    · cases h
    · rename_i c hc
      cases h
      have hexp : ∀ e, e ∈ d.exported → e ∈ c ++ d.exported ++ d.facts.flatMap sinkReadsOf := by
        intro e he
        exact List.mem_append_left _ (List.mem_append_right _ he)
      refine ⟨hexp, ?_, ?_⟩
      · intro f hf y hy
        exact List.mem_append_right _ (List.mem_flatMap.mpr ⟨f, hf, hy⟩)
      · intro us reads hf ⟨u, hu, hum⟩ v hv
        -- u ∈ b: an exported signal flows into it
        obtain ⟨e, hee, her⟩ := hM u hum
        obtain ⟨t, ht, htsub⟩ := optBind_spec _ _ _ hb e hee
        have hub : u ∈ b := htsub u (multiStepTaint_complete _ _ _ _ ht u her)
        obtain ⟨x, hx, hxsub⟩ := optBind_spec _ _ _ hc u hub
        split at hx
        · cases hx
        · rename_i rr hrr
          cases hx
          have hucv : (consVars d.facts).contains u = true := by
            simpa using (mem_consVars d.facts u).mpr ⟨us, reads, hf, hu⟩
          apply List.mem_append_left
          apply List.mem_append_left
          apply hxsub
          rw [hucv]
          simp only [if_true]
          by_cases hvu : v = u
          · subst hvu; exact List.mem_cons_self
          · have hedge : (u, v) ∈ consEdges d.facts :=
              (consEdges_mem d.facts u v).mpr ⟨us, reads, hf, hu, hv, fun e => hvu e.symm⟩
            exact List.mem_cons_of_mem _ (multiStepCons_partners _ _ _ _ hrr v hedge)

/-- every sink is read somewhere, or is an exported signal -/
theorem sinks_read (d : Def) (S : List V) (h : d.sinks = some S) (hw : ConsWf d.facts) :
    ∀ y, y ∈ S → y ∈ d.exported ∨ y ∈ readSet d.facts := by
  unfold Def.sinks at h
  simp only at h
  split at h
  · cases h
  · rename_i b hb
    split at h
    · cases h
    · rename_i c hc
      cases h
      intro y hy
      rcases List.mem_append.mp hy with hy | hy
      · rcases List.mem_append.mp hy with hy | hy
        · right
          obtain ⟨s, x, _, hx, hyx⟩ := optBind_origin _ _ _ hc y hy
          split at hx
          · cases hx
          · rename_i rr hrr
            cases hx
            have horigin := multiStepCons_origin _ _ _ _ hrr
            have hrest : y ∈ rr → y ∈ readSet d.facts := by
              intro hyr
              obtain ⟨u, hu⟩ := horigin y hyr
              obtain ⟨us, reads, hf, _, hb', _⟩ := (consEdges_mem d.facts u y).mp hu
              exact hw us reads hf y hb'
            split at hyx
            · rename_i hcv
              rcases List.mem_cons.mp hyx with hyx | hyx
              · subst hyx
                obtain ⟨us, reads, hf, hu⟩ := (mem_consVars d.facts y).mp (by simpa using hcv)
                exact hw us reads hf y hu
              · exact hrest hyx
            · exact hrest hyx
        · exact Or.inl hy
      · exact Or.inr (sinkReads_sub d.facts y hy)


/-- `x` influences none of the sinks -/
def Safe (d : Def) (S : List V) (x : V) : Prop := ∀ s, s ∈ S → ¬ Reach (edges d.facts) x s

theorem classify_safe (d : Def) (S : List V) (x : V) (c : Claim) (hS : d.sinks = some S) (hw : ConsWf d.facts)
    (h : d.classify x = some (some c)) : Safe d S x := by
  unfold Def.classify at h
  split at h
  · cases h
  · split at h
    · rename_i hnr
      have hx : x ∉ readSet d.facts := by simpa using hnr
      split at h
      · cases h
      · rename_i hne
        have hxe : x ∉ d.exported := by simpa using hne
        intro s hs hreach
        have := reach_unread d.facts x s hx hreach
        subst this
        rcases sinks_read d S hS hw s hs with h1 | h1
        · exact hxe h1
        · exact hx h1
    · rw [hS] at h
      split at h
      · rename_i S' t hS' ht
        cases hS'
        split at h
        · cases h
        · rename_i hany
          intro s hs hreach
          have hst : s ∈ t := multiStepTaint_complete _ _ _ _ ht s hreach
          apply hany
          apply List.any_eq_true.mpr
          exact ⟨s, hst, by simpa using hs⟩
      · cases h

/-! ### the machine: lock-step execution of the original and of the perturbed run -/

variable {Val : Type}

/-- `step` with an override of the value stored by assignments: `ov clock w v` is stored instead of `v` -/
def stepO (exported mention : List V) (ov : Nat → V → Val → Val) (p : Prog Val) (clock : Nat) (s : State Val) : State Val :=
  if s.halted then s else
  match p[s.blk]? with
  | none => { s with halted := true }
  | some b =>
    match b.instrs[s.idx]? with
    | none =>
      match b.next with
      | none => { s with halted := true }
      | some n => { s with blk := n, idx := 0 }
    | some i =>
      match i with
      | .assign w rs _ f =>
        let v := ov clock w (f (vals s.env rs))
        { s with idx := s.idx + 1, env := fun y => if y = w then v else s.env y,
                 trace := if exported.contains w then s.trace ++ [.wr w v] else s.trace }
      | .decl _ rs => { s with idx := s.idx + 1, trace := s.trace ++ [.dim (vals s.env rs)] }
      | .branch rs _ _ g t e =>
        let c := g (vals s.env rs)
        { s with blk := if c then t else e, idx := 0, trace := s.trace ++ [.br c] }
      | .observe rs => { s with idx := s.idx + 1, trace := s.trace ++ [.obs (vals s.env rs)] }
      | .constraint us _ =>
        { s with idx := s.idx + 1,
                 trace := if us.any (fun u => mention.contains u) then s.trace ++ [.cs (vals s.env us)] else s.trace }
      | .other _ => { s with idx := s.idx + 1 }

def runO (exported mention : List V) (ov : Nat → V → Val → Val) (p : Prog Val) : Nat → Nat → State Val → State Val
  | 0, _, s => s
  | k + 1, clock, s => runO exported mention ov p k (clock + 1) (stepO exported mention ov p clock s)

theorem stepO_id (exported mention : List V) (p : Prog Val) (clock : Nat) (s : State Val) :
    stepO exported mention (fun _ _ v => v) p clock s = step exported mention p s := by
  unfold stepO step
  rfl

theorem runO_id (exported mention : List V) (p : Prog Val) : ∀ (k clock : Nat) (s : State Val),
    runO exported mention (fun _ _ v => v) p k clock s = run exported mention p k s := by
  intro k
  induction k with
  | zero => intro _ _; rfl
  | succ k ih => intro clock s; simp only [runO, run, stepO_id, ih]

/-- the replacement: whenever `x` is assigned, the oracle's value is stored instead -/
def replace (x : V) (ora : Nat → Val) : Nat → V → Val → Val := fun clock w v => if w = x then ora clock else v

structure Rel (es : List (V × V)) (x : V) (s s' : State Val) : Prop where
  blk : s.blk = s'.blk
  idx : s.idx = s'.idx
  halted : s.halted = s'.halted
  trace : s.trace = s'.trace
  env : ∀ v, ¬ Reach es x v → s.env v = s'.env v

theorem instr_fact_mem (p : Prog Val) (b : Block Val) (i : Instr Val) (bi ii : Nat)
    (hb : p[bi]? = some b) (hi : b.instrs[ii]? = some i) : i.fact ∈ p.facts := by
  unfold Prog.facts
  apply List.mem_flatMap.mpr
  exact ⟨b, List.mem_of_getElem? hb, List.mem_map.mpr ⟨i, List.mem_of_getElem? hi, rfl⟩⟩

theorem vals_congr (env env' : V → Val) (rs : List V) (h : ∀ r, r ∈ rs → env r = env' r) :
    vals env rs = vals env' rs := by
  unfold vals
  exact List.map_congr_left h

/-- what the sink set must cover for the machine (proved for the analysis' sink set by `sinks_cover`) -/
structure Covers (facts : List Fact) (exported mention S : List V) : Prop where
  exp : ∀ e, e ∈ exported → e ∈ S
  reads : ∀ f, f ∈ facts → ∀ y, y ∈ sinkReadsOf f → y ∈ S
  cons : ∀ us reads, Fact.constraint us reads ∈ facts → (∃ u, u ∈ us ∧ u ∈ mention) → ∀ v, v ∈ us → v ∈ S

theorem step_rel (exported mention S : List V) (p : Prog Val) (x : V) (ora : Nat → Val) (clock : Nat)
    (hc : Covers p.facts exported mention S) (hsafe : ∀ s, s ∈ S → ¬ Reach (edges p.facts) x s)
    (s s' : State Val) (h : Rel (edges p.facts) x s s') :
    Rel (edges p.facts) x (stepO exported mention (fun _ _ v => v) p clock s) (stepO exported mention (replace x ora) p clock s') := by
  obtain ⟨hb, hi, hh, ht, he⟩ := h
  unfold stepO
  rw [← hb, ← hi, ← hh]
  cases hhal : s.halted with
  | true =>
    simp only [if_true]
    exact ⟨hb, hi, hh, ht, he⟩
  | false =>
    simp only [Bool.false_eq_true, if_false]
    cases hpb : p[s.blk]? with
    | none => dsimp only; exact ⟨rfl, rfl, rfl, ht, he⟩
    | some b =>
      dsimp only
      cases hbi : b.instrs[s.idx]? with
      | none =>
        dsimp only
        cases b.next with
        | none => dsimp only; exact ⟨rfl, rfl, rfl, ht, he⟩
        | some n => dsimp only; exact ⟨rfl, rfl, rfl, ht, he⟩
      | some i =>
        have hfact := instr_fact_mem p b i s.blk s.idx hpb hbi
        have sinkEq : ∀ rs, (∀ y, y ∈ rs → y ∈ S) → vals s.env rs = vals s'.env rs := by
          intro rs hrs
          exact vals_congr _ _ rs (fun r hr => he r (hsafe r (hrs r hr)))
        cases i with
        | assign w rs phi f =>
          dsimp only
          have hedge : ∀ r, r ∈ rs → (r, w) ∈ edges p.facts := by
            intro r hr
            exact (edges_mem p.facts r w).mpr ⟨_, hfact, by simp [Instr.fact, edgesOf]; exact hr⟩
          have hval : ¬ Reach (edges p.facts) x w →
              f (vals s.env rs) = replace x ora clock w (f (vals s'.env rs)) := by
            intro hw
            have hwx : w ≠ x := fun e => hw (e ▸ Reach.refl)
            unfold replace
            rw [if_neg hwx]
            congr 1
            exact vals_congr _ _ rs (fun r hr => he r (fun hreach => hw (Reach.step hreach (hedge r hr))))
          refine ⟨rfl, rfl, rfl, ?_, ?_⟩
          · dsimp only
            cases hex : exported.contains w with
            | false => simpa using ht
            | true =>
              have hwS : w ∈ S := hc.exp w (by simpa using hex)
              simp only [if_true]
              rw [ht, hval (hsafe w hwS)]
          · intro v hv
            dsimp only
            by_cases hvw : v = w
            · subst hvw
              simp only [if_true]
              exact hval hv
            · simp only [if_neg hvw]
              exact he v hv
        | decl names rs =>
          dsimp only
          have := sinkEq rs (fun y hy => hc.reads _ hfact y (by simpa [Instr.fact, sinkReadsOf] using hy))
          exact ⟨rfl, rfl, rfl, by dsimp only; rw [ht, this], he⟩
        | branch rs c region g t e =>
          dsimp only
          have := sinkEq rs (fun y hy => hc.reads _ hfact y (by simpa [Instr.fact, sinkReadsOf] using hy))
          exact ⟨by dsimp only; rw [this], rfl, rfl, by dsimp only; rw [ht, this], he⟩
        | observe rs =>
          dsimp only
          have := sinkEq rs (fun y hy => hc.reads _ hfact y (by simpa [Instr.fact, sinkReadsOf] using hy))
          exact ⟨rfl, rfl, rfl, by dsimp only; rw [ht, this], he⟩
        | constraint us reads =>
          dsimp only
          refine ⟨rfl, rfl, rfl, ?_, he⟩
          dsimp only
          cases hany : us.any (fun u => mention.contains u) with
          | false => simpa using ht
          | true =>
            obtain ⟨u, hu, hue⟩ := List.any_eq_true.mp hany
            have := sinkEq us (hc.cons us reads hfact ⟨u, hu, by simpa using hue⟩)
            simp only [if_true]
            rw [ht, this]
        | other rs =>
          dsimp only
          exact ⟨rfl, rfl, rfl, ht, he⟩

theorem run_rel (exported mention S : List V) (p : Prog Val) (x : V) (ora : Nat → Val)
    (hc : Covers p.facts exported mention S) (hsafe : ∀ s, s ∈ S → ¬ Reach (edges p.facts) x s) :
    ∀ (k clock : Nat) (s s' : State Val), Rel (edges p.facts) x s s' →
      Rel (edges p.facts) x (runO exported mention (fun _ _ v => v) p k clock s) (runO exported mention (replace x ora) p k clock s') := by
  intro k
  induction k with
  | zero => intro _ s s' h; exact h
  | succ k ih =>
    intro clock s s' h
    exact ih (clock + 1) _ _ (step_rel exported mention S p x ora clock hc hsafe s s' h)


/-- everything the loop returns is reachable from `x`, if its start sets are -/
theorem closeLoop_sound (es : List (V × V)) (x : V) :
    ∀ (k : Nat) (update result r : List V), closeLoop es k update result = some r →
      (∀ u, u ∈ result ∨ u ∈ update → Reach es x u) → ∀ y, y ∈ r → Reach es x y := by
  intro k
  induction k with
  | zero => intro update result r h; simp [closeLoop] at h
  | succ k ih =>
    intro update result r h hstart y hy
    unfold closeLoop at h
    split at h
    · cases h; exact hstart y (Or.inl hy)
    · apply ih _ _ r h _ y hy
      intro u hu
      rcases hu with hu | hu
      · rcases List.mem_append.mp hu with hu | hu
        · exact hstart u (Or.inl hu)
        · exact hstart u (Or.inr hu)
      · obtain ⟨w, hw, hv⟩ := List.mem_flatMap.mp hu
        exact Reach.step (hstart w (Or.inr hw)) ((mem_succs es w u).mp hv)

/-- everything the work list returns is reachable from `x`, if its start sets are -/
theorem workLoop_sound (es : List (V × V)) (x : V) :
    ∀ (k : Nat) (work result r : List V), workLoop es k work result = some r →
      (∀ u, u ∈ result ∨ u ∈ work → Reach es x u) → ∀ y, y ∈ r → Reach es x y := by
  intro k
  induction k with
  | zero => intro work result r h; simp [workLoop] at h
  | succ k ih =>
    intro work result r h hstart y hy
    cases work with
    | nil =>
      simp only [workLoop] at h
      cases h; exact hstart y (Or.inl hy)
    | cons w work =>
      simp only [workLoop] at h
      split at h
      · apply ih _ _ r h _ y hy
        intro u hu
        rcases hu with hu | hu
        · exact hstart u (Or.inl hu)
        · exact hstart u (Or.inr (List.mem_cons_of_mem _ hu))
      · apply ih _ _ r h _ y hy
        intro u hu
        rcases hu with hu | hu
        · rcases List.mem_cons.mp hu with h2 | h2
          · subst h2; exact hstart _ (Or.inr List.mem_cons_self)
          · exact hstart u (Or.inl h2)
        · rcases List.mem_append.mp hu with h2 | h2
          · exact Reach.step (hstart w (Or.inr List.mem_cons_self)) ((mem_succs es w u).mp (List.mem_filter.mp h2).1)
          · exact hstart u (Or.inr (List.mem_cons_of_mem _ h2))

theorem multiStepTaint_sound (es : List (V × V)) (fuel : Nat) (x : V) (r : List V)
    (h : multiStepTaint es fuel x = some r) : ∀ y, y ∈ r → Reach es x y := by
  unfold multiStepTaint at h
  apply workLoop_sound es x fuel [x] [] r h
  intro u hu
  rcases hu with hu | hu
  · cases hu
  · have : u = x := List.mem_singleton.mp hu
    subst this; exact Reach.refl

/-- the pre-repair loop and the work list compute the same set (both: what is reachable from the start) -/
theorem closure_repair_same (es : List (V × V)) (k k' : Nat) (x : V) (r r' : List V)
    (h : closeLoop es k [x] [] = some r) (h' : workLoop es k' [x] [] = some r') : ∀ y, y ∈ r ↔ y ∈ r' := by
  have start : ∀ u, u ∈ ([] : List V) ∨ u ∈ [x] → Reach es x u := by
    intro u hu
    rcases hu with hu | hu
    · cases hu
    · have : u = x := List.mem_singleton.mp hu
      subst this; exact Reach.refl
  have c1 := closeLoop_closed es k [x] [] r h (by intro u hu; cases hu)
  have c2 := workLoop_closed es k' [x] [] r' h' (by intro u hu; cases hu)
  have s1 := closeLoop_sound es x k [x] [] r h start
  have s2 := workLoop_sound es x k' [x] [] r' h' start
  have reach1 : ∀ y, Reach es x y → y ∈ r := by
    intro y hy
    induction hy with
    | refl => exact c1.1 x (Or.inr (List.mem_singleton.mpr rfl))
    | step _ he ih => exact c1.2 _ ih _ ((mem_succs es _ _).mpr he)
  have reach2 : ∀ y, Reach es x y → y ∈ r' := by
    intro y hy
    induction hy with
    | refl => exact c2.1 x (Or.inr (List.mem_singleton.mpr rfl))
    | step _ he ih => exact c2.2 _ ih _ ((mem_succs es _ _).mpr he)
  intro y
  exact ⟨fun hy => reach2 y (s1 y hy), fun hy => reach1 y (s2 y hy)⟩

def unseen (U result : List V) : Nat := (U.filter (fun x => !result.contains x)).length

/-- the loop exits through its subset test as soon as the budget exceeds the number of variables not
    yet in the result: every other iteration adds a new variable of the (finite) universe `U` -/
theorem closeLoop_terminates (es : List (V × V)) (U : List V) (hU : ∀ a b, (a, b) ∈ es → b ∈ U) :
    ∀ (k : Nat) (update result : List V), (∀ u, u ∈ update → u ∈ U) → unseen U result < k →
      ∃ r, closeLoop es k update result = some r := by
  intro k
  induction k with
  | zero => intro _ _ _ h; omega
  | succ k ih =>
    intro update result hup hm
    unfold closeLoop
    split
    · exact ⟨result, rfl⟩
    · rename_i hs
      -- some element of update is new
      have : ∃ u, u ∈ update ∧ u ∉ result := by
        have hh : ¬ (∀ x, x ∈ update → x ∈ result) := fun h => hs ((subset_spec update result).mpr h)
        cases hex : update.find? (fun x => !result.contains x) with
        | none =>
          exfalso
          apply hh
          intro x hx
          have := List.find?_eq_none.mp hex x hx
          simpa using this
        | some u =>
          have h1 := List.mem_of_find?_eq_some hex
          have h2 := List.find?_some hex
          exact ⟨u, h1, by simpa using h2⟩
      obtain ⟨u, hu, hur⟩ := this
      apply ih
      · intro v hv
        obtain ⟨w, _, hw⟩ := List.mem_flatMap.mp hv
        exact hU w v ((mem_succs es w v).mp hw)
      · have hlt : unseen U (result ++ update) < unseen U result := by
          unfold unseen
          apply Includes.filter_length_lt _ _ _ u
          · simpa using hur
          · simp [hu]
          · exact hup u hu
          · intro x hx
            simp only [List.contains_eq_mem, List.mem_append, Bool.not_eq_true', decide_eq_false_iff_not, not_or] at hx
            simpa using hx.1
        omega

/-- the edges whose source has not been expanded yet -/
def pending (es : List (V × V)) (result : List V) : Nat := (es.filter (fun e => !result.contains e.1)).length

theorem succs_length (es : List (V × V)) (x : V) : (succs es x).length = (es.filter (fun e => e.1 == x)).length := by
  unfold succs; simp

theorem pending_expand (es : List (V × V)) (result : List V) (x : V) (hx : x ∉ result) :
    pending es (x :: result) + (succs es x).length = pending es result := by
  unfold pending
  rw [succs_length]
  induction es with
  | nil => rfl
  | cons e es ih =>
    simp only [List.filter_cons]
    by_cases h1 : e.1 = x
    · have a : (!(x :: result).contains e.1) = false := by simp [h1]
      have b : (!result.contains e.1) = true := by simp [h1, hx]
      have c : (e.1 == x) = true := by simp [h1]
      simp only [a, b, c, List.length_cons, if_true]
      simp only [Bool.false_eq_true, if_false]
      omega
    · have c : (e.1 == x) = false := by simp [h1]
      by_cases h2 : e.1 ∈ result
      · have a : (!(x :: result).contains e.1) = false := by simp [h2]
        have b : (!result.contains e.1) = false := by simp [h2]
        simp only [a, b, c, Bool.false_eq_true, if_false]
        exact ih
      · have a : (!(x :: result).contains e.1) = true := by simp [h1, h2]
        have b : (!result.contains e.1) = true := by simp [h2]
        simp only [a, b, c, if_true, Bool.false_eq_true, if_false, List.length_cons]
        omega

/-- the work list empties by itself: every iteration pops an entry, and entries are pushed only when a variable is expanded — at
    most once per edge; a budget above (entries on the list + edges with an unexpanded source) is never exhausted -/
theorem workLoop_terminates (es : List (V × V)) :
    ∀ (k : Nat) (work result : List V), work.length + pending es result < k → ∃ r, workLoop es k work result = some r := by
  intro k
  induction k with
  | zero => intro _ _ h; omega
  | succ k ih =>
    intro work result hm
    cases work with
    | nil => exact ⟨result, by simp [workLoop]⟩
    | cons x work =>
      simp only [workLoop]
      split
      · apply ih
        simp only [List.length_cons] at hm
        omega
      · rename_i hc
        have hx : x ∉ result := by simpa using hc
        apply ih
        have h1 := pending_expand es result x hx
        have h2 := List.length_filter_le (fun s => !(x :: result).contains s) (succs es x)
        simp only [List.length_append, List.length_cons] at hm ⊢
        omega

/-- `multi_step_taint` terminates within (number of edges + 2) iterations -/
theorem multiStepTaint_terminates (es : List (V × V)) (x : V) :
    ∃ r, multiStepTaint es (closureFuel es 1) x = some r := by
  unfold multiStepTaint closureFuel
  apply workLoop_terminates
  have := List.length_filter_le (fun e => !([] : List V).contains e.1) es
  unfold pending
  simp only [List.length_cons, List.length_nil]
  omega

/-- `multi_step_constraint` terminates within (2 · number of edges + 1) iterations -/
theorem multiStepCons_terminates (es : List (V × V)) (x : V) :
    ∃ r, multiStepCons es (closureFuel es es.length) x = some r := by
  unfold multiStepCons closureFuel
  apply workLoop_terminates
  have h1 := List.length_filter_le (fun e => !([] : List V).contains e.1) es
  have h2 : (succs es x).length ≤ es.length := by
    rw [succs_length]; exact List.length_filter_le _ _
  unfold pending
  omega

end Circomspect.Taint
