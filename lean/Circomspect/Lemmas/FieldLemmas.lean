/-
Helper lemmas for C16: the model of `modular_arithmetic.rs` agrees with the specification.
Core Lean only (no Mathlib).
-/
import Circomspect.Model.Field
import Circomspect.Spec.Field

namespace Circomspect.FieldLemmas
open Circomspect Field


theorem modulus_eq (a p : Int) (hp : 0 < p) : modulus a p = a % p := by
  unfold modulus rem
  have h0 : 0 ≤ a.tmod p + p := by
    have := Int.lt_tmod_of_pos a hp
    omega
  rw [Int.tmod_eq_emod_of_nonneg h0]
  rw [Int.tmod_eq_emod]
  split
  · simp
  · have : (p.natAbs : Int) = p := by omega
    rw [this]; simp

theorem modulus_nonneg (a p : Int) (hp : 0 < p) : 0 ≤ modulus a p ∧ modulus a p < p := by
  rw [modulus_eq a p hp]; exact ⟨Int.emod_nonneg _ (by omega), Int.emod_lt_of_pos _ hp⟩

theorem modulus_nat (a p : Nat) (hp : 0 < p) : modulus a p = ((a % p : Nat) : Int) := by
  rw [modulus_eq _ _ (by omega)]; norm_cast



theorem emod_eq_of_eq_add_mul {x y p k : Int} (h : y = x + p * k) : y % p = x % p := by
  subst h; simp

theorem add_ok (a b p : Nat) (hp : 0 < p) : Field.add a b p = (FieldSpec.add p a b : Nat) := by
  unfold Field.add FieldSpec.add
  rw [modulus_eq _ _ (by omega)]
  norm_cast

theorem mul_ok (a b p : Nat) (hp : 0 < p) : Field.mul a b p = (FieldSpec.mul p a b : Nat) := by
  unfold Field.mul FieldSpec.mul
  rw [modulus_eq _ _ (by omega)]
  norm_cast

theorem sub_ok (a b p : Nat) (hp : 0 < p) : Field.sub a b p = (FieldSpec.sub p a b : Nat) := by
  unfold Field.sub FieldSpec.sub
  rw [modulus_eq _ _ (by omega)]
  have hb : b % p < p := Nat.mod_lt _ hp
  rw [Int.natCast_emod, Int.natCast_add, Int.natCast_sub (by omega)]
  symm
  apply emod_eq_of_eq_add_mul (k := 1 + (b:Int) / p - (a:Int) / p)
  rw [Int.natCast_emod, Int.natCast_emod, Int.emod_def, Int.emod_def]
  rw [Int.mul_sub, Int.mul_add]
  omega

theorem neg_ok (a p : Nat) (hp : 0 < p) : Field.prefixSub a p = (FieldSpec.neg p a : Nat) := by
  unfold Field.prefixSub Field.mul FieldSpec.neg
  rw [modulus_eq _ _ (by omega)]
  have hb : a % p < p := Nat.mod_lt _ hp
  rw [Int.natCast_emod, Int.natCast_sub (by omega)]
  symm
  apply emod_eq_of_eq_add_mul (k := 1 + (a:Int) / p)
  rw [Int.natCast_emod, Int.emod_def]
  rw [Int.mul_add]
  omega




theorem idiv_ok (a b p : Nat) (hp : 0 < p) :
    Field.idiv a b p = match FieldSpec.idiv p a b with
      | .val n => .ok n | _ => .err .div0 := by
  unfold Field.idiv FieldSpec.idiv
  simp only [modulus_nat _ _ hp]
  by_cases h : b % p = 0
  · simp [h]
  · have : ¬ ((b % p : Nat) : Int) = 0 := by omega
    simp only [this, h, if_false]
    rw [Int.tdiv_eq_ediv_of_nonneg (by omega)]
    norm_cast

theorem mod_ok (a b p : Nat) (hp : 0 < p) :
    Field.modOp a b p = match FieldSpec.mod p a b with
      | .val n => .ok n | _ => .err .div0 := by
  unfold Field.modOp FieldSpec.mod
  simp only [modulus_nat _ _ hp]
  by_cases h : b % p = 0
  · simp [h]
  · have : ¬ ((b % p : Nat) : Int) = 0 := by omega
    simp only [this, h, if_false]
    congr 1
    rw [modulus_nat _ _ (by omega)]

theorem comparable_eq (a p : Nat) (hp : 0 < p) :
    comparable a p = FieldSpec.sval p (a % p) := by
  unfold comparable val FieldSpec.sval
  simp only [modulus_nat _ _ hp]
  have h1 : a % p < p := Nat.mod_lt _ hp
  have h2 : (p : Int).tdiv 2 = ((p / 2 : Nat) : Int) := by
    rw [Int.tdiv_eq_ediv_of_nonneg (by omega)]; norm_cast
  rw [h2]
  by_cases h : p / 2 + 1 ≤ a % p
  · have : ((p/2 : Nat) : Int) + 1 ≤ ((a % p : Nat) : Int) ∧ ((a % p : Nat) : Int) < p := by omega
    rw [if_pos this, if_pos h]
  · have : ¬ (((p/2 : Nat) : Int) + 1 ≤ ((a % p : Nat) : Int) ∧ ((a % p : Nat) : Int) < p) := by omega
    rw [if_neg this, if_neg h]

theorem sval_zero_iff (p z : Nat) (hz : z < p) : FieldSpec.sval p z = 0 ↔ z = 0 := by
  unfold FieldSpec.sval; split <;> omega

theorem normalize_eq (a p : Nat) (hp : 0 < p) :
    normalize a p = (FieldSpec.b2n (FieldSpec.truthy p a) : Nat) := by
  unfold normalize FieldSpec.truthy FieldSpec.b2n
  simp only [comparable_eq _ _ hp, sval_zero_iff _ _ (Nat.mod_lt _ hp)]
  by_cases h : a % p = 0 <;> simp [h]

theorem b2n_le_one (b : Bool) : FieldSpec.b2n b ≤ 1 := by cases b <;> simp [FieldSpec.b2n]

theorem not_ok (a p : Nat) (hp : 0 < p) : Field.not a p = (FieldSpec.lnot p a : Nat) := by
  unfold Field.not FieldSpec.lnot rem
  rw [normalize_eq _ _ hp]
  cases FieldSpec.truthy p a <;> simp [FieldSpec.b2n]

theorem band_ok (a b p : Nat) (hp : 0 < p) : Field.boolAnd a b p = (FieldSpec.land p a b : Nat) := by
  unfold Field.boolAnd FieldSpec.land
  rw [normalize_eq _ _ hp, normalize_eq _ _ hp]
  cases FieldSpec.truthy p a <;> cases FieldSpec.truthy p b <;> simp [FieldSpec.b2n]

theorem bor_ok (a b p : Nat) (hp : 0 < p) : Field.boolOr a b p = (FieldSpec.lor p a b : Nat) := by
  unfold Field.boolOr FieldSpec.lor rem
  rw [band_ok _ _ _ hp]
  unfold FieldSpec.land
  rw [normalize_eq _ _ hp, normalize_eq _ _ hp]
  cases FieldSpec.truthy p a <;> cases FieldSpec.truthy p b <;> simp [FieldSpec.b2n]

theorem eq_ok (a b p : Nat) (hp : 0 < p) : Field.eq a b p = (FieldSpec.eq p a b : Nat) := by
  unfold Field.eq FieldSpec.eq FieldSpec.b2n
  simp only [modulus_nat _ _ hp]
  by_cases h : a % p = b % p
  · simp [h]
  · have : ¬ ((a % p : Nat) : Int) = ((b % p : Nat) : Int) := by omega
    rw [if_neg this]; simp [h]

theorem lt_ok (a b p : Nat) (hp : 0 < p) : Field.lesser a b p = (FieldSpec.lt p a b : Nat) := by
  unfold Field.lesser FieldSpec.lt FieldSpec.b2n
  rw [comparable_eq _ _ hp, comparable_eq _ _ hp]
  by_cases h : FieldSpec.sval p (a % p) < FieldSpec.sval p (b % p) <;> simp [h]

theorem truthy_b2n (p : Nat) (hp : 2 ≤ p) (c : Bool) : FieldSpec.truthy p (FieldSpec.b2n c) = c := by
  cases c <;> simp [FieldSpec.truthy, FieldSpec.b2n]
  omega

theorem sval_inj (p x y : Nat) (hx : x < p) (hy : y < p) :
    FieldSpec.sval p x = FieldSpec.sval p y ↔ x = y := by
  unfold FieldSpec.sval; split <;> split <;> omega

theorem bool_le_aux (x y : Int) (e : Bool) (he : e = true ↔ x = y) :
    (decide (x < y) || e) = decide (x ≤ y) := by
  cases e
  · have : x ≠ y := fun h => by simpa using he.mpr h
    simp; omega
  · have : x = y := he.mp rfl
    simp; omega

theorem bool_ge_aux (x y : Int) (e : Bool) (he : e = true ↔ x = y) :
    (decide (x > y) || e) = decide (x ≥ y) := by
  cases e
  · have : x ≠ y := fun h => by simpa using he.mpr h
    simp; omega
  · have : x = y := he.mp rfl
    simp; omega

theorem beq_iff_sval (p a b : Nat) (hp : 0 < p) :
    (a % p == b % p) = true ↔ FieldSpec.sval p (a % p) = FieldSpec.sval p (b % p) := by
  rw [sval_inj p _ _ (Nat.mod_lt _ hp) (Nat.mod_lt _ hp)]; simp

theorem ne_ok (a b p : Nat) (hp : 2 ≤ p) : Field.notEq a b p = (FieldSpec.ne p a b : Nat) := by
  unfold Field.notEq
  rw [eq_ok _ _ _ (by omega), not_ok _ _ (by omega)]
  unfold FieldSpec.lnot FieldSpec.eq FieldSpec.ne
  rw [truthy_b2n _ hp]
  by_cases h : a % p = b % p
  · simp [h]
  · have h1 : (a % p == b % p) = false := by simpa using h
    have h2 : (a % p != b % p) = true := by simpa using h
    rw [h1, h2]; rfl

theorem le_ok (a b p : Nat) (hp : 2 ≤ p) : Field.lesserEq a b p = (FieldSpec.le p a b : Nat) := by
  unfold Field.lesserEq
  rw [eq_ok _ _ _ (by omega), lt_ok _ _ _ (by omega), bor_ok _ _ _ (by omega)]
  unfold FieldSpec.lor FieldSpec.eq FieldSpec.lt FieldSpec.le
  rw [truthy_b2n _ hp, truthy_b2n _ hp, bool_le_aux _ _ _ (beq_iff_sval p a b (by omega))]

theorem gt_ok (a b p : Nat) (hp : 2 ≤ p) : Field.greater a b p = (FieldSpec.gt p a b : Nat) := by
  unfold Field.greater
  rw [le_ok _ _ _ hp, not_ok _ _ (by omega)]
  unfold FieldSpec.lnot FieldSpec.le FieldSpec.gt
  rw [truthy_b2n _ hp]
  congr 2
  by_cases h1 : FieldSpec.sval p (a % p) ≤ FieldSpec.sval p (b % p)
  · simp [h1]
  · simp [h1]; omega

theorem ge_ok (a b p : Nat) (hp : 2 ≤ p) : Field.greaterEq a b p = (FieldSpec.ge p a b : Nat) := by
  unfold Field.greaterEq
  rw [gt_ok _ _ _ hp, eq_ok _ _ _ (by omega), bor_ok _ _ _ (by omega)]
  unfold FieldSpec.lor FieldSpec.eq FieldSpec.gt FieldSpec.ge
  rw [truthy_b2n _ hp, truthy_b2n _ hp, bool_ge_aux _ _ _ (beq_iff_sval p a b (by omega))]




theorem ofBits_toBitsAux (fuel n : Nat) (h : n ≤ fuel) : ofBits (toBitsAux fuel n) = n := by
  induction fuel generalizing n with
  | zero => have : n = 0 := by omega
            subst this; simp [toBitsAux, ofBits]
  | succ f ih =>
    unfold toBitsAux
    by_cases h0 : n = 0
    · simp [h0, ofBits]
    · simp only [h0, if_false, ofBits]
      rw [ih (n / 2) (by omega)]
      have := Nat.mod_two_eq_zero_or_one n
      rcases this with h | h <;> simp [h] <;> omega

theorem ofBits_toBits (n : Nat) : ofBits (toBits n) = n := by
  unfold toBits
  by_cases h : n = 0
  · simp [h, ofBits]
  · simp only [h, if_false]; exact ofBits_toBitsAux n n (Nat.le_refl _)

theorem length_toBitsAux (fuel n : Nat) (h : n ≤ fuel) (hn : 0 < n) :
    (toBitsAux fuel n).length = FieldSpec.bits n := by
  induction fuel generalizing n with
  | zero => omega
  | succ f ih =>
    unfold toBitsAux
    have h0 : n ≠ 0 := by omega
    simp only [h0, if_false, List.length_cons]
    rw [FieldSpec.bits]
    by_cases h2 : n < 2
    · have : n = 1 := by omega
      subst this
      simp
      cases f <;> simp [toBitsAux]
    · simp only [h2, if_false]
      rw [ih (n/2) (by omega) (by omega)]

theorem bitLen_eq (p : Nat) : bitLen (p : Int) = FieldSpec.bits p := by
  unfold bitLen toBits
  simp only [Int.natAbs_natCast]
  by_cases h : p = 0
  · subst h; simp [FieldSpec.bits]
  · simp only [h, if_false]; exact length_toBitsAux p p (Nat.le_refl _) (by omega)

theorem bits_spec (n : Nat) (hn : 0 < n) : 2 ^ (FieldSpec.bits n - 1) ≤ n ∧ n < 2 ^ FieldSpec.bits n := by
  induction n using Nat.strongRecOn with
  | _ n ih =>
    rw [FieldSpec.bits]
    by_cases h2 : n < 2
    · simp [h2]; omega
    · simp only [h2, if_false]
      have := ih (n/2) (by omega) (by omega)
      have hb : 1 ≤ FieldSpec.bits (n/2) := by
        rw [FieldSpec.bits]; split <;> omega
      have e : FieldSpec.bits (n/2) + 1 - 1 = (FieldSpec.bits (n/2) - 1) + 1 := by omega
      rw [e, Nat.pow_succ, Nat.pow_succ]
      omega

theorem ofBits_take (l : List Bool) (k : Nat) : ofBits (l.take k) = ofBits l % 2 ^ k := by
  induction l generalizing k with
  | nil => simp [ofBits]
  | cons b bs ih =>
    cases k with
    | zero => simp [ofBits, Nat.mod_one]
    | succ k =>
      simp only [List.take_succ_cons, ofBits, ih]
      rw [Nat.pow_succ, Nat.mul_comm (2 ^ k) 2, Nat.mod_mul]
      cases b
      · simp
      · have h1 : (1 + 2 * ofBits bs) / 2 = ofBits bs := by omega
        have h2 : (1 + 2 * ofBits bs) % 2 = 1 := by omega
        simp only [if_true, h1, h2]

theorem ofBits_append_false (l : List Bool) (m : Nat) :
    ofBits (l ++ List.replicate m false) = ofBits l := by
  induction l with
  | nil => induction m with
    | zero => simp [ofBits]
    | succ m ih => simp [List.replicate_succ, ofBits] at ih ⊢; omega
  | cons b bs ih => simp [ofBits, ih]

theorem ofBits_lt (l : List Bool) : ofBits l < 2 ^ l.length := by
  induction l with
  | nil => simp [ofBits]
  | cons b bs ih => simp only [ofBits, List.length_cons, Nat.pow_succ]; cases b <;> simp <;> omega

theorem ofBits_map_not (l : List Bool) : ofBits (l.map (fun b => !b)) = 2 ^ l.length - 1 - ofBits l := by
  induction l with
  | nil => simp [ofBits]
  | cons b bs ih =>
    have := ofBits_lt bs
    simp only [List.map_cons, ofBits, ih, List.length_cons, Nat.pow_succ]
    cases b <;> simp <;> omega

theorem compl_ok (a p : Nat) (hp : 0 < p) :
    complement256 a p = (FieldSpec.compl p a : Nat) := by
  unfold complement256 FieldSpec.compl
  simp only [Int.natAbs_natCast]
  have hl : (List.take 256 (toBits a) ++ List.replicate (256 - (List.take 256 (toBits a)).length) false).length = 256 := by
    simp [List.length_append, List.length_replicate]; omega
  rw [ofBits_map_not, hl, ofBits_append_false, ofBits_take, ofBits_toBits]
  exact modulus_nat _ _ hp



def Agrees : Field.Out → FieldSpec.Res → Prop
  | .ok v, .val n => v = (n : Int)
  | .err _, .undef => True
  | .err _, .over => True
  | _, _ => False

theorem tdiv2 (p : Nat) : (p : Int).tdiv 2 = ((p / 2 : Nat) : Int) := by
  rw [Int.tdiv_eq_ediv_of_nonneg (by omega)]; norm_cast

theorem shlCore_ok (a k p : Nat) (hp : 0 < p) (hb : FieldSpec.bits p ≤ 2 ^ 64) :
    Agrees (shiftLCore a k p) (FieldSpec.shlCore p a k) := by
  unfold shiftLCore FieldSpec.shlCore usizeMax
  rw [bitLen_eq]
  simp only [Int.toNat_natCast]
  by_cases h1 : (k : Int) < 0 ∨ (2 : Int) ^ 64 ≤ (k : Int)
  · have : FieldSpec.bits p ≤ k := by omega
    rw [if_pos h1, if_pos this]; simp [Agrees]
  · rw [if_neg h1]
    by_cases h2 : FieldSpec.bits p ≤ k
    · simp [h2, Agrees]
    · have h3 : ¬ ((a : Int) < 0) := by omega
      simp only [h2, h3, if_false, Agrees]
      have e1 : ((a : Int) * 2 ^ k).toNat = a * 2 ^ k := by
        have : ((a : Int) * 2 ^ k) = ((a * 2 ^ k : Nat) : Int) := by norm_cast
        rw [this, Int.toNat_natCast]
      have e2 : (mask (p : Int)).toNat = 2 ^ FieldSpec.bits p - 1 := by
        unfold mask; rw [bitLen_eq]
        have : ((2 : Int) ^ FieldSpec.bits p - 1) = ((2 ^ FieldSpec.bits p - 1 : Nat) : Int) := by
          have := Nat.one_le_two_pow (n := FieldSpec.bits p)
          rw [Int.natCast_sub this]; norm_cast
        rw [this, Int.toNat_natCast]
      rw [e1, e2, Nat.and_two_pow_sub_one_eq_mod]
      exact modulus_nat _ _ hp

theorem shrCore_ok (a k p : Nat) (hb : FieldSpec.bits p ≤ 2 ^ 64) :
    Agrees (shiftRCore a k p) (FieldSpec.shrCore p a k) := by
  unfold shiftRCore FieldSpec.shrCore usizeMax
  rw [bitLen_eq]
  simp only [Int.toNat_natCast]
  by_cases h1 : (k : Int) < 0 ∨ (2 : Int) ^ 64 ≤ (k : Int)
  · have : FieldSpec.bits p ≤ k := by omega
    rw [if_pos h1, if_pos this]; simp [Agrees]
  · rw [if_neg h1]
    by_cases h2 : FieldSpec.bits p ≤ k
    · simp [h2, Agrees]
    · simp only [h2, if_false, Agrees]
      rw [Int.tdiv_eq_ediv_of_nonneg (by omega)]; norm_cast

theorem shl_ok (a k p : Nat) (hp : 0 < p) (hk : k ≤ p) (hb : FieldSpec.bits p ≤ 2 ^ 64) :
    Agrees (shiftL a k p) (FieldSpec.shl p a k) := by
  unfold shiftL FieldSpec.shl
  rw [tdiv2]
  by_cases h : k ≤ p / 2
  · have : (k : Int) ≤ ((p / 2 : Nat) : Int) := by omega
    rw [if_pos this, if_pos h]; exact shlCore_ok a k p hp hb
  · have h1 : ¬ (k : Int) ≤ ((p / 2 : Nat) : Int) := by omega
    have h2 : (p : Int) - (k : Int) ≤ ((p / 2 : Nat) : Int) := by omega
    rw [if_neg h1, if_pos h2, if_neg h]
    have : (p : Int) - (k : Int) = ((p - k : Nat) : Int) := by omega
    rw [this]; exact shrCore_ok a (p - k) p hb

theorem shr_ok (a k p : Nat) (hp : 0 < p) (hk : k ≤ p) (hb : FieldSpec.bits p ≤ 2 ^ 64) :
    Agrees (shiftR a k p) (FieldSpec.shr p a k) := by
  unfold shiftR FieldSpec.shr
  rw [tdiv2]
  by_cases h : k ≤ p / 2
  · have : (k : Int) ≤ ((p / 2 : Nat) : Int) := by omega
    rw [if_pos this, if_pos h]; exact shrCore_ok a k p hb
  · have h1 : ¬ (k : Int) ≤ ((p / 2 : Nat) : Int) := by omega
    have h2 : (p : Int) - (k : Int) ≤ ((p / 2 : Nat) : Int) := by omega
    rw [if_neg h1, if_pos h2, if_neg h]
    have : (p : Int) - (k : Int) = ((p - k : Nat) : Int) := by omega
    rw [this]; exact shlCore_ok a (p - k) p hp hb

/-- the mutual recursion of `shift_l`/`shift_r` bounces at most once, for every `Int` count -/
theorem shift_no_bounce (a k p : Int) (hp : 0 ≤ p) :
    (∀ s, shiftL a k p ≠ .panic s) ∧ (∀ s, shiftR a k p ≠ .panic s) := by
  have key : ¬ (k ≤ p.tdiv 2) → p - k ≤ p.tdiv 2 := by
    intro h
    have := Int.tdiv_eq_ediv_of_nonneg (b := 2) hp
    omega
  have hL : ∀ a k p s, shiftLCore a k p ≠ .panic s := by
    intro a k p s; unfold shiftLCore; split <;> (try split) <;> (try split) <;> simp
  have hR : ∀ a k p s, shiftRCore a k p ≠ .panic s := by
    intro a k p s; unfold shiftRCore; split <;> (try split) <;> simp
  constructor
  · intro s; unfold shiftL
    by_cases h : k ≤ p.tdiv 2
    · rw [if_pos h]; exact hL _ _ _ _
    · rw [if_neg h, if_pos (key h)]; exact hR _ _ _ _
  · intro s; unfold shiftR
    by_cases h : k ≤ p.tdiv 2
    · rw [if_pos h]; exact hR _ _ _ _
    · rw [if_neg h, if_pos (key h)]; exact hL _ _ _ _

/-- a power of two is only ever materialised for counts below the bit size of the field -/
theorem shift_bounded (a k p v : Int) :
    (shiftLCore a k p = .ok v → k.toNat < bitLen p) ∧ (shiftRCore a k p = .ok v → k.toNat < bitLen p) := by
  constructor
  · unfold shiftLCore; intro h
    split at h <;> (try split at h) <;> (try split at h) <;> simp at h <;> omega
  · unfold shiftRCore; intro h
    split at h <;> (try split at h) <;> simp at h <;> omega

theorem bitop_ok (f : Nat → Nat → Nat) (a b p : Nat) (hp : 0 < p) :
    bitop f a b p = .ok ((f a b % p : Nat) : Int) := by
  unfold bitop
  have : ¬ ((a : Int) < 0 ∨ (b : Int) < 0) := by omega
  rw [if_neg this]; simp only [Int.toNat_natCast]
  congr 1; exact modulus_nat _ _ hp



theorem pow_emod' (x m : Int) (n : Nat) : (x % m) ^ n % m = x ^ n % m := by
  induction n with
  | zero => simp
  | succ n ih =>
    rw [Int.pow_succ, Int.pow_succ, Int.mul_emod, ih, Int.emod_emod_of_dvd _ (Int.dvd_refl m), ← Int.mul_emod]

theorem modpowAux_eq (m : Int) (hm : 0 < m) (fuel : Nat) :
    ∀ (e : Nat) (acc b : Int), e < fuel → 0 ≤ acc → acc < m →
      modpowAux fuel acc e b m = (acc * b ^ e) % m := by
  induction fuel with
  | zero => intro e acc b h; omega
  | succ f ih =>
    intro e acc b he h0 h1
    unfold modpowAux
    by_cases hz : e = 0
    · subst hz; simp; exact (Int.emod_eq_of_lt h0 h1).symm
    · rw [if_neg hz]
      have hsplit : b ^ e = (b * b) ^ (e / 2) * b ^ (e % 2) := by
        have : b * b = b ^ 2 := by rw [Int.pow_succ, Int.pow_succ, Int.pow_zero, Int.one_mul]
        rw [this, ← Int.pow_mul, ← Int.pow_add, Nat.div_add_mod]
      by_cases hodd : e % 2 = 1
      · rw [if_pos hodd]
        rw [ih (e / 2) _ _ (by omega) (Int.emod_nonneg _ (by omega)) (Int.emod_lt_of_pos _ hm)]
        rw [hsplit, hodd, Int.pow_one]
        rw [Int.mul_emod, pow_emod', Int.emod_emod_of_dvd _ (Int.dvd_refl m), ← Int.mul_emod]
        rw [Int.mul_assoc, Int.mul_comm b]
      · rw [if_neg hodd]
        rw [ih (e / 2) _ _ (by omega) h0 h1]
        have : e % 2 = 0 := by omega
        rw [hsplit, this, Int.pow_zero, Int.mul_one]
        rw [Int.mul_emod, pow_emod', ← Int.mul_emod]

theorem pow_ok (a b p : Nat) (hp : 1 < p) :
    Field.pow a b p = .ok ((FieldSpec.pow p a b : Nat) : Int) := by
  unfold Field.pow FieldSpec.pow
  have : ¬ ((b : Int) < 0) := by omega
  rw [if_neg this]
  simp only [Int.toNat_natCast]
  rw [modpowAux_eq _ (by omega) _ _ _ _ (by omega) (Int.emod_nonneg _ (by omega)) (Int.emod_lt_of_pos _ (by omega))]
  congr 1
  rw [Int.mul_emod, pow_emod', Int.emod_emod_of_dvd _ (Int.dvd_refl _), ← Int.mul_emod, Int.one_mul]
  norm_cast



/-- Bezout invariant of `egcd`: each remainder is `s * a` modulo `m`. -/
theorem egcd_bezout (a m : Int) (fuel : Nat) :
    ∀ (r0 r1 : Nat) (s0 s1 : Int),
      (∃ t, (r0 : Int) = s0 * a + t * m) → (∃ t, (r1 : Int) = s1 * a + t * m) →
      ∃ t, ((egcd fuel r0 r1 s0 s1).1 : Int) = (egcd fuel r0 r1 s0 s1).2 * a + t * m := by
  induction fuel with
  | zero => intro r0 r1 s0 s1 h0 _; simpa [egcd] using h0
  | succ f ih =>
    intro r0 r1 s0 s1 h0 h1
    unfold egcd
    by_cases hz : r1 = 0
    · simpa [hz] using h0
    · rw [if_neg hz]
      apply ih _ _ _ _ h1
      obtain ⟨t0, e0⟩ := h0
      obtain ⟨t1, e1⟩ := h1
      refine ⟨t0 - (Int.ofNat (r0 / r1)) * t1, ?_⟩
      have hm : ((r0 % r1 : Nat) : Int) = (r0 : Int) - ((r0 / r1 : Nat) : Int) * (r1 : Int) := by
        rw [Int.natCast_emod, Int.emod_def, Int.natCast_ediv, Int.mul_comm]
      rw [hm, e0, e1]
      simp only [Int.ofNat_eq_natCast, Int.sub_mul, Int.mul_add, Int.mul_assoc]
      omega

theorem egcd_gcd (fuel : Nat) : ∀ (r0 r1 : Nat) (s0 s1 : Int), r1 < fuel →
    (egcd fuel r0 r1 s0 s1).1 = Nat.gcd r0 r1 := by
  induction fuel with
  | zero => intro r0 r1 s0 s1 h; omega
  | succ f ih =>
    intro r0 r1 s0 s1 h
    unfold egcd
    by_cases hz : r1 = 0
    · simp [hz]
    · rw [if_neg hz, ih _ _ _ _ (by have := Nat.mod_lt r0 (Nat.pos_of_ne_zero hz); omega)]
      rw [Nat.gcd_comm r0 r1, Nat.gcd_rec r1 r0]
      cases r1 with
      | zero => omega
      | succ n => rw [Nat.gcd_comm]

theorem modInverse_sound (b p : Nat) (hp : 1 < p) (inv : Int) (h : modInverse b p = some inv) :
    0 ≤ inv ∧ inv < p ∧ (inv * b) % p = 1 := by
  unfold modInverse at h
  simp only at h
  split at h
  · rename_i hg
    injection h with h
    have hnn : (((b : Int) % p).toNat : Int) = (b : Int) % p :=
      Int.toNat_of_nonneg (Int.emod_nonneg _ (by omega))
    have hbz := egcd_bezout ((b : Int) % p) p ((p : Int).toNat + 2) (p : Int).toNat ((b : Int) % p).toNat 0 1
      ⟨1, by simp⟩ ⟨0, by rw [hnn]; simp⟩
    obtain ⟨t, ht⟩ := hbz
    rw [hg] at ht
    subst h
    refine ⟨Int.emod_nonneg _ (by omega), Int.emod_lt_of_pos _ (by omega), ?_⟩
    rw [Int.mul_emod, Int.emod_emod_of_dvd _ (Int.dvd_refl _), ← Int.mul_emod]
    generalize (egcd ((p : Int).toNat + 2) (p : Int).toNat ((b : Int) % p).toNat 0 1).2 = x at ht ⊢
    have e : x * ((b : Int) % p) = 1 + p * (-t) := by
      rw [Int.mul_neg, Int.mul_comm (p : Int) t]
      have : ((1 : Nat) : Int) = 1 := rfl
      omega
    have e2 : x * (b : Int) % p = x * ((b : Int) % p) % p := by
      rw [Int.mul_emod, Int.mul_emod x ((b : Int) % p), Int.emod_emod_of_dvd _ (Int.dvd_refl _)]
    rw [e2, e, Int.add_mul_emod_self_left]
    exact Int.emod_eq_of_lt (by omega) (by omega)
  · simp at h

end Circomspect.FieldLemmas
