/-
Lemmas for C12: invariants of the model of `visit_statement` / `complete_basic_block`
(`Model/CfgLift.lean`), proved by mutual structural induction over the statement skeleton.
-/
import Circomspect.Spec.Cfg
import Circomspect.Lemmas.DominatorLemmas

namespace Circomspect.CfgLemmas
open Circomspect CfgLift


theorem length_modify (bs : List Block) (i : Nat) (f : Block → Block) : (modify bs i f).length = bs.length := by
  unfold CfgLift.modify; simp

theorem length_appendStmt (bs : List Block) (s : IStmt) : (appendStmt bs s).length = bs.length := by
  unfold appendStmt; exact length_modify _ _ _

theorem length_completeBlock (bs : List Block) (ps : List Nat) (d : Nat) : (completeBlock bs ps d).length = bs.length + 1 := by
  unfold completeBlock; simp

theorem length_addEdges (bs : List Block) (fs : List Nat) (h : Nat) : (addEdges bs fs h).length = bs.length := by
  unfold addEdges; simp

def Holds (R : List Block → List Nat → Prop) : Out → Prop
  | .ok bs ps => R bs ps
  | .panic _ => True

theorem holds_andThen {R1 R2 : List Block → List Nat → Prop} {o : Out} {f : List Block → List Nat → Out}
    (h1 : Holds R1 o) (h2 : ∀ bs ps, R1 bs ps → Holds R2 (f bs ps)) : Holds R2 (o.andThen f) := by
  cases o with
  | ok bs ps => exact h2 bs ps h1
  | panic s => trivial

theorem holds_mono {R1 R2 : List Block → List Nat → Prop} {o : Out} (h : Holds R1 o)
    (himp : ∀ bs ps, R1 bs ps → R2 bs ps) : Holds R2 o := by
  cases o with
  | ok bs ps => exact himp bs ps h
  | panic s => trivial

/-- An invariant of block vectors that the three primitive operations preserve (under the
    preconditions with which `visit_statement` calls them) is preserved by lifting. -/
structure Preserved (Inv : List Block → Prop) : Prop where
  pos : ∀ bs, Inv bs → 0 < bs.length
  simple : ∀ bs loc, Inv bs → Inv (appendStmt bs (.simple loc))
  branch : ∀ bs loc t ps d, Inv bs → ps ≠ [] → (∀ p ∈ ps, p < bs.length) →
    Inv (completeBlock (appendStmt bs (.branch loc t none)) ps d)
  complete : ∀ bs ps d, Inv bs → ps ≠ [] → (∀ p ∈ ps, p < bs.length) → Inv (completeBlock bs ps d)
  edges : ∀ bs fs h, Inv bs → fs ≠ [] → (∀ p ∈ fs, p < bs.length) → h < bs.length → 1 ≤ h → Inv (addEdges bs fs h)

def Rel (Inv : List Block → Prop) (bs : List Block) (bs' : List Block) (ps : List Nat) : Prop :=
  Inv bs' ∧ bs.length ≤ bs'.length ∧ ∀ p ∈ ps, p < bs'.length

theorem mem_insertSorted (x y : Nat) (l : List Nat) : x ∈ insertSorted y l ↔ x = y ∨ x ∈ l := by
  induction l with
  | nil => simp [insertSorted]
  | cons z zs ih =>
    unfold insertSorted
    split
    · simp
    · split
      · rename_i h; subst h; simp
      · simp [ih]; constructor
        · rintro (h | h | h) <;> simp [h]
        · rintro (h | h | h) <;> simp [h]

theorem mem_union (x : Nat) (a b : List Nat) : x ∈ union a b ↔ x ∈ a ∨ x ∈ b := by
  unfold union
  induction a generalizing b with
  | nil => simp
  | cons y ys ih =>
    simp only [List.foldl_cons]; rw [ih, mem_insertSorted]
    simp only [List.mem_cons]
    constructor
    · rintro (h | h | h)
      · exact Or.inl (Or.inr h)
      · exact Or.inl (Or.inl h)
      · exact Or.inr h
    · rintro ((h | h) | h)
      · exact Or.inr (Or.inl h)
      · exact Or.inl h
      · exact Or.inr (Or.inr h)

theorem orLast_ok (ps : List Nat) (bs : List Block) (hpos : 0 < bs.length) (h : ∀ p ∈ ps, p < bs.length) :
    orLast ps bs ≠ [] ∧ ∀ p ∈ orLast ps bs, p < bs.length := by
  unfold orLast
  split
  · exact ⟨by simp, by intro p hp; simp at hp; omega⟩
  · rename_i hne
    exact ⟨by intro e; simp [e] at hne, h⟩

theorem whilePre_inv {Inv : List Block → Prop} (hp : Preserved Inv) (loc : Loc) (d : Nat) (bs : List Block) (h : Inv bs) :
    Inv (whilePre loc d bs) ∧ (whilePre loc d bs).length = bs.length + 2 := by
  have hpos := hp.pos bs h
  unfold whilePre
  simp only
  have h1 := hp.complete bs [bs.length - 1] d h (by simp) (by intro p hp'; simp at hp'; omega)
  have h3 := hp.branch _ loc (bs.length - 1 + 2) [bs.length - 1 + 1] (d + 1) h1 (by simp)
    (by intro p hp'; simp at hp'; simp [length_completeBlock]; omega)
  exact ⟨h3, by simp [length_completeBlock, length_appendStmt]⟩

theorem itePre_inv {Inv : List Block → Prop} (hp : Preserved Inv) (loc : Loc) (d : Nat) (bs : List Block) (h : Inv bs) :
    Inv (itePre loc d bs) ∧ (itePre loc d bs).length = bs.length + 1 := by
  have hpos := hp.pos bs h
  unfold itePre
  simp only
  have h2 := hp.branch bs loc (bs.length - 1 + 1) [bs.length - 1] d h (by simp) (by intro p hp'; simp at hp'; omega)
  exact ⟨h2, by simp [length_completeBlock, length_appendStmt]⟩

mutual
theorem visit_inv {Inv : List Block → Prop} (hp : Preserved Inv) : ∀ (s : Stmt) (d : Nat) (bs : List Block), Inv bs →
    Holds (Rel Inv bs) (visit s d bs)
  | .simple loc, d, bs, h => by
      rw [visit]; exact ⟨hp.simple bs _ h, by simp [length_appendStmt], by simp⟩
  | .init cs, d, bs, h => by rw [visit]; exact visitInit_inv hp cs d bs h
  | .block cs, d, bs, h => by
      rw [visit]; exact visitBlock_inv hp cs d bs [] h (by simp)
  | .while loc body, d, bs, h => by
      rw [visit]
      have hpre := whilePre_inv hp loc d bs h
      have hpos := hp.pos bs h
      apply holds_andThen (visit_inv hp body (d + 1) _ hpre.1)
      intro bs' ps ⟨hI, hlen, hps⟩
      have hol := orLast_ok ps bs' (hp.pos bs' hI) hps
      refine ⟨hp.edges bs' _ _ hI hol.1 hol.2 (by omega) (by omega), by simp [length_addEdges]; omega, ?_⟩
      intro p hp'; simp at hp'; simp [length_addEdges]; omega
  | .ite loc thn, d, bs, h => by
      rw [visit]
      have hpre := itePre_inv hp loc d bs h
      have hpos := hp.pos bs h
      apply holds_andThen (visit_inv hp thn d _ hpre.1)
      intro bs1 ps ⟨hI, hlen, hps⟩
      have hol := orLast_ok ps bs1 (hp.pos bs1 hI) hps
      refine ⟨hI, by omega, ?_⟩
      intro p hp'
      rw [mem_insertSorted] at hp'
      rcases hp' with e | e
      · omega
      · exact hol.2 p e
  | .iteElse loc thn els, d, bs, h => by
      rw [visit]
      have hpre := itePre_inv hp loc d bs h
      have hpos := hp.pos bs h
      apply holds_andThen (visit_inv hp thn d _ hpre.1)
      intro bs1 ps1 ⟨hI1, hlen1, hps1⟩
      have hol1 := orLast_ok ps1 bs1 (hp.pos bs1 hI1) hps1
      have hc := hp.complete bs1 [bs.length - 1] d hI1 (by simp) (by intro p hp'; simp at hp'; omega)
      apply holds_andThen (visit_inv hp els d _ hc)
      intro bs2 ps2 ⟨hI2, hlen2, hps2⟩
      have hol2 := orLast_ok ps2 bs2 (hp.pos bs2 hI2) hps2
      simp only [length_completeBlock] at hlen2
      refine ⟨hI2, by omega, ?_⟩
      intro p hp'
      rw [mem_union] at hp'
      rcases hp' with e | e
      · have := hol1.2 p e; omega
      · exact hol2.2 p e
theorem visitBlock_inv {Inv : List Block → Prop} (hp : Preserved Inv) : ∀ (cs : Stmts) (d : Nat) (bs : List Block) (ps : List Nat),
    Inv bs → (∀ p ∈ ps, p < bs.length) → Holds (Rel Inv bs) (visitBlock cs d bs ps)
  | .nil, d, bs, ps, h, hps => by rw [visitBlock]; exact ⟨h, Nat.le_refl _, hps⟩
  | .cons s rest, d, bs, ps, h, hps => by
      rw [visitBlock]
      have h0 : Inv (if ps.isEmpty then bs else completeBlock bs ps d) ∧
          bs.length ≤ (if ps.isEmpty then bs else completeBlock bs ps d).length := by
        split
        · exact ⟨h, Nat.le_refl _⟩
        · rename_i hne
          exact ⟨hp.complete bs ps d h (by intro e; simp [e] at hne) hps, by simp [length_completeBlock]⟩
      apply holds_andThen (visit_inv hp s d _ h0.1)
      intro bs' ps' ⟨hI, hlen, hps'⟩
      apply holds_mono (visitBlock_inv hp rest d bs' ps' hI hps')
      intro bs'' ps'' ⟨hI', hlen', hps''⟩
      exact ⟨hI', by omega, hps''⟩
theorem visitInit_inv {Inv : List Block → Prop} (hp : Preserved Inv) : ∀ (cs : Stmts) (d : Nat) (bs : List Block),
    Inv bs → Holds (Rel Inv bs) (visitInit cs d bs)
  | .nil, d, bs, h => by rw [visitInit]; exact ⟨h, Nat.le_refl _, by simp⟩
  | .cons s rest, d, bs, h => by
      rw [visitInit]
      apply holds_andThen (visit_inv hp s d bs h)
      intro bs' ps ⟨hI, hlen, hps⟩
      split
      · apply holds_mono (visitInit_inv hp rest d bs' hI)
        intro bs'' ps'' ⟨hI', hlen', hps''⟩
        exact ⟨hI', by omega, hps''⟩
      · trivial
end


def Bnd (bs : List Block) : Prop :=
  ∀ (i : Nat) (b : Block), bs[i]? = some b → (∀ j ∈ b.succs, j < bs.length) ∧ (∀ j ∈ b.preds, j < bs.length)
def Mirror (bs : List Block) : Prop :=
  ∀ (i j : Nat) (bi bj : Block), bs[i]? = some bi → bs[j]? = some bj → (j ∈ bi.succs ↔ i ∈ bj.preds)
def Entry (bs : List Block) : Prop := ∀ (b : Block), bs[0]? = some b → b.preds = []
def Fwd (bs : List Block) : Prop := ∀ (j : Nat) (b : Block), 0 < j → bs[j]? = some b → ∃ i ∈ b.preds, i < j
def Shape (bs : List Block) : Prop := 0 < bs.length ∧ Bnd bs ∧ Mirror bs ∧ Entry bs ∧ Fwd bs

theorem patchFalse_edges (b : Block) (j : Nat) : (patchFalse b j).preds = b.preds ∧ (patchFalse b j).succs = b.succs := by
  unfold patchFalse
  split
  · split <;> simp
  · simp

theorem get_appendStmt (bs : List Block) (s : IStmt) (i : Nat) (b' : Block) (h : (appendStmt bs s)[i]? = some b') :
    ∃ b, bs[i]? = some b ∧ b'.preds = b.preds ∧ b'.succs = b.succs := by
  unfold appendStmt CfgLift.modify at h
  rw [List.getElem?_mapIdx] at h
  cases hb : bs[i]? with
  | none => rw [hb] at h; simp at h
  | some b =>
    rw [hb] at h; simp at h
    refine ⟨b, rfl, ?_⟩
    subst h
    split <;> simp

theorem get_appendStmt' (bs : List Block) (s : IStmt) (i : Nat) (b : Block) (h : bs[i]? = some b) :
    ∃ b', (appendStmt bs s)[i]? = some b' ∧ b'.preds = b.preds ∧ b'.succs = b.succs := by
  unfold appendStmt CfgLift.modify
  rw [List.getElem?_mapIdx, h]
  simp
  split <;> simp

theorem shape_append (bs : List Block) (s : IStmt) (h : Shape bs) : Shape (appendStmt bs s) := by
  obtain ⟨hpos, hb, hm, he, hf⟩ := h
  refine ⟨by rw [length_appendStmt]; exact hpos, ?_, ?_, ?_, ?_⟩
  · intro i b' hb'
    obtain ⟨b, h1, h2, h3⟩ := get_appendStmt bs s i b' hb'
    rw [length_appendStmt, h2, h3]; exact hb i b h1
  · intro i j bi bj hi hj
    obtain ⟨b1, h1, h2, h3⟩ := get_appendStmt bs s i bi hi
    obtain ⟨b2, h4, h5, h6⟩ := get_appendStmt bs s j bj hj
    rw [h3, h5]; exact hm i j b1 b2 h1 h4
  · intro b' hb'
    obtain ⟨b, h1, h2, _⟩ := get_appendStmt bs s 0 b' hb'
    rw [h2]; exact he b h1
  · intro j b' hj hb'
    obtain ⟨b, h1, h2, _⟩ := get_appendStmt bs s j b' hb'
    rw [h2]; exact hf j b hj h1

/-- what `completeBlock` does to the edge sets -/
theorem get_completeBlock (bs : List Block) (ps : List Nat) (d : Nat) (i : Nat) (b' : Block)
    (h : (completeBlock bs ps d)[i]? = some b') :
    (i < bs.length ∧ ∃ b, bs[i]? = some b ∧ b'.preds = b.preds ∧
        (∀ x, x ∈ b'.succs ↔ x ∈ b.succs ∨ (x = bs.length ∧ i ∈ ps))) ∨
    (i = bs.length ∧ b'.succs = [] ∧ ∀ x, x ∈ b'.preds ↔ x ∈ ps) := by
  unfold completeBlock at h
  simp only at h
  by_cases hi : i < bs.length
  · left
    refine ⟨hi, ?_⟩
    rw [List.getElem?_append_left (by simpa using hi), List.getElem?_mapIdx] at h
    cases hb : bs[i]? with
    | none => rw [hb] at h; simp at h
    | some b =>
      rw [hb] at h; simp at h
      refine ⟨b, rfl, ?_⟩
      subst h
      by_cases hc : ps.contains i = true
      · have hmem : i ∈ ps := by simpa using hc
        rw [if_pos hmem]
        refine ⟨(patchFalse_edges _ _).1, ?_⟩
        intro x; rw [(patchFalse_edges _ _).2]; simp only
        rw [mem_insertSorted]; constructor
        · rintro (e | e)
          · exact Or.inr ⟨e, hmem⟩
          · exact Or.inl e
        · rintro (e | ⟨e, _⟩)
          · exact Or.inr e
          · exact Or.inl e
      · have hmem : ¬ i ∈ ps := by simpa using hc
        rw [if_neg hmem]
        refine ⟨rfl, ?_⟩
        intro x; constructor
        · intro e; exact Or.inl e
        · rintro (e | ⟨_, e⟩)
          · exact e
          · exact absurd e hmem
  · right
    have hlen : (List.mapIdx (fun k b => if ps.contains k = true then patchFalse { b with succs := insertSorted bs.length b.succs } bs.length else b) bs).length = bs.length := by simp
    rw [List.getElem?_append_right (by rw [hlen]; omega), hlen] at h
    have : i - bs.length = 0 := by
      cases hk : i - bs.length with
      | zero => rfl
      | succ k => rw [hk] at h; simp at h
    rw [this] at h; simp at h
    refine ⟨by omega, ?_, ?_⟩
    · subst h; rfl
    · subst h; intro x; simp only; rw [mem_union]; simp


theorem shape_complete (bs : List Block) (ps : List Nat) (d : Nat) (h : Shape bs) (hne : ps ≠ [])
    (hps : ∀ p ∈ ps, p < bs.length) : Shape (completeBlock bs ps d) := by
  obtain ⟨hpos, hb, hm, he, hf⟩ := h
  refine ⟨by rw [length_completeBlock]; omega, ?_, ?_, ?_, ?_⟩
  · intro i b' hb'
    rw [length_completeBlock]
    rcases get_completeBlock bs ps d i b' hb' with ⟨hi, b, h1, h2, h3⟩ | ⟨hi, h2, h3⟩
    · constructor
      · intro x hx
        rcases (h3 x).mp hx with e | ⟨e, _⟩
        · have := (hb i b h1).1 x e; omega
        · omega
      · intro x hx; rw [h2] at hx; have := (hb i b h1).2 x hx; omega
    · constructor
      · intro x hx; rw [h2] at hx; cases hx
      · intro x hx; have := hps x ((h3 x).mp hx); omega
  · intro i j bi bj hi hj
    rcases get_completeBlock bs ps d i bi hi with ⟨hil, b1, h1, h2, h3⟩ | ⟨hil, h2, h3⟩
    · rcases get_completeBlock bs ps d j bj hj with ⟨hjl, b2, h4, h5, h6⟩ | ⟨hjl, h5, h6⟩
      · rw [h3, h5]
        constructor
        · rintro (e | ⟨e, _⟩)
          · exact (hm i j b1 b2 h1 h4).mp e
          · omega
        · intro e; exact Or.inl ((hm i j b1 b2 h1 h4).mpr e)
      · rw [h3, h6]
        constructor
        · rintro (e | ⟨_, e⟩)
          · have := (hb i b1 h1).1 j e; omega
          · exact e
        · intro e; exact Or.inr ⟨hjl, e⟩
    · rcases get_completeBlock bs ps d j bj hj with ⟨hjl, b2, h4, h5, h6⟩ | ⟨hjl, h5, h6⟩
      · rw [h2, h5]
        constructor
        · intro e; cases e
        · intro e; have := (hb j b2 h4).2 i e; omega
      · rw [h2, h6]
        constructor
        · intro e; cases e
        · intro e; have := hps i e; omega
  · intro b' hb'
    rcases get_completeBlock bs ps d 0 b' hb' with ⟨_, b, h1, h2, _⟩ | ⟨hi, _, _⟩
    · rw [h2]; exact he b h1
    · omega
  · intro j b' hj hb'
    rcases get_completeBlock bs ps d j b' hb' with ⟨_, b, h1, h2, _⟩ | ⟨hi, _, h3⟩
    · rw [h2]; exact hf j b hj h1
    · cases ps with
      | nil => exact absurd rfl hne
      | cons p rest =>
        refine ⟨p, (h3 p).mpr (by simp), ?_⟩
        have := hps p (by simp); omega

/-- what `addEdges` does to the edge sets -/
theorem get_addEdges (bs : List Block) (fs : List Nat) (hd : Nat) (i : Nat) (b' : Block)
    (h : (addEdges bs fs hd)[i]? = some b') :
    ∃ b, bs[i]? = some b ∧
      (∀ x, x ∈ b'.succs ↔ x ∈ b.succs ∨ (x = hd ∧ i ∈ fs)) ∧
      (∀ x, x ∈ b'.preds ↔ x ∈ b.preds ∨ (i = hd ∧ x ∈ fs)) := by
  unfold addEdges at h
  rw [List.getElem?_mapIdx] at h
  cases hb : bs[i]? with
  | none => rw [hb] at h; simp at h
  | some b =>
    rw [hb] at h; simp only [Option.map_some, Option.some.injEq] at h
    refine ⟨b, rfl, ?_⟩
    -- inner update (successors)
    have inner : ∀ (b1 : Block), b1 = (if fs.contains i = true then { b with succs := insertSorted hd b.succs } else b) →
        b1.preds = b.preds ∧ ∀ x, x ∈ b1.succs ↔ x ∈ b.succs ∨ (x = hd ∧ i ∈ fs) := by
      intro b1 e
      by_cases hc : fs.contains i = true
      · have hmem : i ∈ fs := by simpa using hc
        rw [if_pos hc] at e; subst e
        refine ⟨rfl, ?_⟩
        intro x; simp only; rw [mem_insertSorted]; constructor
        · rintro (e | e)
          · exact Or.inr ⟨e, hmem⟩
          · exact Or.inl e
        · rintro (e | ⟨e, _⟩)
          · exact Or.inr e
          · exact Or.inl e
      · have hmem : ¬ i ∈ fs := by simpa using hc
        rw [if_neg hc] at e; subst e
        refine ⟨rfl, ?_⟩
        intro x; constructor
        · intro e; exact Or.inl e
        · rintro (e | ⟨_, e⟩)
          · exact e
          · exact absurd e hmem
    obtain ⟨hp1, hs1⟩ := inner _ rfl
    by_cases h2 : i = hd
    · rw [if_pos h2] at h; subst h
      refine ⟨hs1, ?_⟩
      intro x; simp only; rw [mem_union, hp1]; constructor
      · rintro (e | e)
        · exact Or.inr ⟨h2, e⟩
        · exact Or.inl e
      · rintro (e | ⟨_, e⟩)
        · exact Or.inr e
        · exact Or.inl e
    · rw [if_neg h2] at h; subst h
      refine ⟨hs1, ?_⟩
      intro x; rw [hp1]; constructor
      · intro e; exact Or.inl e
      · rintro (e | ⟨e, _⟩)
        · exact e
        · exact absurd e h2

theorem shape_edges (bs : List Block) (fs : List Nat) (hd : Nat) (h : Shape bs) (_hne : fs ≠ [])
    (hfs : ∀ p ∈ fs, p < bs.length) (hhd : hd < bs.length) (h1 : 1 ≤ hd) : Shape (addEdges bs fs hd) := by
  obtain ⟨hpos, hb, hm, he, hf⟩ := h
  refine ⟨by rw [length_addEdges]; exact hpos, ?_, ?_, ?_, ?_⟩
  · intro i b' hb'
    rw [length_addEdges]
    obtain ⟨b, g1, g2, g3⟩ := get_addEdges bs fs hd i b' hb'
    constructor
    · intro x hx
      rcases (g2 x).mp hx with e | ⟨e, _⟩
      · exact (hb i b g1).1 x e
      · omega
    · intro x hx
      rcases (g3 x).mp hx with e | ⟨_, e⟩
      · exact (hb i b g1).2 x e
      · exact hfs x e
  · intro i j bi bj hi hj
    obtain ⟨b1, g1, g2, g3⟩ := get_addEdges bs fs hd i bi hi
    obtain ⟨b2, g4, g5, g6⟩ := get_addEdges bs fs hd j bj hj
    rw [g2, g6]
    constructor
    · rintro (e | ⟨e1, e2⟩)
      · exact Or.inl ((hm i j b1 b2 g1 g4).mp e)
      · exact Or.inr ⟨e1, e2⟩
    · rintro (e | ⟨e1, e2⟩)
      · exact Or.inl ((hm i j b1 b2 g1 g4).mpr e)
      · exact Or.inr ⟨e1, e2⟩
  · intro b' hb'
    obtain ⟨b, g1, _, g3⟩ := get_addEdges bs fs hd 0 b' hb'
    have hb0 := he b g1
    apply List.eq_nil_iff_forall_not_mem.mpr
    intro x hx
    rcases (g3 x).mp hx with e | ⟨e, _⟩
    · rw [hb0] at e; cases e
    · omega
  · intro j b' hj hb'
    obtain ⟨b, g1, _, g3⟩ := get_addEdges bs fs hd j b' hb'
    obtain ⟨i, hi, hlt⟩ := hf j b hj g1
    exact ⟨i, (g3 i).mpr (Or.inl hi), hlt⟩

theorem shape_preserved : Preserved Shape where
  pos := fun _ h => h.1
  simple := fun bs loc h => shape_append bs _ h
  branch := fun bs loc t ps d h hne hps =>
    shape_complete _ ps d (shape_append bs _ h) hne (by intro p hp; rw [length_appendStmt]; exact hps p hp)
  complete := shape_complete
  edges := shape_edges

def initBlocks : List Block := [{ depth := 0, stmts := [], preds := [], succs := [] }]

theorem shape_init : Shape initBlocks := by
  refine ⟨by simp [initBlocks], ?_, ?_, ?_, ?_⟩
  · intro i b h
    cases i with
    | zero => simp [initBlocks] at h; subst h; simp
    | succ k => simp [initBlocks] at h
  · intro i j bi bj hi hj
    cases i with
    | zero =>
      cases j with
      | zero => simp [initBlocks] at hi hj; subst hi; subst hj; simp
      | succ k => simp [initBlocks] at hj
    | succ k => simp [initBlocks] at hi
  · intro b h; simp [initBlocks] at h; subst h; rfl
  · intro j b hj h
    cases j with
    | zero => omega
    | succ k => simp [initBlocks] at h

/-- every CFG produced by `build_basic_blocks` has the `Shape` invariant -/
theorem lift_shape (body : Stmt) (bs : List Block) (ps : List Nat) (h : lift body = .ok bs ps) : Shape bs := by
  have := visit_inv shape_preserved body 0 initBlocks shape_init
  unfold lift at h
  change visit body 0 initBlocks = _ at h
  rw [h] at this
  exact this.1


open Circomspect.Graph in
theorem getD_eq {bs : List Block} {j : Nat} (hj : j < bs.length) : bs[j]? = some (bs.getD j default) := by
  simp [List.getD, List.getElem?_eq_getElem hj]

open Circomspect.Graph Circomspect.CfgSpec in
/-- every block of a lifted CFG is reachable from the entry -/
theorem shape_reachable (bs : List Block) (h : Shape bs) : ∀ j, j < bs.length → Reachable (graphOf bs) j := by
  obtain ⟨hpos, hb, hm, he, hf⟩ := h
  intro j
  induction j using Nat.strongRecOn with
  | _ j ih =>
    intro hj
    by_cases h0 : j = 0
    · subst h0; exact ⟨[0], Path.root⟩
    · obtain ⟨i, hi, hlt⟩ := hf j (bs.getD j default) (by omega) (getD_eq hj)
      obtain ⟨π, hπ⟩ := ih i hlt (by omega)
      exact ⟨j :: π, Path.step hπ (by simpa [graphOf] using hi) (by simpa [graphOf] using hj)⟩

open Circomspect.Graph Circomspect.CfgSpec in
theorem shape_rooted (bs : List Block) (h : Shape bs) : Rooted (graphOf bs) where
  pos := h.1
  entry := by
    have := h.2.2.2.1 (bs.getD 0 default) (getD_eq h.1)
    simpa [graphOf] using this
  closed := by
    intro i hi j hj
    have := (h.2.1 i (bs.getD i default) (getD_eq (by simpa [graphOf] using hi))).2 j (by simpa [graphOf] using hj)
    simpa [graphOf] using this
  reach := fun i hi => shape_reachable bs h i (by simpa [graphOf] using hi)

open Circomspect.Graph Circomspect.CfgSpec Circomspect.DominatorLemmas in
/-- whenever block `i` dominates block `j`, `i ≤ j` -/
theorem shape_dom_order (bs : List Block) (h : Shape bs) : ∀ j, j < bs.length → ∀ i, Dom (graphOf bs) i j → i ≤ j := by
  obtain ⟨hpos, hb, hm, he, hf⟩ := h
  intro j
  induction j using Nat.strongRecOn with
  | _ j ih =>
    intro hj i hd
    by_cases hij : i = j
    · omega
    · by_cases h0 : j = 0
      · subst h0
        have := hd [0] Path.root
        simp at this; omega
      · obtain ⟨p, hp, hlt⟩ := hf j (bs.getD j default) (by omega) (getD_eq hj)
        have hdp : Dom (graphOf bs) i p := dom_pred hd hij (by simpa [graphOf] using hp) (by simpa [graphOf] using hj)
        have := ih p hlt (by omega) i hdp
        omega


open Circomspect CfgLift CfgSpec

/-- no branch before the last statement of any block, and none at all in the (open) last block -/
def noBranch (l : List IStmt) : Prop := ∀ s, s ∈ l → isBranch s = false

def BranchLast (bs : List Block) : Prop :=
  0 < bs.length ∧
  (∀ (i : Nat) (b : Block), bs[i]? = some b → noBranch b.stmts.dropLast) ∧
  (∀ (b : Block), bs[bs.length - 1]? = some b → noBranch b.stmts)

theorem noBranch_dropLast {l : List IStmt} (h : noBranch l) : noBranch l.dropLast :=
  fun s hs => h s (List.dropLast_subset l hs)

theorem patchFalse_stmts (b : Block) (j : Nat) (h : noBranch b.stmts.dropLast) :
    noBranch (patchFalse b j).stmts.dropLast := by
  unfold patchFalse
  split
  · split
    · simp only [List.dropLast_concat]
      exact h
    · exact h
  · exact h

theorem stmts_appendStmt (bs : List Block) (s : IStmt) (i : Nat) (b' : Block) (h : (appendStmt bs s)[i]? = some b') :
    ∃ b, bs[i]? = some b ∧ b'.stmts = if i = bs.length - 1 then b.stmts ++ [s] else b.stmts := by
  unfold appendStmt CfgLift.modify at h
  rw [List.getElem?_mapIdx] at h
  cases hb : bs[i]? with
  | none => rw [hb] at h; simp at h
  | some b =>
    rw [hb] at h; simp at h
    refine ⟨b, rfl, ?_⟩
    subst h
    split <;> simp

theorem stmts_completeBlock (bs : List Block) (ps : List Nat) (d : Nat) (i : Nat) (b' : Block)
    (h : (completeBlock bs ps d)[i]? = some b') :
    (i < bs.length ∧ ∃ b, bs[i]? = some b ∧ (noBranch b.stmts.dropLast → noBranch b'.stmts.dropLast)) ∨
    (i = bs.length ∧ b'.stmts = []) := by
  unfold completeBlock at h
  simp only at h
  by_cases hi : i < bs.length
  · left
    refine ⟨hi, ?_⟩
    rw [List.getElem?_append_left (by simpa using hi), List.getElem?_mapIdx] at h
    cases hb : bs[i]? with
    | none => rw [hb] at h; simp at h
    | some b =>
      rw [hb] at h; simp at h
      refine ⟨b, rfl, ?_⟩
      subst h
      intro hn
      split
      · exact patchFalse_stmts _ _ hn
      · exact hn
  · right
    have hlen : (List.mapIdx (fun k b => if ps.contains k = true then patchFalse { b with succs := insertSorted bs.length b.succs } bs.length else b) bs).length = bs.length := by simp
    have hi' : i ≥ bs.length := Nat.le_of_not_lt hi
    rw [List.getElem?_append_right (by simpa using hi')] at h
    simp only [List.length_mapIdx] at h
    cases hk : i - bs.length with
    | zero =>
      rw [hk] at h
      simp at h
      subst h
      exact ⟨by omega, rfl⟩
    | succ k =>
      rw [hk] at h
      simp at h

theorem stmts_addEdges (bs : List Block) (fs : List Nat) (hd : Nat) (i : Nat) (b' : Block)
    (h : (addEdges bs fs hd)[i]? = some b') : ∃ b, bs[i]? = some b ∧ b'.stmts = b.stmts := by
  unfold addEdges at h
  rw [List.getElem?_mapIdx] at h
  cases hb : bs[i]? with
  | none => rw [hb] at h; simp at h
  | some b =>
    rw [hb] at h; simp only [Option.map_some, Option.some.injEq] at h
    refine ⟨b, rfl, ?_⟩
    subst h
    split <;> split <;> rfl

theorem bl_complete (bs : List Block) (ps : List Nat) (d : Nat)
    (hpos : 0 < bs.length) (h2 : ∀ (i : Nat) (b : Block), bs[i]? = some b → noBranch b.stmts.dropLast) :
    BranchLast (completeBlock bs ps d) := by
  refine ⟨by rw [length_completeBlock]; omega, ?_, ?_⟩
  · intro i b' hb'
    rcases stmts_completeBlock bs ps d i b' hb' with ⟨_, b, hb, himp⟩ | ⟨_, he⟩
    · exact himp (h2 i b hb)
    · rw [he]; intro s hs; cases hs
  · intro b' hb'
    rw [length_completeBlock] at hb'
    rcases stmts_completeBlock bs ps d (bs.length + 1 - 1) b' hb' with ⟨hlt, _⟩ | ⟨_, he⟩
    · omega
    · rw [he]; intro s hs; cases hs

theorem branchLast_preserved : Preserved BranchLast where
  pos := fun _ h => h.1
  simple := by
    intro bs loc ⟨hpos, h2, h3⟩
    refine ⟨by rw [length_appendStmt]; exact hpos, ?_, ?_⟩
    · intro i b' hb'
      obtain ⟨b, hb, hst⟩ := stmts_appendStmt bs _ i b' hb'
      rw [hst]
      split
      · rename_i hi
        subst hi
        simp only [List.dropLast_concat]
        exact h3 b hb
      · exact h2 i b hb
    · intro b' hb'
      rw [length_appendStmt] at hb'
      obtain ⟨b, hb, hst⟩ := stmts_appendStmt bs _ _ b' hb'
      rw [hst, if_pos rfl]
      intro s hs
      rcases List.mem_append.mp hs with hs | hs
      · exact h3 b hb s hs
      · have : s = _ := List.mem_singleton.mp hs
        subst this; rfl
  branch := by
    intro bs loc t ps d ⟨hpos, h2, h3⟩ _ _
    apply bl_complete
    · rw [length_appendStmt]; exact hpos
    · intro i b' hb'
      obtain ⟨b, hb, hst⟩ := stmts_appendStmt bs _ i b' hb'
      rw [hst]
      split
      · rename_i hi
        subst hi
        simp only [List.dropLast_concat]
        exact h3 b hb
      · exact h2 i b hb
  complete := by
    intro bs ps d ⟨hpos, h2, _⟩ _ _
    exact bl_complete bs ps d hpos h2
  edges := by
    intro bs fs hd ⟨hpos, h2, h3⟩ _ _ _ _
    refine ⟨by rw [length_addEdges]; exact hpos, ?_, ?_⟩
    · intro i b' hb'
      obtain ⟨b, hb, hst⟩ := stmts_addEdges bs fs hd i b' hb'
      rw [hst]; exact h2 i b hb
    · intro b' hb'
      rw [length_addEdges] at hb'
      obtain ⟨b, hb, hst⟩ := stmts_addEdges bs fs hd _ b' hb'
      rw [hst]; exact h3 b hb

theorem branchLast_init : BranchLast initBlocks := by
  refine ⟨by simp [initBlocks], ?_, ?_⟩
  · intro i b hb
    cases i with
    | zero => simp [initBlocks] at hb; subst hb; intro s hs; cases hs
    | succ k => simp [initBlocks] at hb
  · intro b hb
    simp [initBlocks] at hb
    subst hb
    intro s hs; cases hs

/-- in every block of a lifted CFG a branch can only be the last statement -/
theorem lift_branch_last (body : Stmt) (bs : List Block) (ps : List Nat) (h : lift body = .ok bs ps) :
    ∀ (i : Nat) (b : Block), bs[i]? = some b → ∀ s, s ∈ b.stmts.dropLast → isBranch s = false := by
  have := visit_inv branchLast_preserved body 0 initBlocks branchLast_init
  unfold lift at h
  change visit body 0 initBlocks = _ at h
  rw [h] at this
  exact this.1.2.1

end Circomspect.CfgLemmas
