/-
Lemmas about the operational model of the SSA renaming walk (`Model/SsaWalk.lean`), C14.

Part 1 (`counter`): whatever the walk does, the global counters never hand out the same version of a variable
twice — the log of `(variable, version)` pairs has no duplicates.  No assumption on the CFG or the tree.
-/
import Circomspect.Model.SsaWalk
import Circomspect.Lemmas.SsaBuildLemmas
import Circomspect.Lemmas.SsaLemmas
set_option linter.unusedSimpArgs false
set_option linter.unusedVariables false
namespace Circomspect.SsaWalk
open Circomspect.Ssa Circomspect.SsaBuild Circomspect.SsaLemmas

-- ---------------------------------------------------------------------------- part 1: the counters

/-- the counter of a variable is at least every version of it handed out so far -/
def CounterInv (st : St) : Prop := ∀ e, e ∈ st.log → ∃ k, st.glob e.var = some k ∧ e.ver ≤ k

def pairs (log : List Entry) : List (Var × Nat) := log.map (fun e => (e.var, e.ver))

/-- the state is well formed: counters dominate the log and no `(variable, version)` was handed out twice -/
structure Fresh (st : St) : Prop where
  counter : CounterInv st
  nodup : (pairs st.log).Nodup

theorem fresh_gt (st : St) (h : CounterInv st) (v : Var) : ∀ e, e ∈ st.log → e.var = v → e.ver < fresh st.glob v := by
  intro e he hv
  obtain ⟨k, hk, hle⟩ := h e he
  unfold fresh
  rw [← hv, hk]
  simp only
  omega

theorem alloc_fresh (st : St) (site : Site) (v : Var) (h : Fresh st) : Fresh (alloc st site v) := by
  constructor
  · intro e he
    simp only [alloc, List.mem_append, List.mem_singleton] at he
    rcases he with he | he
    · by_cases hv : e.var = v
      · refine ⟨fresh st.glob v, ?_, ?_⟩
        · simp only [alloc]; rw [hv]; exact set_same _ _ _
        · exact Nat.le_of_lt (fresh_gt st h.counter v e he hv)
      · obtain ⟨k, hk, hle⟩ := h.counter e he
        exact ⟨k, by simp only [alloc]; rw [set_other _ _ _ _ hv]; exact hk, hle⟩
    · subst he
      exact ⟨fresh st.glob v, by simp only [alloc]; exact set_same _ _ _, Nat.le_refl _⟩
  · simp only [alloc, pairs, List.map_append, List.map_cons, List.map_nil]
    rw [List.nodup_append]
    refine ⟨h.nodup, by simp, ?_⟩
    intro a ha b hb
    simp only [List.mem_singleton] at hb
    subst hb
    obtain ⟨e, he, hea⟩ := List.mem_map.mp ha
    intro heq
    rw [← hea] at heq
    simp only [Prod.mk.injEq] at heq
    have := fresh_gt st h.counter v e he heq.1
    omega

/-- the log only grows -/
def LogExt (st st' : St) : Prop := ∃ ext, st'.log = st.log ++ ext

theorem LogExt.refl (st : St) : LogExt st st := ⟨[], by simp⟩
theorem LogExt.trans {a b c : St} (h1 : LogExt a b) (h2 : LogExt b c) : LogExt a c := by
  obtain ⟨e1, h1⟩ := h1; obtain ⟨e2, h2⟩ := h2
  exact ⟨e1 ++ e2, by rw [h2, h1, List.append_assoc]⟩
theorem alloc_ext (st : St) (site : Site) (v : Var) : LogExt st (alloc st site v) := ⟨[_], rfl⟩

theorem impStep_fresh (i k : Nat) (st : St) (m : VMap) (s : PStmt) (h : Fresh st) :
    Fresh (impStep i k st m s).1 ∧ LogExt st (impStep i k st m s).1 := by
  unfold impStep
  split
  · split
    · exact ⟨h, LogExt.refl _⟩
    · exact ⟨alloc_fresh _ _ _ h, alloc_ext _ _ _⟩
  · exact ⟨h, LogExt.refl _⟩

theorem walkStmt_fresh (i k : Nat) (st : St) (m : VMap) (s : PStmt) (r : St × VMap × Stmt)
    (hw : walkStmt i k st m s = some r) (h : Fresh st) : Fresh r.1 ∧ LogExt st r.1 := by
  unfold walkStmt at hw
  split at hw
  · cases hw
  · obtain ⟨h1, e1⟩ := impStep_fresh i k st m s h
    split at hw
    · cases hw
      exact ⟨alloc_fresh _ _ _ h1, e1.trans (alloc_ext _ _ _)⟩
    · cases hw
      exact ⟨h1, e1⟩

theorem walkStmts_fresh (i : Nat) : ∀ (ss : List PStmt) (k : Nat) (st : St) (m : VMap) (r : St × VMap × List Stmt),
    walkStmts i k st m ss = some r → Fresh st → Fresh r.1 ∧ LogExt st r.1 := by
  intro ss
  induction ss with
  | nil => intro k st m r hw h; simp only [walkStmts] at hw; cases hw; exact ⟨h, LogExt.refl _⟩
  | cons s rest ih =>
    intro k st m r hw h
    simp only [walkStmts] at hw
    split at hw
    · cases hw
    · rename_i r1 h1
      split at hw
      · cases hw
      · rename_i r2 h2
        cases hw
        obtain ⟨f1, e1⟩ := walkStmt_fresh i k st m s r1 h1 h
        obtain ⟨f2, e2⟩ := ih (k + 1) r1.1 r1.2.1 r2 h2 f1
        exact ⟨f2, e1.trans e2⟩

theorem walkPhis_fresh (i : Nat) : ∀ (vs : List Var) (st : St) (m : VMap),
    Fresh st → Fresh (walkPhis i st m vs).1 ∧ LogExt st (walkPhis i st m vs).1 := by
  intro vs
  induction vs with
  | nil => intro st m h; exact ⟨h, LogExt.refl _⟩
  | cons v rest ih =>
    intro st m h
    simp only [walkPhis]
    obtain ⟨f, e⟩ := ih (alloc st (.phi i v) v) (m.set v (fresh st.glob v)) (alloc_fresh _ _ _ h)
    exact ⟨f, (alloc_ext _ _ _).trans e⟩

theorem initParams_fresh : ∀ (vs : List Var) (st : St) (m : VMap),
    Fresh st → Fresh (initParams st m vs).1 ∧ LogExt st (initParams st m vs).1 := by
  intro vs
  induction vs with
  | nil => intro st m h; exact ⟨h, LogExt.refl _⟩
  | cons v rest ih =>
    intro st m h
    simp only [initParams]
    obtain ⟨f, e⟩ := ih (alloc st (.param v) v) (m.set v (fresh st.glob v)) (alloc_fresh _ _ _ h)
    exact ⟨f, (alloc_ext _ _ _).trans e⟩

theorem foldRes_inv (Q : St → Prop) (f : St → Nat → Res St) (hf : ∀ st j st', Q st → f st j = .ok st' → Q st' ∧ LogExt st st') :
    ∀ (l : List Nat) (st st' : St), Q st → foldRes f l st = .ok st' → Q st' ∧ LogExt st st' := by
  intro l
  induction l with
  | nil => intro st st' h hw; simp only [foldRes] at hw; cases hw; exact ⟨h, LogExt.refl _⟩
  | cons j rest ih =>
    intro st st' h hw
    simp only [foldRes] at hw
    split at hw
    · rename_i st1 h1
      obtain ⟨q1, e1⟩ := hf st j st1 h h1
      obtain ⟨q2, e2⟩ := ih st1 st' q1 hw
      exact ⟨q2, e1.trans e2⟩
    · cases hw
    · cases hw

theorem foldRes_inv' (Q : St → Prop) (f : St → Nat → Res St) (hf : ∀ st j st', Q st → f st j = .ok st' → Q st') :
    ∀ (l : List Nat) (st st' : St), Q st → foldRes f l st = .ok st' → Q st' := by
  intro l
  induction l with
  | nil => intro st st' h hw; simp only [foldRes] at hw; cases hw; exact h
  | cons j rest ih =>
    intro st st' h hw
    simp only [foldRes] at hw
    split at hw
    · rename_i st1 h1
      exact ih st1 st' (hf st j st1 h h1) hw
    · cases hw
    · cases hw

theorem walk_fresh (c : PCfg) (P : Phis) (idom : Nat → Nat) : ∀ (fuel i : Nat) (m : VMap) (st st' : St),
    Fresh st → walk c P idom fuel i m st = .ok st' → Fresh st' ∧ LogExt st st' := by
  intro fuel
  induction fuel with
  | zero => intro i m st st' h hw; simp only [walk] at hw; cases hw
  | succ fuel ih =>
    intro i m st st' h hw
    simp only [walk] at hw
    split at hw
    · cases hw
    · rename_i r2 h2
      obtain ⟨f1, e1⟩ := walkPhis_fresh i (P i) st m h
      obtain ⟨f2, e2⟩ := walkStmts_fresh i _ 0 _ _ r2 h2 f1
      have f3 : Fresh { r2.1 with done := r2.1.done ++ [(i, r2.2.2)], args := pushSuccs (c.block i).succs r2.2.1 r2.1.args } :=
        ⟨f2.counter, f2.nodup⟩
      have e3 : LogExt r2.1 { r2.1 with done := r2.1.done ++ [(i, r2.2.2)], args := pushSuccs (c.block i).succs r2.2.1 r2.1.args } :=
        ⟨[], by simp⟩
      obtain ⟨f4, e4⟩ := foldRes_inv Fresh _ (fun st j st' hq hw' => ih j r2.2.1 st st' hq hw') _ _ _ f3 hw
      exact ⟨f4, ((e1.trans e2).trans e3).trans e4⟩

theorem st0_fresh : Fresh st0 := ⟨fun e he => (List.not_mem_nil he).elim, List.nodup_nil⟩

/-- **the counters never hand out a version twice**: in the final state of the conversion the logged
    `(variable, version)` pairs are pairwise different -/
theorem run_fresh (c : PCfg) (P : Phis) (idom : Nat → Nat) (st : St) (h : run c P idom = .ok st) :
    (pairs st.log).Nodup := by
  unfold run at h
  obtain ⟨f0, _⟩ := initParams_fresh c.params st0 (fun _ => none) st0_fresh
  exact (walk_fresh c P idom _ 0 _ _ st f0 h).1.nodup

-- ---------------------------------------------------------------------------- part 2: the walk refines `build`

def siteVer (V : Versions) : Site → Nat
  | .param _ => 0
  | .phi i v => V.phi i v
  | .def_ i k => V.def_ i k
  | .imp i k => V.imp i k

/-- the numbering `V` gives every logged site the version the counters gave it -/
def Agrees (V : Versions) (log : List Entry) : Prop := ∀ e, e ∈ log → siteVer V e.site = e.ver

theorem Agrees.of_ext {V : Versions} {st st' : St} (he : LogExt st st') (h : Agrees V st'.log) : Agrees V st.log := by
  obtain ⟨ext, hx⟩ := he
  intro e hm
  exact h e (by rw [hx]; exact List.mem_append_left _ hm)

theorem agrees_alloc {V : Versions} (st : St) (site : Site) (v : Var) (h : Agrees V (alloc st site v).log) :
    siteVer V site = fresh st.glob v :=
  h ⟨site, v, fresh st.glob v⟩ (by simp [alloc])

theorem walkStmt_ref (V : Versions) (i k : Nat) (st : St) (m : VMap) (s : PStmt) (r : St × VMap × Stmt)
    (hw : walkStmt i k st m s = some r) (ha : Agrees V r.1.log) :
    renameStmt V i k m s = some r.2.2 ∧ stepMap V i k m s = r.2.1 := by
  unfold walkStmt at hw
  unfold renameStmt stepMap
  cases hro : optAll (s.reads.map (fun r => (m r).map (fun n => (r, n)))) with
  | none => rw [hro] at hw; cases hw
  | some rs =>
    rw [hro] at hw
    simp only at hw ⊢
    cases ht : s.target with
    | none =>
      have hi : impStep i k st m s = (st, m, []) := by
        unfold impStep; rw [ht]; cases s.upd <;> rfl
      rw [ht, hi] at hw
      simp only [Option.some.injEq] at hw
      subst hw
      cases s.upd <;> simp
    | some v =>
      cases hu : s.upd with
      | false =>
        have hi : impStep i k st m s = (st, m, []) := by unfold impStep; rw [ht, hu]
        rw [ht, hi] at hw
        simp only [Option.some.injEq] at hw
        subst hw
        have hv := agrees_alloc st (.def_ i k) v ha
        simp only [siteVer] at hv
        simp [hv]
      | true =>
        cases hm : m v with
        | some n =>
          have hi : impStep i k st m s = (st, m, [(v, n)]) := by unfold impStep; rw [ht, hu]; simp only [hm]
          rw [ht, hi] at hw
          simp only [Option.some.injEq] at hw
          subst hw
          have hv := agrees_alloc st (.def_ i k) v ha
          simp only [siteVer] at hv
          simp [hv, updRead, hm]
        | none =>
          have hi : impStep i k st m s = (alloc st (.imp i k) v, m.set v (fresh st.glob v), [(v, fresh st.glob v)]) := by
            unfold impStep; rw [ht, hu]; simp only [hm]
          rw [ht, hi] at hw
          simp only [Option.some.injEq] at hw
          subst hw
          have hv2 := agrees_alloc (alloc st (.imp i k) v) (.def_ i k) v ha
          have hv1 := agrees_alloc st (.imp i k) v (Agrees.of_ext (alloc_ext _ _ _) ha)
          simp only [siteVer] at hv1 hv2
          simp [hv1, hv2, updRead, hm]

theorem walkStmts_ref (V : Versions) (i : Nat) : ∀ (ss : List PStmt) (k : Nat) (st : St) (m : VMap) (r : St × VMap × List Stmt),
    Fresh st → walkStmts i k st m ss = some r → Agrees V r.1.log →
    renameStmts V i k m ss = some r.2.2 ∧ stepMaps V i k m ss = r.2.1 := by
  intro ss
  induction ss with
  | nil =>
    intro k st m r _ hw _
    simp only [walkStmts] at hw; cases hw
    exact ⟨rfl, rfl⟩
  | cons s rest ih =>
    intro k st m r hf hw ha
    simp only [walkStmts] at hw
    split at hw
    · cases hw
    · rename_i r1 h1
      split at hw
      · cases hw
      · rename_i r2 h2
        cases hw
        obtain ⟨f1, _⟩ := walkStmt_fresh i k st m s r1 h1 hf
        obtain ⟨_, e2⟩ := walkStmts_fresh i rest (k + 1) r1.1 r1.2.1 r2 h2 f1
        obtain ⟨a1, a2⟩ := walkStmt_ref V i k st m s r1 h1 (Agrees.of_ext e2 ha)
        obtain ⟨b1, b2⟩ := ih (k + 1) r1.1 r1.2.1 r2 f1 h2 ha
        simp only [renameStmts, stepMaps, a1, a2, b1, b2]
        trivial

theorem walkPhis_ref (V : Versions) (i : Nat) : ∀ (vs : List Var) (st : St) (m : VMap),
    Fresh st → Agrees V (walkPhis i st m vs).1.log →
    vs.foldl (fun m v => m.set v (V.phi i v)) m = (walkPhis i st m vs).2 := by
  intro vs
  induction vs with
  | nil => intro st m _ _; rfl
  | cons v rest ih =>
    intro st m hf ha
    simp only [walkPhis, List.foldl_cons] at ha ⊢
    have f1 := alloc_fresh st (.phi i v) v hf
    obtain ⟨_, e⟩ := walkPhis_fresh i rest (alloc st (.phi i v) v) (m.set v (fresh st.glob v)) f1
    have hv := agrees_alloc st (.phi i v) v (Agrees.of_ext e ha)
    simp only [siteVer] at hv
    rw [hv]
    exact ih _ _ f1 ha

/-- renaming a block touches neither the finished blocks nor the phi arguments -/
def Same (st st' : St) : Prop := st'.done = st.done ∧ st'.args = st.args

theorem Same.refl (st : St) : Same st st := ⟨rfl, rfl⟩
theorem Same.trans {a b c : St} (h1 : Same a b) (h2 : Same b c) : Same a c := ⟨h2.1.trans h1.1, h2.2.trans h1.2⟩
theorem alloc_same (st : St) (site : Site) (v : Var) : Same st (alloc st site v) := ⟨rfl, rfl⟩

theorem impStep_same (i k : Nat) (st : St) (m : VMap) (s : PStmt) : Same st (impStep i k st m s).1 := by
  unfold impStep
  split
  · split
    · exact Same.refl _
    · exact alloc_same _ _ _
  · exact Same.refl _

theorem walkStmt_same (i k : Nat) (st : St) (m : VMap) (s : PStmt) (r : St × VMap × Stmt)
    (hw : walkStmt i k st m s = some r) : Same st r.1 := by
  unfold walkStmt at hw
  split at hw
  · cases hw
  · split at hw
    · cases hw; exact (impStep_same i k st m s).trans (alloc_same _ _ _)
    · cases hw; exact impStep_same i k st m s

theorem walkStmts_same (i : Nat) : ∀ (ss : List PStmt) (k : Nat) (st : St) (m : VMap) (r : St × VMap × List Stmt),
    walkStmts i k st m ss = some r → Same st r.1 := by
  intro ss
  induction ss with
  | nil => intro k st m r hw; simp only [walkStmts] at hw; cases hw; exact Same.refl _
  | cons s rest ih =>
    intro k st m r hw
    simp only [walkStmts] at hw
    split at hw
    · cases hw
    · rename_i r1 h1
      split at hw
      · cases hw
      · rename_i r2 h2
        cases hw
        exact (walkStmt_same i k st m s r1 h1).trans (ih (k + 1) r1.1 r1.2.1 r2 h2)

theorem walkPhis_same (i : Nat) : ∀ (vs : List Var) (st : St) (m : VMap), Same st (walkPhis i st m vs).1 := by
  intro vs
  induction vs with
  | nil => intro st m; exact Same.refl _
  | cons v rest ih => intro st m; simp only [walkPhis]; exact (alloc_same _ _ _).trans (ih _ _)

/-- the arguments recorded for the phi statement of `v` are versions of `v` -/
def ArgsWf (st : St) : Prop := ∀ s v a, a ∈ st.args s v → a.1 = v

theorem mem_pushArg (m : VMap) (args : List VVar) (v : Var) (a : VVar) :
    a ∈ pushArg m args v → a ∈ args ∨ ∃ n, m v = some n ∧ a = (v, n) := by
  unfold pushArg
  cases hm : m v with
  | none => exact fun h => Or.inl h
  | some n =>
    simp only
    split
    · exact fun h => Or.inl h
    · intro h
      rcases List.mem_append.mp h with h | h
      · exact Or.inl h
      · simp only [List.mem_singleton] at h; exact Or.inr ⟨n, rfl, h⟩

theorem pushArg_mono (m : VMap) (args : List VVar) (v : Var) (a : VVar) (h : a ∈ args) : a ∈ pushArg m args v := by
  unfold pushArg
  cases m v with
  | none => exact h
  | some n => simp only; split; exact h; exact List.mem_append_left _ h

theorem pushArg_has (m : VMap) (args : List VVar) (v : Var) (n : Nat) (hw : ∀ a, a ∈ args → a.1 = v) (hm : m v = some n) :
    (v, n) ∈ pushArg m args v := by
  unfold pushArg
  rw [hm]
  simp only
  split
  · rename_i hany
    obtain ⟨a, ha, hn⟩ := List.any_eq_true.mp hany
    have h1 := hw a ha
    have h2 : a.2 = n := by simpa using hn
    have : a = (v, n) := by rw [← h1, ← h2]
    rw [← this]; exact ha
  · exact List.mem_append_right _ (List.mem_singleton.mpr rfl)

theorem walk_argsWf (c : PCfg) (P : Phis) (idom : Nat → Nat) : ∀ (fuel i : Nat) (m : VMap) (st st' : St),
    ArgsWf st → walk c P idom fuel i m st = .ok st' → ArgsWf st' := by
  intro fuel
  induction fuel with
  | zero => intro i m st st' h hw; simp only [walk] at hw; cases hw
  | succ fuel ih =>
    intro i m st st' h hw
    simp only [walk] at hw
    split at hw
    · cases hw
    · rename_i r2 h2
      have s1 := (walkPhis_same i (P i) st m).trans (walkStmts_same i _ 0 _ _ r2 h2)
      have h3 : ArgsWf { r2.1 with done := r2.1.done ++ [(i, r2.2.2)], args := pushSuccs (c.block i).succs r2.2.1 r2.1.args } := by
        intro s v a ha
        simp only [pushSuccs] at ha
        rw [s1.2] at ha
        split at ha
        · rcases mem_pushArg _ _ _ _ ha with h' | ⟨n, _, h'⟩
          · exact h s v a h'
          · rw [h']
        · exact h s v a ha
      exact foldRes_inv' ArgsWf _ (fun st j st' hq hw' => ih j r2.2.1 st st' hq hw') _ _ _ h3 hw

/-- what a stretch of the walk has done, seen through a numbering `V` that agrees with its log: the blocks `d` it
    finished are the blocks `build V` produces, and the phi arguments it pushed are the versions at the end of these
    blocks -/
structure RefD (V : Versions) (c : PCfg) (P : Phis) (idom : Nat → Nat) (st st' : St) (d : List (Nat × List Stmt)) : Prop where
  done : st'.done = st.done ++ d
  good : ∀ e, e ∈ d → renameStmts V e.1 0 (phiMap V P e.1 (insOf V c P idom e.1)) (c.block e.1).stmts = some e.2
  mono : ∀ s v a, a ∈ st.args s v → a ∈ st'.args s v
  push : ∀ e, e ∈ d → ∀ s, s ∈ (c.block e.1).succs → ∀ v n, outOfB V c P idom e.1 v = some n → (v, n) ∈ st'.args s v
  only : ∀ s v a, a ∈ st'.args s v → a ∈ st.args s v ∨
    ∃ e, e ∈ d ∧ s ∈ (c.block e.1).succs ∧ ∃ n, outOfB V c P idom e.1 v = some n ∧ a = (v, n)

theorem RefD.refl (V : Versions) (c : PCfg) (P : Phis) (idom : Nat → Nat) (st : St) : RefD V c P idom st st [] :=
  ⟨by simp, fun e he => (List.not_mem_nil he).elim, fun _ _ _ h => h, fun e he => (List.not_mem_nil he).elim, fun _ _ _ h => Or.inl h⟩

theorem RefD.trans {V : Versions} {c : PCfg} {P : Phis} {idom : Nat → Nat} {a b c' : St} {d1 d2 : List (Nat × List Stmt)}
    (h1 : RefD V c P idom a b d1) (h2 : RefD V c P idom b c' d2) : RefD V c P idom a c' (d1 ++ d2) := by
  refine ⟨by rw [h2.done, h1.done, List.append_assoc], ?_, fun s v x hx => h2.mono s v x (h1.mono s v x hx), ?_, ?_⟩
  · intro e he
    rcases List.mem_append.mp he with h | h
    · exact h1.good e h
    · exact h2.good e h
  · intro e he s hs v n hn
    rcases List.mem_append.mp he with h | h
    · exact h2.mono s v _ (h1.push e h s hs v n hn)
    · exact h2.push e h s hs v n hn
  · intro s v x hx
    rcases h2.only s v x hx with h | ⟨e, he, h⟩
    · rcases h1.only s v x h with h' | ⟨e, he, h'⟩
      · exact Or.inl h'
      · exact Or.inr ⟨e, List.mem_append_left _ he, h'⟩
    · exact Or.inr ⟨e, List.mem_append_right _ he, h⟩

theorem mem_kidsOf (n : Nat) (idom : Nat → Nat) (i j : Nat) : j ∈ kidsOf n idom i ↔ j < n ∧ 0 < j ∧ idom j = i := by
  unfold kidsOf
  simp [List.mem_filter, List.mem_range]

/-- **the walk refines the declarative construction**: every block the walk finishes is the block `build V` produces,
    for every numbering `V` that gives the logged sites the versions the counters gave them -/
theorem walk_ref (V : Versions) (c : PCfg) (P : Phis) (idom : Nat → Nat)
    (hlt : ∀ j, 0 < j → j < c.blocks.length → idom j < j) : ∀ (fuel i : Nat) (m : VMap) (st st' : St),
    Fresh st → ArgsWf st → walk c P idom fuel i m st = .ok st' → Agrees V st'.log → m = insOf V c P idom i →
    ∃ d, RefD V c P idom st st' d := by
  intro fuel
  induction fuel with
  | zero => intro i m st st' _ _ hw; simp only [walk] at hw; cases hw
  | succ fuel ih =>
    intro i m st st' hf hwf hw ha hm
    simp only [walk] at hw
    split at hw
    · cases hw
    · rename_i r2 h2
      obtain ⟨f1, e1⟩ := walkPhis_fresh i (P i) st m hf
      obtain ⟨f2, e2⟩ := walkStmts_fresh i _ 0 _ _ r2 h2 f1
      have s1 := (walkPhis_same i (P i) st m).trans (walkStmts_same i _ 0 _ _ r2 h2)
      -- the state after the block itself
      have f3 : Fresh { r2.1 with done := r2.1.done ++ [(i, r2.2.2)], args := pushSuccs (c.block i).succs r2.2.1 r2.1.args } :=
        ⟨f2.counter, f2.nodup⟩
      have e3 : LogExt r2.1 { r2.1 with done := r2.1.done ++ [(i, r2.2.2)], args := pushSuccs (c.block i).succs r2.2.1 r2.1.args } :=
        ⟨[], by simp⟩
      have w3 : ArgsWf { r2.1 with done := r2.1.done ++ [(i, r2.2.2)], args := pushSuccs (c.block i).succs r2.2.1 r2.1.args } := by
        intro s v a ha'
        simp only [pushSuccs] at ha'
        rw [s1.2] at ha'
        split at ha'
        · rcases mem_pushArg _ _ _ _ ha' with h' | ⟨n, _, h'⟩
          · exact hwf s v a h'
          · rw [h']
        · exact hwf s v a ha'
      obtain ⟨_, e4⟩ := foldRes_inv Fresh _ (fun st j st' hq hw' => walk_fresh c P idom fuel j r2.2.1 st st' hq hw') _ _ _ f3 hw
      have ha2 : Agrees V r2.1.log := Agrees.of_ext (e3.trans e4) ha
      have hphi := walkPhis_ref V i (P i) st m hf (Agrees.of_ext e2 ha2)
      obtain ⟨hren, hout⟩ := walkStmts_ref V i _ 0 _ _ r2 f1 h2 ha2
      rw [← hphi] at hren hout
      have hren' : renameStmts V i 0 (phiMap V P i (insOf V c P idom i)) (c.block i).stmts = some r2.2.2 := by
        rw [← hm]; exact hren
      have hout' : r2.2.1 = outOfB V c P idom i := by
        rw [← hout, hm]; rfl
      -- the block
      have hblock : RefD V c P idom st { r2.1 with done := r2.1.done ++ [(i, r2.2.2)], args := pushSuccs (c.block i).succs r2.2.1 r2.1.args } [(i, r2.2.2)] := by
        refine ⟨by simp only [s1.1], ?_, ?_, ?_, ?_⟩
        · intro e he; simp only [List.mem_singleton] at he; subst he; exact hren'
        · intro s v a ha'
          simp only [pushSuccs, s1.2]
          split
          · exact pushArg_mono _ _ _ _ ha'
          · exact ha'
        · intro e he s hs v n hn
          simp only [List.mem_singleton] at he; subst he
          simp only [pushSuccs, s1.2]
          have : (c.block i).succs.contains s = true := by simpa using hs
          simp only [this, if_true]
          exact pushArg_has _ _ _ _ (fun a ha' => hwf s v a ha') (by rw [hout']; exact hn)
        · intro s v a ha'
          simp only [pushSuccs, s1.2] at ha'
          split at ha'
          · rename_i hc
            rcases mem_pushArg _ _ _ _ ha' with h' | ⟨n, hn, h'⟩
            · exact Or.inl h'
            · exact Or.inr ⟨(i, r2.2.2), List.mem_singleton.mpr rfl, by simpa using hc, n, by rw [← hout']; exact hn, h'⟩
          · exact Or.inl ha'
      -- the children
      have kids : ∀ (l : List Nat), (∀ j, j ∈ l → j < c.blocks.length ∧ 0 < j ∧ idom j = i) → ∀ (sa sb : St), Fresh sa → ArgsWf sa →
          foldRes (fun st j => walk c P idom fuel j r2.2.1 st) l sa = .ok sb → Agrees V sb.log → ∃ d, RefD V c P idom sa sb d := by
        intro l
        induction l with
        | nil => intro _ sa sb _ _ hw' _; simp only [foldRes] at hw'; cases hw'; exact ⟨[], RefD.refl _ _ _ _ _⟩
        | cons j rest ihl =>
          intro hl sa sb hfa hwa hw' hab
          simp only [foldRes] at hw'
          split at hw'
          · rename_i s1' h1'
            obtain ⟨fj, ej⟩ := walk_fresh c P idom fuel j r2.2.1 sa s1' hfa h1'
            have wj := walk_argsWf c P idom fuel j r2.2.1 sa s1' hwa h1'
            obtain ⟨_, er⟩ := foldRes_inv Fresh _ (fun st j st' hq hw'' => walk_fresh c P idom fuel j r2.2.1 st st' hq hw'') _ _ _ fj hw'
            obtain ⟨hjn, hj0, hji⟩ := hl j List.mem_cons_self
            have hmj : r2.2.1 = insOf V c P idom j := by
              rw [insOf_succ V c P idom j hj0 (hlt j hj0 hjn), hji]; exact hout'
            obtain ⟨d1, r1⟩ := ih j r2.2.1 sa s1' hfa hwa h1' (Agrees.of_ext er hab) hmj
            obtain ⟨d2, r2'⟩ := ihl (fun j' hj' => hl j' (List.mem_cons_of_mem _ hj')) s1' sb fj wj hw' hab
            exact ⟨d1 ++ d2, r1.trans r2'⟩
          · cases hw'
          · cases hw'
      obtain ⟨d, hd⟩ := kids _ (fun j hj => (mem_kidsOf _ _ _ _).mp hj) _ _ f3 w3 hw ha
      exact ⟨[(i, r2.2.2)] ++ d, hblock.trans hd⟩

-- ---------------------------------------------------------------------------- part 3: every site is numbered once

/-- the block a site belongs to -/
def blk : Site → Option Nat
  | .param _ => none
  | .phi i _ => some i
  | .def_ i _ => some i
  | .imp i _ => some i

/-- `x` is in the subtree of `i` of the dominator tree -/
inductive Anc (idom : Nat → Nat) (i : Nat) : Nat → Prop
  | refl : Anc idom i i
  | step (x : Nat) : idom x < x → Anc idom i (idom x) → Anc idom i x

theorem anc_le {idom : Nat → Nat} {i x : Nat} (h : Anc idom i x) : i ≤ x := by
  induction h with
  | refl => exact Nat.le_refl _
  | step x hlt _ ih => omega

theorem anc_kid {idom : Nat → Nat} {i j x : Nat} (hji : idom j = i) (hlt : idom j < j) (h : Anc idom j x) : Anc idom i x := by
  induction h with
  | refl => exact .step j hlt (by rw [hji]; exact .refl)
  | step x hx _ ih => exact .step x hx ih

/-- the subtrees of two different children are disjoint -/
theorem anc_disjoint {idom : Nat → Nat} {i j₁ j₂ x : Nat} (h₁ : idom j₁ = i) (l₁ : idom j₁ < j₁) (h₂ : idom j₂ = i) (l₂ : idom j₂ < j₂)
    (hne : j₁ ≠ j₂) (a₁ : Anc idom j₁ x) (a₂ : Anc idom j₂ x) : False := by
  induction a₁ with
  | refl =>
    cases a₂ with
    | refl => exact hne rfl
    | step _ _ h => rw [h₁] at h; have := anc_le h; omega
  | step x hx a ih =>
    cases a₂ with
    | refl => rw [h₂] at a; have := anc_le a; omega
    | step _ _ h => exact ih h

def sites (l : List Entry) : List Site := l.map (·.site)

theorem sites_nodup_append (a b : List Entry) (ha : (sites a).Nodup) (hb : (sites b).Nodup)
    (hd : ∀ x, x ∈ a → ∀ y, y ∈ b → x.site ≠ y.site) : (sites (a ++ b)).Nodup := by
  unfold sites at *
  rw [List.map_append, List.nodup_append]
  refine ⟨ha, hb, ?_⟩
  intro s hs t ht
  obtain ⟨x, hx, rfl⟩ := List.mem_map.mp hs
  obtain ⟨y, hy, rfl⟩ := List.mem_map.mp ht
  exact hd x hx y hy

theorem walkPhis_sites (i : Nat) : ∀ (vs : List Var) (st : St) (m : VMap),
    ∃ ext, (walkPhis i st m vs).1.log = st.log ++ ext ∧ sites ext = vs.map (Site.phi i) := by
  intro vs
  induction vs with
  | nil => intro st m; exact ⟨[], by simp [walkPhis], rfl⟩
  | cons v rest ih =>
    intro st m
    simp only [walkPhis]
    obtain ⟨ext, h1, h2⟩ := ih (alloc st (.phi i v) v) (m.set v (fresh st.glob v))
    refine ⟨⟨.phi i v, v, fresh st.glob v⟩ :: ext, ?_, ?_⟩
    · rw [h1]; simp [alloc]
    · simp only [sites, List.map_cons] at h2 ⊢; rw [h2]

theorem walkStmt_sites (i k : Nat) (st : St) (m : VMap) (s : PStmt) (r : St × VMap × Stmt) (hw : walkStmt i k st m s = some r) :
    ∃ ext, r.1.log = st.log ++ ext ∧ (sites ext).Nodup ∧ ∀ e, e ∈ ext → e.site = .def_ i k ∨ e.site = .imp i k := by
  unfold walkStmt at hw
  split at hw
  · cases hw
  · have hi : ∃ e1, (impStep i k st m s).1.log = st.log ++ e1 ∧ (e1 = [] ∨ ∃ v n, e1 = [⟨.imp i k, v, n⟩]) := by
      unfold impStep
      split
      · split
        · exact ⟨[], by simp, Or.inl rfl⟩
        · exact ⟨[_], rfl, Or.inr ⟨_, _, rfl⟩⟩
      · exact ⟨[], by simp, Or.inl rfl⟩
    obtain ⟨e1, h1, h1'⟩ := hi
    split at hw
    · cases hw
      rename_i v _
      refine ⟨e1 ++ [⟨.def_ i k, v, fresh (impStep i k st m s).1.glob v⟩], by simp [alloc, h1], ?_, ?_⟩
      · rcases h1' with h | ⟨w, n, h⟩ <;> subst h <;> simp [sites]
      · intro e he
        rcases List.mem_append.mp he with h | h
        · rcases h1' with h' | ⟨w, n, h'⟩
          · subst h'; cases h
          · subst h'; simp only [List.mem_singleton] at h; subst h; exact Or.inr rfl
        · simp only [List.mem_singleton] at h; subst h; exact Or.inl rfl
    · cases hw
      refine ⟨e1, h1, ?_, ?_⟩
      · rcases h1' with h | ⟨w, n, h⟩ <;> subst h <;> simp [sites]
      · intro e he
        rcases h1' with h' | ⟨w, n, h'⟩
        · subst h'; cases he
        · subst h'; simp only [List.mem_singleton] at he; subst he; exact Or.inr rfl

theorem walkStmts_sites (i : Nat) : ∀ (ss : List PStmt) (k : Nat) (st : St) (m : VMap) (r : St × VMap × List Stmt),
    walkStmts i k st m ss = some r →
    ∃ ext, r.1.log = st.log ++ ext ∧ (sites ext).Nodup ∧ ∀ e, e ∈ ext → ∃ k', k ≤ k' ∧ (e.site = .def_ i k' ∨ e.site = .imp i k') := by
  intro ss
  induction ss with
  | nil =>
    intro k st m r hw
    simp only [walkStmts] at hw; cases hw
    exact ⟨[], by simp, List.nodup_nil, fun e he => (List.not_mem_nil he).elim⟩
  | cons s rest ih =>
    intro k st m r hw
    simp only [walkStmts] at hw
    split at hw
    · cases hw
    · rename_i r1 h1
      split at hw
      · cases hw
      · rename_i r2 h2
        cases hw
        obtain ⟨x1, a1, a2, a3⟩ := walkStmt_sites i k st m s r1 h1
        obtain ⟨x2, b1, b2, b3⟩ := ih (k + 1) r1.1 r1.2.1 r2 h2
        refine ⟨x1 ++ x2, by simp only; rw [b1, a1, List.append_assoc], sites_nodup_append x1 x2 a2 b2 ?_, ?_⟩
        · intro x hx y hy heq
          obtain ⟨k', hk', hy'⟩ := b3 y hy
          rcases a3 x hx with h | h <;> rcases hy' with h' | h' <;> rw [h, h'] at heq <;> simp at heq <;> omega
        · intro e he
          rcases List.mem_append.mp he with h | h
          · exact ⟨k, Nat.le_refl _, a3 e h⟩
          · obtain ⟨k', hk', h'⟩ := b3 e h
            exact ⟨k', by omega, h'⟩

/-- **every site is numbered once**: the walk of the subtree of `i` logs pairwise different sites, all of blocks of
    that subtree -/
theorem walk_sites (c : PCfg) (P : Phis) (idom : Nat → Nat) (hP : ∀ i, (P i).Nodup)
    (hlt : ∀ j, 0 < j → j < c.blocks.length → idom j < j) : ∀ (fuel i : Nat) (m : VMap) (st st' : St),
    walk c P idom fuel i m st = .ok st' →
    ∃ ext, st'.log = st.log ++ ext ∧ (sites ext).Nodup ∧ ∀ e, e ∈ ext → ∃ x, blk e.site = some x ∧ Anc idom i x := by
  intro fuel
  induction fuel with
  | zero => intro i m st st' hw; simp only [walk] at hw; cases hw
  | succ fuel ih =>
    intro i m st st' hw
    simp only [walk] at hw
    split at hw
    · cases hw
    · rename_i r2 h2
      obtain ⟨x1, a1, a2⟩ := walkPhis_sites i (P i) st m
      obtain ⟨x2, b1, b2, b3⟩ := walkStmts_sites i _ 0 _ _ r2 h2
      -- the children
      have kids : ∀ (l : List Nat), l.Nodup → (∀ j, j ∈ l → j < c.blocks.length ∧ 0 < j ∧ idom j = i) → ∀ (sa sb : St),
          foldRes (fun st j => walk c P idom fuel j r2.2.1 st) l sa = .ok sb →
          ∃ ext, sb.log = sa.log ++ ext ∧ (sites ext).Nodup ∧ ∀ e, e ∈ ext → ∃ x j, j ∈ l ∧ blk e.site = some x ∧ Anc idom j x := by
        intro l
        induction l with
        | nil =>
          intro _ _ sa sb hw'
          simp only [foldRes] at hw'; cases hw'
          exact ⟨[], by simp, List.nodup_nil, fun e he => (List.not_mem_nil he).elim⟩
        | cons j rest ihl =>
          intro hnd hl sa sb hw'
          simp only [foldRes] at hw'
          split at hw'
          · rename_i s1' h1'
            obtain ⟨y1, c1, c2, c3⟩ := ih j r2.2.1 sa s1' h1'
            obtain ⟨y2, d1, d2, d3⟩ := ihl (List.nodup_cons.mp hnd).2 (fun j' hj' => hl j' (List.mem_cons_of_mem _ hj')) s1' sb hw'
            refine ⟨y1 ++ y2, by rw [d1, c1, List.append_assoc], sites_nodup_append y1 y2 c2 d2 ?_, ?_⟩
            · intro u hu w hw'' heq
              obtain ⟨xu, hxu, au⟩ := c3 u hu
              obtain ⟨xw, j', hj', hxw, aw⟩ := d3 w hw''
              rw [heq, hxw] at hxu
              cases hxu
              obtain ⟨jn, j0, ji⟩ := hl j List.mem_cons_self
              obtain ⟨jn', j0', ji'⟩ := hl j' (List.mem_cons_of_mem _ hj')
              have hne : j ≠ j' := by
                intro h; subst h; exact (List.nodup_cons.mp hnd).1 hj'
              exact anc_disjoint ji (hlt j j0 jn) ji' (hlt j' j0' jn') hne au aw
            · intro e he
              rcases List.mem_append.mp he with h | h
              · obtain ⟨x, hx, ax⟩ := c3 e h
                exact ⟨x, j, List.mem_cons_self, hx, ax⟩
              · obtain ⟨x, j', hj', hx, ax⟩ := d3 e h
                exact ⟨x, j', List.mem_cons_of_mem _ hj', hx, ax⟩
          · cases hw'
          · cases hw'
      have hkn : (kidsOf c.blocks.length idom i).Nodup := by
        unfold kidsOf; exact List.Pairwise.filter _ List.nodup_range
      obtain ⟨x3, e1, e2, e3⟩ := kids _ hkn (fun j hj => (mem_kidsOf _ _ _ _).mp hj) _ _ hw
      simp only at e1
      have hx1 : ∀ e, e ∈ x1 → ∃ v, e.site = .phi i v := by
        intro e he
        have : e.site ∈ sites x1 := List.mem_map.mpr ⟨e, he, rfl⟩
        rw [a2] at this
        obtain ⟨v, _, hv⟩ := List.mem_map.mp this
        exact ⟨v, hv.symm⟩
      have hx1n : (sites x1).Nodup := by
        rw [a2]
        exact List.pairwise_map.mpr (List.Pairwise.imp (fun {a b} (h : a ≠ b) (h' : Site.phi i a = Site.phi i b) => h (by cases h'; rfl)) (hP i))
      have h12 : (sites (x1 ++ x2)).Nodup := by
        apply sites_nodup_append x1 x2 hx1n b2
        intro u hu w hw' heq
        obtain ⟨v, hv⟩ := hx1 u hu
        obtain ⟨k', _, hk'⟩ := b3 w hw'
        rw [hv] at heq
        rcases hk' with h | h <;> rw [h] at heq <;> cases heq
      have hblk : ∀ e, e ∈ x1 ++ x2 → blk e.site = some i := by
        intro e he
        rcases List.mem_append.mp he with h | h
        · obtain ⟨v, hv⟩ := hx1 e h; rw [hv]; rfl
        · obtain ⟨k', _, hk'⟩ := b3 e h
          rcases hk' with h' | h' <;> rw [h'] <;> rfl
      refine ⟨(x1 ++ x2) ++ x3, by rw [e1, b1, a1]; simp [List.append_assoc], sites_nodup_append _ _ h12 e2 ?_, ?_⟩
      · intro u hu w hw' heq
        have h1 := hblk u hu
        obtain ⟨x, j, hj, hx, ax⟩ := e3 w hw'
        rw [heq, hx] at h1
        cases h1
        obtain ⟨jn, j0, ji⟩ := (mem_kidsOf _ _ _ _).mp hj
        have := anc_le ax
        have := hlt j j0 jn
        omega
      · intro e he
        rcases List.mem_append.mp he with h | h
        · exact ⟨i, hblk e h, .refl⟩
        · obtain ⟨x, j, hj, hx, ax⟩ := e3 e h
          obtain ⟨jn, j0, ji⟩ := (mem_kidsOf _ _ _ _).mp hj
          exact ⟨x, hx, anc_kid ji (hlt j j0 jn) ax⟩

-- ---------------------------------------------------------------------------- part 4: the whole conversion

theorem initParams_same : ∀ (vs : List Var) (st : St) (m : VMap), Same st (initParams st m vs).1 := by
  intro vs
  induction vs with
  | nil => intro st m; exact Same.refl _
  | cons v rest ih => intro st m; simp only [initParams]; exact (alloc_same _ _ _).trans (ih _ _)

/-- `Environment::new`: distinct parameters all get version 0 -/
theorem initParams_spec : ∀ (vs : List Var) (st : St) (m : VMap), vs.Nodup → (∀ v, v ∈ vs → st.glob v = none) →
    ∃ ext, (initParams st m vs).1.log = st.log ++ ext ∧ sites ext = vs.map Site.param ∧ (∀ e, e ∈ ext → e.ver = 0) ∧
      (initParams st m vs).2 = fun w => if vs.contains w then some 0 else m w := by
  intro vs
  induction vs with
  | nil => intro st m _ _; exact ⟨[], by simp [initParams], rfl, fun e he => (List.not_mem_nil he).elim, by simp [initParams]⟩
  | cons v rest ih =>
    intro st m hnd hg
    simp only [initParams]
    have hv0 : fresh st.glob v = 0 := by unfold fresh; rw [hg v List.mem_cons_self]
    obtain ⟨hvn, hrn⟩ := List.nodup_cons.mp hnd
    obtain ⟨ext, h1, h2, h3, h4⟩ := ih (alloc st (.param v) v) (m.set v (fresh st.glob v)) hrn (by
      intro w hw
      simp only [alloc]
      rw [set_other _ _ _ _ (by intro h; subst h; exact hvn hw)]
      exact hg w (List.mem_cons_of_mem _ hw))
    refine ⟨⟨.param v, v, fresh st.glob v⟩ :: ext, by rw [h1]; simp [alloc], ?_, ?_, ?_⟩
    · simp only [sites, List.map_cons] at h2 ⊢; rw [h2]
    · intro e he
      rcases List.mem_cons.mp he with h | h
      · subst h; exact hv0
      · exact h3 e h
    · rw [h4, hv0]
      funext w
      by_cases hw : w = v
      · subst hw
        have : rest.contains w = false := by simpa using hvn
        simp [this, VMap.set]
      · simp only [List.contains_cons]
        have : (w == v) = false := by simpa using hw
        simp [this, VMap.set, hw]

/-- the entry of a parameter site is an entry for that parameter -/
theorem initParams_vars : ∀ (vs : List Var) (st : St) (m : VMap) (e : Entry), e ∈ (initParams st m vs).1.log →
    (∀ e', e' ∈ st.log → ∀ v, e'.site = .param v → e'.var = v) → ∀ v, e.site = .param v → e.var = v := by
  intro vs
  induction vs with
  | nil => intro st m e he h v hv; exact h e he v hv
  | cons w rest ih =>
    intro st m e he h v hv
    simp only [initParams] at he
    refine ih _ _ e he ?_ v hv
    intro e' he' v' hv'
    simp only [alloc, List.mem_append, List.mem_singleton] at he'
    rcases he' with h' | h'
    · exact h e' h' v' hv'
    · subst h'; simp only [Site.param.injEq] at hv'; exact hv'

theorem verOf_mem : ∀ (log : List Entry) (e : Entry), (sites log).Nodup → e ∈ log → verOf log e.site = e.ver := by
  intro log
  induction log with
  | nil => intro e _ he; cases he
  | cons x rest ih =>
    intro e hnd he
    simp only [sites, List.map_cons] at hnd
    obtain ⟨hx, hr⟩ := List.nodup_cons.mp hnd
    unfold verOf
    simp only [List.find?_cons]
    by_cases hs : x.site = e.site
    · have : (x.site == e.site) = true := by simpa using hs
      simp only [this]
      rcases List.mem_cons.mp he with h | h
      · rw [h]
      · exfalso; apply hx; rw [hs]; exact List.mem_map.mpr ⟨e, h, rfl⟩
    · have : (x.site == e.site) = false := by simpa using hs
      simp only [this]
      rcases List.mem_cons.mp he with h | h
      · exact absurd (by rw [h]) hs
      · exact ih e hr h

/-- when every site was numbered once and the parameters got version 0, the numbering read off the log agrees with it -/
theorem agrees_toV (log : List Entry) (hnd : (sites log).Nodup) (hp : ∀ e, e ∈ log → ∀ v, e.site = .param v → e.ver = 0) :
    Agrees (toV log) log := by
  intro e he
  have := verOf_mem log e hnd he
  cases hs : e.site with
  | param v => simp only [siteVer]; exact (hp e he v hs).symm
  | phi i v => rw [hs] at this; exact this
  | def_ i k => rw [hs] at this; exact this
  | imp i k => rw [hs] at this; exact this

/-- what the final state of the conversion is, seen through the numbering its own counters produced -/
structure RunSpec (V : Versions) (c : PCfg) (P : Phis) (idom : Nat → Nat) (st : St) : Prop where
  agrees : Agrees V st.log
  good : ∀ e, e ∈ st.done → renameStmts V e.1 0 (phiMap V P e.1 (insOf V c P idom e.1)) (c.block e.1).stmts = some e.2
  push : ∀ e, e ∈ st.done → ∀ s, s ∈ (c.block e.1).succs → ∀ v n, outOfB V c P idom e.1 v = some n → (v, n) ∈ st.args s v
  only : ∀ s v a, a ∈ st.args s v →
    ∃ e, e ∈ st.done ∧ s ∈ (c.block e.1).succs ∧ ∃ n, outOfB V c P idom e.1 v = some n ∧ a = (v, n)

theorem run_spec (c : PCfg) (P : Phis) (idom : Nat → Nat) (hP : ∀ i, (P i).Nodup)
    (hlt : ∀ j, 0 < j → j < c.blocks.length → idom j < j) (hpar : c.params.Nodup) (st : St) (h : run c P idom = .ok st) :
    RunSpec (toV st.log) c P idom st ∧ (sites st.log).Nodup := by
  unfold run at h
  simp only at h
  obtain ⟨ext0, i1, i2, i3, i4⟩ := initParams_spec c.params st0 (fun _ => none) hpar (fun _ _ => rfl)
  obtain ⟨f0, _⟩ := initParams_fresh c.params st0 (fun _ => none) st0_fresh
  have s0 := initParams_same c.params st0 (fun _ => none)
  obtain ⟨ext, w1, w2, w3⟩ := walk_sites c P idom hP hlt _ 0 _ _ st h
  have hlog : st.log = ext0 ++ ext := by rw [w1, i1]; simp [st0]
  have hnd : (sites st.log).Nodup := by
    rw [hlog]
    apply sites_nodup_append ext0 ext _ w2
    · intro x hx y hy heq
      have hxs : x.site ∈ sites ext0 := List.mem_map.mpr ⟨x, hx, rfl⟩
      rw [i2] at hxs
      obtain ⟨v, _, hv⟩ := List.mem_map.mp hxs
      obtain ⟨b, hb, _⟩ := w3 y hy
      rw [← heq, ← hv] at hb
      cases hb
    · rw [i2]
      exact List.pairwise_map.mpr (List.Pairwise.imp (fun {a b} (h : a ≠ b) (h' : Site.param a = Site.param b) => h (by cases h'; rfl)) hpar)
  have hp0 : ∀ e, e ∈ st.log → ∀ v, e.site = .param v → e.ver = 0 := by
    intro e he v hv
    rw [hlog] at he
    rcases List.mem_append.mp he with h' | h'
    · exact i3 e h'
    · obtain ⟨b, hb, _⟩ := w3 e h'
      rw [hv] at hb; cases hb
  have hag := agrees_toV st.log hnd hp0
  have hw0 : ArgsWf (initParams st0 (fun _ => none) c.params).1 := by
    intro s v a ha
    rw [s0.2] at ha
    cases ha
  have hm0 : (initParams st0 (fun _ => none) c.params).2 = insOf (toV st.log) c P idom 0 := by
    rw [insOf_zero, i4]; rfl
  obtain ⟨d, hd⟩ := walk_ref (toV st.log) c P idom hlt _ 0 _ _ st f0 hw0 h hag hm0
  have hdone : st.done = d := by rw [hd.done, s0.1]; rfl
  refine ⟨⟨hag, ?_, ?_, ?_⟩, hnd⟩
  · intro e he; rw [hdone] at he; exact hd.good e he
  · intro e he; rw [hdone] at he; exact hd.push e he
  · intro s v a ha
    rcases hd.only s v a ha with h' | h'
    · rw [s0.2] at h'; cases h'
    · rw [hdone]; exact h'

-- ---------------------------------------------------------------------------- part 5: the order of phi arguments does not matter

/-- two statements that differ at most in the order (and repetition) of the arguments of a phi -/
def SimStmt (s s' : Stmt) : Prop :=
  s.isPhi = s'.isPhi ∧ s.target = s'.target ∧ s.implicit = s'.implicit ∧ (s.isPhi = false → s.reads = s'.reads) ∧
    ∀ x, x ∈ s.reads ↔ x ∈ s'.reads

inductive Sim2 : List Stmt → List Stmt → Prop
  | nil : Sim2 [] []
  | cons {s s' : Stmt} {l l' : List Stmt} : SimStmt s s' → Sim2 l l' → Sim2 (s :: l) (s' :: l')

structure SimCfg (c c' : Cfg) : Prop where
  params : c.params = c'.params
  len : c.blocks.length = c'.blocks.length
  blocks : ∀ i, (c.block i).preds = (c'.block i).preds ∧ (c.block i).succs = (c'.block i).succs ∧
    Sim2 (c.block i).stmts (c'.block i).stmts

theorem SimStmt.refl (s : Stmt) : SimStmt s s := ⟨rfl, rfl, rfl, fun _ => rfl, fun _ => Iff.rfl⟩
theorem Sim2.refl : ∀ (l : List Stmt), Sim2 l l
  | [] => .nil
  | s :: l => .cons (SimStmt.refl s) (Sim2.refl l)

theorem Sim2.append {a a' b b' : List Stmt} (h1 : Sim2 a a') (h2 : Sim2 b b') : Sim2 (a ++ b) (a' ++ b') := by
  induction h1 with
  | nil => exact h2
  | cons hs _ ih => exact .cons hs ih

theorem sim_mem {l l' : List Stmt} (h : Sim2 l l') : ∀ s, s ∈ l → ∃ s', s' ∈ l' ∧ SimStmt s s' := by
  induction h with
  | nil => intro s hs; cases hs
  | cons hs _ ih =>
    intro s hm
    rcases List.mem_cons.mp hm with e | m
    · subst e; exact ⟨_, List.mem_cons_self, hs⟩
    · obtain ⟨s', h1, h2⟩ := ih s m
      exact ⟨s', List.mem_cons_of_mem _ h1, h2⟩

theorem preStmt_sim {s s' : Stmt} (h : SimStmt s s') (m : VMap) : preStmt m s = preStmt m s' := by
  unfold preStmt; rw [h.2.2.1]

theorem execStmt_sim {s s' : Stmt} (h : SimStmt s s') (m : VMap) : execStmt m s = execStmt m s' := by
  unfold execStmt; rw [preStmt_sim h, h.2.1]

theorem execStmts_sim {l l' : List Stmt} (h : Sim2 l l') : ∀ m, execStmts m l = execStmts m l' := by
  induction h with
  | nil => intro m; rfl
  | cons hs _ ih =>
    intro m
    simp only [execStmts, List.foldl_cons] at ih ⊢
    rw [execStmt_sim hs]; exact ih _

theorem readsOk_sim {l l' : List Stmt} (h : Sim2 l l') : ∀ m, readsOk m l = readsOk m l' := by
  induction h with
  | nil => intro m; rfl
  | cons hs _ ih =>
    intro m
    simp only [readsOk]
    rw [execStmt_sim hs, ih, preStmt_sim hs, hs.1]
    rename_i s s' _ _ _
    cases hp : s'.isPhi with
    | true => simp
    | false =>
      have : s.reads = s'.reads := hs.2.2.2.1 (by rw [hs.1]; exact hp)
      rw [this]

theorem allNotPhi_sim {l l' : List Stmt} (h : Sim2 l l') : l.all (fun s => !s.isPhi) = l'.all (fun s => !s.isPhi) := by
  induction h with
  | nil => rfl
  | cons hs _ ih => simp only [List.all_cons]; rw [ih, hs.1]

theorem phiPrefixL_sim {l l' : List Stmt} (h : Sim2 l l') : phiPrefixL l = phiPrefixL l' := by
  unfold phiPrefixL
  induction h with
  | nil => rfl
  | cons hs hl ih =>
    rename_i s s' l1 l1'
    simp only [List.dropWhile_cons]
    rw [hs.1]
    cases s'.isPhi with
    | true => simpa using ih
    | false =>
      simp only [Bool.false_eq_true, if_false, List.all_cons]
      rw [allNotPhi_sim hl, hs.1]

theorem phiFor_sim {b b' : Block} (h : Sim2 b.stmts b'.stmts) (v : Var) :
    (phiFor b v = none → phiFor b' v = none) ∧
    (∀ a, phiFor b v = some a → ∃ a', phiFor b' v = some a' ∧ ∀ x, x ∈ a ↔ x ∈ a') := by
  unfold phiFor
  generalize b.stmts = l at h
  generalize b'.stmts = l' at h
  induction h with
  | nil => exact ⟨fun _ => rfl, fun a ha => by simp at ha⟩
  | @cons s s' l1 l1' hs _ ih =>
    simp only [List.find?_cons]
    rw [hs.1, hs.2.1]
    cases hc : (s'.isPhi && match s'.target with | some (w, _) => w == v | none => false) with
    | true =>
      simp only [Option.map_some]
      refine ⟨fun h' => ?_, fun a ha => ⟨s'.reads, rfl, ?_⟩⟩
      · cases h'
      · cases ha; exact hs.2.2.2.2
    | false => exact ih

/-- the certificate conditions do not depend on the order of phi arguments -/
theorem checked_sim (c c' : Cfg) (vars : List Var) (ins : Nat → VMap) (hs : SimCfg c c') (h : Checked c' vars ins) :
    Checked c vars ins := by
  have hout : ∀ p, outOf c ins p = outOf c' ins p := fun p => by
    unfold outOf; exact execStmts_sim (hs.blocks p).2.2 _
  refine ⟨?_, by rw [hs.params]; exact h.entry, ?_, ?_, ?_, by rw [hs.len]; exact h.pos⟩
  · intro b hb s hsm
    obtain ⟨i, hi, rfl⟩ : ∃ i, i < c.blocks.length ∧ c.block i = b := by
      obtain ⟨i, hi, he⟩ := List.getElem_of_mem hb
      refine ⟨i, hi, ?_⟩
      unfold Cfg.block
      rw [List.getD_eq_getElem?_getD, List.getElem?_eq_getElem hi]; simpa using he
    obtain ⟨s', hs', hss⟩ := sim_mem (hs.blocks i).2.2 s hsm
    obtain ⟨m1, m2, m3⟩ := h.mentions (c'.block i) (block_mem (by rw [← hs.len]; exact hi)) s' hs'
    refine ⟨?_, ?_, ?_⟩
    · rw [hss.2.1]; exact m1
    · intro r hr; exact m2 r ((hss.2.2.2.2 r).mp hr)
    · rw [hss.2.2.1]; exact m3
  · intro i hi
    obtain ⟨p1, p2⟩ := h.prefix_ i (by rw [← hs.len]; exact hi)
    refine ⟨by rw [phiPrefixL_sim (hs.blocks i).2.2]; exact p1, ?_⟩
    intro s hsm
    obtain ⟨s', hs', hss⟩ := sim_mem (hs.blocks i).2.2 s hsm
    intro hp
    have := p2 s' hs' (by rw [← hss.1]; exact hp)
    rw [hss.2.1, hss.2.2.1]; exact this
  · intro i hi p hp v hv
    have he := h.edge i (by rw [← hs.len]; exact hi) p (by rw [← (hs.blocks i).1]; exact hp) v hv
    obtain ⟨f1, f2⟩ := phiFor_sim (hs.blocks i).2.2 v
    rw [hout p]
    cases hpf : phiFor (c.block i) v with
    | none => rw [f1 hpf] at he; exact he
    | some a =>
      obtain ⟨a', ha', hiff⟩ := f2 a hpf
      rw [ha'] at he
      simp only
      cases ho : outOf c' ins p v with
      | none => trivial
      | some k => rw [ho] at he; exact (hiff _).mpr he
  · intro i hi
    rw [readsOk_sim (hs.blocks i).2.2]
    exact h.reads i (by rw [← hs.len]; exact hi)

-- ---------------------------------------------------------------------------- part 6: the conversion is `build` with the counters' numbering

theorem optAll_map_some {α : Type} : ∀ (l : List α), optAll (l.map some) = some l
  | [] => rfl
  | x :: rest => by simp only [List.map_cons, optAll, optAll_map_some rest]

theorem lookupDone_mem : ∀ (d : List (Nat × List Stmt)) (i : Nat) (ss : List Stmt), lookupDone d i = some ss → (i, ss) ∈ d := by
  intro d
  induction d with
  | nil => intro i ss h; simp [lookupDone] at h
  | cons x rest ih =>
    intro i ss h
    obtain ⟨j, js⟩ := x
    simp only [lookupDone] at h
    split at h
    · rename_i hj; cases h; subst hj; exact List.mem_cons_self
    · exact List.mem_cons_of_mem _ (ih i ss h)

/-- the block the walk produced -/
def walkBlock (c : PCfg) (P : Phis) (st : St) (i : Nat) (ss : List Stmt) : Block :=
  { stmts := (P i).map (fun v => { isPhi := true, target := some (v, verOf st.log (.phi i v)), reads := st.args i v, implicit := [] }) ++ ss,
    preds := (c.block i).preds, succs := (c.block i).succs }

theorem cfgOf_spec (c : PCfg) (P : Phis) (st : St) (c' : Cfg) (h : cfgOf c P st = some c') :
    c'.params = c.params ∧ c'.blocks.length = c.blocks.length ∧
    ∀ i, i < c.blocks.length → ∃ ss, lookupDone st.done i = some ss ∧ c'.block i = walkBlock c P st i ss := by
  unfold cfgOf at h
  split at h
  · cases h
  · rename_i bs hbs
    simp only [Option.some.injEq] at h; subst h
    have hspec := optAll_spec _ bs hbs
    have hlen : bs.length = c.blocks.length := by
      have := congrArg List.length hspec
      simp at this; exact this.symm
    refine ⟨rfl, hlen, ?_⟩
    intro i hi
    have hget := congrArg (fun l => l[i]?) hspec
    simp only [List.getElem?_map, List.getElem?_range hi, Option.map_some] at hget
    cases hr : lookupDone st.done i with
    | none => rw [hr] at hget; simp at hget; cases hb : bs[i]? <;> simp [hb] at hget
    | some ss =>
      rw [hr] at hget
      refine ⟨ss, rfl, ?_⟩
      simp only [Option.map_some] at hget
      cases hb : bs[i]? with
      | none => rw [hb] at hget; simp at hget
      | some B =>
        rw [hb] at hget; simp only [Option.map_some, Option.some.injEq] at hget
        unfold Cfg.block
        simp only [List.getD_eq_getElem?_getD, hb, Option.getD_some]
        exact hget.symm

theorem sim2_map {α : Type} (f g : α → Stmt) : ∀ (l : List α), (∀ x, x ∈ l → SimStmt (f x) (g x)) → Sim2 (l.map f) (l.map g)
  | [], _ => .nil
  | x :: rest, h => .cons (h x List.mem_cons_self) (sim2_map f g rest (fun y hy => h y (List.mem_cons_of_mem _ hy)))

/-- the edges of the CFG are recorded consistently on both sides (C12) -/
structure EdgesOk (c : PCfg) : Prop where
  succ_pred : ∀ x s, s ∈ (c.block x).succs → x ∈ (c.block s).preds
  pred_succ : ∀ i p, p ∈ (c.block i).preds → p < c.blocks.length ∧ i ∈ (c.block p).succs

/-- **the walk is the declarative construction with the numbering of its own counters**: the SSA form the walk
    produces is the one `SsaBuild.build` produces for `toV log`, up to the order of phi arguments -/
theorem run_build (c : PCfg) (P : Phis) (idom : Nat → Nat) (hP : ∀ i, (P i).Nodup)
    (hlt : ∀ j, 0 < j → j < c.blocks.length → idom j < j) (hpar : c.params.Nodup) (hedges : EdgesOk c)
    (st : St) (hrun : run c P idom = .ok st) (c' : Cfg) (hc : cfgOf c P st = some c') :
    ∃ c'', build (toV st.log) c P idom = some c'' ∧ SimCfg c' c'' := by
  obtain ⟨spec, _⟩ := run_spec c P idom hP hlt hpar st hrun
  obtain ⟨cp, cl, cb⟩ := cfgOf_spec c P st c' hc
  let V := toV st.log
  let ssOf : Nat → List Stmt := fun i => (lookupDone st.done i).getD []
  have hss : ∀ i, i < c.blocks.length → lookupDone st.done i = some (ssOf i) := by
    intro i hi
    obtain ⟨ss, h1, _⟩ := cb i hi
    simp only [ssOf, h1, Option.getD_some]
  have hren : ∀ i, i < c.blocks.length →
      renameStmts V i 0 (phiMap V P i (insOf V c P idom i)) (c.block i).stmts = some (ssOf i) := by
    intro i hi
    exact spec.good (i, ssOf i) (lookupDone_mem _ _ _ (hss i hi))
  let B : Nat → Block := fun i => { stmts := phiStmts V c P idom i ++ ssOf i, preds := (c.block i).preds, succs := (c.block i).succs }
  have hbuild : build V c P idom = some { params := c.params, blocks := (List.range c.blocks.length).map B } := by
    unfold build
    have : (List.range c.blocks.length).map (fun i =>
        (renameStmts V i 0 (phiMap V P i (insOf V c P idom i)) (c.block i).stmts).map (fun ss =>
          ({ stmts := phiStmts V c P idom i ++ ss, preds := (c.block i).preds, succs := (c.block i).succs } : Block))) =
        ((List.range c.blocks.length).map B).map some := by
      rw [List.map_map]
      apply List.map_congr_left
      intro i hi
      rw [hren i (List.mem_range.mp hi)]
      rfl
    rw [this, optAll_map_some]
  refine ⟨_, hbuild, ⟨cp, by rw [cl]; simp, ?_⟩⟩
  intro i
  by_cases hi : i < c.blocks.length
  · obtain ⟨ss, h1, h2⟩ := cb i hi
    have hssi : ss = ssOf i := by
      have := hss i hi; rw [h1] at this; exact Option.some.inj this
    have hB : ({ params := c.params, blocks := (List.range c.blocks.length).map B } : Cfg).block i = B i := by
      unfold Cfg.block
      simp [List.getD_eq_getElem?_getD, List.getElem?_range hi]
    rw [h2, hB]
    refine ⟨rfl, rfl, ?_⟩
    simp only [walkBlock, B, hssi]
    apply Sim2.append _ (Sim2.refl _)
    unfold phiStmts
    apply sim2_map
    intro v hv
    refine ⟨rfl, rfl, rfl, ?_, ?_⟩
    · intro h; cases h
    intro a
    simp only
    constructor
    · intro ha
      obtain ⟨e, he, hs, n, hn, hea⟩ := spec.only i v a ha
      rw [hea]
      exact phiArgs_contains V c P idom i e.1 v n (hedges.succ_pred e.1 i hs) hn
    · intro ha
      unfold phiArgs at ha
      rw [List.mem_eraseDups] at ha
      obtain ⟨p, hp, hpa⟩ := List.mem_filterMap.mp ha
      cases ho : outOfB V c P idom p v with
      | none => rw [ho] at hpa; cases hpa
      | some k =>
        rw [ho] at hpa
        simp only [Option.map_some, Option.some.injEq] at hpa
        rw [← hpa]
        obtain ⟨hpn, hsucc⟩ := hedges.pred_succ i p hp
        exact spec.push (p, ssOf p) (lookupDone_mem _ _ _ (hss p hpn)) i hsucc v k ho
  · have h1 : c'.block i = default := by
      unfold Cfg.block
      rw [List.getD_eq_getElem?_getD, List.getElem?_eq_none (by omega)]; rfl
    have h2 : ({ params := c.params, blocks := (List.range c.blocks.length).map B } : Cfg).block i = default := by
      unfold Cfg.block
      rw [List.getD_eq_getElem?_getD, List.getElem?_eq_none (by simp; omega)]; rfl
    rw [h1, h2]
    exact ⟨rfl, rfl, Sim2.nil⟩

-- ---------------------------------------------------------------------------- part 7: every definition has its own version

theorem walkStmt_logged (i k : Nat) (st : St) (m : VMap) (s : PStmt) (r : St × VMap × Stmt) (hw : walkStmt i k st m s = some r) :
    ∀ t, r.2.2.target = some t → (⟨.def_ i k, t.1, t.2⟩ : Entry) ∈ r.1.log := by
  unfold walkStmt at hw
  split at hw
  · cases hw
  · split at hw
    · cases hw
      intro t ht
      simp only [Option.some.injEq] at ht
      subst ht
      simp [alloc]
    · cases hw
      intro t ht
      cases ht

theorem walkStmts_logged (i : Nat) : ∀ (ss : List PStmt) (k : Nat) (st : St) (m : VMap) (r : St × VMap × List Stmt),
    Fresh st → walkStmts i k st m ss = some r →
    ∀ k' s, r.2.2[k']? = some s → ∀ t, s.target = some t → (⟨.def_ i (k + k'), t.1, t.2⟩ : Entry) ∈ r.1.log := by
  intro ss
  induction ss with
  | nil =>
    intro k st m r _ hw k' s hs
    simp only [walkStmts] at hw; cases hw
    simp at hs
  | cons s0 rest ih =>
    intro k st m r hf hw k' s hs t ht
    simp only [walkStmts] at hw
    split at hw
    · cases hw
    · rename_i r1 h1
      split at hw
      · cases hw
      · rename_i r2 h2
        cases hw
        obtain ⟨f1, _⟩ := walkStmt_fresh i k st m s0 r1 h1 hf
        obtain ⟨_, ⟨ext, e2⟩⟩ := walkStmts_fresh i rest (k + 1) r1.1 r1.2.1 r2 h2 f1
        cases k' with
        | zero =>
          simp only [List.getElem?_cons_zero, Option.some.injEq] at hs
          subst hs
          simp only [Nat.add_zero]
          rw [e2]
          exact List.mem_append_left _ (walkStmt_logged i k st m s0 r1 h1 t ht)
        | succ k'' =>
          simp only [List.getElem?_cons_succ] at hs
          have := ih (k + 1) r1.1 r1.2.1 r2 f1 h2 k'' s hs t ht
          have hk : k + 1 + k'' = k + (k'' + 1) := by omega
          rw [hk] at this
          exact this

theorem walkPhis_logged (i : Nat) : ∀ (vs : List Var) (st : St) (m : VMap),
    ∀ v, v ∈ vs → ∃ en, en ∈ (walkPhis i st m vs).1.log ∧ en.site = .phi i v ∧ en.var = v := by
  intro vs
  induction vs with
  | nil => intro st m v hv; cases hv
  | cons w rest ih =>
    intro st m v hv
    simp only [walkPhis]
    rcases List.mem_cons.mp hv with h | h
    · subst h
      obtain ⟨ext, he, _⟩ := walkPhis_sites i rest (alloc st (.phi i v) v) (m.set v (fresh st.glob v))
      refine ⟨⟨.phi i v, v, fresh st.glob v⟩, ?_, rfl, rfl⟩
      rw [he]
      exact List.mem_append_left _ (by simp [alloc])
    · exact ih _ _ v h

/-- the definitions of every finished block are in the log, under the site of their statement -/
def Logged (P : Phis) (st : St) : Prop := ∀ e, e ∈ st.done →
  (∀ v, v ∈ P e.1 → ∃ en, en ∈ st.log ∧ en.site = .phi e.1 v ∧ en.var = v) ∧
  (∀ k s, e.2[k]? = some s → ∀ t, s.target = some t → (⟨.def_ e.1 k, t.1, t.2⟩ : Entry) ∈ st.log)

theorem logged_ext {P : Phis} {st st' : St} (h : Logged P st) (he : LogExt st st') (hd : st'.done = st.done) : Logged P st' := by
  obtain ⟨ext, hx⟩ := he
  intro e hm
  rw [hd] at hm
  obtain ⟨h1, h2⟩ := h e hm
  refine ⟨?_, ?_⟩
  · intro v hv
    obtain ⟨en, a, b, c⟩ := h1 v hv
    exact ⟨en, by rw [hx]; exact List.mem_append_left _ a, b, c⟩
  · intro k s hs t ht
    rw [hx]; exact List.mem_append_left _ (h2 k s hs t ht)

theorem walk_logged (c : PCfg) (P : Phis) (idom : Nat → Nat) : ∀ (fuel i : Nat) (m : VMap) (st st' : St),
    Fresh st → Logged P st → walk c P idom fuel i m st = .ok st' → Logged P st' := by
  intro fuel
  induction fuel with
  | zero => intro i m st st' _ _ hw; simp only [walk] at hw; cases hw
  | succ fuel ih =>
    intro i m st st' hf hl hw
    simp only [walk] at hw
    split at hw
    · cases hw
    · rename_i r2 h2
      obtain ⟨f1, e1⟩ := walkPhis_fresh i (P i) st m hf
      obtain ⟨f2, e2⟩ := walkStmts_fresh i _ 0 _ _ r2 h2 f1
      have s1 := (walkPhis_same i (P i) st m).trans (walkStmts_same i _ 0 _ _ r2 h2)
      have f3 : Fresh { r2.1 with done := r2.1.done ++ [(i, r2.2.2)], args := pushSuccs (c.block i).succs r2.2.1 r2.1.args } :=
        ⟨f2.counter, f2.nodup⟩
      have l2 : Logged P r2.1 := logged_ext hl (e1.trans e2) s1.1
      have l3 : Logged P { r2.1 with done := r2.1.done ++ [(i, r2.2.2)], args := pushSuccs (c.block i).succs r2.2.1 r2.1.args } := by
        intro e hm
        simp only at hm
        rcases List.mem_append.mp hm with h | h
        · exact l2 e h
        · simp only [List.mem_singleton] at h
          subst h
          refine ⟨?_, ?_⟩
          · intro v hv
            obtain ⟨en, a, b, c'⟩ := walkPhis_logged i (P i) st m v hv
            obtain ⟨ext, hx⟩ := e2
            exact ⟨en, by simp only; rw [hx]; exact List.mem_append_left _ a, b, c'⟩
          · intro k s hs t ht
            have := walkStmts_logged i _ 0 _ _ r2 f1 h2 k s hs t ht
            simpa using this
      exact (foldRes_inv' (fun st => Fresh st ∧ Logged P st) _
        (fun st j st' hq hw' => ⟨(walk_fresh c P idom fuel j r2.2.1 st st' hq.1 hw').1, ih j r2.2.1 st st' hq.1 hq.2 hw'⟩) _ _ _ ⟨f3, l3⟩ hw).2

theorem nodup_map_inj {α β : Type} (f : α → β) : ∀ (l : List α), (l.map f).Nodup → ∀ a b, a ∈ l → b ∈ l → f a = f b → a = b := by
  intro l
  induction l with
  | nil => intro _ a b ha; cases ha
  | cons x rest ih =>
    intro hnd a b ha hb hab
    simp only [List.map_cons] at hnd
    obtain ⟨hx, hr⟩ := List.nodup_cons.mp hnd
    rcases List.mem_cons.mp ha with e1 | m1 <;> rcases List.mem_cons.mp hb with e2 | m2
    · rw [e1, e2]
    · subst e1; exact absurd (List.mem_map.mpr ⟨b, m2, hab.symm⟩) hx
    · subst e2; exact absurd (List.mem_map.mpr ⟨a, m1, hab⟩) hx
    · exact ih hr a b m1 m2 hab

/-- the site of the statement at position `k` of the converted block `i` -/
def siteAt (P : Phis) (i k : Nat) : Site :=
  match (P i)[k]? with
  | some v => .phi i v
  | none => .def_ i (k - (P i).length)

theorem siteAt_inj (P : Phis) (hP : ∀ i, (P i).Nodup) (i k i' k' : Nat) (h : siteAt P i k = siteAt P i' k') : i = i' ∧ k = k' := by
  unfold siteAt at h
  cases h1 : (P i)[k]? with
  | some v =>
    cases h2 : (P i')[k']? with
    | some v' =>
      rw [h1, h2] at h
      simp only [Site.phi.injEq] at h
      obtain ⟨hi, hv⟩ := h
      subst hi; subst hv
      refine ⟨rfl, ?_⟩
      obtain ⟨hk, e1⟩ := List.getElem?_eq_some_iff.mp h1
      obtain ⟨hk', e2⟩ := List.getElem?_eq_some_iff.mp h2
      exact (List.getElem_inj (hP i)).mp (e1.trans e2.symm)
    | none => rw [h1, h2] at h; cases h
  | none =>
    cases h2 : (P i')[k']? with
    | some v' => rw [h1, h2] at h; cases h
    | none =>
      rw [h1, h2] at h
      simp only [Site.def_.injEq] at h
      obtain ⟨hi, hk⟩ := h
      subst hi
      have := List.getElem?_eq_none_iff.mp h1
      have := List.getElem?_eq_none_iff.mp h2
      exact ⟨rfl, by omega⟩

/-- every definition of the converted CFG got its version from its own call of `get_next_version` -/
theorem run_targets (c : PCfg) (P : Phis) (idom : Nat → Nat) (hP : ∀ i, (P i).Nodup)
    (hlt : ∀ j, 0 < j → j < c.blocks.length → idom j < j) (hpar : c.params.Nodup)
    (st : St) (hrun : run c P idom = .ok st) (c' : Cfg) (hc : cfgOf c P st = some c') :
    ∀ (i k : Nat) (s : Stmt) (t : VVar), i < c.blocks.length → (c'.block i).stmts[k]? = some s → s.target = some t →
      ∃ en, en ∈ st.log ∧ en.site = siteAt P i k ∧ en.var = t.1 ∧ en.ver = t.2 := by
  obtain ⟨_, hnd⟩ := run_spec c P idom hP hlt hpar st hrun
  obtain ⟨_, _, cb⟩ := cfgOf_spec c P st c' hc
  have hlog : Logged P st := by
    unfold run at hrun
    simp only at hrun
    obtain ⟨f0, _⟩ := initParams_fresh c.params st0 (fun _ => none) st0_fresh
    have s0 := initParams_same c.params st0 (fun _ => none)
    refine walk_logged c P idom _ 0 _ _ st f0 ?_ hrun
    intro e he
    rw [s0.1] at he
    cases he
  intro i k s t hi hs ht
  obtain ⟨ss, h1, h2⟩ := cb i hi
  obtain ⟨l1, l2⟩ := hlog (i, ss) (lookupDone_mem _ _ _ h1)
  rw [h2] at hs
  simp only [walkBlock] at hs
  by_cases hk : k < (P i).length
  · rw [List.getElem?_append_left (by simpa using hk)] at hs
    simp only [List.getElem?_map] at hs
    cases hv : (P i)[k]? with
    | none => rw [hv] at hs; cases hs
    | some v =>
      rw [hv] at hs
      simp only [Option.map_some, Option.some.injEq] at hs
      subst hs
      simp only [Option.some.injEq] at ht
      subst ht
      obtain ⟨en, a, b, c''⟩ := l1 v (List.mem_of_getElem? hv)
      refine ⟨en, a, by unfold siteAt; rw [hv]; exact b, c'', ?_⟩
      have := verOf_mem st.log en hnd a
      rw [b] at this
      exact this.symm
  · rw [List.getElem?_append_right (by simpa using Nat.le_of_not_lt hk)] at hs
    simp only [List.length_map] at hs
    have hv : (P i)[k]? = none := List.getElem?_eq_none_iff.mpr (Nat.le_of_not_lt hk)
    exact ⟨_, l2 _ s hs t ht, by unfold siteAt; rw [hv], rfl, rfl⟩

/-- **every versioned local has at most one defining statement**: two statements of the converted CFG that define the
    same versioned variable are the same statement; and no statement defines version 0 of a parameter -/
theorem run_unique (c : PCfg) (P : Phis) (idom : Nat → Nat) (hP : ∀ i, (P i).Nodup)
    (hlt : ∀ j, 0 < j → j < c.blocks.length → idom j < j) (hpar : c.params.Nodup)
    (st : St) (hrun : run c P idom = .ok st) (c' : Cfg) (hc : cfgOf c P st = some c') :
    (∀ (i k : Nat) (s : Stmt) (i' k' : Nat) (s' : Stmt) (t : VVar), i < c.blocks.length → i' < c.blocks.length →
      (c'.block i).stmts[k]? = some s → s.target = some t → (c'.block i').stmts[k']? = some s' → s'.target = some t →
      i = i' ∧ k = k') ∧
    (∀ (i k : Nat) (s : Stmt) (p : Var), i < c.blocks.length → (c'.block i).stmts[k]? = some s → s.target = some (p, 0) → p ∉ c.params) := by
  have hpairs : (st.log.map (fun (e : Entry) => (e.var, e.ver))).Nodup := run_fresh c P idom st hrun
  have htg := run_targets c P idom hP hlt hpar st hrun c' hc
  refine ⟨?_, ?_⟩
  · intro i k s i' k' s' t hi hi' hs ht hs' ht'
    obtain ⟨e1, a1, b1, c1, d1⟩ := htg i k s t hi hs ht
    obtain ⟨e2, a2, b2, c2, d2⟩ := htg i' k' s' t hi' hs' ht'
    have : e1 = e2 := nodup_map_inj (fun (e : Entry) => (e.var, e.ver)) st.log hpairs e1 e2 a1 a2 (by simp only [c1, d1, c2, d2])
    subst this
    exact siteAt_inj P hP i k i' k' (b1.symm.trans b2)
  · intro i k s p hi hs ht hp
    obtain ⟨e1, a1, b1, c1, d1⟩ := htg i k s (p, 0) hi hs ht
    -- the entry of the parameter
    unfold run at hrun
    simp only at hrun
    obtain ⟨ext0, i1, i2, i3, _⟩ := initParams_spec c.params st0 (fun _ => none) hpar (fun _ _ => rfl)
    obtain ⟨f0, _⟩ := initParams_fresh c.params st0 (fun _ => none) st0_fresh
    obtain ⟨_, ⟨ext, hx⟩⟩ := walk_fresh c P idom _ 0 _ _ st f0 hrun
    have hps : Site.param p ∈ sites ext0 := by rw [i2]; exact List.mem_map.mpr ⟨p, hp, rfl⟩
    obtain ⟨e0, m0, s0⟩ := List.mem_map.mp hps
    have hm0 : e0 ∈ st.log := by rw [hx, i1]; simp [st0, m0]
    -- it is an entry for `p` with version 0
    have hv0 : e0.var = p := by
      exact initParams_vars c.params st0 (fun _ => none) e0 (by rw [i1]; simp [st0, m0])
        (fun e' he' => by simp [st0] at he') p s0
    have : e0 = e1 := nodup_map_inj (fun (e : Entry) => (e.var, e.ver)) st.log hpairs e0 e1 hm0 a1 (by
      simp only [c1, d1, hv0, i3 e0 m0])
    subst this
    rw [s0] at b1
    unfold siteAt at b1
    split at b1 <;> cases b1

-- ---------------------------------------------------------------------------- part 8: the recursion depth

theorem foldRes_nofuel (f : St → Nat → Res St) : ∀ (l : List Nat), (∀ j, j ∈ l → ∀ st, f st j ≠ .fuel) → ∀ st, foldRes f l st ≠ .fuel := by
  intro l
  induction l with
  | nil => intro _ st h; simp [foldRes] at h
  | cons j rest ih =>
    intro hf st h
    simp only [foldRes] at h
    split at h
    · exact ih (fun j' hj' => hf j' (List.mem_cons_of_mem _ hj')) _ h
    · cases h
    · rename_i hj; exact hf j List.mem_cons_self st hj

/-- **the walk never runs out of fuel**: the recursion over the dominator tree is at most as deep as there are blocks -/
theorem walk_nofuel (c : PCfg) (P : Phis) (idom : Nat → Nat) (hlt : ∀ j, 0 < j → j < c.blocks.length → idom j < j) :
    ∀ (fuel i : Nat) (m : VMap) (st : St), c.blocks.length - i < fuel → walk c P idom fuel i m st ≠ .fuel := by
  intro fuel
  induction fuel with
  | zero => intro i m st h; omega
  | succ fuel ih =>
    intro i m st h hw
    simp only [walk] at hw
    split at hw
    · cases hw
    · rename_i r2 h2
      refine foldRes_nofuel _ _ ?_ _ hw
      intro j hj st'
      obtain ⟨jn, j0, ji⟩ := (mem_kidsOf _ _ _ _).mp hj
      have := hlt j j0 jn
      exact ih j r2.2.1 st' (by omega)

theorem run_nofuel (c : PCfg) (P : Phis) (idom : Nat → Nat) (hlt : ∀ j, 0 < j → j < c.blocks.length → idom j < j) :
    run c P idom ≠ .fuel := by
  unfold run
  exact walk_nofuel c P idom hlt _ 0 _ _ (by omega)

/-- the phi placement computed by the work list has no variable twice in a block -/
theorem insertPhis_rows (n : Nat) (allW : List Var) (df : Nat → List Nat) (written : Nat → List Var)
    (hdf : ∀ x j, j ∈ df x → j < n) (hwr : ∀ x v, v ∈ written x → v ∈ allW) :
    ∀ (fuel : Nat) (wl : List Nat) (P Pf : Phis), RowsOK n allW P → insertPhis df written fuel wl P = some Pf → RowsOK n allW Pf := by
  intro fuel
  induction fuel with
  | zero =>
    intro wl P Pf h hp
    simp only [insertPhis] at hp
    split at hp
    · cases hp; exact h
    · cases hp
  | succ f ih =>
    intro wl P Pf h hp
    simp only [insertPhis] at hp
    cases hl : wl.getLast? with
    | none => rw [hl] at hp; cases hp; exact h
    | some cur =>
      rw [hl] at hp
      simp only at hp
      have hW : ∀ v, v ∈ written cur ++ P cur → v ∈ allW := by
        intro v hv
        rcases List.mem_append.mp hv with h1 | h1
        · exact hwr cur v h1
        · exact h.sub cur v h1
      obtain ⟨r1, _⟩ := frontierFold_count n allW (written cur ++ P cur) hW (df cur) P wl.dropLast (hdf cur) h
      exact ih _ _ Pf r1 hp

-- ---------------------------------------------------------------------------- part 9: scopes

theorem frames_get_add (fs : Frames) (hne : fs ≠ []) (v : Var) (n : Nat) : (fs.add v n).get = (VMap.set fs.get v n) := by
  cases fs with
  | nil => exact absurd rfl hne
  | cons f rest =>
    funext w
    simp only [Frames.add, Frames.get, List.find?_cons, VMap.set]
    by_cases hw : w = v
    · subst hw; simp
    · have : (v == w) = false := by simpa using (fun h => hw h.symm)
      simp [this, hw]

/-- the operations of a subtree only touch the innermost block: the blocks below are unchanged, and the stack stays non-empty -/
theorem scopeOps_tail {f : Frames → Frames} (h : ScopeOps f) : ∀ (top : List (Var × Nat)) (rest : Frames),
    ∃ top', f (top :: rest) = top' :: rest := by
  induction h with
  | none => intro top rest; exact ⟨top, rfl⟩
  | add v n _ ih => intro top rest; exact ih ((v, n) :: top) rest
  | child _ _ ihf ihg =>
    intro top rest
    obtain ⟨t1, h1⟩ := ihf [] (top :: rest)
    simp only [Frames.push, Frames.pop, h1, List.tail_cons]
    exact ihg top rest

/-- **leaving a scope restores the environment**: after `add_variable_scope`, any visit of a subtree and
    `remove_variable_scope`, every lookup gives what it gave before — the version map a child starts from is the map at the end
    of its parent, whatever its elder siblings did (what `SsaWalk.walk` models by handing the map down) -/
theorem scope_restores {f : Frames → Frames} (h : ScopeOps f) (fs : Frames) : (f fs.push).pop = fs := by
  obtain ⟨t, ht⟩ := scopeOps_tail h [] fs
  simp only [Frames.push, Frames.pop, ht, List.tail_cons]

-- ---------------------------------------------------------------------------- part 10: the order of the phi statements of a block

/-- two states that differ at most in the order of the log -/
structure Eqv (a b : St) : Prop where
  glob : a.glob = b.glob
  log : a.log.Perm b.log
  done : a.done = b.done
  args : a.args = b.args

theorem Eqv.refl (a : St) : Eqv a a := ⟨rfl, List.Perm.refl _, rfl, rfl⟩
theorem Eqv.trans {a b c : St} (h1 : Eqv a b) (h2 : Eqv b c) : Eqv a c :=
  ⟨h1.glob.trans h2.glob, h1.log.trans h2.log, h1.done.trans h2.done, h1.args.trans h2.args⟩

theorem alloc_eqv {a b : St} (h : Eqv a b) (site : Site) (v : Var) : Eqv (alloc a site v) (alloc b site v) := by
  refine ⟨?_, ?_, h.done, h.args⟩
  · simp only [alloc, h.glob]
  · simp only [alloc, h.glob]
    exact List.Perm.append_right _ h.log

theorem impStep_eqv {a b : St} (h : Eqv a b) (i k : Nat) (m : VMap) (s : PStmt) :
    Eqv (impStep i k a m s).1 (impStep i k b m s).1 ∧ (impStep i k a m s).2 = (impStep i k b m s).2 := by
  unfold impStep
  split
  · split
    · exact ⟨h, rfl⟩
    · exact ⟨alloc_eqv h _ _, by simp only [h.glob]⟩
  · exact ⟨h, rfl⟩

theorem walkStmt_eqv {a b : St} (h : Eqv a b) (i k : Nat) (m : VMap) (s : PStmt) (r : St × VMap × Stmt)
    (hw : walkStmt i k a m s = some r) : ∃ r', walkStmt i k b m s = some r' ∧ Eqv r.1 r'.1 ∧ r.2 = r'.2 := by
  unfold walkStmt at hw ⊢
  obtain ⟨e1, e2⟩ := impStep_eqv h i k m s
  split at hw
  · cases hw
  · rename_i rs hrs
    simp only
    split at hw
    · cases hw
      rename_i v hv
      refine ⟨_, rfl, alloc_eqv e1 _ _, ?_⟩
      simp only [e1.glob, e2]
    · cases hw
      exact ⟨_, rfl, e1, by simp only [e2]⟩

theorem walkStmts_eqv (i : Nat) : ∀ (ss : List PStmt) (k : Nat) (a b : St) (m : VMap) (r : St × VMap × List Stmt),
    Eqv a b → walkStmts i k a m ss = some r → ∃ r', walkStmts i k b m ss = some r' ∧ Eqv r.1 r'.1 ∧ r.2 = r'.2 := by
  intro ss
  induction ss with
  | nil => intro k a b m r h hw; simp only [walkStmts] at hw ⊢; cases hw; exact ⟨_, rfl, h, rfl⟩
  | cons s rest ih =>
    intro k a b m r h hw
    simp only [walkStmts] at hw ⊢
    split at hw
    · cases hw
    · rename_i r1 h1
      split at hw
      · cases hw
      · rename_i r2 h2
        cases hw
        obtain ⟨r1', w1, e1, q1⟩ := walkStmt_eqv h i k m s r1 h1
        have hm : r1.2.1 = r1'.2.1 := by rw [q1]
        obtain ⟨r2', w2, e2, q2⟩ := ih (k + 1) r1.1 r1'.1 r1.2.1 r2 e1 h2
        rw [hm] at w2
        rw [w1]
        simp only [w2]
        exact ⟨_, rfl, e2, by simp only [q1, q2]⟩

theorem walkPhis_eqv (i : Nat) : ∀ (vs : List Var) (a b : St) (m : VMap), Eqv a b →
    Eqv (walkPhis i a m vs).1 (walkPhis i b m vs).1 ∧ (walkPhis i a m vs).2 = (walkPhis i b m vs).2 := by
  intro vs
  induction vs with
  | nil => intro a b m h; exact ⟨h, rfl⟩
  | cons v rest ih =>
    intro a b m h
    simp only [walkPhis]
    rw [h.glob]
    exact ih _ _ _ (alloc_eqv h _ _)

theorem set_comm (m : VMap) (a b : Var) (x y : Nat) (h : a ≠ b) : (m.set a x).set b y = (m.set b y).set a x := by
  funext w
  simp only [VMap.set]
  by_cases h1 : w = b
  · subst h1
    have : ¬ w = a := fun e => h e.symm
    simp [this]
  · simp [h1]

theorem fresh_set_other (g : VMap) (a b : Var) (x : Nat) (h : b ≠ a) : fresh (g.set a x) b = fresh g b := by
  unfold fresh; rw [set_other _ _ _ _ h]

/-- the phi statements of a block may be taken in any order: the counters, the scoped map and the versions handed out are
    the same, the log is a permutation -/
theorem walkPhis_perm (i : Nat) : ∀ {l l' : List Var}, l.Perm l' → l.Nodup → ∀ (a : St) (m : VMap),
    Eqv (walkPhis i a m l).1 (walkPhis i a m l').1 ∧ (walkPhis i a m l).2 = (walkPhis i a m l').2 := by
  intro l l' hp
  induction hp with
  | nil => intro _ a m; exact ⟨Eqv.refl _, rfl⟩
  | cons x _ ih =>
    intro hnd a m
    simp only [walkPhis]
    exact ih (List.nodup_cons.mp hnd).2 _ _
  | swap x y l =>
    intro hnd a m
    have hxy : y ≠ x := by
      intro e; subst e
      have := (List.nodup_cons.mp hnd).1
      exact this List.mem_cons_self
    simp only [walkPhis]
    have e : Eqv (alloc (alloc a (.phi i y) y) (.phi i x) x) (alloc (alloc a (.phi i x) x) (.phi i y) y) := by
      refine ⟨?_, ?_, rfl, rfl⟩
      · simp only [alloc]
        rw [fresh_set_other _ _ _ _ (Ne.symm hxy), fresh_set_other _ _ _ _ hxy]
        exact set_comm _ _ _ _ _ hxy
      · simp only [alloc]
        rw [fresh_set_other _ _ _ _ (Ne.symm hxy), fresh_set_other _ _ _ _ hxy]
        simp only [List.append_assoc, List.cons_append, List.nil_append]
        exact List.Perm.append_left _ (List.Perm.swap _ _ _)
    have hm : (m.set y (fresh a.glob y)).set x (fresh (alloc a (.phi i y) y).glob x) =
        (m.set x (fresh a.glob x)).set y (fresh (alloc a (.phi i x) x).glob y) := by
      simp only [alloc]
      rw [fresh_set_other _ _ _ _ (Ne.symm hxy), fresh_set_other _ _ _ _ hxy]
      exact set_comm _ _ _ _ _ hxy
    rw [hm]
    exact walkPhis_eqv i l _ _ _ e
  | trans h1 h2 ih1 ih2 =>
    intro hnd a m
    obtain ⟨e1, m1⟩ := ih1 hnd a m
    obtain ⟨e2, m2⟩ := ih2 ((List.Perm.nodup_iff h1).mp hnd) a m
    exact ⟨e1.trans e2, m1.trans m2⟩

theorem walk_eqv (c : PCfg) (P P' : Phis) (idom : Nat → Nat) (hperm : ∀ i, (P i).Perm (P' i)) (hnd : ∀ i, (P i).Nodup) :
    ∀ (fuel i : Nat) (m : VMap) (a b st : St), Eqv a b → walk c P idom fuel i m a = .ok st →
    ∃ st', walk c P' idom fuel i m b = .ok st' ∧ Eqv st st' := by
  intro fuel
  induction fuel with
  | zero => intro i m a b st _ hw; simp only [walk] at hw; cases hw
  | succ fuel ih =>
    intro i m a b st h hw
    simp only [walk] at hw ⊢
    split at hw
    · cases hw
    · rename_i r2 h2
      -- the phi statements, in the other order and from the other state
      obtain ⟨p1, pm1⟩ := walkPhis_perm i (hperm i) (hnd i) a m
      obtain ⟨p2, pm2⟩ := walkPhis_eqv i (P' i) a b m h
      have e1 : Eqv (walkPhis i a m (P i)).1 (walkPhis i b m (P' i)).1 := p1.trans p2
      have em : (walkPhis i a m (P i)).2 = (walkPhis i b m (P' i)).2 := pm1.trans pm2
      obtain ⟨r2', w2, e2, q2⟩ := walkStmts_eqv i _ 0 _ _ _ r2 e1 h2
      rw [em] at w2
      rw [w2]
      simp only
      have hm2 : r2.2.1 = r2'.2.1 := by rw [q2]
      have hs2 : r2.2.2 = r2'.2.2 := by rw [q2]
      rw [← hm2]
      have e3 : Eqv { r2.1 with done := r2.1.done ++ [(i, r2.2.2)], args := pushSuccs (c.block i).succs r2.2.1 r2.1.args }
          { r2'.1 with done := r2'.1.done ++ [(i, r2'.2.2)], args := pushSuccs (c.block i).succs r2.2.1 r2'.1.args } :=
        ⟨e2.glob, e2.log, by simp only [e2.done, hs2], by simp only [e2.args]⟩
      -- the children
      have kids : ∀ (l : List Nat) (sa sb st : St), Eqv sa sb →
          foldRes (fun st j => walk c P idom fuel j r2.2.1 st) l sa = .ok st →
          ∃ st', foldRes (fun st j => walk c P' idom fuel j r2.2.1 st) l sb = .ok st' ∧ Eqv st st' := by
        intro l
        induction l with
        | nil => intro sa sb st he hw'; simp only [foldRes] at hw' ⊢; cases hw'; exact ⟨_, rfl, he⟩
        | cons j rest ihl =>
          intro sa sb st he hw'
          simp only [foldRes] at hw' ⊢
          split at hw'
          · rename_i s1 h1
            obtain ⟨s1', w1, e1'⟩ := ih j r2.2.1 sa sb s1 he h1
            rw [w1]
            exact ihl s1 s1' st e1' hw'
          · cases hw'
          · cases hw'
      exact kids _ _ _ st e3 hw

theorem initParams_eqv : ∀ (vs : List Var) (a b : St) (m : VMap), Eqv a b →
    Eqv (initParams a m vs).1 (initParams b m vs).1 ∧ (initParams a m vs).2 = (initParams b m vs).2 := by
  intro vs
  induction vs with
  | nil => intro a b m h; exact ⟨h, rfl⟩
  | cons v rest ih =>
    intro a b m h
    simp only [initParams]
    rw [h.glob]
    exact ih _ _ _ (alloc_eqv h _ _)

theorem verOf_none (log : List Entry) (s : Site) (h : ∀ e, e ∈ log → e.site ≠ s) : verOf log s = 0 := by
  unfold verOf
  have : log.find? (fun e => e.site == s) = none := by
    rw [List.find?_eq_none]
    intro e he
    simpa using h e he
  rw [this]

theorem verOf_perm {log log' : List Entry} (hp : log.Perm log') (hnd : (sites log).Nodup) (s : Site) :
    verOf log s = verOf log' s := by
  have hnd' : (sites log').Nodup := (List.Perm.nodup_iff (List.Perm.map _ hp)).mp hnd
  by_cases h : ∃ e, e ∈ log ∧ e.site = s
  · obtain ⟨e, he, hs⟩ := h
    rw [← hs, verOf_mem log e hnd he, verOf_mem log' e hnd' ((List.Perm.mem_iff hp).mp he)]
  · have h1 : ∀ e, e ∈ log → e.site ≠ s := fun e he hs => h ⟨e, he, hs⟩
    have h2 : ∀ e, e ∈ log' → e.site ≠ s := fun e he hs => h ⟨e, (List.Perm.mem_iff hp).mpr he, hs⟩
    rw [verOf_none log s h1, verOf_none log' s h2]

/-- **the SSA form does not depend on the order of the phi statements of a block** (the hash order of `variables_written` in
    the code): with the phi variables of every block permuted, the conversion succeeds exactly as before, hands out the same
    version at every site, converts the statements to the same statements and collects the same phi arguments -/
theorem run_perm (c : PCfg) (P P' : Phis) (idom : Nat → Nat) (hperm : ∀ i, (P i).Perm (P' i)) (hP : ∀ i, (P i).Nodup)
    (hlt : ∀ j, 0 < j → j < c.blocks.length → idom j < j) (hpar : c.params.Nodup)
    (st : St) (h : run c P idom = .ok st) :
    ∃ st', run c P' idom = .ok st' ∧ (∀ s, verOf st.log s = verOf st'.log s) ∧ st.done = st'.done ∧ st.args = st'.args := by
  obtain ⟨_, hnd⟩ := run_spec c P idom hP hlt hpar st h
  unfold run at h ⊢
  simp only at h ⊢
  obtain ⟨st', w, e⟩ := walk_eqv c P P' idom hperm hP _ 0 _ _ _ st (Eqv.refl _) h
  exact ⟨st', w, fun s => verOf_perm e.log hnd s, e.done, e.args⟩

end Circomspect.SsaWalk
