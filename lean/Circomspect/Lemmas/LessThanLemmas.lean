/-
What the LessThan pass (Model/LessThanPass.lean) reports, and when a component counts as a `Num2Bits`.
-/
import Circomspect.Model.LessThanPass
import Circomspect.Lemmas.AliasLemmas

namespace Circomspect.LessThanPass
open Circomspect.SignalAssign (Acc accAlias CAcc denotes denotesL accAlias_of_denotes)

/-- a value is reported exactly when it is an input of `LessThan` and no `Num2Bits` whose size is known and passes the threshold
    of the curve has it as its input -/
theorem mem_reported (c : Curve.Curve) (ss : List Stmt) (v : String) :
    v ∈ reported c ss ↔ Input.lessThan v ∈ inputs ss ∧
      ¬ ∃ k, Input.num2bits v (some k) ∈ inputs ss ∧ Curve.rangeChecked c k = true := by
  unfold reported
  simp only [List.mem_filter, List.mem_eraseDups, List.mem_filterMap, Bool.not_eq_true', List.any_eq_false]
  constructor
  · rintro ⟨⟨i, hi, hsome⟩, hnone⟩
    constructor
    · cases i with
      | lessThan w => simp at hsome; subst hsome; exact hi
      | num2bits w s => simp at hsome
    · rintro ⟨k, hk, hr⟩
      have := hnone _ hk
      simp [hr] at this
  · rintro ⟨hl, hn⟩
    refine ⟨⟨_, hl, rfl⟩, ?_⟩
    intro i hi
    cases i with
    | lessThan w => simp
    | num2bits w s =>
      cases s with
      | none => simp
      | some k =>
        by_cases hw : w = v
        · subst hw
          have : Curve.rangeChecked c k = false := by
            cases hr : Curve.rangeChecked c k with
            | false => rfl
            | true => exact absurd ⟨k, hi, hr⟩ hn
          simp [this]
        · simp [hw]

/-- a component counts as `Num2Bits` with size expression `t` only if every recorded instantiation that may be this component is a
    `Num2Bits` with that size expression: an element of a component array whose index is not known, a component instantiated on
    two branches, a component that is another template somewhere — none of them is tracked unless all candidates agree -/
theorem getComponent_num2bits (cs : List (Key × Inst)) (k : Key) (s : Option Nat) (t : String)
    (h : getComponent cs k = some (.num2bits s t)) :
    ∀ e, e ∈ cs → maybeEqual e.1 k = true → ∃ s', e.2 = .num2bits s' t := by
  unfold getComponent at h
  intro e he hm
  have hmem : e ∈ cs.filter (fun e => maybeEqual e.1 k) := List.mem_filter.mpr ⟨he, hm⟩
  cases hf : cs.filter (fun e => maybeEqual e.1 k) with
  | nil => rw [hf] at hmem; cases hmem
  | cons e0 rest =>
    rw [hf] at h hmem
    simp only at h
    split at h
    · rename_i hall
      simp only [Option.some.injEq] at h
      rcases List.mem_cons.mp hmem with h1 | h1
      · subst h1; exact ⟨s, h⟩
      · have := List.all_eq_true.mp hall e h1
        rw [h] at this
        cases he2 : e.2 with
        | lessThan => rw [he2] at this; simp [sameAs] at this
        | unknown => rw [he2] at this; simp [sameAs] at this
        | num2bits s' t' =>
          rw [he2] at this
          simp only [sameAs, beq_iff_eq] at this
          subst this
          exact ⟨s', rfl⟩
    · simp at h

theorem zip_self_alias : ∀ (l : List Acc) (p : Acc × Acc), p ∈ l.zip l → accAlias p.1 p.2 = true
  | [], p, hp => by simp at hp
  | x :: r, p, hp => by
    simp only [List.zip_cons_cons, List.mem_cons] at hp
    rcases hp with h | h
    · subst h; exact SignalAssign.accAlias_refl' x
    · exact zip_self_alias r p h

theorem maybeEqual_refl (a : Key) : maybeEqual a a = true := by
  unfold maybeEqual
  simp only [beq_self_eq_true, Bool.true_and, List.all_eq_true]
  exact zip_self_alias a.acc

/-- the comparison never separates two accesses that denote the same component in some execution -/
theorem maybeEqual_complete (a b : Key) (hn : a.name = b.name) (ca : List CAcc) (ha : denotesL a.acc ca) (hb : denotesL b.acc ca) :
    maybeEqual a b = true := by
  unfold maybeEqual
  have key : ∀ (x y : List Acc) (c : List CAcc), denotesL x c → denotesL y c →
      x.length = y.length ∧ ∀ p, p ∈ x.zip y → accAlias p.1 p.2 = true := by
    intro x
    induction x with
    | nil =>
      intro y c hx hy
      cases c with
      | nil =>
        cases y with
        | nil => exact ⟨rfl, by intro p hp; simp at hp⟩
        | cons _ _ => simp [denotesL] at hy
      | cons _ _ => simp [denotesL] at hx
    | cons x0 xr ih =>
      intro y c hx hy
      cases c with
      | nil => simp [denotesL] at hx
      | cons c0 cr =>
        cases y with
        | nil => simp [denotesL] at hy
        | cons y0 yr =>
          simp only [denotesL] at hx hy
          obtain ⟨l, hp⟩ := ih yr cr hx.2 hy.2
          refine ⟨by simp [l], ?_⟩
          intro p hpm
          simp only [List.zip_cons_cons, List.mem_cons] at hpm
          rcases hpm with h | h
          · subst h; exact accAlias_of_denotes x0 y0 c0 hx.1 hy.1
          · exact hp p h
  obtain ⟨l, hp⟩ := key a.acc b.acc ca ha hb
  simp only [hn, beq_self_eq_true, Bool.true_and, l, List.all_eq_true]
  exact hp

end Circomspect.LessThanPass
