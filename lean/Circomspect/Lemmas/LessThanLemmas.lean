/-
What the LessThan pass (Model/LessThanPass.lean) reports, and when a component counts as a `Num2Bits`.
-/
import Circomspect.Model.LessThanPass
import Circomspect.Lemmas.AliasLemmas

namespace Circomspect.LessThanPass
open Circomspect.SignalAssign (Acc accAlias CAcc denotes denotesL accAlias_of_denotes)

theorem covered_iff (c : Curve.Curve) (dom : Nat → Nat → Bool) (ins : List Input) (v : Val) (b : Nat) :
    covered c dom ins v b = true ↔ ∃ w k b2, Input.num2bits w (some k) b2 ∈ ins ∧ w.1 = v.1 ∧ Curve.rangeChecked c k = true ∧
      (v.2 = true ∨ dom b2 b = true) := by
  unfold covered
  simp only [List.any_eq_true]
  constructor
  · rintro ⟨i, hi, h⟩
    cases i with
    | lessThan w b1 => simp at h
    | num2bits w s b2 =>
      cases s with
      | none => simp at h
      | some k =>
        simp only [Bool.and_eq_true, beq_iff_eq, Bool.or_eq_true] at h
        exact ⟨w, k, b2, hi, h.1.1, h.1.2, h.2⟩
  · rintro ⟨w, k, b2, hi, h1, h2, h3⟩
    exact ⟨_, hi, by simp only [Bool.and_eq_true, beq_iff_eq, Bool.or_eq_true]; exact ⟨⟨h1, h2⟩, h3⟩⟩

/-- an expression is reported exactly when some assignment of it to an input of `LessThan` is not covered: no `Num2Bits` of known,
    qualifying size has the same expression as its input — in a dominating basic block, if the expression reads a local variable -/
theorem mem_reported (c : Curve.Curve) (dom : Nat → Nat → Bool) (ss : List Stmt) (t : String) :
    t ∈ reported c dom ss ↔ ∃ v b, Input.lessThan v b ∈ inputs ss ∧ v.1 = t ∧
      ¬ ∃ w k b2, Input.num2bits w (some k) b2 ∈ inputs ss ∧ w.1 = v.1 ∧ Curve.rangeChecked c k = true ∧
        (v.2 = true ∨ dom b2 b = true) := by
  unfold reported
  simp only [List.mem_eraseDups, List.mem_filterMap]
  constructor
  · rintro ⟨i, hi, h⟩
    cases i with
    | num2bits w s b2 => simp at h
    | lessThan v b =>
      simp only at h
      split at h
      · cases h
      · rename_i hc
        simp only [Option.some.injEq] at h
        refine ⟨v, b, hi, h, ?_⟩
        intro hex
        exact hc ((covered_iff c dom _ v b).mpr hex)
  · rintro ⟨v, b, hi, ht, hn⟩
    refine ⟨_, hi, ?_⟩
    simp only
    have : covered c dom (inputs ss) v b = false := by
      cases hcv : covered c dom (inputs ss) v b with
      | false => rfl
      | true => exact absurd ((covered_iff c dom _ v b).mp hcv) hn
    simp [this, ht]

/-- the candidates are the instantiations recorded for a component that may be the one the access refers to -/
theorem mem_candidates (cs : List (Key × Inst)) (k : Key) (t : Inst) :
    t ∈ candidates cs k ↔ ∃ e, e ∈ cs ∧ maybeEqual e.1 k = true ∧ e.2 = t := by
  unfold candidates
  simp only [List.mem_map, List.mem_filter]
  constructor
  · rintro ⟨e, ⟨he, hm⟩, rfl⟩; exact ⟨e, he, hm, rfl⟩
  · rintro ⟨e, he, hm, rfl⟩; exact ⟨e, ⟨he, hm⟩, rfl⟩

/-- a component counts as `Num2Bits` of a size only if there is an instantiation and every instantiation that may be this component
    is a `Num2Bits` with that size expression: an element of a component array whose index is not known, a component instantiated
    on two branches, a component that is another template somewhere — none of them counts unless all candidates agree -/
theorem bitSize_some (is : List Inst) (s : Option Nat) (h : bitSize is = some s) :
    is ≠ [] ∧ ∃ t, ∀ x, x ∈ is → ∃ s', x = .num2bits s' t := by
  cases is with
  | nil => simp [bitSize] at h
  | cons a rest =>
    refine ⟨by simp, ?_⟩
    cases a with
    | lessThan => simp [bitSize] at h
    | unknown => simp [bitSize] at h
    | num2bits s0 t0 =>
      simp only [bitSize] at h
      split at h
      · rename_i hall
        refine ⟨t0, ?_⟩
        intro x hx
        rcases List.mem_cons.mp hx with h1 | h1
        · exact ⟨s0, h1⟩
        · have := List.all_eq_true.mp hall x h1
          cases x with
          | lessThan => simp [sameSize] at this
          | unknown => simp [sameSize] at this
          | num2bits s' t' =>
            simp only [sameSize, beq_iff_eq] at this
            subst this
            exact ⟨s', rfl⟩
      · cases h

/-- the inputs of a component are examined as inputs of `LessThan` as soon as one instantiation that may be this component is a
    `LessThan` -/
theorem mayBeLessThan_iff (is : List Inst) : mayBeLessThan is = true ↔ Inst.lessThan ∈ is := by
  unfold mayBeLessThan
  simp [List.any_eq_true]

theorem zip_self_alias : ∀ (l : List Acc) (p : Acc × Acc), p ∈ l.zip l → accAlias p.1 p.2 = true
  | [], p, hp => by simp at hp
  | x :: r, p, hp => by
    simp only [List.zip_cons_cons, List.mem_cons] at hp
    rcases hp with h | h
    · subst h; exact SignalAssign.accAlias_refl' x
    · exact zip_self_alias r p h

theorem maybeEqual_refl (a : Key) : maybeEqual a a = true := by
  unfold maybeEqual
  simp only [beq_self_eq_true, Bool.true_and, List.all_eq_true]
  exact zip_self_alias a.acc

/-- the comparison never separates two accesses that denote the same component in some execution -/
theorem maybeEqual_complete (a b : Key) (hn : a.name = b.name) (ca : List CAcc) (ha : denotesL a.acc ca) (hb : denotesL b.acc ca) :
    maybeEqual a b = true := by
  unfold maybeEqual
  have key : ∀ (x y : List Acc) (c : List CAcc), denotesL x c → denotesL y c →
      x.length = y.length ∧ ∀ p, p ∈ x.zip y → accAlias p.1 p.2 = true := by
    intro x
    induction x with
    | nil =>
      intro y c hx hy
      cases c with
      | nil =>
        cases y with
        | nil => exact ⟨rfl, by intro p hp; simp at hp⟩
        | cons _ _ => simp [denotesL] at hy
      | cons _ _ => simp [denotesL] at hx
    | cons x0 xr ih =>
      intro y c hx hy
      cases c with
      | nil => simp [denotesL] at hx
      | cons c0 cr =>
        cases y with
        | nil => simp [denotesL] at hy
        | cons y0 yr =>
          simp only [denotesL] at hx hy
          obtain ⟨l, hp⟩ := ih yr cr hx.2 hy.2
          refine ⟨by simp [l], ?_⟩
          intro p hpm
          simp only [List.zip_cons_cons, List.mem_cons] at hpm
          rcases hpm with h | h
          · subst h; exact accAlias_of_denotes x0 y0 c0 hx.1 hy.1
          · exact hp p h
  obtain ⟨l, hp⟩ := key a.acc b.acc ca ha hb
  simp only [hn, beq_self_eq_true, Bool.true_and, l, List.all_eq_true]
  exact hp

end Circomspect.LessThanPass
