/-
Lemmas for the expression-level soundness of degree propagation (C07): the true degree of an
expression (Circom's algebra lifted to expressions) and what the range operations guarantee.
-/
import Circomspect.Model.Propagate
import Circomspect.Spec.Algebra
import Circomspect.Lemmas.DegreeOps
set_option linter.unusedSimpArgs false
namespace Circomspect.Propagate
open Circomspect Ir Algebra

/-! The true degree of an expression under an assignment `δ` of degrees to the (SSA) variables — the
    algebra of `Spec/Algebra.lean` lifted to expressions: all signals and component ports are
    indeterminates (degree 1 in `δ`), parameters and literals constants. -/

def maxList : List Nat → Nat
  | [] => 0
  | x :: r => max x (maxList r)

mutual
def degE (δ : VName → Nat) : Expr → Nat
  | .infix _ op l r => alg op (degE δ l) (degE δ r)
  | .prefix _ op e => algPrefix op (degE δ e)
  | .switch _ c t f => if degE δ c = 0 then max (degE δ t) (degE δ f) else 3
  | .var _ v => δ v
  | .num _ _ => 0
  | .call _ _ args => if degEs δ args = 0 then 0 else 3
  | .arr _ vals => degEs δ vals
  | .acc _ v access => if degAs δ access = 0 then δ v else 3
  | .upd _ v access rhe => if degAs δ access = 0 then max (δ v) (degE δ rhe) else 3
  | .phi _ args => maxList (args.map δ)
/-- the largest degree among the expressions -/
def degEs (δ : VName → Nat) : Exprs → Nat
  | .nil => 0
  | .cons e r => max (degE δ e) (degEs δ r)
/-- the largest degree among the array indices -/
def degAs (δ : VName → Nat) : Accs → Nat
  | .nil => 0
  | .cons (.idx e) r => max (degE δ e) (degAs δ r)
  | .cons (.cmp _) r => degAs δ r
end

/-- a claim is an upper bound (and a legal degree) -/
def claimD (δ : VName → Nat) (e : Expr) : Prop :=
  ∀ r, e.ann.deg = some r → degE δ e ≤ r.2 ∧ r.2 ≤ 3

mutual
def SoundD (δ : VName → Nat) (F : VName → Prop) : Expr → Prop
  | .infix a op l r => claimD δ (.infix a op l r) ∧ SoundD δ F l ∧ SoundD δ F r
  | .prefix a op e => claimD δ (.prefix a op e) ∧ SoundD δ F e
  | .switch a c t f => claimD δ (.switch a c t f) ∧ SoundD δ F c ∧ SoundD δ F t ∧ SoundD δ F f
  | .var a v => claimD δ (.var a v)
  | .num a n => claimD δ (.num a n)
  | .call a n args => claimD δ (.call a n args) ∧ SoundDs δ F args
  | .arr a vals => claimD δ (.arr a vals) ∧ SoundDs δ F vals
  | .acc a v access => claimD δ (.acc a v access) ∧ SoundDa δ F access
  | .upd a v access rhe => claimD δ (.upd a v access rhe) ∧ SoundDa δ F access ∧ SoundD δ F rhe ∧ F v
  | .phi a args => claimD δ (.phi a args)
def SoundDs (δ : VName → Nat) (F : VName → Prop) : Exprs → Prop
  | .nil => True
  | .cons e r => SoundD δ F e ∧ SoundDs δ F r
def SoundDa (δ : VName → Nat) (F : VName → Prop) : Accs → Prop
  | .nil => True
  | .cons (.idx e) r => SoundD δ F e ∧ SoundDa δ F r
  | .cons (.cmp _) r => SoundDa δ F r
end

/-- the abstract environment bounds the degree of every variable it knows; a local array that has
    neither a degree nor an assignment so far is still all zeros -/
structure AgreeD (δ : VName → Nat) (env : DegEnv) (F : VName → Prop) : Prop where
  bound : ∀ v r, env.degree v = some r → δ v ≤ r.2 ∧ r.2 ≤ 3
  fresh : ∀ v, F v → env.degree v = none → env.isAssigned v = false → δ v = 0
  le3 : ∀ v, δ v ≤ 3

theorem soundD_top (δ : VName → Nat) (F : VName → Prop) : ∀ e, SoundD δ F e → claimD δ e
  | .infix a op l r, h => by unfold SoundD at h; exact h.1
  | .prefix a op e, h => by unfold SoundD at h; exact h.1
  | .switch a c t f, h => by unfold SoundD at h; exact h.1
  | .var a v, h => by unfold SoundD at h; exact h
  | .num a n, h => by unfold SoundD at h; exact h
  | .call _ _ _, h => by unfold SoundD at h; exact h.1
  | .arr _ _, h => by unfold SoundD at h; exact h.1
  | .acc _ _ _, h => by unfold SoundD at h; exact h.1
  | .upd _ _ _ _, h => by unfold SoundD at h; exact h.1
  | .phi _ _, h => by unfold SoundD at h; exact h

theorem alg_le3 (op : String) (a b : Nat) (ha : a ≤ 3) (hb : b ≤ 3) : alg op a b ≤ 3 := by
  rw [C07ops.alg_eq_degOp op a b ha hb]; exact C07ops.degOp_le3 op a b ha hb

theorem algPrefix_le3 (op : String) (a : Nat) (ha : a ≤ 3) : algPrefix op a ≤ 3 := by
  unfold algPrefix; split
  · exact ha
  · split <;> omega

theorem maxList_le (l : List Nat) (b : Nat) (h : ∀ x, x ∈ l → x ≤ b) : maxList l ≤ b := by
  induction l with
  | nil => simp [maxList]
  | cons x r ih =>
    simp only [maxList]
    have := h x List.mem_cons_self
    have := ih (fun y hy => h y (List.mem_cons_of_mem _ hy))
    omega

mutual
theorem degE_le3 (δ : VName → Nat) (hδ : ∀ v, δ v ≤ 3) : ∀ e, degE δ e ≤ 3
  | .infix _ op l r => by unfold degE; exact alg_le3 op _ _ (degE_le3 δ hδ l) (degE_le3 δ hδ r)
  | .prefix _ op e => by unfold degE; exact algPrefix_le3 op _ (degE_le3 δ hδ e)
  | .switch _ c t f => by
    unfold degE; split
    · have := degE_le3 δ hδ t; have := degE_le3 δ hδ f; omega
    · omega
  | .var _ v => by unfold degE; exact hδ v
  | .num _ _ => by unfold degE; omega
  | .call _ _ args => by unfold degE; split <;> omega
  | .arr _ vals => by unfold degE; exact degEs_le3 δ hδ vals
  | .acc _ v access => by unfold degE; split; exact hδ v; omega
  | .upd _ v access rhe => by
    unfold degE; split
    · have := hδ v; have := degE_le3 δ hδ rhe; omega
    · omega
  | .phi _ args => by
    unfold degE
    apply maxList_le
    intro x hx
    obtain ⟨v, _, hv⟩ := List.mem_map.mp hx
    rw [← hv]; exact hδ v
theorem degEs_le3 (δ : VName → Nat) (hδ : ∀ v, δ v ≤ 3) : ∀ es, degEs δ es ≤ 3
  | .nil => by unfold degEs; omega
  | .cons e r => by
    unfold degEs
    have := degE_le3 δ hδ e; have := degEs_le3 δ hδ r; omega
end

open Circomspect Ir Algebra

theorem rangeInf_hi (r s : Range) : (rangeInf r s).2 = max r.2 s.2 := rfl

theorem foldl_inf (l : List Range) : ∀ a : Range,
    a.2 ≤ (l.foldl rangeInf a).2 ∧ (∀ x, x ∈ l → x.2 ≤ (l.foldl rangeInf a).2) ∧
    (a.2 ≤ 3 → (∀ x, x ∈ l → x.2 ≤ 3) → (l.foldl rangeInf a).2 ≤ 3) := by
  induction l with
  | nil => intro a; exact ⟨Nat.le_refl _, fun _ h => (by cases h), fun h _ => h⟩
  | cons y t ih =>
    intro a
    simp only [List.foldl_cons]
    obtain ⟨h1, h2, h3⟩ := ih (rangeInf a y)
    rw [rangeInf_hi] at h1 h3
    refine ⟨by omega, ?_, ?_⟩
    · intro x hx
      rcases List.mem_cons.mp hx with hx | hx
      · subst hx; omega
      · exact h2 x hx
    · intro ha hall
      apply h3
      · have := hall y List.mem_cons_self; omega
      · intro x hx; exact hall x (List.mem_cons_of_mem _ hx)

/-- `iter_opt`: defined only when every range is known, and then an upper bound of all of them -/
theorem iterOpt_spec (rs : List (Option Range)) (R : Range) (h : iterOpt rs = some R) :
    (∀ o, o ∈ rs → ∃ x, o = some x ∧ x.2 ≤ R.2) ∧
    ((∀ o x, o ∈ rs → o = some x → x.2 ≤ 3) → R.2 ≤ 3) := by
  unfold iterOpt at h
  cases rs with
  | nil => simp at h
  | cons r rest =>
    simp only at h
    split at h
    · rename_i hall
      cases h
      have hall' := List.all_eq_true.mp hall
      cases r with
      | none => have := hall' none List.mem_cons_self; simp at this
      | some r0 =>
        simp only [Option.getD_some]
        obtain ⟨h1, h2, h3⟩ := foldl_inf (rest.filterMap id) r0
        constructor
        · intro o ho
          rcases List.mem_cons.mp ho with ho | ho
          · subst ho; exact ⟨r0, rfl, h1⟩
          · have := hall' o (List.mem_cons_of_mem _ ho)
            cases o with
            | none => simp at this
            | some x =>
              refine ⟨x, rfl, h2 x ?_⟩
              exact List.mem_filterMap.mpr ⟨some x, ho, rfl⟩
        · intro hb
          apply h3 (hb (some r0) r0 List.mem_cons_self rfl)
          intro x hx
          obtain ⟨o, ho, hox⟩ := List.mem_filterMap.mp hx
          simp only [id] at hox
          exact hb o x (List.mem_cons_of_mem _ ho) hox
    · cases h

theorem orSetDeg_deg (a : Ann) (c : Bool) (x : Option Range) :
    (orSetDeg a c x).1.deg = a.deg ∨ (∃ v, x = some v ∧ (orSetDeg a c x).1.deg = some v) := by
  unfold orSetDeg
  cases x with
  | none => exact Or.inl rfl
  | some v =>
    cases c with
    | true => exact Or.inl rfl
    | false => exact Or.inr ⟨v, rfl, rfl⟩

open Circomspect Ir Algebra

mutual
/-- degree propagation changes annotations only -/
theorem degE_degExpr (δ : VName → Nat) (env : DegEnv) : ∀ e, degE δ (degExpr env e).1 = degE δ e
  | .infix a op l r => by
    unfold degExpr
    simp only
    cases hc : (degExpr env l).2 with
    | true => simp only [if_true, degE, degE_degExpr δ env l]
    | false => simp only [Bool.false_eq_true, if_false, degE, degE_degExpr δ env l, degE_degExpr δ env r]
  | .prefix a op e => by
    unfold degExpr
    simp only [degE, degE_degExpr δ env e]
  | .switch a c t f => by
    unfold degExpr
    simp only
    have hc := degE_degExpr δ env c
    have ht := degE_degExpr δ env t
    have hf := degE_degExpr δ env f
    cases k1 : (degExpr env c).2 <;> simp only [if_true, Bool.false_eq_true, if_false]
    · cases k2 : (degExpr env t).2 <;> simp only [if_true, Bool.false_eq_true, if_false]
      · split
        · simp only [degE, hc, ht, hf]
        · split <;> simp only [degE, hc, ht, hf]
      · split
        · simp only [degE, hc, ht]
        · split <;> simp only [degE, hc, ht]
    · split
      · simp only [degE, hc]
      · split <;> simp only [degE, hc]
  | .var a v => by unfold degExpr; simp [degE]
  | .num a n => by unfold degExpr; simp [degE]
  | .call a n args => by
    unfold degExpr
    simp only
    split <;> simp only [degE, degEs_degExprs δ env args false]
  | .arr a vals => by
    unfold degExpr
    simp only [degE, degEs_degExprs δ env vals false]
  | .acc a v access => by
    unfold degExpr
    simp only [degE, degAs_degAccs δ env access false]
  | .upd a v access rhe => by
    unfold degExpr
    simp only [degE, degAs_degAccs δ env access _, degE_degExpr δ env rhe]
  | .phi a args => by unfold degExpr; split <;> simp [degE]
theorem degEs_degExprs (δ : VName → Nat) (env : DegEnv) : ∀ (es : Exprs) (c : Bool), degEs δ (degExprs env es c).1 = degEs δ es
  | .nil, c => by unfold degExprs; rfl
  | .cons e r, c => by
    unfold degExprs
    simp only
    cases c with
    | true => simp only [if_true, degEs, degEs_degExprs δ env r true]
    | false => simp only [Bool.false_eq_true, if_false, degEs, degE_degExpr δ env e, degEs_degExprs δ env r _]
theorem degAs_degAccs (δ : VName → Nat) (env : DegEnv) : ∀ (acc : Accs) (c : Bool), degAs δ (degAccs env acc c).1 = degAs δ acc
  | .nil, c => by unfold degAccs; rfl
  | .cons (.idx e) r, c => by
    unfold degAccs
    simp only
    cases c with
    | true => simp only [if_true, degAs, degAs_degAccs δ env r true]
    | false => simp only [Bool.false_eq_true, if_false, degAs, degE_degExpr δ env e, degAs_degAccs δ env r _]
  | .cons (.cmp n) r, c => by
    unfold degAccs
    simp only [degAs, degAs_degAccs δ env r c]
end

theorem degEs_le (δ : VName → Nat) (b : Nat) : ∀ es : Exprs, (∀ e, e ∈ es.toList → degE δ e ≤ b) → degEs δ es ≤ b
  | .nil, _ => by unfold degEs; omega
  | .cons e r, h => by
    unfold degEs
    have h1 := h e (by simp [Exprs.toList])
    have h2 := degEs_le δ b r (fun x hx => h x (by simp [Exprs.toList, hx]))
    omega

theorem soundDs_mem (δ : VName → Nat) (F : VName → Prop) : ∀ es : Exprs, SoundDs δ F es → ∀ e, e ∈ es.toList → SoundD δ F e
  | .nil, _, e, he => by simp [Exprs.toList] at he
  | .cons x r, h, e, he => by
    unfold SoundDs at h
    simp only [Exprs.toList, List.mem_cons] at he
    rcases he with he | he
    · subst he; exact h.1
    · exact soundDs_mem δ F r h.2 e he

theorem constIdx_true (δ : VName → Nat) (F : VName → Prop) : ∀ acc : Accs, SoundDa δ F acc → constIdx acc = some true → degAs δ acc = 0
  | .nil, _, _ => by unfold degAs; rfl
  | .cons (.cmp n) r, h, hc => by
    unfold SoundDa at h
    unfold constIdx at hc
    unfold degAs
    exact constIdx_true δ F r h hc
  | .cons (.idx e) r, h, hc => by
    unfold SoundDa at h
    unfold constIdx at hc
    unfold degAs
    split at hc
    · cases hc
    · rename_i rr hr
      cases hrest : constIdx r with
      | none => rw [hrest] at hc; simp at hc
      | some b =>
        rw [hrest] at hc
        simp only [Option.map_some, Option.some.injEq, Bool.and_eq_true, decide_eq_true_eq] at hc
        have hb : b = true := hc.2
        subst hb
        have h1 := (soundD_top δ F e h.1) rr hr
        have h2 := constIdx_true δ F r h.2 hrest
        omega

open Circomspect Ir Algebra

@[simp] theorem dann_infix (a : Ann) (op : String) (l r : Expr) : (Expr.infix a op l r).ann = a := rfl
@[simp] theorem dann_prefix (a : Ann) (op : String) (e : Expr) : (Expr.prefix a op e).ann = a := rfl
@[simp] theorem dann_switch (a : Ann) (c t f : Expr) : (Expr.switch a c t f).ann = a := rfl
@[simp] theorem dann_var (a : Ann) (v : VName) : (Expr.var a v).ann = a := rfl
@[simp] theorem dann_num (a : Ann) (n : Int) : (Expr.num a n).ann = a := rfl
@[simp] theorem dann_call (a : Ann) (n : String) (args : Exprs) : (Expr.call a n args).ann = a := rfl
@[simp] theorem dann_arr (a : Ann) (vs : Exprs) : (Expr.arr a vs).ann = a := rfl
@[simp] theorem dann_acc (a : Ann) (v : VName) (acc : Accs) : (Expr.acc a v acc).ann = a := rfl
@[simp] theorem dann_upd (a : Ann) (v : VName) (acc : Accs) (r : Expr) : (Expr.upd a v acc r).ann = a := rfl
@[simp] theorem dann_phi (a : Ann) (vs : List VName) : (Expr.phi a vs).ann = a := rfl

/-- the generic step: a node keeps its claim, or gets the new range `x`, which is an upper bound -/
theorem claim_step (_δ : VName → Nat) (a : Ann) (c : Bool) (x : Option Range) (d : Nat)
    (hold : ∀ r, a.deg = some r → d ≤ r.2 ∧ r.2 ≤ 3)
    (hnew : ∀ v, x = some v → d ≤ v.2 ∧ v.2 ≤ 3) :
    ∀ r, (orSetDeg a c x).1.deg = some r → d ≤ r.2 ∧ r.2 ≤ 3 := by
  intro r hr
  rcases orSetDeg_deg a c x with h | ⟨v, hv, h⟩
  · rw [h] at hr; exact hold r hr
  · rw [h] at hr; cases hr; exact hnew _ hv

mutual
theorem degExpr_sound (δ : VName → Nat) (F : VName → Prop) (env : DegEnv) (hag : AgreeD δ env F) :
    ∀ e, SoundD δ F e → SoundD δ F (degExpr env e).1
  | .infix a op l r, h => by
    unfold SoundD at h
    obtain ⟨hc, hl, hr⟩ := h
    have il := degExpr_sound δ F env hag l hl
    have ir := degExpr_sound δ F env hag r hr
    have el := degE_degExpr δ env l
    have er := degE_degExpr δ env r
    unfold degExpr
    simp only
    cases hc1 : (degExpr env l).2 with
    | true =>
      simp only [if_true]
      unfold SoundD
      refine ⟨?_, il, hr⟩
      unfold claimD
      simp only [dann_infix, degE, el]
      apply claim_step δ a true _ _ (fun r hr' => by simpa [degE] using hc r hr')
      intro v hv
      -- with `changed = true` the annotation is kept, so this branch is never used: but it is still sound
      split at hv
      · rename_i x y hx hy
        cases hv
        have h1 := soundD_top δ F _ il x hx
        have h2 := soundD_top δ F _ hr y hy
        rw [el] at h1
        exact ⟨C07ops.C07_range op x y _ _ h1.1 h2.1 h1.2 h2.2, C07ops.degOp_le3 op _ _ h1.2 h2.2⟩
      · cases hv
    | false =>
      simp only [Bool.false_eq_true, if_false]
      unfold SoundD
      refine ⟨?_, il, ir⟩
      unfold claimD
      simp only [dann_infix, degE, el, er]
      apply claim_step δ a _ _ _ (fun r hr' => by simpa [degE] using hc r hr')
      intro v hv
      split at hv
      · rename_i x y hx hy
        cases hv
        have h1 := soundD_top δ F _ il x hx
        have h2 := soundD_top δ F _ ir y hy
        rw [el] at h1; rw [er] at h2
        exact ⟨C07ops.C07_range op x y _ _ h1.1 h2.1 h1.2 h2.2, C07ops.degOp_le3 op _ _ h1.2 h2.2⟩
      · cases hv
  | .prefix a op e, h => by
    unfold SoundD at h
    obtain ⟨hc, he⟩ := h
    have ie := degExpr_sound δ F env hag e he
    have ee := degE_degExpr δ env e
    unfold degExpr
    simp only
    unfold SoundD
    refine ⟨?_, ie⟩
    unfold claimD
    simp only [dann_prefix, degE, ee]
    apply claim_step δ a _ _ _ (fun r hr' => by simpa [degE] using hc r hr')
    intro v hv
    cases hx : (degExpr env e).1.ann.deg with
    | none => rw [hx] at hv; simp at hv
    | some x =>
      rw [hx] at hv
      simp only [Option.map_some, Option.some.injEq] at hv
      subst hv
      have h1 := soundD_top δ F _ ie x hx
      rw [ee] at h1
      constructor
      · have : algPrefix op (degE δ e) ≤ algPrefix op x.2 := by
          unfold algPrefix; split
          · exact h1.1
          · split <;> split <;> omega
        have e2 : algPrefix op x.2 = (rangePrefix op x).2 := by
          unfold algPrefix rangePrefix degPrefix; rfl
        omega
      · show degPrefix op x.2 ≤ 3
        unfold degPrefix; split
        · exact h1.2
        · split <;> omega
  | .switch a c t f, h => by
    unfold SoundD at h
    obtain ⟨hcl, hc, ht, hf⟩ := h
    have ic := degExpr_sound δ F env hag c hc
    have it := degExpr_sound δ F env hag t ht
    have iff' := degExpr_sound δ F env hag f hf
    have ec := degE_degExpr δ env c
    have et := degE_degExpr δ env t
    have ef := degE_degExpr δ env f
    -- whatever was (or was not) re-visited, the children are sound and evaluate as before
    have key : ∀ (c' t' f' : Expr) (k : Bool), SoundD δ F c' → SoundD δ F t' → SoundD δ F f' →
        degE δ c' = degE δ c → degE δ t' = degE δ t → degE δ f' = degE δ f →
        SoundD δ F (match c'.ann.deg with
          | none => (Expr.switch a c' t' f', k)
          | some cr => if cr.2 = 0 then
              (match orSetDeg a k (iterOpt [t'.ann.deg, f'.ann.deg]) with | (a', k') => (Expr.switch a' c' t' f', k'))
            else (Expr.switch a c' t' f', k)).1 := by
      intro c' t' f' k sc st sf e1 e2 e3
      have keep : SoundD δ F (Expr.switch a c' t' f') := by
        unfold SoundD
        refine ⟨?_, sc, st, sf⟩
        intro r hr'
        have := hcl r (by simpa using hr')
        simpa [degE, e1, e2, e3] using this
      split
      · exact keep
      · rename_i cr hcr
        split
        · rename_i hz
          simp only
          unfold SoundD
          refine ⟨?_, sc, st, sf⟩
          unfold claimD
          simp only [dann_switch, degE, e1, e2, e3]
          apply claim_step δ a _ _ _ (fun r hr' => by simpa [degE] using hcl r hr')
          intro v hv
          have hcz := (soundD_top δ F c' sc cr hcr).1
          rw [e1] at hcz
          have hc0 : degE δ c = 0 := by omega
          rw [if_pos hc0]
          obtain ⟨hmem, hb⟩ := iterOpt_spec _ v hv
          obtain ⟨xt, hxt, hxt2⟩ := hmem t'.ann.deg (by simp)
          obtain ⟨xf, hxf, hxf2⟩ := hmem f'.ann.deg (by simp)
          have h1 := soundD_top δ F t' st xt hxt
          have h2 := soundD_top δ F f' sf xf hxf
          rw [e2] at h1; rw [e3] at h2
          refine ⟨by omega, hb ?_⟩
          intro o x ho hox
          simp only [List.mem_cons, List.not_mem_nil, or_false] at ho
          rcases ho with ho | ho
          · subst ho; rw [hxt] at hox; cases hox; exact h1.2
          · subst ho; rw [hxf] at hox; cases hox; exact h2.2
        · exact keep
    unfold degExpr
    simp only
    cases k1 : (degExpr env c).2 <;> simp only [if_true, Bool.false_eq_true, if_false]
    · cases k2 : (degExpr env t).2 <;> simp only [if_true, Bool.false_eq_true, if_false]
      · exact key _ _ _ _ ic it iff' ec et ef
      · exact key _ _ _ _ ic it hf ec et rfl
    · exact key _ _ _ _ ic ht hf ec rfl rfl
  | .var a v, h => by
    unfold SoundD at h
    unfold degExpr
    simp only
    unfold SoundD claimD
    simp only [dann_var, degE]
    apply claim_step δ a false _ _ (fun r hr' => by simpa [degE] using h r hr')
    intro x hx
    exact hag.bound v x hx
  | .num a n, _ => by
    unfold degExpr
    unfold SoundD claimD
    intro r hr
    simp only [dann_num, setDeg] at hr
    cases hr
    simp [degE]
  | .call a n args, h => by
    unfold SoundD at h
    obtain ⟨hc, hargs⟩ := h
    have ia := degExprs_sound δ F env hag args false hargs
    have ea := degEs_degExprs δ env args false
    unfold degExpr
    simp only
    split
    · rename_i hall
      unfold SoundD
      refine ⟨?_, ia⟩
      unfold claimD
      simp only [dann_call, degE, ea]
      apply claim_step δ a _ _ _ (fun r hr' => by simpa [degE] using hc r hr')
      intro v hv
      cases hv
      have : degEs δ (degExprs env args false).1 ≤ 0 := by
        apply degEs_le
        intro e he
        have := (List.all_eq_true.mp hall) e he
        cases hd : e.ann.deg with
        | none => rw [hd] at this; simp at this
        | some r =>
          rw [hd] at this
          have hz : r.2 = 0 := by simpa using this
          have := (soundD_top δ F e (soundDs_mem δ F _ ia e he) r hd).1
          omega
      rw [ea] at this
      have h0 : degEs δ args = 0 := by omega
      simp [h0]
    · simp only
      unfold SoundD
      refine ⟨?_, ia⟩
      intro r hr'
      have := hc r (by simpa using hr')
      simpa [degE, ea] using this
  | .arr a vals, h => by
    unfold SoundD at h
    obtain ⟨hc, hv⟩ := h
    have iv := degExprs_sound δ F env hag vals false hv
    have ev := degEs_degExprs δ env vals false
    unfold degExpr
    simp only
    unfold SoundD
    refine ⟨?_, iv⟩
    unfold claimD
    simp only [dann_arr, degE, ev]
    apply claim_step δ a _ _ _ (fun r hr' => by simpa [degE] using hc r hr')
    intro R hR
    obtain ⟨hmem, hb⟩ := iterOpt_spec _ R hR
    constructor
    · rw [← ev]
      apply degEs_le
      intro e he
      obtain ⟨x, hx, hx2⟩ := hmem e.ann.deg (List.mem_map.mpr ⟨e, he, rfl⟩)
      have := (soundD_top δ F e (soundDs_mem δ F _ iv e he) x hx).1
      omega
    · apply hb
      intro o x ho hox
      obtain ⟨e, he, heo⟩ := List.mem_map.mp ho
      subst heo
      exact (soundD_top δ F e (soundDs_mem δ F _ iv e he) x hox).2
  | .acc a v access, h => by
    unfold SoundD at h
    obtain ⟨hc, ha⟩ := h
    have ia := degAccs_sound δ F env hag access false ha
    have ea := degAs_degAccs δ env access false
    unfold degExpr
    simp only
    unfold SoundD
    refine ⟨?_, ia⟩
    unfold claimD
    simp only [dann_acc, degE, ea]
    apply claim_step δ a _ _ _ (fun r hr' => by simpa [degE] using hc r hr')
    intro R hR
    split at hR
    · rename_i hci
      have hz := constIdx_true δ F _ ia hci
      rw [ea] at hz
      rw [if_pos hz]
      exact hag.bound v R hR
    · cases hR
      refine ⟨?_, Nat.le_refl _⟩
      split
      · exact hag.le3 v
      · exact Nat.le_refl _
    · cases hR
  | .upd a v access rhe, h => by
    unfold SoundD at h
    obtain ⟨hc, ha, hr, hF⟩ := h
    have ir := degExpr_sound δ F env hag rhe hr
    have er := degE_degExpr δ env rhe
    have ia := degAccs_sound δ F env hag access (degExpr env rhe).2 ha
    have ea := degAs_degAccs δ env access (degExpr env rhe).2
    unfold degExpr
    simp only
    unfold SoundD
    refine ⟨?_, ia, ir, hF⟩
    unfold claimD
    simp only [dann_upd, degE, ea, er]
    apply claim_step δ a _ _ _ (fun r hr' => by simpa [degE] using hc r hr')
    intro R hR
    split at hR
    · rename_i hci
      have hz := constIdx_true δ F _ ia hci
      rw [ea] at hz
      rw [if_pos hz]
      split at hR
      · rename_i hnone
        split at hR
        · cases hR
        · rename_i hna
          have hd0 := hag.fresh v hF hnone (by simpa using hna)
          have := soundD_top δ F _ ir R hR
          rw [er] at this
          rw [hd0]
          exact ⟨by omega, this.2⟩
      · rename_i vr hvr
        obtain ⟨hmem, hb⟩ := iterOpt_spec _ R hR
        obtain ⟨x1, hx1, hx12⟩ := hmem (some vr) (by simp)
        cases hx1
        obtain ⟨x2, hx2, hx22⟩ := hmem (degExpr env rhe).1.ann.deg (by simp)
        have h1 := hag.bound v vr hvr
        have h2 := soundD_top δ F _ ir x2 hx2
        rw [er] at h2
        refine ⟨by omega, hb ?_⟩
        intro o x ho hox
        simp only [List.mem_cons, List.not_mem_nil, or_false] at ho
        rcases ho with ho | ho
        · subst ho; cases hox; exact h1.2
        · subst ho; rw [hx2] at hox; cases hox; exact h2.2
    · cases hR
      refine ⟨?_, Nat.le_refl _⟩
      split
      · have := hag.le3 v
        have := degE_le3 δ hag.le3 rhe
        omega
      · exact Nat.le_refl _
    · cases hR
  | .phi a args, h => by
    unfold degExpr
    split
    · exact h
    unfold SoundD at h
    simp only
    unfold SoundD claimD
    simp only [dann_phi, degE]
    apply claim_step δ a false _ _ (fun r hr' => by simpa [degE] using h r hr')
    intro R hR
    obtain ⟨hmem, hb⟩ := iterOpt_spec _ R hR
    constructor
    · apply maxList_le
      intro x hx
      obtain ⟨v, hv, hvx⟩ := List.mem_map.mp hx
      subst hvx
      obtain ⟨r, hr, hr2⟩ := hmem (env.degree v) (List.mem_map.mpr ⟨v, hv, rfl⟩)
      have := (hag.bound v r hr).1
      omega
    · apply hb
      intro o x ho hox
      obtain ⟨v, _, hvo⟩ := List.mem_map.mp ho
      subst hvo
      exact (hag.bound v x hox).2
theorem degExprs_sound (δ : VName → Nat) (F : VName → Prop) (env : DegEnv) (hag : AgreeD δ env F) :
    ∀ (es : Exprs) (c : Bool), SoundDs δ F es → SoundDs δ F (degExprs env es c).1
  | .nil, c, _ => by unfold degExprs; unfold SoundDs; trivial
  | .cons e r, c, h => by
    unfold SoundDs at h
    unfold degExprs
    simp only
    cases c with
    | true =>
      simp only [if_true]
      unfold SoundDs
      exact ⟨h.1, degExprs_sound δ F env hag r _ h.2⟩
    | false =>
      simp only [Bool.false_eq_true, if_false]
      unfold SoundDs
      exact ⟨degExpr_sound δ F env hag e h.1, degExprs_sound δ F env hag r _ h.2⟩
theorem degAccs_sound (δ : VName → Nat) (F : VName → Prop) (env : DegEnv) (hag : AgreeD δ env F) :
    ∀ (acc : Accs) (c : Bool), SoundDa δ F acc → SoundDa δ F (degAccs env acc c).1
  | .nil, c, _ => by unfold degAccs; unfold SoundDa; trivial
  | .cons (.idx e) r, c, h => by
    unfold SoundDa at h
    unfold degAccs
    simp only
    cases c with
    | true =>
      simp only [if_true]
      unfold SoundDa
      exact ⟨h.1, degAccs_sound δ F env hag r _ h.2⟩
    | false =>
      simp only [Bool.false_eq_true, if_false]
      unfold SoundDa
      exact ⟨degExpr_sound δ F env hag e h.1, degAccs_sound δ F env hag r _ h.2⟩
  | .cons (.cmp n) r, c, h => by
    unfold SoundDa at h
    unfold degAccs
    simp only
    unfold SoundDa
    exact degAccs_sound δ F env hag r _ h
end

end Circomspect.Propagate
