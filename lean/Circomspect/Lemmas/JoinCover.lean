/-
Why the conditions found by `get_join_conditions` (`CfgReach.joinWalk`) are the ones that matter for a join: on every path from the
entry to a block `j`, the blocks visited after the last visit of a strict dominator `d` of `j` (the immediate dominator in the code) —
`d` itself included — are all found by the walk.  Which predecessor the path enters `j` through is decided on that last stretch.
-/
import Circomspect.Lemmas.CfgReachLemmas
import Circomspect.Spec.Graph

namespace Circomspect.CfgReach
open Circomspect.Graph Circomspect.Taint

/-- the edges of a graph given by predecessor lists -/
def EdgesOf (g : Graph) (es : Edges) : Prop := ∀ a b, (a, b) ∈ es ↔ a ∈ g.pred b ∧ b < g.n

/-- consecutive nodes of a path are joined by an edge -/
theorem path_edge {g : Graph} {i a : Nat} {π : List Nat} (h : Path g i (i :: a :: π)) : a ∈ g.pred i ∧ i < g.n ∧ Path g a (a :: π) := by
  cases h with
  | step hp hj hn =>
    rename_i j
    have : j = a := by
      cases hp with
      | root => rfl
      | step _ _ _ => rfl
    subst this
    exact ⟨hj, hn, hp⟩

theorem path_head {g : Graph} {i : Nat} {π : List Nat} (h : Path g i π) : ∃ π', π = i :: π' := by
  cases h with
  | root => exact ⟨[], rfl⟩
  | step _ _ _ => exact ⟨_, rfl⟩

/-- along a path, from every node of a stretch that avoids `d` one reaches the first node of the stretch by edges that do not
    enter `d` -/
theorem stretch_reach {g : Graph} {es : Edges} (hes : EdgesOf g es) (d : Nat) :
    ∀ (pre : List Nat) (p : Nat) (rest : List Nat), Path g p (p :: (pre ++ rest)) → p ≠ d → (∀ x, x ∈ pre → x ≠ d) →
      ∀ x, x ∈ pre → Reach (es.filter (fun e => some e.2 != some d)) x p := by
  intro pre
  induction pre with
  | nil => intro p rest _ _ _ x hx; cases hx
  | cons a pre ih =>
    intro p rest hp hpd hpre x hx
    obtain ⟨hap, hpn, hpa⟩ := path_edge (by simpa using hp)
    have hedge : (a, p) ∈ es.filter (fun e => some e.2 != some d) := by
      refine List.mem_filter.mpr ⟨(hes a p).mpr ⟨hap, hpn⟩, ?_⟩
      simpa using hpd
    rcases List.mem_cons.mp hx with h1 | h1
    · subst h1
      exact Reach.step Reach.refl hedge
    · have had : a ≠ d := hpre a List.mem_cons_self
      have := ih a rest hpa had (fun y hy => hpre y (List.mem_cons_of_mem _ hy)) x h1
      exact Reach.step this hedge

/-- **the walk covers the last stretch of every path**: for a path from the entry to `j` whose nodes before `j` are `pre ++ d :: rest`
    with `d` not in `pre` (so this is the last visit of `d`), every node of `pre` and `d` itself is in `joinWalk es (some d) j` -/
theorem joinWalk_covers {g : Graph} {es : Edges} (hes : EdgesOf g es) (j d : Nat) (pre rest : List Nat)
    (hp : Path g j (j :: (pre ++ d :: rest))) (hjd : j ≠ d) (hpre : ∀ x, x ∈ pre → x ≠ d) :
    ∀ x, x ∈ pre ++ [d] → x ∈ joinWalk es (some d) j := by
  intro x hx
  rw [mem_joinWalk]
  cases pre with
  | nil =>
    -- `d` is itself the predecessor through which the path enters `j`
    obtain ⟨hdj, hjn, _⟩ := path_edge (by simpa using hp)
    have : x = d := by simpa using hx
    subst this
    exact ⟨x, (hes x j).mpr ⟨hdj, hjn⟩, Reach.refl⟩
  | cons p pre =>
    obtain ⟨hpj, hjn, hpp⟩ := path_edge (by simpa using hp)
    refine ⟨p, (hes p j).mpr ⟨hpj, hjn⟩, ?_⟩
    have hpd : p ≠ d := hpre p List.mem_cons_self
    rcases List.mem_append.mp hx with h1 | h1
    · rcases List.mem_cons.mp h1 with h2 | h2
      · subst h2; exact Reach.refl
      · have hpp' : Path g p (p :: (pre ++ d :: rest)) := by simpa using hpp
        exact stretch_reach hes d pre p (d :: rest) hpp' hpd (fun y hy => hpre y (List.mem_cons_of_mem _ hy)) x h2
    · have : x = d := by simpa using h1
      subst this
      -- the stretch `pre ++ [d]`: `d` is its last node, the nodes before it avoid `d`
      have hpp' : Path g p (p :: ((pre ++ [x]) ++ rest)) := by simpa using hpp
      -- apply the stretch lemma to `pre ++ [x]` with the weaker avoidance: only targets must differ from `x`
      have key : ∀ (pre' : List Nat) (q : Nat), Path g q (q :: (pre' ++ x :: rest)) → q ≠ x → (∀ y, y ∈ pre' → y ≠ x) →
          Reach (es.filter (fun e => some e.2 != some x)) x q := by
        intro pre'
        induction pre' with
        | nil =>
          intro q hq hqx _
          obtain ⟨hxq, hqn, _⟩ := path_edge (by simpa using hq)
          exact Reach.step Reach.refl (List.mem_filter.mpr ⟨(hes x q).mpr ⟨hxq, hqn⟩, by simpa using hqx⟩)
        | cons a pre' ih =>
          intro q hq hqx hav
          obtain ⟨haq, hqn, hqa⟩ := path_edge (by simpa using hq)
          have hax : a ≠ x := hav a List.mem_cons_self
          have := ih a hqa hax (fun y hy => hav y (List.mem_cons_of_mem _ hy))
          exact Reach.step this (List.mem_filter.mpr ⟨(hes a q).mpr ⟨haq, hqn⟩, by simpa using hqx⟩)
      exact key pre p (by simpa using hpp) hpd (fun y hy => hpre y (List.mem_cons_of_mem _ hy))

theorem first_occurrence (d : Nat) : ∀ (l : List Nat), d ∈ l → ∃ pre rest, l = pre ++ d :: rest ∧ ∀ x, x ∈ pre → x ≠ d
  | [], h => by cases h
  | a :: l, h => by
    by_cases had : a = d
    · subst had; exact ⟨[], l, rfl, by intro x hx; cases hx⟩
    · have hl : d ∈ l := by
        rcases List.mem_cons.mp h with h1 | h1
        · exact absurd h1.symm had
        · exact h1
      obtain ⟨pre, rest, e, hp⟩ := first_occurrence d l hl
      refine ⟨a :: pre, rest, by simp [e], ?_⟩
      intro x hx
      rcases List.mem_cons.mp hx with h1 | h1
      · subst h1; exact had
      · exact hp x h1

/-- for a strict dominator `d` of `j` (the immediate dominator in the code): every path from the entry to `j` visits `d`, and the
    blocks it visits after the last visit of `d`, with `d`, are blocks of the walk -/
theorem joinWalk_covers_dom {g : Graph} {es : Edges} (hes : EdgesOf g es) (j d : Nat) (hd : SDom g d j) (π : List Nat)
    (hp : Path g j π) :
    ∃ pre rest, π = j :: (pre ++ d :: rest) ∧ (∀ x, x ∈ pre → x ≠ d) ∧ ∀ x, x ∈ pre ++ [d] → x ∈ joinWalk es (some d) j := by
  obtain ⟨π', e⟩ := path_head hp
  subst e
  have hmem : d ∈ j :: π' := hd.1 _ hp
  have hmem' : d ∈ π' := by
    rcases List.mem_cons.mp hmem with h1 | h1
    · exact absurd h1 hd.2
    · exact h1
  obtain ⟨pre, rest, e, hpre⟩ := first_occurrence d π' hmem'
  subst e
  exact ⟨pre, rest, rfl, hpre, joinWalk_covers hes j d pre rest hp (fun h => hd.2 h.symm) hpre⟩

end Circomspect.CfgReach
