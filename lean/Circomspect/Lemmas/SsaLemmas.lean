/-
Lemmas for C14: soundness of the SSA certificate check along all paths. Core Lean only.
-/
import Circomspect.Model.Ssa

namespace Circomspect.SsaLemmas
open Circomspect Ssa


def AgreeOn (vars : List Var) (m1 m2 : VMap) : Prop := ∀ v ∈ vars, m1 v = m2 v

def stmtMentions (vars : List Var) (s : Stmt) : Prop :=
  (∀ t, s.target = some t → t.1 ∈ vars) ∧ (∀ r ∈ s.reads, r.1 ∈ vars) ∧ (∀ r ∈ s.implicit, r.1 ∈ vars)

theorem set_agree {vars : List Var} {m1 m2 : VMap} (h : AgreeOn vars m1 m2) (w : Var) (k : Nat) :
    AgreeOn vars (m1.set w k) (m2.set w k) := by
  intro v hv; unfold VMap.set; split
  · rfl
  · exact h v hv

theorem implicit_agree {vars : List Var} : ∀ (imp : List VVar), (∀ r ∈ imp, r.1 ∈ vars) →
    ∀ (m1 m2 : VMap), AgreeOn vars m1 m2 →
    AgreeOn vars (imp.foldl (fun m r => if m r.1 = none then m.set r.1 r.2 else m) m1)
                 (imp.foldl (fun m r => if m r.1 = none then m.set r.1 r.2 else m) m2) := by
  intro imp
  induction imp with
  | nil => intro _ m1 m2 h; exact h
  | cons r rest ih =>
    intro hs m1 m2 h
    simp only [List.foldl_cons]
    apply ih (fun x hx => hs x (List.mem_cons_of_mem _ hx))
    have hr := hs r List.mem_cons_self
    have e : m1 r.1 = m2 r.1 := h r.1 hr
    rw [e]
    split
    · exact set_agree h _ _
    · exact h

theorem preStmt_agree {vars : List Var} (s : Stmt) (hs : ∀ r ∈ s.implicit, r.1 ∈ vars)
    (m1 m2 : VMap) (h : AgreeOn vars m1 m2) : AgreeOn vars (preStmt m1 s) (preStmt m2 s) :=
  implicit_agree s.implicit hs m1 m2 h

theorem all_congr_mem {α : Type} (l : List α) (f g : α → Bool) (h : ∀ x ∈ l, f x = g x) : l.all f = l.all g := by
  induction l with
  | nil => rfl
  | cons a t ih =>
    simp only [List.all_cons]
    rw [h a List.mem_cons_self, ih (fun x hx => h x (List.mem_cons_of_mem _ hx))]

theorem execStmt_agree {vars : List Var} (s : Stmt) (hs : stmtMentions vars s) (m1 m2 : VMap)
    (h : AgreeOn vars m1 m2) : AgreeOn vars (execStmt m1 s) (execStmt m2 s) := by
  unfold execStmt
  have hp := preStmt_agree s hs.2.2 m1 m2 h
  cases s.target with
  | none => exact hp
  | some t => exact set_agree hp _ _

theorem readsOk_agree {vars : List Var} : ∀ (ss : List Stmt), (∀ s ∈ ss, stmtMentions vars s) →
    ∀ (m1 m2 : VMap), AgreeOn vars m1 m2 → readsOk m1 ss = readsOk m2 ss := by
  intro ss
  induction ss with
  | nil => intro _ m1 m2 _; rfl
  | cons s rest ih =>
    intro hs m1 m2 h
    have hs0 := hs s List.mem_cons_self
    simp only [readsOk]
    rw [ih (fun x hx => hs x (List.mem_cons_of_mem _ hx)) _ _ (execStmt_agree s hs0 m1 m2 h)]
    congr 2
    apply all_congr_mem
    intro r hr
    have := preStmt_agree s hs0.2.2 m1 m2 h r.1 (hs0.2.1 r hr)
    rw [this]

theorem execStmts_agree {vars : List Var} : ∀ (ss : List Stmt), (∀ s ∈ ss, stmtMentions vars s) →
    ∀ (m1 m2 : VMap), AgreeOn vars m1 m2 → AgreeOn vars (execStmts m1 ss) (execStmts m2 ss) := by
  intro ss
  induction ss with
  | nil => intro _ m1 m2 h; exact h
  | cons s rest ih =>
    intro hs m1 m2 h
    simp only [execStmts, List.foldl_cons]
    exact ih (fun x hx => hs x (List.mem_cons_of_mem _ hx)) _ _ (execStmt_agree s (hs s List.mem_cons_self) m1 m2 h)

/-- variables that have a phi statement in the list -/
def phiVars (ss : List Stmt) : List Var :=
  ss.filterMap (fun s => if s.isPhi then s.target.map (·.1) else none)

def phiPrefixL (ss : List Stmt) : Bool := (ss.dropWhile (·.isPhi)).all (fun s => !s.isPhi)

/-- a well-formed phi statement: it has a target and updates no array implicitly -/
def phiOk (s : Stmt) : Prop := s.isPhi = true → s.implicit = [] ∧ s.target ≠ none

/-- The block lemma: two entry maps that agree on every variable without a phi in the block lead
    to the same map at the end of the block and to the same verdict on the reads. -/
theorem block_agree {vars : List Var} : ∀ (ss : List Stmt), (∀ s ∈ ss, stmtMentions vars s) → (∀ s ∈ ss, phiOk s) →
    phiPrefixL ss = true →
    ∀ (m1 m2 : VMap), (∀ v ∈ vars, v ∉ phiVars ss → m1 v = m2 v) →
    AgreeOn vars (execStmts m1 ss) (execStmts m2 ss) ∧ readsOk m1 ss = readsOk m2 ss := by
  intro ss
  induction ss with
  | nil => intro _ _ _ m1 m2 h; exact ⟨fun v hv => h v hv (by simp [phiVars]), rfl⟩
  | cons s rest ih =>
    intro hm hp hpre m1 m2 h
    by_cases hphi : s.isPhi = true
    · -- a phi statement: both maps get the same target version
      obtain ⟨himp, htgt⟩ := hp s List.mem_cons_self hphi
      have hpre' : phiPrefixL rest = true := by
        unfold phiPrefixL at hpre ⊢
        simpa [List.dropWhile_cons, hphi] using hpre
      cases ht : s.target with
      | none => exact absurd ht htgt
      | some t =>
        have e1 : ∀ m : VMap, execStmt m s = m.set t.1 t.2 := by
          intro m; unfold execStmt preStmt; rw [himp, ht]; rfl
        have key := ih (fun x hx => hm x (List.mem_cons_of_mem _ hx)) (fun x hx => hp x (List.mem_cons_of_mem _ hx)) hpre'
          (m1.set t.1 t.2) (m2.set t.1 t.2) (by
            intro v hv hnot
            unfold VMap.set
            by_cases hvt : v = t.1
            · simp [hvt]
            · simp only [hvt, if_false]
              apply h v hv
              intro hin
              unfold phiVars at hin hnot
              simp only [List.filterMap_cons, hphi, if_true, ht, Option.map_some] at hin
              rcases List.mem_cons.mp hin with e | e
              · exact hvt e
              · exact hnot e)
        constructor
        · simp only [execStmts, List.foldl_cons, e1]; exact key.1
        · simp only [readsOk, hphi, Bool.true_or, Bool.true_and, e1]; exact key.2
    · -- the first non-phi statement: no phi follows, the maps agree on all variables
      have hno : ∀ x ∈ s :: rest, x.isPhi = false := by
        unfold phiPrefixL at hpre
        have hs' : s.isPhi = false := by simpa using hphi
        simp only [List.dropWhile_cons, hs', Bool.false_eq_true, if_false, List.all_eq_true, Bool.not_eq_true'] at hpre
        exact hpre
      have hpv : phiVars (s :: rest) = [] := by
        unfold phiVars
        apply List.filterMap_eq_nil_iff.mpr
        intro x hx; simp [hno x hx]
      have hag : AgreeOn vars m1 m2 := fun v hv => h v hv (by rw [hpv]; simp)
      exact ⟨execStmts_agree _ hm m1 m2 hag, readsOk_agree _ hm m1 m2 hag⟩


/-- a path of blocks from the entry, last block first; edges are read off the predecessor sets -/
inductive SPath (c : Cfg) : Nat → List Nat → Prop
  | root : SPath c 0 [0]
  | step {p b : Nat} {π : List Nat} : SPath c p π → p ∈ (c.block b).preds → b < c.blocks.length → SPath c b (b :: π)

/-- the version map obtained by actually executing the blocks of a path in order -/
def dynOut (c : Cfg) : List Nat → VMap
  | [] => entryMap c.params
  | b :: rest => execStmts (dynOut c rest) (c.block b).stmts

theorem phiFor_none_iff (b : Block) (v : Var) : phiFor b v = none ↔ v ∉ phiVars b.stmts := by
  unfold phiFor phiVars
  rw [Option.map_eq_none_iff, List.find?_eq_none]
  simp only [List.mem_filterMap]
  constructor
  · intro h ⟨s, hs, he⟩
    have := h s hs
    by_cases hp : s.isPhi = true
    · simp only [hp, if_true] at he
      cases ht : s.target with
      | none => rw [ht] at he; simp at he
      | some t =>
        rw [ht] at he; simp at he
        simp [hp, ht, he] at this
    · simp [hp] at he
  · intro h s hs hcon
    apply h
    refine ⟨s, hs, ?_⟩
    simp only [Bool.and_eq_true] at hcon
    obtain ⟨hp, ht⟩ := hcon
    simp only [hp, if_true]
    cases hts : s.target with
    | none => rw [hts] at ht; simp at ht
    | some t => rw [hts] at ht; simp at ht; simp [ht]

theorem block_mem {c : Cfg} {i : Nat} (hi : i < c.blocks.length) : c.block i ∈ c.blocks := by
  unfold Cfg.block
  rw [List.getD_eq_getElem?_getD, List.getElem?_eq_getElem hi]
  simp

structure Checked (c : Cfg) (vars : List Var) (ins : Nat → VMap) : Prop where
  mentions : ∀ b ∈ c.blocks, ∀ s ∈ b.stmts, stmtMentions vars s
  entry : AgreeOn vars (ins 0) (entryMap c.params)
  prefix_ : ∀ i, i < c.blocks.length → phiPrefixL (c.block i).stmts = true ∧ ∀ s ∈ (c.block i).stmts, phiOk s
  edge : ∀ i, i < c.blocks.length → ∀ p ∈ (c.block i).preds, ∀ v ∈ vars,
    match phiFor (c.block i) v with
    | some args => (match outOf c ins p v with | some k => (v, k) ∈ args | none => True)
    | none => outOf c ins p v = ins i v
  reads : ∀ i, i < c.blocks.length → readsOk (ins i) (c.block i).stmts = true
  pos : 0 < c.blocks.length

theorem checked_of_check (c : Cfg) (vars : List Var) (ins : Nat → VMap) (hn : 0 < c.blocks.length)
    (h : ssaLocalCheck c vars ins = true) : Checked c vars ins := by
  unfold ssaLocalCheck at h
  simp only [Bool.and_eq_true, List.all_eq_true, List.mem_range] at h
  obtain ⟨⟨⟨hm, _⟩, he⟩, hb⟩ := h
  refine { mentions := ?_, entry := ?_, prefix_ := ?_, edge := ?_, reads := ?_, pos := hn }
  · unfold Ssa.mentions at hm
    simp only [Bool.and_eq_true, List.all_eq_true] at hm
    intro b hb' s hs
    have := hm.2 b hb' s hs
    refine ⟨?_, ?_, ?_⟩
    · intro t ht; have h1 := this.1.1; rw [ht] at h1; simpa using h1
    · intro r hr; simpa using this.1.2 r hr
    · intro r hr; simpa using this.2 r hr
  · intro v hv; simpa using he v hv
  · intro i hi
    have := (hb i hi).1.1
    unfold phiPrefix at this
    simp only [Bool.and_eq_true, List.all_eq_true] at this
    refine ⟨by unfold phiPrefixL; simpa using this.1, ?_⟩
    intro s hs hp
    have := this.2 s hs
    simp only [hp, Bool.not_true, Bool.false_or, Bool.and_eq_true, List.isEmpty_iff, Option.isSome_iff_ne_none] at this
    exact ⟨this.1, this.2⟩
  · intro i hi p hp v hv
    have := (hb i hi).1.2 p hp v hv
    cases hphi : phiFor (c.block i) v with
    | some args =>
      rw [hphi] at this; simp only at this ⊢
      cases ho : outOf c ins p v with
      | none => trivial
      | some k => rw [ho] at this; simpa using this
    | none => rw [hphi] at this; simpa using this
  · intro i hi; exact (hb i hi).2

/-- Soundness of the certificate check: along **every** path from the entry the map obtained by
    executing the path agrees with the certificate at the end of the last block, and the reads of
    the last block are correct when evaluated in the *dynamic* map. -/
theorem path_sound (c : Cfg) (vars : List Var) (ins : Nat → VMap) (h : Checked c vars ins) :
    ∀ b π, SPath c b π →
      AgreeOn vars (dynOut c π) (outOf c ins b) ∧ readsOk (dynOut c π.tail) (c.block b).stmts = true := by
  intro b π hπ
  induction hπ with
  | root =>
    have hpre := h.prefix_ 0 h.pos
    have := block_agree (vars := vars) (c.block 0).stmts (h.mentions _ (block_mem h.pos)) hpre.2 hpre.1
      (entryMap c.params) (ins 0) (fun v hv _ => (h.entry v hv).symm)
    refine ⟨this.1, ?_⟩
    simp only [List.tail_cons, dynOut]
    rw [this.2]; exact h.reads 0 h.pos
  | @step p b π hp hpb hb ih =>
    have hpre := h.prefix_ b hb
    have hin : ∀ v ∈ vars, v ∉ phiVars (c.block b).stmts → dynOut c π v = ins b v := by
      intro v hv hnot
      have hnone := (phiFor_none_iff (c.block b) v).mpr hnot
      have he := h.edge b hb p hpb v hv
      rw [hnone] at he
      rw [ih.1 v hv]; exact he
    have := block_agree (vars := vars) (c.block b).stmts (h.mentions _ (block_mem hb)) hpre.2 hpre.1
      (dynOut c π) (ins b) hin
    refine ⟨this.1, ?_⟩
    simp only [List.tail_cons]
    rw [this.2]; exact h.reads b hb

/-- phi arguments: the version current at the end of an incoming path is among the arguments -/
theorem phi_args_sound (c : Cfg) (vars : List Var) (ins : Nat → VMap) (h : Checked c vars ins)
    (p b : Nat) (π : List Nat) (hπ : SPath c p π) (hpb : p ∈ (c.block b).preds) (hb : b < c.blocks.length)
    (v : Var) (hv : v ∈ vars) (args : List VVar) (hphi : phiFor (c.block b) v = some args) (k : Nat)
    (hk : dynOut c π v = some k) : (v, k) ∈ args := by
  have := (path_sound c vars ins h p π hπ).1 v hv
  have he := h.edge b hb p hpb v hv
  rw [hphi] at he
  rw [this] at hk
  rw [hk] at he
  exact he


/-- `readsOk` spelled out: every read of every non-phi statement names the version that is
    current at that statement -/
theorem readsOk_pointwise : ∀ (ss : List Stmt) (m : VMap), readsOk m ss = true →
    ∀ (pre : List Stmt) (s : Stmt) (post : List Stmt), ss = pre ++ s :: post → s.isPhi = false →
    ∀ r ∈ s.reads, preStmt (execStmts m pre) s r.1 = some r.2 := by
  intro ss
  induction ss with
  | nil => intro m _ pre s post h; simp at h
  | cons a rest ih =>
    intro m hr pre s post hsplit hphi r hrm
    simp only [readsOk, Bool.and_eq_true] at hr
    cases pre with
    | nil =>
      simp only [List.nil_append, List.cons.injEq] at hsplit
      obtain ⟨e, _⟩ := hsplit
      subst e
      have := hr.1
      simp only [hphi, Bool.false_or, List.all_eq_true] at this
      simpa [execStmts] using this r hrm
    | cons p pre' =>
      simp only [List.cons_append, List.cons.injEq] at hsplit
      obtain ⟨e, e2⟩ := hsplit
      subst e
      have := ih (execStmt m a) hr.2 pre' s post e2 hphi r hrm
      simpa [execStmts] using this


end Circomspect.SsaLemmas
